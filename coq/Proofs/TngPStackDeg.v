(* Vertical composition, part 4: Cob::stack adds degrees.
   [stack_wf a b]: the source tangles of the components of `a` are pairwise disjoint and simple, so are the target
   tangles of `a` and the source tangles of `b` (the two descriptions of the middle tangle), and every component of one
   description of the middle tangle is == (TngComp's unoriented equality, in the argument order the code uses) to a
   component of the other.  Under [stack_wf], whenever Cob::stack returns:
     the groups found by take_stackable_comps are closed (no component left in the pools touches them), the numbers
     of middle arcs of the two halves of a group agree, and  deg (stack a b) = deg a + deg b. *)
From Coq Require Import List Arith Bool Lia ZArith Permutation Sorted.
Import ListNotations.
Require Import Yui.Model.Link Yui.Model.Tng Yui.Model.TngCob Yui.Model.TngStack.
Require Import Yui.Proofs.TngPBase Yui.Proofs.TngPSegs Yui.Proofs.TngPDeg Yui.Proofs.TngPJoin Yui.Proofs.TngPStep
  Yui.Proofs.TngPSeq Yui.Proofs.TngPConn Yui.Proofs.TngPMain Yui.Proofs.TngPCob Yui.Proofs.TngPCobDeg
  Yui.Proofs.TngPStackBase Yui.Proofs.TngPStackBfs Yui.Proofs.TngPStackWf.

(* ---------- closure of the group found by take_stackable_comps ---------- *)
Definition closed_group (bot' top' gb gt : list cobcomp) : Prop :=
  (forall b m t, In b gb -> In m (ctgt b) -> In t top' -> hit csrc m t = false) /\
  (forall t m b, In t gt -> In m (csrc t) -> In b bot' -> hit ctgt m b = false).

Theorem take_stackable_closed : forall bot top bot' top' gb gt,
  tng_inv (flat ctgt bot) -> tng_inv (flat csrc top) ->
  take_stackable bot top = Some (bot', top', gb, gt) -> closed_group bot' top' gb gt.
Proof.
  intros [|b bot] [|t top] bot' top' gb gt Ib It; cbn [take_stackable].
  - intros E. inversion E; subst. split; intros ? ? ? [].
  - intros E. apply (bfs_closed _ _ _ _ _ _ _ _ _ _ _ E).
    + intros b m [] _.
    + intros t' m _ _. cbn. lia.
    + intros b m t' [].
    + intros t' m b [].
  - intros E. apply (bfs_closed _ _ _ _ _ _ _ _ _ _ _ E).
    + intros b' m _ _. cbn. lia.
    + intros t' m [] _.
    + intros b' m t' [].
    + intros t' m b' [].
  - intros E. apply (bfs_closed _ _ _ _ _ _ _ _ _ _ _ E).
    + intros b' m _ _. apply cnt_le1. exact It.
    + intros t' m _ _. apply cnt_le1. unfold flat in *. cbn [flat_map] in Ib. apply inv_app in Ib. tauto.
    + intros b' m t' [].
    + intros t' m b' [].
Qed.

(* ---------- well-formed pairs ---------- *)
Record stack_wf (a b : list cobcomp) : Prop := mk_stack_wf {
  wf_src : tng_inv (flat csrc a);
  wf_mid_b : tng_inv (flat ctgt a);
  wf_mid_t : tng_inv (flat csrc b);
  wf_match_bt : forall m, In m (flat ctgt a) -> exists m', In m' (flat csrc b) /\ unori_eq m' m = true;
  wf_match_tb : forall m', In m' (flat csrc b) -> exists m, In m (flat ctgt a) /\ unori_eq m m' = true }.

Lemma same_comp_shares : forall p q, simple p -> same_comp p q -> exists v, In v (pedges p) /\ In v (pedges q).
Proof.
  intros p q Sp [_ Hs]. pose proof (simple_ne p Sp) as Hne. destruct (pedges p) as [|v l] eqn:E; [contradiction|].
  exists v. split; [left; reflexivity|]. apply Hs. left. reflexivity.
Qed.

(* in a well-formed pair TngComp's == between the two descriptions of the middle tangle is symmetric *)
Lemma wf_sym_bt : forall a b m m', stack_wf a b -> In m (flat ctgt a) -> In m' (flat csrc b) ->
  unori_eq m' m = true -> unori_eq m m' = true.
Proof.
  intros a b m m' W Hm Hm' He. destruct (wf_match_tb a b W m' Hm') as (p & Hp & Hpe).
  assert (Sp : simple p) by (eapply inv_simple_in; [apply (wf_mid_b a b W)|exact Hp]).
  assert (Sm' : simple m') by (eapply inv_simple_in; [apply (wf_mid_t a b W)|exact Hm']).
  pose proof (unori_eq_sound p m' (proj1 Sp) Hpe) as C1. pose proof (unori_eq_sound m' m (proj1 Sm') He) as C2.
  destruct (same_comp_shares p m' Sp C1) as (v & Hv & Hv').
  assert (E : p = m).
  { apply (inv_same_comp (flat ctgt a) p m v (wf_mid_b a b W)); auto. apply C2. exact Hv'. }
  subst p. exact Hpe.
Qed.

Lemma wf_sym_tb : forall a b m m', stack_wf a b -> In m (flat ctgt a) -> In m' (flat csrc b) ->
  unori_eq m m' = true -> unori_eq m' m = true.
Proof.
  intros a b m m' W Hm Hm' He. destruct (wf_match_bt a b W m Hm) as (p & Hp & Hpe).
  assert (Sp : simple p) by (eapply inv_simple_in; [apply (wf_mid_t a b W)|exact Hp]).
  assert (Sm : simple m) by (eapply inv_simple_in; [apply (wf_mid_b a b W)|exact Hm]).
  pose proof (unori_eq_sound p m (proj1 Sp) Hpe) as C1. pose proof (unori_eq_sound m m' (proj1 Sm) He) as C2.
  destruct (same_comp_shares p m Sp C1) as (v & Hv & Hv').
  assert (E : p = m').
  { apply (inv_same_comp (flat csrc b) p m' v (wf_mid_t a b W)); auto. apply C2. exact Hv'. }
  subst p. exact Hpe.
Qed.

Lemma flat_perm : forall sel l l', Permutation l l' -> Permutation (flat sel l) (flat sel l').
Proof. intros. unfold flat. apply Permutation_flat_map. assumption. Qed.
Lemma flat_app : forall sel l l', flat sel (l ++ l') = flat sel l ++ flat sel l'.
Proof. intros. unfold flat. apply flat_map_app. Qed.
Lemma flat_in_inv : forall sel pool m, In m (flat sel pool) -> exists t, In t pool /\ In m (sel t).
Proof. intros sel pool m Hm. unfold flat in Hm. apply in_flat_map in Hm. exact Hm. Qed.

(* the partner of a middle component of a closed group lies in the group *)
Lemma partner_in_group_bt : forall a b bot' top' gb gt m, stack_wf a b ->
  Permutation a (bot' ++ gb) -> Permutation b (top' ++ gt) -> closed_group bot' top' gb gt ->
  In m (flat ctgt gb) -> exists m', In m' (flat csrc gt) /\ unori_eq m' m = true.
Proof.
  intros a b bot' top' gb gt m W Pa Pb [C1 _] Hm.
  destruct (flat_in_inv _ _ _ Hm) as (b0 & Hb0 & Hmb).
  assert (Hma : In m (flat ctgt a)).
  { eapply Permutation_in; [apply Permutation_sym; apply flat_perm; exact Pa|]. rewrite flat_app. apply in_or_app. right. exact Hm. }
  destruct (wf_match_bt a b W m Hma) as (m' & Hm' & He).
  destruct (flat_in_inv _ _ _ Hm') as (t & Ht & Hmt).
  assert (Ht' : In t (top' ++ gt)) by (eapply Permutation_in; eauto).
  apply in_app_or in Ht'. destruct Ht' as [Ht'|Ht'].
  - exfalso. assert (Hh : hit csrc m t = true) by (apply hit_iff; exists m'; auto).
    rewrite (C1 b0 m t Hb0 Hmb Ht') in Hh. discriminate.
  - exists m'. split; auto. eapply flat_in; eauto.
Qed.

Lemma partner_in_group_tb : forall a b bot' top' gb gt m', stack_wf a b ->
  Permutation a (bot' ++ gb) -> Permutation b (top' ++ gt) -> closed_group bot' top' gb gt ->
  In m' (flat csrc gt) -> exists m, In m (flat ctgt gb) /\ unori_eq m m' = true.
Proof.
  intros a b bot' top' gb gt m' W Pa Pb [_ C2] Hm'.
  destruct (flat_in_inv _ _ _ Hm') as (t0 & Ht0 & Hmt).
  assert (Hmb : In m' (flat csrc b)).
  { eapply Permutation_in; [apply Permutation_sym; apply flat_perm; exact Pb|]. rewrite flat_app. apply in_or_app. right. exact Hm'. }
  destruct (wf_match_tb a b W m' Hmb) as (m & Hm & He).
  destruct (flat_in_inv _ _ _ Hm) as (b0 & Hb0 & Hmb0).
  assert (Hb' : In b0 (bot' ++ gb)) by (eapply Permutation_in; eauto).
  apply in_app_or in Hb'. destruct Hb' as [Hb'|Hb'].
  - exfalso. assert (Hh : hit ctgt m' b0 = true) by (apply hit_iff; exists m; auto).
    rewrite (C2 t0 m' b0 Ht0 Hmt Hb') in Hh. discriminate.
  - exists m. split; auto. eapply flat_in; eauto.
Qed.

(* the pair of the remaining pools is again well formed *)
Lemma wf_rest : forall a b bot' top' gb gt, stack_wf a b ->
  Permutation a (bot' ++ gb) -> Permutation b (top' ++ gt) -> closed_group bot' top' gb gt -> stack_wf bot' top'.
Proof.
  intros a b bot' top' gb gt W Pa Pb [C1 C2].
  constructor.
  - apply (flat_sub csrc a bot' gb Pa (wf_src a b W)).
  - apply (flat_sub ctgt a bot' gb Pa (wf_mid_b a b W)).
  - apply (flat_sub csrc b top' gt Pb (wf_mid_t a b W)).
  - intros m Hm. destruct (flat_in_inv _ _ _ Hm) as (b0 & Hb0 & Hmb).
    assert (Hma : In m (flat ctgt a)).
    { eapply Permutation_in; [apply Permutation_sym; apply flat_perm; exact Pa|]. rewrite flat_app. apply in_or_app. left. exact Hm. }
    destruct (wf_match_bt a b W m Hma) as (m' & Hm' & He).
    destruct (flat_in_inv _ _ _ Hm') as (t & Ht & Hmt).
    assert (Ht' : In t (top' ++ gt)) by (eapply Permutation_in; eauto).
    apply in_app_or in Ht'. destruct Ht' as [Ht'|Ht'].
    + exists m'. split; auto. eapply flat_in; eauto.
    + exfalso. assert (Hh : hit ctgt m' b0 = true).
      { apply hit_iff. exists m. split; auto. eapply wf_sym_bt; eauto. }
      rewrite (C2 t m' b0 Ht' Hmt Hb0) in Hh. discriminate.
  - intros m' Hm'. destruct (flat_in_inv _ _ _ Hm') as (t0 & Ht0 & Hmt).
    assert (Hmb : In m' (flat csrc b)).
    { eapply Permutation_in; [apply Permutation_sym; apply flat_perm; exact Pb|]. rewrite flat_app. apply in_or_app. left. exact Hm'. }
    destruct (wf_match_tb a b W m' Hmb) as (m & Hm & He).
    destruct (flat_in_inv _ _ _ Hm) as (b0 & Hb0 & Hmb0).
    assert (Hb' : In b0 (bot' ++ gb)) by (eapply Permutation_in; eauto).
    apply in_app_or in Hb'. destruct Hb' as [Hb'|Hb'].
    + exists m. split; auto. eapply flat_in; eauto.
    + exfalso. assert (Hh : hit csrc m t0 = true).
      { apply hit_iff. exists m'. split; auto. eapply wf_sym_tb; eauto. }
      rewrite (C1 b0 m t0 Hb' Hmb0 Ht0) in Hh. discriminate.
Qed.

(* ---------- counting arcs by their least labels ---------- *)
Definition akeys (t : list path) : list nat := map minv (filter p_is_arc t).

Lemma akeys_length : forall t, length (akeys t) = tng_euler_num t.
Proof. intros. unfold akeys, tng_euler_num. apply map_length. Qed.

Lemma akeys_in : forall t k, In k (akeys t) <-> exists m, In m t /\ pclosed m = false /\ minv m = k.
Proof.
  intros t k. unfold akeys. rewrite in_map_iff. split.
  - intros (m & E & Hm). apply filter_In in Hm. destruct Hm as [Hm Ha]. exists m. unfold p_is_arc in Ha.
    apply negb_true_iff in Ha. auto.
  - intros (m & Hm & Hc & E). exists m. split; auto. apply filter_In. split; auto. unfold p_is_arc. rewrite Hc. reflexivity.
Qed.

Lemma akeys_nodup : forall t, tng_inv t -> NoDup (akeys t).
Proof.
  induction t as [|c r IH]; intros Hi; [constructor|]. apply inv_cons in Hi. destruct Hi as (Sc & Ir & Hd).
  unfold akeys. cbn [filter]. destruct (p_is_arc c) eqn:Ha; [|apply IH; exact Ir].
  cbn [map]. constructor; [|apply IH; exact Ir]. fold (akeys r). intros Hk. apply akeys_in in Hk.
  destruct Hk as (m & Hm & _ & E).
  assert (Sm : simple m) by (eapply inv_simple_in; eauto).
  destruct (minv_spec c (simple_ne _ Sc)) as [I1 _]. destruct (minv_spec m (simple_ne _ Sm)) as [I2 _].
  apply (Hd (minv c) I1). apply in_verts. exists m. split; auto. rewrite <- E. exact I2.
Qed.

Lemma same_comp_minv : forall p q, simple p -> simple q -> same_comp p q -> minv p = minv q.
Proof. intros p q Sp Sq [_ Hs]. apply minv_same_set; auto; apply simple_ne; auto. Qed.

(* the two halves of a closed group have the same number of middle arcs *)
Theorem group_arcs_balanced : forall a b bot' top' gb gt, stack_wf a b ->
  Permutation a (bot' ++ gb) -> Permutation b (top' ++ gt) -> closed_group bot' top' gb gt ->
  tng_euler_num (flat ctgt gb) = tng_euler_num (flat csrc gt).
Proof.
  intros a b bot' top' gb gt W Pa Pb Cl.
  assert (Ib : tng_inv (flat ctgt gb)) by (apply (flat_sub ctgt a bot' gb Pa (wf_mid_b a b W))).
  assert (It : tng_inv (flat csrc gt)) by (apply (flat_sub csrc b top' gt Pb (wf_mid_t a b W))).
  rewrite <- !akeys_length. apply Nat.le_antisymm; apply NoDup_incl_length; try (apply akeys_nodup; assumption).
  - intros k Hk. apply akeys_in in Hk. destruct Hk as (m & Hm & Hc & <-).
    destruct (partner_in_group_bt a b bot' top' gb gt m W Pa Pb Cl Hm) as (m' & Hm' & He).
    assert (Sm' : simple m') by (exact (inv_simple_in _ _ It Hm')). assert (Sm : simple m) by (exact (inv_simple_in _ _ Ib Hm)).
    pose proof (unori_eq_sound m' m (proj1 Sm') He) as C. apply akeys_in. exists m'. split; auto.
    split; [destruct C as [C _]; congruence|apply same_comp_minv; auto].
  - intros k Hk. apply akeys_in in Hk. destruct Hk as (m' & Hm' & Hc & <-).
    destruct (partner_in_group_tb a b bot' top' gb gt m' W Pa Pb Cl Hm') as (m & Hm & He).
    assert (Sm' : simple m') by (exact (inv_simple_in _ _ It Hm')). assert (Sm : simple m) by (exact (inv_simple_in _ _ Ib Hm)).
    pose proof (unori_eq_sound m m' (proj1 Sm) He) as C. apply akeys_in. exists m. split; auto.
    split; [destruct C as [C _]; congruence|apply same_comp_minv; auto].
Qed.

(* ---------- degrees ---------- *)
Definition oadd (x y : option Z) : option Z := match x, y with Some u, Some v => Some (u + v)%Z | _, _ => None end.
Definition euls (s : list cobcomp) : option Z := sum_opt (map cc_euler s).
Definition arcs_of (sel : cobcomp -> tng) (l : list cobcomp) : nat := sum_nat (map (fun c => tng_euler_num (sel c)) l).
Definition dots_of (l : list cobcomp) : nat := sum_nat (map cdx l) + sum_nat (map cdy l).

Lemma degs_app : forall a b, degs (a ++ b) = oadd (degs a) (degs b).
Proof. intros. unfold degs. rewrite map_app. apply sum_opt_app. Qed.

Lemma euler_num_app : forall a b, tng_euler_num (a ++ b) = tng_euler_num a + tng_euler_num b.
Proof. intros. unfold tng_euler_num. rewrite filter_app, app_length. reflexivity. Qed.
Lemma euler_num_perm : forall a b, Permutation a b -> tng_euler_num a = tng_euler_num b.
Proof.
  intros a b Hp. unfold tng_euler_num. induction Hp; cbn [filter].
  - reflexivity.
  - destruct (p_is_arc x); cbn [length]; lia.
  - destruct (p_is_arc x), (p_is_arc y); cbn [length]; lia.
  - lia.
Qed.
Lemma euler_num_flat : forall sel l, tng_euler_num (flat sel l) = arcs_of sel l.
Proof.
  intros sel. induction l as [|c r IH]; [reflexivity|]. unfold flat, arcs_of in *. cbn [flat_map map sum_nat fold_right].
  rewrite euler_num_app, IH. reflexivity.
Qed.

(* deg = chi - #arcs of the source - 2 #dots when the source tangle is simple and disjoint *)
Lemma cc_deg_inv : forall c, tng_inv (csrc c) ->
  cc_deg c = match cc_euler c with
             | Some x => Some (x - Z.of_nat (tng_euler_num (csrc c)) - 2 * Z.of_nat (cdx c + cdy c))%Z
             | None => None
             end.
Proof.
  intros c Hi. unfold cc_deg. destruct (cc_euler c) as [x|]; [|reflexivity].
  rewrite (endpts_set_inv _ Hi), endpts_length, half_double. reflexivity.
Qed.

Lemma flat_inv_in : forall sel l c, tng_inv (flat sel l) -> In c l -> tng_inv (sel c).
Proof.
  intros sel l c Hi Hc. destruct (in_split _ _ Hc) as (l1 & l2 & ->).
  rewrite flat_app in Hi. unfold flat at 2 in Hi. cbn [flat_map] in Hi.
  apply inv_app in Hi. destruct Hi as (_ & Hi & _). apply inv_app in Hi. tauto.
Qed.

Lemma degs_of_euls : forall l x, (forall c, In c l -> tng_inv (csrc c)) -> euls l = Some x ->
  degs l = Some (x - Z.of_nat (arcs_of csrc l) - 2 * Z.of_nat (dots_of l))%Z.
Proof.
  induction l as [|c r IH]; intros x Hi.
  - intros E. inversion E. reflexivity.
  - assert (A : arcs_of csrc (c :: r) = tng_euler_num (csrc c) + arcs_of csrc r) by reflexivity.
    assert (D : dots_of (c :: r) = cdx c + cdy c + dots_of r) by (unfold dots_of, sum_nat; cbn [map fold_right]; lia).
    rewrite A, D. unfold euls, degs in *. cbn [map sum_opt].
    rewrite (cc_deg_inv c) by (apply Hi; left; reflexivity).
    destruct (cc_euler c) as [xc|]; [|discriminate].
    destruct (sum_opt (map cc_euler r)) as [xr|] eqn:Er; [|discriminate]. intros E. inversion E; subst x.
    rewrite (IH xr (fun c0 H0 => Hi c0 (or_intror H0)) eq_refl). f_equal. lia.
Qed.

(* the component built from a closed group *)
Definition omap_sub (a : nat) (x : option Z) : option Z := option_map (fun v => (v - Z.of_nat a)%Z) x.

Theorem group_deg : forall gb gt c, stack_comps gb gt = Some c ->
  tng_inv (flat csrc gb) -> (forall t, In t gt -> tng_inv (csrc t)) ->
  arcs_of ctgt gb = arcs_of csrc gt ->
  cc_deg c = oadd (degs gb) (degs gt) /\
  cc_euler c = omap_sub (arcs_of ctgt gb) (oadd (euls gb) (euls gt)) /\
  Permutation (csrc c) (flat csrc gb).
Proof.
  intros gb gt c E Ib It Hbal.
  destruct (stack_comps_spec _ _ _ E) as (_ & _ & x0 & x1 & E0 & E1 & Ec & Es & _ & Ex & Ey).
  destruct (fold_connect_disjoint (map csrc gb)) as (r & Er & Pr & _); [rewrite concat_map_flat; exact Ib|].
  rewrite Es in Er. inversion Er; subst r. rewrite concat_map_flat in Pr.
  assert (Ic : tng_inv (csrc c)) by (eapply inv_perm; [apply Permutation_sym; exact Pr|exact Ib]).
  rewrite (cc_deg_inv c Ic), Ec.
  rewrite (degs_of_euls gb x0) by (auto; intros b Hb; eapply flat_inv_in; eauto).
  rewrite (degs_of_euls gt x1) by auto.
  rewrite (euler_num_perm _ _ Pr), euler_num_flat. fold (arcs_of ctgt gb). rewrite Hbal, Ex, Ey.
  unfold euls. rewrite E0, E1. unfold oadd, omap_sub, dots_of. cbn [option_map].
  split; [f_equal; lia|]. split; [reflexivity|exact Pr].
Qed.

(* ---------- the loop of Cob::stack ---------- *)
Lemma oadd_0_r : forall x, oadd x (Some 0%Z) = x.
Proof. intros [x|]; cbn; [f_equal; lia|reflexivity]. Qed.
Lemma oadd_0_l : forall x, oadd (Some 0%Z) x = x.
Proof. intros [x|]; cbn; reflexivity. Qed.

Lemma degs_single : forall x, degs [x] = cc_deg x.
Proof. intros x. unfold degs. cbn. destruct (cc_deg x); [f_equal; lia|reflexivity]. Qed.
Lemma euls_single : forall x, euls [x] = cc_euler x.
Proof. intros x. unfold euls. cbn. destruct (cc_euler x); [f_equal; lia|reflexivity]. Qed.
Lemma euls_app : forall a b, euls (a ++ b) = oadd (euls a) (euls b).
Proof. intros. unfold euls. rewrite map_app. apply sum_opt_app. Qed.
Lemma euls_perm : forall a b, Permutation a b -> euls a = euls b.
Proof. intros a b Hp. unfold euls. apply sum_opt_perm. apply Permutation_map. exact Hp. Qed.
Lemma arcs_of_app : forall sel a b, arcs_of sel (a ++ b) = arcs_of sel a + arcs_of sel b.
Proof. intros. rewrite <- !euler_num_flat, flat_app. apply euler_num_app. Qed.
Lemma arcs_of_perm : forall sel a b, Permutation a b -> arcs_of sel a = arcs_of sel b.
Proof. intros. rewrite <- !euler_num_flat. apply euler_num_perm. apply flat_perm. assumption. Qed.

(* a bottom component collected alone has an empty target tangle; a top component collected alone (the bottom pool is
   empty then) has an empty source tangle *)
Lemma single_bot_closed : forall bot top bot' top' x m, stack_wf bot top ->
  Permutation bot (bot' ++ [x]) -> Permutation top (top' ++ []) -> closed_group bot' top' [x] [] ->
  In m (ctgt x) -> False.
Proof.
  intros bot top bot' top' x m W Pa Pb Cl Hm.
  destruct (partner_in_group_bt bot top bot' top' [x] [] m W Pa Pb Cl) as (m' & [] & _).
  unfold flat. cbn [flat_map]. rewrite app_nil_r. exact Hm.
Qed.

Lemma single_top_closed : forall top m', stack_wf [] top -> In m' (flat csrc top) -> False.
Proof. intros top m' W Hm'. destruct (wf_match_tb _ _ W m' Hm') as (m & [] & _). Qed.

Lemma stack_loop_deg : forall fuel bot top acc out, stack_wf bot top ->
  stack_loop fuel bot top acc = Some (Some out) ->
  degs out = oadd (degs acc) (oadd (degs bot) (degs top)) /\
  euls out = oadd (euls acc) (omap_sub (arcs_of ctgt bot) (oadd (euls bot) (euls top))) /\
  Permutation (flat csrc out) (flat csrc acc ++ flat csrc bot).
Proof.
  induction fuel as [|f IH]; intros bot top acc out W; cbn [stack_loop].
  - destruct (is_nil bot && is_nil top) eqn:En; [|discriminate].
    apply andb_true_iff in En. destruct En as [E1 E2]. destruct bot; [|discriminate]. destruct top; [|discriminate].
    intros E. inversion E; subst. cbn. rewrite !oadd_0_r, app_nil_r. repeat split; auto.
  - destruct (is_nil bot && is_nil top) eqn:En.
    { apply andb_true_iff in En. destruct En as [E1 E2]. destruct bot; [|discriminate]. destruct top; [|discriminate].
      intros E. inversion E; subst. cbn. rewrite !oadd_0_r, app_nil_r. repeat split; auto. }
    destruct (take_stackable bot top) as [[[[bot' top'] gb] gt]|] eqn:Et; [|discriminate].
    destruct (take_stackable_perm _ _ _ _ _ _ Et) as (Pa & Pb & _ & Hhd & _).
    pose proof (take_stackable_closed _ _ _ _ _ _ (wf_mid_b _ _ W) (wf_mid_t _ _ W) Et) as Cl.
    pose proof (wf_rest _ _ _ _ _ _ W Pa Pb Cl) as W'.
    assert (Db : degs bot = oadd (degs bot') (degs gb)) by (rewrite (degs_perm _ _ Pa); apply degs_app).
    assert (Dt : degs top = oadd (degs top') (degs gt)) by (rewrite (degs_perm _ _ Pb); apply degs_app).
    assert (Eb : euls bot = oadd (euls bot') (euls gb)) by (rewrite (euls_perm _ _ Pa); apply euls_app).
    assert (Et' : euls top = oadd (euls top') (euls gt)) by (rewrite (euls_perm _ _ Pb); apply euls_app).
    assert (Ab : arcs_of ctgt bot = arcs_of ctgt bot' + arcs_of ctgt gb) by (rewrite (arcs_of_perm _ _ _ Pa); apply arcs_of_app).
    assert (Fb : Permutation (flat csrc bot) (flat csrc bot' ++ flat csrc gb)) by (rewrite <- flat_app; apply flat_perm; exact Pa).
    assert (Step : forall x, cc_deg x = oadd (degs gb) (degs gt) ->
              cc_euler x = omap_sub (arcs_of ctgt gb) (oadd (euls gb) (euls gt)) ->
              Permutation (csrc x) (flat csrc gb) ->
              stack_loop f bot' top' (acc ++ [x]) = Some (Some out) ->
              degs out = oadd (degs acc) (oadd (degs bot) (degs top)) /\
              euls out = oadd (euls acc) (omap_sub (arcs_of ctgt bot) (oadd (euls bot) (euls top))) /\
              Permutation (flat csrc out) (flat csrc acc ++ flat csrc bot)).
    { intros x Hx Hex Px E. destruct (IH _ _ _ _ W' E) as (D & Eu & P). split; [|split].
      - rewrite D, degs_app, degs_single, Hx, Db, Dt.
        destruct (degs acc), (degs bot'), (degs top'), (degs gb), (degs gt); cbn; try reflexivity. f_equal. lia.
      - rewrite Eu, euls_app, euls_single, Hex, Eb, Et', Ab. unfold omap_sub.
        destruct (euls acc), (euls bot'), (euls top'), (euls gb), (euls gt); cbn; try reflexivity. f_equal. lia.
      - eapply perm_trans; [exact P|]. rewrite flat_app. unfold flat at 2. cbn [flat_map]. rewrite app_nil_r.
        eapply perm_trans; [|apply Permutation_app_head; apply Permutation_sym; exact Fb].
        eapply perm_trans; [apply Permutation_app_tail; apply Permutation_app_head; exact Px|]. perm_app. }
    destruct (is_nil gt) eqn:Ngt.
    + destruct gt; [|discriminate]. destruct gb as [|x [|y gb]]; try discriminate.
      assert (Hx : ctgt x = []).
      { destruct (ctgt x) as [|m r] eqn:Em; [reflexivity|exfalso].
        apply (single_bot_closed bot top bot' top' x m W Pa Pb Cl). rewrite Em. left. reflexivity. }
      apply Step.
      * rewrite degs_single. change (degs []) with (Some 0%Z). rewrite oadd_0_r. reflexivity.
      * rewrite euls_single. change (euls []) with (Some 0%Z). rewrite oadd_0_r.
        unfold arcs_of, omap_sub. cbn [map sum_nat fold_right]. rewrite Hx. cbn.
        destruct (cc_euler x); cbn; [f_equal; lia|reflexivity].
      * unfold flat. cbn [flat_map]. rewrite app_nil_r. apply Permutation_refl.
    + destruct (is_nil gb) eqn:Ngb.
      * destruct gb; [|discriminate]. destruct gt as [|x [|y gt]]; try discriminate.
        assert (Hbot : bot = []).
        { destruct bot as [|b0 r0]; [reflexivity|]. destruct (Hhd b0 r0 eq_refl) as (more & Hm). discriminate. }
        subst bot.
        assert (Hx : csrc x = []).
        { destruct (csrc x) as [|m r] eqn:Em; [reflexivity|exfalso].
          apply (single_top_closed top m W). eapply flat_in; [|rewrite Em; left; reflexivity].
          eapply Permutation_in; [apply Permutation_sym; exact Pb|]. apply in_or_app. right. left. reflexivity. }
        apply Step.
        -- rewrite degs_single. change (degs []) with (Some 0%Z). rewrite oadd_0_l. reflexivity.
        -- rewrite euls_single. change (euls []) with (Some 0%Z). rewrite oadd_0_l.
           unfold arcs_of, omap_sub. cbn. destruct (cc_euler x); cbn; [f_equal; lia|reflexivity].
        -- unfold flat. cbn [flat_map]. rewrite Hx. apply Permutation_refl.
      * destruct (stack_comps gb gt) as [c|] eqn:Ec; [|discriminate].
        assert (Hbal : arcs_of ctgt gb = arcs_of csrc gt).
        { rewrite <- !euler_num_flat. exact (group_arcs_balanced bot top bot' top' gb gt W Pa Pb Cl). }
        assert (Hti : forall t, In t gt -> tng_inv (csrc t)).
        { intros t Ht. apply (flat_inv_in csrc top); [apply (wf_mid_t _ _ W)|].
          eapply Permutation_in; [apply Permutation_sym; exact Pb|]. apply in_or_app. right. exact Ht. }
        destruct (group_deg gb gt c Ec (proj2 (flat_sub csrc bot bot' gb Pa (wf_src _ _ W))) Hti Hbal) as (Hd & He & Pc).
        apply Step; assumption.
Qed.

(* ---------- Cob::stack ---------- *)
Theorem cob_stack_deg : forall a b c, stack_wf a b -> cob_stack a b = Some c ->
  cob_deg c = oadd (cob_deg a) (cob_deg b) /\
  cob_euler c = omap_sub (tng_euler_num (flat ctgt a)) (oadd (cob_euler a) (cob_euler b)) /\
  Permutation (flat csrc c) (flat csrc a).
Proof.
  intros a b c W. unfold cob_stack, cob_stack_fuel.
  destruct (is_nil a) eqn:Na.
  - destruct a; [|discriminate]. intros E. inversion E; subst c.
    assert (Hb : flat csrc b = []).
    { destruct (flat csrc b) as [|m r] eqn:Em; [reflexivity|exfalso]. apply (single_top_closed b m W). rewrite Em. left. reflexivity. }
    change (cob_deg []) with (Some 0%Z). change (cob_euler []) with (Some 0%Z). unfold omap_sub. cbn.
    split; [destruct (cob_deg b); reflexivity|]. split; [destruct (cob_euler b); cbn; [f_equal; lia|reflexivity]|].
    rewrite Hb. constructor.
  - destruct (is_nil b) eqn:Nb.
    + destruct b; [|discriminate]. intros E. inversion E; subst c.
      assert (Ha : flat ctgt a = []).
      { destruct (flat ctgt a) as [|m r] eqn:Em; [reflexivity|exfalso].
        destruct (wf_match_bt _ _ W m) as (m' & [] & _). rewrite Em. left. reflexivity. }
      change (cob_deg []) with (Some 0%Z). change (cob_euler []) with (Some 0%Z). rewrite Ha. unfold omap_sub. cbn.
      rewrite !oadd_0_r. split; [reflexivity|]. split; [destruct (cob_euler a); cbn; [f_equal; lia|reflexivity]|].
      apply Permutation_refl.
    + destruct (stack_loop (length a + length b) a b []) as [[out|]|] eqn:El; try discriminate. intros Es.
      destruct (stack_loop_deg _ _ _ _ _ W El) as (D & Eu & P).
      pose proof (cob_sort_perm _ _ Es) as Hp.
      change (cob_deg c) with (degs c). change (cob_euler c) with (euls c).
      rewrite (degs_perm _ _ Hp), (euls_perm _ _ Hp), D, Eu, euler_num_flat.
      change (degs []) with (Some 0%Z). change (euls []) with (Some 0%Z).
      change (cob_deg a) with (degs a). change (cob_deg b) with (degs b).
      change (cob_euler a) with (euls a). change (cob_euler b) with (euls b). unfold omap_sub.
      split; [destruct (degs a), (degs b); cbn; reflexivity|].
      split; [destruct (euls a), (euls b); cbn; reflexivity|].
      eapply perm_trans; [apply flat_perm; exact Hp|]. exact P.
Qed.
