(* Proofs about Model/CobEval.v (mirror of CobComp::part_eval / eval, Cob::eval, Cob::part_eval of
   yui-khovanov/src/kh/internal/v2/cob.rs):
     - the recursion is natural in the coefficient module (pe_hom),
     - computed in the Frobenius algebra A = Z[X]/(X^2 - hX - t) of KhAlg.v with the leaves 1, X, Y = X - h it
       returns  Hd^g X^x Y^y,  Hd = 2X - h = X + Y  (pe_alg),
     - hence the closed evaluation is eps(Hd^g X^x Y^y) and the open evaluation (a,b,c) satisfies
       a + bX + cY = Hd^g X^x Y^y,
     - the literal fuel transcription of the Rust match agrees with the structural recursion,
     - soundness of the shortcuts is_zero_cob / is_unit_cob / should_part_eval, products. *)
From Coq Require Import List Arith Bool ZArith Lia Ring Permutation.
Require Import Yui.Model.KhCheck Yui.Model.CobEval Yui.Proofs.KhAlg.
Import ListNotations.
Open Scope Z_scope.

Lemma nat_ind2 (P : nat -> Prop) :
  P O -> P 1%nat -> (forall n, P n -> P (S n) -> P (S (S n))) -> forall n, P n.
Proof.
  intros H0 H1 HS n. assert (H : P n /\ P (S n)); [|exact (proj1 H)].
  induction n as [|n [IHa IHb]]; split; auto.
Qed.

(* ---------- naturality ---------- *)
Section Hom.
  Context {K V K' V' : Type}.
  Variable sneg : K -> K.
  Variable vadd : V -> V -> V.
  Variable vscale : K -> V -> V.
  Variable sneg' : K' -> K'.
  Variable vadd' : V' -> V' -> V'.
  Variable vscale' : K' -> V' -> V'.
  Variable fk : K -> K'.
  Variable fv : V -> V'.
  Hypothesis Hneg : forall c, fk (sneg c) = sneg' (fk c).
  Hypothesis Hadd : forall u v, fv (vadd u v) = vadd' (fv u) (fv v).
  Hypothesis Hscale : forall c u, fv (vscale c u) = vscale' (fk c) (fv u).
  Variables l00 l10 l01 : V.
  Variables h t : K.

  Lemma pe_x_hom x :
    fv (pe_x vadd vscale l00 l10 h t x) = pe_x vadd' vscale' (fv l00) (fv l10) (fk h) (fk t) x.
  Proof.
    induction x as [| |n IH0 IH1] using nat_ind2; [reflexivity|reflexivity|].
    change (pe_x vadd vscale l00 l10 h t (S (S n)))
      with (vadd (vscale h (pe_x vadd vscale l00 l10 h t (S n))) (vscale t (pe_x vadd vscale l00 l10 h t n))).
    change (pe_x vadd' vscale' (fv l00) (fv l10) (fk h) (fk t) (S (S n)))
      with (vadd' (vscale' (fk h) (pe_x vadd' vscale' (fv l00) (fv l10) (fk h) (fk t) (S n)))
                  (vscale' (fk t) (pe_x vadd' vscale' (fv l00) (fv l10) (fk h) (fk t) n))).
    rewrite Hadd, !Hscale, IH0, IH1. reflexivity.
  Qed.

  Lemma pe_y_hom y :
    fv (pe_y sneg vadd vscale l00 l01 h t y) = pe_y sneg' vadd' vscale' (fv l00) (fv l01) (fk h) (fk t) y.
  Proof.
    induction y as [| |n IH0 IH1] using nat_ind2; [reflexivity|reflexivity|].
    change (pe_y sneg vadd vscale l00 l01 h t (S (S n)))
      with (vadd (vscale (sneg h) (pe_y sneg vadd vscale l00 l01 h t (S n))) (vscale t (pe_y sneg vadd vscale l00 l01 h t n))).
    change (pe_y sneg' vadd' vscale' (fv l00) (fv l01) (fk h) (fk t) (S (S n)))
      with (vadd' (vscale' (sneg' (fk h)) (pe_y sneg' vadd' vscale' (fv l00) (fv l01) (fk h) (fk t) (S n)))
                  (vscale' (fk t) (pe_y sneg' vadd' vscale' (fv l00) (fv l01) (fk h) (fk t) n))).
    rewrite Hadd, !Hscale, Hneg, IH0, IH1. reflexivity.
  Qed.

  Lemma pe_0_hom x y :
    fv (pe_0 sneg vadd vscale l00 l10 l01 h t x y)
    = pe_0 sneg' vadd' vscale' (fv l00) (fv l10) (fv l01) (fk h) (fk t) x y.
  Proof.
    revert y. induction x as [|x IH]; intros [|y].
    - reflexivity.
    - apply pe_y_hom.
    - apply pe_x_hom.
    - cbn [pe_0]. rewrite Hscale, IH. reflexivity.
  Qed.

  Lemma pe_hom g x y :
    fv (pe sneg vadd vscale l00 l10 l01 h t g x y)
    = pe sneg' vadd' vscale' (fv l00) (fv l10) (fv l01) (fk h) (fk t) g x y.
  Proof.
    revert x y. induction g as [|g IH]; intros x y; cbn [pe].
    - apply pe_0_hom.
    - rewrite Hadd, !IH. reflexivity.
  Qed.
End Hom.

(* ---------- unfolding equations of the structural recursion (the arms of the Rust match) ---------- *)
Section Eqns.
  Context {K V : Type}.
  Variable sneg : K -> K.
  Variable vadd : V -> V -> V.
  Variable vscale : K -> V -> V.
  Variables l00 l10 l01 : V.
  Variables h t : K.
  Notation PE := (pe sneg vadd vscale l00 l10 l01 h t).

  Lemma pe_neck g x y : PE (S g) x y = vadd (PE g (S x) y) (PE g x (S y)).
  Proof. reflexivity. Qed.
  Lemma pe_xy x y : PE 0 (S x) (S y) = vscale t (PE 0 x y).
  Proof. reflexivity. Qed.
  Lemma pe_0_x0 x : PE 0 x 0 = pe_x vadd vscale l00 l10 h t x.
  Proof. destruct x; reflexivity. Qed.
  Lemma pe_0_0y y : PE 0 0 y = pe_y sneg vadd vscale l00 l01 h t y.
  Proof. destruct y; reflexivity. Qed.
  Lemma pe_xx x : PE 0 (S (S x)) 0 = vadd (vscale h (PE 0 (S x) 0)) (vscale t (PE 0 x 0)).
  Proof. rewrite !pe_0_x0. reflexivity. Qed.
  Lemma pe_yy y : PE 0 0 (S (S y)) = vadd (vscale (sneg h) (PE 0 0 (S y))) (vscale t (PE 0 0 y)).
  Proof. rewrite !pe_0_0y. reflexivity. Qed.
  Lemma pe_10 : PE 0 1 0 = l10.
  Proof. reflexivity. Qed.
  Lemma pe_01 : PE 0 0 1 = l01.
  Proof. reflexivity. Qed.
  Lemma pe_00 : PE 0 0 0 = l00.
  Proof. reflexivity. Qed.

  (* the literal transcription of the Rust match agrees with the structural recursion once the fuel
     exceeds 2g + x + y (each call lowers 2g + x + y) *)
  Lemma pe_fuel_ok fuel : forall g x y, (2 * g + x + y < fuel)%nat ->
    pe_fuel sneg vadd vscale l00 l10 l01 h t fuel g x y = Some (PE g x y).
  Proof.
    induction fuel as [|f IH]; intros g x y Hf; [lia|]. cbn [pe_fuel].
    destruct g as [|g].
    - change (0 <? 0)%nat with false. cbv iota.
      destruct x as [|x], y as [|y].
      + reflexivity.
      + change ((1 <=? 0) && (1 <=? S y))%nat with false. cbv iota.
        change ((S y =? 0) && (2 <=? 0))%nat with false. cbv iota.
        change (0 =? 0)%nat with true. cbn [andb].
        destruct y as [|y].
        * reflexivity.
        * change (2 <=? S (S y))%nat with true. cbv iota.
          replace (S (S y) - 1)%nat with (S y) by lia. replace (S (S y) - 2)%nat with y by lia.
          rewrite !IH by lia. rewrite pe_yy. reflexivity.
      + change ((1 <=? S x) && (1 <=? 0))%nat with false. cbv iota.
        change (0 =? 0)%nat with true. cbn [andb].
        destruct x as [|x].
        * reflexivity.
        * change (2 <=? S (S x))%nat with true. cbv iota.
          replace (S (S x) - 1)%nat with (S x) by lia. replace (S (S x) - 2)%nat with x by lia.
          rewrite !IH by lia. rewrite pe_xx. reflexivity.
      + change ((1 <=? S x) && (1 <=? S y))%nat with true. cbv iota.
        replace (S x - 1)%nat with x by lia. replace (S y - 1)%nat with y by lia.
        rewrite IH by lia. rewrite pe_xy. reflexivity.
    - change (0 <? S g)%nat with true. cbv iota.
      replace (S g - 1)%nat with g by lia. replace (x + 1)%nat with (S x) by lia. replace (y + 1)%nat with (S y) by lia.
      rewrite !IH by lia. rewrite pe_neck. reflexivity.
  Qed.
End Eqns.

(* ---------- the Frobenius algebra ---------- *)
Fixpoint apow (h t : Z) (u : A) (n : nat) : A :=
  match n with O => (1, 0) | S k => mul h t u (apow h t u k) end.

Definition aX : A := (0, 1).                         (* X *)
Definition aY (h : Z) : A := (- h, 1).               (* Y = X - h *)
Definition aHd (h : Z) : A := (- h, 2).              (* handle element 2X - h *)

(* Hd = m(Delta(1)) = X + Y *)
Lemma handle_is_m_comul h t :
  (let '(p, q, r, s) := comul h t (1, 0) in
   a_add (a_add (a_scal p (1, 0)) (a_scal q aX)) (a_add (a_scal r aX) (a_scal s (mul h t aX aX)))) = aHd h.
Proof. unfold comul, aHd, aX, mul, a_add, a_scal. cbn [fst snd]. peq. Qed.
Lemma handle_is_X_plus_Y h : aHd h = a_add aX (aY h).
Proof. unfold aHd, aX, aY, a_add. cbn [fst snd]. peq. Qed.

Lemma mul_XY h t : mul h t aX (aY h) = (t, 0).       (* XY = t *)
Proof. unfold mul, aX, aY. peq. Qed.
Lemma mul_YY h t : mul h t (aY h) (aY h) = a_add (a_scal (- h) (aY h)) (a_scal t (1, 0)).   (* Y^2 = -hY + t *)
Proof. unfold mul, aY, a_add, a_scal. cbn [fst snd]. peq. Qed.
Lemma mul_HdHd h t : mul h t (aHd h) (aHd h) = (h * h + 4 * t, 0).    (* Hd^2 = h^2 + 4t *)
Proof. unfold mul, aHd. peq. Qed.

Definition pe_alg (h t : Z) := pe Z.opp a_add a_scal (1, 0) aX (aY h) h t.

Lemma pe_x_alg h t x : pe_x a_add a_scal (1, 0) aX h t x = apow h t aX x.
Proof.
  induction x as [| |n IH0 IH1] using nat_ind2.
  - reflexivity.
  - cbn [pe_x apow]. unfold mul, aX. peq.
  - change (pe_x a_add a_scal (1, 0) aX h t (S (S n)))
      with (a_add (a_scal h (pe_x a_add a_scal (1, 0) aX h t (S n))) (a_scal t (pe_x a_add a_scal (1, 0) aX h t n))).
    rewrite IH0, IH1. cbn [apow]. destruct (apow h t aX n) as [p q].
    unfold mul, aX, a_add, a_scal. cbn [fst snd]. peq.
Qed.

Lemma pe_y_alg h t y : pe_y Z.opp a_add a_scal (1, 0) (aY h) h t y = apow h t (aY h) y.
Proof.
  induction y as [| |n IH0 IH1] using nat_ind2.
  - reflexivity.
  - cbn [pe_y apow]. unfold mul, aY. peq.
  - change (pe_y Z.opp a_add a_scal (1, 0) (aY h) h t (S (S n)))
      with (a_add (a_scal (- h) (pe_y Z.opp a_add a_scal (1, 0) (aY h) h t (S n)))
                  (a_scal t (pe_y Z.opp a_add a_scal (1, 0) (aY h) h t n))).
    rewrite IH0, IH1. cbn [apow]. destruct (apow h t (aY h) n) as [p q].
    unfold mul, aY, a_add, a_scal. cbn [fst snd]. peq.
Qed.

Lemma pe_0_alg h t x y : pe_alg h t 0 x y = mul h t (apow h t aX x) (apow h t (aY h) y).
Proof.
  unfold pe_alg. cbn [pe]. revert y. induction x as [|x IH]; intros [|y].
  - change (apow h t aX 0) with ((1, 0) : A). rewrite mul_one. reflexivity.
  - change (pe_0 Z.opp a_add a_scal (1, 0) aX (aY h) h t 0 (S y)) with (pe_y Z.opp a_add a_scal (1, 0) (aY h) h t (S y)).
    rewrite pe_y_alg. change (apow h t aX 0) with ((1, 0) : A). rewrite mul_one. reflexivity.
  - change (pe_0 Z.opp a_add a_scal (1, 0) aX (aY h) h t (S x) 0) with (pe_x a_add a_scal (1, 0) aX h t (S x)).
    rewrite pe_x_alg. change (apow h t (aY h) 0) with ((1, 0) : A). rewrite mul_comm, mul_one. reflexivity.
  - cbn [pe_0]. rewrite IH. cbn [apow].
    destruct (apow h t aX x) as [p q], (apow h t (aY h) y) as [r s].
    unfold mul, aX, aY, a_scal. cbn [fst snd]. peq.
Qed.

(* the recursion computes Hd^g X^x Y^y in A *)
Lemma pe_alg_closed_form h t g x y :
  pe_alg h t g x y = mul h t (apow h t (aHd h) g) (mul h t (apow h t aX x) (apow h t (aY h) y)).
Proof.
  revert x y. induction g as [|g IH]; intros x y.
  - rewrite pe_0_alg. change (apow h t (aHd h) 0) with ((1, 0) : A). rewrite mul_one. reflexivity.
  - unfold pe_alg in *. cbn [pe]. rewrite !IH. cbn [apow].
    destruct (apow h t (aHd h) g) as [a b], (apow h t aX x) as [p q], (apow h t (aY h) y) as [r s].
    unfold mul, aHd, aX, aY, a_add. cbn [fst snd]. peq.
Qed.

(* ---------- module maps ---------- *)
Lemma eps_add u v : eps (a_add u v) = eps u + eps v.
Proof. reflexivity. Qed.
Lemma eps_scal c u : eps (a_scal c u) = c * eps u.
Proof. reflexivity. Qed.

(* a 1 + b X + c Y *)
Definition den3 (h : Z) (u : lc3) : A := let '(a, b, c) := u in (a - h * c, b + c).
Lemma den3_add h u v : den3 h (add3 u v) = a_add (den3 h u) (den3 h v).
Proof. destruct u as [[a b] c], v as [[a' b'] c']. unfold den3, add3, a_add. cbn [fst snd]. peq. Qed.
Lemma den3_scal h k u : den3 h (scale3 k u) = a_scal k (den3 h u).
Proof. destruct u as [[a b] c]. unfold den3, scale3, a_scal. cbn [fst snd]. peq. Qed.
Lemma den3_spec h u :
  den3 h u = a_add (a_scal (fst (fst u)) (1, 0)) (a_add (a_scal (snd (fst u)) aX) (a_scal (snd u) (aY h))).
Proof. destruct u as [[a b] c]. unfold den3, a_add, a_scal, aX, aY. cbn [fst snd]. peq. Qed.

(* closing an open result: c_(0,0) -> sphere = 0, c_(1,0), c_(0,1) -> dotted sphere = 1 *)
Definition close3 (u : lc3) : Z := let '(a, b, c) := u in b + c.
Lemma close3_add u v : close3 (add3 u v) = close3 u + close3 v.
Proof. destruct u as [[a b] c], v as [[a' b'] c']. unfold close3, add3. ring. Qed.
Lemma close3_scal k u : close3 (scale3 k u) = k * close3 u.
Proof. destruct u as [[a b] c]. unfold close3, scale3. ring. Qed.

(* ---------- main theorems ---------- *)
Theorem eval_closed_formula g x y h t :
  eval_closed g x y h t
  = eps (mul h t (apow h t (aHd h) g) (mul h t (apow h t aX x) (apow h t (aY h) y))).
Proof.
  rewrite <- pe_alg_closed_form. unfold pe_alg, eval_closed.
  rewrite (pe_hom Z.opp a_add a_scal Z.opp Z.add Z.mul (fun c => c) eps
             (fun _ => eq_refl) eps_add eps_scal).
  reflexivity.
Qed.

Theorem part_eval_open_formula g x y h t :
  den3 h (part_eval_open g x y h t)
  = mul h t (apow h t (aHd h) g) (mul h t (apow h t aX x) (apow h t (aY h) y)).
Proof.
  rewrite <- pe_alg_closed_form. unfold pe_alg, part_eval_open.
  rewrite (pe_hom Z.opp add3 scale3 Z.opp a_add a_scal (fun c => c) (den3 h)
             (fun _ => eq_refl) (den3_add h) (den3_scal h)).
  unfold den3, aX, aY. replace (1 - h * 0) with 1 by ring. replace (0 - h * 0) with 0 by ring.
  replace (0 - h * 1) with (- h) by ring. reflexivity.
Qed.

(* capping off the boundary of an open component gives the closed value *)
Theorem eval_closed_of_open g x y h t : eval_closed g x y h t = close3 (part_eval_open g x y h t).
Proof.
  unfold eval_closed, part_eval_open.
  rewrite (pe_hom Z.opp add3 scale3 Z.opp Z.add Z.mul (fun c => c) close3
             (fun _ => eq_refl) close3_add close3_scal).
  reflexivity.
Qed.

Theorem eval_closed_fuel_ok fuel g x y h t : (2 * g + x + y < fuel)%nat ->
  eval_closed_fuel fuel g x y h t = Some (eval_closed g x y h t).
Proof. apply pe_fuel_ok. Qed.
Theorem part_eval_open_fuel_ok fuel g x y h t : (2 * g + x + y < fuel)%nat ->
  part_eval_open_fuel fuel g x y h t = Some (part_eval_open g x y h t).
Proof. apply pe_fuel_ok. Qed.

(* ---------- corollaries ---------- *)
Lemma eval_sphere h t : eval_closed 0 0 0 h t = 0.
Proof. reflexivity. Qed.
Lemma eval_dotted_sphere_X h t : eval_closed 0 1 0 h t = 1.
Proof. reflexivity. Qed.
Lemma eval_dotted_sphere_Y h t : eval_closed 0 0 1 h t = 1.
Proof. reflexivity. Qed.
Lemma eval_torus h t : eval_closed 1 0 0 h t = 2.
Proof. reflexivity. Qed.
Lemma eval_genus2 h t : eval_closed 2 0 0 h t = 0.
Proof. unfold eval_closed. cbn [pe pe_0 pe_x pe_y]. ring. Qed.
Lemma eval_genus3 h t : eval_closed 3 0 0 h t = 2 * (h * h + 4 * t).
Proof. unfold eval_closed. cbn [pe pe_0 pe_x pe_y]. ring. Qed.

(* two handles are the scalar h^2 + 4t *)
Theorem eval_closed_two_handles g x y h t :
  eval_closed (S (S g)) x y h t = (h * h + 4 * t) * eval_closed g x y h t.
Proof.
  rewrite !eval_closed_formula. cbn [apow].
  set (P := apow h t (aHd h) g). set (W := mul h t (apow h t aX x) (apow h t (aY h) y)).
  rewrite <- (mul_assoc h t (aHd h) (aHd h) P), mul_HdHd.
  rewrite (mul_assoc h t _ P W). destruct (mul h t P W) as [a b].
  unfold mul, eps. cbn [snd]. ring.
Qed.

Lemma eval_closed_0_diag x h t : eval_closed 0 x x h t = 0.
Proof.
  unfold eval_closed. cbn [pe]. induction x as [|x IH]; [reflexivity|].
  cbn [pe_0]. rewrite IH. ring.
Qed.

Lemma even_half n : (n mod 2 =? 0)%nat = true -> exists k, n = (2 * k)%nat.
Proof.
  intros H. apply Nat.eqb_eq in H. exists (n / 2)%nat.
  pose proof (Nat.div_mod n 2 ltac:(lia)). lia.
Qed.

(* is_zero_cob is a sound shortcut: such a component evaluates to 0 *)
Theorem zero_cob_eval c h t : is_zero_cob c = true -> comp_eval h t c = 0.
Proof.
  destruct c as [g x y]. unfold is_zero_cob, comp_eval. cbn [cc_g cc_x cc_y].
  rewrite andb_true_iff. intros [Hg Hxy]. apply Nat.eqb_eq in Hxy. subst y.
  destruct (even_half g Hg) as [k ->]. clear Hg.
  induction k as [|k IH]; [apply eval_closed_0_diag|].
  replace (2 * S k)%nat with (S (S (2 * k))) by lia. rewrite eval_closed_two_handles, IH. ring.
Qed.

Theorem unit_cob_eval c h t : is_unit_cob c = true -> comp_eval h t c = 1.
Proof.
  destruct c as [g x y]. unfold is_unit_cob, comp_eval. cbn [cc_g cc_x cc_y].
  rewrite andb_true_iff, orb_true_iff, !andb_true_iff, !Nat.eqb_eq.
  intros [-> [[-> ->]|[-> ->]]]; reflexivity.
Qed.

(* odd genus without dots: 2 (h^2 + 4t)^k *)
Theorem eval_closed_odd_genus k h t : eval_closed (2 * k + 1) 0 0 h t = 2 * zpow (h * h + 4 * t) k.
Proof.
  induction k as [|k IH]; [reflexivity|].
  replace (2 * S k + 1)%nat with (S (S (2 * k + 1))) by lia.
  rewrite eval_closed_two_handles, IH. cbn [zpow]. ring.
Qed.

(* every closed component is partially evaluated *)
Lemma should_part_eval_closed c : should_part_eval c = true.
Proof.
  destruct c as [g x y]. unfold should_part_eval, should_part_eval_gen, is_zero_cob, is_unit_cob.
  cbn [cc_g cc_x cc_y].
  destruct g as [|g]; [|cbn; rewrite !orb_true_r; reflexivity].
  destruct x as [|[|x]], y as [|[|y]]; cbn; rewrite ?orb_true_r; reflexivity.
Qed.

(* where should_part_eval is false (open component: is_zero_cob = is_unit_cob = false) part_eval is the identity *)
Theorem part_eval_open_noop g x y h t : should_part_eval_gen false false g x y = false ->
  part_eval_open g x y h t
  = (if (x =? 1)%nat then (0, 1, 0) else if (y =? 1)%nat then (0, 0, 1) else (1, 0, 0))
  /\ (x + y <= 1)%nat /\ g = O.
Proof.
  unfold should_part_eval_gen. cbn [orb].
  destruct g as [|g]; [|cbn; discriminate].
  destruct x as [|[|x]], y as [|[|y]]; cbn; try discriminate; intros _; repeat split; lia.
Qed.

(* ---------- products: Cob::eval, Cob::part_eval ---------- *)
Lemma fold_mul_acc h t cs a :
  fold_left (fun acc c => acc * comp_eval h t c) cs a = a * cob_eval h t cs.
Proof.
  unfold cob_eval. revert a. induction cs as [|c cs IH]; intros a; cbn [fold_left]; [ring|].
  rewrite IH, (IH (1 * _)). ring.
Qed.

Lemma cob_eval_nil h t : cob_eval h t [] = 1.
Proof. reflexivity. Qed.
Lemma cob_eval_cons h t c cs : cob_eval h t (c :: cs) = comp_eval h t c * cob_eval h t cs.
Proof. unfold cob_eval at 1. cbn [fold_left]. rewrite fold_mul_acc. ring. Qed.
Lemma cob_eval_single h t c : cob_eval h t [c] = comp_eval h t c.
Proof. rewrite cob_eval_cons, cob_eval_nil. ring. Qed.

Theorem cob_eval_app h t cs1 cs2 : cob_eval h t (cs1 ++ cs2) = cob_eval h t cs1 * cob_eval h t cs2.
Proof.
  induction cs1 as [|c cs IH]; cbn [app]; [rewrite cob_eval_nil; ring|].
  rewrite !cob_eval_cons, IH. ring.
Qed.

(* Cob::new sorts the components: the value does not depend on their order *)
Theorem cob_eval_perm h t cs cs' : Permutation cs cs' -> cob_eval h t cs = cob_eval h t cs'.
Proof.
  induction 1 as [|c l l' _ IH|c d l|l l' l'' _ IH1 _ IH2].
  - reflexivity.
  - rewrite !cob_eval_cons, IH. reflexivity.
  - rewrite !cob_eval_cons. ring.
  - congruence.
Qed.

Lemma cob_eval_zero h t cs : existsb is_zero_cob cs = true -> cob_eval h t cs = 0.
Proof.
  induction cs as [|c cs IH]; [discriminate|]. cbn [existsb]. rewrite cob_eval_cons.
  destruct (is_zero_cob c) eqn:Ez; cbn [orb].
  - intros _. rewrite (zero_cob_eval c h t Ez). ring.
  - intros H. rewrite (IH H). ring.
Qed.

(* Cob::part_eval on a cobordism of closed components = Cob::eval (times the empty cobordism) *)
Theorem cob_part_eval_eq h t cs : cob_part_eval h t cs = cob_eval h t cs.
Proof.
  unfold cob_part_eval. destruct (existsb is_zero_cob cs) eqn:Ez.
  - symmetry. apply cob_eval_zero. exact Ez.
  - destruct cs as [|c cs]; [reflexivity|].
    cbn [existsb]. rewrite should_part_eval_closed. reflexivity.
Qed.

Lemma cob_deg_acc cs a : fold_left (fun acc c => acc + deg c) cs a = a + cob_deg cs.
Proof.
  unfold cob_deg. revert a. induction cs as [|c cs IH]; intros a; cbn [fold_left]; [ring|].
  rewrite IH, (IH (0 + _)). ring.
Qed.
Lemma cob_deg_cons c cs : cob_deg (c :: cs) = deg c + cob_deg cs.
Proof. unfold cob_deg at 1. cbn [fold_left]. rewrite cob_deg_acc. ring. Qed.

Lemma deg_closed c : deg c = 2 - 2 * Z.of_nat (cc_g c) - 2 * Z.of_nat (cc_x c) - 2 * Z.of_nat (cc_y c).
Proof. unfold deg, euler_num. rewrite Nat2Z.inj_add. change (0 / 2) with 0. ring. Qed.

(* ---------- delooping (tng_complex.rs: deloop / deloop_with) ----------
   A circle is replaced by two copies of the circle-free object: towards the X-labelled copy incoming
   cobordisms are capped with dot None and outgoing ones are cupped with dot X; towards the 1-labelled copy
   incoming ones are capped with dot Y and outgoing ones cupped with dot None.  In A:
       to   : a |-> (eps a, eps (Y a))             from : (p, q) |-> p X + q 1
   and both composites are the identity, for all h, t. *)
Definition deloop_to (h t : Z) (a : A) : Z * Z := (eps a, eps (mul h t (aY h) a)).
Definition deloop_from (pq : Z * Z) : A := a_add (a_scal (fst pq) aX) (a_scal (snd pq) (1, 0)).

Theorem deloop_from_to h t a : deloop_from (deloop_to h t a) = a.
Proof. destruct a as [a b]. unfold deloop_from, deloop_to, eps, mul, aX, aY, a_add, a_scal. cbn [fst snd]. peq. Qed.
Theorem deloop_to_from h t pq : deloop_to h t (deloop_from pq) = pq.
Proof. destruct pq as [p q]. unfold deloop_from, deloop_to, eps, mul, aX, aY, a_add, a_scal. cbn [fst snd]. peq. Qed.

(* neck cutting: Delta(1) = X (x) 1 + 1 (x) Y *)
Theorem neck_cutting h t :
  comul h t (1, 0) = aa_add (basis2 true false) (aa_add (aa_scal (- h) (basis2 false false)) (basis2 false true)).
Proof. cbv beta iota delta [comul aa_add aa_scal basis2]. peq. Qed.
