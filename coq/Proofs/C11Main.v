(* C11 - the property's text as one statement about find_pivots followed by result() and
   perms_by_pivots, in matrix coordinates, for both pivot types. *)
From Coq Require Import ZArith List Bool Arith Lia Permutation.
Require Import Yui.Model.Pivot Yui.Proofs.C11Base Yui.Proofs.C11Seq Yui.Proofs.C11Worker Yui.Proofs.C11Safety
               Yui.Proofs.C11TopSort Yui.Proofs.C11Result Yui.Proofs.C11Struct.
Import ListNotations.

Lemma map_fst_swap : forall l, map fst (map swap l) = map snd l.
Proof. intros l. rewrite map_map. apply map_ext. intros [a b]. reflexivity. Qed.
Lemma map_snd_swap : forall l, map snd (map swap l) = map fst l.
Proof. intros l. rewrite map_map. apply map_ext. intros [a b]. reflexivity. Qed.
Lemma swap_nth : forall l k, nth k (map swap l) (0, 0) = swap (nth k l (0, 0)).
Proof. intros l k. change (0, 0) with (swap (0, 0)) at 1. apply map_nth. Qed.

Theorem find_pivots_correct : forall pt c nr nc l nthr sched,
  csc_sorted l -> in_range nr nc l ->
  let M := build_str pt c nr nc l in
  exists s, find_pivots_sched M nthr sched = Some s /\
    forall keys, Permutation keys (map snd (g_log s)) ->
    exists pivs p q,
      result_with M pt (g_log s) keys = Some pivs /\
      Permutation (to_str pt pivs) (g_log s) /\
      NoDup (map fst pivs) /\ NoDup (map snd pivs) /\
      (forall i j, In (i, j) pivs -> exists e, In (i, j, e) l /\ e_nz e = true /\ cond_ok c e = true) /\
      perms_by_pivots nr nc pivs = Some (p, q) /\
      let r := length pivs in
      (forall k, k < r -> nth (fst (nth k pivs (0, 0))) p 0 = k /\ nth (snd (nth k pivs (0, 0))) q 0 = k) /\
      (forall i j e, In (i, j, e) l -> e_nz e = true -> nth i p 0 < r -> nth j q 0 < r ->
         match pt with Rows => nth i p 0 <= nth j q 0 | Cols => nth j q 0 <= nth i p 0 end).
Proof.
  intros pt c nr nc l nthr sched Hs Hr M.
  destruct (build_str_spec pt c nr nc l Hs Hr) as [Hwf [Hm [Hn [Hcols Hcand]]]]. fold M in Hwf, Hm, Hn, Hcols, Hcand.
  destruct (find_pivots_safe M Hwf nthr sched) as [s [Es G]]. exists s. split; [exact Es|].
  intros keys Hk. pose proof (gi_piv M s G) as HP.
  destruct (result_ok M (g_log s) HP pt keys Hk) as [pivs [Er [Hok Hperm]]].
  destruct (triangular_block M (to_str pt pivs) Hwf Hok) as [p' [q' [Ep [Eq [T1 T2]]]]]. cbv zeta in T1, T2.
  pose proof (proj1 (pivots_ok_sound M (to_str pt pivs)) Hok) as [Hnr [Hnc [Hent _]]].
  destruct pt; cbn [to_str] in *.
  - (* Rows *)
    exists pivs, p', q'. cbv zeta. splits; auto.
    + intros i j Hin. destruct (Hent (i, j) Hin) as [_ B]. cbn [fst snd] in B. apply Hcand in B.
      destruct B as [[[i0 j0] e] [Ht [K1 [K2 [K3 K4]]]]]. unfold s_row, s_col, t_row, t_col, t_ent in *. cbn [fst snd] in *. subst i0 j0.
      exists e. splits; auto.
    + unfold perms_by_pivots. rewrite <- Hm, <- Hn, Ep, Eq. reflexivity.
    + intros k Hk'. destruct (T1 k Hk') as [A [B _]]. split; assumption.
    + intros i j e Hin Hnz Hp Hq. apply T2; auto. apply Hcols. exists (i, j, e). splits; auto.
  - (* Cols: the search ran on the transpose *)
    rewrite map_fst_swap in Ep, Hnr. rewrite map_snd_swap in Eq, Hnc. rewrite map_length in T1, T2.
    exists pivs, q', p'. cbv zeta. splits; auto.
    + intros i j Hin. assert (Hin' : In (j, i) (map swap pivs)) by (apply in_map_iff; exists (i, j); split; [reflexivity | exact Hin]).
      destruct (Hent (j, i) Hin') as [_ B]. cbn [fst snd] in B. apply Hcand in B.
      destruct B as [[[i0 j0] e] [Ht [K1 [K2 [K3 K4]]]]]. unfold s_row, s_col, t_row, t_col, t_ent in *. cbn [fst snd] in *. subst i0 j0.
      exists e. splits; auto.
    + unfold perms_by_pivots. rewrite <- Hm, <- Hn, Ep, Eq. reflexivity.
    + intros k Hk'. destruct (T1 k Hk') as [A [B _]]. rewrite swap_nth in A, B. unfold swap in A, B. cbn [fst snd] in A, B. split; assumption.
    + intros i j e Hin Hnz Hp Hq. apply T2; auto. apply Hcols. exists (i, j, e). splits; auto.
Qed.
