(* C10: unimodularity.  Every state reachable by LLLCalc / LLLHNFCalc satisfies target = P A and
   P Pinv = I = Pinv P (fully tracked run), and the transform flags only erase P / Pinv from the state:
   they influence neither the target nor the tracked matrices. *)
From Coq Require Import ZArith List Bool Arith Lia Ring.
Require Import Yui.Base.Ring Yui.Base.MatF Yui.Base.MatL Yui.Model.Lll Yui.Proofs.C10Laws Yui.Proofs.C10Ops.
Import ListNotations.

Section Unimod.
  Context {R : Type} (L : lll_ring R) (LW : lll_laws L).
  Local Notation o := (lops L).
  Local Notation RL := (ll_ring L LW).
  Local Notation uinv := (uinv L).

  (* ---------- composite operations keep the invariant ---------- *)
  Lemma reduce_uinv m n A s i k s' : uinv m n A s -> reduce L s i k = Some s' -> uinv m n A s'.
  Proof.
    intros HU. cbv beta zeta delta [reduce]. destruct (_ || _); [discriminate|].
    destruct (ldiv_round L _ _) as [q|]; [|discriminate]. cbn [obind].
    destruct (reqb o q (rzero o)).
    - intros H. injection H as <-. exact HU.
    - now apply add_row_to_uinv.
  Qed.

  Lemma hnf_reduce_uinv m n A s i k s' : uinv m n A s -> hnf_reduce L s i k = Some s' -> uinv m n A s'.
  Proof.
    intros HU. cbv beta zeta delta [hnf_reduce]. destruct (_ || _); [discriminate|].
    destruct (nz_col_in L s i) as [j|]; [|now apply reduce_uinv].
    destruct (reqb o (lnunit L _) (rone o)).
    - cbn [obind]. destruct (ldiv_round L _ _) as [q|]; [|discriminate]. cbn [obind].
      destruct (reqb o q (rzero o)); [intros H; injection H as <-; exact HU|now apply add_row_to_uinv].
    - destruct (mul_row L s i _) as [s1|] eqn:E1; [|discriminate]. cbn [obind].
      apply (mul_row_uinv L LW m n A) in E1; [|exact HU].
      destruct (ldiv_round L _ _) as [q|]; [|discriminate]. cbn [obind].
      destruct (reqb o q (rzero o)); [intros H; injection H as <-; exact E1|now apply add_row_to_uinv].
  Qed.

  Lemma next_uinv m n A s : uinv m n A s -> uinv m n A (next s).
  Proof. intros H. now apply (uinv_same L m n A s). Qed.
  Lemma back_uinv m n A s : uinv m n A s -> uinv m n A (back s).
  Proof. intros H. unfold back. destruct (_ <? _)%nat; [now apply (uinv_same L m n A s)|exact H]. Qed.

  Lemma setup_uinv m n A s s' : uinv m n A s -> setup L s = Some s' -> uinv m n A s'.
  Proof.
    intros HU. cbv beta zeta delta [setup]. destruct (orthogonalize L _) as [[[c l] d]|]; [|discriminate].
    cbn [obind]. intros H. injection H as <-. now apply (uinv_same L m n A s).
  Qed.

  Lemma lll_iterate_uinv m n A s s' : uinv m n A s -> lll_iterate L s = Some s' -> uinv m n A s'.
  Proof.
    intros HU. cbv beta zeta delta [lll_iterate].
    destruct (reduce L s _ _) as [s1|] eqn:E1; [|discriminate]. cbn [obind].
    apply (reduce_uinv m n A) in E1; [|exact HU].
    destruct (lovasz_ok L s1 _) as [[|]|]; [| |discriminate]; cbn [obind].
    - destruct (ofold _ _ s1) as [s2|] eqn:E2; [|discriminate]. cbn [obind].
      intros H. injection H as <-. apply next_uinv.
      eapply (ofold_inv _ (uinv m n A) (fun _ => True)); [| |exact E1|exact E2]; [|auto].
      intros x i x' _ Hx Hf. now apply (reduce_uinv m n A x i (step s)).
    - destruct (swap L s1 _) as [s2|] eqn:E2; [|discriminate]. cbn [obind].
      intros H. injection H as <-. apply back_uinv. now apply (swap_uinv L LW m n A s1 (step s)).
  Qed.

  Lemma hnf_iterate_uinv m n A s s' : uinv m n A s -> hnf_iterate L s = Some s' -> uinv m n A s'.
  Proof.
    intros HU. cbv beta zeta delta [hnf_iterate].
    destruct (hnf_reduce L s _ _) as [s1|] eqn:E1; [|discriminate]. cbn [obind].
    apply (hnf_reduce_uinv m n A) in E1; [|exact HU].
    destruct (hnf_is_ok L s1 _) as [[|]|]; [| |discriminate]; cbn [obind].
    - destruct (ofold _ _ s1) as [s2|] eqn:E2; [|discriminate]. cbn [obind].
      intros H. injection H as <-. apply next_uinv.
      eapply (ofold_inv _ (uinv m n A) (fun _ => True)); [| |exact E1|exact E2]; [|auto].
      intros x i x' _ Hx Hf. now apply (hnf_reduce_uinv m n A x i (step s)).
    - destruct (swap L s1 _) as [s2|] eqn:E2; [|discriminate]. cbn [obind].
      intros H. injection H as <-. apply back_uinv. now apply (swap_uinv L LW m n A s1 (step s)).
  Qed.

  Lemma lll_loop_uinv m n A fuel : forall s s', uinv m n A s -> lll_loop L fuel s = Some s' -> uinv m n A s'.
  Proof.
    induction fuel as [|f IH]; intros s s' HU; cbn [lll_loop]; destruct (_ <? _)%nat; try discriminate;
      try (intros H; injection H as <-; exact HU).
    destruct (lll_iterate L s) as [s1|] eqn:E; [|discriminate]. cbn [obind].
    apply IH. now apply (lll_iterate_uinv m n A s).
  Qed.

  Lemma hnf_loop_uinv m n A fuel : forall s s', uinv m n A s -> hnf_loop L fuel s = Some s' -> uinv m n A s'.
  Proof.
    induction fuel as [|f IH]; intros s s' HU; cbn [hnf_loop]; destruct (_ <? _)%nat; try discriminate;
      try (intros H; injection H as <-; exact HU).
    destruct (hnf_iterate L s) as [s1|] eqn:E; [|discriminate]. cbn [obind].
    apply IH. now apply (hnf_iterate_uinv m n A s).
  Qed.

  Lemma hnf_final_uinv m n A s s' : uinv m n A s -> hnf_final L s = Some s' -> uinv m n A s'.
  Proof.
    intros HU. cbv beta zeta delta [hnf_final]. destruct (_ <? _)%nat; [|intros H; injection H as <-; exact HU].
    destruct (nz_col_in L s _) as [j|]; [|intros H; injection H as <-; exact HU].
    destruct (reqb o _ _); [intros H; injection H as <-; exact HU|].
    now apply (mul_row_uinv L LW m n A).
  Qed.

  (* ---------- reachable states ---------- *)
  Inductive hnf_reach (A : lmat R) (fl : bool * bool) : lll_data -> Prop :=
  | hr_init : hnf_reach A fl (data_new L A fl)
  | hr_step s s' : hnf_reach A fl s -> hnf_iterate L s = Some s' -> hnf_reach A fl s'
  | hr_final s s' : hnf_reach A fl s -> hnf_final L s = Some s' -> hnf_reach A fl s'.

  Inductive lll_reach (A : lmat R) (fl : bool * bool) : lll_data -> Prop :=
  | lr_new : lll_reach A fl (data_new L A fl)
  | lr_setup s : setup L (data_new L A fl) = Some s -> lll_reach A fl s
  | lr_step s s' : lll_reach A fl s -> lll_iterate L s = Some s' -> lll_reach A fl s'.

  Theorem hnf_reach_uinv A s : hnf_reach A (true, true) s -> uinv (length A) (lncols A) A s.
  Proof.
    induction 1 as [|s s' _ IH E|s s' _ IH E].
    - apply (uinv_init L LW).
    - now apply (hnf_iterate_uinv _ _ A s).
    - now apply (hnf_final_uinv _ _ A s).
  Qed.

  Theorem lll_reach_uinv A s : lll_reach A (true, true) s -> uinv (length A) (lncols A) A s.
  Proof.
    induction 1 as [|s E|s s' _ IH E].
    - apply (uinv_init L LW).
    - apply (setup_uinv _ _ A _ s (uinv_init L LW A) E).
    - now apply (lll_iterate_uinv _ _ A s).
  Qed.

  Lemma hnf_run_uinv A fuel s : hnf_run L A (true, true) fuel = Some s -> uinv (length A) (lncols A) A s.
  Proof.
    unfold hnf_run, hnf_process. destruct (hnf_loop L fuel _) as [s1|] eqn:E; [|discriminate]. cbn [obind].
    apply hnf_final_uinv. apply (hnf_loop_uinv _ _ A fuel _ _ (uinv_init L LW A) E).
  Qed.

  Lemma lll_run_uinv A fuel s : lll_run L A (true, true) fuel = Some s -> uinv (length A) (lncols A) A s.
  Proof.
    unfold lll_run. destruct (setup L _) as [s1|] eqn:E; [|discriminate]. cbn [obind].
    apply lll_loop_uinv. apply (setup_uinv _ _ A _ s1 (uinv_init L LW A) E).
  Qed.

  (* ---------- the final row reversal ---------- *)
  Definition tinv (m n : nat) (A : lmat R) (x : lmat R * option (lmat R) * option (lmat R)) : Prop :=
    exists P Q, snd (fst x) = Some P /\ snd x = Some Q /\
      meq m n (lget o (fst (fst x))) (mmul o m (lget o P) (lget o A)) /\
      meq m m (mmul o m (lget o P) (lget o Q)) (mid o) /\
      meq m m (mmul o m (lget o Q) (lget o P)) (mid o).

  Lemma tinv_swap m n A t p q i j : (i < m)%nat -> (j < m)%nat ->
    tinv m n A (t, p, q) ->
    tinv m n A (m_swap_rows L m n t i j, option_map (fun p => m_swap_rows L m m p i j) p,
                option_map (fun q => m_swap_cols L m m q i j) q).
  Proof.
    intros Hi Hj (P & Q & HP & HQ & HT & HPQ & HQP). cbn [fst snd] in *. subst p q. cbn [option_map].
    exists (m_swap_rows L m m P i j), (m_swap_cols L m m Q i j). cbn [fst snd].
    split; [reflexivity|]. split; [reflexivity|].
    apply (step_invariant L LW m n (lget o A) (lget o t) (lget o P) (lget o Q) _ _ _
             (e_swap L i j) (e_swap L i j) HT HPQ HQP).
    - now apply e_swap_inv.
    - now apply e_swap_inv.
    - intros a b Ha Hb. rewrite (lget_m_swap_rows L), (mmul_e_swap_l L LW) by lia. reflexivity.
    - intros a b Ha Hb. rewrite (lget_m_swap_rows L), (mmul_e_swap_l L LW) by lia. reflexivity.
    - intros a b Ha Hb. rewrite (lget_m_swap_cols L), (mmul_e_swap_r L LW) by lia. reflexivity.
  Qed.

  Lemma hnf_result_tinv m n A s : uinv m n A s -> tinv m n A (hnf_result L s).
  Proof.
    intros (Hm & Hn & P & Q & HP & HQ & HT & HPQ & HQP). cbv beta zeta delta [hnf_result].
    rewrite Hm, Hn.
    assert (H0 : tinv m n A (target s, tp s, tpinv s)).
    { exists P, Q. cbn [fst snd]. auto. }
    assert (Hl : forall i, In i (seq 0 (m / 2)) -> (i < m / 2)%nat) by (intros i Hi; apply in_seq in Hi; lia).
    revert H0 Hl. generalize (target s, tp s, tpinv s). generalize (seq 0 (m / 2)).
    induction l as [|i l IH]; intros x Hx Hl; cbn [fold_left]; [exact Hx|].
    apply IH; [|intros j Hj; apply Hl; now right].
    destruct x as [[t p] q].
    assert (Hi : (i < m / 2)%nat) by (apply Hl; now left).
    assert (Hm2 : (m / 2 <= m)%nat) by (apply Nat.div_le_upper_bound; lia).
    apply tinv_swap; [lia|lia|exact Hx].
  Qed.

  (* ---------- the flags only erase P / Pinv ---------- *)
  Definition erase (fl : bool * bool) (s : lll_data (R := R)) : lll_data (R := R) :=
    mk_data (nr s) (nc s) (target s) (if fst fl then tp s else None) (if snd fl then tpinv s else None)
            (det s) (lambda s) (step s).

  Lemma erase_data_new A fl : data_new L A fl = erase fl (data_new L A (true, true)).
  Proof. destruct fl as [[|] [|]]; reflexivity. Qed.

  Lemma option_map_if {X Y} (g : X -> Y) (b : bool) (x : option X) :
    option_map g (if b then x else None) = if b then option_map g x else None.
  Proof. destruct b; reflexivity. Qed.

  Lemma erase_add_row_to fl s i k r :
    add_row_to L (erase fl s) i k r = option_map (erase fl) (add_row_to L s i k r).
  Proof.
    cbv beta zeta delta [add_row_to erase]. cbn [nr nc target tp tpinv det lambda step].
    destruct (_ || _); [reflexivity|]. cbn [option_map nr nc target tp tpinv det lambda step].
    rewrite !option_map_if. reflexivity.
  Qed.

  Lemma erase_swap fl s k : swap L (erase fl s) k = option_map (erase fl) (swap L s k).
  Proof.
    cbv beta zeta delta [swap erase]. cbn [nr nc target tp tpinv det lambda step].
    destruct (_ || _); [reflexivity|].
    destruct (ofold _ _ _) as [l2|]; [|reflexivity]. cbn [obind].
    destruct (ldiv L _ _) as [dk|]; [|reflexivity]. cbn [obind option_map nr nc target tp tpinv det lambda step].
    rewrite !option_map_if. reflexivity.
  Qed.

  Lemma erase_mul_row fl s i u : mul_row L (erase fl s) i u = option_map (erase fl) (mul_row L s i u).
  Proof.
    cbv beta zeta delta [mul_row erase]. cbn [nr nc target tp tpinv det lambda step].
    destruct (lis_unit L u) eqn:Hu; [|reflexivity].
    destruct (_ <? _)%nat; [|reflexivity]. cbn [negb orb].
    destruct (ll_unit_inv L LW u Hu) as [v Hv]. rewrite Hv.
    destruct fl as [f1 f2]. cbn [fst snd].
    destruct f2; destruct (tpinv s) as [q|]; cbn [obind option_map nr nc target tp tpinv det lambda step];
      rewrite ?option_map_if; reflexivity.
  Qed.

  Lemma erase_lovasz_ok fl s k : lovasz_ok L (erase fl s) k = lovasz_ok L s k.
  Proof. reflexivity. Qed.
  Lemma erase_nz_col_in fl s i : nz_col_in L (erase fl s) i = nz_col_in L s i.
  Proof. reflexivity. Qed.

  Lemma erase_some fl s : Some (erase fl s) = option_map (erase fl) (Some s).
  Proof. reflexivity. Qed.

  Lemma erase_reduce fl s i k : reduce L (erase fl s) i k = option_map (erase fl) (reduce L s i k).
  Proof.
    cbv beta zeta delta [reduce]. change (nr (erase fl s)) with (nr s).
    change (lambda (erase fl s)) with (lambda s). change (det (erase fl s)) with (det s).
    destruct (_ || _); [reflexivity|].
    destruct (ldiv_round L _ _) as [q|]; [|reflexivity]. cbn [obind].
    destruct (reqb o q (rzero o)); [reflexivity|apply erase_add_row_to].
  Qed.

  Lemma erase_hnf_reduce fl s i k : hnf_reduce L (erase fl s) i k = option_map (erase fl) (hnf_reduce L s i k).
  Proof.
    cbv beta zeta delta [hnf_reduce]. rewrite erase_nz_col_in. change (nr (erase fl s)) with (nr s).
    change (target (erase fl s)) with (target s).
    destruct (_ || _); [reflexivity|].
    destruct (nz_col_in L s i) as [j|]; [|apply erase_reduce].
    destruct (reqb o (lnunit L _) (rone o)).
    - cbn [obind]. change (target (erase fl s)) with (target s).
      destruct (ldiv_round L _ _) as [q|]; [|reflexivity]. cbn [obind].
      destruct (reqb o q (rzero o)); [reflexivity|apply erase_add_row_to].
    - rewrite erase_mul_row. destruct (mul_row L s i _) as [s1|]; [|reflexivity]. cbn [option_map obind].
      change (target (erase fl s1)) with (target s1).
      destruct (ldiv_round L _ _) as [q|]; [|reflexivity]. cbn [obind].
      destruct (reqb o q (rzero o)); [reflexivity|apply erase_add_row_to].
  Qed.

  Lemma erase_hnf_is_ok fl s k : hnf_is_ok L (erase fl s) k = hnf_is_ok L s k.
  Proof. reflexivity. Qed.

  Lemma erase_ofold fl (f : lll_data -> nat -> option lll_data) l :
    (forall x i, f (erase fl x) i = option_map (erase fl) (f x i)) ->
    forall s, ofold f l (erase fl s) = option_map (erase fl) (ofold f l s).
  Proof.
    intros Hf. induction l as [|i l IH]; intros s; [reflexivity|].
    rewrite !ofold_cons, Hf. destruct (f s i) as [x|]; cbn [option_map obind]; [apply IH|reflexivity].
  Qed.

  Lemma erase_next fl s : next (erase fl s) = erase fl (next s).
  Proof. reflexivity. Qed.
  Lemma erase_back fl s : back (erase fl s) = erase fl (back s).
  Proof. unfold back. change (step (erase fl s)) with (step s). destruct (_ <? _)%nat; reflexivity. Qed.

  Lemma erase_lll_iterate fl s : lll_iterate L (erase fl s) = option_map (erase fl) (lll_iterate L s).
  Proof.
    cbv beta zeta delta [lll_iterate]. change (step (erase fl s)) with (step s).
    rewrite erase_reduce. destruct (reduce L s _ _) as [s1|]; [|reflexivity]. cbn [option_map obind].
    rewrite erase_lovasz_ok. destruct (lovasz_ok L s1 _) as [[|]|]; [| |reflexivity]; cbn [obind].
    - rewrite (erase_ofold fl _ _ (fun x i => erase_reduce fl x i (step s))).
      destruct (ofold _ _ s1) as [s2|]; [|reflexivity]. cbn [option_map obind]. now rewrite erase_next.
    - rewrite erase_swap. destruct (swap L s1 _) as [s2|]; [|reflexivity]. cbn [option_map obind].
      now rewrite erase_back.
  Qed.

  Lemma erase_hnf_iterate fl s : hnf_iterate L (erase fl s) = option_map (erase fl) (hnf_iterate L s).
  Proof.
    cbv beta zeta delta [hnf_iterate]. change (step (erase fl s)) with (step s).
    rewrite erase_hnf_reduce. destruct (hnf_reduce L s _ _) as [s1|]; [|reflexivity]. cbn [option_map obind].
    rewrite erase_hnf_is_ok. destruct (hnf_is_ok L s1 _) as [[|]|]; [| |reflexivity]; cbn [obind].
    - rewrite (erase_ofold fl _ _ (fun x i => erase_hnf_reduce fl x i (step s))).
      destruct (ofold _ _ s1) as [s2|]; [|reflexivity]. cbn [option_map obind]. now rewrite erase_next.
    - rewrite erase_swap. destruct (swap L s1 _) as [s2|]; [|reflexivity]. cbn [option_map obind].
      now rewrite erase_back.
  Qed.

  Lemma erase_lll_loop fl fuel : forall s, lll_loop L fuel (erase fl s) = option_map (erase fl) (lll_loop L fuel s).
  Proof.
    induction fuel as [|f IH]; intros s; cbn [lll_loop]; change (step (erase fl s)) with (step s);
      change (nr (erase fl s)) with (nr s); destruct (_ <? _)%nat; try reflexivity.
    rewrite erase_lll_iterate. destruct (lll_iterate L s) as [s1|]; [|reflexivity]. cbn [option_map obind]. apply IH.
  Qed.

  Lemma erase_hnf_loop fl fuel : forall s, hnf_loop L fuel (erase fl s) = option_map (erase fl) (hnf_loop L fuel s).
  Proof.
    induction fuel as [|f IH]; intros s; cbn [hnf_loop]; change (step (erase fl s)) with (step s);
      change (nr (erase fl s)) with (nr s); destruct (_ <? _)%nat; try reflexivity.
    rewrite erase_hnf_iterate. destruct (hnf_iterate L s) as [s1|]; [|reflexivity]. cbn [option_map obind]. apply IH.
  Qed.

  Lemma erase_hnf_final fl s : hnf_final L (erase fl s) = option_map (erase fl) (hnf_final L s).
  Proof.
    cbv beta zeta delta [hnf_final]. change (nr (erase fl s)) with (nr s). rewrite erase_nz_col_in.
    change (target (erase fl s)) with (target s).
    destruct (_ <? _)%nat; [|reflexivity]. destruct (nz_col_in L s _) as [j|]; [|reflexivity].
    destruct (reqb o _ _); [reflexivity|apply erase_mul_row].
  Qed.

  Lemma erase_setup fl s : setup L (erase fl s) = option_map (erase fl) (setup L s).
  Proof.
    cbv beta zeta delta [setup]. change (target (erase fl s)) with (target s).
    destruct (orthogonalize L _) as [[[c l] d]|]; reflexivity.
  Qed.

  Theorem hnf_run_flags A fl fuel :
    hnf_run L A fl fuel = option_map (erase fl) (hnf_run L A (true, true) fuel).
  Proof.
    unfold hnf_run, hnf_process. rewrite erase_data_new, erase_hnf_loop.
    destruct (hnf_loop L fuel _) as [s1|]; [|reflexivity]. cbn [option_map obind]. apply erase_hnf_final.
  Qed.

  Theorem lll_run_flags A fl fuel :
    lll_run L A fl fuel = option_map (erase fl) (lll_run L A (true, true) fuel).
  Proof.
    unfold lll_run. rewrite erase_data_new, erase_setup.
    destruct (setup L _) as [s1|]; [|reflexivity]. cbn [option_map obind]. apply erase_lll_loop.
  Qed.

  Definition erase_out (fl : bool * bool) (x : lmat R * option (lmat R) * option (lmat R)) :=
    (fst (fst x), if fst fl then snd (fst x) else None, if snd fl then snd x else None).

  Lemma erase_hnf_result fl s : hnf_result L (erase fl s) = erase_out fl (hnf_result L s).
  Proof.
    cbv beta zeta delta [hnf_result]. change (nr (erase fl s)) with (nr s). change (nc (erase fl s)) with (nc s).
    cbn [target tp tpinv erase].
    change (target s, if fst fl then tp s else None, if snd fl then tpinv s else None)
      with (erase_out fl (target s, tp s, tpinv s)).
    generalize (target s, tp s, tpinv s). generalize (seq 0 (nr s / 2)).
    induction l as [|i l IH]; intros x; cbn [fold_left]; [reflexivity|].
    rewrite <- IH. f_equal. destruct x as [[t p] q]. unfold erase_out. cbn [fst snd].
    rewrite !option_map_if. reflexivity.
  Qed.

  Theorem lll_hnf_flags A fl fuel :
    lll_hnf L A fl fuel = option_map (erase_out fl) (lll_hnf L A (true, true) fuel).
  Proof.
    unfold lll_hnf. rewrite hnf_run_flags. destruct (hnf_run L A (true, true) fuel) as [s|]; [|reflexivity].
    cbn [option_map obind]. now rewrite erase_hnf_result.
  Qed.

  (* ---------- the property clauses on the results ---------- *)
  Theorem lll_hnf_unimodular A f1 f2 fuel H oP oQ :
    lll_hnf L A (f1, f2) fuel = Some (H, oP, oQ) ->
    let m := length A in
    let n := lncols A in
    exists P Q,
      lll_hnf L A (true, true) fuel = Some (H, Some P, Some Q) /\
      oP = (if f1 then Some P else None) /\ oQ = (if f2 then Some Q else None) /\
      meq m n (lget o H) (mmul o m (lget o P) (lget o A)) /\
      meq m m (mmul o m (lget o P) (lget o Q)) (mid o) /\
      meq m m (mmul o m (lget o Q) (lget o P)) (mid o).
  Proof.
    intros E m n. rewrite lll_hnf_flags in E.
    destruct (lll_hnf L A (true, true) fuel) as [[[H' oP'] oQ']|] eqn:E1; [|discriminate].
    cbn [option_map] in E. unfold erase_out in E. cbn [fst snd] in E. injection E as <- <- <-.
    unfold lll_hnf in E1. destruct (hnf_run L A (true, true) fuel) as [s|] eqn:E2; [|discriminate].
    cbn [obind] in E1. injection E1 as E1.
    pose proof (hnf_result_tinv m n A s (hnf_run_uinv A fuel s E2)) as (P & Q & HP & HQ & HT & HPQ & HQP).
    rewrite E1 in HP, HQ, HT. cbn [fst snd] in HP, HQ, HT. subst oP' oQ'.
    exists P, Q. repeat split; assumption.
  Qed.

  Theorem lll_unimodular A with_trans fuel B oP :
    lll L A with_trans fuel = Some (B, oP) ->
    let m := length A in
    let n := lncols A in
    exists P Q,
      oP = (if with_trans then Some P else None) /\
      lll L A true fuel = Some (B, Some P) /\
      meq m n (lget o B) (mmul o m (lget o P) (lget o A)) /\
      meq m m (mmul o m (lget o P) (lget o Q)) (mid o) /\
      meq m m (mmul o m (lget o Q) (lget o P)) (mid o).
  Proof.
    intros E m n. unfold lll in *. rewrite lll_run_flags in E.
    destruct (lll_run L A (true, true) fuel) as [s|] eqn:E1; [|discriminate].
    cbn [option_map obind] in E. injection E as <- <-.
    pose proof (lll_run_uinv A fuel s E1) as (Hm & Hn & P & Q & HP & HQ & HT & HPQ & HQP).
    exists P, Q. cbn [erase target tp fst snd]. rewrite HP.
    split; [reflexivity|]. split.
    - rewrite lll_run_flags, E1. cbn [option_map obind erase target tp fst snd]. now rewrite HP.
    - auto.
  Qed.
  (* ---------- every reachable state, for every choice of the flags ---------- *)
  Lemma hnf_reach_erase A fl s : hnf_reach A fl s -> exists s0, hnf_reach A (true, true) s0 /\ s = erase fl s0.
  Proof.
    induction 1 as [|s s' _ [s0 [H0 ->]] E|s s' _ [s0 [H0 ->]] E].
    - exists (data_new L A (true, true)). split; [constructor|apply erase_data_new].
    - rewrite erase_hnf_iterate in E. destruct (hnf_iterate L s0) as [s0'|] eqn:E0; [|discriminate].
      cbn [option_map] in E. injection E as <-. exists s0'. split; [now apply (hr_step A _ s0)|reflexivity].
    - rewrite erase_hnf_final in E. destruct (hnf_final L s0) as [s0'|] eqn:E0; [|discriminate].
      cbn [option_map] in E. injection E as <-. exists s0'. split; [now apply (hr_final A _ s0)|reflexivity].
  Qed.

  Lemma lll_reach_erase A fl s : lll_reach A fl s -> exists s0, lll_reach A (true, true) s0 /\ s = erase fl s0.
  Proof.
    induction 1 as [|s E|s s' _ [s0 [H0 ->]] E].
    - exists (data_new L A (true, true)). split; [constructor|apply erase_data_new].
    - rewrite erase_data_new, erase_setup in E. destruct (setup L _) as [s0|] eqn:E0; [|discriminate].
      cbn [option_map] in E. injection E as <-. exists s0. split; [now apply lr_setup|reflexivity].
    - rewrite erase_lll_iterate in E. destruct (lll_iterate L s0) as [s0'|] eqn:E0; [|discriminate].
      cbn [option_map] in E. injection E as <-. exists s0'. split; [now apply (lr_step A _ s0)|reflexivity].
  Qed.

  (* the state holds target = P A for a unimodular P with inverse Q; P, Q are stored iff the flags ask for them *)
  Definition tracked (A : lmat R) (fl : bool * bool) (s : lll_data (R := R)) : Prop :=
    let m := length A in
    let n := lncols A in
    nr s = m /\ nc s = n /\
    exists P Q,
      tp s = (if fst fl then Some P else None) /\ tpinv s = (if snd fl then Some Q else None) /\
      meq m n (lget o (target s)) (mmul o m (lget o P) (lget o A)) /\
      meq m m (mmul o m (lget o P) (lget o Q)) (mid o) /\
      meq m m (mmul o m (lget o Q) (lget o P)) (mid o).

  Lemma uinv_tracked A fl s0 : uinv (length A) (lncols A) A s0 -> tracked A fl (erase fl s0).
  Proof.
    intros (Hm & Hn & P & Q & HP & HQ & HT & HPQ & HQP). unfold tracked. cbn [erase nr nc tp tpinv target].
    split; [exact Hm|]. split; [exact Hn|]. exists P, Q. rewrite HP, HQ.
    split; [now destruct (fst fl)|]. split; [now destruct (snd fl)|]. auto.
  Qed.

  Theorem reach_unimodular A fl s : hnf_reach A fl s \/ lll_reach A fl s -> tracked A fl s.
  Proof.
    intros [H|H].
    - apply hnf_reach_erase in H. destruct H as [s0 [H0 ->]]. apply uinv_tracked. now apply hnf_reach_uinv.
    - apply lll_reach_erase in H. destruct H as [s0 [H0 ->]]. apply uinv_tracked. now apply lll_reach_uinv.
  Qed.

  (* the states the two entry points pass through are reachable *)
  Lemma hnf_loop_reach A fl fuel : forall s s', hnf_reach A fl s -> hnf_loop L fuel s = Some s' -> hnf_reach A fl s'.
  Proof.
    induction fuel as [|f IH]; intros s s' HR; cbn [hnf_loop]; destruct (_ <? _)%nat; try discriminate;
      try (intros H; injection H as <-; exact HR).
    destruct (hnf_iterate L s) as [s1|] eqn:E; [|discriminate]. cbn [obind].
    apply IH. now apply (hr_step A fl s).
  Qed.

  Lemma hnf_run_reach A fl fuel s : hnf_run L A fl fuel = Some s -> hnf_reach A fl s.
  Proof.
    unfold hnf_run, hnf_process. destruct (hnf_loop L fuel _) as [s1|] eqn:E; [|discriminate]. cbn [obind].
    apply hr_final. apply (hnf_loop_reach A fl fuel _ _ (hr_init A fl) E).
  Qed.

  Lemma lll_loop_reach A fl fuel : forall s s', lll_reach A fl s -> lll_loop L fuel s = Some s' -> lll_reach A fl s'.
  Proof.
    induction fuel as [|f IH]; intros s s' HR; cbn [lll_loop]; destruct (_ <? _)%nat; try discriminate;
      try (intros H; injection H as <-; exact HR).
    destruct (lll_iterate L s) as [s1|] eqn:E; [|discriminate]. cbn [obind].
    apply IH. now apply (lr_step A fl s).
  Qed.

  Lemma lll_run_reach A fl fuel s : lll_run L A fl fuel = Some s -> lll_reach A fl s.
  Proof.
    unfold lll_run. destruct (setup L _) as [s1|] eqn:E; [|discriminate]. cbn [obind].
    apply lll_loop_reach. now apply lr_setup.
  Qed.
End Unimod.
