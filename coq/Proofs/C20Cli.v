(* C20: the decision logic of the CLI model (dispatch table, -c parsing of integers and of the listed
   symbolic values, guards, error outcomes). *)
From Coq Require Import ZArith NArith List Bool Arith Lia ZifyN ZifyBool ZifyNat.
Require Import Yui.Model.Table Yui.Model.Cli Yui.Proofs.C20Str.
Import ListNotations.

(* ---------- str::split ---------- *)
Lemma split_on_nonempty : forall sep s, split_on sep s <> [].
Proof.
  intros sep s. destruct s as [|c r]; cbn [split_on]; [discriminate|].
  destruct (c =? sep)%N; [discriminate|]. destruct (split_on sep r); discriminate.
Qed.
(* the pieces, glued with the separator, give the string back; no piece contains the separator *)
Lemma join_cons2 : forall sep a b (r : list str), join sep (a :: b :: r) = a ++ sep ++ join sep (b :: r).
Proof. reflexivity. Qed.
Lemma split_on_join : forall sep s, join [sep] (split_on sep s) = s.
Proof.
  intros sep. induction s as [|c r IH]; [reflexivity|].
  cbn [split_on]. pose proof (split_on_nonempty sep r) as Hne.
  destruct (split_on sep r) as [|t ts] eqn:Es; [congruence|].
  destruct (c =? sep)%N eqn:E.
  - apply N.eqb_eq in E. subst c. rewrite join_cons2, IH. reflexivity.
  - destruct ts as [|t2 ts2].
    + cbn [join] in *. now subst.
    + rewrite join_cons2 in *. rewrite <- IH. reflexivity.
Qed.
Lemma split_on_no_sep : forall sep s t, In t (split_on sep s) -> ~ In sep t.
Proof.
  intros sep. induction s as [|c r IH]; intros t Ht.
  - destruct Ht as [<-|[]]. intros [].
  - cbn [split_on] in Ht. destruct (c =? sep)%N eqn:E.
    + destruct Ht as [<-|Ht]; [intros [] | now apply IH].
    + apply N.eqb_neq in E. pose proof (split_on_nonempty sep r) as Hne.
      destruct (split_on sep r) as [|t0 ts] eqn:Es; [congruence|].
      destruct Ht as [<-|Ht].
      * intros [H|H]; [congruence | apply (IH t0 (or_introl eq_refl) H)].
      * apply IH. now right.
Qed.
Lemma split_comma_spec : forall c,
  join [44%N] (split_on 44 c) = c /\ (forall t, In t (split_on 44 c) -> ~ In 44%N t).
Proof. intro c. split; [apply split_on_join | apply split_on_no_sep]. Qed.
Lemma split_on_chars : forall sep s t c, In t (split_on sep s) -> In c t -> In c s.
Proof.
  intros sep. induction s as [|a r IH]; intros t c Ht Hc.
  - destruct Ht as [<-|[]]. destruct Hc.
  - cbn [split_on] in Ht. destruct (a =? sep)%N eqn:E.
    + destruct Ht as [<-|Ht]; [destruct Hc | right; eapply IH; eauto].
    + pose proof (split_on_nonempty sep r) as Hne.
      destruct (split_on sep r) as [|t0 ts] eqn:Es; [congruence|].
      destruct Ht as [<-|Ht].
      * destruct Hc as [<-|Hc]; [now left | right; eapply IH; [now left | exact Hc]].
      * right. eapply IH; [right; exact Ht | exact Hc].
Qed.

Lemma existsb_str_eqb : forall t ts, existsb (str_eqb t) ts = true <-> In t ts.
Proof.
  intros t ts. rewrite existsb_exists. split.
  - intros (x & Hx & E). apply str_eqb_eq in E. now subst.
  - intro H. exists t. split; [exact H | apply str_eqb_refl].
Qed.
(* poly_vars: which of the tokens "H", "T" occur among the comma separated pieces *)
Theorem poly_vars_spec : forall c,
  poly_vars c = match existsb (str_eqb s_H) (split_on 44 c), existsb (str_eqb s_T) (split_on 44 c) with
                | true, true => PV_HT | true, false => PV_H | false, true => PV_T | false, false => PV_None
                end
  /\ (existsb (str_eqb s_H) (split_on 44 c) = true <-> In s_H (split_on 44 c))
  /\ (existsb (str_eqb s_T) (split_on 44 c) = true <-> In s_T (split_on 44 c)).
Proof. intro c. split; [reflexivity|]. split; apply existsb_str_eqb. Qed.

Lemma poly_vars_none : forall c, ~ In 72%N c -> ~ In 84%N c -> poly_vars c = PV_None.
Proof.
  intros c HH HT. unfold poly_vars.
  destruct (existsb (str_eqb s_H) (split_on 44 c)) eqn:E1.
  - apply existsb_str_eqb in E1. exfalso. apply HH. eapply split_on_chars; [exact E1 | now left].
  - destruct (existsb (str_eqb s_T) (split_on 44 c)) eqn:E2; [|reflexivity].
    apply existsb_str_eqb in E2. exfalso. apply HT. eapply split_on_chars; [exact E2 | now left].
Qed.

(* ---------- the dispatch table ---------- *)
(* the supported set, written independently of the macro cascade *)
Definition supported (cmd : command) (ty : ctype) (v : polyvars) : bool :=
  match ty with
  | TGauss | TEisen => false
  | _ => match v with
         | PV_None => true
         | PV_H | PV_T => match cmd, ty with Kh, TZ => false | _, _ => true end
         | PV_HT => match cmd with Ckh => true | Kh => false end
         end
  end.
Definition base_of (ty : ctype) : base :=
  match ty with TZ => BZ | TQ => BQ | TF2 => BF2 | TF3 => BF3 | TGauss | TEisen => BZ end.
Definition unsupported_error (ty : ctype) (v : polyvars) : err_kind :=
  match ty, v with TGauss, PV_None | TEisen, PV_None => EFeature | _, _ => EUnsupported end.

Theorem dispatch_spec : forall cmd ty c,
  dispatch cmd ty c = if supported cmd ty (poly_vars c)
                      then TRun (Ring (base_of ty) (poly_vars c))
                      else TErr (unsupported_error ty (poly_vars c)).
Proof.
  intros cmd ty c. unfold dispatch, try_ring, try_eucring.
  destruct cmd, ty, (poly_vars c); reflexivity.
Qed.

(* ---------- decide, restated with the supported set ---------- *)
Theorem decide_spec : forall cmd ty c reduced,
  decide cmd ty c reduced =
    if negb (supported cmd ty (poly_vars c)) then DError (unsupported_error ty (poly_vars c))
    else match parse_pair (Ring (base_of ty) (poly_vars c)) c with
         | PErr => DError EParse
         | PPanic => DError EPanic
         | POk (h, t) =>
             if reduced && negb (is_zero t) then DError EGuardReduced
             else DCompute (mk_params (Ring (base_of ty) (poly_vars c)) h t reduced
                    match cmd with
                    | Ckh => DGrid
                    | Kh => if (is_zero h && is_zero t) || str_eqb c s_H || str_eqb c s_0T then DBigraded else DSeq
                    end)
         end.
Proof.
  intros cmd ty c reduced. unfold decide. rewrite dispatch_spec.
  destruct (supported cmd ty (poly_vars c)); reflexivity.
Qed.

(* ---------- integers ---------- *)
Lemma parse_int_str_of_Z : forall lo hi z,
  parse_int lo hi (str_of_Z z) = if (lo <=? z)%Z && (z <=? hi)%Z then Some z else None.
Proof. intros lo hi z. unfold parse_int. now rewrite parse_Z_dec_str_of_Z. Qed.

Lemma str_of_Z_not_in : forall z c, ~ ((48 <= c <= 57)%N \/ c = 45%N) -> ~ In c (str_of_Z z).
Proof. intros z c H Hc. apply H. now apply str_of_Z_chars in Hc. Qed.

Lemma break_at_none : forall sep s, ~ In sep s -> break_at sep s = None.
Proof.
  intros sep. induction s as [|c r IH]; intro H; [reflexivity|]. cbn [break_at].
  destruct (c =? sep)%N eqn:E; [apply N.eqb_eq in E; subst; exfalso; apply H; now left|].
  rewrite IH; [reflexivity | intro Hr; apply H; now right].
Qed.
Lemma split_last_none : forall sep l, ~ In sep l -> split_last sep l = None.
Proof.
  intros sep l H. unfold split_last. destruct (rev l) as [|x rest] eqn:E; [reflexivity|].
  rewrite break_at_none; [reflexivity|]. intro Hr. apply H. apply in_rev. rewrite E. now right.
Qed.
Lemma first_some_none : forall A B (f : A -> option B) l, (forall a, In a l -> f a = None) -> first_some f l = None.
Proof.
  induction l as [|a l IH]; intro H; [reflexivity|]. cbn [first_some].
  rewrite (H a (or_introl eq_refl)). apply IH. intros; apply H; now right.
Qed.
Lemma ratio_regex_none : forall s, ~ In 47%N s -> ratio_regex s = None.
Proof.
  intros s H. unfold ratio_regex. apply first_some_none. intros l Hl. apply split_last_none.
  intro Hc. apply H. eapply split_on_chars; eauto.
Qed.
Lemma pair_regex_none : forall s, ~ In 44%N s -> pair_regex s = None.
Proof. intros s H. unfold pair_regex. destruct (existsb (N.eqb 10) s); [reflexivity | now apply split_last_none]. Qed.

Definition is_scalar (ty : ctype) : bool := match ty with TZ | TQ | TF2 | TF3 => true | _ => false end.
(* the range of the integer type the value is parsed as (i64 for Z and Q, i32 for F_p) *)
Definition int_lo (ty : ctype) : Z := match ty with TF2 | TF3 => - 2 ^ 31 | _ => - 2 ^ 63 end.
Definition int_hi (ty : ctype) : Z := match ty with TF2 | TF3 => 2 ^ 31 - 1 | _ => 2 ^ 63 - 1 end.
Definition reduce (ty : ctype) (z : Z) : Z := match ty with TF2 => z mod 2 | TF3 => z mod 3 | _ => z end.

Lemma base_from_str_int : forall ty z, is_scalar ty = true ->
  base_from_str (base_of ty) (str_of_Z z) =
    if (int_lo ty <=? z)%Z && (z <=? int_hi ty)%Z then POk (VInt (reduce ty z)) else PErr.
Proof.
  intros ty z Hs. destruct ty; try discriminate; cbn [base_of base_from_str int_lo int_hi reduce];
    unfold parse_i64, parse_i32; rewrite parse_int_str_of_Z.
  - destruct ((- 2 ^ 63 <=? z)%Z && (z <=? 2 ^ 63 - 1)%Z); reflexivity.
  - destruct ((- 2 ^ 63 <=? z)%Z && (z <=? 2 ^ 63 - 1)%Z); [reflexivity|].
    rewrite ratio_regex_none; [reflexivity|]. apply str_of_Z_not_in. lia.
  - destruct ((- 2 ^ 31 <=? z)%Z && (z <=? 2 ^ 31 - 1)%Z); reflexivity.
  - destruct ((- 2 ^ 31 <=? z)%Z && (z <=? 2 ^ 31 - 1)%Z); reflexivity.
Qed.

Lemma str_of_Z_neq : forall z s c, In c s -> ~ ((48 <= c <= 57)%N \/ c = 45%N) -> str_eqb (str_of_Z z) s = false.
Proof.
  intros z s c Hc Hn. apply str_eqb_neq. intro E. apply (str_of_Z_not_in z c Hn). rewrite E. exact Hc.
Qed.

(* every integer: `-c <z>` selects the scalar ring, h = z (reduced mod p over F_p), t = 0; outside the
   range of the machine type the value is a parse error *)
Theorem decide_integer : forall cmd ty z reduced, is_scalar ty = true ->
  decide cmd ty (str_of_Z z) reduced =
    if (int_lo ty <=? z)%Z && (z <=? int_hi ty)%Z
    then DCompute (mk_params (Ring (base_of ty) PV_None) (VInt (reduce ty z)) (VInt 0) reduced
           match cmd with
           | Ckh => DGrid
           | Kh => if (reduce ty z =? 0)%Z then DBigraded else DSeq
           end)
    else DError EParse.
Proof.
  intros cmd ty z reduced Hs. rewrite decide_spec.
  assert (Hv : poly_vars (str_of_Z z) = PV_None) by (apply poly_vars_none; apply str_of_Z_not_in; lia).
  rewrite Hv.
  assert (Hsup : supported cmd ty PV_None = true) by (destruct cmd, ty; try discriminate; reflexivity).
  rewrite Hsup. cbn [negb]. unfold parse_pair, ring_from_str. rewrite base_from_str_int by exact Hs.
  destruct ((int_lo ty <=? z)%Z && (z <=? int_hi ty)%Z).
  - cbn [is_zero]. change (0 =? 0)%Z with true. cbn [negb]. rewrite andb_false_r, andb_true_r.
    rewrite (str_of_Z_neq z s_H 72%N) by (try (now left); lia).
    rewrite (str_of_Z_neq z s_0T 44%N) by (try (right; now left); lia).
    rewrite !orb_false_r. reflexivity.
  - rewrite pair_regex_none; [reflexivity|]. apply str_of_Z_not_in. lia.
Qed.

(* ---------- the listed symbolic values ---------- *)
Theorem decide_H : forall cmd ty reduced,
  decide cmd ty s_H reduced =
    if supported cmd ty PV_H
    then DCompute (mk_params (Ring (base_of ty) PV_H) (VMono 1 0) (VInt 0) reduced
                             match cmd with Kh => DBigraded | Ckh => DGrid end)
    else DError EUnsupported.
Proof. intros cmd ty reduced. destruct cmd, ty, reduced; vm_compute; reflexivity. Qed.
Theorem decide_0T : forall cmd ty reduced,
  decide cmd ty s_0T reduced =
    if supported cmd ty PV_T
    then if reduced then DError EGuardReduced
         else DCompute (mk_params (Ring (base_of ty) PV_T) (VInt 0) (VMono 0 1) false
                                  match cmd with Kh => DBigraded | Ckh => DGrid end)
    else DError EUnsupported.
Proof. intros cmd ty reduced. destruct cmd, ty, reduced; vm_compute; reflexivity. Qed.
Theorem decide_HT : forall cmd ty reduced,
  decide cmd ty s_HT reduced =
    if supported cmd ty PV_HT
    then if reduced then DError EGuardReduced
         else DCompute (mk_params (Ring (base_of ty) PV_HT) (VMono 1 0) (VMono 0 1) false DGrid)
    else DError EUnsupported.
Proof. intros cmd ty reduced. destruct cmd, ty, reduced; vm_compute; reflexivity. Qed.

(* ---------- the whole command ---------- *)
Definition ctype_of_arg (t_arg : option str) : option ctype :=
  match t_arg with None => Some TZ | Some s => parse_ctype s end.
Definition cvalue_of_arg (c_arg : option str) : str := match c_arg with None => s_0 | Some s => s end.
(* the library result selected by the display mode, rendered *)
Definition rendered (p : params) (mirror : bool) (lib : oracle) : option str :=
  let sym := ring_symbol (p_ring p) in
  match p_display p with
  | DBigraded => option_map (kh_stdout_bigraded sym) (lib_kh_bigraded lib p mirror)
  | DSeq => option_map (kh_stdout_seq sym) (lib_kh_seq lib p mirror)
  | DGrid => option_map (ckh_stdout sym) (lib_ckh lib p mirror)
  end.

(* a table is printed exactly when every stage succeeds, and then it is the rendering of the library's
   result for the decided parameters; in every other case the result is an error *)
Theorem run_spec : forall cmd t_arg c_arg mirror reduced link lib,
  run cmd t_arg c_arg mirror reduced link lib =
    match ctype_of_arg t_arg with
    | None => OError EClap
    | Some ty =>
        match decide cmd ty (cvalue_of_arg c_arg) reduced with
        | DError e => OError e
        | DCompute p =>
            match link with
            | LInvalid => OError ELink
            | LOk => match rendered p mirror lib with Some out => OTable out | None => OError EPanic end
            end
        end
    end.
Proof.
  intros. unfold run, ctype_of_arg, cvalue_of_arg, rendered.
  destruct (match t_arg with None => Some TZ | Some s => parse_ctype s end) as [ty|]; [|reflexivity].
  destruct (decide cmd ty _ reduced) as [e|p]; [reflexivity|].
  destruct link; [reflexivity|].
  destruct (p_display p);
    [destruct (lib_kh_bigraded lib p mirror) | destruct (lib_kh_seq lib p mirror) | destruct (lib_ckh lib p mirror)];
    reflexivity.
Qed.

Theorem run_table_inv : forall cmd t_arg c_arg mirror reduced link lib out,
  run cmd t_arg c_arg mirror reduced link lib = OTable out ->
  exists ty p, ctype_of_arg t_arg = Some ty /\
               decide cmd ty (cvalue_of_arg c_arg) reduced = DCompute p /\
               link = LOk /\ rendered p mirror lib = Some out.
Proof.
  intros until out. rewrite run_spec.
  destruct (ctype_of_arg t_arg) as [ty|]; [|discriminate].
  destruct (decide cmd ty _ reduced) as [e|p] eqn:Ed; [discriminate|].
  destruct link; [discriminate|].
  destruct (rendered p mirror lib) as [o|] eqn:Er; [|discriminate].
  intro H. inversion H; subst. exists ty, p. auto.
Qed.

Theorem run_error : forall cmd t_arg c_arg mirror reduced link lib,
  (ctype_of_arg t_arg = None \/
   (exists ty, ctype_of_arg t_arg = Some ty /\
      ((exists e, decide cmd ty (cvalue_of_arg c_arg) reduced = DError e) \/
       link = LInvalid \/
       (exists p, decide cmd ty (cvalue_of_arg c_arg) reduced = DCompute p /\ rendered p mirror lib = None)))) ->
  exists e, run cmd t_arg c_arg mirror reduced link lib = OError e /\
            exit_code (OError e) <> 0%N.
Proof.
  intros until lib. rewrite run_spec. intros [H|(ty & Ht & H)].
  - rewrite H. exists EClap. split; [reflexivity | discriminate].
  - rewrite Ht. destruct H as [(e & He)|[Hl|(p & Hp & Hr)]].
    + rewrite He. exists e. split; [reflexivity | destruct e; discriminate].
    + destruct (decide cmd ty _ reduced) as [e|p].
      * exists e. split; [reflexivity | destruct e; discriminate].
      * subst link. exists ELink. split; [reflexivity | discriminate].
    + rewrite Hp. destruct link.
      * exists ELink. split; [reflexivity | discriminate].
      * rewrite Hr. exists EPanic. split; [reflexivity | discriminate].
Qed.

(* when decide yields an error: exactly the unsupported combinations, unparsable values, panicking
   parses and the reduced guard *)
Theorem decide_error_iff : forall cmd ty c reduced e,
  decide cmd ty c reduced = DError e <->
    (supported cmd ty (poly_vars c) = false /\ e = unsupported_error ty (poly_vars c)) \/
    (supported cmd ty (poly_vars c) = true /\
       match parse_pair (Ring (base_of ty) (poly_vars c)) c with
       | PErr => e = EParse
       | PPanic => e = EPanic
       | POk (h, t) => reduced = true /\ is_zero t = false /\ e = EGuardReduced
       end).
Proof.
  intros cmd ty c reduced e. rewrite decide_spec.
  destruct (supported cmd ty (poly_vars c)); cbn [negb].
  - destruct (parse_pair _ c) as [[h t]| |].
    + destruct reduced; cbn [andb].
      * destruct (is_zero t); cbn [negb].
        -- split; [discriminate | intros [[H _]|[_ (_ & H & _)]]; discriminate].
        -- split; [intro H; inversion H; right; auto | intros [[H _]|[_ (_ & _ & ->)]]; [discriminate | reflexivity]].
      * split; [discriminate | intros [[H _]|[_ (H & _)]]; discriminate].
    + split; [intro H; inversion H; right; auto | intros [[H _]|[_ ->]]; [discriminate | reflexivity]].
    + split; [intro H; inversion H; right; auto | intros [[H _]|[_ ->]]; [discriminate | reflexivity]].
  - split; [intro H; inversion H; left; auto | intros [[_ ->]|[H _]]; [reflexivity | discriminate]].
Qed.
