(* Matrices over a pre-additive category form a pre-additive category (the additive closure Mat(C) of [Bar-Natan '05,
   Section 3]: objects = finite families of objects, morphisms = matrices of morphisms).  Hence the blocks A, B, A', D of the
   elimination lemma of Proofs/TngPElim.v may be families (all the other vertices of a homological degree of a
   TngComplex), and - a ring being a pre-additive category with one object - the lemma holds for matrices over an
   arbitrary, not necessarily commutative, ring ([ncring_ops] / [ncring_laws] below: ring laws WITHOUT commutativity of
   the multiplication).  No axiom: the equality of matrices is pointwise on the index range (a setoid). *)
From Coq Require Import Arith Lia Setoid Morphisms Eqdep_dec.
Require Import Yui.Proofs.TngPElim.

Section Mat.
  Context (C : preadd_ops) (L : preadd_laws C).
  Local Notation "f == g" := (peq C f g) (at level 70, no associativity).
  Local Notation "f + g" := (padd C f g).
  Local Notation "- f" := (pneg C f).
  Local Notation "f 'o' g" := (pcomp C f g) (at level 40, left associativity).
  Local Notation "0" := (pzero C).
  Local Notation "1" := (pid C).

  #[local] Instance eqv_j X Y : Equivalence (@peq C X Y) := peq_Equivalence C L X Y.
  #[local] Instance add_j X Y : Proper (@peq C X Y ==> @peq C X Y ==> @peq C X Y) (@padd C X Y) := padd_Proper C L X Y.
  #[local] Instance neg_j X Y : Proper (@peq C X Y ==> @peq C X Y) (@pneg C X Y) := pneg_Proper C L X Y.
  #[local] Instance comp_j X Y Z : Proper (@peq C Y Z ==> @peq C X Y ==> @peq C X Z) (@pcomp C X Y Z) :=
    pcomp_Proper C L X Y Z.

  (* a finite family of objects: the first [fn] values of [fo] *)
  Record fam : Type := mkFam { fn : nat; fo : nat -> pobj C }.
  (* entry (i, j): from the j-th object of the source to the i-th object of the target *)
  Definition mhom (S T : fam) : Type := forall i j : nat, phom C (fo S j) (fo T i).
  Definition meq (S T : fam) (M N : mhom S T) : Prop := forall i j, i < fn T -> j < fn S -> M i j == N i j.
  Definition mzero (S T : fam) : mhom S T := fun _ _ => 0.
  Definition madd (S T : fam) (M N : mhom S T) : mhom S T := fun i j => M i j + N i j.
  Definition mneg (S T : fam) (M : mhom S T) : mhom S T := fun i j => - M i j.
  Fixpoint psum {X Y} (n : nat) (F : nat -> phom C X Y) : phom C X Y :=
    match n with O => 0 | S k => psum k F + F k end.
  Definition mcomp (S T U : fam) (M : mhom T U) (N : mhom S T) : mhom S U :=
    fun i k => psum (fn T) (fun j => M i j o N j k).
  Definition delta (S : fam) (i j : nat) : phom C (fo S j) (fo S i) :=
    match Nat.eq_dec j i with
    | left e => match e in (_ = k) return phom C (fo S j) (fo S k) with eq_refl => 1 end
    | right _ => 0
    end.
  Definition mid (S : fam) : mhom S S := fun i j => delta S i j.

  Lemma delta_eq S i : delta S i i = 1.
  Proof.
    unfold delta. destruct (Nat.eq_dec i i) as [e|n]; [|contradiction].
    now rewrite (UIP_refl_nat _ e).
  Qed.
  Lemma delta_ne S i j : j <> i -> delta S i j = 0.
  Proof. intros H. unfold delta. destruct (Nat.eq_dec j i) as [e|n]; [contradiction|reflexivity]. Qed.

  Lemma psum_ext X Y n (F G : nat -> phom C X Y) : (forall j, j < n -> F j == G j) -> psum n F == psum n G.
  Proof.
    induction n as [|n IH]; intros H; cbn [psum]; [reflexivity|].
    rewrite IH by (intros j Hj; apply H; lia). now rewrite (H n) by lia.
  Qed.
  Lemma psum_zero X Y n : psum n (fun _ => (0 : phom C X Y)) == 0.
  Proof. induction n as [|n IH]; cbn [psum]; [reflexivity|]. rewrite IH. apply (padd_0_l C L). Qed.
  Lemma psum_add X Y n (F G : nat -> phom C X Y) : psum n (fun j => F j + G j) == psum n F + psum n G.
  Proof.
    induction n as [|n IH]; cbn [psum]; [now rewrite (padd_0_l C L)|].
    rewrite IH. rewrite !(padd_assoc C L). apply (padd_eq C L); [reflexivity|].
    rewrite <- !(padd_assoc C L). apply (padd_eq C L); [|reflexivity]. apply (padd_comm C L).
  Qed.
  Lemma psum_comp_l X Y Z n (F : nat -> phom C Y Z) (g : phom C X Y) : psum n F o g == psum n (fun j => F j o g).
  Proof.
    induction n as [|n IH]; cbn [psum]; [apply (pcomp_0_l C L)|]. rewrite (pcomp_add_l C L). now rewrite IH.
  Qed.
  Lemma psum_comp_r X Y Z n (f : phom C Y Z) (G : nat -> phom C X Y) : f o psum n G == psum n (fun j => f o G j).
  Proof.
    induction n as [|n IH]; cbn [psum]; [apply (pcomp_0_r C L)|]. rewrite (pcomp_add_r C L). now rewrite IH.
  Qed.
  Lemma psum_swap X Y n m (F : nat -> nat -> phom C X Y) :
    psum n (fun i => psum m (fun j => F i j)) == psum m (fun j => psum n (fun i => F i j)).
  Proof.
    induction n as [|n IH]; cbn [psum].
    - symmetry. apply psum_zero.
    - rewrite IH. symmetry. apply psum_add.
  Qed.
  (* sum_j F j o delta(j, k) = F k *)
  Lemma psum_delta_r S Y n k (F : forall j, phom C (fo S j) Y) :
    k < n -> psum n (fun j => F j o delta S j k) == F k.
  Proof.
    induction n as [|n IH]; intros Hk; [lia|]. cbn [psum].
    destruct (Nat.eq_dec k n) as [->|Hne].
    - rewrite delta_eq, (pcomp_id_r C L).
      rewrite (psum_ext _ _ n _ (fun _ => 0)).
      + rewrite psum_zero. apply (padd_0_l C L).
      + intros j Hj. rewrite delta_ne by lia. apply (pcomp_0_r C L).
    - rewrite IH by lia. rewrite delta_ne by lia. rewrite (pcomp_0_r C L). apply (padd_0_r C L).
  Qed.
  Lemma psum_delta_l S X n k (F : forall j, phom C X (fo S j)) :
    k < n -> psum n (fun j => delta S k j o F j) == F k.
  Proof.
    induction n as [|n IH]; intros Hk; [lia|]. cbn [psum].
    destruct (Nat.eq_dec k n) as [->|Hne].
    - rewrite delta_eq, (pcomp_id_l C L).
      rewrite (psum_ext _ _ n _ (fun _ => 0)).
      + rewrite psum_zero. apply (padd_0_l C L).
      + intros j Hj. rewrite delta_ne by lia. apply (pcomp_0_l C L).
    - rewrite IH by lia. rewrite delta_ne by lia. rewrite (pcomp_0_l C L). apply (padd_0_r C L).
  Qed.

  Definition mat_ops : preadd_ops := mk_preadd_ops fam mhom meq mzero madd mneg mid mcomp.

  Theorem mat_laws : preadd_laws mat_ops.
  Proof.
    constructor; cbn [pobj phom peq pzero padd pneg pid pcomp mat_ops].
    - intros S T M i j _ _. reflexivity.
    - intros S T M N H i j Hi Hj. symmetry. now apply H.
    - intros S T M N K H1 H2 i j Hi Hj. now rewrite (H1 i j), (H2 i j).
    - intros S T M M' N N' H1 H2 i j Hi Hj. unfold madd. now rewrite (H1 i j), (H2 i j).
    - intros S T M M' H1 i j Hi Hj. unfold mneg. now rewrite (H1 i j).
    - intros S T U M M' N N' H1 H2 i k Hi Hk. unfold mcomp. apply psum_ext. intros j Hj.
      now rewrite (H1 i j), (H2 j k).
    - intros S T M N K i j _ _. apply (padd_assoc C L).
    - intros S T M N i j _ _. apply (padd_comm C L).
    - intros S T M i j _ _. apply (padd_0_l C L).
    - intros S T M i j _ _. apply (padd_neg_r C L).
    - intros W S T U M N K i l Hi Hl. unfold mcomp.
      rewrite (psum_ext _ _ (fn S) _ (fun k => psum (fn T) (fun j => M i j o (N j k o K k l)))).
      2:{ intros k Hk. rewrite psum_comp_l. apply psum_ext. intros j Hj. apply (pcomp_assoc C L). }
      rewrite psum_swap. apply psum_ext. intros j Hj. symmetry. apply psum_comp_r.
    - intros S T M i k Hi Hk. unfold mcomp, mid. now apply (psum_delta_l T).
    - intros S T M i k Hi Hk. unfold mcomp, mid. now apply (psum_delta_r S).
    - intros S T U M N K i k Hi Hk. unfold mcomp, madd. rewrite <- psum_add. apply psum_ext. intros j Hj.
      apply (pcomp_add_l C L).
    - intros S T U M N K i k Hi Hk. unfold mcomp, madd. rewrite <- psum_add. apply psum_ext. intros j Hj.
      apply (pcomp_add_r C L).
  Qed.
End Mat.

(* ------------------------------------------------------------------------------------------------ *)
(* rings without commutativity of the multiplication                                                *)
(* ------------------------------------------------------------------------------------------------ *)
Record ncring_ops (R : Type) : Type := mk_ncring_ops {
  nzero : R; none : R; nadd : R -> R -> R; nneg : R -> R; nmul : R -> R -> R;
}.
Arguments nzero {R} _.
Arguments none {R} _.
Arguments nadd {R} _ _ _.
Arguments nneg {R} _ _.
Arguments nmul {R} _ _ _.

Record ncring_laws {R : Type} (o : ncring_ops R) : Prop := mk_ncring_laws {
  nadd_assoc : forall a b c, nadd o (nadd o a b) c = nadd o a (nadd o b c);
  nadd_comm : forall a b, nadd o a b = nadd o b a;
  nadd_0_l : forall a, nadd o (nzero o) a = a;
  nadd_neg_r : forall a, nadd o a (nneg o a) = nzero o;
  nmul_assoc : forall a b c, nmul o (nmul o a b) c = nmul o a (nmul o b c);
  nmul_1_l : forall a, nmul o (none o) a = a;
  nmul_1_r : forall a, nmul o a (none o) = a;
  ndistr_l : forall a b c, nmul o (nadd o a b) c = nadd o (nmul o a c) (nmul o b c);
  ndistr_r : forall a b c, nmul o a (nadd o b c) = nadd o (nmul o a b) (nmul o a c);
}.

(* a ring is a pre-additive category with one object *)
Definition ring_preadd {R} (o : ncring_ops R) : preadd_ops :=
  mk_preadd_ops unit (fun _ _ => R) (fun _ _ => @eq R) (fun _ _ => nzero o) (fun _ _ => nadd o) (fun _ _ => nneg o)
    (fun _ => none o) (fun _ _ _ => nmul o).

Lemma ring_preadd_laws {R} (o : ncring_ops R) (Lo : ncring_laws o) : preadd_laws (ring_preadd o).
Proof.
  constructor; cbn.
  - reflexivity.
  - intros. now symmetry.
  - intros. congruence.
  - intros. congruence.
  - intros. congruence.
  - intros. congruence.
  - intros. apply (nadd_assoc o Lo).
  - intros. apply (nadd_comm o Lo).
  - intros. apply (nadd_0_l o Lo).
  - intros. apply (nadd_neg_r o Lo).
  - intros. apply (nmul_assoc o Lo).
  - intros. apply (nmul_1_l o Lo).
  - intros. apply (nmul_1_r o Lo).
  - intros. apply (ndistr_l o Lo).
  - intros. apply (ndistr_r o Lo).
Qed.

(* matrices over a non-commutative ring: a matrix with m rows and n columns is a function nat -> nat -> R read on
   i < m, j < n; the dimension is the object *)
Section NcMat.
  Context {R : Type} (o : ncring_ops R) (Lo : ncring_laws o).
  Definition ncmat_ops : preadd_ops := mat_ops (ring_preadd o).
  Definition ncmat_laws : preadd_laws ncmat_ops := mat_laws (ring_preadd o) (ring_preadd_laws o Lo).
  Definition dim (n : nat) : pobj ncmat_ops := mkFam (ring_preadd o) n (fun _ => tt).
  Definition ncmat (rows cols : nat) : Type := phom ncmat_ops (dim cols) (dim rows).
  Lemma ncmat_is_fun rows cols : ncmat rows cols = (nat -> nat -> R).
  Proof. reflexivity. Qed.
  (* the product is the usual one: (M N) i k = sum_{j < n} M i j * N j k, in this order *)
  Lemma ncmat_mul_entry m n l (M : ncmat m n) (N : ncmat n l) i k :
    pcomp ncmat_ops M N i k = psum (ring_preadd o) n (fun j => nmul o (M i j) (N j k)).
  Proof. reflexivity. Qed.
  Lemma ncmat_eq_entry m n (M N : ncmat m n) :
    peq ncmat_ops M N <-> (forall i j, i < m -> j < n -> M i j = N i j).
  Proof. reflexivity. Qed.

  Local Notation "f == g" := (peq ncmat_ops f g) (at level 70, no associativity).
  Local Notation "f + g" := (padd ncmat_ops f g).
  Local Notation "- f" := (pneg ncmat_ops f).
  Local Notation "f * g" := (pcomp ncmat_ops f g).
  Local Notation "0" := (pzero ncmat_ops).
  Local Notation "1" := (pid ncmat_ops).

  (* The elimination lemma for block matrices over a non-commutative ring:
        [a b ; c d] : (r + nb) columns -> (r + nd) rows, a (r x r) invertible with two-sided inverse a',
        the incoming differential [x ; y] with l columns, the outgoing [z w] with k rows. *)
  Theorem ncmat_elim_complex (r nb nd l k : nat)
      (a : ncmat r r) (b : ncmat r nb) (c : ncmat nd r) (d : ncmat nd nb) (a' : ncmat r r)
      (x : ncmat r l) (y : ncmat nb l) (z : ncmat k r) (w : ncmat k nd) :
    a' * a == 1 -> a * a' == 1 ->
    a * x + b * y == 0 -> c * x + d * y == 0 ->
    z * a + w * c == 0 -> z * b + w * d == 0 ->
    (d + - (c * a' * b)) * y == 0 /\ w * (d + - (c * a' * b)) == 0.
  Proof.
    intros Hl Hr Hax Hcx Hza Hzb. split.
    - exact (elim_complex_src ncmat_ops ncmat_laws a b c d a' Hl x y Hax Hcx).
    - exact (elim_complex_tgt ncmat_ops ncmat_laws a b c d a' Hr z w Hza Hzb).
  Qed.
End NcMat.
