(* C20: `-c <a>,<b>` for ALL pairs of integers: the value pair, the reduced guard and the bigraded / sequence
   choice of `kh` (bigraded exactly when BOTH constants vanish in the chosen ring, i.e. after reduction
   mod p over F_p).  kh.rs:  let bigraded = (h.is_zero() && t.is_zero()) || ["H", "0,T"].contains(c_value). *)
From Coq Require Import ZArith NArith List Bool Arith Lia ZifyN ZifyBool ZifyNat.
Require Import Yui.Model.Table Yui.Model.Cli Yui.Proofs.C20Str Yui.Proofs.C20Cli.
Import ListNotations.

(* ---------- a string with a comma is not an integer ---------- *)
Lemma digits_val_chars : forall s acc v c, digits_val s acc = Some v -> In c s -> is_digit c = true.
Proof.
  induction s as [|x s IH]; intros acc v c H Hc; [destruct Hc|].
  cbn [digits_val] in H. destruct (is_digit x) eqn:E; [|discriminate].
  destruct Hc as [<-|Hc]; [exact E | eapply IH; eauto].
Qed.
Lemma parse_N_dec_chars : forall s n c, parse_N_dec s = Some n -> In c s -> is_digit c = true.
Proof. intros s n c H Hc. unfold parse_N_dec in H. destruct s; [destruct Hc|]. eapply digits_val_chars; eauto. Qed.
Lemma parse_Z_dec_chars : forall s z c, parse_Z_dec s = Some z -> In c s ->
  is_digit c = true \/ c = 45%N \/ c = 43%N.
Proof.
  intros s z c H Hc. unfold parse_Z_dec in H. destruct s as [|x r]; [destruct Hc|].
  destruct (x =? 45)%N eqn:E1.
  - destruct Hc as [<-|Hc]; [right; left; now apply N.eqb_eq|].
    destruct (parse_N_dec r) eqn:E; [|discriminate]. left. eapply parse_N_dec_chars; eauto.
  - destruct (x =? 43)%N eqn:E2.
    + destruct Hc as [<-|Hc]; [right; right; now apply N.eqb_eq|].
      destruct (parse_N_dec r) eqn:E; [|discriminate]. left. eapply parse_N_dec_chars; eauto.
    + destruct (parse_N_dec (x :: r)) eqn:E; [|discriminate]. left. eapply parse_N_dec_chars; eauto.
Qed.
Lemma parse_int_comma : forall lo hi s, In 44%N s -> parse_int lo hi s = None.
Proof.
  intros lo hi s H. unfold parse_int. destruct (parse_Z_dec s) as [z|] eqn:E; [|reflexivity].
  exfalso. destruct (parse_Z_dec_chars s z 44%N E H) as [Hd|[Hd|Hd]]; try discriminate.
Qed.

(* ---------- the regex ^(.+),(.+)$ on  a ++ "," ++ b  with no comma in b ---------- *)
Lemma break_at_app : forall sep a b, ~ In sep a -> break_at sep (a ++ sep :: b) = Some (a, b).
Proof.
  intros sep. induction a as [|c a IH]; intros b H; cbn [app break_at].
  - now rewrite N.eqb_refl.
  - destruct (c =? sep)%N eqn:E; [apply N.eqb_eq in E; subst; exfalso; apply H; now left|].
    rewrite IH; [reflexivity | intro Hr; apply H; now right].
Qed.
Lemma split_last_app : forall sep a b, a <> [] -> b <> [] -> ~ In sep b ->
  split_last sep (a ++ sep :: b) = Some (a, b).
Proof.
  intros sep a b Ha Hb Hn. unfold split_last.
  replace (rev (a ++ sep :: b)) with (rev b ++ sep :: rev a)
    by (rewrite rev_app_distr; cbn [rev]; now rewrite <- app_assoc).
  destruct (rev b) as [|x rest] eqn:Eb.
  - exfalso. apply Hb. rewrite <- (rev_involutive b), Eb. reflexivity.
  - cbn [app]. rewrite break_at_app.
    + destruct (rev a) as [|y ra] eqn:Ea.
      * exfalso. apply Ha. rewrite <- (rev_involutive a), Ea. reflexivity.
      * rewrite <- Ea, <- Eb, !rev_involutive. reflexivity.
    + intro Hr. apply Hn. apply in_rev. rewrite Eb. now right.
Qed.
Lemma existsb_nl_false : forall s, ~ In 10%N s -> existsb (N.eqb 10) s = false.
Proof.
  intros s H. destruct (existsb (N.eqb 10) s) eqn:E; [|reflexivity].
  apply existsb_exists in E. destruct E as (x & Hx & Ex). apply N.eqb_eq in Ex. subst. contradiction.
Qed.

Definition pair_str (a b : Z) : str := str_of_Z a ++ 44%N :: str_of_Z b.

Lemma pair_str_chars : forall a b c, In c (pair_str a b) -> (48 <= c <= 57)%N \/ c = 45%N \/ c = 44%N.
Proof.
  intros a b c H. unfold pair_str in H. apply in_app_or in H. destruct H as [H|[H|H]].
  - apply str_of_Z_chars in H. tauto.
  - right; right; congruence.
  - apply str_of_Z_chars in H. tauto.
Qed.
Lemma pair_str_not_in : forall a b c, ~ ((48 <= c <= 57)%N \/ c = 45%N \/ c = 44%N) -> ~ In c (pair_str a b).
Proof. intros a b c H Hc. apply H. now apply pair_str_chars in Hc. Qed.
Lemma pair_str_comma : forall a b, In 44%N (pair_str a b).
Proof. intros. unfold pair_str. apply in_or_app. right. now left. Qed.

Lemma pair_regex_pair_str : forall a b, pair_regex (pair_str a b) = Some (str_of_Z a, str_of_Z b).
Proof.
  intros a b. unfold pair_regex. rewrite existsb_nl_false by (apply pair_str_not_in; lia).
  unfold pair_str. apply split_last_app; try apply str_of_Z_nonempty. apply str_of_Z_not_in. lia.
Qed.

Lemma base_from_str_pair_str : forall ty a b, is_scalar ty = true ->
  base_from_str (base_of ty) (pair_str a b) = PErr.
Proof.
  intros ty a b Hs. pose proof (pair_str_comma a b) as Hc.
  destruct ty; try discriminate; cbn [base_of base_from_str]; unfold parse_i64, parse_i32;
    rewrite parse_int_comma by exact Hc; try reflexivity.
  rewrite ratio_regex_none; [reflexivity|]. apply pair_str_not_in. lia.
Qed.

Lemma pair_str_neq : forall a b s c, In c s -> ~ ((48 <= c <= 57)%N \/ c = 45%N \/ c = 44%N) ->
  str_eqb (pair_str a b) s = false.
Proof.
  intros a b s c Hc Hn. apply str_eqb_neq. intro E. apply (pair_str_not_in a b c Hn). rewrite E. exact Hc.
Qed.

Definition in_range (ty : ctype) (z : Z) : bool := (int_lo ty <=? z)%Z && (z <=? int_hi ty)%Z.

(* every pair of integers: `-c <a>,<b>` selects the scalar ring, h = a, t = b (both reduced mod p over F_p);
   out of the machine range: parse error; -r with t <> 0 in the ring: the guard;
   `kh` prints the bigraded table iff h = 0 AND t = 0 in the ring, otherwise the sequence *)
Theorem decide_int_pair : forall cmd ty a b reduced, is_scalar ty = true ->
  decide cmd ty (pair_str a b) reduced =
    if in_range ty a && in_range ty b
    then if reduced && negb (reduce ty b =? 0)%Z then DError EGuardReduced
         else DCompute (mk_params (Ring (base_of ty) PV_None) (VInt (reduce ty a)) (VInt (reduce ty b)) reduced
                match cmd with
                | Ckh => DGrid
                | Kh => if (reduce ty a =? 0)%Z && (reduce ty b =? 0)%Z then DBigraded else DSeq
                end)
    else DError EParse.
Proof.
  intros cmd ty a b reduced Hs. rewrite decide_spec.
  assert (Hv : poly_vars (pair_str a b) = PV_None) by (apply poly_vars_none; apply pair_str_not_in; lia).
  rewrite Hv.
  assert (Hsup : supported cmd ty PV_None = true) by (destruct cmd, ty; try discriminate; reflexivity).
  rewrite Hsup. cbn [negb]. unfold parse_pair, ring_from_str.
  rewrite base_from_str_pair_str by exact Hs. rewrite pair_regex_pair_str.
  rewrite !base_from_str_int by exact Hs. unfold in_range.
  destruct ((int_lo ty <=? a)%Z && (a <=? int_hi ty)%Z); cbn [andb].
  - destruct ((int_lo ty <=? b)%Z && (b <=? int_hi ty)%Z); [|reflexivity].
    cbn [is_zero].
    rewrite (pair_str_neq a b s_H 72%N) by (try (now left); lia).
    rewrite (pair_str_neq a b s_0T 84%N) by (try (right; right; now left); lia).
    rewrite !orb_false_r. reflexivity.
  - destruct ((int_lo ty <=? b)%Z && (b <=? int_hi ty)%Z); reflexivity.
Qed.

(* the bigraded / sequence choice alone, as an equivalence *)
Corollary kh_int_pair_bigraded_iff : forall ty a b reduced p, is_scalar ty = true ->
  decide Kh ty (pair_str a b) reduced = DCompute p ->
  (p_display p = DBigraded <-> reduce ty a = 0%Z /\ reduce ty b = 0%Z) /\
  (p_display p = DSeq <-> ~ (reduce ty a = 0%Z /\ reduce ty b = 0%Z)).
Proof.
  intros ty a b reduced p Hs H. rewrite decide_int_pair in H by exact Hs.
  destruct (in_range ty a && in_range ty b); [|discriminate].
  destruct (reduced && negb (reduce ty b =? 0)%Z); [discriminate|].
  inversion H; subst p; clear H. cbn [p_display].
  destruct (Z.eqb_spec (reduce ty a) 0) as [Ea|Ea]; destruct (Z.eqb_spec (reduce ty b) 0) as [Eb|Eb]; cbn [andb];
    (split; split; intro H; try discriminate H; try reflexivity; try tauto).
Qed.
