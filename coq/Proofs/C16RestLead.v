(* C16 (rest): specification of PolyBase<MultiVar>::lead_term_for(k) (Model/Poly.v [lead_term_for]):
   among the stored terms whose exponent of x_k is POSITIVE, the unique maximum for the order
   "exponent of x_k, ties broken by cmp_grlex"; None iff no term has a positive exponent of x_k
   (for isize exponents, terms with a negative exponent of x_k are ignored as well).
   Also a generic lemma about `Iterator::max_by` over any total order. *)
From Coq Require Import List Bool Arith NArith ZArith Lia.
Require Import Yui.Base.Ring Yui.Model.Lc Yui.Model.Mono Yui.Model.Poly.
Require Import Yui.Proofs.C16Lc Yui.Proofs.C16Mono Yui.Proofs.C16MDeg Yui.Proofs.C16Poly.
Import ListNotations.

(* ---------- max_by: fold keeping the later of two equal elements ---------- *)
Section MaxFold.
  Context {T A : Type} (key : T -> A) (P : A -> Prop) (cmp : A -> A -> comparison) (O : ord_laws P cmp).
  Definition maxstep (best t' : T) : T := match cmp (key best) (key t') with Gt => best | _ => t' end.

  Lemma max_fold (r : list T) t :
    P (key t) -> Forall (fun t' => P (key t')) r ->
    let res := fold_left maxstep r t in
    In res (t :: r) /\ forall s, In s (t :: r) -> cmp (key s) (key res) <> Gt.
  Proof.
    destruct O as (OE & OA & OT).
    revert t. induction r as [|t' r IH]; intros t Ht Hr; cbn [fold_left].
    - split; [now left|]. intros s [<-|[]]. rewrite (proj2 (OE _ _ Ht Ht) eq_refl). discriminate.
    - inversion Hr as [|? ? Ht' Hr']; subst.
      change (maxstep t t') with (match cmp (key t) (key t') with Gt => t | _ => t' end).
      destruct (cmp (key t) (key t')) eqn:C.
      + destruct (IH t' Ht' Hr') as [I1 I2]. split; [now right|].
        intros s [<-|Is]; [|now apply I2]. apply OE in C; try assumption. rewrite C. apply I2. now left.
      + destruct (IH t' Ht' Hr') as [I1 I2]. split; [now right|].
        intros s [<-|Is]; [|now apply I2].
        set (res := fold_left _ r t') in *.
        assert (Hres : P (key res)).
        { destruct I1 as [<-|I1]; [assumption|]. rewrite Forall_forall in Hr'. now apply Hr'. }
        specialize (I2 t' (or_introl eq_refl)).
        destruct (cmp (key t') (key res)) eqn:C2; [| |congruence].
        * apply OE in C2; try assumption. rewrite <- C2, C. discriminate.
        * rewrite (OT _ _ _ Ht Ht' Hres C C2). discriminate.
      + destruct (IH t Ht Hr') as [I1 I2]. split; [destruct I1 as [<-|I1]; [now left|right; now right]|].
        intros s [<-|[<-|Is]]; [apply I2; now left| |apply I2; now right].
        set (res := fold_left _ r t) in *.
        assert (Hres : P (key res)).
        { destruct I1 as [<-|I1]; [assumption|]. rewrite Forall_forall in Hr'. now apply Hr'. }
        specialize (I2 t (or_introl eq_refl)).
        assert (C' : cmp (key t') (key t) = Lt) by (rewrite (OA _ _ Ht Ht'), C; reflexivity).
        destruct (cmp (key t) (key res)) eqn:C2; [| |congruence].
        * apply OE in C2; try assumption. rewrite <- C2, C'. discriminate.
        * rewrite (OT _ _ _ Ht' Ht Hres C' C2). discriminate.
  Qed.
End MaxFold.

Section LeadFor.
  Context {I R : Type} (e : exp_ops I) (eZ : I -> Z) (EL : exp_laws e eZ).
  Context (o : ring_ops R) (L : ring_laws o).
  Notation mdeg := (@Mono.mdeg I).
  Notation m := (mvar_mono e).
  Notation coeff := (coeff (md_eqb e) o).
  Notation WF := (WF o (Reduced e)).

  (* the comparison max_by uses: exponent of x_k first, then cmp_grlex *)
  Definition cmp_for (k : nat) (x y : mdeg) : comparison :=
    then_with (ecmp e (md_at e x k) (md_at e y k)) (md_cmp_grlex e x y).

  Lemma cmp_for_ord k : ord_laws (Reduced e) (cmp_for k).
  Proof.
    apply (ord_graded (Reduced e) (fun _ => True) (fun x => md_at e x k) _ _ (ecmp_ord e eZ EL) (md_grlex_ord e eZ EL)). auto.
  Qed.

  Theorem lead_term_for_spec (p : lc mdeg R) k : WF p ->
    match lead_term_for e p k with
    | None => forall x, coeff p x <> rzero o -> (eZ (md_at e x k) <= 0)%Z
    | Some (x, c) =>
        c = coeff p x /\ c <> rzero o /\ (0 < eZ (md_at e x k))%Z /\
        forall y, coeff p y <> rzero o -> (0 < eZ (md_at e y k))%Z -> y <> x ->
          (eZ (md_at e y k) < eZ (md_at e x k))%Z \/
          (md_at e y k = md_at e x k /\ md_cmp_grlex e y x = Lt)
    end.
  Proof.
    intros [Np Kp]. unfold lead_term_for.
    set (f := fun t : mdeg * R => match ecmp e (md_at e (fst t) k) (ezero e) with Gt => true | _ => false end).
    assert (Hf : forall t, f t = true <-> (0 < eZ (md_at e (fst t) k))%Z).
    { intros t. unfold f. rewrite (ecmp_Z e eZ EL), (eZ_0 e eZ EL).
      destruct (Z.compare_spec (eZ (md_at e (fst t) k)) 0); split; intros; try lia; try reflexivity; discriminate. }
    pose proof (md_eqb_eq e eZ EL) as xeqb_eq.
    assert (Hin : forall y, coeff p y <> rzero o -> (0 < eZ (md_at e y k))%Z -> In (y, coeff p y) (filter f p)).
    { intros y Hy Hk. apply filter_In. split; [|now apply Hf].
      apply (in_terms_iff (md_eqb e) o xeqb_eq p y (coeff p y) Np). auto. }
    destruct (filter f p) as [|t r] eqn:Ec.
    - intros x Hx. destruct (Z.le_gt_cases (eZ (md_at e x k)) 0) as [H|H]; [assumption|].
      exfalso. apply (Hin x Hx). lia.
    - assert (Hc : forall s, In s (t :: r) -> In s p /\ f s = true) by (intros s Hs; rewrite <- Ec in Hs; now apply filter_In in Hs).
      assert (Hok : forall s, In s p -> Reduced e (fst s)).
      { intros s Hs. unfold KeysOk, Lc.keys in Kp. rewrite Forall_map, Forall_forall in Kp. now apply Kp. }
      assert (Ht : Reduced e (fst t)) by (apply Hok, Hc; now left).
      assert (Hr : Forall (fun t' => Reduced e (fst t')) r).
      { apply Forall_forall. intros s Hs. apply Hok, Hc. now right. }
      destruct (max_fold fst (Reduced e) (cmp_for k) (cmp_for_ord k) r t Ht Hr) as [I1 I2].
      change (fold_left (maxstep fst (cmp_for k)) r t) with
        (fold_left (fun best t' : mdeg * R =>
           match then_with (ecmp e (md_at e (fst best) k) (md_at e (fst t') k)) (md_cmp_grlex e (fst best) (fst t')) with
           | Gt => best | _ => t' end) r t) in I1, I2.
      set (res := fold_left _ r t) in *. destruct res as [x c] eqn:Eres. cbn [fst snd] in *.
      destruct (Hc _ I1) as [Ip Fx]. apply Hf in Fx. cbn [fst] in Fx.
      apply (in_terms_iff (md_eqb e) o xeqb_eq p x c Np) in Ip as [Ecx Nc].
      split; [now rewrite Ecx|]. split; [assumption|]. split; [assumption|].
      intros y Hy Hk Hyx. specialize (Hin y Hy Hk). specialize (I2 _ Hin). cbn [fst] in I2.
      destruct (cmp_for_ord k) as (OE & _ & _).
      assert (Ry : Reduced e y) by (apply (Hok (y, coeff p y)), Hc, Hin).
      assert (Rx : Reduced e x) by (apply (Hok (x, c)), Hc, I1).
      destruct (cmp_for k y x) eqn:C; [apply OE in C; [contradiction|assumption|assumption]| |congruence].
      unfold cmp_for in C. apply then_with_Lt in C. rewrite (ecmp_Z e eZ EL) in C.
      destruct C as [C|[C C']]; [left; now apply Z.compare_lt_iff|right].
      split; [|assumption]. apply (eZ_inj e eZ EL). now apply Z.compare_eq_iff.
  Qed.
End LeadFor.
