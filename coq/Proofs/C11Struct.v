(* C11 - MatrixStr::new: for the stored triplets of a CSC matrix (sorted by column, then row; positions
   pairwise distinct; indices in range) the structure is well formed, its rows list exactly the
   non-zero entries and its candidate sets exactly the entries satisfying the pivot condition. *)
From Coq Require Import ZArith List Bool Arith Lia Permutation Sorted.
Require Import Yui.Model.Pivot Yui.Proofs.C11Base.
Import ListNotations.

Definition trip := (nat * nat * entry)%type.
Definition t_row (t : trip) : nat := fst (fst t).
Definition t_col (t : trip) : nat := snd (fst t).
Definition t_ent (t : trip) : entry := snd t.

(* order of CscMatrix::triplet_iter: by column, rows ascending inside a column; strict, so no position twice *)
Definition csc_lt (a b : trip) : Prop := t_col a < t_col b \/ (t_col a = t_col b /\ t_row a < t_row b).
Definition csc_sorted (l : list trip) : Prop := StronglySorted csc_lt l.
Definition in_range (nr nc : nat) (l : list trip) : Prop := forall t, In t l -> t_row t < nr /\ t_col t < nc.

(* the row and the column of a triplet in the coordinates of the search *)
Definition s_row (pt : ptype) (t : trip) : nat := match pt with Rows => t_row t | Cols => t_col t end.
Definition s_col (pt : ptype) (t : trip) : nat := match pt with Rows => t_col t | Cols => t_row t end.

Lemma upd_nth_length : forall {A} (l : list A) k f, length (upd_nth l k f) = length l.
Proof. induction l as [|x r IH]; intros [|k] f; cbn [upd_nth length]; try reflexivity. rewrite IH. reflexivity. Qed.

Lemma nth_upd_nth_same : forall {A} (l : list A) k f d, k < length l -> nth k (upd_nth l k f) d = f (nth k l d).
Proof.
  induction l as [|x r IH]; intros [|k] f d H; cbn [length] in H; try lia; cbn [upd_nth nth]; [reflexivity|].
  apply IH. lia.
Qed.

Lemma nth_upd_nth_other : forall {A} (l : list A) k f d i, i <> k -> nth i (upd_nth l k f) d = nth i l d.
Proof.
  induction l as [|x r IH]; intros [|k] f d [|i] H; cbn [upd_nth nth]; try reflexivity; try lia.
  apply IH. lia.
Qed.

Section Build.
Variable pt : ptype.
Variable c : pcond.

Definition keep (i : nat) (t : trip) : bool := e_nz (t_ent t) && (s_row pt t =? i).
Definition keepc (i : nat) (t : trip) : bool := keep i t && cond_ok c (t_ent t).

Lemma str_step_fields : forall M t,
  m_rows (str_step pt c M t) = m_rows M /\ m_cols (str_step pt c M t) = m_cols M /\
  length (m_ent (str_step pt c M t)) = length (m_ent M) /\ length (m_cand (str_step pt c M t)) = length (m_cand M).
Proof.
  intros M [[i0 j0] e]. unfold str_step. destruct (negb (e_nz e)); [splits; reflexivity|].
  destruct pt; cbn [m_rows m_cols m_ent m_cand]; rewrite !upd_nth_length; destruct (cond_ok c e); rewrite ?upd_nth_length; splits; reflexivity.
Qed.

Lemma str_step_cols : forall M t i, s_row pt t < length (m_ent M) ->
  cols_in (str_step pt c M t) i = cols_in M i ++ (if keep i t then [s_col pt t] else []).
Proof.
  intros M [[i0 j0] e] i Hlt. unfold str_step, keep, cols_in, s_row, s_col, t_ent, t_row, t_col in *. cbn [fst snd] in *.
  destruct (e_nz e); cbn [negb andb]; [|rewrite app_nil_r; reflexivity].
  destruct pt; cbn [m_ent].
  - destruct (i0 =? i) eqn:E.
    + apply Nat.eqb_eq in E. subst i. rewrite nth_upd_nth_same by exact Hlt. reflexivity.
    + apply Nat.eqb_neq in E. rewrite nth_upd_nth_other by (intros H; apply E; symmetry; exact H). rewrite app_nil_r. reflexivity.
  - destruct (j0 =? i) eqn:E.
    + apply Nat.eqb_eq in E. subst i. rewrite nth_upd_nth_same by exact Hlt. reflexivity.
    + apply Nat.eqb_neq in E. rewrite nth_upd_nth_other by (intros H; apply E; symmetry; exact H). rewrite app_nil_r. reflexivity.
Qed.

Lemma str_step_cand : forall M t i j, s_row pt t < length (m_cand M) ->
  (In j (nth i (m_cand (str_step pt c M t)) []) <-> In j (nth i (m_cand M) []) \/ (keepc i t = true /\ j = s_col pt t)).
Proof.
  intros M [[i0 j0] e] i j Hlt. unfold str_step, keepc, keep, s_row, s_col, t_ent, t_row, t_col in *. cbn [fst snd] in *.
  destruct (e_nz e); cbn [negb andb]; [|split; [intros H; left; exact H | intros [H|[H _]]; [exact H | discriminate]]].
  destruct pt; cbn [m_cand]; destruct (cond_ok c e) eqn:Ec.
  - destruct (i0 =? i) eqn:E.
    + apply Nat.eqb_eq in E. subst i. rewrite nth_upd_nth_same by exact Hlt. cbn [In andb].
      split; [intros [H|H]; [right; split; [reflexivity | symmetry; exact H] | left; exact H] | intros [H|[_ H]]; [right; exact H | left; symmetry; exact H]].
    + apply Nat.eqb_neq in E. rewrite nth_upd_nth_other by (intros H; apply E; symmetry; exact H). cbn [andb].
      split; [intros H; left; exact H | intros [H|[H _]]; [exact H | discriminate]].
  - rewrite andb_false_r. split; [intros H; left; exact H | intros [H|[H _]]; [exact H | discriminate]].
  - destruct (j0 =? i) eqn:E.
    + apply Nat.eqb_eq in E. subst i. rewrite nth_upd_nth_same by exact Hlt. cbn [In andb].
      split; [intros [H|H]; [right; split; [reflexivity | symmetry; exact H] | left; exact H] | intros [H|[_ H]]; [right; exact H | left; symmetry; exact H]].
    + apply Nat.eqb_neq in E. rewrite nth_upd_nth_other by (intros H; apply E; symmetry; exact H). cbn [andb].
      split; [intros H; left; exact H | intros [H|[H _]]; [exact H | discriminate]].
  - rewrite andb_false_r. split; [intros H; left; exact H | intros [H|[H _]]; [exact H | discriminate]].
Qed.

Lemma fold_str_spec : forall l M, (forall t, In t l -> s_row pt t < length (m_ent M)) -> length (m_cand M) = length (m_ent M) ->
  let M' := fold_left (str_step pt c) l M in
  m_rows M' = m_rows M /\ m_cols M' = m_cols M /\ length (m_ent M') = length (m_ent M) /\
  (forall i, cols_in M' i = cols_in M i ++ map (s_col pt) (filter (keep i) l)) /\
  (forall i j, In j (nth i (m_cand M') []) <-> In j (nth i (m_cand M) []) \/ exists t, In t l /\ keepc i t = true /\ j = s_col pt t).
Proof.
  induction l as [|t r IH]; intros M Hlt Hlen; cbv zeta; cbn [fold_left].
  - splits; auto; [intros i; cbn [filter map]; rewrite app_nil_r; reflexivity|].
    intros i j. split; [intros H; left; exact H | intros [H|[t [[] _]]]; exact H].
  - destruct (str_step_fields M t) as [F1 [F2 [F3 F4]]].
    destruct (IH (str_step pt c M t)) as [I1 [I2 [I3 [I4 I5]]]].
    { intros t' Ht'. rewrite F3. apply Hlt. right. exact Ht'. }
    { rewrite F3, F4. exact Hlen. }
    cbv zeta in *. splits; try congruence.
    + intros i. rewrite I4, str_step_cols by (apply Hlt; left; reflexivity). cbn [filter].
      destruct (keep i t); cbn [map]; rewrite <- app_assoc; reflexivity.
    + intros i j. rewrite I5, str_step_cand by (rewrite Hlen; apply Hlt; left; reflexivity). split.
      * intros [[H|[H1 H2]]|[t' [H1 H2]]]; [left; exact H | right; exists t; split; [left; reflexivity | split; assumption] | right; exists t'; split; [right; exact H1 | exact H2]].
      * intros [H|[t' [[H1|H1] H2]]]; [left; left; exact H | subst t'; left; right; exact H2 | right; exists t'; split; assumption].
Qed.

Lemma sorted_filter_map : forall {A} (R : A -> A -> Prop) (f : A -> nat) (P : A -> bool) l,
  StronglySorted R l -> (forall a b, P a = true -> P b = true -> R a b -> f a < f b) ->
  StronglySorted lt (map f (filter P l)).
Proof.
  intros A R f P l Hs H. induction Hs as [|a l Hl IH Ha]; cbn [filter map]; [constructor|].
  destruct (P a) eqn:Ea; [|exact IH]. cbn [map]. constructor; [exact IH|].
  apply Forall_forall. intros x Hx. apply in_map_iff in Hx. destruct Hx as [b [Eb Hb]]. subst x.
  apply filter_In in Hb. destruct Hb as [Hb1 Hb2]. rewrite Forall_forall in Ha. apply H; auto.
Qed.

Theorem build_str_spec : forall nr nc l, csc_sorted l -> in_range nr nc l ->
  let M := build_str pt c nr nc l in
  wf_str M /\
  m_rows M = match pt with Rows => nr | Cols => nc end /\ m_cols M = match pt with Rows => nc | Cols => nr end /\
  (forall i j, In j (cols_in M i) <-> exists t, In t l /\ e_nz (t_ent t) = true /\ s_row pt t = i /\ s_col pt t = j) /\
  (forall i j, is_cand M i j = true <->
      exists t, In t l /\ e_nz (t_ent t) = true /\ cond_ok c (t_ent t) = true /\ s_row pt t = i /\ s_col pt t = j).
Proof.
  intros nr nc l Hs Hr. unfold build_str.
  set (m := match pt with Rows => nr | Cols => nc end). set (n := match pt with Rows => nc | Cols => nr end).
  assert (Em : (let '(m0, n0) := match pt with Rows => (nr, nc) | Cols => (nc, nr) end in
                fold_left (str_step pt c) l (mk_mstr m0 n0 (repeat [] m0) (repeat [] m0) (repeat 0%Z m0) (repeat 0%Z n0)))
               = fold_left (str_step pt c) l (mk_mstr m n (repeat [] m) (repeat [] m) (repeat 0%Z m) (repeat 0%Z n))).
  { unfold m, n. destruct pt; reflexivity. }
  rewrite Em. clear Em. set (M0 := mk_mstr m n (repeat [] m) (repeat [] m) (repeat 0%Z m) (repeat 0%Z n)).
  assert (Hrow : forall t, In t l -> s_row pt t < m /\ s_col pt t < n).
  { intros t Ht. destruct (Hr t Ht) as [A B]. unfold s_row, s_col, m, n. destruct pt; split; assumption. }
  destruct (fold_str_spec l M0) as [F1 [F2 [F3 [F4 F5]]]].
  { intros t Ht. cbn [M0 m_ent]. rewrite repeat_length. apply Hrow. exact Ht. }
  { cbn [M0 m_ent m_cand]. rewrite !repeat_length. reflexivity. }
  cbv zeta in *. set (M := fold_left (str_step pt c) l M0) in *.
  assert (Hnil : forall i, cols_in M0 i = []).
  { intros i. unfold cols_in. cbn [M0 m_ent]. destruct (Nat.lt_ge_cases i m) as [H|H]; [apply nth_repeat | apply nth_overflow; rewrite repeat_length; exact H]. }
  assert (Hnilc : forall i, nth i (m_cand M0) [] = []).
  { intros i. cbn [M0 m_cand]. destruct (Nat.lt_ge_cases i m) as [H|H]; [apply nth_repeat | apply nth_overflow; rewrite repeat_length; exact H]. }
  assert (Hcols : forall i j, In j (cols_in M i) <-> exists t, In t l /\ e_nz (t_ent t) = true /\ s_row pt t = i /\ s_col pt t = j).
  { intros i j. rewrite F4, Hnil. cbn [app]. rewrite in_map_iff. split.
    - intros [t [E Ht]]. apply filter_In in Ht. destruct Ht as [Ht Hk]. unfold keep in Hk. apply andb_true_iff in Hk.
      destruct Hk as [K1 K2]. apply Nat.eqb_eq in K2. exists t. splits; auto.
    - intros [t [Ht [K1 [K2 K3]]]]. exists t. split; [exact K3|]. apply filter_In. split; [exact Ht|].
      unfold keep. rewrite K1, K2, Nat.eqb_refl. reflexivity. }
  splits.
  - (* wf_str *)
    split; [|split].
    + rewrite F3, F1. cbn [M0 m_ent m_rows]. apply repeat_length.
    + intros i j Hin. apply Hcols in Hin. destruct Hin as [t [Ht [_ [_ E]]]]. rewrite F2. cbn [M0 m_cols]. subst j. apply Hrow. exact Ht.
    + intros i. rewrite F4, Hnil. cbn [app]. apply sorted_filter_map with (R := csc_lt); [exact Hs|].
      intros a b Ka Kb Hab. unfold keep in Ka, Kb. apply andb_true_iff in Ka. apply andb_true_iff in Kb.
      destruct Ka as [_ Ka]. destruct Kb as [_ Kb]. apply Nat.eqb_eq in Ka. apply Nat.eqb_eq in Kb.
      unfold csc_lt in Hab. unfold s_row, s_col in *. destruct pt; lia.
  - rewrite F1. reflexivity.
  - rewrite F2. reflexivity.
  - exact Hcols.
  - intros i j. unfold is_cand. rewrite memb_In, F5, Hnilc. split.
    + intros [[]|[t [Ht [Hk E]]]]. unfold keepc, keep in Hk. apply andb_true_iff in Hk. destruct Hk as [Hk K3].
      apply andb_true_iff in Hk. destruct Hk as [K1 K2]. apply Nat.eqb_eq in K2. exists t. splits; auto.
    + intros [t [Ht [K1 [K2 [K3 K4]]]]]. right. exists t. split; [exact Ht|]. split; [|symmetry; exact K4].
      unfold keepc, keep. rewrite K1, K2, K3, Nat.eqb_refl. reflexivity.
Qed.

End Build.
