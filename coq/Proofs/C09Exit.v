(* C09 - exit conditions, part 1: after eliminate_all the target is diagonal with its non-zero
   entries first (read off the loops' exit tests; the frame of already finished rows and columns is
   an invariant of every elementary step). *)
From Coq Require Import ZArith List Bool Arith Lia Ring.
Require Import Yui.Base.Ring Yui.Base.MatF Yui.Base.MatL Yui.Model.Snf Yui.Proofs.C09Mat Yui.Proofs.C09Inv
  Yui.Proofs.C09Run.
Import ListNotations.

(* at most one element satisfies p, and the i-th does: no other does *)
Lemma filter_le1 {X : Type} (p : X -> bool) (l : list X) (d : X) i k :
  length (filter p l) <= 1 -> i < length l -> p (nth i l d) = true -> k < length l -> k <> i ->
  p (nth k l d) = false.
Proof.
  revert i k. induction l as [|x l IH]; intros i k H Hi Hp Hk Hne; cbn in *; [lia|].
  destruct (p x) eqn:Px; cbn in H.
  - assert (E : filter p l = []) by (destruct (filter p l); [reflexivity|cbn in H; lia]).
    destruct i as [|i].
    + destruct k as [|k]; [lia|].
      destruct (p (nth k l d)) eqn:Pk; [|reflexivity].
      assert (In (nth k l d) (filter p l)) by (apply filter_In; split; [apply nth_In; lia|exact Pk]).
      rewrite E in H0. contradiction.
    + assert (In (nth i l d) (filter p l)) by (apply filter_In; split; [apply nth_In; lia|exact Hp]).
      rewrite E in H0. contradiction.
  - destruct i as [|i]; [congruence|]. destruct k as [|k]; [exact Px|].
    apply (IH i k); try assumption; lia.
Qed.

Section Exit.
  Context {R : Type} (D : euc_dict R) (SL : snf_laws D) (fp : fuel_policy R).
  Let o := ed_ring D.
  Let L : ring_laws o := sl_ring D SL.
  Add Ring Rring : (ring_theory_of_laws o L).

  Local Notation "0" := (rzero o).
  Local Notation "1" := (rone o).
  Local Infix "+" := (radd o).
  Local Infix "*" := (rmul o).
  Local Notation "- x" := (rneg o x).
  Local Notation get := (lget o).
  Implicit Types T : lmat R.

  Variables m n : nat.

  (* ---------- row_nz / col_nz at the exit of eliminate_at ---------- *)
  Lemma row_nz_le1 T i l :
    wf m n T -> i < m -> i < n -> row_nz D T i <= 1 -> get T i i <> 0 -> l < n -> l <> i -> get T i l = 0.
  Proof.
    intros W Hi Hin H Hp Hl Hne. unfold row_nz in H.
    pose proof (wf_row m n T i W Hi) as Hlen.
    assert (E : negb (ris_zero (ed_ring D) (nth l (nth i T []) 0)) = false).
    { apply (filter_le1 (fun a => negb (ris_zero (ed_ring D) a)) (nth i T []) 0 i l); try assumption; try lia.
      apply negb_true_iff. apply (is_zero_false D SL). exact Hp. }
    apply negb_false_iff in E. now apply (is_zero_true D SL) in E.
  Qed.

  Lemma col_nz_le1 T j k :
    wf m n T -> j < m -> j < n -> col_nz D T j <= 1 -> get T j j <> 0 -> k < m -> k <> j -> get T k j = 0.
  Proof.
    intros W Hj Hjn H Hp Hk Hne. unfold col_nz in H.
    assert (E : (fun r => negb (ris_zero (ed_ring D) (nth j r 0))) (nth k T []) = false).
    { apply (filter_le1 (fun r => negb (ris_zero (ed_ring D) (nth j r 0))) T [] j k); try assumption; try (destruct W; lia).
      apply negb_true_iff. apply (is_zero_false D SL). exact Hp. }
    cbv beta in E. apply negb_false_iff in E. now apply (is_zero_true D SL) in E.
  Qed.

  (* ---------- the frame: rows/columns < i are finished, columns lo..hi-1 are zero ---------- *)
  Definition Fr (i lo hi : nat) T : Prop :=
    wf m n T /\
    (forall k l, k < i -> l < n -> l <> k -> get T k l = 0) /\
    (forall k l, k < i -> k < n -> l < m -> l <> k -> get T l k = 0) /\
    (forall l k, lo <= l -> l < hi -> l < n -> k < m -> get T k l = 0) /\
    (forall k, k < i -> get T k k <> 0).

  (* T' is T with rows a, b replaced by combinations of rows a, b *)
  Definition RowMix (a b : nat) T T' : Prop :=
    wf m n T' /\ exists c1 c2 c3 c4, forall r k, r < m -> k < n ->
      get T' r k = if r =? b then get T a k * c3 + get T b k * c4
                   else if r =? a then get T a k * c1 + get T b k * c2 else get T r k.
  Definition ColMix (a b : nat) T T' : Prop :=
    wf m n T' /\ exists c1 c2 c3 c4, forall r k, r < m -> k < n ->
      get T' r k = if k =? b then get T r a * c3 + get T r b * c4
                   else if k =? a then get T r a * c1 + get T r b * c2 else get T r k.

  Lemma RowMix_left_elem c1 c2 c3 c4 a b T :
    wf m n T -> a < m -> b < m -> RowMix a b T (m_left_elem D c1 c2 c3 c4 a b T).
  Proof.
    intros W Ha Hb. split; [now apply wf_left_elem|]. exists c1, c2, c3, c4. intros r k Hr Hk.
    now apply (get_left_elem D m n).
  Qed.
  Lemma RowMix_swap a b T : wf m n T -> a < m -> b < m -> RowMix a b T (m_swap_rows a b T).
  Proof.
    intros W Ha Hb. split; [now apply wf_swap_rows|]. exists 0, 1, 1, 0. intros r k Hr Hk.
    rewrite (get_swap_rows D m n) by assumption. unfold swp. fold o.
    ncase0; first [ring | exfalso; congruence].
  Qed.
  Lemma ColMix_right_elem c1 c2 c3 c4 a b T :
    wf m n T -> ColMix a b T (m_right_elem D c1 c2 c3 c4 a b T).
  Proof.
    intros W. split; [now apply wf_right_elem|]. exists c1, c2, c3, c4. intros r k Hr Hk.
    now apply (get_right_elem D m n).
  Qed.

  (* the frame only speaks about i <= m *)
  Lemma Fr_i_le_m i lo hi T : Fr i lo hi T -> i <= m.
  Proof.
    intros (W & _ & _ & _ & F4). destruct (Nat.le_gt_cases i m); [assumption|].
    exfalso. apply (F4 m); [lia|]. now apply (get_out_row D m n).
  Qed.

  Lemma Fr_rowmix i lo hi a b T T' :
    Fr i lo hi T -> i <= a -> a < m -> i <= b -> b < m -> RowMix a b T T' -> Fr i lo hi T'.
  Proof.
    intros HF Ha Ham Hb Hbm (W' & c1 & c2 & c3 & c4 & HE).
    pose proof (Fr_i_le_m _ _ _ _ HF) as Him. destruct HF as (W & F1 & F2 & F3 & F4).
    split; [exact W'|]. split; [|split; [|split]].
    - intros k l Hk Hl Hne. rewrite HE by lia.
      destruct (Nat.eqb_spec k b); [lia|]. destruct (Nat.eqb_spec k a); [lia|]. now apply F1.
    - intros k l Hk Hkn Hl Hne. rewrite HE by lia.
      destruct (Nat.eqb_spec l b); [|destruct (Nat.eqb_spec l a)].
      + rewrite (F2 k a), (F2 k b) by lia. ring.
      + rewrite (F2 k a), (F2 k b) by lia. ring.
      + now apply F2.
    - intros l k Hl1 Hl2 Hln Hk. rewrite HE by lia.
      destruct (k =? b); [|destruct (k =? a)]; rewrite ?(F3 l a), ?(F3 l b), ?(F3 l k) by lia; ring.
    - intros k Hk. assert (k < m) by lia.
      destruct (Nat.lt_ge_cases k n) as [Hkn|Hkn].
      + rewrite HE by lia. destruct (Nat.eqb_spec k b); [lia|]. destruct (Nat.eqb_spec k a); [lia|]. now apply F4.
      + exfalso. apply (F4 k Hk). now apply (get_out_col D m n).
  Qed.

  Lemma Fr_colmix i lo hi a b T T' :
    Fr i lo hi T -> i <= a -> i <= b -> (a < lo \/ hi <= a) -> (b < lo \/ hi <= b) ->
    ColMix a b T T' -> Fr i lo hi T'.
  Proof.
    intros HF Ha Hb Hao Hbo (W' & c1 & c2 & c3 & c4 & HE).
    pose proof (Fr_i_le_m _ _ _ _ HF) as Him. destruct HF as (W & F1 & F2 & F3 & F4).
    split; [exact W'|]. split; [|split; [|split]].
    - intros k l Hk Hl Hne. assert (k < m) by lia. rewrite HE by lia.
      assert (Z : forall c, i <= c -> get T k c = 0).
      { intros c Hc. destruct (Nat.lt_ge_cases c n); [apply F1; lia|now apply (get_out_col D m n)]. }
      destruct (Nat.eqb_spec l b); [|destruct (Nat.eqb_spec l a)].
      + rewrite (Z a), (Z b) by lia. ring.
      + rewrite (Z a), (Z b) by lia. ring.
      + now apply F1.
    - intros k l Hk Hkn Hl Hne. rewrite HE by lia.
      destruct (Nat.eqb_spec k b); [lia|]. destruct (Nat.eqb_spec k a); [lia|]. now apply F2.
    - intros l k Hl1 Hl2 Hln Hk. rewrite HE by lia.
      destruct (Nat.eqb_spec l b); [lia|]. destruct (Nat.eqb_spec l a); [lia|]. now apply F3.
    - intros k Hk. assert (k < m) by lia.
      destruct (Nat.lt_ge_cases k n) as [Hkn|Hkn].
      + rewrite HE by lia. destruct (Nat.eqb_spec k b); [lia|]. destruct (Nat.eqb_spec k a); [lia|]. now apply F4.
      + exfalso. apply (F4 k Hk). now apply (get_out_col D m n).
  Qed.

  Lemma Fr_range i lo hi lo' hi' T :
    Fr i lo hi T -> (forall l, lo' <= l < hi' -> lo <= l < hi) -> Fr i lo' hi' T.
  Proof.
    intros (W & F1 & F2 & F3 & F4) H. repeat (split; try assumption).
    intros l k H1 H2 H3 H4. apply F3; try assumption; apply H; lia.
  Qed.

  (* ---------- eliminate_col / eliminate_row / eliminate_at at the pivot (i, i) ---------- *)
  (* state of the elimination at (i, i): frame, zero columns i+1..j, non-zero pivot *)
  Definition EA (i j : nat) T : Prop := Fr i (S i) (S j) T /\ get T i i <> 0.

  Lemma elim_col_body_EA i j i1 sm sm' :
    i < m -> i < n -> i1 < m -> EA i j (st_t (fst sm)) ->
    elim_col_body D i i i1 sm = Some sm' -> EA i j (st_t (fst sm')).
  Proof.
    intros Hi Hin Hi1 [HF HP]. unfold elim_col_body. cbv zeta.
    destruct ((i1 =? i) || ris_zero (ed_ring D) (mget D (st_t (fst sm)) i1 i)) eqn:C.
    - intros E. inversion E; subst. now split.
    - apply orb_false_iff in C. destruct C as [C1 C2]. apply Nat.eqb_neq in C1.
      apply (is_zero_false D SL) in C2. rewrite mget_lget in C2.
      assert (Hgt : i < i1).
      { destruct (Nat.lt_ge_cases i i1); [assumption|]. exfalso. apply C2.
        destruct HF as (_ & F1 & _). apply F1; lia. }
      destruct (snf_gcdx D _ _) as [[[d sx] ty]|] eqn:G; cbn [sbind]; [|discriminate].
      intros E. inversion E; subst sm'; clear E. cbn [fst s_left_elem st_t].
      destruct (snf_gcdx_spec D SL _ _ _ _ _ G) as (Hd & Hbez & _). fold o in Hbez.
      pose proof HF as (W & _).
      split.
      + apply (Fr_rowmix i (S i) (S j) i i1 (st_t (fst sm))); try assumption; try lia.
        now apply RowMix_left_elem.
      + rewrite (get_left_elem D m n) by assumption.
        destruct (Nat.eqb_spec i i1); [lia|]. rewrite Nat.eqb_refl.
        intros E. apply Hd. rewrite Hbez. unfold mget. cbv zeta. fold o. fold o in E.
        etransitivity; [|exact E]. ring.
  Qed.

  Lemma eliminate_col_EA i j s r :
    i < m -> i < n -> EA i j (st_t s) -> eliminate_col D m i i s = Some r -> EA i j (st_t (fst r)).
  Proof.
    intros Hi Hin HS H. unfold eliminate_col in H.
    apply (ofold_inv (fun sm => EA i j (st_t (fst sm))) _ _ _ _ ) in H; [exact H| |exact HS].
    intros k x x' Hk Hx E. apply in_seq in Hk. apply (elim_col_body_EA i j k x x'); try assumption; lia.
  Qed.

  Lemma elim_row_body_EA i j j1 sm sm' :
    i < m -> i < n -> j1 < n -> EA i j (st_t (fst sm)) ->
    elim_row_body D i i j1 sm = Some sm' -> EA i j (st_t (fst sm')).
  Proof.
    intros Hi Hin Hj1 [HF HP]. unfold elim_row_body. cbv zeta.
    destruct ((j1 =? i) || ris_zero (ed_ring D) (mget D (st_t (fst sm)) i j1)) eqn:C.
    - intros E. inversion E; subst. now split.
    - apply orb_false_iff in C. destruct C as [C1 C2]. apply Nat.eqb_neq in C1.
      apply (is_zero_false D SL) in C2. rewrite mget_lget in C2.
      assert (Hgt : i < j1 /\ j < j1).
      { destruct HF as (_ & _ & F2 & F3 & _).
        assert (i < j1).
        { destruct (Nat.lt_ge_cases i j1); [assumption|]. exfalso. apply C2, F2; lia. }
        split; [assumption|].
        destruct (Nat.lt_ge_cases j j1); [assumption|]. exfalso. apply C2, F3; lia. }
      destruct (snf_gcdx D _ _) as [[[d sx] ty]|] eqn:G; cbn [sbind]; [|discriminate].
      intros E. inversion E; subst sm'; clear E. cbn [fst s_right_elem st_t].
      destruct (snf_gcdx_spec D SL _ _ _ _ _ G) as (Hd & Hbez & _). fold o in Hbez.
      pose proof HF as (W & _).
      split.
      + apply (Fr_colmix i (S i) (S j) i j1 (st_t (fst sm))); try assumption; try lia.
        now apply ColMix_right_elem.
      + rewrite (get_right_elem D m n) by assumption.
        destruct (Nat.eqb_spec i j1); [lia|]. rewrite Nat.eqb_refl.
        intros E. apply Hd. rewrite Hbez. unfold mget. cbv zeta. fold o. fold o in E.
        etransitivity; [|exact E]. ring.
  Qed.

  Lemma eliminate_row_EA i j s r :
    i < m -> i < n -> EA i j (st_t s) -> eliminate_row D n i i s = Some r -> EA i j (st_t (fst r)).
  Proof.
    intros Hi Hin HS H. unfold eliminate_row in H.
    apply (ofold_inv (fun sm => EA i j (st_t (fst sm))) _ _ _ _ ) in H; [exact H| |exact HS].
    intros k x x' Hk Hx E. apply in_seq in Hk. apply (elim_row_body_EA i j k x x'); try assumption; lia.
  Qed.

  Lemma eliminate_loop_EA fuel i j s s' :
    i < m -> i < n -> EA i j (st_t s) -> eliminate_loop D m n fuel i i s = Some s' ->
    EA i j (st_t s') /\ row_nz D (st_t s') i <= 1 /\ col_nz D (st_t s') i <= 1.
  Proof.
    intros Hi Hin. revert s. induction fuel as [|f IH]; intros s HS H; cbn [eliminate_loop] in H; [discriminate|].
    destruct ((1 <? row_nz D (st_t s) i) || (1 <? col_nz D (st_t s) i)) eqn:C.
    - destruct (eliminate_col D m i i s) as [r1|] eqn:E1; cbn [sbind] in H; [|discriminate].
      destruct (eliminate_row D n i i (fst r1)) as [r2|] eqn:E2; cbn [sbind] in H; [|discriminate].
      destruct (snd r1 || snd r2); [|discriminate].
      apply (IH (fst r2)); [|exact H].
      apply (eliminate_row_EA i j (fst r1)); try assumption.
      now apply (eliminate_col_EA i j s).
    - inversion H; subst s'. apply orb_false_iff in C. destruct C as [C1 C2].
      apply Nat.ltb_ge in C1, C2. split; [exact HS|split; assumption].
  Qed.

  (* the frame after the pivot (i, i) is finished *)
  Lemma eliminate_at_Fr i j s s' :
    i < m -> i < n -> EA i j (st_t s) -> eliminate_at D fp m n i i s = Some s' ->
    Fr (S i) (S i) (S j) (st_t s').
  Proof.
    intros Hi Hin HS. unfold eliminate_at. cbv zeta.
    destruct (ris_zero _ _); [discriminate|]. intros H.
    apply (eliminate_loop_EA _ i j s s' Hi Hin HS) in H.
    destruct H as ([(W & F1 & F2 & F3 & F4) HP] & Hr & Hc).
    split; [exact W|]. split; [|split; [|split]].
    - intros k l Hk Hl Hne. destruct (Nat.eq_dec k i) as [->|]; [|apply F1; lia].
      now apply (row_nz_le1 (st_t s') i l).
    - intros k l Hk Hkn Hl Hne. destruct (Nat.eq_dec k i) as [->|]; [|apply F2; lia].
      now apply (col_nz_le1 (st_t s') i l).
    - exact F3.
    - intros k Hk. destruct (Nat.eq_dec k i) as [->|]; [exact HP|apply F4; lia].
  Qed.

  (* ---------- eliminate_step ---------- *)
  Lemma select_pivot_none T below j l :
    select_pivot D m T below j = None -> below <= l -> l < m -> get T l j = 0.
  Proof.
    unfold select_pivot. destruct (filter _ _) as [|i0 r] eqn:F; [|discriminate]. intros _ H1 H2.
    destruct (ris_zero o (mget D T l j)) eqn:Z; [now apply (is_zero_true D SL) in Z|].
    assert (In l (filter (fun i => negb (ris_zero (ed_ring D) (mget D T i j))) (seq below (m - below)))).
    { apply filter_In. split; [apply in_seq; lia|]. fold o. now rewrite Z. }
    rewrite F in H. contradiction.
  Qed.

  Lemma Fr_swap_cols i j T : i < j -> j < n -> Fr i i j T -> Fr i (S i) (S j) (m_swap_cols i j T).
  Proof.
    intros Hij Hj HF. pose proof (Fr_i_le_m _ _ _ _ HF) as Him. destruct HF as (W & F1 & F2 & F3 & F4).
    assert (HE : forall r k, r < m -> k < n -> get (m_swap_cols i j T) r k = get T r (swp i j k)).
    { intros r k Hr Hk. apply (get_swap_cols D m n); try assumption; lia. }
    split; [now apply wf_swap_cols|]. split; [|split; [|split]].
    - intros k l Hk Hl Hne. rewrite HE by lia. unfold swp.
      destruct (Nat.eqb_spec l i); [apply F1; lia|]. destruct (Nat.eqb_spec l j); apply F1; lia.
    - intros k l Hk Hkn Hl Hne. rewrite HE by lia. unfold swp.
      destruct (Nat.eqb_spec k i); [lia|]. destruct (Nat.eqb_spec k j); [lia|]. now apply F2.
    - intros l k Hl1 Hl2 Hln Hk. rewrite HE by lia. unfold swp.
      destruct (Nat.eqb_spec l i); [lia|]. destruct (Nat.eqb_spec l j); apply F3; lia.
    - intros k Hk. assert (k < m) by lia.
      destruct (Nat.lt_ge_cases k n) as [Hkn|Hkn].
      + rewrite HE by lia. unfold swp.
        destruct (Nat.eqb_spec k i); [lia|]. destruct (Nat.eqb_spec k j); [lia|]. now apply F4.
      + exfalso. apply (F4 k Hk). now apply (get_out_col D m n).
  Qed.

  Lemma Fr_mul_col i lo hi c v T : i <= c -> Fr i lo hi T -> Fr i lo hi (m_mul_col D c v T).
  Proof.
    intros Hc HF. pose proof (Fr_i_le_m _ _ _ _ HF) as Him. destruct HF as (W & F1 & F2 & F3 & F4).
    assert (HE : forall r k, r < m -> k < n ->
               get (m_mul_col D c v T) r k = if k =? c then get T r k * v else get T r k).
    { intros r k Hr Hk. now apply (get_mul_col D m n). }
    split; [now apply wf_mul_col|]. split; [|split; [|split]].
    - intros k l Hk Hl Hne. rewrite HE by lia. rewrite (F1 k l) by assumption. destruct (l =? c); ring.
    - intros k l Hk Hkn Hl Hne. rewrite HE by lia. rewrite (F2 k l) by assumption. destruct (k =? c); ring.
    - intros l k Hl1 Hl2 Hln Hk. rewrite HE by lia. rewrite (F3 l k) by assumption. destruct (l =? c); ring.
    - intros k Hk. assert (k < m) by lia.
      destruct (Nat.lt_ge_cases k n) as [Hkn|Hkn].
      + rewrite HE by lia. destruct (Nat.eqb_spec k c); [lia|]. now apply F4.
      + exfalso. apply (F4 k Hk). now apply (get_out_col D m n).
  Qed.

  Lemma eliminate_step_Fr i j s r :
    i < m -> i <= j -> j < n -> Fr i i j (st_t s) -> eliminate_step D fp m n i j s = Some r ->
    let i' := if snd r then S i else i in Fr i' i' (S j) (st_t (fst r)).
  Proof.
    intros Hi Hij Hj HF. unfold eliminate_step. cbv zeta.
    destruct (select_pivot D m (st_t s) i j) as [ip|] eqn:SP.
    2:{ intros E. inversion E; subst r; clear E. cbn [fst snd].
        pose proof HF as (W & F1 & F2 & F3 & F4).
        split; [exact W|]. split; [exact F1|]. split; [exact F2|]. split; [|exact F4].
        intros l k Hl1 Hl2 Hln Hk. destruct (Nat.eq_dec l j) as [->|]; [|apply F3; lia].
        destruct (Nat.lt_ge_cases k i); [apply F1; lia|]. now apply (select_pivot_none (st_t s) i j k). }
    apply (select_pivot_range D) in SP. destruct SP as [Hip Hnz].
    apply (is_zero_false D SL) in Hnz. rewrite mget_lget in Hnz.
    pose proof HF as (W & _).
    set (s1 := if i <? ip then s_swap_rows i ip s else s).
    assert (H1 : Fr i i j (st_t s1) /\ get (st_t s1) i j <> 0).
    { unfold s1. destruct (Nat.ltb_spec i ip).
      - cbn [s_swap_rows st_t]. split.
        + apply (Fr_rowmix i i j i ip (st_t s)); try assumption; try lia. apply RowMix_swap; try assumption; lia.
        + rewrite (get_swap_rows D m n) by (try assumption; lia). unfold swp. now rewrite Nat.eqb_refl.
      - assert (ip = i) by lia. subst ip. now split. }
    destruct H1 as [HF1 HP1]. pose proof HF1 as (W1 & _).
    set (s2 := if i <? j then s_swap_cols i j s1 else s1).
    assert (H2 : EA i j (st_t s2)).
    { unfold s2. destruct (Nat.ltb_spec i j).
      - cbn [s_swap_cols st_t]. split; [now apply Fr_swap_cols|].
        rewrite (get_swap_cols D m n) by (try assumption; lia). unfold swp. now rewrite Nat.eqb_refl.
      - assert (j = i) by lia. subst j. split; [|exact HP1].
        apply (Fr_range i i i); [exact HF1|]. intros; lia. }
    set (v := rnunit (ed_unit D) (mget D (st_t s2) i i)).
    destruct (sl_nunit_inv D SL (mget D (st_t s2) i i)) as [vi Hvi]. fold v in Hvi.
    assert (H3 : forall s3, (if ris_one (ed_ring D) v then Some s2 else s_mul_col D i v s2) = Some s3 ->
                            EA i j (st_t s3)).
    { intros s3. destruct (ris_one (ed_ring D) v).
      - intros E. now inversion E; subst.
      - rewrite (s_mul_col_eq D i v vi s2 Hvi). intros E. inversion E; subst s3; clear E. cbn [st_t].
        destruct H2 as [HF2 HP2]. pose proof HF2 as (W2 & _). split; [now apply Fr_mul_col|].
        rewrite (get_mul_col D m n) by (try assumption; lia). rewrite Nat.eqb_refl.
        intros E. destruct (mul_eq_0 D SL _ _ E) as [E1|E1]; [now apply HP2|].
        apply (unit_neq_0 D SL v vi); [|exact E1]. apply (sl_inv D SL). exact Hvi. }
    destruct (if ris_one (ed_ring D) v then Some s2 else s_mul_col D i v s2) as [s3|] eqn:E3; cbn [sbind]; [|discriminate].
    destruct (eliminate_at D fp m n i i s3) as [s4|] eqn:E4; cbn [sbind]; [|discriminate].
    intros E. inversion E; subst r; clear E. cbn [fst snd].
    apply (eliminate_at_Fr i j s3); try assumption; try lia. now apply H3.
  Qed.

  (* ---------- eliminate_all: diagonal, non-zero entries first ---------- *)
  Definition DiagR (r : nat) T : Prop :=
    wf m n T /\ r <= Nat.min m n /\
    (forall k l, k < m -> l < n -> k <> l -> get T k l = 0) /\
    (forall k, k < r -> get T k k <> 0) /\
    (forall k, r <= k -> k < Nat.min m n -> get T k k = 0).

  Lemma DiagR_of_Fr_end i T : i <= n -> Fr i i n T -> DiagR i T.
  Proof.
    intros Hin HF. pose proof (Fr_i_le_m _ _ _ _ HF) as Him. destruct HF as (W & F1 & F2 & F3 & F4).
    split; [exact W|]. split; [lia|]. split; [|split; [exact F4|]].
    - intros k l Hk Hl Hne.
      destruct (Nat.lt_ge_cases k i); [apply F1; lia|].
      destruct (Nat.lt_ge_cases l i); [apply F2; lia|apply F3; lia].
    - intros k Hk1 Hk2. apply F3; lia.
  Qed.

  Lemma DiagR_of_Fr_full j T : m <= j -> j <= n -> Fr m m j T -> DiagR m T.
  Proof.
    intros Hmj Hjn (W & F1 & F2 & F3 & F4).
    split; [exact W|]. split; [lia|]. split; [|split; [exact F4|]].
    - intros k l Hk Hl Hne. apply F1; lia.
    - intros k Hk1 Hk2. lia.
  Qed.

  Lemma eliminate_all_loop_Fr k j0 i s s' :
    Nat.add j0 k = n -> i <= j0 -> Fr i i j0 (st_t s) ->
    eliminate_all_loop D fp m n (seq j0 k) i s = Some s' -> exists r, DiagR r (st_t s').
  Proof.
    revert j0 i s. induction k as [|k IH]; intros j0 i s Hn Hij HF H; cbn [seq eliminate_all_loop] in H.
    - inversion H; subst s'. exists i. apply DiagR_of_Fr_end; [lia|]. now replace n with j0 by lia.
    - destruct (Nat.leb_spec m i).
      + inversion H; subst s'. exists m. pose proof (Fr_i_le_m _ _ _ _ HF). assert (i = m) by lia. subst i.
        apply (DiagR_of_Fr_full j0); try lia. exact HF.
      + destruct (eliminate_step D fp m n i j0 s) as [sb|] eqn:E; cbn [sbind] in H; [|discriminate].
        apply (eliminate_step_Fr i j0 s sb) in E; try assumption; try lia. cbv zeta in E.
        apply (IH (S j0) (if snd sb then S i else i) (fst sb)); try lia; try assumption.
        destruct (snd sb); lia.
  Qed.

  Lemma eliminate_all_diag s s' :
    wf m n (st_t s) -> eliminate_all D fp m n s = Some s' -> exists r, DiagR r (st_t s').
  Proof.
    intros W H. apply (eliminate_all_loop_Fr n 0 0 s s'); try assumption; try lia.
    split; [exact W|]. repeat split; intros; lia.
  Qed.
End Exit.
