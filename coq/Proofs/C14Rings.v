(* The commutative-ring axioms ([ring_laws] of Base/Ring.v, Leibniz equality on a canonical carrier)
   for the scalar types of C14:
     Q    = canonical values of Ratio<BigInt>   (sigma type over the decidable predicate canonb)
     F_p  = representatives 0 <= a < p of FF<p>, for the moduli with (p-1)^2 < 2^31
     F_2  = bool
   (Z is Base/Ring.v Z_ring_laws; the quadratic integer rings are in Proofs/C14Quad.v.)
   The ring operations of the dictionaries ARE the model's operations: each dictionary operation
   unwraps the model's [option] result, and the lemmas *_ok show the result is always [Some] on the
   carrier (the default of the unwrapping is never used). *)
From Coq Require Import ZArith QArith Bool Lia Eqdep_dec.
Require Import Yui.Base.Ring Yui.Model.Ints Yui.Model.Ratio Yui.Model.Fp.
Require Import Yui.Proofs.C14Ints Yui.Proofs.C14Ratio Yui.Proofs.C14RatioQ Yui.Proofs.C14Fp.
Open Scope Z_scope.

Lemma bool_proof_unique (b : bool) (p q : b = true) : p = q.
Proof. apply UIP_dec. apply bool_dec. Qed.

Definition or_default {A} (o : option A) (d : A) : A := match o with Some r => r | None => d end.

(* ================================ Q ================================ *)
Definition cratio : Type := {r : ratio | canonb r = true}.
Definition cr_val (x : cratio) : ratio := proj1_sig x.

Lemma cr_canon (x : cratio) : Canon (cr_val x).
Proof. apply canonb_spec. exact (proj2_sig x). Qed.

Lemma cr_ext (x y : cratio) : cr_val x = cr_val y -> x = y.
Proof.
  destruct x as [x Hx], y as [y Hy]. unfold cr_val. cbn [proj1_sig]. intros E. subst y. f_equal.
  apply bool_proof_unique.
Qed.

Lemma add_total_canon x y : Canon x -> Canon y -> canonb (or_default (rt_add Big x y) x) = true.
Proof. intros Hx Hy. destruct (add_exact x y Hx Hy) as (r & Hr & Hc & _). rewrite Hr. now apply canonb_spec. Qed.
Lemma mul_total_canon x y : Canon x -> Canon y -> canonb (or_default (rt_mul Big x y) x) = true.
Proof. intros Hx Hy. destruct (mul_exact x y Hx Hy) as (r & Hr & Hc & _). rewrite Hr. now apply canonb_spec. Qed.
Lemma neg_total_canon x : Canon x -> canonb (or_default (rt_neg Big x) x) = true.
Proof. intros Hx. destruct (neg_exact x Hx) as (r & Hr & Hc & _). rewrite Hr. now apply canonb_spec. Qed.

Definition cr_zero : cratio := exist _ rt_zero eq_refl.
Definition cr_one : cratio := exist _ rt_one eq_refl.
Definition cr_add (x y : cratio) : cratio :=
  exist _ (or_default (rt_add Big (cr_val x) (cr_val y)) (cr_val x)) (add_total_canon _ _ (cr_canon x) (cr_canon y)).
Definition cr_mul (x y : cratio) : cratio :=
  exist _ (or_default (rt_mul Big (cr_val x) (cr_val y)) (cr_val x)) (mul_total_canon _ _ (cr_canon x) (cr_canon y)).
Definition cr_neg (x : cratio) : cratio :=
  exist _ (or_default (rt_neg Big (cr_val x)) (cr_val x)) (neg_total_canon _ (cr_canon x)).
Definition cr_eqb (x y : cratio) : bool := rt_eqb (cr_val x) (cr_val y).

Definition Q_ring : ring_ops cratio := mk_ring_ops cratio cr_zero cr_one cr_add cr_neg cr_mul cr_eqb.

(* the dictionary operations are the model's operations *)
Lemma cr_add_ok x y : rt_add Big (cr_val x) (cr_val y) = Some (cr_val (cr_add x y)).
Proof.
  destruct (add_exact _ _ (cr_canon x) (cr_canon y)) as (r & Hr & _). unfold cr_add, cr_val at 3. cbn [proj1_sig].
  now rewrite Hr.
Qed.
Lemma cr_mul_ok x y : rt_mul Big (cr_val x) (cr_val y) = Some (cr_val (cr_mul x y)).
Proof.
  destruct (mul_exact _ _ (cr_canon x) (cr_canon y)) as (r & Hr & _). unfold cr_mul, cr_val at 3. cbn [proj1_sig].
  now rewrite Hr.
Qed.
Lemma cr_neg_ok x : rt_neg Big (cr_val x) = Some (cr_val (cr_neg x)).
Proof.
  destruct (neg_exact _ (cr_canon x)) as (r & Hr & _). unfold cr_neg, cr_val at 2. cbn [proj1_sig].
  now rewrite Hr.
Qed.

(* the rational number of a carrier element *)
Definition qv (x : cratio) : Q := rt_val (cr_val x).

Lemma qv_inj x y : (qv x == qv y)%Q -> x = y.
Proof. intros E. apply cr_ext. apply canon_val_inj; auto using cr_canon. Qed.

Lemma qv_add x y : (qv (cr_add x y) == qv x + qv y)%Q.
Proof.
  destruct (add_exact _ _ (cr_canon x) (cr_canon y)) as (r & Hr & _ & Hv).
  pose proof (cr_add_ok x y) as E. assert (E' : r = cr_val (cr_add x y)) by congruence. unfold qv. rewrite <- E'. exact Hv.
Qed.
Lemma qv_mul x y : (qv (cr_mul x y) == qv x * qv y)%Q.
Proof.
  destruct (mul_exact _ _ (cr_canon x) (cr_canon y)) as (r & Hr & _ & Hv).
  pose proof (cr_mul_ok x y) as E. assert (E' : r = cr_val (cr_mul x y)) by congruence. unfold qv. rewrite <- E'. exact Hv.
Qed.
Lemma qv_neg x : (qv (cr_neg x) == - qv x)%Q.
Proof.
  destruct (neg_exact _ (cr_canon x)) as (r & Hr & _ & Hv).
  pose proof (cr_neg_ok x) as E. assert (E' : r = cr_val (cr_neg x)) by congruence. unfold qv. rewrite <- E'. exact Hv.
Qed.
Lemma qv_zero : (qv cr_zero == 0)%Q.
Proof. reflexivity. Qed.
Lemma qv_one : (qv cr_one == 1)%Q.
Proof. reflexivity. Qed.

Lemma Q_ring_laws : ring_laws Q_ring.
Proof.
  constructor; cbn [Q_ring rzero rone radd rneg rmul reqb].
  - intros a b. apply qv_inj. rewrite !qv_add. ring.
  - intros a b c. apply qv_inj. rewrite !qv_add. ring.
  - intros a. apply qv_inj. rewrite qv_add, qv_zero. ring.
  - intros a. apply qv_inj. rewrite qv_add, qv_neg, qv_zero. ring.
  - intros a b. apply qv_inj. rewrite !qv_mul. ring.
  - intros a b c. apply qv_inj. rewrite !qv_mul. ring.
  - intros a. apply qv_inj. rewrite qv_mul, qv_one. ring.
  - intros a b c. apply qv_inj. rewrite qv_mul, !qv_add, !qv_mul. ring.
  - intros a b. unfold cr_eqb. rewrite rt_eqb_eq. split; [apply cr_ext|now intros ->].
Qed.

(* every rational number is the value of exactly one carrier element *)
Lemma qv_surj n d : d <> 0 -> exists x, (qv x == qfrac n d)%Q.
Proof.
  intros Hd. destruct (new_exact n d Hd) as (r & _ & Hc & Hv).
  apply canonb_spec in Hc. exists (exist _ r Hc). exact Hv.
Qed.

(* ================================ F_p ================================ *)
Definition fp (p : Z) : Type := {a : Z | inFb p a = true}.
Definition fp_val {p} (x : fp p) : Z := proj1_sig x.

Lemma fp_in {p} (x : fp p) : InF p (fp_val x).
Proof. apply inFb_spec. exact (proj2_sig x). Qed.

Lemma fp_ext {p} (x y : fp p) : fp_val x = fp_val y -> x = y.
Proof.
  destruct x as [x Hx], y as [y Hy]. unfold fp_val. cbn [proj1_sig]. intros E. subst y. f_equal.
  apply bool_proof_unique.
Qed.

Lemma ff_new_range p s r : ff_new p s = Some r -> inFb p r = true.
Proof.
  unfold ff_new. destruct (0 <? p) eqn:E; [|discriminate]. intros H. inversion H. apply Z.ltb_lt in E.
  apply inFb_spec. apply Z.mod_pos_bound. exact E.
Qed.

Lemma fp_add_in p a b : InF p a -> inFb p (or_default (ff_add p a b) a) = true.
Proof.
  intros Ha. destruct (ff_add p a b) as [r|] eqn:E; cbn [or_default]; [|now apply inFb_spec].
  unfold ff_add in E. destruct (iadd i32 a b); cbn [obind] in E; [|discriminate]. eapply ff_new_range; eauto.
Qed.
Lemma fp_mul_in p a b : InF p a -> inFb p (or_default (ff_mul p a b) a) = true.
Proof.
  intros Ha. destruct (ff_mul p a b) as [r|] eqn:E; cbn [or_default]; [|now apply inFb_spec].
  unfold ff_mul in E. destruct (imul i32 a b); cbn [obind] in E; [|discriminate]. eapply ff_new_range; eauto.
Qed.
Lemma fp_neg_in p a : InF p a -> inFb p (or_default (ff_neg p a) a) = true.
Proof.
  intros Ha. destruct (ff_neg p a) as [r|] eqn:E; cbn [or_default]; [|now apply inFb_spec].
  unfold ff_neg in E. destruct (ineg i32 a); cbn [obind] in E; [|discriminate]. eapply ff_new_range; eauto.
Qed.
Lemma inFb_0 p : 1 < p -> inFb p 0 = true.
Proof. intros H. apply inFb_spec. unfold InF. lia. Qed.
Lemma inFb_1 p : 1 < p -> inFb p 1 = true.
Proof. intros H. apply inFb_spec. unfold InF. lia. Qed.

Definition fp_zero p (H : 1 < p) : fp p := exist _ ff_zero (inFb_0 p H).
Definition fp_one p (H : 1 < p) : fp p := exist _ ff_one (inFb_1 p H).
Definition fp_add {p} (x y : fp p) : fp p :=
  exist _ (or_default (ff_add p (fp_val x) (fp_val y)) (fp_val x)) (fp_add_in p _ _ (fp_in x)).
Definition fp_mul {p} (x y : fp p) : fp p :=
  exist _ (or_default (ff_mul p (fp_val x) (fp_val y)) (fp_val x)) (fp_mul_in p _ _ (fp_in x)).
Definition fp_neg {p} (x : fp p) : fp p :=
  exist _ (or_default (ff_neg p (fp_val x)) (fp_val x)) (fp_neg_in p _ (fp_in x)).
Definition fp_eqb {p} (x y : fp p) : bool := ff_eqb (fp_val x) (fp_val y).

Definition Fp_ring p (H : 1 < p) : ring_ops (fp p) :=
  mk_ring_ops (fp p) (fp_zero p H) (fp_one p H) fp_add fp_neg fp_mul fp_eqb.

Section FpLaws.
  Variable p : Z.
  Hypothesis Hs : SmallMod p.

  Lemma fv_add (x y : fp p) :
    ff_add p (fp_val x) (fp_val y) = Some (fp_val (fp_add x y)) /\ fp_val (fp_add x y) = (fp_val x + fp_val y) mod p.
  Proof.
    assert (Hz : fp_val (fp_add x y) = or_default (ff_add p (fp_val x) (fp_val y)) (fp_val x)) by reflexivity.
    destruct (ff_add_spec p _ _ Hs (fp_in x) (fp_in y)) as [E _]. rewrite E in Hz. cbn [or_default] in Hz. rewrite Hz, E. auto.
  Qed.
  Lemma fv_mul (x y : fp p) :
    ff_mul p (fp_val x) (fp_val y) = Some (fp_val (fp_mul x y)) /\ fp_val (fp_mul x y) = (fp_val x * fp_val y) mod p.
  Proof.
    assert (Hz : fp_val (fp_mul x y) = or_default (ff_mul p (fp_val x) (fp_val y)) (fp_val x)) by reflexivity.
    destruct (ff_mul_spec p _ _ Hs (fp_in x) (fp_in y)) as [E _]. rewrite E in Hz. cbn [or_default] in Hz. rewrite Hz, E. auto.
  Qed.
  Lemma fv_neg (x : fp p) :
    ff_neg p (fp_val x) = Some (fp_val (fp_neg x)) /\ fp_val (fp_neg x) = (- fp_val x) mod p.
  Proof.
    assert (Hz : fp_val (fp_neg x) = or_default (ff_neg p (fp_val x)) (fp_val x)) by reflexivity.
    destruct (ff_neg_spec p _ Hs (fp_in x)) as [E _]. rewrite E in Hz. cbn [or_default] in Hz. rewrite Hz, E. auto.
  Qed.

  Lemma Fp_ring_laws : ring_laws (Fp_ring p (proj1 Hs)).
  Proof.
    assert (Hp : 0 < p) by (destruct Hs; lia).
    assert (Hp0 : p <> 0) by lia.
    constructor; cbn [Fp_ring rzero rone radd rneg rmul reqb].
    - intros a b. apply fp_ext. rewrite !(proj2 (fv_add _ _)). now rewrite Z.add_comm.
    - intros a b c. apply fp_ext. rewrite !(proj2 (fv_add _ _)).
      rewrite Zplus_mod_idemp_r, Zplus_mod_idemp_l. now rewrite Z.add_assoc.
    - intros a. apply fp_ext. rewrite (proj2 (fv_add _ _)). unfold fp_zero, fp_val at 1. cbn [proj1_sig].
      unfold ff_zero. rewrite Z.add_0_l. apply Z.mod_small. apply (fp_in a).
    - intros a. apply fp_ext. rewrite (proj2 (fv_add _ _)), (proj2 (fv_neg _)).
      rewrite Zplus_mod_idemp_r, Z.add_opp_diag_r. reflexivity.
    - intros a b. apply fp_ext. rewrite !(proj2 (fv_mul _ _)). now rewrite Z.mul_comm.
    - intros a b c. apply fp_ext. rewrite !(proj2 (fv_mul _ _)).
      rewrite Zmult_mod_idemp_r, Zmult_mod_idemp_l. now rewrite Z.mul_assoc.
    - intros a. apply fp_ext. rewrite (proj2 (fv_mul _ _)). unfold fp_one, fp_val at 1. cbn [proj1_sig].
      unfold ff_one. rewrite Z.mul_1_l. apply Z.mod_small. apply (fp_in a).
    - intros a b c. apply fp_ext. rewrite (proj2 (fv_mul _ _)), !(proj2 (fv_add _ _)), !(proj2 (fv_mul _ _)).
      rewrite Zmult_mod_idemp_l, <- Zplus_mod. now rewrite Z.mul_add_distr_r.
    - intros a b. unfold fp_eqb, ff_eqb. rewrite Z.eqb_eq. split; [apply fp_ext|now intros ->].
  Qed.
End FpLaws.

(* ================================ F_2 ================================ *)
Definition F2_ring : ring_ops bool := mk_ring_ops bool false true f2_add f2_neg f2_mul Bool.eqb.

Lemma F2_ring_laws : ring_laws F2_ring.
Proof.
  constructor; cbn [F2_ring rzero rone radd rneg rmul reqb]; unfold f2_add, f2_neg, f2_mul.
  - intros [] []; reflexivity.
  - intros [] [] []; reflexivity.
  - intros []; reflexivity.
  - intros []; reflexivity.
  - intros [] []; reflexivity.
  - intros [] [] []; reflexivity.
  - intros []; reflexivity.
  - intros [] [] []; reflexivity.
  - intros [] []; cbn; split; congruence.
Qed.

Lemma f2_sub_add_neg a b : f2_sub a b = f2_add a (f2_neg b).
Proof. reflexivity. Qed.
Lemma f2_pred_spec a : f2_is_zero a = Bool.eqb a false /\ f2_is_one a = Bool.eqb a true.
Proof. destruct a; auto. Qed.
