(* C13, sparse matrices, second part: negation, sum, difference, product (the delegated CSC operations,
   modelled by their mathematical definition in Model/Sparse.v: what is proved here is that the model's
   definitions - pattern union / structural product pattern followed by assembly - have the entries of
   madd / msub / mmul), conversion from and to dense, the predicates is_zero and is_id, and the
   permutation matrices from_row_perm / from_col_perm with the two identities stated in sp_mat.rs:
   row_perm(p) * a == a.permute_rows(p) and a * col_perm(p) == a.permute_cols(p). *)
From Coq Require Import Arith List Lia Bool Ring Sorted.
Require Import Yui.Base.Ring Yui.Base.MatF Yui.Base.MatL Yui.Model.Dense Yui.Model.Sparse.
Require Import Yui.Proofs.C13Dense Yui.Proofs.C13SpBase Yui.Proofs.C13Sparse.
Import ListNotations.

Section SpArith.
  Context {R : Type} (o : ring_ops R) (L : ring_laws o).

  Local Notation "0" := (rzero o).
  Local Notation "1" := (rone o).
  Local Infix "+" := (radd o).
  Local Infix "*" := (rmul o).
  Local Notation "- x" := (rneg o x).
  Local Notation ent := (ent R).
  Local Notation spmat := (spmat R).
  Local Notation psum := (psum o).
  Local Notation gsum := (gsum o).
  Local Notation sp_wf := (@sp_wf R).
  Local Notation klt := (@klt R).
  Local Notation sp_is := (sp_is o).

  Add Ring Rring : (ring_theory_of_laws o L).

  (* ---------- negation ---------- *)
  Theorem sp_neg_spec a : sp_wf a ->
    sp_is (sp_neg o a) (sp_m a) (sp_n a) (mneg o (entry o a)) /\ sp_nnz (sp_neg o a) = sp_nnz a.
  Proof.
    intros W. pose proof (proj1 (sp_wf_iff a) W) as [B S]. split.
    - unfold sp_is, sp_neg. cbn [sp_m sp_n]. splits; try reflexivity.
      + apply sp_wf_iff. cbn [sp_m sp_n sp_st]. split.
        * apply in_bounds_iff. intros e He. apply in_map_iff in He. destruct He as [x [<- Hx]].
          cbn [e_row e_col fst snd]. now apply (proj1 (in_bounds_iff _ _ _) B).
        * apply sorted_map_mono; [|exact S]. intros x y H. exact H.
      + intros i j _ _. unfold mneg. rewrite !entry_psum. cbn [sp_st].
        apply (psum_map_val o).
        * intros x y. ring.
        * ring.
    - unfold sp_nnz, sp_neg. cbn [sp_st]. apply map_length.
  Qed.

  (* ---------- sum and difference ---------- *)
  Theorem sp_add_spec a b : sp_wf a -> sp_wf b ->
    match sp_add o a b with
    | Some c => (sp_m a = sp_m b /\ sp_n a = sp_n b) /\
                sp_is c (sp_m a) (sp_n a) (madd o (entry o a) (entry o b))
    | None => ~ (sp_m a = sp_m b /\ sp_n a = sp_n b)
    end.
  Proof.
    intros Wa Wb. pose proof (proj1 (sp_wf_iff a) Wa) as [Ba _]. pose proof (proj1 (sp_wf_iff b) Wb) as [Bb _].
    unfold sp_add.
    destruct (Nat.eqb_spec (sp_m a) (sp_m b)) as [E1|E1]; destruct (Nat.eqb_spec (sp_n a) (sp_n b)) as [E2|E2];
      cbn [andb]; try tauto.
    split; [tauto|]. unfold sp_is. cbn [sp_m sp_n]. splits; try reflexivity.
    - apply sp_wf_canon. rewrite in_bounds_app, Ba, E1, E2, Bb. reflexivity.
    - intros i j _ _. unfold madd. rewrite !entry_psum. cbn [sp_st]. now rewrite (psum_canon o L), (psum_app o L).
  Qed.

  Theorem sp_sub_spec a b : sp_wf a -> sp_wf b ->
    match sp_sub o a b with
    | Some c => (sp_m a = sp_m b /\ sp_n a = sp_n b) /\
                sp_is c (sp_m a) (sp_n a) (msub o (entry o a) (entry o b))
    | None => ~ (sp_m a = sp_m b /\ sp_n a = sp_n b)
    end.
  Proof.
    intros Wa Wb. pose proof (proj1 (sp_wf_iff a) Wa) as [Ba _].
    destruct (sp_neg_spec b Wb) as [(N1 & N2 & N3 & N4) _].
    pose proof (proj1 (sp_wf_iff _) N3) as [Bn _]. rewrite N1, N2 in Bn.
    unfold sp_sub.
    destruct (Nat.eqb_spec (sp_m a) (sp_m b)) as [E1|E1]; destruct (Nat.eqb_spec (sp_n a) (sp_n b)) as [E2|E2];
      cbn [andb]; try tauto.
    split; [tauto|]. unfold sp_is. cbn [sp_m sp_n]. splits; try reflexivity.
    - apply sp_wf_canon. rewrite in_bounds_app, Ba, E1, E2, Bn. reflexivity.
    - intros i j Hi Hj. unfold msub. rewrite entry_psum. cbn [sp_st].
      rewrite (psum_canon o L), (psum_app o L), <- !entry_psum. rewrite N4 by lia. reflexivity.
  Qed.

  (* a - a has the pattern of a and only explicit zeros *)
  Theorem sp_sub_self a : sp_wf a ->
    exists c, sp_sub o a a = Some c /\ sp_is c (sp_m a) (sp_n a) (mzero o).
  Proof.
    intros W. pose proof (sp_sub_spec a a W W) as S. destruct (sp_sub o a a) as [c|].
    - exists c. split; [reflexivity|]. destruct S as (_ & S). eapply sp_is_ext; [exact S|].
      intros i j _ _. unfold msub, mzero. ring.
    - exfalso. apply S. tauto.
  Qed.

  (* ---------- product ---------- *)
  Theorem sp_mul_spec a b : sp_wf a -> sp_wf b ->
    match sp_mul o a b with
    | Some c => sp_n a = sp_m b /\
                sp_is c (sp_m a) (sp_n b) (mmul o (sp_n a) (entry o a) (entry o b))
    | None => sp_n a <> sp_m b
    end.
  Proof.
    intros Wa Wb. pose proof (proj1 (sp_wf_iff a) Wa) as [Ba _]. pose proof (proj1 (sp_wf_iff b) Wb) as [Bb _].
    pose proof (proj1 (in_bounds_iff _ _ _) Ba) as Bna. pose proof (proj1 (in_bounds_iff _ _ _) Bb) as Bnb.
    unfold sp_mul. destruct (Nat.eqb_spec (sp_n a) (sp_m b)) as [E|E]; [|exact E].
    split; [exact E|]. unfold sp_is. cbn [sp_m sp_n]. splits; try reflexivity.
    - apply sp_wf_canon. apply in_bounds_iff. intros e He. apply in_flat_map in He.
      destruct He as [eb [Heb He]]. apply in_map_iff in He. destruct He as [ea [<- Hea]].
      apply filter_In in Hea. destruct Hea as [Hea _]. cbn [e_row e_col fst snd].
      destruct (Bna ea Hea), (Bnb eb Heb). lia.
    - intros i j Hi Hj. rewrite entry_psum. cbn [sp_st]. rewrite (psum_canon o L), (psum_flat_map o L).
      (* one stored entry of b contributes [col eb = j] entry a i (row eb) * val eb *)
      assert (One : forall eb,
        psum (fun i' j' => key_eq i' j' i j)
          (map (fun ea : ent => (e_row ea, e_col eb, e_val ea * e_val eb))
               (filter (fun ea : ent => e_col ea =? e_row eb) (sp_st a)))
        = if e_col eb =? j then entry o a i (e_row eb) * e_val eb else 0).
      { intros eb. rewrite entry_psum. generalize (sp_st a). intros l.
        induction l as [|ea r IH]; cbn [filter map C13SpBase.psum].
        - destruct (e_col eb =? j); ring.
        - destruct (Nat.eqb_spec (e_col ea) (e_row eb)) as [Ec|Ec]; cbn [map C13SpBase.psum].
          + cbn [e_row e_col e_val fst snd]. rewrite IH. unfold key_eq. rewrite Ec.
            destruct (e_row ea =? i); destruct (e_col eb =? j); rewrite ?Nat.eqb_refl; cbn [andb]; ring.
          + rewrite IH. unfold key_eq. destruct (Nat.eqb_spec (e_col ea) (e_row eb)); [contradiction|].
            rewrite andb_false_r. reflexivity. }
      (* regroup by the row index of b *)
      transitivity (psum (fun _ j' => j' =? j)
                      (map (fun eb : ent => (e_row eb, e_col eb, entry o a i (e_row eb) * e_val eb)) (sp_st b))).
      { generalize (sp_st b). intros l. induction l as [|eb r IH]; cbn [fold_right map C13SpBase.psum]; [reflexivity|].
        rewrite One, IH. cbn [e_row e_col e_val fst snd]. destruct (e_col eb =? j); ring. }
      rewrite (psum_group_rows o L (fun j' => j' =? j) (fun k => entry o a i k) (sp_m b)).
      + unfold mmul. rewrite E. apply (sum_ext o). intros k _. f_equal. rewrite entry_psum.
        apply psum_ext. intros e _. reflexivity.
      + intros e He. now destruct (Bnb e He).
  Qed.

  (* ---------- dense <-> sparse ---------- *)
  Theorem sp_of_dense_spec (A : dmat R) : sp_is (sp_of_dense o A) (dm A) (dn A) (d_get o A).
  Proof.
    unfold sp_is, sp_of_dense. cbn [sp_m sp_n]. splits; try reflexivity.
    - apply sp_wf_canon. apply in_bounds_iff. intros e He. apply nz_in in He; [|exact L]. destruct He as [He _].
      apply in_flat_map in He. destruct He as [j [Hj He]]. apply in_map_iff in He. destruct He as [i [<- Hi]].
      apply in_seq in Hj, Hi. cbn [e_row e_col fst snd]. lia.
    - intros i0 j0 Hi Hj. rewrite entry_psum. cbn [sp_st].
      rewrite (psum_canon o L), (psum_nz o L), (psum_flat_map o L).
      rewrite (fold_sum_seq o L (fun j => psum (fun i' j' => key_eq i' j' i0 j0)
                                   (map (fun i => (i, j, d_get o A i j)) (seq 0 (dm A)))) (dn A)).
      rewrite (sum_ext o (dn A) _ (fun j => if j =? j0 then d_get o A i0 j else 0)).
      + now rewrite (sum_delta o L).
      + intros j _. rewrite (psum_map_seq o L). cbn [e_row e_col e_val fst snd].
        rewrite (sum_ext o (dm A) _ (fun i => if i =? i0 then (if j =? j0 then d_get o A i j else 0) else 0)).
        * now rewrite (sum_delta o L).
        * intros i _. unfold key_eq. destruct (i =? i0); destruct (j =? j0); reflexivity.
  Qed.

  Theorem sp_to_dense_spec a : d_is o (sp_to_dense o a) (sp_m a) (sp_n a) (entry o a).
  Proof. unfold sp_to_dense. apply d_is_mk. Qed.

  (* dense -> sparse -> dense gives the matrix back *)
  Theorem sp_dense_round_trip (A : dmat R) : d_wf A -> sp_to_dense o (sp_of_dense o A) = A.
  Proof.
    intros W. destruct (sp_of_dense_spec A) as (H1 & H2 & H3 & H4).
    pose proof (sp_to_dense_spec (sp_of_dense o A)) as D. rewrite H1, H2 in D.
    apply (d_is_unique o _ _ (dm A) (dn A) (d_get o A)).
    - eapply d_is_ext; [exact D|]. exact H4.
    - unfold d_is. splits; try reflexivity. exact W.
  Qed.

  (* ---------- predicates ---------- *)
  Theorem sp_is_zero_spec a : sp_wf a ->
    (sp_is_zero o a = true <-> forall i j, entry o a i j = 0).
  Proof.
    intros W. unfold sp_is_zero. rewrite forallb_forall. split.
    - intros H i j. rewrite entry_psum.
      generalize H. generalize (sp_st a). intros l Hl. induction l as [|e r IH]; cbn [C13SpBase.psum]; [reflexivity|].
      rewrite IH by (intros x Hx; apply Hl; now right).
      assert (E : e_val e = 0) by (apply (reqb_eq o L), Hl; now left).
      rewrite E. destruct (key_eq (e_row e) (e_col e) i j); ring.
    - intros H [[i j] v] He. cbn [e_val snd]. apply (reqb_eq o L).
      rewrite <- (entry_stored o L a i j v W He). apply H.
  Qed.

  (* what is_id inspects: the shape and the STORED entries only *)
  Theorem sp_is_id_stored_only a :
    sp_is_id o a = true <->
    sp_m a = sp_n a /\
    forall e, In e (sp_st a) -> (e_row e = e_col e /\ e_val e = 1) \/ (e_row e <> e_col e /\ e_val e = 0).
  Proof.
    unfold sp_is_id. rewrite andb_true_iff, Nat.eqb_eq, forallb_forall. split; intros [H1 H2]; (split; [exact H1|]).
    - intros e He. specialize (H2 e He). apply orb_true_iff in H2. destruct H2 as [H2|H2]; apply andb_true_iff in H2.
      + left. destruct H2 as [H2 H3]. apply Nat.eqb_eq in H2. split; [exact H2|now apply (reqb_eq o L)].
      + right. destruct H2 as [H2 H3]. apply negb_true_iff, Nat.eqb_neq in H2. split; [exact H2|now apply (reqb_eq o L)].
    - intros e He. apply orb_true_iff. destruct (H2 e He) as [[E1 E2]|[E1 E2]].
      + left. apply andb_true_iff. split; [now apply Nat.eqb_eq|now apply (reqb_eq o L)].
      + right. apply andb_true_iff. split; [now apply negb_true_iff, Nat.eqb_neq|now apply (reqb_eq o L)].
  Qed.

  (* the identity matrix is recognised ... *)
  Theorem sp_is_id_complete a : sp_wf a -> sp_m a = sp_n a ->
    meq (sp_m a) (sp_n a) (entry o a) (mid o) -> sp_is_id o a = true.
  Proof.
    intros W E H. apply sp_is_id_stored_only. split; [exact E|]. intros [[i j] v] He.
    pose proof (proj1 (sp_wf_iff a) W) as [B _]. destruct (proj1 (in_bounds_iff _ _ _) B _ He) as [Hi Hj].
    cbn [e_row e_col e_val fst snd] in *. rewrite <- (entry_stored o L a i j v W He), (H i j Hi Hj). unfold mid.
    destruct (Nat.eqb_spec i j); [left|right]; now split.
  Qed.

  (* ... but the converse needs every diagonal position to be stored (the code never looks at positions
     that are not stored; see the counter-example in Properties/C13.v) *)
  Theorem sp_is_id_sound_partial a : sp_wf a -> sp_is_id o a = true ->
    (forall i, (i < sp_m a)%nat -> exists v, In (i, i, v) (sp_st a)) ->
    sp_m a = sp_n a /\ meq (sp_m a) (sp_n a) (entry o a) (mid o).
  Proof.
    intros W H D. apply sp_is_id_stored_only in H. destruct H as [E H]. split; [exact E|].
    intros i j Hi Hj. unfold mid. destruct (entry_cases o L a i j W) as [[v [Hv Ev]]|[Hn Ev]]; rewrite Ev.
    - destruct (H _ Hv) as [[E1 E2]|[E1 E2]]; cbn [e_row e_col e_val fst snd] in *.
      + subst. now rewrite Nat.eqb_refl.
      + apply Nat.eqb_neq in E1. now rewrite E1.
    - destruct (Nat.eqb_spec i j) as [->|Hne]; [|reflexivity].
      destruct (D j Hi) as [v Hv]. exfalso. now apply (Hn v).
  Qed.

  (* ---------- permutation matrices ---------- *)
  Local Notation is_perm := C13Sparse.is_perm.
  Local Notation pat := C13Sparse.pat.

  Theorem sp_from_row_perm_spec p : is_perm p ->
    exists r, sp_from_row_perm o p = Some r /\
      sp_is r (length p) (length p) (fun i j => if i =? pat p j then 1 else 0).
  Proof.
    intros Pp. unfold sp_from_row_perm, perm_dim.
    rewrite (enumerate_map nat 0%nat p), map_map. cbn [fst snd].
    destruct (sp_from_entries_ok o L (length p) (length p)
                (map (fun k => (nth k p 0%nat, k, 1)) (seq 0 (length p)))) as [r (Er & (R1 & R2 & R3 & R4) & _)].
    { intros e He. apply in_map_iff in He. destruct He as [k [<- Hk]]. apply in_seq in Hk.
      cbn [e_row e_col fst snd]. split; [apply (pat_lt p k Pp)|]; lia. }
    exists r. split; [exact Er|]. unfold C13Sparse.sp_is. splits; try assumption.
    intros i j Hi Hj. rewrite R4 by assumption. rewrite esum_psum, (psum_map_seq o L).
    cbn [e_row e_col e_val fst snd].
    rewrite (sum_ext o (length p) _ (fun k => if k =? j then (if i =? pat p j then 1 else 0) else 0)).
    - now rewrite (sum_delta o L).
    - intros k _. unfold key_eq, C13Sparse.pat. destruct (Nat.eqb_spec k j) as [->|Hne].
      + rewrite andb_true_r. now rewrite Nat.eqb_sym.
      + now rewrite andb_false_r.
  Qed.

  Theorem sp_from_col_perm_spec p : is_perm p ->
    exists r, sp_from_col_perm o p = Some r /\
      sp_is r (length p) (length p) (fun i j => if j =? pat p i then 1 else 0).
  Proof.
    intros Pp. unfold sp_from_col_perm, perm_dim.
    rewrite (enumerate_map nat 0%nat p), map_map. cbn [fst snd].
    destruct (sp_from_entries_ok o L (length p) (length p)
                (map (fun k => (k, nth k p 0%nat, 1)) (seq 0 (length p)))) as [r (Er & (R1 & R2 & R3 & R4) & _)].
    { intros e He. apply in_map_iff in He. destruct He as [k [<- Hk]]. apply in_seq in Hk.
      cbn [e_row e_col fst snd]. split; [|apply (pat_lt p k Pp)]; lia. }
    exists r. split; [exact Er|]. unfold C13Sparse.sp_is. splits; try assumption.
    intros i j Hi Hj. rewrite R4 by assumption. rewrite esum_psum, (psum_map_seq o L).
    cbn [e_row e_col e_val fst snd].
    rewrite (sum_ext o (length p) _ (fun k => if k =? i then (if j =? pat p i then 1 else 0) else 0)).
    - now rewrite (sum_delta o L).
    - intros k _. unfold key_eq, C13Sparse.pat. destruct (Nat.eqb_spec k i) as [->|Hne].
      + cbn [andb]. now rewrite Nat.eqb_sym.
      + reflexivity.
  Qed.

  (* row_perm(p) * a == a.permute_rows(p) *)
  Theorem sp_row_perm_mul a p : sp_wf a -> is_perm p -> length p = sp_m a ->
    exists P c b, sp_from_row_perm o p = Some P /\ sp_mul o P a = Some c /\ sp_permute_rows o a p = Some b /\
      sp_m c = sp_m b /\ sp_n c = sp_n b /\ meq (sp_m a) (sp_n a) (entry o c) (entry o b).
  Proof.
    intros W Pp Lp.
    destruct (sp_from_row_perm_spec p Pp) as [P (EP & P1 & P2 & P3 & P4)].
    destruct (sp_permute_rows_spec o L a p W Pp Lp) as [b (Eb & B1 & B2 & B3 & B4)].
    pose proof (sp_mul_spec P a P3 W) as M. destruct (sp_mul o P a) as [c|] eqn:EM; [|exfalso; apply M; lia].
    destruct M as (_ & (C1 & C2 & C3 & C4)).
    exists P, c, b. splits; try reflexivity; try assumption; try lia.
    intros i j Hi Hj. rewrite C4 by lia. unfold mmul. rewrite P2.
    destruct (pat_surj p i Pp) as [i0 [Hi0 Ei0]]; [lia|]. rewrite <- Ei0, B4 by lia.
    rewrite (sum_single o L (length p) i0).
    - rewrite P4 by lia. rewrite Nat.eqb_refl. ring.
    - lia.
    - intros k Hk Hne. rewrite P4 by lia.
      destruct (Nat.eqb_spec (pat p i0) (pat p k)) as [E|E]; [exfalso; apply Hne; symmetry; now apply (pat_inj p)|ring].
  Qed.

  (* a * col_perm(q) == a.permute_cols(q) *)
  Theorem sp_col_perm_mul a q : sp_wf a -> is_perm q -> length q = sp_n a ->
    exists Q c b, sp_from_col_perm o q = Some Q /\ sp_mul o a Q = Some c /\ sp_permute_cols o a q = Some b /\
      sp_m c = sp_m b /\ sp_n c = sp_n b /\ meq (sp_m a) (sp_n a) (entry o c) (entry o b).
  Proof.
    intros W Pq Lq.
    destruct (sp_from_col_perm_spec q Pq) as [Q (EQ & Q1 & Q2 & Q3 & Q4)].
    destruct (sp_permute_cols_spec o L a q W Pq Lq) as [b (Eb & B1 & B2 & B3 & B4)].
    pose proof (sp_mul_spec a Q W Q3) as M. destruct (sp_mul o a Q) as [c|] eqn:EM; [|exfalso; apply M; lia].
    destruct M as (_ & (C1 & C2 & C3 & C4)).
    exists Q, c, b. splits; try reflexivity; try assumption; try lia.
    intros i j Hi Hj. rewrite C4 by lia. unfold mmul.
    destruct (pat_surj q j Pq) as [j0 [Hj0 Ej0]]; [lia|]. rewrite <- Ej0, B4 by lia.
    rewrite (sum_single o L (sp_n a) j0).
    - rewrite Q4 by lia. rewrite Nat.eqb_refl. ring.
    - lia.
    - intros k Hk Hne. rewrite Q4 by lia.
      destruct (Nat.eqb_spec (pat q j0) (pat q k)) as [E|E];
        [exfalso; apply Hne; symmetry; apply (pat_inj q); try assumption; lia|ring].
  Qed.
End SpArith.
