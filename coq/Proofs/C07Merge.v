(* C07, composition of coordinate maps, part 2: Summand::merge.
   [summand_ok]: the invariant established by Summand::new (src_dim = number of raw generators, tgt_dim = rank + #tors)
   together with the shape invariant of its Trans.  For such summands  merge  composes the coordinate maps
   (vectorize of the merged summand = vectorize_other . vectorize_self, devectorize = devectorize_self .
   devectorize_other, as identities of matrices and on every vector, panics included), and the clauses of C07
   ([gens_ok] of Proofs/C07Calc.v) are transported from the intermediate coordinates to the original complex. *)
From Coq Require Import Arith List Lia Ring Bool.
Require Import Yui.Base.Ring Yui.Base.MatF Yui.Base.MatL Yui.Model.HomologyCalc Yui.Model.HomologyMerge.
Require Import Yui.Proofs.C07Calc Yui.Proofs.C07MergeTrans.
Import ListNotations.

Section C07Merge.
  Context {R : Type} (o : ring_ops R) (L : ring_laws o).

  Local Notation "0" := (rzero o).
  Local Notation "1" := (rone o).
  Local Infix "+" := (radd o).
  Local Infix "*" := (rmul o).
  Local Notation mg := (mget o).
  Local Notation Ff := (fun t : trans R => fwd_fun o (f_mats t)).
  Local Notation Bf := (fun t : trans R => bwd_fun o (b_mats t)).

  Add Ring Rring07n : (ring_theory_of_laws o L).

  Definition summand_ok (s : summand R) : Prop :=
    src_dim (s_trans s) = s_ngens s /\ tgt_dim (s_trans s) = s_dim s /\ trans_ok (s_trans s).

  Lemma summand_new_ok n r ts t s :
    summand_new n r ts t = Some s -> trans_ok t ->
    summand_ok s /\ s_ngens s = n /\ s_rank s = r /\ s_tors s = ts /\ s_trans s = t.
  Proof.
    unfold summand_new. intros E H.
    destruct ((src_dim t =? n) && (tgt_dim t =? r + length ts)) eqn:G; [|discriminate]. injection E as <-.
    apply andb_true_iff in G. destruct G as [G1 G2]. apply Nat.eqb_eq in G1, G2.
    unfold summand_ok, s_dim. cbn [s_ngens s_rank s_tors s_trans]. repeat split; assumption.
  Qed.

  Lemma summand_generate_ok rank tors t h :
    summand_generate rank tors (Some t) = Some h -> trans_ok t ->
    summand_ok h /\ s_ngens h = src_dim t /\ s_rank h = rank /\ s_tors h = tors /\ s_trans h = t.
  Proof. unfold summand_generate. apply summand_new_ok. Qed.

  Lemma summand_zero_ok : summand_ok (@summand_zero R).
  Proof. unfold summand_ok, summand_zero, s_dim. cbn. repeat split. apply trans_id_ok. Qed.

  Lemma summand_free_ok n : summand_ok (@summand_free R n).
  Proof.
    unfold summand_ok, summand_free, s_dim. cbn [s_trans s_ngens s_rank s_tors length trans_id src_dim tgt_dim].
    repeat split; [lia|apply trans_id_ok].
  Qed.

  (* ---------- merge composes the coordinate maps ---------- *)
  Theorem summand_merge_spec s h :
    summand_ok s -> summand_ok h -> s_dim s = s_ngens h ->
    exists s', summand_merge o s h = Some s' /\ summand_ok s' /\
      s_ngens s' = s_ngens s /\ s_rank s' = s_rank h /\ s_tors s' = s_tors h /\
      (length (f_mats (s_trans s')) <= 1)%nat /\ (length (b_mats (s_trans s')) <= 1)%nat /\
      meq (s_dim h) (s_ngens s) (Ff (s_trans s')) (mmul o (s_dim s) (Ff (s_trans h)) (Ff (s_trans s))) /\
      meq (s_ngens s) (s_dim h) (Bf (s_trans s')) (mmul o (s_dim s) (Bf (s_trans s)) (Bf (s_trans h))).
  Proof.
    intros [S1 [S2 S3]] [H1 [H2 H3]] Hd. unfold summand_merge, trans_merge.
    assert (G : tgt_dim (s_trans s) = src_dim (s_trans h)) by congruence.
    destruct (Nat.eqb_spec (tgt_dim (s_trans s)) (src_dim (s_trans h))) as [_|N]; [|contradiction].
    destruct (trans_merged_spec o L _ _ S3 H3 G) as [tu [Etu [Oku [U1 [U2 [UF UB]]]]]].
    rewrite Etu. cbn [obind].
    destruct (trans_reduce_spec o L tu Oku) as [t' [Et' [Ok' [T1 [T2 [T3 [T4 [TF TB]]]]]]]].
    rewrite Et'. cbn [obind]. eexists. split; [reflexivity|].
    unfold summand_ok, s_dim. cbn [s_ngens s_rank s_tors s_trans].
    split; [split; [congruence|split; [unfold s_dim in H2; congruence|exact Ok']]|].
    split; [reflexivity|]. split; [reflexivity|]. split; [reflexivity|]. split; [exact T3|]. split; [exact T4|].
    fold (s_dim h). fold (s_dim s). rewrite U1, U2, S1, H2 in TF, TB. rewrite S1, S2, H2 in UF, UB.
    split.
    - intros i j Hi Hj. rewrite TF by assumption. now apply UF.
    - intros i j Hi Hj. rewrite TB by assumption. now apply UB.
  Qed.

  (* the assertion of merge fails exactly when the dimensions do not match *)
  Theorem summand_merge_none s h :
    summand_ok s -> summand_ok h -> s_dim s <> s_ngens h -> summand_merge o s h = None.
  Proof.
    intros [S1 [S2 S3]] [H1 [H2 H3]] Hd. unfold summand_merge.
    destruct (Nat.eqb_spec (tgt_dim (s_trans s)) (src_dim (s_trans h))) as [E|N]; [|reflexivity].
    exfalso. apply Hd. congruence.
  Qed.

  Lemma summand_merge_some s h s' :
    summand_ok s -> summand_ok h -> summand_merge o s h = Some s' -> s_dim s = s_ngens h.
  Proof.
    intros Hs Hh E. destruct (Nat.eq_dec (s_dim s) (s_ngens h)) as [G|G]; [exact G|].
    rewrite (summand_merge_none s h Hs Hh G) in E. discriminate.
  Qed.

  (* as an identity of the matrices returned by forward_mat / backward_mat *)
  Theorem summand_merge_mats s h s' :
    summand_ok s -> summand_ok h -> summand_merge o s h = Some s' ->
    exists f b p' q' p q,
      forward_mat o (s_trans s) = Some f /\ backward_mat o (s_trans s) = Some b /\
      forward_mat o (s_trans h) = Some p' /\ backward_mat o (s_trans h) = Some q' /\
      forward_mat o (s_trans s') = Some p /\ backward_mat o (s_trans s') = Some q /\
      nr f = s_dim s /\ nc f = s_ngens s /\ nr b = s_ngens s /\ nc b = s_dim s /\
      nr p' = s_dim h /\ nc p' = s_dim s /\ nr q' = s_dim s /\ nc q' = s_dim h /\
      nr p = s_dim h /\ nc p = s_ngens s /\ nr q = s_ngens s /\ nc q = s_dim h /\
      meq (s_dim h) (s_ngens s) (mg p) (mmul o (s_dim s) (mg p') (mg f)) /\
      meq (s_ngens s) (s_dim h) (mg q) (mmul o (s_dim s) (mg b) (mg q')).
  Proof.
    intros Hs Hh E. pose proof (summand_merge_some s h s' Hs Hh E) as Hd.
    destruct (summand_merge_spec s h Hs Hh Hd) as [s'' [E' [Ok' [N1 [N2 [N3 [_ [_ [MF MB]]]]]]]]].
    rewrite E in E'. injection E' as <-.
    destruct Hs as [S1 [S2 S3]]. destruct Hh as [H1 [H2 H3]]. destruct Ok' as [K1 [K2 K3]].
    destruct (forward_mat_spec o L _ S3) as [f [Ef [F1 [F2 F3]]]].
    destruct (backward_mat_spec o L _ S3) as [b [Eb [B1 [B2 B3]]]].
    destruct (forward_mat_spec o L _ H3) as [p' [Ep' [P1' [P2' P3']]]].
    destruct (backward_mat_spec o L _ H3) as [q' [Eq' [Q1' [Q2' Q3']]]].
    destruct (forward_mat_spec o L _ K3) as [p [Ep [P1 [P2 P3]]]].
    destruct (backward_mat_spec o L _ K3) as [q [Eq [Q1 [Q2 Q3]]]].
    assert (Kd : s_dim s' = s_dim h) by (unfold s_dim; congruence).
    exists f, b, p', q', p, q.
    rewrite S1, S2 in *. rewrite H1, H2 in *. rewrite K1, K2, Kd, N1 in *.
    repeat (split; [first [assumption|congruence]|]).
    split.
    - intros i j Hi Hj. rewrite P3, MF by assumption.
      unfold mmul. apply (sum_ext o). intros l Hl. rewrite P3', F3 by lia. reflexivity.
    - intros i j Hi Hj. rewrite Q3, MB by assumption.
      unfold mmul. apply (sum_ext o). intros l Hl. rewrite B3, Q3' by lia. reflexivity.
  Qed.

  (* on every chain: vectorize of the merged summand = vectorize_other . vectorize_self (panics included) *)
  Theorem merge_vectorize s h s' :
    summand_ok s -> summand_ok h -> summand_merge o s h = Some s' ->
    forall z, vectorize o s' z = obind (vectorize o s z) (vectorize o h).
  Proof.
    intros Hs Hh E z. pose proof (summand_merge_some s h s' Hs Hh E) as Hd.
    destruct (summand_merge_spec s h Hs Hh Hd) as [s'' [E' [Ok' [N1 [N2 [N3 [_ [_ [MF _]]]]]]]]].
    rewrite E in E'. injection E' as <-.
    destruct Hs as [S1 [S2 S3]]. destruct Hh as [H1 [H2 H3]]. destruct Ok' as [K1 [K2 K3]].
    assert (Kd : s_dim s' = s_dim h) by (unfold s_dim; congruence).
    unfold vectorize. rewrite N1.
    destruct (Nat.eqb_spec (length z) (s_ngens s)) as [Hz|Hz]; [|reflexivity].
    assert (Hz1 : length z = src_dim (s_trans s)) by congruence.
    assert (Hz2 : length z = src_dim (s_trans s')) by congruence.
    destruct (forward_spec o L _ z S3 Hz1) as [y [Ey [Y1 Y2]]].
    destruct (forward_spec o L _ z K3 Hz2) as [w' [Ew' [W1' W2']]].
    rewrite Ey, Ew'. cbn [obind].
    assert (Hy : length y = s_ngens h) by congruence.
    destruct (Nat.eqb_spec (length y) (s_ngens h)) as [_|N]; [|contradiction].
    assert (Hy1 : length y = src_dim (s_trans h)) by congruence.
    destruct (forward_spec o L _ y H3 Hy1) as [w [Ew [W1 W2]]].
    rewrite Ew. f_equal. apply (vec_ext o w' w (s_dim h)); [congruence|congruence|].
    intros i Hi. rewrite W2' by congruence. rewrite W2 by congruence.
    rewrite K1, N1, H1, <- Hd.
    rewrite (mvec_ext_m o _ (mmul o (s_dim s) (Ff (s_trans h)) (Ff (s_trans s)))).
    2:{ intros l Hl. now apply MF. }
    rewrite (mvec_mmul o L). apply mvec_ext_v. intros l Hl.
    rewrite Y2 by congruence. now rewrite S1.
  Qed.

  (* devectorize of the merged summand = devectorize_self . devectorize_other (panics included) *)
  Theorem merge_devectorize s h s' :
    summand_ok s -> summand_ok h -> summand_merge o s h = Some s' ->
    forall v, devectorize o s' v = obind (devectorize o h v) (devectorize o s).
  Proof.
    intros Hs Hh E v. pose proof (summand_merge_some s h s' Hs Hh E) as Hd.
    destruct (summand_merge_spec s h Hs Hh Hd) as [s'' [E' [Ok' [N1 [N2 [N3 [_ [_ [_ MB]]]]]]]]].
    rewrite E in E'. injection E' as <-.
    destruct Hs as [S1 [S2 S3]]. destruct Hh as [H1 [H2 H3]]. destruct Ok' as [K1 [K2 K3]].
    assert (Kd : s_dim s' = s_dim h) by (unfold s_dim; congruence).
    unfold devectorize. rewrite Kd.
    destruct (Nat.eqb_spec (length v) (s_dim h)) as [Hv|Hv]; [|reflexivity].
    assert (Hv1 : length v = tgt_dim (s_trans h)) by congruence.
    assert (Hv2 : length v = tgt_dim (s_trans s')) by congruence.
    destruct (backward_spec o L _ v H3 Hv1) as [y [Ey [Y1 Y2]]].
    destruct (backward_spec o L _ v K3 Hv2) as [x' [Ex' [X1' X2']]].
    rewrite Ey, Ex'. cbn [obind].
    assert (Hy : length y = s_dim s) by congruence.
    destruct (Nat.eqb_spec (length y) (s_dim s)) as [_|N]; [|contradiction].
    assert (Hy1 : length y = tgt_dim (s_trans s)) by congruence.
    destruct (backward_spec o L _ y S3 Hy1) as [x [Ex [X1 X2]]].
    rewrite Ex. f_equal. apply (vec_ext o x' x (s_ngens s)); [congruence|congruence|].
    intros i Hi. rewrite X2' by congruence. rewrite X2 by congruence.
    rewrite K2, Kd, S2.
    rewrite (mvec_ext_m o _ (mmul o (s_dim s) (Bf (s_trans s)) (Bf (s_trans h)))).
    2:{ intros l Hl. now apply MB. }
    rewrite (mvec_mmul o L). apply mvec_ext_v. intros l Hl.
    rewrite Y2 by congruence. now rewrite H2.
  Qed.

  Theorem merge_gen s h s' :
    summand_ok s -> summand_ok h -> summand_merge o s h = Some s' ->
    forall k, gen o s' k = obind (gen o h k) (devectorize o s).
  Proof.
    intros Hs Hh E k. unfold gen.
    assert (Kd : s_dim s' = s_dim h).
    { pose proof (summand_merge_some s h s' Hs Hh E) as Hd.
      destruct (summand_merge_spec s h Hs Hh Hd) as [s'' [E' [_ [_ [N2 [N3 _]]]]]].
      rewrite E in E'. injection E' as <-. unfold s_dim. congruence. }
    rewrite Kd. destruct (unit_vec o (s_dim h) k) as [v|]; cbn [obind]; [|reflexivity].
    apply (merge_devectorize s h s' Hs Hh E).
  Qed.

  (* ---------- the clauses of C07 are transported along a retraction by chain maps ---------- *)
  (* (D1, D2): incoming / outgoing differential of the ORIGINAL complex at the degree in question (n = nr D1);
     (f, b): the coordinate maps of the summand of that degree (f : n -> n', b : n' -> n, f*b = I);
     (d1', d2'): the differentials in the new coordinates; b is a chain map towards the original complex in the
     outgoing direction (D2*b = B0*d2' for some B0) and f a chain map in the incoming direction (f*D1 = d1'*F2 for some
     F2) - for a unimodular change of basis B0 = b_next, F2 = f_prev; for ChainComplexBase::reduced() these are the
     identities of property C08;
     (p', q'): coordinates / generators satisfying the clauses for (d1', d2');
     then p = p'*f, q = b*q' satisfy the clauses for (D1, D2). *)
  Theorem gens_ok_compose (D1 D2 d1' d2' f b p' q' p q : dmat R) rank tors :
    let n := nr D1 in let n' := nr d1' in let h := (rank + length tors)%nat in
    meq n' n' (mmul o n (mg f) (mg b)) (mid o) ->
    (exists B0 : mat R, meq (nr D2) n' (mmul o n (mg D2) (mg b)) (mmul o (nr d2') B0 (mg d2'))) ->
    (exists F2 : mat R, meq n' (nc D1) (mmul o n (mg f) (mg D1)) (mmul o (nc d1') (mg d1') F2)) ->
    gens_ok o d1' d2' rank tors p' q' ->
    nr p = h -> nc p = n -> nr q = n -> nc q = h ->
    meq h n (mg p) (mmul o n' (mg p') (mg f)) ->
    meq n h (mg q) (mmul o n' (mg b) (mg q')) ->
    gens_ok o D1 D2 rank tors p q.
  Proof.
    intros n n' h Hfb [B0 Hcyc] [F2 Hbnd] [G1 [G2 [G3 [G4 [Gc [Gi Gb]]]]]] P1 P2 Q1 Q2 HP HQ.
    fold n' in G2, G3, Gc, Gi, Gb. fold h in G1, G4, Gc, Gi, Gb.
    unfold gens_ok. fold n. fold h.
    split; [exact P1|]. split; [exact P2|]. split; [exact Q1|]. split; [exact Q2|]. split; [|split].
    - (* D2 * (b * q') = (D2 * b) * q' = B0 * (d2' * q') = 0 *)
      intros i j Hi Hj. unfold mzero.
      rewrite (mmul_ext_r' o n _ _ (mmul o n' (mg b) (mg q'))) by (intros l Hl; now apply HQ).
      rewrite <- (mmul_assoc o L).
      rewrite (mmul_ext_l' o n' _ (mmul o (nr d2') B0 (mg d2'))) by (intros l Hl; now apply Hcyc).
      rewrite (mmul_assoc o L).
      unfold mmul at 1. apply (sum_zero_ext o L). intros l Hl.
      rewrite (Gc l j Hl Hj). unfold mzero. ring.
    - (* (p' * f) * (b * q') = p' * (f * b) * q' = p' * q' = I *)
      intros i j Hi Hj.
      rewrite (mmul_ext_l' o n _ (mmul o n' (mg p') (mg f))) by (intros l Hl; now apply HP).
      rewrite (mmul_ext_r' o n _ _ (mmul o n' (mg b) (mg q'))) by (intros l Hl; now apply HQ).
      rewrite (mmul_assoc o L).
      rewrite (mmul_ext_r' o n' _ _ (mg q')).
      + now apply Gi.
      + intros l Hl. rewrite <- (mmul_assoc o L).
        rewrite (mmul_ext_l' o n' _ (mid o)) by (intros k Hk; now apply Hfb).
        now apply (mmul_id_l o L).
    - (* p * D1 * x = p' * (f * D1 * x) = p' * d1' * (F2 * x) *)
      intros x i Hi. cbv zeta.
      assert (E : mvec o n (mg p) (mvec o (nc D1) (mg D1) x) i =
                  mvec o n' (mg p') (mvec o (nc d1') (mg d1') (mvec o (nc D1) F2 x)) i).
      { rewrite (mvec_ext_m o _ (mmul o n' (mg p') (mg f))) by (intros l Hl; now apply HP).
        rewrite (mvec_mmul o L). apply mvec_ext_v. intros l Hl.
        rewrite <- (mvec_mmul o L).
        rewrite (mvec_ext_m o _ (mmul o (nc d1') (mg d1') F2)) by (intros k Hk; now apply Hbnd).
        now rewrite (mvec_mmul o L). }
      rewrite E. exact (Gb (mvec o (nc D1) F2 x) i Hi).
  Qed.

  (* the same for the summand returned by Summand::merge *)
  Theorem summand_merge_gens_ok (D1 D2 d1' d2' : dmat R) s h s' f b :
    summand_ok s -> summand_ok h -> summand_merge o s h = Some s' ->
    s_ngens s = nr D1 -> s_dim s = nr d1' ->
    forward_mat o (s_trans s) = Some f -> backward_mat o (s_trans s) = Some b ->
    meq (nr d1') (nr d1') (mmul o (nr D1) (mg f) (mg b)) (mid o) ->
    (exists B0 : mat R, meq (nr D2) (nr d1') (mmul o (nr D1) (mg D2) (mg b)) (mmul o (nr d2') B0 (mg d2'))) ->
    (exists F2 : mat R, meq (nr d1') (nc D1) (mmul o (nr D1) (mg f) (mg D1)) (mmul o (nc d1') (mg d1') F2)) ->
    (forall p' q', forward_mat o (s_trans h) = Some p' -> backward_mat o (s_trans h) = Some q' ->
                   gens_ok o d1' d2' (s_rank h) (s_tors h) p' q') ->
    exists p q, forward_mat o (s_trans s') = Some p /\ backward_mat o (s_trans s') = Some q /\
                gens_ok o D1 D2 (s_rank s') (s_tors s') p q.
  Proof.
    intros Hs Hh E Hn Hn' Ef Eb Hfb Hcyc Hbnd Hg.
    destruct (summand_merge_mats s h s' Hs Hh E)
      as [f0 [b0 [p' [q' [p [q [Ef0 [Eb0 [Ep' [Eq' [Ep [Eq Sh]]]]]]]]]]]].
    rewrite Ef in Ef0. injection Ef0 as <-. rewrite Eb in Eb0. injection Eb0 as <-.
    destruct Sh as [F1 [F2 [B1 [B2 [P1' [P2' [Q1' [Q2' [P1 [P2 [Q1 [Q2 [MP MQ]]]]]]]]]]]]].
    pose proof (summand_merge_some s h s' Hs Hh E) as Hd.
    destruct (summand_merge_spec s h Hs Hh Hd) as [s'' [E' [_ [N1 [N2 [N3 _]]]]]].
    rewrite E in E'. injection E' as <-.
    exists p, q. split; [exact Ep|]. split; [exact Eq|].
    rewrite N2, N3. unfold s_dim in *.
    apply (gens_ok_compose D1 D2 d1' d2' f b p' q' p q (s_rank h) (s_tors h)); try assumption; try congruence.
    - exact (Hg p' q' Ep' Eq').
    - rewrite <- Hn, <- Hn'. exact MP.
    - rewrite <- Hn, <- Hn'. exact MQ.
  Qed.
End C07Merge.
