(* C08 (continued): a reduction step keeps the Smith form up to r leading units.
   Part 1 (Section SdrEquiv): pure algebra on the shaped matrices of Model/Reducer.v.  If the maps (f1, b1, f2, b2, h)
   of a step a1 ~> s satisfy the identities of C08_step and the homotopy factors through R^r,  h = e1 g2  with
   g2 a1 e1 = 1_r, then  U = [g2; f2],  V = [e1 | b1]  are invertible (U^-1 = [a1 e1 | b2], V^-1 = [g2 a1; f1]) and
   U a1 V = I_r (+) s.
   Part 2: the step of the model has such a factorisation (e1 = q^-1 [1; 0], g2 = [a^-1 0] p).
   Part 3: conversion to function matrices and [smith_form] (Proofs/C08HomF.v). *)
From Coq Require Import Arith List Lia Bool Ring.
Require Import Yui.Base.Ring Yui.Base.MatF Yui.Base.MatL Yui.Model.Reducer.
Require Import Yui.Proofs.C08Mat Yui.Proofs.C08Perm Yui.Proofs.C08Tri Yui.Proofs.C08Block Yui.Proofs.C08Step.
Require Import Yui.Proofs.C08All Yui.Proofs.C08Run.
Require Import Yui.Proofs.C07Algebra Yui.Proofs.C09UniqueKer Yui.Proofs.C08HomF.
Import ListNotations.

Section SdrEquiv.
  Context {R : Type} (o : ring_ops R) (L : ring_laws o).
  Local Notation dmat := (dmat R).
  Local Notation dwf := (@dwf R).
  Context (r mr nr : nat) (a1 s f1 b1 f2 b2 h e1 g2 : dmat).
  Context (Wa : dwf a1) (Ra : dr a1 = r + mr) (Ca : dc a1 = r + nr)
          (Ws : dwf s) (Rs : dr s = mr) (Cs : dc s = nr)
          (Wf1 : dwf f1) (Rf1 : dr f1 = nr) (Cf1 : dc f1 = r + nr)
          (Wb1 : dwf b1) (Rb1 : dr b1 = r + nr) (Cb1 : dc b1 = nr)
          (Wf2 : dwf f2) (Rf2 : dr f2 = mr) (Cf2 : dc f2 = r + mr)
          (Wb2 : dwf b2) (Rb2 : dr b2 = r + mr) (Cb2 : dc b2 = mr)
          (We1 : dwf e1) (Re1 : dr e1 = r + nr) (Ce1 : dc e1 = r)
          (Wg2 : dwf g2) (Rg2 : dr g2 = r) (Cg2 : dc g2 = r + mr).
  Context (Hfc : dmul o f2 a1 = dmul o s f1) (Hbc : dmul o a1 b1 = dmul o b2 s)
          (Hfb1 : dmul o f1 b1 = did o nr) (Hfb2 : dmul o f2 b2 = did o mr)
          (Hh1 : dadd o (dmul o b1 f1) (dmul o h a1) = did o (r + nr))
          (Hh2 : dadd o (dmul o b2 f2) (dmul o a1 h) = did o (r + mr))
          (Hfh : dmul o f1 h = dzero o nr (r + mr)) (Hhb : dmul o h b2 = dzero o (r + nr) mr)
          (Hfac : h = dmul o e1 g2) (Hunit : dmul o g2 (dmul o a1 e1) = did o r).

  Ltac sd := solve [dwfs | assumption
                   | autorewrite with ddim;
                     rewrite ?Ra, ?Ca, ?Rs, ?Cs, ?Rf1, ?Cf1, ?Rb1, ?Cb1, ?Rf2, ?Cf2, ?Rb2, ?Cb2, ?Re1, ?Ce1, ?Rg2, ?Cg2;
                     (lia || reflexivity)].

  Local Notation e2 := (dmul o a1 e1).
  Local Notation g1 := (dmul o g2 a1).

  Lemma se_g1e1 : dmul o g1 e1 = did o r.
  Proof. rewrite (dmul_assoc o L) by sd. exact Hunit. Qed.

  Lemma se_f1e1 : dmul o f1 e1 = dzero o nr r.
  Proof.
    assert (X : dmul o (dmul o f1 h) e2 = dmul o f1 e1).
    { rewrite Hfac. rewrite <- (dmul_assoc o L f1) by sd. rewrite (dmul_assoc o L (dmul o f1 e1)) by sd.
      rewrite Hunit. apply (dmul_id_r o L); sd. }
    rewrite <- X, Hfh. rewrite (dmul_zero_l o L). f_equal; sd.
  Qed.

  Lemma se_g2b2 : dmul o g2 b2 = dzero o r mr.
  Proof.
    assert (X : dmul o g1 (dmul o h b2) = dmul o g2 b2).
    { rewrite Hfac. rewrite (dmul_assoc o L e1) by sd. rewrite <- (dmul_assoc o L g1) by sd.
      rewrite se_g1e1. apply (dmul_id_l o L); sd. }
    rewrite <- X, Hhb. rewrite (dmul_zero_r o L). f_equal; sd.
  Qed.

  Lemma se_g2ab1 : dmul o g2 (dmul o a1 b1) = dzero o r nr.
  Proof.
    rewrite Hbc. rewrite <- (dmul_assoc o L) by sd. rewrite se_g2b2. rewrite (dmul_zero_l o L). f_equal; sd.
  Qed.

  Lemma se_f2ae1 : dmul o f2 e2 = dzero o mr r.
  Proof.
    rewrite <- (dmul_assoc o L) by sd. rewrite Hfc. rewrite (dmul_assoc o L) by sd. rewrite se_f1e1.
    rewrite (dmul_zero_r o L). f_equal; sd.
  Qed.

  Lemma se_f2ab1 : dmul o f2 (dmul o a1 b1) = s.
  Proof.
    rewrite Hbc. rewrite <- (dmul_assoc o L) by sd. rewrite Hfb2. apply (dmul_id_l o L); sd.
  Qed.

  Definition se_U := dvcat o g2 f2.
  Definition se_Ui := dhcat o e2 b2.
  Definition se_V := dhcat o e1 b1.
  Definition se_Vi := dvcat o g1 f1.
  Definition se_BD := dvcat o (dhcat o (did o r) (dzero o r nr)) (dhcat o (dzero o mr r) s).

  Lemma se_UUi : dmul o se_U se_Ui = did o (r + mr).
  Proof.
    unfold se_U, se_Ui. rewrite (dmul_vcat_l o) by sd. rewrite !(dmul_hcat_r o) by sd.
    rewrite Hunit, se_g2b2, se_f2ae1, Hfb2. apply (did_blocks o).
  Qed.

  Lemma se_UiU : dmul o se_Ui se_U = did o (r + mr).
  Proof.
    unfold se_U, se_Ui. rewrite (dmul_hcat_vcat o L) by sd.
    rewrite (dmul_assoc o L) by sd. rewrite (dadd_comm o L) by sd. rewrite <- Hfac. exact Hh2.
  Qed.

  Lemma se_ViV : dmul o se_Vi se_V = did o (r + nr).
  Proof.
    unfold se_V, se_Vi. rewrite (dmul_vcat_l o) by sd. rewrite !(dmul_hcat_r o) by sd.
    rewrite se_g1e1, se_f1e1, Hfb1. rewrite (dmul_assoc o L g2) by sd. rewrite se_g2ab1. apply (did_blocks o).
  Qed.

  Lemma se_VVi : dmul o se_V se_Vi = did o (r + nr).
  Proof.
    unfold se_V, se_Vi. rewrite (dmul_hcat_vcat o L) by sd.
    rewrite <- (dmul_assoc o L) by sd. rewrite (dadd_comm o L) by sd. rewrite <- Hfac. exact Hh1.
  Qed.

  Lemma se_UAV : dmul o se_U (dmul o a1 se_V) = se_BD.
  Proof.
    unfold se_U, se_V, se_BD. rewrite (dmul_hcat_r o a1) by sd. rewrite (dmul_vcat_l o) by sd.
    rewrite !(dmul_hcat_r o) by sd. rewrite Hunit, se_g2ab1, se_f2ae1, se_f2ab1. reflexivity.
  Qed.
  (* ---------- to function matrices ---------- *)
  Lemma se_BD_entry i j : i < r + mr -> j < r + nr -> dget o se_BD i j = bd o r (dget o s) i j.
  Proof.
    intros Hi Hj. unfold se_BD. rewrite bd_entry. rewrite (dget_dvcat o) by sd. autorewrite with ddim.
    destruct (Nat.ltb_spec i r) as [Hir|Hir].
    - rewrite (dget_dhcat o) by sd. autorewrite with ddim. destruct (Nat.ltb_spec j r) as [Hjr|Hjr].
      + now apply (dget_did o).
      + apply (dget_dzero o).
    - rewrite (dget_dhcat o) by sd. autorewrite with ddim. destruct (Nat.ltb_spec j r) as [Hjr|Hjr].
      + apply (dget_dzero o).
      + reflexivity.
  Qed.

  Lemma se_inv_U : inv_pair o (r + mr) (dget o se_U) (dget o se_Ui).
  Proof.
    split; intros i j Hi Hj.
    - rewrite <- (dget_did o (r + mr)) by assumption. rewrite <- se_UUi.
      rewrite (dget_dmul o) by (unfold se_U, se_Ui; sd). f_equal. unfold se_U; sd.
    - rewrite <- (dget_did o (r + mr)) by assumption. rewrite <- se_UiU.
      rewrite (dget_dmul o) by (unfold se_U, se_Ui; sd). f_equal. unfold se_Ui; sd.
  Qed.

  Lemma se_inv_V : inv_pair o (r + nr) (dget o se_V) (dget o se_Vi).
  Proof.
    split; intros i j Hi Hj.
    - rewrite <- (dget_did o (r + nr)) by assumption. rewrite <- se_VVi.
      rewrite (dget_dmul o) by (unfold se_V, se_Vi; sd). f_equal. unfold se_V; sd.
    - rewrite <- (dget_did o (r + nr)) by assumption. rewrite <- se_ViV.
      rewrite (dget_dmul o) by (unfold se_V, se_Vi; sd). f_equal. unfold se_Vi; sd.
  Qed.

  Lemma se_UAV_fun :
    meq (r + mr) (r + nr) (mmul o (r + mr) (dget o se_U) (mmul o (r + nr) (dget o a1) (dget o se_V)))
        (bd o r (dget o s)).
  Proof.
    intros i j Hi Hj. rewrite <- se_BD_entry by assumption. rewrite <- se_UAV.
    rewrite (dget_dmul o) by (unfold se_U, se_V; sd).
    replace (dc se_U) with (r + mr) by (unfold se_U; sd).
    apply (mmul_ext_r o). intros l Hl.
    rewrite (dget_dmul o) by (unfold se_V; sd). f_equal. sd.
  Qed.

  Theorem sdr_step_smith (Hone : rone o <> rzero o) k ds :
    smith_form o mr nr (dget o s) k ds ->
    smith_form o (r + mr) (r + nr) (dget o a1) (r + k) (lead1 o r ds).
  Proof.
    intros HS.
    exact (equiv_bd_smith o L Hone r mr nr (dget o a1) (dget o s) _ _ _ _ k ds se_inv_U se_inv_V se_UAV_fun HS).
  Qed.
End SdrEquiv.

(* ---------- Part 2: the step of the model ---------- *)
Section StepSmith.
  Context {R : Type} (o : ring_ops R) (L : ring_laws o) (u : unit_ops R) (UL : unit_laws o u).
  Local Notation dmat := (dmat R).
  Local Notation dwf := (@dwf R).

  Ltac sd := solve [dwfs | assumption | autorewrite with ddim; (lia || reflexivity)].

  Lemma blk_fac (G : dmat) r nr : dwf G -> dr G = r ->
    dmul o (dvcat o (did o r) (dzero o nr r)) G = dvcat o G (dzero o nr (dc G)).
  Proof.
    intros W H. rewrite (dmul_vcat_l o) by sd. rewrite (dmul_id_l o L) by assumption.
    now rewrite (dmul_zero_l o L).
  Qed.

  Lemma blk_unit r mr nr fa fb fc fd (ainv : dmat) :
    dwf ainv -> dr ainv = r -> dc ainv = r -> dmul o ainv (dmk r r fa) = did o r ->
    dmul o (dhcat o ainv (dzero o r mr))
         (dmul o (blk_A o r mr nr fa fb fc fd) (dvcat o (did o r) (dzero o nr r))) = did o r.
  Proof.
    intros W Hr Hc Hi. unfold blk_A. rewrite (dmul_vcat_l o) by sd.
    rewrite !(dmul_hcat_vcat o L) by sd.
    rewrite !(dmul_id_r o L) by sd. rewrite !(dmul_zero_r o L). autorewrite with ddim.
    rewrite (dadd_zero_r' o L) by sd. rewrite (dadd_zero_r' o L) by sd.
    rewrite Hi. rewrite (dmul_zero_l o L). autorewrite with ddim. apply (dadd_zero_r' o L); sd.
  Qed.

  Theorem step_smith (a1 : dmat) (vp vq : list nat) (r : nat) (t : ttype) (sc : schur R) :
    rone o <> rzero o ->
    dwf a1 -> is_perm (dr a1) vp -> is_perm (dc a1) vq ->
    tri_ok o t (dblock o (permute o a1 vp vq) 0 0 r r) r ->
    schur_of o u t (permute o a1 vp vq) r = Some sc ->
    forall (k : nat) (ds : nat -> R),
    smith_form o (dr a1 - r) (dc a1 - r) (dget o (sc_s sc)) k ds ->
    smith_form o (dr a1) (dc a1) (dget o a1) (r + k) (lead1 o r ds).
  Proof.
    intros Hone W1 Hp Hq Htri Hsc k ds HS.
    destruct (step_summary o L u UL a1 vp vq r t sc W1 Hp Hq Htri Hsc)
      as ((Hrm & Hrn & Ws & Rs & Cs) & Hfc & Hbc & Hfb1 & Hfb2 & Hh1 & Hh2 & Hfh & Hhb & _).
    pose proof (step_dims o L u UL a1 (dr a1) (dc a1) r vp vq t sc eq_refl eq_refl Hp Hq Htri Hsc)
      as (D1 & D2 & D3 & D4 & D5 & D6 & D7 & D8 & D9 & D10 & _).
    destruct (sc_unfold o L u UL a1 (dr a1) (dc a1) r vp vq t sc eq_refl eq_refl Htri Hsc)
      as (_ & _ & Hi1 & Hi2 & Eai & _).
    pose proof (perm_length _ _ Hp) as Lp. pose proof (perm_length _ _ Hq) as Lq.
    set (mr := dr a1 - r) in *. set (nr := dc a1 - r) in *.
    assert (Em : dr a1 = r + mr) by (subst mr; lia).
    assert (En : dc a1 = r + nr) by (subst nr; lia).
    set (ainv := sc_ainv sc) in *.
    assert (Wai : dwf ainv) by (rewrite Eai; dwfs).
    assert (Rai : dr ainv = r) by (rewrite Eai; reflexivity).
    assert (Cai : dc ainv = r) by (rewrite Eai; reflexivity).
    set (E := dvcat o (did o r) (dzero o nr r)).
    set (G := dhcat o ainv (dzero o r mr)).
    set (e1 := dmul o (col_perm_mat o vq) E).
    set (g2 := dmul o G (row_perm_mat o vp)).
    assert (Hfac : step_h o (dr a1) (dc a1) r vp vq sc = dmul o e1 g2).
    { unfold step_h, e1, g2. fold ainv mr nr.
      rewrite (dmul_assoc o L (col_perm_mat o vq) E) by (unfold E; autorewrite with ddim; rewrite Lq; lia).
      rewrite <- (dmul_assoc o L E G) by (unfold E, G; autorewrite with ddim; lia).
      unfold E. rewrite (blk_fac G r nr) by (unfold G; autorewrite with ddim; (dwfs || assumption)).
      unfold G. autorewrite with ddim. rewrite Cai. reflexivity. }
    assert (Hunit : dmul o g2 (dmul o a1 e1) = did o r).
    { unfold e1, g2.
      rewrite <- (dmul_assoc o L a1) by (autorewrite with ddim; now rewrite Lq).
      rewrite (dmul_assoc o L G) by (unfold G; autorewrite with ddim; rewrite Lp, Cai; lia).
      rewrite <- (dmul_assoc o L (row_perm_mat o vp)) by (autorewrite with ddim; now rewrite Lp).
      rewrite <- (permute_eq o L a1 (dr a1) (dc a1) vp vq eq_refl eq_refl Hp Hq).
      rewrite (A'_blocks o L u UL a1 (dr a1) (dc a1) r vp vq t sc eq_refl eq_refl Htri Hsc).
      fold mr nr. unfold G, E. apply blk_unit; try assumption.
      rewrite Eai. exact Hi2. }
    rewrite Em, En.
    refine (sdr_step_smith o L r mr nr a1 (sc_s sc) (step_f1 o (dc a1) r vq) (step_b1 o (dc a1) r vq sc)
              (step_f2 o (dr a1) r vp sc) (step_b2 o (dr a1) r vp) (step_h o (dr a1) (dc a1) r vp vq sc) e1 g2
              Em En Ws Rs Cs D1 (eq_trans D2 En) (eq_trans D3 En) D4 D5 (eq_trans D6 Em)
              (eq_trans D7 Em) D8 _ _ _ _ Hfc Hbc Hfb1 Hfb2
              (eq_trans Hh1 (f_equal (did o) En)) (eq_trans Hh2 (f_equal (did o) Em))
              (eq_trans Hfh (f_equal (dzero o nr) Em)) (eq_trans Hhb (f_equal (fun x => dzero o x mr) En))
              Hfac Hunit Hone k ds HS).
    - unfold e1, E. autorewrite with ddim. now rewrite Lq.
    - unfold e1, E. reflexivity.
    - unfold g2, G. autorewrite with ddim. exact Rai.
    - unfold g2. autorewrite with ddim. now rewrite Lp.
  Qed.
End StepSmith.
