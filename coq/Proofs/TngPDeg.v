(* Tangle layer, part 3: degrees of labels in the segment graph, simple components, the invariant of a glued
   tangle (components are simple paths / cycles with pairwise disjoint label sets), and what a degree bound
   (every label lies on at most two segment ends) says about a new arc. *)
From Coq Require Import List Arith Bool Lia Permutation.
Import ListNotations.
Require Import Yui.Model.Link Yui.Model.Tng Yui.Proofs.TngPBase Yui.Proofs.TngPSegs.

Definition ends_of (S : list (nat * nat)) : list nat := flat_map (fun ab => [fst ab; snd ab]) S.
Definition deg (S : list (nat * nat)) (v : nat) : nat := count_occ Nat.eq_dec (ends_of S) v.
Definition deg_le2 (S : list (nat * nat)) : Prop := forall v, deg S v <= 2.

(* a simple component: no repeated label; an arc has two labels at least, a circle one *)
Definition simple (p : path) : Prop :=
  NoDup (pedges p) /\ (if pclosed p then pedges p <> [] else 2 <= length (pedges p)).
Definition verts (t : list path) : list nat := flat_map pedges t.
Definition tng_inv (t : list path) : Prop := Forall simple t /\ NoDup (verts t).
Definition is_end (p : path) (v : nat) : Prop := v = hd 0 (pedges p) \/ v = last (pedges p) 0.

Lemma simple_ne : forall p, simple p -> pedges p <> [].
Proof. intros p [_ Hs]. destruct (pclosed p); auto. intros E. rewrite E in Hs. cbn in Hs. lia. Qed.
Lemma simple_pwf : forall p, simple p -> pwf p.
Proof. intros p Hs. right. apply simple_ne; auto. Qed.
Lemma inv_twf : forall t, tng_inv t -> twf t.
Proof. intros t [Hs _]. unfold twf. eapply Forall_impl; [|exact Hs]. apply simple_pwf. Qed.

(* ---------- ends_of / deg ---------- *)
Lemma ends_of_app : forall a b, ends_of (a ++ b) = ends_of a ++ ends_of b.
Proof. intros. apply flat_map_app. Qed.
Lemma deg_app : forall a b v, deg (a ++ b) v = deg a v + deg b v.
Proof. intros. unfold deg. rewrite ends_of_app, count_occ_app. reflexivity. Qed.
Lemma count_perm : forall (l l' : list nat) v, Permutation l l' ->
  count_occ Nat.eq_dec l v = count_occ Nat.eq_dec l' v.
Proof. intros l l' v Hp. apply (proj1 (Permutation_count_occ Nat.eq_dec l l') Hp). Qed.
Lemma deg_perm : forall a b v, Permutation a b -> deg a v = deg b v.
Proof.
  intros a b v Hp. unfold deg. apply count_perm. apply Permutation_flat_map. exact Hp.
Qed.
Lemma deg_le2_perm : forall a b, Permutation a b -> deg_le2 a -> deg_le2 b.
Proof. intros a b Hp Ha v. rewrite <- (deg_perm a b v Hp). apply Ha. Qed.
Lemma deg_le2_app_l : forall a b, deg_le2 (a ++ b) -> deg_le2 a.
Proof. intros a b Hd v. specialize (Hd v). rewrite deg_app in Hd. lia. Qed.
Lemma deg_le2_app_r : forall a b, deg_le2 (a ++ b) -> deg_le2 b.
Proof. intros a b Hd v. specialize (Hd v). rewrite deg_app in Hd. lia. Qed.

Lemma nseg_ends_perm : forall a b, Permutation [fst (nseg a b); snd (nseg a b)] [a; b].
Proof.
  intros a b. unfold nseg. cbn [fst snd]. destruct (Nat.le_gt_cases a b).
  - rewrite Nat.min_l, Nat.max_r by lia. apply Permutation_refl.
  - rewrite Nat.min_r, Nat.max_l by lia. apply perm_swap.
Qed.

Lemma ends_arc_segs : forall l, Permutation (ends_of (arc_segs l)) (removelast l ++ tl l).
Proof.
  induction l as [|a l IH]; [constructor|].
  destruct l as [|b l]; [constructor|].
  rewrite arc_segs_cons2. change (ends_of (nseg a b :: arc_segs (b :: l)))
    with ([fst (nseg a b); snd (nseg a b)] ++ ends_of (arc_segs (b :: l))).
  eapply perm_trans; [apply Permutation_app; [apply nseg_ends_perm|exact IH]|].
  change (removelast (a :: b :: l)) with (a :: removelast (b :: l)). cbn [tl app].
  constructor. apply Permutation_middle.
Qed.

Lemma ends_circ_segs : forall l, l <> [] -> Permutation (ends_of (circ_segs l)) (l ++ l).
Proof.
  intros [|x l] Hl; [contradiction|]. unfold circ_segs.
  eapply perm_trans; [apply ends_arc_segs|].
  rewrite removelast_last. cbn [app tl]. constructor. apply Permutation_app_head.
  apply Permutation_sym. apply Permutation_cons_append.
Qed.

Lemma ends_segs_in : forall p v, simple p -> (In v (ends_of (segs p)) <-> In v (pedges p)).
Proof.
  intros p v [Hn Hs]. unfold segs. destruct (pclosed p).
  - split; intros Hi.
    + apply (Permutation_in _ (ends_circ_segs _ Hs)) in Hi. apply in_app_or in Hi. tauto.
    + apply (Permutation_in _ (Permutation_sym (ends_circ_segs _ Hs))). apply in_or_app. auto.
  - split; intros Hi.
    + apply (Permutation_in _ (ends_arc_segs _)) in Hi. apply in_app_or in Hi.
      destruct Hi; [apply in_removelast|apply in_tl]; auto.
    + apply (Permutation_in _ (Permutation_sym (ends_arc_segs _))). apply in_or_app.
      destruct (pedges p) as [|a [|b l]]; cbn in Hs; try lia.
      destruct Hi as [<-|Hi]; [left; left; reflexivity|right; exact Hi].
Qed.

Lemma count_in_ge1 : forall (l : list nat) v, In v l -> 1 <= count_occ Nat.eq_dec l v.
Proof. intros l v Hi. apply (count_occ_In Nat.eq_dec) in Hi. lia. Qed.

Lemma deg_closed_ge2 : forall p v, simple p -> pclosed p = true -> In v (pedges p) -> 2 <= deg (segs p) v.
Proof.
  intros p v [Hn Hs] Hc Hi. rewrite Hc in Hs. unfold deg, segs. rewrite Hc.
  rewrite (count_perm _ (pedges p ++ pedges p)) by (apply ends_circ_segs; auto).
  rewrite count_occ_app. pose proof (count_in_ge1 _ _ Hi). lia.
Qed.

Lemma deg_arc_interior_ge2 : forall p v, pclosed p = false ->
  In v (removelast (pedges p)) -> In v (tl (pedges p)) -> 2 <= deg (segs p) v.
Proof.
  intros p v Hc H1 H2. unfold deg, segs. rewrite Hc.
  rewrite (count_perm _ (removelast (pedges p) ++ tl (pedges p))) by (apply ends_arc_segs).
  rewrite count_occ_app. pose proof (count_in_ge1 _ _ H1). pose proof (count_in_ge1 _ _ H2). lia.
Qed.

Lemma deg_ge1 : forall p v, simple p -> In v (pedges p) -> 1 <= deg (segs p) v.
Proof. intros p v Hs Hi. unfold deg. apply count_in_ge1. apply ends_segs_in; auto. Qed.

Lemma deg_tsegs_ge : forall t c v, In c t -> deg (segs c) v <= deg (tsegs t) v.
Proof.
  intros t c v Hc. destruct (in_split _ _ Hc) as (l1 & l2 & ->).
  rewrite (deg_perm _ _ v (tsegs_middle l1 c l2)), deg_app. lia.
Qed.

Lemma in_verts : forall t v, In v (verts t) <-> exists c, In c t /\ In v (pedges c).
Proof. intros. unfold verts. rewrite in_flat_map. tauto. Qed.

Lemma verts_ends : forall t v, Forall simple t -> (In v (verts t) <-> In v (ends_of (tsegs t))).
Proof.
  intros t v Hs. rewrite in_verts. unfold ends_of, tsegs. rewrite in_flat_map. split.
  - intros (c & Hc & Hv). rewrite Forall_forall in Hs. apply (ends_segs_in c v (Hs c Hc)) in Hv.
    unfold ends_of in Hv. rewrite in_flat_map in Hv. destruct Hv as (s & Hs1 & Hs2).
    exists s. split; auto. apply in_flat_map. eauto.
  - intros (s & Hs1 & Hs2). apply in_flat_map in Hs1. destruct Hs1 as (c & Hc & Hsc).
    exists c. split; auto. rewrite Forall_forall in Hs. apply (ends_segs_in c v (Hs c Hc)).
    unfold ends_of. apply in_flat_map. eauto.
Qed.

(* ---------- an arc: end or interior ---------- *)
Lemma end_or_interior : forall (l : list nat) v, In v l ->
  v = hd 0 l \/ v = last l 0 \/ (In v (removelast l) /\ In v (tl l)).
Proof.
  intros l v Hi. destruct (in_split_hd l v 0 Hi) as [E|Ht]; auto.
  destruct (in_split_last l v 0 Hi) as [Hr|E]; auto.
Qed.

(* ---------- what the degree bound says about a new component ---------- *)
Section Local.
  Variable t : list path.
  Variable a : path.
  Hypothesis Hinv : tng_inv t.
  Hypothesis Hdeg : deg_le2 (tsegs t ++ segs a).

  Lemma deg_split : forall v c, In c t -> deg (segs c) v + deg (segs a) v <= 2.
  Proof.
    intros v c Hc. specialize (Hdeg v). rewrite deg_app in Hdeg.
    pose proof (deg_tsegs_ge t c v Hc). lia.
  Qed.

  (* L1: an interior label of the new arc is a new label *)
  Lemma new_interior : forall v, pclosed a = false ->
    In v (removelast (pedges a)) -> In v (tl (pedges a)) -> ~ In v (verts t).
  Proof.
    intros v Ha H1 H2 Hv. apply in_verts in Hv. destruct Hv as (c & Hc & Hvc).
    destruct Hinv as [Hs _]. rewrite Forall_forall in Hs.
    pose proof (deg_arc_interior_ge2 a v Ha H1 H2). pose proof (deg_ge1 c v (Hs c Hc) Hvc).
    pose proof (deg_split v c Hc). lia.
  Qed.

  (* L2: a label of the new component that is already there is an end of an arc *)
  Lemma old_label_is_end : forall v c, simple a -> In v (pedges a) -> In c t -> In v (pedges c) ->
    pclosed c = false /\ is_end c v.
  Proof.
    intros v c Sa Hva Hc Hvc. destruct Hinv as [Hs _]. rewrite Forall_forall in Hs.
    pose proof (deg_ge1 a v Sa Hva). pose proof (deg_split v c Hc).
    destruct (pclosed c) eqn:Ec.
    - pose proof (deg_closed_ge2 c v (Hs c Hc) Ec Hvc). lia.
    - split; auto. destruct (end_or_interior _ _ Hvc) as [E|[E|[H1 H2]]]; [left; auto|right; auto|].
      pose proof (deg_arc_interior_ge2 c v Ec H1 H2). lia.
  Qed.

  (* L3: a new circle is disjoint from everything *)
  Lemma new_circle : forall v, simple a -> pclosed a = true -> In v (pedges a) -> ~ In v (verts t).
  Proof.
    intros v Sa Ha Hva Hv. apply in_verts in Hv. destruct Hv as (c & Hc & Hvc).
    destruct Hinv as [Hs _]. rewrite Forall_forall in Hs.
    pose proof (deg_closed_ge2 a v Sa Ha Hva). pose proof (deg_ge1 c v (Hs c Hc) Hvc).
    pose proof (deg_split v c Hc). lia.
  Qed.
End Local.

(* ---------- the invariant and positions ---------- *)
Lemma verts_app : forall a b, verts (a ++ b) = verts a ++ verts b.
Proof. intros. apply flat_map_app. Qed.
Lemma verts_perm : forall a b, Permutation a b -> Permutation (verts a) (verts b).
Proof. intros. apply Permutation_flat_map; auto. Qed.

Lemma inv_perm : forall a b, Permutation a b -> tng_inv a -> tng_inv b.
Proof.
  intros a b Hp [Hs Hn]. split.
  - rewrite Forall_forall in *. intros x Hx. apply Hs. eapply Permutation_in; [apply Permutation_sym; exact Hp|exact Hx].
  - eapply Permutation_NoDup; [apply verts_perm; exact Hp|exact Hn].
Qed.

Lemma inv_cons : forall c rest, tng_inv (c :: rest) <->
  simple c /\ tng_inv rest /\ (forall v, In v (pedges c) -> ~ In v (verts rest)).
Proof.
  intros c rest. unfold tng_inv. cbn [verts flat_map]. rewrite Forall_cons_iff. split.
  - intros [[Sc Sr] Hn]. apply NoDup_app_inv in Hn. destruct Hn as (N1 & N2 & Hd).
    split; [exact Sc|]. split; [split; assumption|]. intros v H1 H2. eapply Hd; eauto.
  - intros (Sc & [Sr Nr] & Hd). split; [split; assumption|].
    apply NoDup_app_intro; [apply Sc|exact Nr|]. intros x H1 H2. eapply Hd; eauto.
Qed.

Lemma inv_middle : forall l1 c l2, tng_inv (l1 ++ c :: l2) <->
  simple c /\ tng_inv (l1 ++ l2) /\ (forall v, In v (pedges c) -> ~ In v (verts (l1 ++ l2))).
Proof.
  intros. rewrite <- inv_cons. split; apply inv_perm.
  - apply Permutation_sym, Permutation_middle.
  - apply Permutation_middle.
Qed.

Lemma inv_nil : tng_inv [].
Proof. split; constructor. Qed.
