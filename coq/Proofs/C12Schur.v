(* Correctness of Model/Schur.v: the Schur complement s = d - c a^-1 b of a matrix with a triangular
   leading block, and the transfer maps. *)
From Coq Require Import Arith List Bool Lia Ring.
Require Import Yui.Base.Ring Yui.Base.MatF Yui.Model.Triang Yui.Model.Schur Yui.Proofs.C12Sparse Yui.Proofs.C12Triang.
Import ListNotations.

Section SchurProofs.
  Context {R : Type} (o : ring_ops R) (L : ring_laws o) (u : unit_ops R) (UL : unit_laws o u).

  Local Notation "0" := (rzero o).
  Local Notation "1" := (rone o).
  Local Infix "+" := (radd o).
  Local Infix "*" := (rmul o).
  Local Notation "- x" := (rneg o x).
  Add Ring Rring3 : (ring_theory_of_laws o L).

  (* ================= structure of from_entries ================= *)
  Lemma keys_ins_entry i v (c : scol R) : map fst (ins_entry o i v c) = nat_ins i (map fst c).
  Proof.
    induction c as [|[i' v'] r IH]; [reflexivity|]. cbn [ins_entry map fst nat_ins].
    destruct (i <? i'); [reflexivity|]. destruct (i =? i'); [reflexivity|]. cbn [map fst]. now rewrite IH.
  Qed.

  Definition key_step (j : nat) (acc : list nat) (e : nat * nat * R) : list nat :=
    if tcol e =? j then nat_ins (trow e) acc else acc.

  Lemma keys_coo_gen es j : forall c : scol R,
    map fst (fold_left (fun c e => if snd (fst e) =? j then ins_entry o (fst (fst e)) (snd e) c else c) es c)
    = fold_left (key_step j) es (map fst c).
  Proof.
    induction es as [|e es IH]; intros c; [reflexivity|]. cbn [fold_left]. rewrite IH. f_equal.
    unfold key_step, tcol, trow. destruct (snd (fst e) =? j); [apply keys_ins_entry|reflexivity].
  Qed.

  Lemma key_fold_sorted es j : forall acc, sorted_strict acc = true -> sorted_strict (fold_left (key_step j) es acc) = true.
  Proof.
    induction es as [|e es IH]; intros acc H; [assumption|]. cbn [fold_left]. apply IH.
    unfold key_step. destruct (tcol e =? j); [now apply nat_ins_sorted|assumption].
  Qed.

  Lemma key_fold_In es j k : forall acc,
    In k (fold_left (key_step j) es acc) <-> In k acc \/ exists e, In e es /\ tcol e = j /\ trow e = k.
  Proof.
    induction es as [|e es IH]; intros acc; cbn [fold_left].
    - split; [now left|]. intros [H|[e [[] _]]]. assumption.
    - rewrite IH. unfold key_step at 1. destruct (Nat.eqb_spec (tcol e) j) as [E|E].
      + rewrite nat_ins_In. split.
        * intros [[->|H]|[e' [He' H]]]; [right; exists e; cbn; tauto|now left|right; exists e'; cbn; tauto].
        * intros [H|[e' [[<-|He'] [H1 H2]]]]; [left; now right|left; left; now symmetry|right; exists e'; tauto].
      + split.
        * intros [H|[e' [He' H]]]; [now left|right; exists e'; cbn; tauto].
        * intros [H|[e' [[<-|He'] [H1 H2]]]]; [now left|contradiction|right; exists e'; tauto].
  Qed.

  Lemma from_entries_struct m n es a :
    from_entries o m n es = Some a ->
    (forall j, sorted_strict (map fst (col a j)) = true) /\
    (forall j k, In k (map fst (col a j)) -> k < m /\ j < n) /\
    (forall k j v, In (k, j, v) es -> v <> 0 -> j < n -> In k (map fst (col a j))).
  Proof.
    unfold from_entries. destruct (forallb _ _) eqn:Hb; [|discriminate]. intros H. injection H as <-.
    rewrite forallb_forall in Hb.
    set (es' := filter (fun e : nat * nat * R => nzb o (snd e)) es) in *.
    assert (Hcol : forall j, col (mk_spmat m n (map (coo_col o es') (seq 0 n))) j
                             = if j <? n then coo_col o es' j else []).
    { intros j. unfold col. cbn [cols]. destruct (Nat.ltb_spec j n); [now rewrite nth_map_seq|now rewrite nth_map_seq_over]. }
    assert (Hkeys : forall j, map fst (coo_col o es' j) = fold_left (key_step j) es' []).
    { intros j. unfold coo_col. now rewrite keys_coo_gen. }
    split; [|split].
    - intros j. rewrite Hcol. destruct (j <? n); [|reflexivity].
      rewrite Hkeys. apply key_fold_sorted. reflexivity.
    - intros j k. rewrite Hcol. destruct (Nat.ltb_spec j n) as [Hj|Hj]; [|intros []].
      rewrite Hkeys, key_fold_In. intros [[]|[e [He [E1 E2]]]].
      specialize (Hb e He). apply andb_true_iff in Hb. destruct Hb as [Hb _]. apply Nat.ltb_lt in Hb.
      unfold trow in E2. split; [lia|assumption].
    - intros k j v He Hv Hj. rewrite Hcol. replace (j <? n) with true by (symmetry; now apply Nat.ltb_lt).
      rewrite Hkeys, key_fold_In. right. exists (k, j, v). split; [|split; reflexivity].
      apply filter_In. split; [assumption|]. cbn [snd]. unfold nzb. apply negb_true_iff. now apply (ris_zero_false o L).
  Qed.

  Lemma from_entries_rows m n es a j e :
    from_entries o m n es = Some a -> In e (col a j) -> fst e < m.
  Proof.
    intros H He. destruct (from_entries_struct m n es a H) as [_ [Hr _]].
    apply (Hr j (fst e)). now apply in_map.
  Qed.

  (* ================= tsum algebra ================= *)
  Lemma tsum_filter (p : nat * nat * R -> bool) es i j :
    (forall e, In e es -> trow e = i -> tcol e = j -> p e = true) -> tsum o (filter p es) i j = tsum o es i j.
  Proof.
    induction es as [|e es IH]; intros H; [reflexivity|]. cbn [filter].
    specialize (IH (fun e' He' => H e' (or_intror He'))).
    destruct (p e) eqn:Ep; cbn [tsum]; rewrite IH; [reflexivity|].
    destruct (Nat.eqb_spec (fst (fst e)) i) as [E1|E1]; [|cbn; ring].
    destruct (Nat.eqb_spec (snd (fst e)) j) as [E2|E2]; [|cbn; ring].
    rewrite (H e (or_introl eq_refl) E1 E2) in Ep. discriminate.
  Qed.

  Lemma tsum_none es i j : (forall e, In e es -> ~ (trow e = i /\ tcol e = j)) -> tsum o es i j = 0.
  Proof.
    induction es as [|e es IH]; intros H; [reflexivity|]. cbn [tsum].
    rewrite IH by (intros e' He'; apply H; now right).
    destruct (Nat.eqb_spec (fst (fst e)) i) as [E1|E1]; [|cbn; ring].
    destruct (Nat.eqb_spec (snd (fst e)) j) as [E2|E2]; [|cbn; ring].
    exfalso. apply (H e (or_introl eq_refl)). now split.
  Qed.

  Lemma tsum_unshift di dj es i j :
    (forall e, In e es -> di <= trow e /\ dj <= tcol e) ->
    tsum o (map (fun t => (trow t - di, tcol t - dj, tval t)) es) i j = tsum o es (di + i) (dj + j).
  Proof.
    induction es as [|e es IH]; intros H; [reflexivity|]. cbn [map tsum fst snd].
    rewrite IH by (intros e' He'; apply H; now right).
    destruct (H e (or_introl eq_refl)) as [H1 H2]. unfold trow, tcol, tval in *.
    replace (fst (fst e) - di =? i) with (fst (fst e) =? di + i)
      by (destruct (Nat.eqb_spec (fst (fst e)) (di + i)), (Nat.eqb_spec (fst (fst e) - di) i); try reflexivity; lia).
    replace (snd (fst e) - dj =? j) with (snd (fst e) =? dj + j)
      by (destruct (Nat.eqb_spec (snd (fst e)) (dj + j)), (Nat.eqb_spec (snd (fst e) - dj) j); try reflexivity; lia).
    reflexivity.
  Qed.

  Lemma tsum_shift di dj es i j :
    tsum o (map (fun t => ((trow t + di)%nat, (tcol t + dj)%nat, tval t)) es) i j
    = if (di <=? i) && (dj <=? j) then tsum o es (i - di) (j - dj) else 0.
  Proof.
    induction es as [|e es IH]; cbn [map tsum fst snd]; [destruct (_ && _); reflexivity|].
    rewrite IH. unfold trow, tcol, tval.
    destruct (Nat.leb_spec di i) as [H1|H1], (Nat.leb_spec dj j) as [H2|H2]; cbn [andb].
    - replace (fst (fst e) + di =? i) with (fst (fst e) =? i - di)
        by (destruct (Nat.eqb_spec (fst (fst e)) (i - di)), (Nat.eqb_spec (fst (fst e) + di) i); try reflexivity; lia).
      replace (snd (fst e) + dj =? j) with (snd (fst e) =? j - dj)
        by (destruct (Nat.eqb_spec (snd (fst e)) (j - dj)), (Nat.eqb_spec (snd (fst e) + dj) j); try reflexivity; lia).
      reflexivity.
    - replace (snd (fst e) + dj =? j) with false by (symmetry; apply Nat.eqb_neq; lia).
      rewrite andb_false_r. ring.
    - replace (fst (fst e) + di =? i) with false by (symmetry; apply Nat.eqb_neq; lia). cbn. ring.
    - replace (fst (fst e) + di =? i) with false by (symmetry; apply Nat.eqb_neq; lia). cbn. ring.
  Qed.

  (* the entries (g t, h t, 1) for t < k with g, h injective-by-offset: the 0/1 matrices incl and proj *)
  Lemma tsum_ones_incl d k i j :
    tsum o (map (fun t => ((d + t)%nat, t, 1)) (seq 0 k)) i j = if (j <? k) && (i =? d + j) then 1 else 0.
  Proof.
    induction k as [|k IH]; [reflexivity|].
    rewrite seq_S, map_app, (tsum_app o L), IH. cbn [map tsum fst snd Nat.add].
    destruct (Nat.eqb_spec k j) as [->|Hkj].
    - replace (j <? j) with false by (symmetry; apply Nat.ltb_irrefl).
      replace (j <? S j) with true by (symmetry; apply Nat.ltb_lt; lia).
      rewrite (Nat.eqb_sym (d + j) i). cbn [andb]. destruct (i =? d + j); cbn; ring.
    - rewrite andb_false_r.
      replace (j <? S k) with (j <? k)
        by (destruct (Nat.ltb_spec j k), (Nat.ltb_spec j (S k)); try reflexivity; lia).
      ring.
  Qed.

  Lemma tsum_ones_proj d k i j :
    tsum o (map (fun t => (t, (d + t)%nat, 1)) (seq 0 k)) i j = if (i <? k) && (j =? d + i) then 1 else 0.
  Proof.
    induction k as [|k IH]; [reflexivity|].
    rewrite seq_S, map_app, (tsum_app o L), IH. cbn [map tsum fst snd Nat.add].
    destruct (Nat.eqb_spec k i) as [->|Hki].
    - replace (i <? i) with false by (symmetry; apply Nat.ltb_irrefl).
      replace (i <? S i) with true by (symmetry; apply Nat.ltb_lt; lia).
      rewrite (Nat.eqb_sym (d + i) j). cbn [andb]. destruct (j =? d + i); cbn; ring.
    - cbn [andb].
      replace (i <? S k) with (i <? k)
        by (destruct (Nat.ltb_spec i k), (Nat.ltb_spec i (S k)); try reflexivity; lia).
      ring.
  Qed.

  Lemma triplets_in (a : spmat R) i j v : In (i, j, v) (triplets a) -> j < ncols a /\ In (i, v) (col a j).
  Proof.
    unfold triplets. intros H. apply in_flat_map in H. destruct H as [j0 [Hj0 H]].
    apply in_map_iff in H. destruct H as [e [E He]]. injection E as <- <- <-.
    apply in_seq in Hj0. split; [lia|]. now destruct e.
  Qed.

  Lemma entry_out_of_rows (a : spmat R) i j : (forall e, In e (col a j) -> fst e < nrows a) -> nrows a <= i -> entry o a i j = 0.
  Proof.
    intros Hr Hi. unfold entry. apply (centry_notin o L). intros Hin. apply in_map_iff in Hin.
    destruct Hin as [e [<- He]]. specialize (Hr e He). lia.
  Qed.

  Lemma entry_out_of_cols (a : spmat R) i j : length (cols a) <= j -> entry o a i j = 0.
  Proof. intros H. unfold entry, col. now rewrite nth_overflow. Qed.

  (* ================= divide4 ================= *)
  Record blocks_of (abcd a b c d : spmat R) (r : nat) : Prop := {
    bo_a_shape : nrows a = r /\ ncols a = r;
    bo_b_shape : nrows b = r /\ ncols b = ncols abcd - r;
    bo_c_shape : nrows c = nrows abcd - r /\ ncols c = r;
    bo_d_shape : nrows d = nrows abcd - r /\ ncols d = ncols abcd - r;
    bo_a : forall i j, i < r -> j < r -> entry o a i j = entry o abcd i j;
    bo_b : forall i j, i < r -> j < ncols abcd - r -> entry o b i j = entry o abcd i (r + j);
    bo_c : forall i j, j < r -> entry o c i j = entry o abcd (r + i) j;
    bo_d : forall i j, j < ncols abcd - r -> entry o d i j = entry o abcd (r + i) (r + j);
    bo_sorted : forall x, In x [a; b; c; d] -> forall j, sorted_strict (map fst (col x j)) = true;
    bo_rows : forall x, In x [a; b; c; d] -> forall j e, In e (col x j) -> fst e < nrows x;
    bo_a_keys : forall j v, j < r -> In (j, v) (col abcd j) -> v <> 0 -> In j (map fst (col a j));
  }.

  Lemma divide4_spec (abcd : spmat R) r :
    wf abcd = true -> r <= nrows abcd -> r <= ncols abcd ->
    exists a b c d, divide4 o abcd r r = Some (a, b, c, d) /\ blocks_of abcd a b c d r.
  Proof.
    intros Hwf Hrm Hrn. unfold divide4.
    replace (r <=? nrows abcd) with true by (symmetry; now apply Nat.leb_le).
    replace (r <=? ncols abcd) with true by (symmetry; now apply Nat.leb_le). cbn [andb].
    set (ts := filter (fun t => nzb o (tval t)) (triplets abcd)).
    set (blk := fun rin cin : bool =>
                  filter (fun t => Bool.eqb (trow t <? r) rin && Bool.eqb (tcol t <? r) cin) ts).
    assert (Hts : forall t, In t ts -> trow t < nrows abcd /\ tcol t < ncols abcd).
    { intros [[i j] v] Ht. apply filter_In in Ht. destruct Ht as [Ht _]. apply triplets_in in Ht.
      destruct Ht as [Hj Hin]. cbn. split; [|assumption].
      exact (proj2 (wf_col_spec abcd j Hwf) (i, v) Hin). }
    assert (Hblk : forall rin cin t, In t (blk rin cin) ->
              In t ts /\ (trow t <? r) = rin /\ (tcol t <? r) = cin).
    { intros rin cin t Ht. apply filter_In in Ht. destruct Ht as [Ht Hb]. apply andb_true_iff in Hb.
      destruct Hb as [H1 H2]. apply eqb_prop in H1, H2. tauto. }
    assert (Hts_sum : forall i j, j < ncols abcd -> tsum o ts i j = entry o abcd i j).
    { intros i j Hj. unfold ts. change (fun t : nat * nat * R => nzb o (tval t)) with (fun e : nat * nat * R => nzb o (snd e)).
      now rewrite (tsum_filter_nz o L), (tsum_triplets o L). }
    assert (Hblk_sum : forall rin cin i j, (i <? r) = rin -> (j <? r) = cin -> tsum o (blk rin cin) i j = tsum o ts i j).
    { intros rin cin i j <- <-. apply tsum_filter. intros e _ -> ->. now rewrite !eqb_reflx. }
    (* the four conversions succeed *)
    destruct (from_entries_some o L r r (blk true true)) as [a Ea].
    { intros e He _. destruct (Hblk _ _ _ He) as [_ [H1 H2]]. apply Nat.ltb_lt in H1, H2. now split. }
    destruct (from_entries_some o L r (ncols abcd - r) (map (fun t => (trow t, tcol t - r, tval t)) (blk true false))) as [b Eb].
    { intros e He _. apply in_map_iff in He. destruct He as [t [<- Ht]]. destruct (Hblk _ _ _ Ht) as [Hin [H1 H2]].
      apply Nat.ltb_lt in H1. apply Nat.ltb_ge in H2. destruct (Hts t Hin). cbn. split; lia. }
    destruct (from_entries_some o L (nrows abcd - r) r (map (fun t => (trow t - r, tcol t, tval t)) (blk false true))) as [c Ec].
    { intros e He _. apply in_map_iff in He. destruct He as [t [<- Ht]]. destruct (Hblk _ _ _ Ht) as [Hin [H1 H2]].
      apply Nat.ltb_ge in H1. apply Nat.ltb_lt in H2. destruct (Hts t Hin). cbn. split; lia. }
    destruct (from_entries_some o L (nrows abcd - r) (ncols abcd - r)
                (map (fun t => (trow t - r, tcol t - r, tval t)) (blk false false))) as [d Ed].
    { intros e He _. apply in_map_iff in He. destruct He as [t [<- Ht]]. destruct (Hblk _ _ _ Ht) as [Hin [H1 H2]].
      apply Nat.ltb_ge in H1, H2. destruct (Hts t Hin). cbn. split; lia. }
    exists a, b, c, d. split.
    { pose proof Ea as Ea'. pose proof Eb as Eb'. pose proof Ec as Ec'. pose proof Ed as Ed'.
      unfold blk in Ea', Eb', Ec', Ed'. rewrite Ea'. cbn [obind]. rewrite Eb'. cbn [obind].
      rewrite Ec'. cbn [obind]. rewrite Ed'. reflexivity. }
    destruct (from_entries_spec o L _ _ _ _ Ea) as [Ha1 [Ha2 [_ Ha]]].
    destruct (from_entries_spec o L _ _ _ _ Eb) as [Hb1 [Hb2 [_ Hb]]].
    destruct (from_entries_spec o L _ _ _ _ Ec) as [Hc1 [Hc2 [_ Hc]]].
    destruct (from_entries_spec o L _ _ _ _ Ed) as [Hd1 [Hd2 [_ Hd]]].
    constructor; try (split; assumption).
    - intros i j Hi Hj. rewrite Ha by assumption.
      rewrite Hblk_sum by (now apply Nat.ltb_lt). apply Hts_sum. lia.
    - intros i j Hi Hj. rewrite Hb by assumption.
      rewrite (map_ext _ (fun t => (trow t - 0, tcol t - r, tval t))) by (intros t; now rewrite Nat.sub_0_r).
      rewrite tsum_unshift.
      + cbn [Nat.add]. rewrite Hblk_sum; [apply Hts_sum; lia|now apply Nat.ltb_lt|apply Nat.ltb_ge; lia].
      + intros e He. destruct (Hblk _ _ _ He) as [_ [_ H2]]. apply Nat.ltb_ge in H2. split; lia.
    - intros i j Hj. rewrite Hc by assumption.
      rewrite (map_ext _ (fun t => (trow t - r, tcol t - 0, tval t))) by (intros t; now rewrite Nat.sub_0_r).
      rewrite tsum_unshift.
      + cbn [Nat.add]. rewrite Hblk_sum; [apply Hts_sum; lia|apply Nat.ltb_ge; lia|now apply Nat.ltb_lt].
      + intros e He. destruct (Hblk _ _ _ He) as [_ [H1 _]]. apply Nat.ltb_ge in H1. split; lia.
    - intros i j Hj. rewrite Hd by assumption. rewrite tsum_unshift.
      + rewrite Hblk_sum; [apply Hts_sum; lia|apply Nat.ltb_ge; lia|apply Nat.ltb_ge; lia].
      + intros e He. destruct (Hblk _ _ _ He) as [_ [H1 H2]]. apply Nat.ltb_ge in H1, H2. split; lia.
    - intros x Hx j. cbn [In] in Hx.
      destruct Hx as [<-|[<-|[<-|[<-|[]]]]];
        [apply (from_entries_struct _ _ _ _ Ea)|apply (from_entries_struct _ _ _ _ Eb)
        |apply (from_entries_struct _ _ _ _ Ec)|apply (from_entries_struct _ _ _ _ Ed)].
    - intros x Hx j e He. cbn [In] in Hx.
      destruct Hx as [<-|[<-|[<-|[<-|[]]]]].
      + rewrite Ha1. exact (from_entries_rows _ _ _ _ _ _ Ea He).
      + rewrite Hb1. exact (from_entries_rows _ _ _ _ _ _ Eb He).
      + rewrite Hc1. exact (from_entries_rows _ _ _ _ _ _ Ec He).
      + rewrite Hd1. exact (from_entries_rows _ _ _ _ _ _ Ed He).
    - intros j v Hj Hin Hv. destruct (from_entries_struct _ _ _ _ Ea) as [_ [_ Hk]].
      apply (Hk j j v); [|assumption|assumption].
      apply filter_In. split.
      + apply filter_In. split; [apply (in_triplets abcd j (j, v)); [lia|assumption]|].
        cbn. unfold nzb. apply negb_true_iff. now apply (ris_zero_false o L).
      + unfold trow, tcol. cbn [fst snd]. replace (j <? r) with true by (symmetry; now apply Nat.ltb_lt). reflexivity.
  Qed.

  (* ================= SpMat * SpVec and SpVec - SpVec ================= *)
  Lemma centry_tabulate (g : nat -> R) (pat : list nat) i :
    NoDup pat -> centry o (map (fun i => (i, g i)) pat) i = if in_dec Nat.eq_dec i pat then g i else 0.
  Proof.
    induction pat as [|k pat IH]; intros Hnd; [reflexivity|]. inversion Hnd as [|? ? Hk Hnd']; subst.
    cbn [map centry fst snd]. rewrite IH by assumption.
    destruct (Nat.eqb_spec k i) as [->|Hne].
    - destruct (in_dec Nat.eq_dec i (i :: pat)) as [_|Hc]; [|exfalso; apply Hc; now left].
      destruct (in_dec Nat.eq_dec i pat) as [Hc|_]; [contradiction|]. ring.
    - destruct (in_dec Nat.eq_dec i pat) as [Hin|Hnin].
      + destruct (in_dec Nat.eq_dec i (k :: pat)) as [_|Hc]; [ring|exfalso; apply Hc; now right].
      + destruct (in_dec Nat.eq_dec i (k :: pat)) as [[Hc|Hc]|_]; [congruence|contradiction|ring].
  Qed.

  Lemma list_sum_centry n (f : nat -> R) (v : scol R) :
    (forall e, In e v -> fst e < n) ->
    list_sum o (map (fun e => f (fst e) * snd e) v) = sum o n (fun k => f k * centry o v k).
  Proof.
    induction v as [|e v IH]; intros H.
    - cbn. symmetry. apply (sum_zero_ext o L). intros; ring.
    - cbn [map list_sum fold_right centry]. fold (list_sum o (map (fun e => f (fst e) * snd e) v)).
      rewrite IH by (intros e' He'; apply H; now right).
      symmetry.
      rewrite (sum_ext o n (fun k => f k * ((if fst e =? k then snd e else 0) + centry o v k))
                           (fun k => (if k =? fst e then f k * snd e else 0) + f k * centry o v k)).
      + rewrite (sum_add o L), (sum_delta o L) by (apply H; now left). reflexivity.
      + intros k _. rewrite (Nat.eqb_sym (fst e) k). destruct (k =? fst e); ring.
  Qed.

  Definition pat_step (c : spmat R) (acc : list nat) (e : nat * R) : list nat :=
    nat_union acc (map fst (col c (fst e))).

  Lemma pat_fold_sorted c v : forall acc, sorted_strict acc = true -> sorted_strict (fold_left (pat_step c) v acc) = true.
  Proof.
    induction v as [|e v IH]; intros acc H; [assumption|]. cbn [fold_left]. apply IH. now apply nat_union_sorted.
  Qed.

  Lemma pat_fold_In c v i : forall acc,
    In i (fold_left (pat_step c) v acc) <-> In i acc \/ exists e, In e v /\ In i (map fst (col c (fst e))).
  Proof.
    induction v as [|e v IH]; intros acc; cbn [fold_left].
    - split; [now left|]. intros [H|[e [[] _]]]. assumption.
    - rewrite IH. unfold pat_step at 1. rewrite nat_union_In. split.
      + intros [[H|H]|[e' [He' H]]]; [now left|right; exists e; cbn; tauto|right; exists e'; cbn; tauto].
      + intros [H|[e' [[<-|He'] H]]]; [left; now left|left; now right|right; exists e'; tauto].
  Qed.

  Lemma spmv_spec (c : spmat R) (v : svec R) :
    ncols c = fst v -> (forall e, In e (snd v) -> fst e < ncols c) ->
    exists x, spmv o c v = Some (nrows c, x) /\
      forall i, centry o x i = sum o (ncols c) (fun k => entry o c i k * centry o (snd v) k).
  Proof.
    intros Hd Hr. unfold spmv. rewrite Hd, Nat.eqb_refl. eexists. split; [reflexivity|].
    intros i. fold (pat_step c).
    set (g := fun i => list_sum o (map (fun e => centry o (col c (fst e)) i * snd e) (snd v))).
    rewrite (centry_tabulate g) by (apply sorted_strict_NoDup, pat_fold_sorted; reflexivity).
    assert (Hg : g i = sum o (fst v) (fun k => entry o c i k * centry o (snd v) k)).
    { unfold g. rewrite <- Hd. apply (list_sum_centry (ncols c) (fun k => centry o (col c k) i)). exact Hr. }
    destruct (in_dec Nat.eq_dec i _) as [_|Hn]; [exact Hg|].
    rewrite <- Hg. unfold g. symmetry.
    assert (Hz : forall l : scol R, (forall e, In e l -> In e (snd v)) ->
                 list_sum o (map (fun e => centry o (col c (fst e)) i * snd e) l) = 0).
    { induction l as [|e l IHl]; intros Hl; [reflexivity|]. cbn [map list_sum fold_right].
      fold (list_sum o (map (fun e => centry o (col c (fst e)) i * snd e) l)).
      rewrite IHl by (intros; apply Hl; now right).
      rewrite (centry_notin o L (col c (fst e)) i); [ring|].
      intros Hin. apply Hn. apply pat_fold_In. right. exists e. split; [apply Hl; now left|assumption]. }
    apply Hz. auto.
  Qed.

  Lemma spv_sub_spec (y x : svec R) : fst y = fst x -> sorted_strict (map fst (snd y)) = true ->
    exists z, spv_sub o y x = Some (fst y, z) /\ forall i, centry o z i = ventry o y i + - ventry o x i.
  Proof.
    intros Hd Hs. unfold spv_sub. rewrite Hd, Nat.eqb_refl. eexists. split; [reflexivity|]. intros i.
    rewrite (centry_tabulate (fun i => rsub o (centry o (snd y) i) (centry o (snd x) i))).
    - unfold ventry, rsub. destruct (in_dec Nat.eq_dec i _) as [_|Hn]; [reflexivity|].
      rewrite nat_union_In in Hn.
      rewrite (centry_notin o L (snd y) i), (centry_notin o L (snd x) i) by tauto. ring.
    - apply sorted_strict_NoDup. now apply nat_union_sorted.
  Qed.

  (* ================= compute_schur ================= *)
  Lemma compute_schur_spec (ainvb c d : spmat R) r :
    nrows ainvb = r -> ncols c = r -> ncols ainvb = ncols d -> nrows c = nrows d ->
    (forall j e, In e (col ainvb j) -> fst e < r) ->
    (forall j, sorted_strict (map fst (col d j)) = true) ->
    exists s, compute_schur o ainvb c d = Some s /\ nrows s = nrows d /\ ncols s = ncols d /\
      forall i j, j < ncols d ->
        entry o s i j = entry o d i j + - sum o r (fun k => entry o c i k * entry o ainvb k j).
  Proof.
    intros Hxr Hcc Hxc Hcr Hrows Hsorted. unfold compute_schur.
    set (f := fun j => if j <? ncols ainvb
                       then obind (spmv o c (col_vec o ainvb j)) (fun x => spv_sub o (col_vec o d j) x)
                       else None).
    set (g := fun j => match f j with Some v => v | None => (O, []) end).
    assert (Hf : forall j, j < ncols d -> f j = Some (g j) /\ fst (g j) = nrows d /\
              forall i, ventry o (g j) i = entry o d i j + - sum o r (fun k => entry o c i k * entry o ainvb k j)).
    { intros j Hj. unfold g, f. replace (j <? ncols ainvb) with true by (symmetry; apply Nat.ltb_lt; lia).
      destruct (spmv_spec c (col_vec o ainvb j)) as [x [Ex Hx]].
      - cbn [col_vec fst]. lia.
      - cbn [col_vec snd]. intros e He. apply filter_In in He. rewrite Hcc. apply (Hrows j). tauto.
      - rewrite Ex. cbn [obind].
        destruct (spv_sub_spec (col_vec o d j) (nrows c, x)) as [z [Ez Hz]].
        + cbn [col_vec fst]. lia.
        + cbn [col_vec snd]. apply sorted_filter_keys, Hsorted.
        + rewrite Ez. cbn [col_vec fst]. split; [reflexivity|]. split; [reflexivity|].
          intros i. unfold ventry at 1. cbn [snd]. rewrite Hz. unfold ventry. cbn [col_vec snd].
          rewrite (centry_filter_nz o L), Hx, Hcc. f_equal. f_equal. apply sum_ext. intros k _.
          cbn [col_vec snd]. now rewrite (centry_filter_nz o L). }
    rewrite (omap_map f g) by (intros j Hj; apply in_seq in Hj; apply Hf; lia).
    cbn [obind]. unfold from_col_vecs. destruct (forallb _ _) eqn:Hb.
    - eexists. split; [reflexivity|]. cbn [nrows ncols cols]. rewrite map_length, seq_length.
      split; [reflexivity|]. split; [reflexivity|]. intros i j Hj. destruct (Hf j Hj) as [_ [_ H]]. rewrite <- H.
      unfold entry, ventry, col. cbn [cols]. now rewrite map_map, nth_map_seq.
    - exfalso. apply Bool.not_true_iff_false in Hb. apply Hb. apply forallb_forall. intros v Hv.
      apply in_map_iff in Hv. destruct Hv as [j [<- Hj]]. apply in_seq in Hj. apply Nat.eqb_eq.
      now destruct (Hf j ltac:(lia)) as [_ [H _]].
  Qed.

  (* ================= the 0/1 matrices and the block matrices of the transfer maps ================= *)
  Lemma sp_proj_spec n k : k <= n ->
    exists f, sp_proj o n k = Some f /\ nrows f = k /\ ncols f = n /\
      forall i j, i < k -> j < n -> entry o f i j = if j =? (n - k) + i then 1 else 0.
  Proof.
    intros Hk. unfold sp_proj.
    destruct (from_entries_some o L k n (map (fun i => (i, (n - k + i)%nat, 1)) (seq 0 k))) as [f Ef].
    { intros e He _. apply in_map_iff in He. destruct He as [t [<- Ht]]. apply in_seq in Ht. cbn. lia. }
    exists f. split; [exact Ef|]. destruct (from_entries_spec o L _ _ _ _ Ef) as [H1 [H2 [_ He]]].
    split; [exact H1|]. split; [exact H2|]. intros i j Hi Hj. rewrite He by assumption.
    rewrite tsum_ones_proj. replace (i <? k) with true by (symmetry; now apply Nat.ltb_lt). reflexivity.
  Qed.

  Lemma sp_incl_spec n k : k <= n ->
    exists f, sp_incl o n k = Some f /\ nrows f = n /\ ncols f = k /\
      forall i j, i < n -> j < k -> entry o f i j = if i =? (n - k) + j then 1 else 0.
  Proof.
    intros Hk. unfold sp_incl.
    destruct (from_entries_some o L n k (map (fun i => ((n - k + i)%nat, i, 1)) (seq 0 k))) as [f Ef].
    { intros e He _. apply in_map_iff in He. destruct He as [t [<- Ht]]. apply in_seq in Ht. cbn. lia. }
    exists f. split; [exact Ef|]. destruct (from_entries_spec o L _ _ _ _ Ef) as [H1 [H2 [_ He]]].
    split; [exact H1|]. split; [exact H2|]. intros i j Hi Hj. rewrite He by assumption.
    rewrite tsum_ones_incl. replace (j <? k) with true by (symmetry; now apply Nat.ltb_lt). reflexivity.
  Qed.

  Lemma triplets_zero_cols m : triplets (@sp_zero R m 0) = [].
  Proof. reflexivity. Qed.

  (* stack x on top of the identity *)
  Lemma sp_stack_id_spec (x : spmat R) k :
    ncols x = k -> (forall j e, In e (col x j) -> fst e < nrows x) ->
    exists b, sp_stack o x (sp_id o k) = Some b /\ nrows b = (nrows x + k)%nat /\ ncols b = k /\
      forall i j, i < nrows x + k -> j < k ->
        entry o b i j = if i <? nrows x then entry o x i j else mid o (i - nrows x) j.
  Proof.
    intros Hc Hrows. unfold sp_stack, combine_blocks.
    cbn [sp_zero nrows ncols sp_id]. rewrite !Nat.eqb_refl, Hc, Nat.eqb_refl. cbn [andb].
    rewrite !triplets_zero_cols. cbn [map app]. rewrite app_nil_r.
    set (es := map _ (triplets x) ++ map _ (triplets (sp_id o k))).
    destruct (from_entries_some o L (nrows x + k) (k + 0) es) as [b Eb].
    { intros e He _. unfold es in He. apply in_app_iff in He. destruct He as [He|He];
        apply in_map_iff in He; destruct He as [[[i j] v] [<- Ht]]; apply triplets_in in Ht; destruct Ht as [Hj Hin]; cbn.
      - specialize (Hrows j (i, v) Hin). cbn in Hrows. lia.
      - cbn [sp_id ncols] in Hj. rewrite (col_id o) in Hin.
        replace (j <? k) with true in Hin by (symmetry; now apply Nat.ltb_lt).
        destruct Hin as [E|[]]. injection E as <- _. lia. }
    exists b. split; [exact Eb|]. destruct (from_entries_spec o L _ _ _ _ Eb) as [H1 [H2 [_ He]]].
    split; [exact H1|]. split; [lia|]. intros i j Hi Hj. rewrite He by lia.
    unfold es. rewrite (tsum_app o L), !tsum_shift. cbn [Nat.leb andb]. rewrite !Nat.sub_0_r, andb_true_r.
    rewrite (tsum_triplets o L) by lia.
    destruct (Nat.ltb_spec i (nrows x)) as [Hlt|Hge].
    - replace (nrows x <=? i) with false by (symmetry; apply Nat.leb_gt; lia). ring.
    - replace (nrows x <=? i) with true by (symmetry; now apply Nat.leb_le).
      rewrite (tsum_triplets o L) by (cbn; lia). rewrite (entry_id o L) by assumption.
      rewrite (entry_out_of_rows x i j) by (auto; apply Hrows). ring.
  Qed.

  (* [x | identity] *)
  Lemma extend_cols_id_spec (x : spmat R) k :
    nrows x = k -> length (cols x) = ncols x ->
    exists f, extend_cols x (sp_id o k) = Some f /\ nrows f = k /\ ncols f = (ncols x + k)%nat /\
      forall i j, i < k -> entry o f i j = if j <? ncols x then entry o x i j else
                                          if j <? ncols x + k then mid o i (j - ncols x) else 0.
  Proof.
    intros Hr Hl. unfold extend_cols. cbn [sp_id nrows ncols]. rewrite Hr, Nat.eqb_refl.
    destruct (Nat.eqb_spec k 0) as [->|Hk].
    - exists x. split; [reflexivity|]. split; [exact Hr|]. split; [lia|]. intros i j Hi. lia.
    - eexists. split; [reflexivity|]. cbn [nrows ncols]. split; [reflexivity|]. split; [reflexivity|].
      intros i j Hi. unfold entry, col. cbn [cols sp_id].
      destruct (Nat.ltb_spec j (ncols x)) as [Hj|Hj].
      + now rewrite app_nth1 by lia.
      + rewrite app_nth2 by lia. rewrite Hl.
        destruct (Nat.ltb_spec j (ncols x + k)) as [Hj2|Hj2].
        * rewrite nth_map_seq by lia. cbn. unfold mid. rewrite (Nat.eqb_sym (j - ncols x) i).
          destruct (i =? j - ncols x); ring.
        * rewrite nth_map_seq_over by lia. reflexivity.
  Qed.

  (* ================= algebra ================= *)
  Lemma unit_cancel a ui w : a * ui = 1 -> a * w = 0 -> w = 0.
  Proof.
    intros Hu Hw. transitivity (w * (a * ui)); [rewrite Hu; ring|].
    transitivity ((a * w) * ui); [ring|]. rewrite Hw. ring.
  Qed.

  (* a triangular system with unit diagonal has at most one solution *)
  Lemma tri_inj (upper : bool) r (A : mat R) (w : nat -> R) :
    (forall j, j < r -> exists ui, A j j * ui = 1) ->
    (forall i j, i < r -> j < r -> (if upper then j < i else i < j) -> A i j = 0) ->
    (forall i, i < r -> sum o r (fun k => A i k * w k) = 0) ->
    forall k, k < r -> w k = 0.
  Proof.
    intros Hu Ht Hs.
    assert (Step : forall k, k < r -> (forall l, l < r -> l <> k -> A k l = 0 \/ w l = 0) -> w k = 0).
    { intros k Hk Hl. destruct (Hu k Hk) as [ui Hui]. apply (unit_cancel (A k k) ui); [assumption|].
      rewrite <- (Hs k Hk). symmetry. apply (sum_single o L r k (fun l => A k l * w l) Hk).
      intros l Hlr Hne. destruct (Hl l Hlr Hne) as [E|E]; rewrite E; ring. }
    destruct upper.
    - assert (G : forall d k, k < r -> r <= k + d -> w k = 0).
      { induction d as [|d IH]; intros k Hk Hd; [lia|]. apply Step; [assumption|].
        intros l Hl Hne. destruct (lt_dec l k) as [Hlt|Hge]; [left; now apply Ht|right; apply IH; lia]. }
      intros k Hk. apply (G r k Hk). lia.
    - assert (G : forall d k, k < d -> k < r -> w k = 0).
      { induction d as [|d IH]; intros k Hkd Hk; [lia|]. apply Step; [assumption|].
        intros l Hl Hne. destruct (lt_dec l k) as [Hlt|Hge]; [right; apply IH; lia|left; apply Ht; lia]. }
      intros k Hk. apply (G (S k) k); lia.
  Qed.

  Lemma sum_pick n i (f : nat -> R) g :
    i < n -> (forall k, k < n -> f k = if k =? i then g else 0) -> sum o n f = g.
  Proof.
    intros Hi H. rewrite (sum_ext o n f (fun k => if k =? i then g else 0)) by exact H.
    now rewrite (sum_delta o L n i (fun _ => g)).
  Qed.

  Section Algebra.
    Variables (r p q : nat) (M X Zm S Fs Bs Ft Bt : mat R).
    Hypothesis HAX : forall i j, i < r -> j < q -> sum o r (fun k => M i k * X k j) = M i (r + j)%nat.
    Hypothesis HZA : forall i j, i < p -> j < r -> sum o r (fun k => Zm i k * M k j) = M (r + i)%nat j.
    Hypothesis HS : forall i j, i < p -> j < q ->
      S i j = M (r + i)%nat (r + j)%nat + - sum o r (fun k => M (r + i)%nat k * X k j).
    Hypothesis HFs : forall i j, i < q -> j < r + q -> Fs i j = if j =? r + i then 1 else 0.
    Hypothesis HBs : forall i j, i < r + q -> j < q -> Bs i j = if i <? r then - X i j else mid o (i - r) j.
    Hypothesis HFt : forall i j, i < p -> j < r + p -> Ft i j = if j <? r then - Zm i j else mid o i (j - r).
    Hypothesis HBt : forall i j, i < r + p -> j < p -> Bt i j = if i =? r + j then 1 else 0.

    Lemma FtM i l : i < p -> l < r + q ->
      mmul o (r + p) Ft M i l = - sum o r (fun k => Zm i k * M k l) + M (r + i)%nat l.
    Proof.
      intros Hi Hl. unfold mmul. rewrite (sum_split o L). f_equal.
      - rewrite <- (sum_neg o L). apply sum_ext. intros k Hk. rewrite HFt by lia.
        replace (k <? r) with true by (symmetry; now apply Nat.ltb_lt). ring.
      - apply (sum_pick p i); [assumption|]. intros k Hk. rewrite HFt by lia.
        replace (r + k <? r) with false by (symmetry; apply Nat.ltb_ge; lia).
        replace (r + k - r)%nat with k by lia. unfold mid. rewrite (Nat.eqb_sym i k).
        destruct (Nat.eqb_spec k i) as [->|Hne]; ring.
    Qed.

    Lemma schur_transfer : meq p q (mmul o (r + q) (mmul o (r + p) Ft M) Bs) S.
    Proof.
      intros i j Hi Hj. unfold mmul at 1. rewrite (sum_split o L).
      rewrite (sum_zero_ext o L r).
      2:{ intros l Hl. rewrite FtM by lia. rewrite HZA by assumption. ring. }
      rewrite (sum_pick q j _ (mmul o (r + p) Ft M i (r + j)%nat)); [|assumption|].
      2:{ intros k Hk. rewrite HBs by lia.
          replace (r + k <? r) with false by (symmetry; apply Nat.ltb_ge; lia).
          replace (r + k - r)%nat with k by lia. unfold mid.
          destruct (Nat.eqb_spec k j) as [->|Hne]; ring. }
      rewrite FtM by lia. rewrite HS by assumption.
      (* z b = z (a x) = (z a) x = c x *)
      assert (E : sum o r (fun k => Zm i k * M k (r + j)%nat) = sum o r (fun k => M (r + i)%nat k * X k j)).
      { rewrite (sum_ext o r _ (fun k => sum o r (fun l => Zm i k * M k l * X l j))).
        2:{ intros k Hk. rewrite <- HAX by assumption. rewrite <- (sum_scal_l o L). apply sum_ext. intros; ring. }
        rewrite (sum_swap o L). apply sum_ext. intros l Hl. rewrite <- HZA by assumption.
        rewrite <- (sum_scal_r o L). reflexivity. }
      rewrite E. ring.
    Qed.

    Lemma src_retract : meq q q (mmul o (r + q) Fs Bs) (mid o).
    Proof.
      intros i j Hi Hj. unfold mmul. apply (sum_pick (r + q) (r + i)); [lia|].
      intros k Hk. rewrite HFs by lia. destruct (Nat.eqb_spec k (r + i)) as [->|Hne]; [|ring].
      rewrite HBs by lia. replace (r + i <? r) with false by (symmetry; apply Nat.ltb_ge; lia).
      replace (r + i - r)%nat with i by lia. ring.
    Qed.

    Lemma tgt_retract : meq p p (mmul o (r + p) Ft Bt) (mid o).
    Proof.
      intros i j Hi Hj. unfold mmul. apply (sum_pick (r + p) (r + j)); [lia|].
      intros k Hk. rewrite HBt by lia. destruct (Nat.eqb_spec k (r + j)) as [->|Hne]; [|ring].
      rewrite HFt by lia. replace (r + j <? r) with false by (symmetry; apply Nat.ltb_ge; lia).
      replace (r + j - r)%nat with j by lia. ring.
    Qed.

    (* s = d - c a^-1 b for every right inverse a^-1 of the leading block *)
    Lemma schur_formula (upper : bool) (Ainv : mat R) :
      (forall j, j < r -> exists ui, M j j * ui = 1) ->
      (forall i j, i < r -> j < r -> (if upper then j < i else i < j) -> M i j = 0) ->
      meq r r (mmul o r M Ainv) (mid o) ->
      forall i j, i < p -> j < q ->
        S i j = M (r + i)%nat (r + j)%nat
                + - sum o r (fun k => M (r + i)%nat k * sum o r (fun l => Ainv k l * M l (r + j)%nat)).
    Proof.
      intros Hu Ht Hinv i j Hi Hj. rewrite HS by assumption. f_equal. f_equal. apply sum_ext. intros k Hk. f_equal.
      (* x = a^-1 b by uniqueness *)
      set (w := fun k => X k j + - sum o r (fun l => Ainv k l * M l (r + j)%nat)).
      assert (Hw : forall k, k < r -> w k = 0).
      { apply (tri_inj upper r M w Hu Ht). intros i0 Hi0. unfold w.
        rewrite (sum_ext o r _ (fun k0 => M i0 k0 * X k0 j + - (M i0 k0 * sum o r (fun l => Ainv k0 l * M l (r + j)%nat))))
          by (intros; ring).
        rewrite (sum_add o L), (sum_neg o L), HAX by assumption.
        rewrite (sum_ext o r (fun k0 => M i0 k0 * sum o r (fun l => Ainv k0 l * M l (r + j)%nat))
                             (fun k0 => sum o r (fun l => M i0 k0 * Ainv k0 l * M l (r + j)%nat))).
        2:{ intros k0 _. rewrite <- (sum_scal_l o L). apply sum_ext. intros; ring. }
        rewrite (sum_swap o L).
        rewrite (sum_ext o r _ (fun l => mid o i0 l * M l (r + j)%nat)).
        2:{ intros l Hl. rewrite <- (Hinv i0 l Hi0 Hl). unfold mmul. rewrite <- (sum_scal_r o L). reflexivity. }
        change (sum o r (fun l => mid o i0 l * M l (r + j)%nat)) with (mmul o r (mid o) M i0 (r + j)%nat).
        rewrite (mmul_id_l o L) by assumption. ring. }
      specialize (Hw k Hk). unfold w in Hw.
      transitivity (X k j + - sum o r (fun l => Ainv k l * M l (r + j)%nat) + sum o r (fun l => Ainv k l * M l (r + j)%nat)); [ring|].
      rewrite Hw. ring.
    Qed.
  End Algebra.
End SchurProofs.
