(* Tangle layer, part 2: for ALL inputs (malformed ones included) every Tng operation that returns preserves the
   multiset of segments: normalize / Tng::new, append_arc, connect, from_resolved. *)
From Coq Require Import List Arith Bool Lia Permutation.
Import ListNotations.
Require Import Yui.Model.Link Yui.Model.Tng Yui.Proofs.TngPBase.

Definition tsegs (t : list path) : list (nat * nat) := flat_map segs t.
Definition twf (t : list path) : Prop := Forall pwf t.

(* ---------- the stable sort is a permutation ---------- *)
Lemma ins_perm : forall x l, Permutation (ins x l) (x :: l).
Proof.
  intros x l. induction l as [|y r IH]; cbn [ins]; [constructor; constructor|].
  destruct (comp_le x y); [apply Permutation_refl|].
  eapply perm_trans; [apply perm_skip; exact IH|apply perm_swap].
Qed.
Lemma isort_perm : forall l, Permutation (isort l) l.
Proof.
  induction l as [|x l IH]; [constructor|]. cbn [isort fold_right].
  eapply perm_trans; [apply ins_perm|]. constructor. exact IH.
Qed.
Lemma tng_sort_perm : forall cs t, tng_sort cs = Some t -> Permutation t cs.
Proof.
  intros cs t. unfold tng_sort. destruct (sort_panics cs); [discriminate|].
  intros E. inversion E. apply isort_perm.
Qed.
Lemma tng_sort_eq : forall cs t, tng_sort cs = Some t -> t = isort cs.
Proof. intros cs t. unfold tng_sort. destruct (sort_panics cs); congruence. Qed.

Lemma tsegs_perm : forall a b, Permutation a b -> Permutation (tsegs a) (tsegs b).
Proof. intros. apply Permutation_flat_map; auto. Qed.
Lemma tsegs_app : forall a b, tsegs (a ++ b) = tsegs a ++ tsegs b.
Proof. intros. apply flat_map_app. Qed.
Lemma twf_perm : forall a b, Permutation a b -> twf a -> twf b.
Proof. intros a b Hp Ha. eapply Permutation_Forall; eauto. Qed.

(* ---------- positions ---------- *)
Lemma find_index_split : forall (f : path -> bool) t i, find_index f t = Some i ->
  exists l1 c l2, t = l1 ++ c :: l2 /\ length l1 = i /\ f c = true /\ (forall x, In x l1 -> f x = false).
Proof.
  intros f. induction t as [|x t IH]; intros i; cbn [find_index]; [discriminate|].
  destruct (f x) eqn:Fx.
  - intros E. inversion E. exists [], x, t. repeat split; auto. intros y [].
  - destruct (find_index f t) as [k|] eqn:Ek; [|discriminate]. cbn. intros E. inversion E.
    destruct (IH k eq_refl) as (l1 & c & l2 & -> & Hl & Fc & Hall).
    exists (x :: l1), c, l2. repeat split; cbn; auto.
    intros y [<-|Hy]; auto.
Qed.
Lemma find_index_none : forall (f : path -> bool) t, find_index f t = None -> forall x, In x t -> f x = false.
Proof.
  intros f. induction t as [|y t IH]; cbn [find_index]; [intros _ x []|].
  destruct (f y) eqn:Fy; [discriminate|].
  destruct (find_index f t); [discriminate|]. intros _ x [<-|Hx]; auto.
Qed.

Lemma nth_middle' : forall (l1 : list path) c l2 d, nth (length l1) (l1 ++ c :: l2) d = c.
Proof. intros. apply nth_middle. Qed.
Lemma set_nth_middle : forall (l1 : list path) c c' l2, set_nth (length l1) c' (l1 ++ c :: l2) = l1 ++ c' :: l2.
Proof. induction l1 as [|x l1 IH]; intros; cbn; [reflexivity|]. rewrite IH. reflexivity. Qed.
Lemma remove_nth_middle : forall (l1 : list path) c l2, remove_nth (length l1) (l1 ++ c :: l2) = l1 ++ l2.
Proof.
  induction l1 as [|x l1 IH]; intros c l2; [reflexivity|].
  unfold remove_nth in *. cbn [length app firstn skipn]. cbn [skipn] in IH. f_equal. apply IH.
Qed.
Lemma nth_error_middle : forall (l1 : list path) c l2, nth_error (l1 ++ c :: l2) (length l1) = Some c.
Proof. intros. rewrite nth_error_app2 by lia. rewrite Nat.sub_diag. reflexivity. Qed.
Lemma nth_error_split' : forall (t : list path) i c, nth_error t i = Some c ->
  exists l1 l2, t = l1 ++ c :: l2 /\ length l1 = i.
Proof. intros. apply nth_error_split; auto. Qed.

(* ---------- append_arc ---------- *)
(* the four shapes of a successful append_arc, used by every later proof *)
Inductive append_shape (t : list path) (arc : path) (t' : list path) : Prop :=
| AS_push : (forall c, In c t -> p_connectable c arc = false) ->
            tng_sort (t ++ [arc]) = Some t' -> append_shape t arc t'
| AS_one : forall l1 c l2 ci,
            t = l1 ++ c :: l2 -> p_connectable c arc = true -> (forall x, In x l1 -> p_connectable x arc = false) ->
            p_connect c arc = Some ci ->
            (forall x, In x (l1 ++ ci :: l2) -> negb (unori_eq x ci) && p_connectable x ci = false) ->
            tng_sort (l1 ++ ci :: l2) = Some t' -> append_shape t arc t'
| AS_two : forall l1 c l2 ci m1 cj m2 ci' c2,
            t = l1 ++ c :: l2 -> p_connectable c arc = true -> (forall x, In x l1 -> p_connectable x arc = false) ->
            p_connect c arc = Some ci ->
            l1 ++ ci :: l2 = m1 ++ cj :: m2 ->
            negb (unori_eq cj ci) && p_connectable cj ci = true ->
            (forall x, In x m1 -> negb (unori_eq x ci) && p_connectable x ci = false) ->
            nth_error (m1 ++ m2) (length l1) = Some ci' ->
            p_connect ci' cj = Some c2 ->
            tng_sort (set_nth (length l1) c2 (m1 ++ m2)) = Some t' -> append_shape t arc t'.

Lemma append_arc_shape : forall t arc t', append_arc t arc = Some t' ->
  pclosed arc = false /\ append_shape t arc t'.
Proof.
  intros t arc t'. unfold append_arc. destruct (pclosed arc) eqn:Ha; [discriminate|]. intros E. split; auto.
  destruct (find_index (fun c => p_connectable c arc) t) as [i|] eqn:Fi.
  2:{ apply AS_push; auto. intros c Hc. apply (find_index_none _ _ Fi c Hc). }
  destruct (find_index_split _ _ _ Fi) as (l1 & c & l2 & Et & Hl & Fc & Hall). subst t i.
  rewrite nth_middle' in E. destruct (p_connect c arc) as [ci|] eqn:Eci; [|discriminate].
  rewrite set_nth_middle in E.
  destruct (find_index (fun c0 => negb (unori_eq c0 ci) && p_connectable c0 ci) (l1 ++ ci :: l2)) as [j|] eqn:Fj.
  2:{ eapply AS_one; eauto. intros x Hx. apply (find_index_none _ _ Fj x Hx). }
  destruct (find_index_split _ _ _ Fj) as (m1 & cj & m2 & Em & Hm & Fcj & Hallj).
  rewrite Em in E. subst j. rewrite nth_middle', remove_nth_middle in E.
  destruct (nth_error (m1 ++ m2) (length l1)) as [ci'|] eqn:En; [|discriminate].
  destruct (p_connect ci' cj) as [c2|] eqn:Ec2; [|discriminate].
  eapply AS_two; eauto.
Qed.

Lemma tsegs_middle : forall l1 c l2, Permutation (tsegs (l1 ++ c :: l2)) (segs c ++ tsegs (l1 ++ l2)).
Proof.
  intros. apply (tsegs_perm (l1 ++ c :: l2) (c :: l1 ++ l2)). apply Permutation_sym, Permutation_middle.
Qed.
Lemma twf_middle : forall l1 c l2, twf (l1 ++ c :: l2) <-> pwf c /\ twf (l1 ++ l2).
Proof.
  intros. unfold twf. rewrite !Forall_app, Forall_cons_iff. tauto.
Qed.

Theorem append_arc_segs : forall t arc t', twf t -> pwf arc -> append_arc t arc = Some t' ->
  Permutation (tsegs t') (tsegs t ++ segs arc) /\ twf t'.
Proof.
  intros t arc t' Wt Wa E. destruct (append_arc_shape _ _ _ E) as [Ha Sh]. destruct Sh.
  - pose proof (tng_sort_perm _ _ H0) as Hp. split.
    + eapply perm_trans; [apply tsegs_perm; exact Hp|]. rewrite tsegs_app. cbn. rewrite app_nil_r. apply Permutation_refl.
    + eapply twf_perm; [apply Permutation_sym; exact Hp|]. apply Forall_app. split; auto.
  - subst t. apply twf_middle in Wt. destruct Wt as [Wc Wr].
    pose proof (tng_sort_perm _ _ H4) as Hp.
    pose proof (p_connect_segs _ _ _ Wc Wa H2) as Hs. split.
    + eapply perm_trans; [apply tsegs_perm; exact Hp|].
      eapply perm_trans; [apply tsegs_middle|].
      eapply perm_trans; [apply Permutation_app_tail; exact Hs|].
      eapply perm_trans; [|apply Permutation_app_tail; apply Permutation_sym; apply tsegs_middle].
      rewrite <- !app_assoc. apply Permutation_app_head. apply Permutation_app_comm.
    + eapply twf_perm; [apply Permutation_sym; exact Hp|]. apply twf_middle. split; auto.
      eapply p_connect_pwf; eauto.
  - subst t. apply twf_middle in Wt. destruct Wt as [Wc Wr].
    pose proof (tng_sort_perm _ _ H8) as Hp.
    pose proof (p_connect_segs _ _ _ Wc Wa H2) as Hs.
    assert (W1 : twf (l1 ++ ci :: l2)). { apply twf_middle. split; auto. eapply p_connect_pwf; eauto. }
    rewrite H3 in W1. apply twf_middle in W1. destruct W1 as [Wcj Wm].
    destruct (nth_error_split' _ _ _ H6) as (n1 & n2 & En & Hn).
    rewrite En in Wm. apply twf_middle in Wm. destruct Wm as [Wci' Wn].
    pose proof (p_connect_segs _ _ _ Wci' Wcj H7) as Hs2.
    rewrite En, <- Hn, set_nth_middle in Hp. split.
    + eapply perm_trans; [apply tsegs_perm; exact Hp|].
      eapply perm_trans; [apply tsegs_middle|].
      eapply perm_trans; [apply Permutation_app_tail; exact Hs2|].
      (* segs ci' ++ segs cj ++ tsegs (n1 ++ n2)  ~  tsegs (m1 ++ cj :: m2) = tsegs (l1 ++ ci :: l2) *)
      assert (P1 : Permutation ((segs ci' ++ segs cj) ++ tsegs (n1 ++ n2)) (tsegs (l1 ++ ci :: l2))).
      { rewrite H3. eapply perm_trans; [|apply Permutation_sym; apply tsegs_middle].
        rewrite En. eapply perm_trans; [|apply Permutation_app_head; apply Permutation_sym; apply tsegs_middle].
        rewrite <- !app_assoc. eapply perm_trans; [apply Permutation_app_swap_app|]. apply Permutation_refl. }
      eapply perm_trans; [exact P1|].
      eapply perm_trans; [apply tsegs_middle|].
      eapply perm_trans; [apply Permutation_app_tail; exact Hs|].
      eapply perm_trans; [|apply Permutation_app_tail; apply Permutation_sym; apply tsegs_middle].
      rewrite <- !app_assoc. apply Permutation_app_head. apply Permutation_app_comm.
    + eapply twf_perm; [apply Permutation_sym; exact Hp|]. apply twf_middle. split; auto.
      eapply p_connect_pwf; eauto.
Qed.

(* ---------- Tng::connect ---------- *)
Lemma connect_loop_segs : forall other t t', twf t -> twf other -> tng_connect_loop t other = Some t' ->
  Permutation (tsegs t') (tsegs t ++ tsegs other) /\ twf t'.
Proof.
  induction other as [|c r IH]; intros t t' Wt Wo; cbn [tng_connect_loop].
  - intros E. inversion E. subst. cbn. rewrite app_nil_r. split; auto.
  - inversion Wo as [|? ? Wc Wr]; subst. destruct (pclosed c) eqn:Hc.
    + intros E. destruct (IH (t ++ [c]) t') as [Hp Hw]; auto.
      { apply Forall_app. split; auto. }
      split; auto. eapply perm_trans; [exact Hp|]. rewrite tsegs_app. cbn [tsegs flat_map].
      rewrite app_nil_r, <- app_assoc. apply Permutation_refl.
    + destruct (append_arc t c) as [t1|] eqn:Ea; [|discriminate]. intros E.
      destruct (append_arc_segs _ _ _ Wt Wc Ea) as [Hp1 Hw1].
      destruct (IH t1 t' Hw1 Wr E) as [Hp Hw]. split; auto.
      eapply perm_trans; [exact Hp|]. cbn [tsegs flat_map].
      eapply perm_trans; [apply Permutation_app_tail; exact Hp1|]. rewrite <- app_assoc. apply Permutation_refl.
Qed.

Theorem tng_connect_segs : forall t other t', twf t -> twf other -> tng_connect t other = Some t' ->
  Permutation (tsegs t') (tsegs t ++ tsegs other) /\ twf t'.
Proof.
  intros t other t' Wt Wo. unfold tng_connect.
  destruct (tng_connect_loop t other) as [t1|] eqn:El; [|discriminate]. intros Es.
  destruct (connect_loop_segs _ _ _ Wt Wo El) as [Hp Hw].
  pose proof (tng_sort_perm _ _ Es) as Hs. split.
  - eapply perm_trans; [apply tsegs_perm; exact Hs|exact Hp].
  - eapply twf_perm; [apply Permutation_sym; exact Hs|exact Hw].
Qed.

(* ---------- Tng::from_resolved ---------- *)
Lemma c_comp_pwf : forall a b, pwf (c_comp a b).
Proof. intros a b. unfold c_comp, pwf. destruct (a =? b); cbn; [left|right]; congruence. Qed.
Lemma c_comp_segs : forall a b, segs (c_comp a b) = [nseg a b].
Proof.
  intros a b. unfold c_comp. destruct (a =? b) eqn:E; [|reflexivity].
  apply Nat.eqb_eq in E. subst. reflexivity.
Qed.
Lemma c_arcs_pwf : forall x, pwf (fst (c_arcs x)) /\ pwf (snd (c_arcs x)).
Proof. intros x. unfold c_arcs. destruct (ct x); cbn; split; apply c_comp_pwf. Qed.

(* the two strands of a crossing, as unordered pairs of labels *)
Definition crossing_segs (x : crossing) : list (nat * nat) :=
  match ct x with
  | X | Xm => [nseg (e0 x) (e2 x); nseg (e1 x) (e3 x)]
  | V => [nseg (e0 x) (e3 x); nseg (e1 x) (e2 x)]
  | H => [nseg (e0 x) (e1 x); nseg (e2 x) (e3 x)]
  end.
Lemma c_arcs_segs : forall x, segs (fst (c_arcs x)) ++ segs (snd (c_arcs x)) = crossing_segs x.
Proof. intros x. unfold c_arcs, crossing_segs. destruct (ct x); cbn [fst snd]; rewrite !c_comp_segs; reflexivity. Qed.

Theorem from_resolved_segs : forall x t, tng_from_resolved x = Some t ->
  is_resolved x = true /\ Permutation (tsegs t) (crossing_segs x) /\ twf t.
Proof.
  intros x t. unfold tng_from_resolved. destruct (is_resolved x) eqn:Hr; [|discriminate].
  destruct (c_arcs x) as [c0 c1] eqn:Ea.
  pose proof (c_arcs_pwf x) as [W0 W1]. pose proof (c_arcs_segs x) as Hs. rewrite Ea in *. cbn [fst snd] in *.
  destruct (p_connectable c0 c1) eqn:Hc.
  - destruct (p_connect c0 c1) as [c|] eqn:Ec; [|discriminate]. unfold tng_new. intros Es.
    pose proof (tng_sort_perm _ _ Es) as Hp. split; auto. split.
    + eapply perm_trans; [apply tsegs_perm; exact Hp|]. cbn [tsegs flat_map]. rewrite app_nil_r, <- Hs.
      apply p_connect_segs; auto.
    + eapply twf_perm; [apply Permutation_sym; exact Hp|]. constructor; [|constructor]. eapply p_connect_pwf; eauto.
  - unfold tng_new. intros Es. pose proof (tng_sort_perm _ _ Es) as Hp. split; auto. split.
    + eapply perm_trans; [apply tsegs_perm; exact Hp|]. cbn [tsegs flat_map]. rewrite app_nil_r, <- Hs.
      apply Permutation_refl.
    + eapply twf_perm; [apply Permutation_sym; exact Hp|]. constructor; [|constructor]; auto.
Qed.

Lemma from_resolved_none : forall x, is_resolved x = false -> tng_from_resolved x = None.
Proof. intros x Hx. unfold tng_from_resolved. rewrite Hx. reflexivity. Qed.

(* ---------- the tangle of a list of resolved crossings ---------- *)
Theorem tng_of_crossings_from_segs : forall xs t t', twf t -> tng_of_crossings_from t xs = Some t' ->
  Permutation (tsegs t') (tsegs t ++ flat_map crossing_segs xs) /\ twf t'.
Proof.
  induction xs as [|x r IH]; intros t t' Wt; cbn [tng_of_crossings_from].
  - intros E. inversion E. subst. cbn. rewrite app_nil_r. split; auto.
  - destruct (tng_from_resolved x) as [tx|] eqn:Ex; [|discriminate].
    destruct (tng_connect t tx) as [t1|] eqn:Ec; [|discriminate]. intros E.
    destruct (from_resolved_segs _ _ Ex) as (_ & Px & Wx).
    destruct (tng_connect_segs _ _ _ Wt Wx Ec) as [P1 W1].
    destruct (IH _ _ W1 E) as [P2 W2]. split; auto.
    eapply perm_trans; [exact P2|]. cbn [flat_map]. rewrite app_assoc. apply Permutation_app_tail.
    eapply perm_trans; [exact P1|]. apply Permutation_app_head. exact Px.
Qed.
