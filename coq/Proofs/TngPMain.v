(* Tangle layer, part 8: the statements that combine the previous parts (order independence of gluing, components of
   the tangle of a diagram, Euler number). *)
From Coq Require Import List Arith Bool Lia Permutation Sorted Relations.
Import ListNotations.
Require Import Yui.Model.Link Yui.Model.Tng Yui.Proofs.TngPBase Yui.Proofs.TngPSegs Yui.Proofs.TngPDeg
  Yui.Proofs.TngPJoin Yui.Proofs.TngPStep Yui.Proofs.TngPSeq Yui.Proofs.TngPConn.

(* ---------- gluing the arcs / crossings in any order ---------- *)
Lemma labels_le2_perm : forall xs ys, Permutation xs ys -> labels_le2 xs -> labels_le2 ys.
Proof.
  intros xs ys Hp Hl v. rewrite <- (count_perm (edge_labels xs) (edge_labels ys) v); auto.
  unfold edge_labels. apply Permutation_flat_map. exact Hp.
Qed.
Lemma Forall_perm : forall (A : Type) (P : A -> Prop) (a b : list A), Permutation a b -> Forall P a -> Forall P b.
Proof.
  intros A P a b Hp Ha. rewrite Forall_forall in *. intros x Hx. apply Ha.
  eapply Permutation_in; [apply Permutation_sym; exact Hp|exact Hx].
Qed.

Theorem crossings_order_independent : forall xs ys, Permutation xs ys ->
  Forall (fun x => is_resolved x = true) xs -> labels_le2 xs ->
  exists t1 t2, tng_of_crossings xs = Some t1 /\ tng_of_crossings ys = Some t2 /\
                tng_ok t1 /\ tng_ok t2 /\ Forall2 same_comp t1 t2.
Proof.
  intros xs ys Hp Hr Hl.
  destruct (tng_of_crossings_ok xs Hr Hl) as (t1 & E1 & O1 & P1).
  destruct (tng_of_crossings_ok ys (Forall_perm _ _ _ _ Hp Hr) (labels_le2_perm _ _ Hp Hl)) as (t2 & E2 & O2 & P2).
  exists t1, t2. repeat split; auto; try apply O1; try apply O2.
  apply normal_form_unique; auto.
  eapply perm_trans; [exact P1|]. eapply perm_trans; [|apply Permutation_sym; exact P2].
  apply Permutation_flat_map. exact Hp.
Qed.

Theorem arcs_order_independent : forall arcs arcs', Permutation arcs arcs' ->
  Forall simple_arc arcs -> deg_le2 (flat_map segs arcs) ->
  exists t1 t2, append_all [] arcs = Some t1 /\ append_all [] arcs' = Some t2 /\
                tng_ok t1 /\ tng_ok t2 /\ Forall2 same_comp t1 t2.
Proof.
  intros arcs arcs' Hp Ha Hd.
  destruct (append_all_ok arcs [] ok_nil Ha Hd) as (t1 & E1 & O1 & P1).
  assert (Hd' : deg_le2 (flat_map segs arcs')).
  { eapply deg_le2_perm; [|exact Hd]. apply Permutation_flat_map. exact Hp. }
  destruct (append_all_ok arcs' [] ok_nil (Forall_perm _ _ _ _ Hp Ha) Hd') as (t2 & E2 & O2 & P2).
  exists t1, t2. repeat split; auto; try apply O1; try apply O2.
  apply normal_form_unique; auto. cbn [tsegs flat_map app] in P1, P2.
  eapply perm_trans; [exact P1|]. eapply perm_trans; [|apply Permutation_sym; exact P2].
  apply Permutation_flat_map. exact Hp.
Qed.

(* ---------- the components of the tangle of a (partially glued) diagram ---------- *)
Theorem crossings_components : forall xs, Forall (fun x => is_resolved x = true) xs -> labels_le2 xs ->
  exists t, tng_of_crossings xs = Some t /\ tng_ok t /\
    (forall v, In v (verts t) <-> In v (edge_labels xs)) /\
    (forall u v, In u (edge_labels xs) ->
       (conn (flat_map crossing_segs xs) u v <-> exists c, In c t /\ In u (pedges c) /\ In v (pedges c))).
Proof.
  intros xs Hr Hl. destruct (tng_of_crossings_ok xs Hr Hl) as (t & E & O & P).
  exists t. split; auto. split; auto.
  assert (Hv : forall v, In v (verts t) <-> In v (edge_labels xs)).
  { intros v. rewrite (verts_ends t v (proj1 (proj1 O))).
    assert (Pe : Permutation (ends_of (tsegs t)) (edge_labels xs)).
    { eapply perm_trans; [apply Permutation_flat_map; exact P|].
      unfold ends_of, edge_labels. clear. induction xs as [|x r IH]; [constructor|].
      cbn [flat_map]. rewrite flat_map_app. apply Permutation_app; [apply crossing_segs_ends|exact IH]. }
    split; intros Hi; [eapply Permutation_in; eauto|eapply Permutation_in; [apply Permutation_sym|]; eauto]. }
  split; auto. intros u v Hu.
  rewrite <- (components_are_connected_components t u v (proj1 O)) by (apply Hv; auto).
  split; intros Hc; (eapply conn_incl; [|exact Hc]); intros s Hs;
    [eapply Permutation_in; [apply Permutation_sym|]; eauto|eapply Permutation_in; eauto].
Qed.

(* a closed diagram: every label occurs exactly twice -> only circles *)
Lemma deg_arc_hd_seg : forall p, simple p -> pclosed p = false -> deg (segs p) (hd 0 (pedges p)) = 1.
Proof.
  intros p Sp Hc. assert (Hi : tng_inv [p]).
  { apply inv_cons. split; [auto|split; [apply inv_nil|]]. intros v _ []. }
  pose proof (deg_arc_hd [p] p Hi (or_introl eq_refl) Hc) as Hd. cbn [tsegs flat_map] in Hd.
  rewrite app_nil_r in Hd. exact Hd.
Qed.

Theorem closed_diagram_circles : forall xs t, Forall (fun x => is_resolved x = true) xs ->
  (forall v, In v (edge_labels xs) -> count_occ Nat.eq_dec (edge_labels xs) v = 2) ->
  tng_of_crossings xs = Some t -> tng_is_closed t = true.
Proof.
  intros xs t Hr Hl E.
  assert (Hl2 : labels_le2 xs).
  { intros v. destruct (in_dec Nat.eq_dec v (edge_labels xs)) as [Hi|Hn]; [rewrite Hl; auto|].
    rewrite count_notin; auto. }
  destruct (tng_of_crossings_ok xs Hr Hl2) as (t' & E' & O & P). rewrite E in E'. inversion E'; subst t'.
  unfold tng_is_closed. apply forallb_forall. intros c Hc. unfold p_is_circle.
  destruct (pclosed c) eqn:Ec; auto. exfalso.
  pose proof (deg_arc_hd t c (proj1 O) Hc Ec) as Hd.
  rewrite (deg_perm _ _ _ P) in Hd. unfold deg in Hd.
  assert (Pe : Permutation (ends_of (flat_map crossing_segs xs)) (edge_labels xs)).
  { unfold ends_of, edge_labels. clear. induction xs as [|x r IH]; [constructor|].
    cbn [flat_map]. rewrite flat_map_app. apply Permutation_app; [apply crossing_segs_ends|exact IH]. }
  rewrite (count_perm _ _ _ Pe) in Hd.
  assert (Hin : In (hd 0 (pedges c)) (edge_labels xs)).
  { apply (count_occ_In Nat.eq_dec). lia. }
  rewrite (Hl _ Hin) in Hd. discriminate.
Qed.

(* ---------- Euler number ---------- *)
Lemma arc_segs_length : forall l, l <> [] -> length l = length (arc_segs l) + 1.
Proof.
  induction l as [|a l IH]; intros Hl; [contradiction|].
  destruct l as [|b l]; [reflexivity|]. rewrite arc_segs_cons2. cbn [length]. rewrite IH at 1 by discriminate.
  cbn [length]. lia.
Qed.
Lemma circ_segs_length : forall l, length (circ_segs l) = length l.
Proof.
  intros [|x l]; [reflexivity|]. unfold circ_segs.
  pose proof (arc_segs_length ((x :: l) ++ [x])) as Hl. rewrite app_length in Hl. cbn [length] in *.
  assert (x :: l ++ [x] <> []) by discriminate. specialize (Hl H). lia.
Qed.

Theorem euler_num_spec : forall t, twf t ->
  length (verts t) = length (tsegs t) + tng_euler_num t.
Proof.
  induction t as [|c t IH]; intros Hw; [reflexivity|].
  inversion Hw as [|? ? Wc Wt]; subst. specialize (IH Wt).
  unfold tng_euler_num in *. cbn [verts tsegs flat_map filter]. rewrite !app_length.
  fold (verts t). fold (tsegs t). unfold segs.
  assert (Ea : p_is_arc c = negb (pclosed c)) by reflexivity. rewrite Ea.
  destruct (pclosed c) eqn:Ec; cbn [negb].
  - rewrite circ_segs_length. lia.
  - rewrite (arc_segs_length (pedges c)) by (apply pwf_arc_ne; auto). cbn [length]. lia.
Qed.
