(* Refinement of the BitSeq model to plain lists of booleans. *)
From Coq Require Import NArith List Bool Arith Lia ZifyBool ZifyNat ZifyN.
Require Import Yui.Model.BitSeq Yui.Proofs.BitSeqBits.
Import ListNotations.

Definition Inv (b : bitseq) : Prop := len b <= 64 /\ (val b < 2 ^ N.of_nat (len b))%N.

Definition refines (r : option bitseq) (s : option (list bool)) : Prop :=
  match s with
  | Some l => exists b', r = Some b' /\ Inv b' /\ abs b' = l
  | None => r = None
  end.

Lemma abs_length b : length (abs b) = len b.
Proof. apply bits_length. Qed.

Lemma inv_tb b : Inv b -> forall i, len b <= i -> tb (val b) i = false.
Proof. intros [_ H]. now apply small_tb. Qed.

Lemma nth_abs b i : Inv b -> nth i (abs b) false = tb (val b) i.
Proof.
  intros H. unfold abs. rewrite nth_bits_all. destruct (Nat.ltb_spec i (len b)); [reflexivity|].
  symmetry. now apply inv_tb.
Qed.

Lemma refine_intro v l L :
  l <= 64 -> length L = l -> (forall i, tb v i = nth i L false) ->
  Inv (mk v l) /\ abs (mk v l) = L.
Proof.
  intros Hl HL H. split.
  - split; [exact Hl|]. cbn [val len]. apply small_tb. intros i Hi. rewrite H. apply nth_overflow. lia.
  - unfold abs. cbn [val len]. apply bits_ext; [exact HL|]. intros i _. symmetry. apply H.
Qed.

Lemma abs_inj a b : Inv a -> Inv b -> abs a = abs b -> a = b.
Proof.
  intros Ha Hb E. destruct a as [va la], b as [vb lb].
  assert (la = lb).
  { pose proof (abs_length (mk va la)) as H1. pose proof (abs_length (mk vb lb)) as H2.
    rewrite E in H1. cbn [len] in *. congruence. }
  subst lb.
  f_equal. apply tb_ext. intros i. rewrite <- (nth_abs (mk va la)), <- (nth_abs (mk vb la)) by assumption.
  now rewrite E.
Qed.

Lemma nth_firstn_all {A} (l : list A) n i d : nth i (firstn n l) d = if i <? n then nth i l d else d.
Proof.
  destruct (Nat.ltb_spec i n); [now apply nth_firstn_lt|].
  apply nth_overflow. rewrite firstn_length. lia.
Qed.

Lemma nth_nil_any {A} i (d : A) : nth i [] d = d.
Proof. now destruct i. Qed.

Ltac tbsimp :=
  repeat (rewrite ?tb_land, ?tb_lor, ?tb_ldiff, ?tb_lnot64, ?tb_shiftl, ?tb_shiftr, ?tb_ones, ?tb_u64max,
          ?tb_one_shl, ?tb_1, ?tb_0).
Ltac nthsimp :=
  repeat (rewrite ?nth_app, ?nth_cons, ?nth_firstn_all, ?nth_skipn_add, ?nth_nil_any, ?firstn_length, ?abs_length).
Ltac cases :=
  repeat match goal with
  | |- context [?a <? ?b] => destruct (Nat.ltb_spec a b)
  | |- context [?a =? ?b] => destruct (Nat.eqb_spec a b)
  | |- context [?a <=? ?b] => destruct (Nat.leb_spec a b)
  end.
Ltac small_rw :=
  repeat match goal with
  | Hsm : forall i, _ <= i -> tb ?v i = false |- context [tb ?v ?j] => rewrite (Hsm j) by lia
  end.
Ltac bsimp :=
  cbn [andb orb negb];
  rewrite ?andb_true_r, ?andb_false_r, ?orb_false_r, ?orb_true_r.
Ltac fin H :=
  bsimp; first [ reflexivity | lia | (f_equal; lia) | (small_rw; bsimp; first [reflexivity | (f_equal; lia)]) | idtac ].

(* ---------- constructors ---------- *)
Lemma new_spec v l :
  refines (new v l) (if (l <=? 64) && (v <? 2 ^ N.of_nat l)%N then Some (bits v l) else None).
Proof.
  unfold new, MAX_LEN. destruct (Nat.leb_spec l 64) as [Hl|Hl]; cbn [andb refines]; [|reflexivity].
  rewrite mask_some by lia. cbn [obind].
  destruct (N.ltb_spec v (2 ^ N.of_nat l)) as [Hv|Hv].
  - destruct (N.leb_spec v (N.ones (N.of_nat l))) as [Hm|Hm].
    + cbn [refines]. eexists; split; [reflexivity|]. split; [split; assumption|reflexivity].
    + apply le_ones in Hv. lia.
  - destruct (N.leb_spec v (N.ones (N.of_nat l))) as [Hm|Hm]; [|reflexivity].
    apply le_ones in Hm. lia.
Qed.

Lemma new_ok v l : l <= 64 -> (v < 2 ^ N.of_nat l)%N -> new v l = Some (mk v l).
Proof.
  intros Hl Hv. pose proof (new_spec v l) as H.
  destruct (Nat.leb_spec l 64); [|lia]. destruct (N.ltb_spec v (2 ^ N.of_nat l)); [|lia].
  cbn in H. destruct H as [b' [E _]]. rewrite E. f_equal.
  unfold new in E. destruct (l <=? MAX_LEN); [|discriminate]. destruct (mask l); [|discriminate].
  cbn in E. destruct (v <=? n)%N; congruence.
Qed.

Lemma empty_spec : refines empty (Some []).
Proof. apply (new_spec 0 0). Qed.

Lemma zeros_spec l : refines (zeros l) (if l <=? 64 then Some (repeat false l) else None).
Proof.
  unfold zeros. pose proof (new_spec 0 l) as H.
  assert (Hz : (0 <? 2 ^ N.of_nat l)%N = true).
  { apply N.ltb_lt. apply N.neq_0_lt_0, N.pow_nonzero. lia. }
  rewrite Hz, andb_true_r in H. destruct (l <=? 64); [|exact H].
  replace (repeat false l) with (bits 0 l); [exact H|].
  apply bits_ext; [apply repeat_length|]. intros i Hi. rewrite tb_0, nth_repeat_all. now destruct (i <? l).
Qed.

Lemma ones_spec l : refines (ones l) (if l <=? 64 then Some (repeat true l) else None).
Proof.
  unfold ones. destruct (Nat.leb_spec l 64) as [Hl|Hl].
  - rewrite mask_some by lia. cbn [obind].
    rewrite new_ok; [|lia|apply le_ones; lia].
    cbn [refines]. eexists; split; [reflexivity|]. apply refine_intro; [lia|apply repeat_length|].
    intros i. rewrite tb_ones. destruct (Nat.ltb_spec i l).
    + now rewrite nth_repeat_all, (proj2 (Nat.ltb_lt i l)).
    + rewrite nth_repeat_all. destruct (Nat.ltb_spec i l); [lia|reflexivity].
  - rewrite mask_none by lia. reflexivity.
Qed.


(* ---------- mutators ---------- *)
Lemma set_spec b i x : Inv b ->
  refines (set b i x) (if i <? length (abs b) then Some (l_set (abs b) i x) else None).
Proof.
  intros Hb. pose proof (inv_tb b Hb) as Hs. destruct Hb as [Hl Hv]. rewrite abs_length. unfold set.
  destruct (Nat.ltb_spec i (len b)) as [Hi|Hi]; [|reflexivity].
  rewrite shl_some by lia. cbn [obind refines]. rewrite one_shl by lia.
  eexists; split; [reflexivity|]. apply refine_intro; [exact Hl| |].
  - unfold l_set. rewrite app_length. cbn [length]. rewrite firstn_length, skipn_length, abs_length. lia.
  - intros j. unfold l_set. nthsimp. rewrite !nth_abs by (split; assumption).
    destruct x; tbsimp; cases; fin Hs.
Qed.

Lemma push_spec b x : Inv b ->
  refines (push b x) (if length (abs b) <? 64 then Some (abs b ++ [x]) else None).
Proof.
  intros Hb. pose proof (inv_tb b Hb) as Hs. pose proof Hb as [Hl Hv]. rewrite abs_length. unfold push, MAX_LEN.
  destruct (Nat.ltb_spec (len b) 64) as [Hi|Hi]; [|reflexivity].
  assert (E : (if x then do m <- shl 1 (len b); Some (N.lor (val b) m) else Some (val b))
              = Some (if x then N.lor (val b) (N.shiftl 1 (N.of_nat (len b))) else val b)).
  { destruct x; [|reflexivity]. rewrite shl_some by lia. cbn [obind]. now rewrite one_shl by lia. }
  rewrite E. cbn [obind refines]. eexists; split; [reflexivity|]. apply refine_intro; [lia| |].
  - rewrite app_length, abs_length. cbn [length]. lia.
  - intros j. nthsimp. rewrite !nth_abs by exact Hb.
    destruct x; tbsimp; cases; fin Hs.
Qed.

Lemma append_spec a b : Inv a -> Inv b ->
  refines (append a b) (if length (abs a) + length (abs b) <=? 64 then Some (abs a ++ abs b) else None).
Proof.
  intros Ha Hb. pose proof (inv_tb a Ha) as Hsa. pose proof (inv_tb b Hb) as Hsb.
  pose proof Ha as [Hla Hva]. pose proof Hb as [Hlb Hvb]. rewrite !abs_length. unfold append, MAX_LEN.
  destruct (Nat.leb_spec (len a + len b) 64) as [Hi|Hi]; [|reflexivity].
  destruct (Nat.ltb_spec 0 (len b)) as [Hp|Hp].
  - rewrite shl_some by lia. cbn [obind refines]. eexists; split; [reflexivity|].
    apply refine_intro; [lia|rewrite app_length, !abs_length; lia|].
    intros j. nthsimp. rewrite !nth_abs by assumption. tbsimp. cases; fin Hsa.
  - cbn [obind refines]. eexists; split; [reflexivity|].
    apply refine_intro; [lia|rewrite app_length, !abs_length; lia|].
    intros j. nthsimp. rewrite !nth_abs by assumption. cases; fin Hsa.
Qed.

Lemma remove_spec b i : Inv b ->
  refines (remove b i) (if i <? length (abs b) then Some (l_remove (abs b) i) else None).
Proof.
  intros Hb. pose proof (inv_tb b Hb) as Hs. pose proof Hb as [Hl Hv]. rewrite abs_length. unfold remove.
  destruct (Nat.ltb_spec i (len b)) as [Hi|Hi]; [|reflexivity].
  rewrite !mask_some by lia. cbn [obind]. rewrite shr_some by lia. cbn [obind refines].
  eexists; split; [reflexivity|]. apply refine_intro; [lia| |].
  - unfold l_remove. rewrite app_length, firstn_length, skipn_length, abs_length. lia.
  - intros j. unfold l_remove. nthsimp. rewrite !nth_abs by exact Hb.
    tbsimp. change 1%N with (N.of_nat 1). tbsimp. cases; fin Hs.
Qed.

Lemma insert_spec b i x : Inv b ->
  refines (insert b i x)
          (if (i <=? length (abs b)) && (length (abs b) <? 64) then Some (l_insert (abs b) i x) else None).
Proof.
  intros Hb. pose proof (inv_tb b Hb) as Hs. pose proof Hb as [Hl Hv]. rewrite abs_length. unfold insert, MAX_LEN.
  destruct (Nat.leb_spec i (len b)) as [Hi|Hi]; cbn [andb]; [|reflexivity].
  destruct (Nat.ltb_spec (len b) 64) as [Hlt|Hlt]; [|reflexivity].
  rewrite !shl_some by lia. cbn [obind refines]. rewrite one_shl by lia. rewrite one_shl_pred.
  eexists; split; [reflexivity|]. apply refine_intro; [lia| |].
  - unfold l_insert. rewrite app_length. cbn [length]. rewrite firstn_length, skipn_length, abs_length. lia.
  - intros j. unfold l_insert. nthsimp. rewrite !nth_abs by exact Hb.
    change 1%N with (N.of_nat 1) at 1. tbsimp.
    destruct x; tbsimp; cases; fin Hs.
Qed.

Lemma sub_spec b l : Inv b ->
  refines (sub b l) (if l <=? length (abs b) then Some (firstn l (abs b)) else None).
Proof.
  intros Hb. pose proof (inv_tb b Hb) as Hs. pose proof Hb as [Hl Hv]. rewrite abs_length. unfold sub.
  destruct (Nat.leb_spec l (len b)) as [Hi|Hi]; [|reflexivity].
  rewrite mask_some by lia. cbn [obind].
  assert (Hsm : (N.land (val b) (N.ones (N.of_nat l)) < 2 ^ N.of_nat l)%N).
  { apply small_tb. intros j Hj. tbsimp. cases; fin Hs. }
  rewrite new_ok by (try lia; exact Hsm). cbn [refines].
  eexists; split; [reflexivity|]. apply refine_intro; [lia|rewrite firstn_length, abs_length; lia|].
  intros j. nthsimp. rewrite !nth_abs by exact Hb. tbsimp. cases; fin Hs.
Qed.

(* ---------- observers ---------- *)
Lemma l_is_prefix_spec a b :
  l_is_prefix a b = true <-> (length a <= length b /\ forall i, i < length a -> nth i a false = nth i b false).
Proof.
  revert b. induction a as [|x a IH]; intros b; cbn [l_is_prefix length].
  - split; [intros _; split; [lia|intros i Hi; lia]|reflexivity].
  - destruct b as [|y b]; cbn [length].
    + split; [discriminate|intros [H _]; lia].
    + rewrite andb_true_iff, IH. split.
      * intros [E [Hl Hn]]. apply eqb_prop in E. subst y. split; [lia|].
        intros [|i] Hi; cbn [nth]; [reflexivity|apply Hn; lia].
      * intros [Hl Hn]. split; [|split; [lia|]].
        -- specialize (Hn 0 ltac:(lia)). cbn in Hn. subst y. apply eqb_reflx.
        -- intros i Hi. apply (Hn (S i)). lia.
Qed.

Lemma is_sub_spec a b : Inv a -> Inv b -> is_sub a b = Some (l_is_prefix (abs a) (abs b)).
Proof.
  intros Ha Hb. pose proof (inv_tb a Ha) as Hsa. pose proof (inv_tb b Hb) as Hsb.
  pose proof Ha as [Hla Hva]. pose proof Hb as [Hlb Hvb]. unfold is_sub.
  destruct (Nat.leb_spec (len a) (len b)) as [Hl|Hl].
  - rewrite mask_some by lia. cbn [obind]. f_equal.
    destruct (l_is_prefix (abs a) (abs b)) eqn:E.
    + apply l_is_prefix_spec in E. destruct E as [_ E]. rewrite abs_length in E.
      apply N.eqb_eq. apply tb_ext. intros j. tbsimp.
      destruct (Nat.ltb_spec j (len a)) as [Hj|Hj].
      * specialize (E j Hj). rewrite !nth_abs in E by assumption. rewrite E. now rewrite andb_true_r.
      * rewrite Hsa by lia. now rewrite andb_false_r.
    + apply not_true_iff_false. intros Heq. apply N.eqb_eq in Heq.
      apply not_true_iff_false in E. apply E. apply l_is_prefix_spec. rewrite !abs_length.
      split; [lia|]. intros i Hi. rewrite !nth_abs by assumption. rewrite Heq at 1. tbsimp.
      destruct (Nat.ltb_spec i (len a)); [now rewrite andb_true_r|lia].
  - f_equal. symmetry. apply not_true_iff_false. intros E. apply l_is_prefix_spec in E.
    rewrite !abs_length in E. lia.
Qed.

Lemma index_spec b i : Inv b ->
  index b i = if i <? length (abs b) then Some (nth i (abs b) false) else None.
Proof.
  intros Hb. pose proof Hb as [Hl Hv]. rewrite abs_length. unfold index.
  destruct (Nat.ltb_spec i (len b)) as [Hi|Hi]; [|reflexivity].
  rewrite shr_some by lia. cbn [obind]. f_equal. rewrite nth_abs by exact Hb.
  change 1%N with (N.ones 1) at 1. rewrite N.land_ones. change (2 ^ 1)%N with 2%N.
  rewrite <- N.bit0_mod. rewrite N.shiftr_spec by lia. rewrite N.add_0_l.
  unfold tb. destruct (N.testbit (val b) (N.of_nat i)); reflexivity.
Qed.

Lemma iter_loop_bits n v : iter_loop n v = bits v n.
Proof.
  revert v. induction n as [|n IH]; intros v; cbn [iter_loop bits]; [reflexivity|].
  rewrite IH. rewrite <- N.div2_spec. f_equal.
  change 1%N with (N.ones 1) at 1. rewrite N.land_ones. change (2 ^ 1)%N with 2%N.
  rewrite <- N.bit0_mod, N.bit0_odd. now destruct (N.odd v).
Qed.

Lemma iter_spec b : iter b = abs b.
Proof. apply iter_loop_bits. Qed.

(* popcount *)
Fixpoint ppop (p : positive) : nat :=
  match p with xH => 1 | xO q => ppop q | xI q => S (ppop q) end.
Definition popcount (v : N) : nat := match v with N0 => 0 | Npos p => ppop p end.

Lemma land_odd_even a b : N.land (2 * a + 1) (2 * b) = (2 * N.land a b)%N.
Proof.
  apply N.bits_inj. intros n. rewrite N.land_spec.
  destruct (N.eq_dec n 0) as [->|Hn].
  - rewrite !N.testbit_even_0, N.testbit_odd_0. reflexivity.
  - replace n with (N.succ (N.pred n)) by lia.
    rewrite !N.testbit_even_succ, N.testbit_odd_succ by lia. now rewrite N.land_spec.
Qed.
Lemma land_even_odd a b : N.land (2 * a) (2 * b + 1) = (2 * N.land a b)%N.
Proof. rewrite N.land_comm, land_odd_even, N.land_comm. reflexivity. Qed.

Lemma kernighan p : popcount (N.land (Npos p) (Npos p - 1)) = ppop p - 1.
Proof.
  induction p as [p IH|p IH|].
  - replace (N.pos p~1 - 1)%N with (2 * N.pos p)%N by lia.
    change (N.pos p~1) with (2 * N.pos p + 1)%N. rewrite land_odd_even, N.land_diag.
    cbn. lia.
  - change (N.pos p~0) with (2 * N.pos p)%N.
    replace (2 * N.pos p - 1)%N with (2 * (N.pos p - 1) + 1)%N by lia.
    rewrite land_even_odd.
    destruct (N.land (N.pos p) (N.pos p - 1)) eqn:E; cbn [N.mul popcount ppop] in *; exact IH.
  - reflexivity.
Qed.

Lemma popcount_pos_ge p : 1 <= ppop p.
Proof. induction p; cbn; lia. Qed.

Lemma weight_loop_spec fuel v c : popcount v < fuel -> weight_loop fuel v c = Some (c + popcount v).
Proof.
  revert v c. induction fuel as [|f IH]; intros v c H; [lia|]. cbn [weight_loop].
  destruct v as [|p].
  - cbn. f_equal. lia.
  - change (0 <? N.pos p)%N with true. cbv iota.
    pose proof (kernighan p) as K. pose proof (popcount_pos_ge p) as G. cbn [popcount] in H.
    rewrite IH by lia. f_equal. cbn [popcount]. lia.
Qed.

Lemma popcount_bits v n : (v < 2 ^ N.of_nat n)%N -> popcount v = l_weight (bits v n).
Proof.
  revert v. induction n as [|n IH]; intros v H.
  - change (2 ^ N.of_nat 0)%N with 1%N in H. assert (v = 0%N) by lia. subst. reflexivity.
  - cbn [bits]. unfold l_weight in *. cbn [count_occ].
    assert (Hd : (N.div2 v < 2 ^ N.of_nat n)%N).
    { rewrite N.div2_div. apply N.div_lt_upper_bound; [lia|].
      replace (N.of_nat (S n)) with (N.succ (N.of_nat n)) in H by lia. rewrite N.pow_succ_r' in H. exact H. }
    specialize (IH _ Hd). destruct v as [|[p|p|]]; cbn [N.odd N.div2 popcount ppop] in *.
    + rewrite <- IH. reflexivity.
    + destruct (bool_dec true true); [|congruence]. rewrite <- IH. reflexivity.
    + destruct (bool_dec false true); [congruence|]. rewrite <- IH. reflexivity.
    + destruct (bool_dec true true); [|congruence]. rewrite <- IH. reflexivity.
Qed.

Lemma l_weight_le l : l_weight l <= length l.
Proof. unfold l_weight. apply count_occ_bound. Qed.

Lemma weight_spec b : Inv b -> weight b = Some (l_weight (abs b)).
Proof.
  intros [Hl Hv]. unfold weight. pose proof (popcount_bits _ _ Hv) as E.
  pose proof (l_weight_le (bits (val b) (len b))) as B. rewrite bits_length in B.
  rewrite weight_loop_spec by lia. f_equal. exact E.
Qed.

(* ---------- remaining constructors ---------- *)
Lemma new_rev_spec v l : (v < 2 ^ 64)%N ->
  refines (new_rev v l) (if l <=? 64 then Some (rev (bits v l)) else None).
Proof.
  intros Hv. unfold new_rev, MAX_LEN. destruct (Nat.leb_spec l 64) as [Hl|Hl]; [|reflexivity].
  destruct (Nat.eqb_spec l 0) as [->|Hne].
  - cbn [obind]. apply (new_spec 0 0).
  - rewrite shr_some by lia. cbn [obind].
    assert (Hsm : (N.shiftr (reverse_bits v) (N.of_nat (64 - l)) < 2 ^ N.of_nat l)%N).
    { apply small_tb. intros j Hj. rewrite tb_shiftr, tb_reverse_bits. cases; fin Hv. }
    rewrite new_ok by (try lia; exact Hsm). cbn [refines].
    eexists; split; [reflexivity|]. apply refine_intro; [lia|now rewrite rev_length, bits_length|].
    intros j. rewrite tb_shiftr, tb_reverse_bits.
    destruct (Nat.ltb_spec j l) as [Hj|Hj].
    + rewrite rev_nth by (rewrite bits_length; lia). rewrite bits_length, nth_bits by lia.
      cases; fin Hv.
    + rewrite nth_overflow by (rewrite rev_length, bits_length; lia). cases; fin Hv.
Qed.


Lemma tb_shiftl_of_bits bs l j :
  tb (N.shiftl (of_bits bs) (N.of_nat l)) j = if j <? l then false else nth (j - l) bs false.
Proof. rewrite tb_shiftl, of_bits_tb. reflexivity. Qed.

Lemma from_iter_loop_ok bs v l :
  l + length bs <= 64 ->
  from_iter_loop bs v l = Some (N.lor v (N.shiftl (of_bits bs) (N.of_nat l)), l + length bs).
Proof.
  revert v l. induction bs as [|b r IH]; intros v l H; cbn [from_iter_loop length] in *.
  - f_equal. f_equal; [|lia]. cbn [of_bits]. rewrite N.shiftl_0_l, N.lor_0_r. reflexivity.
  - assert (E : forall w, N.lor (N.lor v w) (N.shiftl (of_bits r) (N.of_nat (S l)))
                 = N.lor v (N.lor w (N.shiftl (of_bits r) (N.of_nat (S l))))).
    { intros w. now rewrite N.lor_assoc. }
    destruct b.
    + rewrite shl_some by lia. cbn [obind]. rewrite one_shl by lia. rewrite IH by lia.
      f_equal. f_equal; [|lia]. rewrite E. f_equal.
      apply tb_ext. intros j. rewrite tb_lor, tb_one_shl, !tb_shiftl_of_bits, nth_cons.
      cases; fin H.
    + rewrite IH by lia. f_equal. f_equal; [|lia]. f_equal.
      apply tb_ext. intros j. rewrite !tb_shiftl_of_bits, nth_cons. cases; fin H.
Qed.

Lemma from_iter_loop_len bs v l v' l' : from_iter_loop bs v l = Some (v', l') -> l' = l + length bs.
Proof.
  revert v l. induction bs as [|b r IH]; intros v l H; cbn [from_iter_loop length] in *.
  - inversion H. lia.
  - destruct b.
    + destruct (shl 1 l); [|discriminate]. cbn [obind] in H. apply IH in H. lia.
    + apply IH in H. lia.
Qed.

Lemma from_iter_spec bs :
  refines (from_iter bs) (if length bs <=? 64 then Some bs else None).
Proof.
  unfold from_iter. destruct (Nat.leb_spec (length bs) 64) as [H|H].
  - rewrite from_iter_loop_ok by lia. cbn [obind fst snd Nat.add]. rewrite N.lor_0_l.
    change (N.of_nat 0) with 0%N. rewrite N.shiftl_0_r.
    rewrite new_ok; [|lia|apply of_bits_small].
    cbn [refines]. eexists; split; [reflexivity|]. split.
    + split; [exact H|apply of_bits_small].
    + apply bits_of_bits.
  - cbn [refines]. destruct (from_iter_loop bs 0 0) as [[v' l']|] eqn:E; [|reflexivity].
    apply from_iter_loop_len in E. cbn [obind fst snd]. unfold new, MAX_LEN.
    destruct (Nat.leb_spec l' 64); [lia|reflexivity].
Qed.

(* parsing and printing *)
Definition chars_of (l : list bool) : list nat := map (fun x : bool => if x then 1 else 0) l.

Lemma valid_prefix_chars l : valid_prefix (chars_of l) = (l, false).
Proof.
  induction l as [|b l IH]; [reflexivity|].
  change (chars_of (b :: l)) with ((if b then 1 else 0) :: chars_of l).
  destruct b; cbn [valid_prefix Nat.eqb]; rewrite IH; reflexivity.
Qed.

Lemma to_string_spec b : to_string b = chars_of (abs b).
Proof. unfold to_string. now rewrite iter_spec. Qed.

Lemma from_str_to_string b : Inv b -> from_str (to_string b) = POk b.
Proof.
  intros Hb. unfold from_str. rewrite to_string_spec, valid_prefix_chars. cbn [fst snd].
  pose proof (from_iter_spec (abs b)) as H. rewrite abs_length in H.
  pose proof Hb as [Hl Hv]. destruct (Nat.leb_spec (len b) 64); [|lia].
  destruct H as [b' [E [Hi Ha]]]. rewrite E. f_equal. apply abs_inj; [exact Hi|exact Hb|exact Ha].
Qed.

Lemma from_str_chars l :
  match from_str (chars_of l) with
  | POk b => length l <= 64 /\ Inv b /\ abs b = l
  | PErr => False
  | PPanic => 64 < length l
  end.
Proof.
  unfold from_str. rewrite valid_prefix_chars. cbn [fst snd].
  pose proof (from_iter_spec l) as H. destruct (Nat.leb_spec (length l) 64).
  - destruct H as [b' [E [Hi Ha]]]. rewrite E. auto.
  - cbn in H. rewrite H. lia.
Qed.

Lemma valid_prefix_invalid cs : snd (valid_prefix cs) = true <-> exists c, In c cs /\ c <> 0 /\ c <> 1.
Proof.
  induction cs as [|c r IH]; cbn [valid_prefix].
  - split; [discriminate|intros [c [[] _]]].
  - destruct (Nat.eqb_spec c 0) as [->|H0]; [|destruct (Nat.eqb_spec c 1) as [->|H1]]; cbn [snd].
    + rewrite IH. split; intros [c [Hin Hc]]; exists c; [split; [now right|exact Hc]|].
      destruct Hin as [<-|Hin]; [lia|tauto].
    + rewrite IH. split; intros [c [Hin Hc]]; exists c; [split; [now right|exact Hc]|].
      destruct Hin as [<-|Hin]; [lia|tauto].
    + split; [|reflexivity]. intros _. exists c. split; [now left|lia].
Qed.

Lemma from_str_invalid cs : (exists c, In c cs /\ c <> 0 /\ c <> 1) -> forall b, from_str cs <> POk b.
Proof.
  intros H b. apply valid_prefix_invalid in H. unfold from_str. rewrite H.
  destruct (from_iter (fst (valid_prefix cs))); discriminate.
Qed.

(* ---------- the order ---------- *)
Definition l_cmp (a b : list bool) : comparison :=
  match Nat.compare (length a) (length b) with
  | Eq => match Nat.compare (l_weight a) (l_weight b) with
          | Eq => N.compare (of_bits a) (of_bits b) | c => c end
  | c => c end.

Lemma cmp_spec a b : Inv a -> Inv b -> cmp a b = Some (l_cmp (abs a) (abs b)).
Proof.
  intros Ha Hb. unfold cmp, l_cmp. rewrite !weight_spec by assumption. cbn [obind].
  rewrite !abs_length. unfold abs. rewrite !of_bits_bits by (apply Ha || apply Hb). reflexivity.
Qed.

Lemma l_cmp_eq a b : l_cmp a b = Eq <-> a = b.
Proof.
  unfold l_cmp. split.
  - destruct (Nat.compare_spec (length a) (length b)) as [El|?|?]; try discriminate.
    destruct (Nat.compare_spec (l_weight a) (l_weight b)) as [Ew|?|?]; try discriminate.
    intros E. apply N.compare_eq in E.
    rewrite <- (bits_of_bits a), <- (bits_of_bits b). now rewrite E, El.
  - intros ->. now rewrite !Nat.compare_refl, N.compare_refl.
Qed.

Lemma l_cmp_antisym a b : l_cmp b a = CompOpp (l_cmp a b).
Proof.
  unfold l_cmp. rewrite (Nat.compare_antisym (length a) (length b)).
  destruct (Nat.compare (length a) (length b)); cbn [CompOpp]; try reflexivity.
  rewrite (Nat.compare_antisym (l_weight a) (l_weight b)).
  destruct (Nat.compare (l_weight a) (l_weight b)); cbn [CompOpp]; try reflexivity.
  apply N.compare_antisym.
Qed.

Lemma l_cmp_lt_trans a b c : l_cmp a b = Lt -> l_cmp b c = Lt -> l_cmp a c = Lt.
Proof.
  unfold l_cmp.
  destruct (Nat.compare_spec (length a) (length b)) as [E1|L1|G1]; try discriminate;
  destruct (Nat.compare_spec (length b) (length c)) as [E2|L2|G2]; try discriminate;
  destruct (Nat.compare_spec (length a) (length c)) as [E3|L3|G3]; try lia; try reflexivity;
  destruct (Nat.compare_spec (l_weight a) (l_weight b)) as [F1|M1|?]; try discriminate;
  destruct (Nat.compare_spec (l_weight b) (l_weight c)) as [F2|M2|?]; try discriminate;
  destruct (Nat.compare_spec (l_weight a) (l_weight c)) as [F3|M3|?]; try lia; try reflexivity;
  rewrite !N.compare_lt_iff; lia.
Qed.

(* ---------- histories ---------- *)
Lemma step_refines b o : Inv b -> refines (step b o) (l_step (abs b) o).
Proof.
  intros Hb. destruct o as [i x|x|v l|i|i x|l]; cbn [step l_step].
  - apply set_spec; exact Hb.
  - apply push_spec; exact Hb.
  - pose proof (new_spec v l) as Hn.
    destruct ((l <=? 64) && (v <? 2 ^ N.of_nat l)%N) eqn:E; cbn [andb].
    + destruct Hn as [c [Ec [Hc Hac]]]. rewrite Ec. cbn [obind].
      pose proof (append_spec b c Hb Hc) as Ha. rewrite Hac, bits_length in Ha. exact Ha.
    + cbn in Hn. rewrite Hn. reflexivity.
  - apply remove_spec; exact Hb.
  - apply insert_spec; exact Hb.
  - apply sub_spec; exact Hb.
Qed.

Lemma run_step_refines b o : Inv b -> Inv (run_step b o) /\ abs (run_step b o) = l_run_step (abs b) o.
Proof.
  intros Hb. pose proof (step_refines b o Hb) as H. unfold run_step, l_run_step.
  destruct (l_step (abs b) o) as [l'|]; cbn [refines] in H.
  - destruct H as [b' [E [Hi Ha]]]. rewrite E. auto.
  - rewrite H. auto.
Qed.

Lemma history_refines ops b :
  Inv b -> Inv (fold_left run_step ops b) /\ abs (fold_left run_step ops b) = fold_left l_run_step ops (abs b).
Proof.
  revert b. induction ops as [|o ops IH]; intros b Hb; cbn [fold_left]; [auto|].
  destruct (run_step_refines b o Hb) as [Hi Ha]. rewrite <- Ha. apply IH. exact Hi.
Qed.

(* generate *)
Lemma generate_spec l : l <= 64 ->
  exists gs, generate l = Some gs /\ length gs = 2 ^ l /\
    (forall k, k < 2 ^ l -> exists g, nth_error gs k = Some g /\ Inv g /\ abs g = bits (N.of_nat k) l).
Proof.
  intros Hl. unfold generate. rewrite mask_some by lia. cbn [obind]. eexists; split; [reflexivity|].
  assert (E : S (N.to_nat (N.ones (N.of_nat l))) = 2 ^ l).
  { rewrite N.ones_equiv. assert (N.to_nat (2 ^ N.of_nat l) = 2 ^ l).
    { rewrite <- (Nat2N.id (2 ^ l)). f_equal. rewrite Nat2N.inj_pow. reflexivity. }
    assert (2 ^ l <> 0) by (apply Nat.pow_nonzero; lia). lia. }
  rewrite E. split; [now rewrite map_length, seq_length|].
  intros k Hk. exists (mk (N.of_nat k) l). split.
  - rewrite nth_error_map, nth_error_nth' with (d := 0) by (rewrite seq_length; lia).
    rewrite seq_nth by lia. reflexivity.
  - split; [|reflexivity]. split; [exact Hl|]. cbn [val len].
    change 2%N with (N.of_nat 2). rewrite <- Nat2N.inj_pow. lia.
Qed.

Lemma generate_none l : 64 < l -> generate l = None.
Proof. intros H. unfold generate. now rewrite mask_none by lia. Qed.
