(* Vertical composition, part 2: what the breadth-first search of take_stackable_comps computes.
   * soundness: every collected component is linked (through `contains`) to a component collected before it -
     stated with two predicates closed under links ([bfs_sound]);
   * closure: when every middle component has at most one owner in the opposite pool ([cnt] <= 1), no component left
     in the pools is linked to a collected one ([bfs_closed]);
   * the Euler number, the dots and the tangles of the component built by stack_comps ([stack_comps_spec]). *)
From Coq Require Import List Arith Bool Lia ZArith Permutation.
Import ListNotations.
Require Import Yui.Model.Link Yui.Model.Tng Yui.Model.TngCob Yui.Model.TngStack.
Require Import Yui.Proofs.TngPCob Yui.Proofs.TngPStackBase.

(* ---------- number of owners of a middle component in a pool ---------- *)
Definition cnt (sel : cobcomp -> tng) (pool : list cobcomp) (m : path) : nat := length (filter (hit sel m) pool).

Lemma cnt_app : forall sel a b m, cnt sel (a ++ b) m = cnt sel a m + cnt sel b m.
Proof. intros. unfold cnt. rewrite filter_app, app_length. reflexivity. Qed.

Lemma cnt_cons : forall sel x l m, cnt sel (x :: l) m = (if hit sel m x then 1 else 0) + cnt sel l m.
Proof. intros. unfold cnt. cbn [filter]. destruct (hit sel m x); reflexivity. Qed.

Lemma cnt_perm : forall sel a b m, Permutation a b -> cnt sel a m = cnt sel b m.
Proof.
  intros sel a b m Hp. unfold cnt. induction Hp; cbn [filter].
  - reflexivity.
  - destruct (hit sel m x); cbn [length]; lia.
  - destruct (hit sel m x), (hit sel m y); cbn [length]; lia.
  - lia.
Qed.

Lemma cnt_sub : forall sel pool pulled pool' m, Permutation pool (pulled ++ pool') -> cnt sel pool' m <= cnt sel pool m.
Proof. intros sel pool pulled pool' m Hp. rewrite (cnt_perm _ _ _ m Hp), cnt_app. lia. Qed.

Lemma cnt_zero : forall sel pool m, cnt sel pool m = 0 -> forall t, In t pool -> hit sel m t = false.
Proof.
  intros sel pool m. unfold cnt. induction pool as [|x r IH]; cbn [filter]; [intros _ t []|].
  destruct (hit sel m x) eqn:Ex; cbn [length]; [discriminate|]. intros E t [<-|Ht]; auto.
Qed.

Lemma perm_in_sub : forall (pool pulled pool' : list cobcomp) t, Permutation pool (pulled ++ pool') -> In t pool' -> In t pool.
Proof.
  intros pool pulled pool' t Hp Ht. eapply Permutation_in; [apply Permutation_sym; exact Hp|]. apply in_or_app. auto.
Qed.
Lemma perm_in_pulled : forall (pool pulled pool' : list cobcomp) t, Permutation pool (pulled ++ pool') -> In t pulled -> In t pool.
Proof.
  intros pool pulled pool' t Hp Ht. eapply Permutation_in; [apply Permutation_sym; exact Hp|]. apply in_or_app. auto.
Qed.

(* ---------- closure ---------- *)
Lemma pull_closed : forall sel cs pool q pool' q', pull sel cs pool q = (pool', q') ->
  (forall m, In m cs -> cnt sel pool m <= 1) ->
  forall m, In m cs -> forall t, In t pool' -> hit sel m t = false.
Proof.
  intros sel. induction cs as [|m0 r IH]; intros pool q pool' q'; cbn [pull]; [intros _ _ m []|].
  destruct (find_index _ pool) as [i|] eqn:Ef.
  - destruct (find_index_split_g _ _ _ _ Ef) as (l1 & x & l2 & -> & -> & Hx & _).
    rewrite remove_nth_middle_g, nth_middle. intros E Hc.
    destruct (pull_spec _ _ _ _ _ _ E) as (pl & _ & Hp & _).
    assert (H0 : cnt sel (l1 ++ l2) m0 = 0).
    { pose proof (Hc m0 (or_introl eq_refl)) as H1. rewrite cnt_app, cnt_cons in H1. rewrite cnt_app.
      unfold hit in H1 at 1. rewrite Hx in H1. lia. }
    intros m [<-|Hm] t Ht.
    + apply (cnt_zero _ _ _ H0). eapply perm_in_sub; eauto.
    + eapply (IH _ _ _ _ E); eauto. intros m' Hm'. pose proof (Hc m' (or_intror Hm')) as H1.
      rewrite cnt_app, cnt_cons in H1. rewrite cnt_app. lia.
  - intros E Hc. destruct (pull_spec _ _ _ _ _ _ E) as (pl & _ & Hp & _). intros m [<-|Hm] t Ht.
    + apply (find_index_none_g _ _ _ Ef). eapply perm_in_sub; eauto.
    + eapply (IH _ _ _ _ E); eauto. intros m' Hm'. apply Hc. right. exact Hm'.
Qed.

Lemma drain_closed : forall other own q pool qo res pool' qo' res',
  drain other own q pool qo res = (pool', qo', res') ->
  (forall b m, In b q -> In m (own b) -> cnt other pool m <= 1) ->
  forall b m t, In b q -> In m (own b) -> In t pool' -> hit other m t = false.
Proof.
  intros other own. induction q as [|b0 r IH]; intros pool qo res pool' qo' res'; cbn [drain]; [intros _ _ b m t []|].
  destruct (pull other (own b0) pool qo) as [pool1 qo1] eqn:Ep. intros E Hc.
  destruct (pull_spec _ _ _ _ _ _ Ep) as (p1 & _ & Hp1 & _).
  destruct (drain_spec _ _ _ _ _ _ _ _ _ E) as (p2 & _ & _ & Hp2 & _).
  intros b m t [<-|Hb] Hm Ht.
  - eapply (pull_closed _ _ _ _ _ _ Ep); eauto.
    + intros m' Hm'. apply (Hc b0 m'); auto. left. reflexivity.
    + eapply perm_in_sub; eauto.
  - eapply (IH _ _ _ _ _ _ E); eauto. intros b' m' Hb' Hm'.
    eapply Nat.le_trans; [eapply cnt_sub; exact Hp1|]. apply (Hc b' m'); auto. right. exact Hb'.
Qed.

Lemma bfs_closed : forall fuel bot top qb qt resb rest bot' top' gb gt,
  bfs fuel bot top qb qt resb rest = Some (bot', top', gb, gt) ->
  (forall b m, In b (bot ++ qb) -> In m (ctgt b) -> cnt csrc top m <= 1) ->
  (forall t m, In t (top ++ qt) -> In m (csrc t) -> cnt ctgt bot m <= 1) ->
  (forall b m t, In b resb -> In m (ctgt b) -> In t top -> hit csrc m t = false) ->
  (forall t m b, In t rest -> In m (csrc t) -> In b bot -> hit ctgt m b = false) ->
  (forall b m t, In b gb -> In m (ctgt b) -> In t top' -> hit csrc m t = false) /\
  (forall t m b, In t gt -> In m (csrc t) -> In b bot' -> hit ctgt m b = false).
Proof.
  induction fuel as [|f IH]; intros bot top qb qt resb rest bot' top' gb gt; cbn [bfs].
  - destruct (is_nil qb && is_nil qt) eqn:En; [|discriminate].
    intros E. inversion E; subst. auto.
  - destruct (is_nil qb && is_nil qt) eqn:En; [intros E; inversion E; subst; auto|].
    destruct (drain csrc ctgt qb top qt resb) as [[top1 qt1] resb1] eqn:E1.
    destruct (drain ctgt csrc qt1 bot [] rest) as [[bot1 qb1] rest1] eqn:E2. intros E U1 U2 C1 C2.
    destruct (drain_spec _ _ _ _ _ _ _ _ _ E1) as (p1 & -> & -> & Hp1 & _).
    destruct (drain_spec _ _ _ _ _ _ _ _ _ E2) as (p2 & Eq & -> & Hp2 & _). cbn [app] in Eq. subst qb1.
    assert (D1 := drain_closed _ _ _ _ _ _ _ _ _ E1). assert (D2 := drain_closed _ _ _ _ _ _ _ _ _ E2).
    apply (IH _ _ _ _ _ _ _ _ _ _ E).
    + intros b m Hb Hm. eapply Nat.le_trans; [eapply cnt_sub; exact Hp1|]. apply (U1 b m); auto.
      apply in_or_app. left. apply in_app_or in Hb. destruct Hb as [Hb|Hb].
      * eapply perm_in_sub; eauto.
      * eapply perm_in_pulled; eauto.
    + intros t m Ht Hm. rewrite app_nil_r in Ht. eapply Nat.le_trans; [eapply cnt_sub; exact Hp2|]. apply (U2 t m); auto.
      apply in_or_app. left. eapply perm_in_sub; eauto.
    + intros b m t Hb Hm Ht. apply in_app_or in Hb. destruct Hb as [Hb|Hb].
      * apply (C1 b m t); auto. eapply perm_in_sub; eauto.
      * apply (D1 ltac:(intros b' m' Hb' Hm'; apply (U1 b' m'); auto; apply in_or_app; right; exact Hb') b m t); auto.
    + intros t m b Ht Hm Hb. apply in_app_or in Ht. destruct Ht as [Ht|Ht].
      * apply (C2 t m b); auto. eapply perm_in_sub; eauto.
      * apply (D2 ltac:(intros t' m' Ht' Hm'; apply (U2 t' m'); auto; apply in_or_app;
                          apply in_app_or in Ht'; destruct Ht' as [Ht'|Ht']; [right; exact Ht'|left; eapply perm_in_pulled; eauto])
                 t m b); auto.
Qed.

(* ---------- soundness ---------- *)
Lemma bfs_sound : forall (Pb Pt : cobcomp -> Prop) fuel bot top qb qt resb rest bot' top' gb gt,
  bfs fuel bot top qb qt resb rest = Some (bot', top', gb, gt) ->
  (forall b t m, Pb b -> In t top -> In m (ctgt b) -> hit csrc m t = true -> Pt t) ->
  (forall t b m, Pt t -> In b bot -> In m (csrc t) -> hit ctgt m b = true -> Pb b) ->
  Forall Pb (qb ++ resb) -> Forall Pt (qt ++ rest) -> Forall Pb gb /\ Forall Pt gt.
Proof.
  intros Pb Pt. induction fuel as [|f IH]; intros bot top qb qt resb rest bot' top' gb gt; cbn [bfs].
  - destruct (is_nil qb && is_nil qt) eqn:En; [|discriminate].
    apply andb_true_iff in En. destruct En as [E1 E2]. destruct qb; [|discriminate]. destruct qt; [|discriminate].
    intros E. inversion E; subst. auto.
  - destruct (is_nil qb && is_nil qt) eqn:En.
    + apply andb_true_iff in En. destruct En as [E1 E2]. destruct qb; [|discriminate]. destruct qt; [|discriminate].
      intros E. inversion E; subst. auto.
    + destruct (drain csrc ctgt qb top qt resb) as [[top1 qt1] resb1] eqn:E1.
      destruct (drain ctgt csrc qt1 bot [] rest) as [[bot1 qb1] rest1] eqn:E2. intros E L1 L2 Fb Ft.
      destruct (drain_spec _ _ _ _ _ _ _ _ _ E1) as (p1 & -> & -> & Hp1 & Hf1).
      destruct (drain_spec _ _ _ _ _ _ _ _ _ E2) as (p2 & Eq & -> & Hp2 & Hf2). cbn [app] in Eq. subst qb1.
      apply Forall_app in Fb. destruct Fb as [Fqb Frb]. apply Forall_app in Ft. destruct Ft as [Fqt Frt].
      assert (F1 : Forall Pt p1).
      { rewrite Forall_forall in *. intros t Ht. destruct (Hf1 t Ht) as (b & m & Hb & Hm & Hh).
        apply (L1 b t m); auto. eapply perm_in_pulled; eauto. }
      assert (F2 : Forall Pb p2).
      { rewrite Forall_forall in *. intros b Hb. destruct (Hf2 b Hb) as (t & m & Ht & Hm & Hh).
        apply (L2 t b m); auto; [|eapply perm_in_pulled; eauto].
        apply in_app_or in Ht. destruct Ht as [Ht|Ht]; auto. }
      apply (IH _ _ _ _ _ _ _ _ _ _ E).
      * intros b t m Hb Ht. apply L1; auto. eapply perm_in_sub; eauto.
      * intros t b m Ht Hb. apply L2; auto. eapply perm_in_sub; eauto.
      * apply Forall_app. split; [exact F2|apply Forall_app; split; assumption].
      * cbn [app]. apply Forall_app. split; [exact Frt|apply Forall_app; split; assumption].
Qed.

(* ---------- stack_comps ---------- *)
Lemma is_nil_false : forall (A : Type) (l : list A), is_nil l = false <-> l <> [].
Proof. intros A [|x l]; cbn; split; congruence. Qed.

Theorem stack_comps_spec : forall bs ts c, stack_comps bs ts = Some c ->
  bs <> [] /\ ts <> [] /\
  exists x0 x1, sum_opt (map cc_euler bs) = Some x0 /\ sum_opt (map cc_euler ts) = Some x1 /\
    cc_euler c = Some (x0 + x1 - Z.of_nat (sum_nat (map (fun b => tng_euler_num (ctgt b)) bs)))%Z /\
    tng_fold_connect (map csrc bs) = Some (csrc c) /\ tng_fold_connect (map ctgt ts) = Some (ctgt c) /\
    cdx c = sum_nat (map cdx bs) + sum_nat (map cdx ts) /\ cdy c = sum_nat (map cdy bs) + sum_nat (map cdy ts).
Proof.
  intros bs ts c. unfold stack_comps.
  destruct (is_nil bs) eqn:Nb; cbn [orb]; [discriminate|]. destruct (is_nil ts) eqn:Nt; [discriminate|].
  apply is_nil_false in Nb, Nt.
  destruct (sum_opt (map cc_euler bs)) as [x0|] eqn:E0; [|discriminate].
  destruct (sum_opt (map cc_euler ts)) as [x1|] eqn:E1; [|discriminate].
  destruct (tng_fold_connect (map csrc bs)) as [s'|] eqn:Es; [|discriminate].
  destruct (tng_fold_connect (map ctgt ts)) as [t'|] eqn:Et; [|discriminate].
  destruct (cc_nbdr _) as [b|] eqn:Eb; [|discriminate].
  set (a := sum_nat (map (fun b0 => tng_euler_num (ctgt b0)) bs)).
  set (g := (2 - (x0 + x1 + Z.of_nat b) + Z.of_nat a)%Z).
  destruct (g <? 0)%Z eqn:Eg; [discriminate|]. apply Z.ltb_ge in Eg.
  destruct (Z.even g) eqn:Ee; cbn [negb]; [|discriminate].
  intros E. inversion E; subst c; clear E. split; [exact Nb|]. split; [exact Nt|]. exists x0, x1.
  cbn [csrc ctgt cdx cdy]. repeat split; auto.
  unfold cc_euler. rewrite (cc_nbdr_ext _ (mkCC s' t' 0 (sum_nat (map cdx bs) + sum_nat (map cdx ts))
    (sum_nat (map cdy bs) + sum_nat (map cdy ts)))) by reflexivity. rewrite Eb.
  cbn [cgenus]. f_equal. pose proof (even_half g Eg Ee). unfold g in *. lia.
Qed.
