(* C07, composition of coordinate maps, part 1: Trans.
   A Trans built through its API (id / new / append / merge(d) / reduce) always satisfies [trans_ok]: its factors
   f_k : n_(k+1) x n_k and b_k : n_k x n_(k+1) have the shapes of a chain src = n_0, .., n_last = tgt.  For such a
   Trans  forward_mat / backward_mat  return the products  f_n * .. * f_0  ([fwd_fun]) and  b_0 * .. * b_n
   ([bwd_fun]) - with and without the one-factor shortcut -,  forward / backward  apply them to vectors,
   merge composes them and reduce changes neither. *)
From Coq Require Import Arith List Lia Ring Bool.
Require Import Yui.Base.Ring Yui.Base.MatF Yui.Base.MatL Yui.Model.HomologyCalc Yui.Model.HomologyMerge.
Import ListNotations.

Section C07MergeTrans.
  Context {R : Type} (o : ring_ops R) (L : ring_laws o).

  Local Notation "0" := (rzero o).
  Local Notation "1" := (rone o).
  Local Infix "+" := (radd o).
  Local Infix "*" := (rmul o).
  Local Notation mg := (mget o).

  Add Ring Rring07m : (ring_theory_of_laws o L).

  (* ---------- the products, as functions ---------- *)
  (* f_n * .. * f_1 * f_0   for the list [f_0; f_1; ..; f_n] *)
  Fixpoint fwd_fun (fs : list (dmat R)) : mat R :=
    match fs with
    | [] => mid o
    | f :: r => mmul o (nr f) (fwd_fun r) (mg f)
    end.
  (* b_0 * b_1 * .. * b_n   for the list [b_0; b_1; ..; b_n] *)
  Fixpoint bwd_fun (bs : list (dmat R)) : mat R :=
    match bs with
    | [] => mid o
    | b :: r => mmul o (nc b) (mg b) (bwd_fun r)
    end.

  (* the shape invariant of a Trans *)
  Inductive chain_ok : nat -> list (dmat R) -> list (dmat R) -> nat -> Prop :=
  | co_nil n : chain_ok n [] [] n
  | co_cons n f b fs bs m :
      nc f = n -> nr b = n -> nc b = nr f -> chain_ok (nr f) fs bs m -> chain_ok n (f :: fs) (b :: bs) m.
  Definition trans_ok (t : trans R) : Prop := chain_ok (src_dim t) (f_mats t) (b_mats t) (tgt_dim t).

  Lemma chain_ok_length n fs bs m : chain_ok n fs bs m -> length fs = length bs.
  Proof. induction 1; cbn; congruence. Qed.

  Lemma chain_ok_app n fs bs m fs' bs' k :
    chain_ok n fs bs m -> chain_ok m fs' bs' k -> chain_ok n (fs ++ fs') (bs ++ bs') k.
  Proof. induction 1; intros H'; cbn; [exact H'|]. constructor; auto. Qed.

  (* ---------- dense operations ---------- *)
  Lemma mget_dmk' m n f i j : (i < m)%nat -> (j < n)%nat -> mg (dmk m n f) i j = f i j.
  Proof. intros Hi Hj. unfold mget, dmk. cbn [ent]. now apply lget_lmk. Qed.

  Lemma mget_d_id' n i j : (i < n)%nat -> (j < n)%nat -> mg (d_id o n) i j = mid o i j.
  Proof. intros Hi Hj. unfold d_id. now rewrite mget_dmk'. Qed.

  Lemma dmul_spec A B :
    nc A = nr B ->
    exists C, dmul o A B = Some C /\ nr C = nr A /\ nc C = nc B /\
              forall i j, (i < nr A)%nat -> (j < nc B)%nat -> mg C i j = mmul o (nc A) (mg A) (mg B) i j.
  Proof.
    intros H. unfold dmul. destruct (Nat.eqb_spec (nc A) (nr B)) as [_|N]; [|contradiction].
    eexists. split; [reflexivity|].
    cbn [nr nc dmk]. split; [reflexivity|]. split; [reflexivity|].
    intros i j Hi Hj. rewrite mget_dmk' by assumption. reflexivity.
  Qed.

  Lemma dmul_none A B : nc A <> nr B -> dmul o A B = None.
  Proof. intros H. unfold dmul. apply Nat.eqb_neq in H. now rewrite H. Qed.

  Lemma nth_map_seq (g : nat -> R) n k : (k < n)%nat -> nth k (map g (seq 0 n)) 0 = g k.
  Proof.
    intros Hk. rewrite (nth_indep _ 0 (g 0%nat)) by now rewrite map_length, seq_length.
    rewrite map_nth. now rewrite seq_nth.
  Qed.

  Lemma mat_vec_spec A v :
    nc A = length v ->
    exists w, mat_vec o A v = Some w /\ length w = nr A /\
              forall i, (i < nr A)%nat -> vget o w i = mvec o (nc A) (mg A) (vget o v) i.
  Proof.
    intros H. unfold mat_vec. destruct (Nat.eqb_spec (nc A) (length v)) as [_|N]; [|contradiction].
    eexists. split; [reflexivity|].
    split; [now rewrite map_length, seq_length|].
    intros i Hi. unfold vget at 1. rewrite nth_map_seq by exact Hi. reflexivity.
  Qed.

  Lemma mat_vec_none A v : nc A <> length v -> mat_vec o A v = None.
  Proof. intros H. unfold mat_vec. apply Nat.eqb_neq in H. now rewrite H. Qed.

  Lemma mvec_ext_v (A : mat R) (v v' : nat -> R) p i :
    (forall l, (l < p)%nat -> v l = v' l) -> mvec o p A v i = mvec o p A v' i.
  Proof. intros H. unfold mvec. apply (sum_ext o). intros l Hl. now rewrite H. Qed.

  Lemma mvec_ext_m (A A' : mat R) (v : nat -> R) p i :
    (forall l, (l < p)%nat -> A i l = A' i l) -> mvec o p A v i = mvec o p A' v i.
  Proof. intros H. unfold mvec. apply (sum_ext o). intros l Hl. now rewrite H. Qed.

  Lemma mmul_ext_l' n (A A' B : mat R) i j :
    (forall l, (l < n)%nat -> A i l = A' i l) -> mmul o n A B i j = mmul o n A' B i j.
  Proof. intros H. unfold mmul. apply (sum_ext o). intros l Hl. now rewrite H. Qed.

  Lemma mmul_ext_r' n (A B B' : mat R) i j :
    (forall l, (l < n)%nat -> B l j = B' l j) -> mmul o n A B i j = mmul o n A B' i j.
  Proof. intros H. unfold mmul. apply (sum_ext o). intros l Hl. now rewrite H. Qed.

  Lemma mvec_id' n (z : nat -> R) i : (i < n)%nat -> mvec o n (mid o) z i = z i.
  Proof.
    intros Hi. unfold mvec, mid.
    rewrite (sum_ext o n _ (fun l => if l =? i then z l else 0)).
    - now rewrite (sum_delta o L).
    - intros l _. rewrite Nat.eqb_sym. destruct (l =? i); ring.
  Qed.

  Lemma vec_ext (v w : list R) n :
    length v = n -> length w = n -> (forall i, (i < n)%nat -> vget o v i = vget o w i) -> v = w.
  Proof.
    intros Hv Hw H. apply (nth_ext v w 0 0); [congruence|].
    intros i Hi. apply H. congruence.
  Qed.

  (* ---------- the folds of forward_mat / backward_mat ---------- *)
  Lemma ofold_mul_r_snoc ms f res :
    ofold_mul_r o (ms ++ [f]) res = obind (ofold_mul_r o ms res) (fun x => dmul o x f).
  Proof.
    revert res. induction ms as [|a ms IH]; intros res; cbn [app ofold_mul_r].
    - cbn [obind]. destruct (dmul o res f); reflexivity.
    - destruct (dmul o res a); cbn [obind]; [apply IH|reflexivity].
  Qed.

  Lemma ofold_mul_l_snoc ms b res :
    ofold_mul_l o (ms ++ [b]) res = obind (ofold_mul_l o ms res) (fun x => dmul o b x).
  Proof.
    revert res. induction ms as [|a ms IH]; intros res; cbn [app ofold_mul_l].
    - cbn [obind]. destruct (dmul o b res); reflexivity.
    - destruct (dmul o a res); cbn [obind]; [apply IH|reflexivity].
  Qed.

  Lemma fwd_fold n fs bs m :
    chain_ok n fs bs m ->
    exists p, ofold_mul_r o (rev fs) (d_id o m) = Some p /\ nr p = m /\ nc p = n /\
              meq m n (mg p) (fwd_fun fs).
  Proof.
    induction 1 as [n|n f b fs bs m Hf Hb Hbf Hc IH].
    - exists (d_id o n). cbn [rev ofold_mul_r]. split; [reflexivity|]. split; [reflexivity|]. split; [reflexivity|].
      intros i j Hi Hj. cbn [fwd_fun]. now apply mget_d_id'.
    - destruct IH as [x [Ex [X1 [X2 X3]]]].
      cbn [rev]. rewrite ofold_mul_r_snoc, Ex. cbn [obind].
      destruct (dmul_spec x f X2) as [p [Ep [P1 [P2 P3]]]].
      exists p. split; [exact Ep|]. split; [congruence|]. split; [congruence|].
      intros i j Hi Hj. rewrite P3 by lia. cbn [fwd_fun]. rewrite X2.
      apply mmul_ext_l'. intros l Hl. apply X3; assumption.
  Qed.

  Lemma bwd_fold n fs bs m :
    chain_ok n fs bs m ->
    exists q, ofold_mul_l o (rev bs) (d_id o m) = Some q /\ nr q = n /\ nc q = m /\
              meq n m (mg q) (bwd_fun bs).
  Proof.
    induction 1 as [n|n f b fs bs m Hf Hb Hbf Hc IH].
    - exists (d_id o n). cbn [rev ofold_mul_l]. split; [reflexivity|]. split; [reflexivity|]. split; [reflexivity|].
      intros i j Hi Hj. cbn [bwd_fun]. now apply mget_d_id'.
    - destruct IH as [x [Ex [X1 [X2 X3]]]].
      cbn [rev]. rewrite ofold_mul_l_snoc, Ex. cbn [obind].
      assert (Hbx : nc b = nr x) by congruence.
      destruct (dmul_spec b x Hbx) as [q [Eq [Q1 [Q2 Q3]]]].
      exists q. split; [exact Eq|]. split; [congruence|]. split; [congruence|].
      intros i j Hi Hj. rewrite Q3 by lia. cbn [bwd_fun].
      apply mmul_ext_r'. intros l Hl. apply X3; lia.
  Qed.

  Lemma fwd_fun_single f i j : (i < nr f)%nat -> fwd_fun [f] i j = mg f i j.
  Proof. intros Hi. cbn [fwd_fun]. now apply (mmul_id_l o L). Qed.
  Lemma bwd_fun_single b i j : (j < nc b)%nat -> bwd_fun [b] i j = mg b i j.
  Proof. intros Hj. cbn [bwd_fun]. now apply (mmul_id_r o L). Qed.

  (* forward_mat returns the product of the forward factors (shortcut for one factor included) *)
  Theorem forward_mat_spec t :
    trans_ok t ->
    exists p, forward_mat o t = Some p /\ nr p = tgt_dim t /\ nc p = src_dim t /\
              meq (tgt_dim t) (src_dim t) (mg p) (fwd_fun (f_mats t)).
  Proof.
    unfold trans_ok, forward_mat. intros H.
    destruct (f_mats t) as [|f [|f' r]] eqn:E.
    - rewrite <- E in *. apply (fwd_fold _ _ _ _ H).
    - inversion H as [|n f0 b fs bs m Hf Hb Hbf Hc]; subst. inversion Hc; subst.
      exists f. split; [reflexivity|]. split; [congruence|]. split; [congruence|].
      intros i j Hi Hj. symmetry. apply fwd_fun_single. congruence.
    - rewrite <- E in *. apply (fwd_fold _ _ _ _ H).
  Qed.

  Theorem backward_mat_spec t :
    trans_ok t ->
    exists q, backward_mat o t = Some q /\ nr q = src_dim t /\ nc q = tgt_dim t /\
              meq (src_dim t) (tgt_dim t) (mg q) (bwd_fun (b_mats t)).
  Proof.
    unfold trans_ok, backward_mat. intros H.
    destruct (b_mats t) as [|b [|b' r]] eqn:E.
    - rewrite <- E in *. apply (bwd_fold _ _ _ _ H).
    - inversion H as [|n f0 b0 fs bs m Hf Hb Hbf Hc]; subst. inversion Hc; subst.
      exists b. split; [reflexivity|]. split; [congruence|]. split; [congruence|].
      intros i j Hi Hj. symmetry. apply bwd_fun_single. congruence.
    - rewrite <- E in *. apply (bwd_fold _ _ _ _ H).
  Qed.

  (* ---------- forward / backward on vectors ---------- *)
  Lemma ofold_vec_snoc ms b v :
    ofold_vec o (ms ++ [b]) v = obind (ofold_vec o ms v) (fun x => mat_vec o b x).
  Proof.
    revert v. induction ms as [|a ms IH]; intros v; cbn [app ofold_vec].
    - cbn [obind]. destruct (mat_vec o b v); reflexivity.
    - destruct (mat_vec o a v); cbn [obind]; [apply IH|reflexivity].
  Qed.

  Lemma ofold_vec_fwd n fs bs m :
    chain_ok n fs bs m -> forall v, length v = n ->
    exists w, ofold_vec o fs v = Some w /\ length w = m /\
              forall i, (i < m)%nat -> vget o w i = mvec o n (fwd_fun fs) (vget o v) i.
  Proof.
    induction 1 as [n|n f b fs bs m Hf Hb Hbf Hc IH]; intros v Hv.
    - exists v. split; [reflexivity|]. split; [exact Hv|].
      intros i Hi. cbn [fwd_fun]. symmetry. now apply mvec_id'.
    - assert (Hfv : nc f = length v) by congruence.
      destruct (mat_vec_spec f v Hfv) as [y [Ey [Y1 Y2]]].
      destruct (IH y Y1) as [w [Ew [W1 W2]]].
      exists w. cbn [ofold_vec]. rewrite Ey. cbn [obind]. split; [exact Ew|]. split; [exact W1|].
      intros i Hi. rewrite W2 by exact Hi. cbn [fwd_fun].
      rewrite (mvec_mmul o L). apply mvec_ext_v. intros l Hl. rewrite Y2 by exact Hl. now rewrite Hf.
  Qed.

  Lemma ofold_vec_bwd n fs bs m :
    chain_ok n fs bs m -> forall v, length v = m ->
    exists w, ofold_vec o (rev bs) v = Some w /\ length w = n /\
              forall i, (i < n)%nat -> vget o w i = mvec o m (bwd_fun bs) (vget o v) i.
  Proof.
    induction 1 as [n|n f b fs bs m Hf Hb Hbf Hc IH]; intros v Hv.
    - exists v. split; [reflexivity|]. split; [exact Hv|].
      intros i Hi. cbn [bwd_fun]. symmetry. now apply mvec_id'.
    - destruct (IH v Hv) as [y [Ey [Y1 Y2]]].
      assert (Hby : nc b = length y) by congruence.
      destruct (mat_vec_spec b y Hby) as [w [Ew [W1 W2]]].
      exists w. cbn [rev]. rewrite ofold_vec_snoc, Ey. cbn [obind]. split; [exact Ew|]. split; [congruence|].
      intros i Hi. rewrite W2 by lia. cbn [bwd_fun].
      rewrite (mvec_mmul o L). apply mvec_ext_v. intros l Hl. apply Y2. lia.
  Qed.

  Theorem forward_spec t v :
    trans_ok t -> length v = src_dim t ->
    exists w, forward o t v = Some w /\ length w = tgt_dim t /\
              forall i, (i < tgt_dim t)%nat -> vget o w i = mvec o (src_dim t) (fwd_fun (f_mats t)) (vget o v) i.
  Proof.
    intros H Hv. unfold forward. rewrite Hv, Nat.eqb_refl. exact (ofold_vec_fwd _ _ _ _ H v Hv).
  Qed.

  Theorem backward_spec t v :
    trans_ok t -> length v = tgt_dim t ->
    exists w, backward o t v = Some w /\ length w = src_dim t /\
              forall i, (i < src_dim t)%nat -> vget o w i = mvec o (tgt_dim t) (bwd_fun (b_mats t)) (vget o v) i.
  Proof.
    intros H Hv. unfold backward. rewrite Hv, Nat.eqb_refl. exact (ofold_vec_bwd _ _ _ _ H v Hv).
  Qed.

  Lemma forward_none t v : length v <> src_dim t -> forward o t v = None.
  Proof. intros H. unfold forward. apply Nat.eqb_neq in H. now rewrite H. Qed.
  Lemma backward_none t v : length v <> tgt_dim t -> backward o t v = None.
  Proof. intros H. unfold backward. apply Nat.eqb_neq in H. now rewrite H. Qed.

  (* two transforms with the same products act in the same way on every vector *)
  Lemma forward_ext t u :
    trans_ok t -> trans_ok u -> src_dim t = src_dim u -> tgt_dim t = tgt_dim u ->
    meq (tgt_dim t) (src_dim t) (fwd_fun (f_mats t)) (fwd_fun (f_mats u)) ->
    forall v, forward o t v = forward o u v.
  Proof.
    intros Ht Hu Hs Hg He v.
    destruct (Nat.eq_dec (length v) (src_dim t)) as [Hv|Hv].
    - destruct (forward_spec t v Ht Hv) as [w [Ew [W1 W2]]].
      assert (Hv' : length v = src_dim u) by congruence.
      destruct (forward_spec u v Hu Hv') as [w' [Ew' [W1' W2']]].
      rewrite Ew, Ew'. f_equal. apply (vec_ext w w' (tgt_dim t)); [exact W1|congruence|].
      intros i Hi. rewrite W2 by exact Hi. rewrite W2' by congruence. rewrite <- Hs.
      apply mvec_ext_m. intros l Hl. now apply He.
    - rewrite (forward_none t v Hv). rewrite forward_none; [reflexivity|congruence].
  Qed.

  Lemma backward_ext t u :
    trans_ok t -> trans_ok u -> src_dim t = src_dim u -> tgt_dim t = tgt_dim u ->
    meq (src_dim t) (tgt_dim t) (bwd_fun (b_mats t)) (bwd_fun (b_mats u)) ->
    forall v, backward o t v = backward o u v.
  Proof.
    intros Ht Hu Hs Hg He v.
    destruct (Nat.eq_dec (length v) (tgt_dim t)) as [Hv|Hv].
    - destruct (backward_spec t v Ht Hv) as [w [Ew [W1 W2]]].
      assert (Hv' : length v = tgt_dim u) by congruence.
      destruct (backward_spec u v Hu Hv') as [w' [Ew' [W1' W2']]].
      rewrite Ew, Ew'. f_equal. apply (vec_ext w w' (src_dim t)); [exact W1|congruence|].
      intros i Hi. rewrite W2 by exact Hi. rewrite W2' by congruence. rewrite <- Hg.
      apply mvec_ext_m. intros l Hl. now apply He.
    - rewrite (backward_none t v Hv). rewrite backward_none; [reflexivity|congruence].
  Qed.

  (* ---------- the constructors keep the invariant ---------- *)
  Lemma trans_id_ok n : trans_ok (trans_id n).
  Proof. unfold trans_ok, trans_id. cbn. constructor. Qed.

  Lemma trans_append_ok t f b t' : trans_ok t -> trans_append t f b = Some t' -> trans_ok t'.
  Proof.
    unfold trans_ok, trans_append. intros H E.
    destruct ((nc f =? nr b) && (nr f =? nc b) && (nc f =? tgt_dim t)) eqn:G; [|discriminate].
    injection E as <-. cbn [src_dim tgt_dim f_mats b_mats].
    rewrite !andb_true_iff, !Nat.eqb_eq in G. destruct G as [[G1 G2] G3].
    apply (chain_ok_app _ _ _ _ _ _ _ H). constructor; try congruence. constructor.
  Qed.

  Lemma trans_new_ok f b t : trans_new f b = Some t -> trans_ok t.
  Proof. unfold trans_new. apply trans_append_ok. apply trans_id_ok. Qed.

  Lemma trans_merged_ok t u tu : trans_ok t -> trans_ok u -> trans_merged t u = Some tu -> trans_ok tu.
  Proof.
    unfold trans_ok, trans_merged. intros Ht Hu E.
    destruct (tgt_dim t =? src_dim u) eqn:G; [|discriminate]. injection E as <-.
    apply Nat.eqb_eq in G. cbn [src_dim tgt_dim f_mats b_mats].
    apply (chain_ok_app _ _ _ _ _ _ _ Ht). now rewrite G.
  Qed.

  (* ---------- merge composes ---------- *)
  Lemma fwd_fun_app n fs bs m fs' bs' k :
    chain_ok n fs bs m -> chain_ok m fs' bs' k ->
    meq k n (fwd_fun (fs ++ fs')) (mmul o m (fwd_fun fs') (fwd_fun fs)).
  Proof.
    induction 1 as [n|n f b fs bs m Hf Hb Hbf Hc IH]; intros H' i j Hi Hj.
    - cbn [app fwd_fun]. symmetry. now apply (mmul_id_r o L).
    - cbn [app fwd_fun]. rewrite <- (mmul_assoc o L).
      apply mmul_ext_l'. intros l Hl. apply (IH H'); assumption.
  Qed.

  Lemma bwd_fun_app n fs bs m fs' bs' k :
    chain_ok n fs bs m -> chain_ok m fs' bs' k ->
    meq n k (bwd_fun (bs ++ bs')) (mmul o m (bwd_fun bs) (bwd_fun bs')).
  Proof.
    induction 1 as [n|n f b fs bs m Hf Hb Hbf Hc IH]; intros H' i j Hi Hj.
    - cbn [app bwd_fun]. symmetry. now apply (mmul_id_l o L).
    - cbn [app bwd_fun]. rewrite (mmul_assoc o L).
      apply mmul_ext_r'. intros l Hl. apply (IH H'); lia.
  Qed.

  Theorem trans_merged_spec t u :
    trans_ok t -> trans_ok u -> tgt_dim t = src_dim u ->
    exists tu, trans_merged t u = Some tu /\ trans_ok tu /\ src_dim tu = src_dim t /\ tgt_dim tu = tgt_dim u /\
      meq (tgt_dim u) (src_dim t) (fwd_fun (f_mats tu)) (mmul o (tgt_dim t) (fwd_fun (f_mats u)) (fwd_fun (f_mats t))) /\
      meq (src_dim t) (tgt_dim u) (bwd_fun (b_mats tu)) (mmul o (tgt_dim t) (bwd_fun (b_mats t)) (bwd_fun (b_mats u))).
  Proof.
    intros Ht Hu G. unfold trans_merged.
    destruct (Nat.eqb_spec (tgt_dim t) (src_dim u)) as [_|N]; [|contradiction]. eexists. split; [reflexivity|].
    unfold trans_ok in *. cbn [src_dim tgt_dim f_mats b_mats]. rewrite <- G in Hu.
    split; [exact (chain_ok_app _ _ _ _ _ _ _ Ht Hu)|]. split; [reflexivity|]. split; [reflexivity|].
    split; [exact (fwd_fun_app _ _ _ _ _ _ _ Ht Hu)|exact (bwd_fun_app _ _ _ _ _ _ _ Ht Hu)].
  Qed.

  Lemma trans_merged_none (t u : trans R) : tgt_dim t <> src_dim u -> trans_merged t u = None.
  Proof. intros H. unfold trans_merged. apply Nat.eqb_neq in H. now rewrite H. Qed.

  (* ---------- reduce changes neither product ---------- *)
  Theorem trans_reduce_spec t :
    trans_ok t ->
    exists t', trans_reduce o t = Some t' /\ trans_ok t' /\ src_dim t' = src_dim t /\ tgt_dim t' = tgt_dim t /\
      (length (f_mats t') <= 1)%nat /\ (length (b_mats t') <= 1)%nat /\
      meq (tgt_dim t) (src_dim t) (fwd_fun (f_mats t')) (fwd_fun (f_mats t)) /\
      meq (src_dim t) (tgt_dim t) (bwd_fun (b_mats t')) (bwd_fun (b_mats t)).
  Proof.
    intros H. pose proof (chain_ok_length _ _ _ _ H) as Hlen. unfold trans_reduce.
    destruct (Nat.ltb_spec 1 (length (f_mats t))) as [G|G].
    - destruct (forward_mat_spec t H) as [p [Ep [P1 [P2 P3]]]].
      destruct (backward_mat_spec t H) as [q [Eq [Q1 [Q2 Q3]]]].
      rewrite Ep. cbn [obind b_mats f_mats src_dim tgt_dim].
      destruct (Nat.ltb_spec 1 (length (b_mats t))) as [G'|G']; [|lia].
      (* backward_mat only reads b_mats and tgt_dim *)
      replace (backward_mat o (mk_trans (src_dim t) (tgt_dim t) [p] (b_mats t))) with (backward_mat o t) by reflexivity.
      rewrite Eq. cbn [obind]. eexists. split; [reflexivity|].
      unfold trans_ok. cbn [src_dim tgt_dim f_mats b_mats].
      split; [constructor; try congruence; rewrite P1; constructor|].
      split; [reflexivity|]. split; [reflexivity|]. split; [cbn; lia|]. split; [cbn; lia|]. split.
      + intros i j Hi Hj. rewrite fwd_fun_single by congruence. now apply P3.
      + intros i j Hi Hj. rewrite bwd_fun_single by congruence. now apply Q3.
    - cbn [obind]. destruct (Nat.ltb_spec 1 (length (b_mats t))) as [G'|G']; [lia|].
      exists t. split; [reflexivity|]. split; [exact H|]. split; [reflexivity|]. split; [reflexivity|].
      split; [exact G|]. split; [exact G'|]. split; apply meq_refl.
  Qed.

  Corollary trans_reduce_forward t t' :
    trans_ok t -> trans_reduce o t = Some t' -> forall v, forward o t' v = forward o t v.
  Proof.
    intros H E v. destruct (trans_reduce_spec t H) as [t'' [E' [Ok [S1 [S2 [_ [_ [F _]]]]]]]].
    rewrite E in E'. injection E' as <-.
    apply forward_ext; try assumption. now rewrite S1, S2.
  Qed.

  Corollary trans_reduce_backward t t' :
    trans_ok t -> trans_reduce o t = Some t' -> forall v, backward o t' v = backward o t v.
  Proof.
    intros H E v. destruct (trans_reduce_spec t H) as [t'' [E' [Ok [S1 [S2 [_ [_ [_ B]]]]]]]].
    rewrite E in E'. injection E' as <-.
    apply backward_ext; try assumption. now rewrite S1, S2.
  Qed.
End C07MergeTrans.
