(* The C12 statements in the form used by Properties/C12.v: hypotheses are the Rust-level predicates
   (CSC invariant, SpMat::is_triang, stored unit diagonal); the proofs reduce them to the semantic
   validity records of C12Triang.v / C12SchurMain.v. *)
From Coq Require Import Arith List Bool Lia.
Require Import Yui.Base.Ring Yui.Base.MatF Yui.Model.Triang Yui.Model.Schur.
Require Import Yui.Proofs.C12Sparse Yui.Proofs.C12Triang Yui.Proofs.C12Schur Yui.Proofs.C12SchurMain.
Import ListNotations.

Section Main.
  Context {R : Type} (o : ring_ops R) (u : unit_ops R) (L : ring_laws o) (UL : unit_laws o u).

  Lemma yvalid_of (a y : spmat R) : wf y = true -> nrows y = nrows a -> yvalid y (nrows a).
  Proof. intros Hy <-. now apply yvalid_intro. Qed.

  Lemma solve_main (upper : bool) (a y : spmat R) :
    wf a = true -> is_triang o upper a = true -> unit_diag u a = true -> wf y = true -> nrows y = nrows a ->
    exists x,
      solve_triangular_st o u upper a y = Some (zeros o (nrows a), x) /\
      solve_triangular o u upper a y = Some x /\
      nrows x = nrows a /\ ncols x = ncols y /\
      meq (nrows a) (ncols y) (mmul o (nrows a) (entry o a) (entry o x)) (entry o y).
  Proof.
    intros Ha Ht Hd Hy Hn.
    pose proof (tvalid_intro o L u UL upper a Ha Ht Hd) as V. pose proof (yvalid_of a y Hy Hn) as Y.
    exists (solution o u upper a y).
    pose proof (solve_triangular_st_spec o L u UL upper a _ y V Y) as E.
    split; [exact E|]. split; [unfold solve_triangular; now rewrite E|].
    split; [reflexivity|]. split; [reflexivity|]. exact (solution_solves o L u UL upper a _ y V Y).
  Qed.

  Lemma solve_col_main (upper : bool) (a y : spmat R) (j : nat) :
    wf a = true -> is_triang o upper a = true -> unit_diag u a = true -> wf y = true -> nrows y = nrows a ->
    exists v,
      solve_col o u upper a (collect_diag a) (col_vec o y j) (zeros o (nrows a)) = Some (zeros o (nrows a), v) /\
      fst v = nrows a /\
      forall i, i < nrows a ->
        sum o (nrows a) (fun k => rmul o (entry o a i k) (ventry o v k)) = entry o y i j.
  Proof.
    intros Ha Ht Hd Hy Hn.
    pose proof (tvalid_intro o L u UL upper a Ha Ht Hd) as V. pose proof (yvalid_of a y Hy Hn) as Y.
    destruct (col_result_spec o L u UL upper a _ y j V Y) as [E [Hf [_ Hs]]].
    exists (col_result o u upper a y j). auto.
  Qed.

  Lemma worker_history_main (upper : bool) (a y : spmat R) (before js : list nat) :
    wf a = true -> is_triang o upper a = true -> unit_diag u a = true -> wf y = true -> nrows y = nrows a ->
    exists b vs,
      solve_batch o u upper a (collect_diag a) y before (zeros o (nrows a)) = Some (b, vs) /\
      solve_batch o u upper a (collect_diag a) y js b
      = Some (zeros o (nrows a), map (fun j => (j, col_result o u upper a y j)) js).
  Proof.
    intros Ha Ht Hd Hy Hn.
    exact (worker_history o L u UL upper a _ y (tvalid_intro o L u UL upper a Ha Ht Hd) (yvalid_of a y Hy Hn) before js).
  Qed.

  Lemma schedule_free_main (upper : bool) (a y : spmat R) (sched : list (list nat)) :
    wf a = true -> is_triang o upper a = true -> unit_diag u a = true -> wf y = true -> nrows y = nrows a ->
    (forall j, j < ncols y -> In j (concat sched)) ->
    solve_triangular_sched o u upper a y sched = solve_triangular o u upper a y.
  Proof.
    intros Ha Ht Hd Hy Hn Hc.
    exact (schedule_free o L u UL upper a _ y sched (tvalid_intro o L u UL upper a Ha Ht Hd) (yvalid_of a y Hy Hn) Hc).
  Qed.

  Lemma solve_left_main (upper : bool) (a y : spmat R) :
    wf a = true -> is_triang o upper a = true -> unit_diag u a = true -> wf y = true -> ncols y = nrows a ->
    exists x,
      solve_triangular_left o u upper a y = Some x /\ nrows x = nrows y /\ ncols x = nrows a /\
      meq (nrows y) (nrows a) (mmul o (nrows a) (entry o x) (entry o a)) (entry o y).
  Proof.
    intros Ha Ht Hd Hy Hn.
    pose proof (tvalid_intro o L u UL upper a Ha Ht Hd) as V.
    destruct (solve_left_spec o L u UL upper a _ y V Hn) as [x [E [H1 [H2 [_ [_ H]]]]]].
    - intros j. now apply (wf_col_spec y j Hy).
    - exists x. auto.
  Qed.

  Lemma solve_vec_main (upper : bool) (a : spmat R) (v : svec R) :
    wf a = true -> is_triang o upper a = true -> unit_diag u a = true ->
    fst v = nrows a -> wf_col (fst v) (snd v) = true ->
    exists x,
      solve_triangular_vec o u upper a v = Some (nrows a, x) /\
      forall i, i < nrows a -> sum o (nrows a) (fun k => rmul o (entry o a i k) (centry o x k)) = ventry o v i.
  Proof.
    intros Ha Ht Hd Hn Hv. pose proof (tvalid_intro o L u UL upper a Ha Ht Hd) as V.
    unfold wf_col in Hv. apply andb_true_iff in Hv. destruct Hv as [Hs Hr]. rewrite forallb_forall in Hr.
    apply (solve_vec_spec o L u UL upper a _ v V Hn).
    - now apply sorted_strict_NoDup.
    - intros e He. rewrite <- Hn. now apply Nat.ltb_lt, Hr.
  Qed.

  Lemma inv_main (upper : bool) (a : spmat R) :
    wf a = true -> is_triang o upper a = true -> unit_diag u a = true ->
    exists x,
      inv_triangular o u upper a = Some x /\ nrows x = nrows a /\ ncols x = nrows a /\
      meq (nrows a) (nrows a) (mmul o (nrows a) (entry o a) (entry o x)) (mid o).
  Proof.
    intros Ha Ht Hd. exact (inv_triangular_spec o L u UL upper a _ (tvalid_intro o L u UL upper a Ha Ht Hd)).
  Qed.

  Lemma schur_main : rone o <> rzero o ->
    forall (upper : bool) (abcd : spmat R) (r : nat),
    wf abcd = true -> r <= nrows abcd -> r <= ncols abcd ->
    lead_unit_diag u abcd r = true -> lead_triang o upper abcd r = true ->
    exists sc,
      from_partial_triangular o u upper abcd r = Some sc /\
      schur_complement_only o u upper abcd r = Some (sch_s sc) /\
      schur_ok o upper abcd r sc.
  Proof. intros H10 upper abcd r. exact (from_partial_triangular_spec o L u UL upper abcd r H10). Qed.
End Main.

Lemma schur_identities {R : Type} (o : ring_ops R) (upper : bool) (abcd : spmat R) (r : nat) (sc : schur) :
  schur_ok o upper abcd r sc ->
  let m := nrows abcd in let n := ncols abcd in let M := entry o abcd in
  meq (m - r) (n - r) (mmul o n (mmul o m (entry o (tgt_f sc)) M) (entry o (src_b sc))) (entry o (sch_s sc)) /\
  meq (n - r) (n - r) (mmul o n (entry o (src_f sc)) (entry o (src_b sc))) (mid o) /\
  meq (m - r) (m - r) (mmul o m (entry o (tgt_f sc)) (entry o (tgt_b sc))) (mid o) /\
  (forall Ainv : mat R, meq r r (mmul o r M Ainv) (mid o) ->
     meq (m - r) (n - r) (entry o (sch_s sc))
         (msub o (fun i j => M (r + i) (r + j))
                 (mmul o r (fun i j => M (r + i) j) (mmul o r Ainv (fun i j => M i (r + j)))))) /\
  nrows (sch_s sc) = m - r /\ ncols (sch_s sc) = n - r.
Proof.
  intros H. cbv zeta. destruct H as [[Hs1 Hs2] _ _ _ _ Ht Hsrc Htgt Hf].
  split; [exact Ht|]. split; [exact Hsrc|]. split; [exact Htgt|]. split; [exact Hf|]. split; assumption.
Qed.
