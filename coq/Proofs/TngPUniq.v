(* Tangle layer, part 9: a simple path / cycle is determined by its multiset of segments up to reversal
   (and rotation). *)
From Coq Require Import List Arith Bool Lia Permutation.
Import ListNotations.
Require Import Yui.Model.Link Yui.Model.Tng Yui.Proofs.TngPBase Yui.Proofs.TngPSegs Yui.Proofs.TngPDeg
  Yui.Proofs.TngPJoin Yui.Proofs.TngPStep Yui.Proofs.TngPSeq Yui.Proofs.TngPConn Yui.Proofs.TngPMain.

Lemma arc_segs_nil_inv : forall l, arc_segs l = [] -> length l <= 1.
Proof. intros [|a [|b l]] E; cbn; try lia. rewrite arc_segs_cons2 in E. discriminate. Qed.

Lemma arc_segs_has : forall l u v, In (nseg u v) (arc_segs l) -> In u l /\ In v l.
Proof.
  intros l u v Hi. destruct (arc_segs_in _ _ Hi) as (a & b & E & Ha & Hb).
  destruct (nseg_inj _ _ _ _ E) as [[-> ->]|[-> ->]]; auto.
Qed.

(* same first label, same segments -> same path *)
Lemma arc_unique_hd : forall p q, NoDup p -> NoDup q -> p <> [] -> q <> [] -> hd 0 p = hd 0 q ->
  Permutation (arc_segs p) (arc_segs q) -> p = q.
Proof.
  induction p as [|a p IH]; intros q Np Nq Hp Hq Eh Hperm; [contradiction|].
  destruct q as [|a' q]; [contradiction|]. cbn [hd] in Eh. subst a'.
  destruct p as [|b p].
  - change (arc_segs [a]) with (@nil (nat * nat)) in Hperm. apply Permutation_nil in Hperm. apply arc_segs_nil_inv in Hperm.
    destruct q; [reflexivity|cbn in Hperm; lia].
  - destruct q as [|b' q].
    { apply Permutation_sym, Permutation_nil in Hperm. rewrite arc_segs_cons2 in Hperm. discriminate. }
    rewrite !arc_segs_cons2 in Hperm.
    assert (Hin : In (nseg a b) (nseg a b' :: arc_segs (b' :: q))).
    { eapply Permutation_in; [exact Hperm|left; reflexivity]. }
    inversion Np as [|? ? Na Np']; subst. inversion Nq as [|? ? Na' Nq']; subst.
    assert (Eb : b' = b).
    { destruct Hin as [E|Hin].
      - destruct (nseg_inj _ _ _ _ E) as [[_ E']|[E1 E2]]; auto. exfalso. apply Na. left. congruence.
      - exfalso. apply Na'. apply (arc_segs_has _ _ _ Hin). }
    subst b'. apply Permutation_cons_inv in Hperm. f_equal. apply IH; auto; discriminate.
Qed.

Lemma count_app_in : forall (a b : list nat) v, count_occ Nat.eq_dec (a ++ b) v = 1 -> In v a -> In v b -> False.
Proof.
  intros a b v Hc Ha Hb. rewrite count_occ_app in Hc.
  pose proof (count_in_ge1 a v Ha). pose proof (count_in_ge1 b v Hb). lia.
Qed.

Theorem arc_unique : forall p q, NoDup p -> NoDup q -> 2 <= length p -> 2 <= length q ->
  Permutation (arc_segs p) (arc_segs q) -> p = q \/ p = rev q.
Proof.
  intros p q Np Nq Lp Lq Hperm.
  assert (Sp : simple (mkP p false)) by (split; auto).
  pose proof (deg_arc_hd_seg (mkP p false) Sp eq_refl) as Hd. cbn [pedges segs pclosed] in Hd.
  set (a := hd 0 p) in *.
  rewrite (deg_perm _ _ a Hperm) in Hd. unfold deg in Hd.
  rewrite (count_perm _ (removelast q ++ tl q)) in Hd by apply ends_arc_segs.
  assert (Haq : In a q).
  { assert (Hi : In a (removelast q ++ tl q)) by (apply (count_occ_In Nat.eq_dec); lia).
    apply in_app_or in Hi. destruct Hi; [apply in_removelast|apply in_tl]; auto. }
  destruct (in_split_hd q a 0 Haq) as [E|Ht].
  - left. apply arc_unique_hd; auto; apply len2_ne; auto.
  - destruct (in_split_last q a 0 Haq) as [Hr|E]; [exfalso; eapply count_app_in; eauto|].
    right. apply arc_unique_hd; auto.
    + apply NoDup_rev; auto.
    + apply len2_ne; auto.
    + intros Er. apply (f_equal (@length nat)) in Er. rewrite rev_length in Er. cbn in Er. lia.
    + rewrite hd_rev. exact E.
    + eapply perm_trans; [exact Hperm|]. apply Permutation_sym. apply arc_segs_rev.
Qed.

(* ---------- circles ---------- *)
Lemma arc_segs_split : forall A y B, arc_segs (A ++ y :: B) = arc_segs (A ++ [y]) ++ arc_segs (y :: B).
Proof.
  intros A y B. rewrite <- (arc_segs_join (A ++ [y]) (y :: B)).
  - unfold join. rewrite removelast_last. reflexivity.
  - intros E. apply app_eq_nil in E. destruct E; discriminate.
  - discriminate.
  - rewrite last_last. reflexivity.
Qed.

Lemma circ_segs_rot : forall l1 l2, Permutation (circ_segs (l1 ++ l2)) (circ_segs (l2 ++ l1)).
Proof.
  intros [|x l1] [|y l2]; cbn [app]; try rewrite app_nil_r; try apply Permutation_refl.
  unfold circ_segs. cbn [app]. rewrite <- !app_assoc. cbn [app].
  change (x :: l1 ++ y :: l2 ++ [x]) with ((x :: l1) ++ y :: (l2 ++ [x])).
  change (y :: l2 ++ x :: l1 ++ [y]) with ((y :: l2) ++ x :: (l1 ++ [y])).
  rewrite (arc_segs_split (x :: l1) y (l2 ++ [x])), (arc_segs_split (y :: l2) x (l1 ++ [y])).
  apply Permutation_app_comm.
Qed.

Lemma circ_segs_rev : forall l, Permutation (circ_segs (rev l)) (circ_segs l).
Proof.
  intros [|x l]; [constructor|]. cbn [rev].
  eapply perm_trans; [apply circ_segs_rot|]. cbn [app]. unfold circ_segs.
  assert (E : (x :: rev l) ++ [x] = rev ((x :: l) ++ [x])).
  { cbn [app rev]. rewrite rev_unit. reflexivity. }
  rewrite E. apply arc_segs_rev.
Qed.

Definition has (a : nat) (s : nat * nat) : bool := (fst s =? a) || (snd s =? a).

Lemma filter_perm : forall (A : Type) (f : A -> bool) (a b : list A),
  Permutation a b -> Permutation (filter f a) (filter f b).
Proof.
  intros A f a b Hp. induction Hp; cbn [filter].
  - constructor.
  - destruct (f x); [constructor|]; auto.
  - destruct (f x), (f y); try apply perm_swap; try (constructor; apply Permutation_refl); apply Permutation_refl.
  - eapply perm_trans; eauto.
Qed.

Lemma has_nseg : forall a u v, has a (nseg u v) = (u =? a) || (v =? a).
Proof.
  intros a u v. unfold has, nseg. cbn [fst snd]. destruct (Nat.le_gt_cases u v).
  - rewrite Nat.min_l, Nat.max_r by lia. reflexivity.
  - rewrite Nat.min_r, Nat.max_l by lia. apply orb_comm.
Qed.

Lemma filter_has_none : forall a l, ~ In a l -> filter (has a) (arc_segs l) = [].
Proof.
  intros a l Hn. induction l as [|x l IH]; [reflexivity|].
  destruct l as [|y l]; [reflexivity|]. rewrite arc_segs_cons2. cbn [filter]. rewrite has_nseg.
  assert (x =? a = false) as -> by (apply Nat.eqb_neq; intros ->; apply Hn; left; reflexivity).
  assert (y =? a = false) as -> by (apply Nat.eqb_neq; intros ->; apply Hn; right; left; reflexivity).
  cbn [orb]. apply IH. intros Hi. apply Hn. right. auto.
Qed.

Lemma circ_open : forall a l, l <> [] -> circ_segs (a :: l) = arc_segs (a :: l) ++ [nseg (last l 0) a].
Proof.
  intros a l Hl. unfold circ_segs. rewrite (split_last l 0 Hl) at 1.
  change ((a :: removelast l ++ [last l 0]) ++ [a]) with (a :: (removelast l ++ [last l 0]) ++ [a]).
  rewrite <- app_assoc. cbn [app]. change (a :: removelast l ++ [last l 0; a]) with ((a :: removelast l) ++ [last l 0; a]).
  rewrite arc_segs_snoc. cbn [app]. rewrite <- (split_last l 0 Hl). reflexivity.
Qed.

Lemma filter_has_circ : forall a l, NoDup (a :: l) -> l <> [] ->
  filter (has a) (circ_segs (a :: l)) = [nseg a (hd 0 l); nseg (last l 0) a].
Proof.
  intros a l Hn Hl. inversion Hn as [|? ? Ha Hnl]; subst.
  rewrite circ_open by auto. rewrite filter_app. destruct l as [|b l]; [contradiction|].
  rewrite arc_segs_cons2. cbn [filter hd]. rewrite !has_nseg, !Nat.eqb_refl, orb_true_r. cbn [orb].
  rewrite filter_has_none by auto. reflexivity.
Qed.

Lemma circ_unique_hd : forall a p q, NoDup (a :: p) -> NoDup (a :: q) ->
  Permutation (circ_segs (a :: p)) (circ_segs (a :: q)) -> a :: p = a :: q \/ a :: p = a :: rev q.
Proof.
  intros a p q Np Nq Hperm.
  assert (Hlen : length p = length q).
  { pose proof (Permutation_length Hperm) as Hl. rewrite !circ_segs_length in Hl. cbn in Hl. lia. }
  destruct p as [|b p].
  { destruct q; [left; reflexivity|discriminate]. }
  assert (Hp : b :: p <> []) by discriminate.
  assert (Hq : q <> []) by (intros ->; discriminate).
  pose proof (filter_perm _ (has a) _ _ Hperm) as Hf.
  rewrite (filter_has_circ a (b :: p) Np Hp), (filter_has_circ a q Nq Hq) in Hf.
  set (z := last (b :: p) 0) in *.
  assert (Hz : In z (b :: p)) by (apply last_in; auto).
  assert (Hza : z <> a). { inversion Np; subst. intros E. rewrite E in Hz. contradiction. }
  assert (Hin : In (nseg z a) [nseg a (hd 0 q); nseg (last q 0) a]).
  { eapply Permutation_in; [exact Hf|right; left; reflexivity]. }
  rewrite circ_open in Hperm by auto. fold z in Hperm.
  destruct Hin as [E|[E|[]]].
  - (* hd q = z: reversed *)
    right. assert (Ez : hd 0 q = z).
    { destruct (nseg_inj _ _ _ _ E) as [[E1 E2]|[E1 E2]]; [congruence|auto]. }
    assert (Nr : NoDup (a :: rev q)).
    { inversion Nq; subst. constructor; [rewrite <- in_rev; auto|apply NoDup_rev; auto]. }
    assert (Hr : rev q <> []).
    { intros Er. apply (f_equal (@length nat)) in Er. rewrite rev_length in Er. destruct q; [contradiction|discriminate]. }
    assert (Pr : Permutation (circ_segs (a :: q)) (circ_segs (a :: rev q))).
    { eapply perm_trans; [apply Permutation_sym; apply circ_segs_rev|]. cbn [rev].
      apply (circ_segs_rot (rev q) [a]). }
    assert (Hperm' : Permutation (arc_segs (a :: b :: p) ++ [nseg z a]) (circ_segs (a :: rev q))).
    { eapply perm_trans; [exact Hperm|exact Pr]. }
    rewrite circ_open in Hperm' by auto. rewrite last_rev, Ez in Hperm'.
    apply Permutation_app_inv_r in Hperm'.
    apply arc_unique_hd; auto; discriminate.
  - left. assert (Ez : last q 0 = z).
    { destruct (nseg_inj _ _ _ _ E) as [[E1 E2]|[E1 E2]]; [auto|congruence]. }
    rewrite circ_open in Hperm by auto. rewrite Ez in Hperm. apply Permutation_app_inv_r in Hperm.
    apply arc_unique_hd; auto; discriminate.
Qed.

Theorem circ_unique : forall p q, NoDup p -> NoDup q -> p <> [] -> Permutation (circ_segs p) (circ_segs q) ->
  exists q1 q2, q = q1 ++ hd 0 p :: q2 /\ (p = hd 0 p :: q2 ++ q1 \/ p = hd 0 p :: rev (q2 ++ q1)).
Proof.
  intros p q Np Nq Hp Hperm. destruct p as [|a p]; [contradiction|]. cbn [hd].
  assert (Hq : q <> []).
  { intros ->. change (circ_segs []) with (@nil (nat * nat)) in Hperm.
    apply Permutation_sym, Permutation_nil in Hperm.
    apply (f_equal (@length (nat * nat))) in Hperm. rewrite circ_segs_length in Hperm. discriminate. }
  assert (Haq : In a q).
  { assert (H1 : In a (ends_of (circ_segs (a :: p)))).
    { eapply Permutation_in; [apply Permutation_sym; apply ends_circ_segs; discriminate|]. left. reflexivity. }
    assert (H2 : In a (ends_of (circ_segs q))).
    { eapply Permutation_in; [|exact H1]. apply Permutation_flat_map. exact Hperm. }
    apply (Permutation_in _ (ends_circ_segs q Hq)) in H2. apply in_app_or in H2. tauto. }
  destruct (in_split _ _ Haq) as (q1 & q2 & ->). exists q1, q2. split; auto.
  assert (Nq' : NoDup (a :: q2 ++ q1)).
  { eapply Permutation_NoDup; [|exact Nq]. eapply perm_trans; [apply Permutation_app_comm|]. apply Permutation_refl. }
  apply circ_unique_hd; auto.
  eapply perm_trans; [exact Hperm|]. apply (circ_segs_rot q1 (a :: q2)).
Qed.
