(* Correctness of the triangular solver of Model/Triang.v (appendix A.2 of DESIGN.md):
   the scratch buffer goes from all-zero to all-zero and the returned vector solves the system. *)
From Coq Require Import Arith List Bool Lia Ring.
Require Import Yui.Base.Ring Yui.Base.MatF Yui.Model.Triang Yui.Proofs.C12Sparse.
Import ListNotations.

Section TriangProofs.
  Context {R : Type} (o : ring_ops R) (L : ring_laws o) (u : unit_ops R) (UL : unit_laws o u).

  Local Notation "0" := (rzero o).
  Local Notation "1" := (rone o).
  Local Infix "+" := (radd o).
  Local Infix "*" := (rmul o).
  Local Notation "- x" := (rneg o x).
  Add Ring Rring2 : (ring_theory_of_laws o L).

  (* ---------- semantic validity of the coefficient matrix (what the proof needs) ---------- *)
  Record tvalid (upper : bool) (a : spmat R) (n : nat) : Prop := {
    tv_nrows : nrows a = n;
    tv_ncols : ncols a = n;
    tv_rows : forall j e, In e (col a j) -> fst e < n;
    tv_diag : forall j, j < n -> exists uj ui,
        filter (fun e => fst e =? j) (col a j) = [(j, uj)] /\ rinv u uj = Some ui;
    tv_tri : forall i j, i < n -> j < n -> (if upper then j < i else i < j) -> entry o a i j = 0;
  }.

  (* right-hand sides: every column has distinct rows, all in range *)
  Definition yvalid (y : spmat R) (n : nat) : Prop :=
    nrows y = n /\ forall j, NoDup (map fst (col y j)) /\ forall e, In e (col y j) -> fst e < n.

  (* ---------- copy_into ---------- *)
  Lemma copy_into_spec (v : scol R) : forall b,
    (forall e, In e v -> fst e < length b) -> NoDup (map fst v) ->
    exists b', copy_into v b = Some b' /\ length b' = length b /\
      forall i, vget o b' i = if in_dec Nat.eq_dec i (map fst v) then centry o v i else vget o b i.
  Proof.
    induction v as [|[i0 r] v IH]; intros b Hr Hnd.
    - exists b. split; [reflexivity|]. split; [reflexivity|]. intros i. reflexivity.
    - cbn [copy_into]. assert (Hi0 : i0 < length b) by (apply (Hr (i0, r)); now left).
      replace (i0 <? length b) with true by (symmetry; now apply Nat.ltb_lt).
      cbn [map fst] in Hnd. inversion Hnd as [|? ? Hx Hnd']; subst.
      destruct (IH (set_nth b i0 r)) as [b' [E [Hl Hv]]].
      { intros e He. rewrite length_set_nth. apply Hr. now right. }
      { assumption. }
      exists b'. split; [exact E|]. split; [now rewrite Hl, length_set_nth|].
      intros i. rewrite Hv. cbn [map fst centry snd].
      destruct (in_dec Nat.eq_dec i (map fst v)) as [Hin|Hnin].
      + destruct (in_dec Nat.eq_dec i (i0 :: map fst v)) as [_|Hc]; [|exfalso; apply Hc; now right].
        destruct (Nat.eqb_spec i0 i) as [->|_]; [contradiction|]. ring.
      + rewrite (vget_set_nth o) by assumption.
        destruct (Nat.eqb_spec i i0) as [->|Hne].
        * destruct (in_dec Nat.eq_dec i0 (i0 :: map fst v)) as [_|Hc]; [|exfalso; apply Hc; now left].
          rewrite Nat.eqb_refl, (centry_notin o L) by assumption. ring.
        * destruct (in_dec Nat.eq_dec i (i0 :: map fst v)) as [[Hc|Hc]|_]; [congruence|contradiction|reflexivity].
  Qed.

  Lemma copy_into_zeros (c : scol R) n :
    (forall e, In e c -> fst e < n) -> NoDup (map fst c) ->
    exists b, copy_into (filter (nz o) c) (zeros o n) = Some b /\ length b = n /\
      forall i, vget o b i = centry o c i.
  Proof.
    intros Hr Hnd.
    destruct (copy_into_spec (filter (nz o) c) (zeros o n)) as [b [E [Hl Hv]]].
    - intros e He. apply filter_In in He. unfold zeros. rewrite repeat_length. apply Hr. tauto.
    - now apply NoDup_keys_filter.
    - exists b. split; [exact E|]. split; [unfold zeros in Hl; now rewrite repeat_length in Hl|].
      intros i. rewrite Hv.
      destruct (in_dec Nat.eq_dec i (map fst (filter (nz o) c))) as [_|Hn].
      + apply (centry_filter_nz o L).
      + rewrite (vget_zeros o), <- (centry_filter_nz o L). symmetry. now apply (centry_notin o L).
  Qed.

  (* to_dense = the same on a fresh zero vector *)
  Lemma to_dense_copy (v : scol R) : forall b, to_dense_loop o v b = copy_into (filter (nz o) v) b.
  Proof.
    induction v as [|[i r] v IH]; intros b; [reflexivity|]. cbn [to_dense_loop filter].
    unfold nz at 1, nzb. cbn [snd]. destruct (ris_zero o r); cbn [negb]; [apply IH|].
    cbn [copy_into]. destruct (i <? length b); [apply IH|reflexivity].
  Qed.

  (* ---------- the inner loop ---------- *)
  Lemma col_sub_spec (c : scol R) x : forall b,
    (forall e, In e c -> fst e < length b) ->
    exists b', col_sub o b c x = Some b' /\ length b' = length b /\
      forall k, vget o b' k = vget o b k + - (centry o c k * x).
  Proof.
    induction c as [|[i a_ij] c IH]; intros b Hr.
    - exists b. repeat split. intros k. cbn. ring.
    - cbn [col_sub]. destruct (ris_zero o a_ij) eqn:Ez.
      + apply (ris_zero_true o L) in Ez. subst a_ij.
        destruct (IH b) as [b' [E [Hl Hv]]]; [intros e He; apply Hr; now right|].
        exists b'. repeat split; try assumption. intros k. rewrite Hv. cbn. destruct (i =? k); ring.
      + assert (Hi : i < length b) by (apply (Hr (i, a_ij)); now left).
        rewrite (nth_error_lt o) by assumption.
        destruct (IH (set_nth b i (rsub o (vget o b i) (a_ij * x)))) as [b' [E [Hl Hv]]].
        { intros e He. rewrite length_set_nth. apply Hr. now right. }
        exists b'. split; [exact E|]. split; [now rewrite Hl, length_set_nth|].
        intros k. rewrite Hv, (vget_set_nth o) by assumption. cbn [centry fst snd].
        rewrite (Nat.eqb_sym i k). destruct (Nat.eqb_spec k i) as [->|Hne]; unfold rsub; ring.
    Qed.

  (* ---------- the outer loop ---------- *)
  Section Sweep.
    Variable a : spmat R.
    Variable n : nat.
    Hypothesis Hrows : forall j e, In e (col a j) -> fst e < n.

    Local Notation A := (entry o a).
    Definition dotA (i : nat) (x : nat -> R) : R := sum o n (fun k => A i k * x k).

    Fixpoint tri_ord (ks : list nat) : Prop :=
      match ks with
      | [] => True
      | j :: r => (forall j', In j' r -> A j j' = 0) /\ tri_ord r
      end.

    Lemma sweep_spec : forall (itr : list (nat * R)) (b : list R) (entries : scol R) (Z : nat -> Prop),
      length b = n ->
      (forall j uj, In (j, uj) itr -> j < n /\ A j j = uj /\ exists ui, rinv u uj = Some ui) ->
      tri_ord (map fst itr) ->
      (forall i, Z i -> vget o b i = 0) ->
      (forall i j, Z i -> In j (map fst itr) -> A i j = 0) ->
      exists b' entries',
        sweep o u a itr b entries = Some (b', entries') /\ length b' = n /\
        (forall i, vget o b' i + dotA i (centry o entries') = vget o b i + dotA i (centry o entries)) /\
        (forall i, Z i \/ In i (map fst itr) -> vget o b' i = 0) /\
        (forall e, In e entries' -> In e entries \/ In (fst e) (map fst itr)).
    Proof.
      induction itr as [|[j uj] rest IH]; intros b entries Z Hl Hitr Hord HZ HZA.
      - exists b, entries. cbn. repeat split; auto. intros i [Hi|[]]. now apply HZ.
      - cbn [sweep]. destruct (Hitr j uj (or_introl eq_refl)) as [Hj [HAjj [ui Hui]]].
        cbn [map fst tri_ord] in Hord. destruct Hord as [Hordj Hord].
        rewrite (nth_error_lt o) by lia.
        assert (Hitr' : forall j0 uj0, In (j0, uj0) rest -> j0 < n /\ A j0 j0 = uj0 /\ exists ui0, rinv u uj0 = Some ui0)
          by (intros j0 uj0 H0; apply Hitr; now right).
        destruct (ris_zero o (vget o b j)) eqn:Ez.
        + (* b[j] = 0: nothing to do, j joins the zero set *)
          apply (ris_zero_true o L) in Ez.
          destruct (IH b entries (fun i => Z i \/ i = j) Hl Hitr' Hord) as [b' [en' [E [Hl' [Heq [Hz Hen]]]]]].
          { intros i [Hi | ->]; [now apply HZ|exact Ez]. }
          { intros i j' [Hi | ->] Hj'; [apply HZA; [assumption|now right]|now apply Hordj]. }
          exists b', en'. split; [exact E|]. split; [exact Hl'|]. split; [exact Heq|]. split.
          * intros i [Hi | [<- | Hi]]; apply Hz; [left; now left|left; now right|now right].
          * intros e He. destruct (Hen e He) as [H|H]; [now left|right; now right].
        + rewrite Hui. cbn [obind].
          set (x := vget o b j * ui).
          destruct (col_sub_spec (snd (col_vec o a j)) x b) as [b1 [E1 [Hl1 Hv1]]].
          { intros e He. cbn [col_vec snd] in He. apply filter_In in He. rewrite Hl. apply (Hrows j). tauto. }
          rewrite E1. cbn [obind].
          assert (Hv1' : forall k, vget o b1 k = vget o b k + - (A k j * x)).
          { intros k. rewrite Hv1. cbn [col_vec snd]. now rewrite (centry_filter_nz o L). }
          destruct (IH b1 (entries ++ [(j, x)]) (fun i => Z i \/ i = j)) as [b' [en' [E [Hl' [Heq [Hz Hen]]]]]];
            [lia|exact Hitr'|exact Hord| | |].
          { intros i [Hi | ->]; rewrite Hv1'.
            - rewrite (HZ i Hi), (HZA i j Hi (or_introl eq_refl)). ring.
            - rewrite HAjj. unfold x.
              replace (uj * (vget o b j * ui)) with (vget o b j * (uj * ui)) by ring.
              rewrite (rinv_some o u UL uj ui Hui). ring. }
          { intros i j' [Hi | ->] Hj'; [apply HZA; [assumption|now right]|now apply Hordj]. }
          exists b', en'. split; [exact E|]. split; [exact Hl'|]. split; [|split].
          * intros i. rewrite Heq, Hv1'. unfold dotA. rewrite (sum_centry_snoc o L) by assumption. ring.
          * intros i [Hi | [<- | Hi]]; apply Hz; [left; now left|left; now right|now right].
          * intros e He. destruct (Hen e He) as [H|H]; [|right; now right].
            apply in_app_iff in H. destruct H as [H|[<-|[]]]; [now left|right; now left].
    Qed.
  End Sweep.

  (* the processing order is compatible with the triangular shape *)
  Lemma tri_ord_lower a N : (forall i j, i < N -> j < N -> i < j -> entry o a i j = 0) ->
    forall len s, s + len <= N -> tri_ord a (seq s len).
  Proof.
    intros H. induction len as [|len IH]; intros s Hs; cbn [seq tri_ord]; [exact I|]. split.
    - intros j' Hj'. apply in_seq in Hj'. apply H; lia.
    - apply IH. lia.
  Qed.

  Lemma tri_ord_upper a N : (forall i j, i < N -> j < N -> j < i -> entry o a i j = 0) ->
    forall n, n <= N -> tri_ord a (rev (seq 0 n)).
  Proof.
    intros H. induction n as [|n IH]; intros Hn; [exact I|].
    rewrite seq_S, rev_app_distr. cbn [rev app Nat.add tri_ord]. split.
    - intros j' Hj'. apply in_rev, in_seq in Hj'. apply H; lia.
    - apply IH. lia.
  Qed.

  Lemma collect_diag_spec upper a n : tvalid upper a n ->
    collect_diag a = map (fun j => entry o a j j) (seq 0 n).
  Proof.
    intros V. unfold collect_diag. rewrite (tv_ncols _ _ _ V). apply flat_map_singleton.
    intros j Hj. apply in_seq in Hj. destruct (tv_diag _ _ _ V j) as [uj [ui [Hf _]]]; [lia|].
    rewrite Hf. cbn. unfold entry. now rewrite (centry_single o L _ _ _ Hf).
  Qed.

  (* ---------- _solve_triangular ---------- *)
  Lemma solve_core_spec upper a n b0 : tvalid upper a n -> length b0 = n ->
    exists x, solve_core o u upper a (collect_diag a) b0 = Some (zeros o n, (n, x)) /\
      (forall e, In e x -> fst e < n) /\
      forall i, i < n -> sum o n (fun k => entry o a i k * centry o x k) = vget o b0 i.
  Proof.
    intros V Hl. unfold solve_core. rewrite (collect_diag_spec upper a n V).
    rewrite map_length, seq_length, combine_map_self.
    set (itr0 := map (fun j => (j, entry o a j j)) (seq 0 n)).
    set (itr := if upper then rev itr0 else itr0).
    assert (Hkeys0 : map fst itr0 = seq 0 n).
    { unfold itr0. rewrite map_map. cbn. apply map_id. }
    assert (Hkeys : map fst itr = if upper then rev (seq 0 n) else seq 0 n).
    { unfold itr. destruct upper; [rewrite map_rev|]; now rewrite Hkeys0. }
    assert (Hin : forall j uj, In (j, uj) itr -> j < n /\ entry o a j j = uj /\ exists ui, rinv u uj = Some ui).
    { intros j uj H. assert (H0 : In (j, uj) itr0) by (unfold itr in H; destruct upper; [now apply in_rev|assumption]).
      unfold itr0 in H0. apply in_map_iff in H0. destruct H0 as [j0 [E Hj0]]. injection E as -> <-.
      apply in_seq in Hj0. split; [lia|]. split; [reflexivity|].
      destruct (tv_diag _ _ _ V j) as [uj [ui [Hf Hu]]]; [lia|]. exists ui.
      unfold entry. now rewrite (centry_single o L _ _ _ Hf). }
    assert (Hord : tri_ord a (map fst itr)).
    { rewrite Hkeys. destruct upper.
      - apply (tri_ord_upper a n); [|lia]. intros i j Hi Hj Hij. now apply (tv_tri _ _ _ V).
      - apply (tri_ord_lower a n); [|lia]. intros i j Hi Hj Hij. now apply (tv_tri _ _ _ V). }
    destruct (sweep_spec a n (tv_rows _ _ _ V) itr b0 [] (fun _ => False) Hl Hin Hord) as [b' [en [E [Hl' [Heq [Hz Hen]]]]]].
    { intros i []. }
    { intros i j []. }
    fold itr. rewrite E. cbn [obind].
    set (en' := if upper then rev en else en).
    assert (Hen' : forall e, In e en' -> fst e < n).
    { intros e He. assert (He0 : In e en) by (unfold en' in He; destruct upper; [now apply in_rev|assumption]).
      destruct (Hen e He0) as [[]|H]. rewrite Hkeys in H.
      assert (In (fst e) (seq 0 n)) by (destruct upper; [now apply in_rev|assumption]).
      apply in_seq in H0. lia. }
    assert (Hchk : forallb (fun e => fst e <? ncols a) en' = true).
    { apply forallb_forall. intros e He. apply Nat.ltb_lt. rewrite (tv_ncols _ _ _ V). now apply Hen'. }
    rewrite Hchk. rewrite (tv_ncols _ _ _ V).
    assert (Hzero : forall i, i < n -> vget o b' i = 0).
    { intros i Hi. apply Hz. right. rewrite Hkeys.
      destruct upper; [apply -> in_rev|]; apply in_seq; lia. }
    exists en'. split; [|split; [exact Hen'|]].
    - f_equal. f_equal. now apply (zeros_intro o).
    - intros i Hi. specialize (Heq i). rewrite (Hzero i Hi) in Heq. unfold dotA in Heq.
      assert (Hc : forall k, centry o en' k = centry o en k).
      { intros k. unfold en'. destruct upper; [apply (centry_rev o L)|reflexivity]. }
      rewrite (sum_ext o n _ (fun k => entry o a i k * centry o en k)) by (intros k _; now rewrite Hc).
      cbn [centry] in Heq. rewrite (sum_zero_ext o L n (fun k => entry o a i k * 0)) in Heq by (intros; ring).
      transitivity (0 + sum o n (fun k : nat => entry o a i k * centry o en k)); [ring|].
      rewrite Heq. ring.
  Qed.

  (* ---------- one column, and a sequence of columns on one buffer ---------- *)
  Definition ycol (y : spmat R) (j : nat) : nat -> R := fun i => entry o y i j.

  Lemma solve_col_spec upper a n y j : tvalid upper a n -> yvalid y n ->
    exists x, solve_col o u upper a (collect_diag a) (col_vec o y j) (zeros o n) = Some (zeros o n, (n, x)) /\
      (forall e, In e x -> fst e < n) /\
      forall i, i < n -> sum o n (fun k => entry o a i k * centry o x k) = entry o y i j.
  Proof.
    intros V [Hn Hy]. destruct (Hy j) as [Hnd Hr].
    destruct (copy_into_zeros (col y j) n Hr Hnd) as [b0 [E0 [Hl0 Hv0]]].
    destruct (solve_core_spec upper a n b0 V Hl0) as [x [E [Hx Hs]]].
    exists x. unfold solve_col. cbn [col_vec snd]. rewrite E0. cbn [obind]. split; [exact E|].
    split; [exact Hx|]. intros i Hi. rewrite (Hs i Hi), Hv0. reflexivity.
  Qed.

  (* the vector computed for column j from a zero buffer (a total function, for the statements) *)
  Definition col_result (upper : bool) (a y : spmat R) (j : nat) : svec R :=
    match solve_col o u upper a (collect_diag a) (col_vec o y j) (zeros o (nrows a)) with
    | Some (_, v) => v
    | None => (O, [])
    end.

  Lemma col_result_spec upper a n y j : tvalid upper a n -> yvalid y n ->
    solve_col o u upper a (collect_diag a) (col_vec o y j) (zeros o n) = Some (zeros o n, col_result upper a y j) /\
    fst (col_result upper a y j) = n /\
    (forall e, In e (snd (col_result upper a y j)) -> fst e < n) /\
    forall i, i < n -> sum o n (fun k => entry o a i k * ventry o (col_result upper a y j) k) = entry o y i j.
  Proof.
    intros V Y. destruct (solve_col_spec upper a n y j V Y) as [x [E [Hx Hs]]].
    unfold col_result. rewrite (tv_nrows _ _ _ V), E. cbn. repeat split; assumption.
  Qed.

  Lemma solve_batch_zeros upper a n y : tvalid upper a n -> yvalid y n -> forall js,
    solve_batch o u upper a (collect_diag a) y js (zeros o n)
    = Some (zeros o n, map (fun j => (j, col_result upper a y j)) js).
  Proof.
    intros V Y. induction js as [|j js IH]; [reflexivity|].
    cbn [solve_batch map]. destruct (col_result_spec upper a n y j V Y) as [E _].
    rewrite E. cbn [obind]. rewrite IH. reflexivity.
  Qed.

  (* the assembled solution matrix *)
  Definition solution (upper : bool) (a y : spmat R) : spmat R :=
    mk_spmat (nrows a) (ncols y) (map (fun j => snd (col_result upper a y j)) (seq 0 (ncols y))).

  Lemma from_col_vecs_results upper a n y js : tvalid upper a n -> yvalid y n ->
    from_col_vecs n (map (fun j => col_result upper a y j) js)
    = Some (mk_spmat n (length js) (map (fun j => snd (col_result upper a y j)) js)).
  Proof.
    intros V Y. unfold from_col_vecs.
    destruct (forallb _ _) eqn:H.
    - rewrite map_length, map_map. reflexivity.
    - exfalso. apply Bool.not_true_iff_false in H. apply H.
      apply forallb_forall. intros v Hv. apply in_map_iff in Hv. destruct Hv as [j [<- _]].
      apply Nat.eqb_eq. now destruct (col_result_spec upper a n y j V Y) as [_ [E _]].
  Qed.

  (* solve_triangular on one thread: result, and the buffer is all-zero again *)
  Lemma solve_triangular_st_spec upper a n y : tvalid upper a n -> yvalid y n ->
    solve_triangular_st o u upper a y = Some (zeros o n, solution upper a y).
  Proof.
    intros V Y. unfold solve_triangular_st. destruct Y as [Hyn Hy]. rewrite (tv_nrows _ _ _ V), Hyn, Nat.eqb_refl.
    rewrite (solve_batch_zeros upper a n y V (conj Hyn Hy)). cbn [obind].
    rewrite map_map. cbn [snd].
    rewrite (from_col_vecs_results upper a n y _ V (conj Hyn Hy)). cbn [obind].
    unfold solution. now rewrite seq_length, (tv_nrows _ _ _ V).
  Qed.

  Lemma entry_solution upper a y i j : j < ncols y ->
    entry o (solution upper a y) i j = ventry o (col_result upper a y j) i.
  Proof. intros Hj. unfold entry, col, solution. cbn [cols]. now rewrite nth_map_seq. Qed.

  Lemma solution_solves upper a n y : tvalid upper a n -> yvalid y n ->
    meq n (ncols y) (mmul o n (entry o a) (entry o (solution upper a y))) (entry o y).
  Proof.
    intros V Y i j Hi Hj. unfold mmul.
    destruct (col_result_spec upper a n y j V Y) as [_ [_ [_ Hs]]]. rewrite <- (Hs i Hi).
    apply sum_ext. intros k _. now rewrite entry_solution.
  Qed.

  Lemma solution_rows upper a n y j e : tvalid upper a n -> yvalid y n ->
    In e (col (solution upper a y) j) -> fst e < n.
  Proof.
    intros V Y. unfold col, solution. cbn [cols]. destruct (lt_dec j (ncols y)) as [Hj|Hj].
    - rewrite nth_map_seq by assumption. now destruct (col_result_spec upper a n y j V Y) as [_ [_ [Hr _]]]; apply Hr.
    - rewrite nth_map_seq_over by lia. intros [].
  Qed.

  (* ---------- any schedule of the worker threads gives the same matrix ---------- *)
  Lemma run_threads_spec upper a n y : tvalid upper a n -> yvalid y n -> forall sched,
    run_threads o u upper a (collect_diag a) y sched
    = Some (map (fun j => (j, col_result upper a y j)) (concat sched)).
  Proof.
    intros V Y. induction sched as [|js rest IH]; [reflexivity|].
    cbn [run_threads concat]. rewrite (tv_nrows _ _ _ V), (solve_batch_zeros upper a n y V Y). cbn [obind].
    rewrite IH. cbn [obind]. now rewrite map_app.
  Qed.

  Lemma schedule_free upper a n y sched : tvalid upper a n -> yvalid y n ->
    (forall j, j < ncols y -> In j (concat sched)) ->
    solve_triangular_sched o u upper a y sched = solve_triangular o u upper a y.
  Proof.
    intros V Y Hcov. unfold solve_triangular. rewrite (solve_triangular_st_spec upper a n y V Y). cbn [obind].
    unfold solve_triangular_sched. destruct Y as [Hyn Hy]. rewrite (tv_nrows _ _ _ V), Hyn, Nat.eqb_refl.
    rewrite (run_threads_spec upper a n y V (conj Hyn Hy)). cbn [obind].
    rewrite (omap_map _ (fun j => col_result upper a y j)).
    - cbn [obind]. rewrite (from_col_vecs_results upper a n y _ V (conj Hyn Hy)).
      unfold solution. now rewrite seq_length, (tv_nrows _ _ _ V).
    - intros j Hj. apply in_seq in Hj. unfold assoc_vec.
      rewrite (find_map_key (fun j => col_result upper a y j)) by (apply Hcov; lia). reflexivity.
  Qed.

  (* a worker thread with an arbitrary history: whatever columns it has processed before, its buffer is
     all-zero again, and every column gets the vector it gets on a fresh buffer *)
  Lemma worker_history upper a n y : tvalid upper a n -> yvalid y n -> forall before js,
    exists b vs, solve_batch o u upper a (collect_diag a) y before (zeros o n) = Some (b, vs) /\
      solve_batch o u upper a (collect_diag a) y js b
      = Some (zeros o n, map (fun j => (j, col_result upper a y j)) js).
  Proof.
    intros V Y before js. exists (zeros o n), (map (fun j => (j, col_result upper a y j)) before).
    split; apply (solve_batch_zeros upper a n y V Y).
  Qed.

  (* ---------- vectors ---------- *)
  Lemma solve_vec_spec upper a n (v : svec R) : tvalid upper a n ->
    fst v = n -> NoDup (map fst (snd v)) -> (forall e, In e (snd v) -> fst e < n) ->
    exists x, solve_triangular_vec o u upper a v = Some (n, x) /\
      forall i, i < n -> sum o n (fun k => entry o a i k * centry o x k) = ventry o v i.
  Proof.
    intros V Hd Hnd Hr. unfold solve_triangular_vec. rewrite (tv_nrows _ _ _ V), Hd, Nat.eqb_refl.
    rewrite to_dense_copy. destruct (copy_into_zeros (snd v) n Hr Hnd) as [b0 [E0 [Hl0 Hv0]]].
    rewrite E0. cbn [obind]. destruct (solve_core_spec upper a n b0 V Hl0) as [x [E [_ Hs]]].
    rewrite E. cbn. exists x. split; [reflexivity|]. intros i Hi. now rewrite (Hs i Hi), Hv0.
  Qed.

  (* ---------- the left variant ---------- *)
  Lemma tvalid_transpose upper a n : tvalid upper a n -> tvalid (negb upper) (sp_transpose a) n.
  Proof.
    intros V. constructor.
    - rewrite nrows_transpose. apply (tv_ncols _ _ _ V).
    - rewrite ncols_transpose. apply (tv_nrows _ _ _ V).
    - intros j e He. rewrite <- (tv_ncols _ _ _ V). now apply (transpose_rows a j e).
    - intros j Hj. destruct (tv_diag _ _ _ V j Hj) as [uj [ui [Hf Hu]]]. exists uj, ui. split; [|exact Hu].
      apply transpose_diag; [rewrite (tv_nrows _ _ _ V)|rewrite (tv_ncols _ _ _ V)|]; assumption.
    - intros i j Hi Hj Hij. rewrite (entry_transpose o L);
        [|rewrite (tv_nrows _ _ _ V); assumption|rewrite (tv_ncols _ _ _ V); assumption].
      apply (tv_tri _ _ _ V); try assumption. destruct upper; cbn in Hij; assumption.
  Qed.

  Lemma yvalid_transpose (y : spmat R) n : ncols y = n ->
    (forall j, NoDup (map fst (col y j))) -> yvalid (sp_transpose y) n.
  Proof.
    intros Hn Hnd. split; [now rewrite nrows_transpose|]. intros j. split.
    - now apply transpose_NoDup.
    - intros e He. rewrite <- Hn. now apply (transpose_rows y j e).
  Qed.

  Lemma solve_left_spec upper a n y : tvalid upper a n -> ncols y = n ->
    (forall j, NoDup (map fst (col y j))) ->
    exists x, solve_triangular_left o u upper a y = Some x /\ nrows x = nrows y /\ ncols x = n /\
      length (cols x) = n /\
      (forall j e, In e (col x j) -> fst e < nrows y) /\
      meq (nrows y) n (mmul o n (entry o x) (entry o a)) (entry o y).
  Proof.
    intros V Hn Hnd. unfold solve_triangular_left, solve_triangular.
    pose proof (tvalid_transpose upper a n V) as V'.
    pose proof (yvalid_transpose y n Hn Hnd) as Y'.
    rewrite (solve_triangular_st_spec (negb upper) (sp_transpose a) n (sp_transpose y) V' Y'). cbn [obind].
    set (x' := solution (negb upper) (sp_transpose a) (sp_transpose y)).
    exists (sp_transpose x'). split; [reflexivity|].
    assert (Hx'c : ncols x' = nrows y) by reflexivity.
    assert (Hx'r : nrows x' = n) by (unfold x', solution; cbn [nrows]; rewrite nrows_transpose; apply (tv_ncols _ _ _ V)).
    split; [exact Hx'c|]. split; [exact Hx'r|]. split; [|split].
    - cbn [sp_transpose cols]. now rewrite map_length, seq_length.
    - intros j e He. rewrite <- Hx'c. now apply (transpose_rows x' j e).
    - intros p j Hp Hj. unfold mmul.
      pose proof (solution_solves (negb upper) (sp_transpose a) n (sp_transpose y) V' Y') as Hs.
      specialize (Hs j p Hj). rewrite ncols_transpose in Hs. specialize (Hs Hp). unfold mmul in Hs.
      rewrite (entry_transpose o L) in Hs by (rewrite ?Hn; assumption).
      rewrite <- Hs. apply sum_ext. intros l Hl. fold x'.
      rewrite (entry_transpose o L x' l p) by (rewrite ?Hx'r, ?Hx'c; assumption).
      rewrite (entry_transpose o L a l j);
        [ring|rewrite (tv_nrows _ _ _ V); assumption|rewrite (tv_ncols _ _ _ V); assumption].
  Qed.

  (* ---------- from the CSC invariant and the Rust-level predicates to [tvalid] ---------- *)
  Definition unit_diag (a : spmat R) : bool :=
    forallb (fun j => existsb (fun e => (fst e =? j) && ris_unit u (snd e)) (col a j)) (seq 0 (ncols a)).

  Lemma tvalid_intro upper a :
    wf a = true -> is_triang o upper a = true -> unit_diag a = true -> tvalid upper a (nrows a).
  Proof.
    intros Hwf Htri Hdiag. unfold is_triang in Htri. apply andb_true_iff in Htri. destruct Htri as [Hsq Htri].
    apply Nat.eqb_eq in Hsq. rewrite forallb_forall in Htri. constructor.
    - reflexivity.
    - now symmetry.
    - intros j e He. now apply (wf_col_spec a j Hwf).
    - intros j Hj. unfold unit_diag in Hdiag. rewrite forallb_forall in Hdiag.
      specialize (Hdiag j). rewrite in_seq in Hdiag. specialize (Hdiag ltac:(lia)).
      apply existsb_exists in Hdiag. destruct Hdiag as [[i uj] [He Hu]]. cbn [fst snd] in Hu.
      apply andb_true_iff in Hu. destruct Hu as [Hi Hu]. apply Nat.eqb_eq in Hi. subst i.
      apply (rinv_unit o u UL) in Hu. destruct Hu as [ui Hui]. exists uj, ui. split; [|exact Hui].
      apply filter_row_single; [now apply (wf_col_spec a j Hwf)|assumption].
    - intros i j Hi Hj Hij. unfold entry. apply (centry_zero o L). intros e He Hei.
      specialize (Htri (fst e, j, snd e) (in_triplets a j e ltac:(lia) He)). cbn in Htri.
      apply orb_true_iff in Htri. destruct Htri as [Hz|Ht]; [now apply (ris_zero_true o L)|].
      exfalso. rewrite Hei in Ht. destruct upper; apply Nat.leb_le in Ht; lia.
  Qed.

  Lemma yvalid_intro (y : spmat R) : wf y = true -> yvalid y (nrows y).
  Proof. intros H. split; [reflexivity|]. intros j. now apply (wf_col_spec y j H). Qed.

  Lemma yvalid_id n : yvalid (sp_id o n) n.
  Proof.
    split; [reflexivity|]. intros j. rewrite (col_id o). destruct (Nat.ltb_spec j n) as [H|H].
    - split; [constructor; [intros []|constructor]|]. intros e [<-|[]]. exact H.
    - split; [constructor|intros e []].
  Qed.
End TriangProofs.
