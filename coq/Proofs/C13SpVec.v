(* C13, sparse vectors (SpVec = a sparse matrix with exactly one column), column extraction and
   construction from columns or dense data, util::perm_for_indices.
   [sv_is v d f]: v is a well-formed vector of dimension d whose entry i is f i for i < d. *)
From Coq Require Import Arith List Lia Bool Ring Sorted.
Require Import Yui.Base.Ring Yui.Base.MatF Yui.Base.MatL Yui.Model.Dense Yui.Model.Sparse.
Require Import Yui.Proofs.C13Dense Yui.Proofs.C13SpBase Yui.Proofs.C13Sparse Yui.Proofs.C13SpArith.
Import ListNotations.

Section SpVec.
  Context {R : Type} (o : ring_ops R) (L : ring_laws o).

  Local Notation "0" := (rzero o).
  Local Notation "1" := (rone o).
  Local Infix "+" := (radd o).
  Local Infix "*" := (rmul o).
  Local Notation "- x" := (rneg o x).
  Local Notation ent := (ent R).
  Local Notation spmat := (spmat R).
  Local Notation psum := (psum o).
  Local Notation gsum := (gsum o).
  Local Notation sp_wf := (@sp_wf R).
  Local Notation klt := (@klt R).
  Local Notation sp_is := (sp_is o).
  Local Notation is_perm := C13Sparse.is_perm.
  Local Notation pat := C13Sparse.pat.

  Add Ring Rring : (ring_theory_of_laws o L).

  Definition sv_is (v : spmat) (d : nat) (f : nat -> R) : Prop := sp_is v d 1 (fun i _ => f i).

  Lemma sv_is_ventry v d f i : sv_is v d f -> (i < d)%nat -> ventry o v i = f i.
  Proof. intros (_ & _ & _ & H) Hi. unfold ventry. apply H; lia. Qed.

  Lemma sv_is_ext v d f g : sv_is v d f -> (forall i, (i < d)%nat -> f i = g i) -> sv_is v d g.
  Proof. intros H E. eapply sp_is_ext; [exact H|]. intros i j Hi _. now apply E. Qed.

  Lemma sv_is_self v : sp_wf v -> sp_n v = 1%nat -> sv_is v (sp_m v) (ventry o v).
  Proof.
    intros W N. unfold sv_is, C13Sparse.sp_is. splits; try assumption; try reflexivity.
    intros i j _ Hj. unfold ventry. replace j with 0%nat by lia. reflexivity.
  Qed.

  Lemma sv_new_some (a : spmat) : sp_n a = 1%nat -> sv_new a = Some a.
  Proof. intros H. unfold sv_new. now rewrite H. Qed.

  Lemma sv_new_spec (a : spmat) :
    match sv_new a with Some v => v = a /\ sp_n a = 1%nat | None => sp_n a <> 1%nat end.
  Proof. unfold sv_new. destruct (Nat.eqb_spec (sp_n a) 1); [now split|assumption]. Qed.

  (* the stored entries of a well-formed vector all sit in column 0 *)
  Lemma sv_col0 v e : sp_wf v -> sp_n v = 1%nat -> In e (sp_st v) -> e_col e = 0%nat.
  Proof.
    intros W N He. pose proof (proj1 (sp_wf_iff v) W) as [B _].
    destruct (proj1 (in_bounds_iff _ _ _) B e He). lia.
  Qed.

  (* ---------- matrix * vector ---------- *)
  Theorem sp_mul_vec_spec a v d f : sp_wf a -> sv_is v d f ->
    match sp_mul_vec o a v with
    | Some w => sp_n a = d /\ sv_is w (sp_m a) (mvec o d (entry o a) f)
    | None => sp_n a <> d
    end.
  Proof.
    intros Wa (V1 & V2 & V3 & V4). unfold sp_mul_vec.
    pose proof (sp_mul_spec o L a v Wa V3) as M. destruct (sp_mul o a v) as [c|]; cbn [obind].
    - destruct M as (E & (C1 & C2 & C3 & C4)). rewrite sv_new_some by lia.
      split; [lia|]. unfold sv_is, C13Sparse.sp_is. splits; try assumption; try lia.
      intros i j Hi Hj. replace j with 0%nat by lia. rewrite C4 by lia. unfold mmul, mvec. rewrite E, V1.
      apply (sum_ext o). intros k Hk. f_equal. apply V4; lia.
    - lia.
  Qed.

  Lemma mvec_id n (g : nat -> R) i : (i < n)%nat -> mvec o n (mid o) g i = g i.
  Proof.
    intros Hi. unfold mvec, mid.
    rewrite (sum_ext o n _ (fun k => if k =? i then g k else 0)).
    - now rewrite (sum_delta o L).
    - intros k _. rewrite Nat.eqb_sym. destruct (k =? i); ring.
  Qed.

  Lemma mvec_ext n A A' g g' i :
    (forall k, (k < n)%nat -> A i k = A' i k) -> (forall k, (k < n)%nat -> g k = g' k) ->
    mvec o n A g i = mvec o n A' g' i.
  Proof. intros HA Hg. unfold mvec. apply (sum_ext o). intros k Hk. now rewrite HA, Hg. Qed.

  (* ---------- vectors built through from_entries ---------- *)
  Lemma sv_assemble_ok d (es : list ent) :
    (forall e, In e es -> (e_row e < d)%nat /\ e_col e = 0%nat) ->
    exists v, sp_from_entries o d 1 es = Some v /\ sv_new v = Some v /\
              sp_m v = d /\ sp_n v = 1%nat /\ sp_wf v /\ (forall P, psum P (sp_st v) = psum P es).
  Proof.
    intros B. destruct (sp_from_entries_ok o L d 1 es) as [v (Ev & (V1 & V2 & V3 & _) & V5)].
    { intros e He. destruct (B e He). lia. }
    exists v. splits; try assumption. now apply sv_new_some.
  Qed.

  (* col_vec(j) *)
  Theorem sp_col_vec_spec a j : sp_wf a ->
    match sp_col_vec o a j with
    | Some v => (j < sp_n a)%nat /\ sv_is v (sp_m a) (fun i => entry o a i j)
    | None => (sp_n a <= j)%nat
    end.
  Proof.
    intros W. pose proof (proj1 (sp_wf_iff a) W) as [B _]. pose proof (proj1 (in_bounds_iff _ _ _) B) as Bnd.
    unfold sp_col_vec. destruct (Nat.ltb_spec j (sp_n a)) as [Hj|Hj]; [|exact Hj].
    destruct (sv_assemble_ok (sp_m a)
                (map (fun e : ent => (e_row e, 0%nat, e_val e)) (filter (fun e : ent => e_col e =? j) (sp_st a))))
      as [v (Ev & Nv & V1 & V2 & V3 & V5)].
    { intros e' He'. apply in_map_iff in He'. destruct He' as [e [<- He]]. apply filter_In in He.
      destruct He as [He _]. destruct (Bnd e He). cbn [e_row e_col fst snd]. now split. }
    rewrite Ev. cbn [obind]. rewrite Nv. split; [exact Hj|].
    unfold sv_is, C13Sparse.sp_is. splits; try assumption.
    intros i c Hi Hc. replace c with 0%nat by lia.
    rewrite !entry_psum, V5, (gsum_map_key o), (gsum_filter o), (psum_gsum o).
    apply gsum_ext. intros e _. unfold key_eq. destruct (Nat.eqb_spec (e_col e) j); eqb_cases.
  Qed.

  (* ---------- from_dense_data ---------- *)
  Lemma divmod_key n k i j : (j < n)%nat -> key_eq (k / n) (k mod n) i j = (k =? i * n + j).
  Proof.
    intros Hj. unfold key_eq. assert (Hn : n <> 0%nat) by lia.
    pose proof (Nat.div_mod k n Hn) as D. pose proof (Nat.mod_upper_bound k n Hn) as U.
    destruct (Nat.eqb_spec k (i * n + j)) as [->|Hne].
    - rewrite Nat.div_add_l, Nat.div_small, Nat.add_0_r, Nat.eqb_refl by lia. cbn [andb].
      rewrite Nat.add_comm, Nat.mod_add, Nat.mod_small by lia. apply Nat.eqb_refl.
    - apply andb_false_iff. destruct (Nat.eqb_spec (k / n) i) as [E1|E1]; [|now left].
      right. apply Nat.eqb_neq. intros E2. apply Hne. rewrite D, E1, E2. lia.
  Qed.

  Theorem sp_from_dense_data_spec m n data :
    match sp_from_dense_data o m n data with
    | Some a => sp_is a m n (fun i j => nth (i * n + j) data 0)
    | None => (n = 0%nat /\ data <> []) \/
              exists k, (k < length data)%nat /\ nth k data 0 <> 0 /\ (m * n <= k)%nat
    end.
  Proof.
    unfold sp_from_dense_data. destruct data as [|x data'] eqn:Ed.
    - cbn. unfold C13Sparse.sp_is. cbn [sp_m sp_n]. splits; try reflexivity.
      intros i j _ _. destruct (i * n + j)%nat; reflexivity.
    - rewrite <- Ed. destruct (Nat.eqb_spec n 0) as [Hn|Hn].
      + left. split; [exact Hn|]. rewrite Ed. discriminate.
      + rewrite (enumerate_map R 0 data), map_map. cbn [fst snd].
        pose proof (sp_from_entries_spec o L m n (map (fun k => (k / n, k mod n, nth k data 0)) (seq 0 (length data)))) as S.
        destruct (sp_from_entries o m n _) as [a|].
        * destruct S as (_ & S & _). eapply sp_is_ext; [exact S|]. intros i j Hi Hj.
          rewrite esum_psum, (psum_map_seq o L). cbn [e_row e_col e_val fst snd].
          rewrite (sum_ext o (length data) _ (fun k => if k =? i * n + j then nth k data 0 else 0)).
          -- destruct (Nat.ltb_spec (i * n + j) (length data)) as [H|H].
             ++ now rewrite (sum_delta o L).
             ++ rewrite (sum_delta_out o L) by exact H. now rewrite nth_overflow.
          -- intros k _. now rewrite divmod_key.
        * right. destruct S as [e [He [Hv Hb]]]. apply in_map_iff in He. destruct He as [k [<- Hk]].
          apply in_seq in Hk. cbn [e_row e_col e_val fst snd] in *. exists k. splits; try lia; try assumption.
          pose proof (Nat.mod_upper_bound k n Hn) as U. pose proof (Nat.div_mod k n Hn) as D.
          assert (Hq : (m <= k / n)%nat) by lia. nia.
  Qed.

  (* ---------- from_col_vecs ---------- *)
  Definition vec_wf (v : spmat) : Prop := sp_wf v /\ sp_n v = 1%nat.

  Lemma sorted_map_mono_in (g : ent -> ent) (l : list ent) :
    (forall x y, In x l -> In y l -> klt x y -> klt (g x) (g y)) ->
    StronglySorted klt l -> StronglySorted klt (map g l).
  Proof.
    induction l as [|x r IH]; intros Hg S; cbn [map]; [constructor|].
    apply StronglySorted_inv in S. destruct S as [S F]. constructor.
    - apply IH; [|exact S]. intros a b Ha Hb. apply Hg; now right.
    - apply Forall_forall. intros y Hy. apply in_map_iff in Hy. destruct Hy as [z [<- Hz]].
      apply Hg; [now left|now right|]. rewrite Forall_forall in F. now apply F.
  Qed.

  Lemma cols_concat_spec m vs : (forall v, In v vs -> vec_wf v) -> forall j0,
    match cols_concat m j0 vs with
    | Some st =>
        (forall v, In v vs -> sp_m v = m) /\ StronglySorted klt st /\
        (forall e, In e st -> (e_row e < m)%nat /\ (j0 <= e_col e < j0 + length vs)%nat) /\
        length st = fold_right (fun v acc => (sp_nnz v + acc)%nat) 0%nat vs /\
        forall i j, psum (fun i' j' => key_eq i' j' i j) st
                    = if (j0 <=? j) && (j <? j0 + length vs) then ventry o (nth (j - j0) vs (sv_zero 0)) i else 0
    | None => exists v, In v vs /\ sp_m v <> m
    end.
  Proof.
    induction vs as [|v r IH]; intros W j0; cbn [cols_concat].
    - split; [intros ? []|]. split; [constructor|]. split; [intros ? []|]. split; [reflexivity|].
      intros i j. cbn [length C13SpBase.psum]. rewrite Nat.add_0_r.
      destruct (Nat.leb_spec j0 j); destruct (Nat.ltb_spec j j0); cbn [andb]; try reflexivity; lia.
    - destruct (W v (or_introl eq_refl)) as [Wv Nv].
      pose proof (proj1 (sp_wf_iff v) Wv) as [Bv Sv]. pose proof (proj1 (in_bounds_iff _ _ _) Bv) as Bnd.
      destruct (Nat.eqb_spec (sp_m v) m) as [Em|Em].
      + specialize (IH (fun x Hx => W x (or_intror Hx)) (S j0)).
        destruct (cols_concat m (S j0) r) as [rest|]; cbn [obind].
        * destruct IH as (I1 & I2 & I3 & I4 & I5). splits.
          -- intros x [<-|Hx]; [exact Em|now apply I1].
          -- apply sorted_app; [|exact I2|].
             ++ apply sorted_map_mono_in; [|exact Sv]. intros x y Hx Hy. unfold C13SpBase.klt.
                cbn [e_row e_col fst snd]. rewrite !key_lt_spec. destruct (Bnd x Hx), (Bnd y Hy). lia.
             ++ intros x y Hx Hy. apply in_map_iff in Hx. destruct Hx as [z [<- Hz]].
                destruct (I3 y Hy). unfold C13SpBase.klt. cbn [e_row e_col fst snd]. apply key_lt_spec. lia.
          -- intros e He. apply in_app_iff in He. destruct He as [He|He].
             ++ apply in_map_iff in He. destruct He as [z [<- Hz]]. destruct (Bnd z Hz).
                cbn [e_row e_col fst snd length]. lia.
             ++ destruct (I3 e He). cbn [length]. lia.
          -- rewrite app_length, map_length. cbn [fold_right]. unfold sp_nnz at 1. f_equal. exact I4.
          -- intros i j. rewrite (psum_app o L), I5, (gsum_map_key o). cbn [length].
             assert (G : gsum (fun e : ent => key_eq (e_row e) j0 i j) (sp_st v)
                         = if j =? j0 then ventry o v i else 0).
             { destruct (Nat.eqb_spec j j0) as [->|Hne].
               - unfold ventry. rewrite entry_psum, (psum_gsum o). apply gsum_ext. intros e He.
                 destruct (Bnd e He). unfold key_eq. eqb_cases.
               - apply gsum_false. intros e _. unfold key_eq. eqb_cases. }
             rewrite G.
             destruct (Nat.eqb_spec j j0) as [->|Hne].
             ++ destruct (Nat.leb_spec (S j0) j0); [lia|]. destruct (Nat.leb_spec j0 j0); [|lia].
                destruct (Nat.ltb_spec j0 (j0 + S (length r))); [|lia]. cbn [andb].
                rewrite Nat.sub_diag. cbn [nth]. ring.
             ++ destruct (Nat.leb_spec (S j0) j); destruct (Nat.leb_spec j0 j); try lia;
                  destruct (Nat.ltb_spec j (S j0 + length r)); destruct (Nat.ltb_spec j (j0 + S (length r)));
                  try lia; cbn [andb]; try ring.
                replace (j - j0)%nat with (S (j - S j0)) by lia. cbn [nth]. ring.
        * destruct IH as [x [Hx Hn]]. exists x. split; [now right|exact Hn].
      + exists v. split; [now left|exact Em].
  Qed.

  Theorem sp_from_col_vecs_spec m vs : (forall v, In v vs -> vec_wf v) ->
    match sp_from_col_vecs m vs with
    | Some a => (forall v, In v vs -> sp_m v = m) /\
                sp_is a m (length vs) (fun i j => ventry o (nth j vs (sv_zero 0)) i) /\
                sp_nnz a = fold_right (fun v acc => (sp_nnz v + acc)%nat) 0%nat vs
    | None => exists v, In v vs /\ sp_m v <> m
    end.
  Proof.
    intros W. unfold sp_from_col_vecs. pose proof (cols_concat_spec m vs W 0) as C.
    destruct (cols_concat m 0 vs) as [st|]; cbn [obind]; [|exact C].
    destruct C as (C1 & C2 & C3 & C4 & C5). unfold try_csc.
    assert (V : csc_validb m (length vs) st = true).
    { unfold csc_validb. apply andb_true_iff. split; [|now apply sortedb_iff].
      apply in_bounds_iff. intros e He. destruct (C3 e He). lia. }
    rewrite V. splits; try assumption.
    - unfold C13Sparse.sp_is. cbn [sp_m sp_n]. splits; try reflexivity; [exact V|].
      intros i j Hi Hj. rewrite entry_psum. cbn [sp_st]. rewrite C5. cbn [Nat.leb Nat.add].
      destruct (Nat.ltb_spec j (length vs)); [|lia]. cbn [andb]. now rewrite Nat.sub_0_r.
    - unfold sp_nnz. cbn [sp_st]. exact C4.
  Qed.
End SpVec.
