(* C13, sparse vectors (SpVec = a sparse matrix with exactly one column), column extraction and
   construction from columns or dense data, util::perm_for_indices.
   [sv_is v d f]: v is a well-formed vector of dimension d whose entry i is f i for i < d. *)
From Coq Require Import Arith List Lia Bool Ring Sorted.
Require Import Yui.Base.Ring Yui.Base.MatF Yui.Base.MatL Yui.Model.Dense Yui.Model.Sparse.
Require Import Yui.Proofs.C13Dense Yui.Proofs.C13SpBase Yui.Proofs.C13Sparse Yui.Proofs.C13SpArith.
Import ListNotations.

Section SpVec.
  Context {R : Type} (o : ring_ops R) (L : ring_laws o).

  Local Notation "0" := (rzero o).
  Local Notation "1" := (rone o).
  Local Infix "+" := (radd o).
  Local Infix "*" := (rmul o).
  Local Notation "- x" := (rneg o x).
  Local Notation ent := (ent R).
  Local Notation spmat := (spmat R).
  Local Notation psum := (psum o).
  Local Notation gsum := (gsum o).
  Local Notation sp_wf := (@sp_wf R).
  Local Notation klt := (@klt R).
  Local Notation sp_is := (sp_is o).
  Local Notation is_perm := C13Sparse.is_perm.
  Local Notation pat := C13Sparse.pat.

  Add Ring Rring : (ring_theory_of_laws o L).

  Definition sv_is (v : spmat) (d : nat) (f : nat -> R) : Prop := sp_is v d 1 (fun i _ => f i).

  Lemma sv_is_ventry v d f i : sv_is v d f -> (i < d)%nat -> ventry o v i = f i.
  Proof. intros (_ & _ & _ & H) Hi. unfold ventry. apply H; lia. Qed.

  Lemma sv_is_ext v d f g : sv_is v d f -> (forall i, (i < d)%nat -> f i = g i) -> sv_is v d g.
  Proof. intros H E. eapply sp_is_ext; [exact H|]. intros i j Hi _. now apply E. Qed.

  Lemma sv_is_self v : sp_wf v -> sp_n v = 1%nat -> sv_is v (sp_m v) (ventry o v).
  Proof.
    intros W N. unfold sv_is, C13Sparse.sp_is. splits; try assumption; try reflexivity.
    intros i j _ Hj. unfold ventry. replace j with 0%nat by lia. reflexivity.
  Qed.

  Lemma sv_new_some (a : spmat) : sp_n a = 1%nat -> sv_new a = Some a.
  Proof. intros H. unfold sv_new. now rewrite H. Qed.

  Lemma sv_new_spec (a : spmat) :
    match sv_new a with Some v => v = a /\ sp_n a = 1%nat | None => sp_n a <> 1%nat end.
  Proof. unfold sv_new. destruct (Nat.eqb_spec (sp_n a) 1); [now split|assumption]. Qed.

  (* the stored entries of a well-formed vector all sit in column 0 *)
  Lemma sv_col0 v e : sp_wf v -> sp_n v = 1%nat -> In e (sp_st v) -> e_col e = 0%nat.
  Proof.
    intros W N He. pose proof (proj1 (sp_wf_iff v) W) as [B _].
    destruct (proj1 (in_bounds_iff _ _ _) B e He). lia.
  Qed.

  (* ---------- matrix * vector ---------- *)
  Theorem sp_mul_vec_spec a v d f : sp_wf a -> sv_is v d f ->
    match sp_mul_vec o a v with
    | Some w => sp_n a = d /\ sv_is w (sp_m a) (mvec o d (entry o a) f)
    | None => sp_n a <> d
    end.
  Proof.
    intros Wa (V1 & V2 & V3 & V4). unfold sp_mul_vec.
    pose proof (sp_mul_spec o L a v Wa V3) as M. destruct (sp_mul o a v) as [c|]; cbn [obind].
    - destruct M as (E & (C1 & C2 & C3 & C4)). rewrite sv_new_some by lia.
      split; [lia|]. unfold sv_is, C13Sparse.sp_is. splits; try assumption; try lia.
      intros i j Hi Hj. replace j with 0%nat by lia. rewrite C4 by lia. unfold mmul, mvec. rewrite E, V1.
      apply (sum_ext o). intros k Hk. f_equal. apply V4; lia.
    - lia.
  Qed.

  Lemma mvec_id n (g : nat -> R) i : (i < n)%nat -> mvec o n (mid o) g i = g i.
  Proof.
    intros Hi. unfold mvec, mid.
    rewrite (sum_ext o n _ (fun k => if k =? i then g k else 0)).
    - now rewrite (sum_delta o L).
    - intros k _. rewrite Nat.eqb_sym. destruct (k =? i); ring.
  Qed.

  Lemma mvec_ext n A A' g g' i :
    (forall k, (k < n)%nat -> A i k = A' i k) -> (forall k, (k < n)%nat -> g k = g' k) ->
    mvec o n A g i = mvec o n A' g' i.
  Proof. intros HA Hg. unfold mvec. apply (sum_ext o). intros k Hk. now rewrite HA, Hg. Qed.
End SpVec.
