(* C13, sparse vectors (SpVec = a sparse matrix with exactly one column), column extraction and
   construction from columns or dense data (util::perm_for_indices, to_dense and stack_vecs are in C13Extra.v).
   [sv_is v d f]: v is a well-formed vector of dimension d whose entry i is f i for i < d. *)
From Coq Require Import Arith List Lia Bool Ring Sorted.
Require Import Yui.Base.Ring Yui.Base.MatF Yui.Base.MatL Yui.Model.Dense Yui.Model.Sparse.
Require Import Yui.Proofs.C13Dense Yui.Proofs.C13SpBase Yui.Proofs.C13Sparse Yui.Proofs.C13SpArith.
Import ListNotations.

Section SpVec.
  Context {R : Type} (o : ring_ops R) (L : ring_laws o).

  Local Notation "0" := (rzero o).
  Local Notation "1" := (rone o).
  Local Infix "+" := (radd o).
  Local Infix "*" := (rmul o).
  Local Notation "- x" := (rneg o x).
  Local Notation ent := (ent R).
  Local Notation spmat := (spmat R).
  Local Notation psum := (psum o).
  Local Notation gsum := (gsum o).
  Local Notation sp_wf := (@sp_wf R).
  Local Notation klt := (@klt R).
  Local Notation sp_is := (sp_is o).
  Local Notation is_perm := C13Sparse.is_perm.
  Local Notation pat := C13Sparse.pat.

  Add Ring Rring : (ring_theory_of_laws o L).

  Definition sv_is (v : spmat) (d : nat) (f : nat -> R) : Prop := sp_is v d 1 (fun i _ => f i).

  Lemma sv_is_ventry v d f i : sv_is v d f -> (i < d)%nat -> ventry o v i = f i.
  Proof. intros (_ & _ & _ & H) Hi. unfold ventry. apply H; lia. Qed.

  Lemma sv_is_ext v d f g : sv_is v d f -> (forall i, (i < d)%nat -> f i = g i) -> sv_is v d g.
  Proof. intros H E. eapply sp_is_ext; [exact H|]. intros i j Hi _. now apply E. Qed.

  Lemma sv_is_self v : sp_wf v -> sp_n v = 1%nat -> sv_is v (sp_m v) (ventry o v).
  Proof.
    intros W N. unfold sv_is, C13Sparse.sp_is. splits; try assumption; try reflexivity.
    intros i j _ Hj. unfold ventry. replace j with 0%nat by lia. reflexivity.
  Qed.

  Lemma sv_new_some (a : spmat) : sp_n a = 1%nat -> sv_new a = Some a.
  Proof. intros H. unfold sv_new. now rewrite H. Qed.

  Lemma sv_new_spec (a : spmat) :
    match sv_new a with Some v => v = a /\ sp_n a = 1%nat | None => sp_n a <> 1%nat end.
  Proof. unfold sv_new. destruct (Nat.eqb_spec (sp_n a) 1); [now split|assumption]. Qed.

  (* the stored entries of a well-formed vector all sit in column 0 *)
  Lemma sv_col0 v e : sp_wf v -> sp_n v = 1%nat -> In e (sp_st v) -> e_col e = 0%nat.
  Proof.
    intros W N He. pose proof (proj1 (sp_wf_iff v) W) as [B _].
    destruct (proj1 (in_bounds_iff _ _ _) B e He). lia.
  Qed.

  (* ---------- matrix * vector ---------- *)
  Theorem sp_mul_vec_spec a v d f : sp_wf a -> sv_is v d f ->
    match sp_mul_vec o a v with
    | Some w => sp_n a = d /\ sv_is w (sp_m a) (mvec o d (entry o a) f)
    | None => sp_n a <> d
    end.
  Proof.
    intros Wa (V1 & V2 & V3 & V4). unfold sp_mul_vec.
    pose proof (sp_mul_spec o L a v Wa V3) as M. destruct (sp_mul o a v) as [c|]; cbn [obind].
    - destruct M as (E & (C1 & C2 & C3 & C4)). rewrite sv_new_some by lia.
      split; [lia|]. unfold sv_is, C13Sparse.sp_is. splits; try assumption; try lia.
      intros i j Hi Hj. replace j with 0%nat by lia. rewrite C4 by lia. unfold mmul, mvec. rewrite E, V1.
      apply (sum_ext o). intros k Hk. f_equal. apply V4; lia.
    - lia.
  Qed.

  Lemma mvec_id n (g : nat -> R) i : (i < n)%nat -> mvec o n (mid o) g i = g i.
  Proof.
    intros Hi. unfold mvec, mid.
    rewrite (sum_ext o n _ (fun k => if k =? i then g k else 0)).
    - now rewrite (sum_delta o L).
    - intros k _. rewrite Nat.eqb_sym. destruct (k =? i); ring.
  Qed.

  Lemma mvec_ext n A A' g g' i :
    (forall k, (k < n)%nat -> A i k = A' i k) -> (forall k, (k < n)%nat -> g k = g' k) ->
    mvec o n A g i = mvec o n A' g' i.
  Proof. intros HA Hg. unfold mvec. apply (sum_ext o). intros k Hk. now rewrite HA, Hg. Qed.

  (* ---------- vectors built through from_entries ---------- *)
  Lemma sv_assemble_ok d (es : list ent) :
    (forall e, In e es -> (e_row e < d)%nat /\ e_col e = 0%nat) ->
    exists v, sp_from_entries o d 1 es = Some v /\ sv_new v = Some v /\
              sp_m v = d /\ sp_n v = 1%nat /\ sp_wf v /\ (forall P, psum P (sp_st v) = psum P es).
  Proof.
    intros B. destruct (sp_from_entries_ok o L d 1 es) as [v (Ev & (V1 & V2 & V3 & _) & V5)].
    { intros e He. destruct (B e He). lia. }
    exists v. splits; try assumption. now apply sv_new_some.
  Qed.

  (* col_vec(j) *)
  Theorem sp_col_vec_spec a j : sp_wf a ->
    match sp_col_vec o a j with
    | Some v => (j < sp_n a)%nat /\ sv_is v (sp_m a) (fun i => entry o a i j)
    | None => (sp_n a <= j)%nat
    end.
  Proof.
    intros W. pose proof (proj1 (sp_wf_iff a) W) as [B _]. pose proof (proj1 (in_bounds_iff _ _ _) B) as Bnd.
    unfold sp_col_vec. destruct (Nat.ltb_spec j (sp_n a)) as [Hj|Hj]; [|exact Hj].
    destruct (sv_assemble_ok (sp_m a)
                (map (fun e : ent => (e_row e, 0%nat, e_val e)) (filter (fun e : ent => e_col e =? j) (sp_st a))))
      as [v (Ev & Nv & V1 & V2 & V3 & V5)].
    { intros e' He'. apply in_map_iff in He'. destruct He' as [e [<- He]]. apply filter_In in He.
      destruct He as [He _]. destruct (Bnd e He). cbn [e_row e_col fst snd]. now split. }
    rewrite Ev. cbn [obind]. rewrite Nv. split; [exact Hj|].
    unfold sv_is, C13Sparse.sp_is. splits; try assumption.
    intros i c Hi Hc. replace c with 0%nat by lia.
    rewrite !entry_psum, V5, (gsum_map_key o), (gsum_filter o), (psum_gsum o).
    apply gsum_ext. intros e _. unfold key_eq. destruct (Nat.eqb_spec (e_col e) j); eqb_cases.
  Qed.

  (* ---------- from_dense_data ---------- *)
  Lemma divmod_key n k i j : (j < n)%nat -> key_eq (k / n) (k mod n) i j = (k =? i * n + j).
  Proof.
    intros Hj. unfold key_eq. assert (Hn : n <> 0%nat) by lia.
    pose proof (Nat.div_mod k n Hn) as D. pose proof (Nat.mod_upper_bound k n Hn) as U.
    destruct (Nat.eqb_spec k (i * n + j)) as [->|Hne].
    - rewrite Nat.div_add_l, Nat.div_small, Nat.add_0_r, Nat.eqb_refl by lia. cbn [andb].
      rewrite Nat.add_comm, Nat.mod_add, Nat.mod_small by lia. apply Nat.eqb_refl.
    - apply andb_false_iff. destruct (Nat.eqb_spec (k / n) i) as [E1|E1]; [|now left].
      right. apply Nat.eqb_neq. intros E2. apply Hne. rewrite D, E1, E2. lia.
  Qed.

  Theorem sp_from_dense_data_spec m n data :
    match sp_from_dense_data o m n data with
    | Some a => sp_is a m n (fun i j => nth (i * n + j) data 0)
    | None => (n = 0%nat /\ data <> []) \/
              exists k, (k < length data)%nat /\ nth k data 0 <> 0 /\ (m * n <= k)%nat
    end.
  Proof.
    unfold sp_from_dense_data. destruct data as [|x data'] eqn:Ed.
    - cbn. unfold C13Sparse.sp_is. cbn [sp_m sp_n]. splits; try reflexivity.
      intros i j _ _. destruct (i * n + j)%nat; reflexivity.
    - rewrite <- Ed. destruct (Nat.eqb_spec n 0) as [Hn|Hn].
      + left. split; [exact Hn|]. rewrite Ed. discriminate.
      + rewrite (enumerate_map R 0 data), map_map. cbn [fst snd].
        pose proof (sp_from_entries_spec o L m n (map (fun k => (k / n, k mod n, nth k data 0)) (seq 0 (length data)))) as S.
        destruct (sp_from_entries o m n _) as [a|].
        * destruct S as (_ & S & _). eapply sp_is_ext; [exact S|]. intros i j Hi Hj.
          rewrite esum_psum, (psum_map_seq o L). cbn [e_row e_col e_val fst snd].
          rewrite (sum_ext o (length data) _ (fun k => if k =? i * n + j then nth k data 0 else 0)).
          -- destruct (Nat.ltb_spec (i * n + j) (length data)) as [H|H].
             ++ now rewrite (sum_delta o L).
             ++ rewrite (sum_delta_out o L) by exact H. now rewrite nth_overflow.
          -- intros k _. now rewrite divmod_key.
        * right. destruct S as [e [He [Hv Hb]]]. apply in_map_iff in He. destruct He as [k [<- Hk]].
          apply in_seq in Hk. cbn [e_row e_col e_val fst snd] in *. exists k. splits; try lia; try assumption.
          pose proof (Nat.mod_upper_bound k n Hn) as U. pose proof (Nat.div_mod k n Hn) as D.
          assert (Hq : (m <= k / n)%nat) by lia. nia.
  Qed.

  (* ---------- from_col_vecs ---------- *)
  Definition vec_wf (v : spmat) : Prop := sp_wf v /\ sp_n v = 1%nat.

  Lemma sorted_map_mono_in (g : ent -> ent) (l : list ent) :
    (forall x y, In x l -> In y l -> klt x y -> klt (g x) (g y)) ->
    StronglySorted klt l -> StronglySorted klt (map g l).
  Proof.
    induction l as [|x r IH]; intros Hg S; cbn [map]; [constructor|].
    apply StronglySorted_inv in S. destruct S as [S F]. constructor.
    - apply IH; [|exact S]. intros a b Ha Hb. apply Hg; now right.
    - apply Forall_forall. intros y Hy. apply in_map_iff in Hy. destruct Hy as [z [<- Hz]].
      apply Hg; [now left|now right|]. rewrite Forall_forall in F. now apply F.
  Qed.

  Lemma cols_concat_spec m vs : (forall v, In v vs -> vec_wf v) -> forall j0,
    match cols_concat m j0 vs with
    | Some st =>
        (forall v, In v vs -> sp_m v = m) /\ StronglySorted klt st /\
        (forall e, In e st -> (e_row e < m)%nat /\ (j0 <= e_col e < j0 + length vs)%nat) /\
        length st = fold_right (fun v acc => (sp_nnz v + acc)%nat) 0%nat vs /\
        forall i j, psum (fun i' j' => key_eq i' j' i j) st
                    = if (j0 <=? j) && (j <? j0 + length vs) then ventry o (nth (j - j0) vs (sv_zero 0)) i else 0
    | None => exists v, In v vs /\ sp_m v <> m
    end.
  Proof.
    induction vs as [|v r IH]; intros W j0; cbn [cols_concat].
    - split; [intros ? []|]. split; [constructor|]. split; [intros ? []|]. split; [reflexivity|].
      intros i j. cbn [length C13SpBase.psum]. rewrite Nat.add_0_r.
      destruct (Nat.leb_spec j0 j); destruct (Nat.ltb_spec j j0); cbn [andb]; try reflexivity; lia.
    - destruct (W v (or_introl eq_refl)) as [Wv Nv].
      pose proof (proj1 (sp_wf_iff v) Wv) as [Bv Sv]. pose proof (proj1 (in_bounds_iff _ _ _) Bv) as Bnd.
      destruct (Nat.eqb_spec (sp_m v) m) as [Em|Em].
      + specialize (IH (fun x Hx => W x (or_intror Hx)) (S j0)).
        destruct (cols_concat m (S j0) r) as [rest|]; cbn [obind].
        * destruct IH as (I1 & I2 & I3 & I4 & I5). splits.
          -- intros x [<-|Hx]; [exact Em|now apply I1].
          -- apply sorted_app; [|exact I2|].
             ++ apply sorted_map_mono_in; [|exact Sv]. intros x y Hx Hy. unfold C13SpBase.klt.
                cbn [e_row e_col fst snd]. rewrite !key_lt_spec. destruct (Bnd x Hx), (Bnd y Hy). lia.
             ++ intros x y Hx Hy. apply in_map_iff in Hx. destruct Hx as [z [<- Hz]].
                destruct (I3 y Hy). unfold C13SpBase.klt. cbn [e_row e_col fst snd]. apply key_lt_spec. lia.
          -- intros e He. apply in_app_iff in He. destruct He as [He|He].
             ++ apply in_map_iff in He. destruct He as [z [<- Hz]]. destruct (Bnd z Hz).
                cbn [e_row e_col fst snd length]. lia.
             ++ destruct (I3 e He). cbn [length]. lia.
          -- rewrite app_length, map_length. cbn [fold_right]. unfold sp_nnz at 1. f_equal. exact I4.
          -- intros i j. rewrite (psum_app o L), I5, (gsum_map_key o). cbn [length].
             assert (G : gsum (fun e : ent => key_eq (e_row e) j0 i j) (sp_st v)
                         = if j =? j0 then ventry o v i else 0).
             { destruct (Nat.eqb_spec j j0) as [->|Hne].
               - unfold ventry. rewrite entry_psum, (psum_gsum o). apply gsum_ext. intros e He.
                 destruct (Bnd e He). unfold key_eq. eqb_cases.
               - apply gsum_false. intros e _. unfold key_eq. eqb_cases. }
             rewrite G. clear G.
             destruct (Nat.eqb_spec j j0) as [Ej|Hne]; [subst j|].
             ++ destruct (Nat.leb_spec (S j0) j0); [lia|]. destruct (Nat.leb_spec j0 j0); [|lia].
                destruct (Nat.ltb_spec j0 (j0 + S (length r))); [|lia]. cbn [andb].
                rewrite Nat.sub_diag. cbn [nth]. ring.
             ++ destruct (Nat.leb_spec (S j0) j); destruct (Nat.leb_spec j0 j); try lia;
                  destruct (Nat.ltb_spec j (S j0 + length r)); destruct (Nat.ltb_spec j (j0 + S (length r)));
                  try lia; cbn [andb]; try ring.
                replace (j - j0)%nat with (S (j - S j0)) by lia. cbn [nth]. ring.
        * destruct IH as [x [Hx Hn]]. exists x. split; [now right|exact Hn].
      + exists v. split; [now left|exact Em].
  Qed.

  Theorem sp_from_col_vecs_spec m vs : (forall v, In v vs -> vec_wf v) ->
    match sp_from_col_vecs m vs with
    | Some a => (forall v, In v vs -> sp_m v = m) /\
                sp_is a m (length vs) (fun i j => ventry o (nth j vs (sv_zero 0)) i) /\
                sp_nnz a = fold_right (fun v acc => (sp_nnz v + acc)%nat) 0%nat vs
    | None => exists v, In v vs /\ sp_m v <> m
    end.
  Proof.
    intros W. unfold sp_from_col_vecs. pose proof (cols_concat_spec m vs W 0) as C.
    destruct (cols_concat m 0 vs) as [st|]; cbn [obind]; [|exact C].
    destruct C as (C1 & C2 & C3 & C4 & C5). unfold try_csc.
    assert (V : csc_validb m (length vs) st = true).
    { unfold csc_validb. apply andb_true_iff. split; [|now apply sortedb_iff].
      apply in_bounds_iff. intros e He. destruct (C3 e He). lia. }
    rewrite V. splits; try assumption.
    - unfold C13Sparse.sp_is. cbn [sp_m sp_n]. splits; try reflexivity; [exact V|].
      intros i j Hi Hj. rewrite entry_psum. cbn [sp_st]. rewrite C5. cbn [Nat.leb Nat.add].
      destruct (Nat.ltb_spec j (length vs)); [|lia]. cbn [andb]. now rewrite Nat.sub_0_r.
  Qed.

  (* ---------- SpVec constructors ---------- *)
  Theorem sv_zero_spec d : sv_is (sv_zero d) d (fun _ => 0).
  Proof. unfold sv_is, C13Sparse.sp_is, sv_zero. cbn [sp_m sp_n]. splits; reflexivity. Qed.

  Theorem sv_unit_spec n i :
    match sv_unit o n i with
    | Some v => (i < n)%nat /\ sv_is v n (fun k => if k =? i then 1 else 0)
    | None => (n <= i)%nat
    end.
  Proof.
    unfold sv_unit, try_csc, csc_validb. cbn [in_bounds forallb sortedb e_row e_col fst snd andb].
    destruct (Nat.ltb_spec i n) as [H|H]; cbn [andb obind]; [|exact H].
    split; [exact H|]. unfold sv_is, C13Sparse.sp_is. cbn [sp_m sp_n]. splits; try reflexivity.
    - apply sp_wf_iff. cbn [sp_m sp_n sp_st]. split; [|repeat constructor].
      apply in_bounds_iff. intros e [<-|[]]. cbn [e_row e_col fst snd]. lia.
    - intros k c Hk Hc. replace c with 0%nat by lia. unfold entry. cbn [sp_st esum e_row e_col e_val fst snd].
      unfold key_eq. rewrite Nat.eqb_refl, andb_true_r, (Nat.eqb_sym i k). destruct (k =? i); ring.
  Qed.

  Lemma col0_in (es : list (nat * R)) e : In e (col0 es) <-> exists ix, In ix es /\ e = (fst ix, 0%nat, snd ix).
  Proof.
    unfold col0. rewrite in_map_iff. split; intros [ix [H1 H2]]; exists ix; (split; [|assumption]) || split; auto.
  Qed.

  Theorem sv_from_entries_spec d (es : list (nat * R)) :
    match sv_from_entries o d es with
    | Some v => (forall ix, In ix es -> snd ix <> 0 -> (fst ix < d)%nat) /\
                sv_is v d (fun i => esum o (col0 es) i 0)
    | None => exists ix, In ix es /\ snd ix <> 0 /\ (d <= fst ix)%nat
    end.
  Proof.
    unfold sv_from_entries. pose proof (sp_from_entries_spec o L d 1 (col0 es)) as S.
    destruct (sp_from_entries o d 1 (col0 es)) as [a|]; cbn [obind].
    - destruct S as (S1 & (S2 & S3 & S4 & S5) & _). rewrite sv_new_some by exact S3. split.
      + intros ix Hix Hv. specialize (S1 (fst ix, 0%nat, snd ix)). cbn [e_row e_col e_val fst snd] in S1.
        apply S1; [|exact Hv]. apply col0_in. now exists ix.
      + unfold sv_is, C13Sparse.sp_is. splits; try assumption.
        intros i c Hi Hc. replace c with 0%nat by lia. apply S5; lia.
    - destruct S as [e [He [Hv Hn]]]. apply col0_in in He. destruct He as [ix [Hix ->]].
      cbn [e_row e_col e_val fst snd] in *. exists ix. splits; try assumption. lia.
  Qed.

  Theorem sv_from_vec_spec (l : list R) :
    exists v, sv_from_vec o l = Some v /\ sv_is v (length l) (fun i => nth i l 0).
  Proof.
    unfold sv_from_vec. pose proof (sv_from_entries_spec (length l) (enumerate l)) as S.
    destruct (sv_from_entries o (length l) (enumerate l)) as [v|].
    - exists v. split; [reflexivity|]. destruct S as (_ & S). eapply sv_is_ext; [exact S|].
      intros i Hi. unfold col0. rewrite (enumerate_map R 0 l), map_map. cbn [fst snd].
      rewrite esum_psum, (psum_map_seq o L). cbn [e_row e_col e_val fst snd].
      rewrite (sum_ext o (length l) _ (fun k => if k =? i then nth k l 0 else 0)).
      + now rewrite (sum_delta o L).
      + intros k _. unfold key_eq. now rewrite andb_true_r.
    - exfalso. destruct S as [ix [Hix [_ Hd]]]. rewrite (enumerate_map R 0 l) in Hix.
      apply in_map_iff in Hix. destruct Hix as [k [<- Hk]]. apply in_seq in Hk. cbn [fst] in Hd. lia.
  Qed.

  Lemma col0_sorted (es : list (nat * R)) :
    StronglySorted klt (col0 es) <-> StronglySorted lt (map fst es).
  Proof.
    induction es as [|ix r IH]; cbn [col0 map]; [split; constructor|].
    split; intros S; apply StronglySorted_inv in S; destruct S as [S F]; constructor.
    - now apply IH.
    - apply Forall_forall. intros x Hx. apply in_map_iff in Hx. destruct Hx as [iy [<- Hy]].
      rewrite Forall_forall in F. specialize (F (fst iy, 0%nat, snd iy)).
      assert (Hin : In (fst iy, 0%nat, snd iy) (map (fun ix0 => (fst ix0, 0%nat, snd ix0)) r)).
      { apply in_map_iff. now exists iy. }
      specialize (F Hin). unfold C13SpBase.klt in F. cbn [e_row e_col fst snd] in F. apply key_lt_spec in F. lia.
    - now apply IH.
    - apply Forall_forall. intros e He. apply in_map_iff in He. destruct He as [iy [<- Hy]].
      rewrite Forall_forall in F. specialize (F (fst iy) (in_map fst r iy Hy)).
      unfold C13SpBase.klt. cbn [e_row e_col fst snd]. apply key_lt_spec. lia.
  Qed.

  (* from_sorted_entries keeps zero values; the indices must be in range and strictly increasing *)
  Theorem sv_from_sorted_entries_spec d (es : list (nat * R)) :
    match sv_from_sorted_entries d es with
    | Some v => ((forall ix, In ix es -> (fst ix < d)%nat) /\ StronglySorted lt (map fst es)) /\
                sv_is v d (fun i => esum o (col0 es) i 0) /\ sp_nnz v = length es
    | None => ~ ((forall ix, In ix es -> (fst ix < d)%nat) /\ StronglySorted lt (map fst es))
    end.
  Proof.
    unfold sv_from_sorted_entries.
    destruct (forallb (fun ix => fst ix <? d) es) eqn:Eb.
    - rewrite forallb_forall in Eb.
      assert (B : forall ix, In ix es -> (fst ix < d)%nat) by (intros ix H; now apply Nat.ltb_lt, Eb).
      assert (IB : in_bounds d 1 (col0 es) = true).
      { apply in_bounds_iff. intros e He. apply col0_in in He. destruct He as [ix [Hix ->]].
        cbn [e_row e_col fst snd]. split; [now apply B|lia]. }
      unfold try_csc, csc_validb. rewrite IB. cbn [andb].
      destruct (sortedb (col0 es)) eqn:Es; cbn [obind].
      + apply sortedb_iff in Es. rewrite sv_new_some by reflexivity. splits.
        * exact B.
        * now apply col0_sorted.
        * unfold sv_is, C13Sparse.sp_is. cbn [sp_m sp_n]. splits; try reflexivity.
          -- apply sp_wf_iff. cbn [sp_m sp_n sp_st]. now split.
          -- intros i c Hi Hc. replace c with 0%nat by lia. reflexivity.
        * unfold sp_nnz, col0. cbn [sp_st]. apply map_length.
      + intros [_ S]. apply col0_sorted, sortedb_iff in S. congruence.
    - intros [B _]. assert (forallb (fun ix => fst ix <? d) es = true); [|congruence].
      apply forallb_forall. intros ix H. now apply Nat.ltb_lt, B.
  Qed.

  (* ---------- extract and what is built on it ---------- *)
  Definition vsel (f : nat -> fres) (i : nat) (e : ent) : bool :=
    match f (e_row e) with FTo i' _ => i' =? i | _ => false end.

  Lemma sv_extract_spec v d f :
    (forall e, In e (sp_st v) -> f (e_row e) <> FPanic) ->
    (forall e i' c, In e (sp_st v) -> f (e_row e) = FTo i' c -> (i' < d)%nat) ->
    exists w, sv_extract o v d f = Some w /\ sp_m w = d /\ sp_n w = 1%nat /\ sp_wf w /\
              forall i, ventry o w i = gsum (vsel f i) (sp_st v).
  Proof.
    intros NP B. unfold sv_extract. pose proof (fmap_p_spec o (fun i _ => f i) (sp_st v)) as F.
    destruct (fmap_p (fun i _ => f i) (sp_st v)) as [es|].
    - cbn [obind]. destruct F as (_ & F2 & F3).
      destruct (sv_assemble_ok d (map (fun e : ent => (e_row e, 0%nat, e_val e)) es)) as [w (Ew & Nw & W1 & W2 & W3 & W5)].
      { intros e' He'. apply in_map_iff in He'. destruct He' as [x [<- Hx]]. cbn [e_row e_col fst snd].
        split; [|reflexivity]. destruct (F3 x Hx) as [e [He [K _]]]. now apply (B e _ _ He K). }
      rewrite Ew. cbn [obind]. rewrite Nw. exists w. splits; try assumption; try reflexivity.
      intros i. unfold ventry. rewrite entry_psum, W5, (gsum_map_key o).
      rewrite <- (psum_gsum o (fun i' _ => key_eq i' 0 i 0)), F2, (psum_gsum o).
      apply gsum_ext. intros e _. unfold fsel, vsel. destruct (f (e_row e)); try reflexivity.
      unfold key_eq. now rewrite andb_true_r.
    - exfalso. destruct F as [e [He K]]. now apply (NP e He).
  Qed.

  Lemma sv_extract_panic v d f e : In e (sp_st v) -> f (e_row e) = FPanic -> sv_extract o v d f = None.
  Proof.
    intros He K. unfold sv_extract. pose proof (fmap_p_spec o (fun i _ => f i) (sp_st v)) as F.
    destruct (fmap_p (fun i _ => f i) (sp_st v)) as [es|]; [|reflexivity].
    exfalso. destruct F as (F1 & _). now apply (F1 e He).
  Qed.

  Lemma ventry_gsum v i : vec_wf v -> ventry o v i = gsum (fun e => e_row e =? i) (sp_st v).
  Proof.
    intros [W N]. unfold ventry. rewrite entry_psum, (psum_gsum o). apply gsum_ext. intros e He.
    rewrite (sv_col0 v e W N He). unfold key_eq. now rewrite andb_true_r.
  Qed.

  Lemma vec_rows v e : vec_wf v -> In e (sp_st v) -> (e_row e < sp_m v)%nat.
  Proof.
    intros [W _] He. pose proof (proj1 (sp_wf_iff v) W) as [B _]. now destruct (proj1 (in_bounds_iff _ _ _) B e He).
  Qed.

  Theorem sv_permute_spec v p : vec_wf v -> is_perm p -> length p = sv_dim v ->
    exists w, sv_permute o v p = Some w /\ sv_dim w = sv_dim v /\ vec_wf w /\
      forall i, (i < sv_dim v)%nat -> ventry o w (pat p i) = ventry o v i.
  Proof.
    intros V Pp Lp. unfold sv_permute, sv_dim in *.
    set (f := fun i => match perm_at p i with Some i' => FTo i' 0 | None => FPanic end).
    destruct (sv_extract_spec v (sp_m v) f) as [w (Ew & W1 & W2 & W3 & W4)].
    - intros e He. unfold f. rewrite perm_at_pat by (rewrite Lp; now apply vec_rows). discriminate.
    - intros e i' c He K. unfold f in K. rewrite perm_at_pat in K by (rewrite Lp; now apply vec_rows).
      inversion K; subst. rewrite <- Lp. apply pat_lt; [exact Pp|]. rewrite Lp. now apply vec_rows.
    - exists w. splits; try assumption; try (split; assumption). intros i Hi. rewrite W4, (ventry_gsum v i V).
      apply gsum_ext. intros e He. unfold vsel, f. pose proof (vec_rows v e V He) as Hr.
      rewrite perm_at_pat by lia.
      destruct (Nat.eqb_spec (e_row e) i) as [->|Hne]; [apply Nat.eqb_refl|].
      apply Nat.eqb_neq. intros E. apply Hne. apply (pat_inj p); try assumption; lia.
  Qed.

  (* subvec(s..e): dimension e - s (a panic when e < s); positions beyond the dimension of v read as 0 *)
  Theorem sv_subvec_spec v s e : vec_wf v ->
    match sv_subvec o v s e with
    | Some w => (s <= e)%nat /\ sv_is w (e - s) (fun i => ventry o v (s + i))
    | None => (e < s)%nat
    end.
  Proof.
    intros V. unfold sv_subvec. destruct (Nat.ltb_spec e s) as [H|H]; [exact H|].
    set (f := fun i => if (s <=? i) && (i <? e) then FTo (i - s) 0 else FSkip).
    destruct (sv_extract_spec v (e - s) f) as [w (Ew & W1 & W2 & W3 & W4)].
    - intros x _. unfold f. destruct ((s <=? e_row x) && (e_row x <? e)); discriminate.
    - intros x i' c _ K. unfold f in K.
      destruct (Nat.leb_spec s (e_row x)); destruct (Nat.ltb_spec (e_row x) e); cbn [andb] in K; try discriminate.
      inversion K; subst. lia.
    - rewrite Ew. split; [exact H|]. unfold sv_is, C13Sparse.sp_is. splits; try assumption.
      intros i c Hi Hc. replace c with 0%nat by lia. fold (ventry o w i). rewrite W4, (ventry_gsum v _ V).
      apply gsum_ext. intros x _. unfold vsel, f.
      destruct (Nat.leb_spec s (e_row x)); destruct (Nat.ltb_spec (e_row x) e); cbn [andb]; eqb_cases.
  Qed.

  Theorem sv_stack_spec v w : vec_wf v -> vec_wf w ->
    exists r, sv_stack o v w = Some r /\
      sv_is r (sv_dim v + sv_dim w) (fun i => if i <? sv_dim v then ventry o v i else ventry o w (i - sv_dim v)).
  Proof.
    intros V W. unfold sv_stack, sv_dim.
    match goal with |- context [sp_from_entries o ?d 1 ?es] =>
      destruct (sv_assemble_ok d es) as [r (Er & Nr & R1 & R2 & R3 & R5)] end.
    { intros e He. apply in_app_iff in He. destruct He as [He|He]; apply in_map_iff in He;
        destruct He as [x [<- Hx]]; apply nz_in in Hx; try exact L; destruct Hx as [Hx _]; cbn [e_row e_col fst snd].
      - pose proof (vec_rows v x V Hx). lia.
      - pose proof (vec_rows w x W Hx). lia. }
    rewrite Er. cbn [obind]. rewrite Nr. exists r. split; [reflexivity|].
    unfold sv_is, C13Sparse.sp_is. splits; try assumption.
    intros i c Hi Hc. replace c with 0%nat by lia.
    rewrite entry_psum, R5, (psum_app o L), !(gsum_map_key o), !(gsum_nz o L).
    destruct (Nat.ltb_spec i (sp_m v)) as [H|H].
    - rewrite (gsum_false o (fun e => key_eq (sp_m v + e_row e) 0 i 0)) by (intros x _; unfold key_eq; eqb_cases).
      rewrite (ventry_gsum v i V). transitivity (gsum (fun e => e_row e =? i) (sp_st v)); [|reflexivity].
      rewrite (radd_comm o L), (radd_0_l o L). apply gsum_ext. intros x _. unfold key_eq. now rewrite andb_true_r.
    - rewrite (gsum_false o (fun e => key_eq (e_row e) 0 i 0)).
      2:{ intros x Hx. pose proof (vec_rows v x V Hx). unfold key_eq. eqb_cases. }
      rewrite (ventry_gsum w _ W), (radd_0_l o L). apply gsum_ext. intros x _. unfold key_eq. eqb_cases.
  Qed.

  Theorem sv_split_spec v k : vec_wf v ->
    match sv_split o v k with
    | Some (a, b) => (k <= sv_dim v)%nat /\ sv_is a k (ventry o v) /\
                     sv_is b (sv_dim v - k) (fun i => ventry o v (k + i))
    | None => (sv_dim v < k)%nat
    end.
  Proof.
    intros V. unfold sv_split, sv_dim. destruct (Nat.leb_spec k (sp_m v)) as [H|H]; [|exact H].
    match goal with |- context [sp_from_entries o k 1 ?es] =>
      destruct (sv_assemble_ok k es) as [a (Ea & Na & A1 & A2 & A3 & A5)] end.
    { intros e He. apply in_map_iff in He. destruct He as [x [<- Hx]]. apply filter_In in Hx.
      destruct Hx as [_ Hx]. apply Nat.ltb_lt in Hx. cbn [e_row e_col fst snd]. now split. }
    match goal with |- context [sp_from_entries o (sp_m v - k) 1 ?es] =>
      destruct (sv_assemble_ok (sp_m v - k) es) as [b (Eb & Nb & B1 & B2 & B3 & B5)] end.
    { intros e He. apply in_map_iff in He. destruct He as [x [<- Hx]]. apply filter_In in Hx.
      destruct Hx as [Hin Hx]. apply negb_true_iff, Nat.ltb_ge in Hx. pose proof (vec_rows v x V Hin).
      cbn [e_row e_col fst snd]. split; [lia|reflexivity]. }
    rewrite Ea. cbn [obind]. rewrite Na. cbn [obind]. rewrite Eb. cbn [obind]. rewrite Nb. cbn [obind].
    splits; try assumption.
    - unfold sv_is, C13Sparse.sp_is. splits; try assumption.
      intros i c Hi Hc. replace c with 0%nat by lia.
      rewrite entry_psum, A5, (gsum_map_key o), (gsum_filter o), (ventry_gsum v i V).
      apply gsum_ext. intros x _. unfold key_eq. destruct (Nat.ltb_spec (e_row x) k); cbn [andb]; eqb_cases.
    - unfold sv_is, C13Sparse.sp_is. splits; try assumption.
      intros i c Hi Hc. replace c with 0%nat by lia.
      rewrite entry_psum, B5, (gsum_map_key o), (gsum_filter o), (ventry_gsum v _ V).
      apply gsum_ext. intros x _. unfold key_eq. destruct (Nat.ltb_spec (e_row x) k); cbn [andb negb]; eqb_cases.
  Qed.

  (* ---------- arithmetic ---------- *)
  Theorem sv_neg_spec v : vec_wf v -> sv_is (sv_neg o v) (sv_dim v) (fun i => rneg o (ventry o v i)).
  Proof.
    intros [W N]. destruct (sp_neg_spec o L v W) as [(H1 & H2 & H3 & H4) _]. unfold sv_neg, sv_dim.
    unfold sv_is, C13Sparse.sp_is. splits; try assumption; try lia.
    intros i c Hi Hc. replace c with 0%nat by lia. rewrite H4 by lia. reflexivity.
  Qed.

  Theorem sv_add_spec v w : vec_wf v -> vec_wf w ->
    match sv_add o v w with
    | Some r => sv_dim v = sv_dim w /\ sv_is r (sv_dim v) (fun i => radd o (ventry o v i) (ventry o w i))
    | None => sv_dim v <> sv_dim w
    end.
  Proof.
    intros [Wv Nv] [Ww Nw]. unfold sv_add, sv_dim. pose proof (sp_add_spec o L v w Wv Ww) as S.
    destruct (sp_add o v w) as [r|]; cbn [obind].
    - destruct S as ((E1 & E2) & (R1 & R2 & R3 & R4)). rewrite sv_new_some by lia. split; [exact E1|].
      unfold sv_is, C13Sparse.sp_is. splits; try assumption; try lia.
      intros i c Hi Hc. replace c with 0%nat by lia. rewrite R4 by lia. reflexivity.
    - intros E. apply S. split; [exact E|lia].
  Qed.

  Theorem sv_sub_spec v w : vec_wf v -> vec_wf w ->
    match sv_sub o v w with
    | Some r => sv_dim v = sv_dim w /\ sv_is r (sv_dim v) (fun i => rsub o (ventry o v i) (ventry o w i))
    | None => sv_dim v <> sv_dim w
    end.
  Proof.
    intros [Wv Nv] [Ww Nw]. unfold sv_sub, sv_dim. pose proof (sp_sub_spec o L v w Wv Ww) as S.
    destruct (sp_sub o v w) as [r|]; cbn [obind].
    - destruct S as ((E1 & E2) & (R1 & R2 & R3 & R4)). rewrite sv_new_some by lia. split; [exact E1|].
      unfold sv_is, C13Sparse.sp_is. splits; try assumption; try lia.
      intros i c Hi Hc. replace c with 0%nat by lia. rewrite R4 by lia. reflexivity.
    - intros E. apply S. split; [exact E|lia].
  Qed.
End SpVec.
