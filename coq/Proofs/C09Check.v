(* C09 - soundness of the certificate checker of Model/Snf.v (chk_pq, chk_inv, chk_shape): when the
   boolean functions answer true on (A, D, P, Pinv, Q, Qinv), the clauses of the property hold for these
   matrices.  The checker is run on the implementation's own output; this validates individual
   outputs and is no statement about all inputs. *)
From Coq Require Import ZArith List Bool Arith Lia Ring.
Require Import Yui.Base.Ring Yui.Base.MatF Yui.Base.MatL Yui.Model.Snf Yui.Proofs.C09Mat Yui.Proofs.C09Inv
  Yui.Proofs.C09Run Yui.Proofs.C09Exit Yui.Proofs.C09Diag.
Import ListNotations.

Section Check.
  Context {R : Type} (D : euc_dict R) (SL : snf_laws D).
  Let o := ed_ring D.
  Let L : ring_laws o := sl_ring D SL.
  Local Notation get := (lget o).

  Lemma is_id_b_sound n (X : lmat R) : is_id_b D n X = true -> meq n n (get X) (mid o).
  Proof.
    unfold is_id_b. intros H. apply (leqb_meq o L) in H.
    intros i j Hi Hj. rewrite (H i j Hi Hj). now apply lget_lid.
  Qed.

  Theorem chk_pq_sound m n (A T P Q : lmat R) :
    chk_pq D m n A T P Q = true ->
    wf m n T /\ wf m m P /\ wf n n Q /\
    meq m n (get T) (mmul o m (get P) (mmul o n (get A) (get Q))).
  Proof.
    unfold chk_pq. rewrite !andb_true_iff, !wfb_wf. intros [[[W1 W2] W3] H].
    split; [exact W1|]. split; [exact W2|]. split; [exact W3|].
    apply (leqb_meq o L) in H. intros i j Hi Hj. rewrite (H i j Hi Hj).
    rewrite lget_lmul by assumption.
    rewrite <- (mmul_assoc o L).
    unfold mmul at 1 3. apply sum_ext. intros k Hk. f_equal. now apply lget_lmul.
  Qed.

  Theorem chk_inv_sound n (X Xi : lmat R) :
    chk_inv D n X Xi = true ->
    wf n n X /\ wf n n Xi /\
    meq n n (mmul o n (get X) (get Xi)) (mid o) /\ meq n n (mmul o n (get Xi) (get X)) (mid o).
  Proof.
    unfold chk_inv. rewrite !andb_true_iff, !wfb_wf. intros [[[W1 W2] H1] H2].
    split; [exact W1|]. split; [exact W2|]. split.
    - intros i j Hi Hj. rewrite <- (is_id_b_sound n _ H1 i j Hi Hj). symmetry. now apply lget_lmul.
    - intros i j Hi Hj. rewrite <- (is_id_b_sound n _ H2 i j Hi Hj). symmetry. now apply lget_lmul.
  Qed.

  Theorem chk_shape_sound m n (T : lmat R) :
    chk_shape D m n T = true ->
    let r := diag_rank D m n T in
    wf m n T /\ r <= Nat.min m n /\
    (forall k l, k < m -> l < n -> k <> l -> get T k l = rzero o) /\
    (forall k, k < r -> get T k k <> rzero o) /\
    (forall k, r <= k -> k < Nat.min m n -> get T k k = rzero o) /\
    (forall k, k < r -> rnunit (ed_unit D) (get T k k) = rone o) /\
    (forall k, S k < r -> exists q, get T (S k) (S k) = rmul o q (get T k k)).
  Proof.
    unfold chk_shape, chk_diag, chk_rank, chk_normal, chk_chain.
    rewrite !andb_true_iff, wfb_wf. intros [[[[W H1] H2] H3] H4]. cbv zeta.
    pose proof (diag_rank_le D m n T) as Hr.
    split; [exact W|]. split; [exact Hr|]. split; [|split; [|split; [|split]]].
    - intros k l Hk Hl Hne. rewrite forallb_forall in H1. specialize (H1 k ltac:(apply in_seq; lia)).
      rewrite forallb_forall in H1. specialize (H1 l ltac:(apply in_seq; lia)).
      apply orb_true_iff in H1. destruct H1 as [E|E]; [apply Nat.eqb_eq in E; contradiction|].
      now apply (is_zero_true D SL).
    - (* below the first zero of the diagonal every entry is non-zero *)
      assert (G : forall len a, forall k, a <= k -> k < first_zero_diag D T (seq a len) (Nat.min m n) ->
                  k < a + len -> get T k k <> rzero o).
      { induction len as [|len IH]; intros a k Ha Hk Hl; [lia|]. cbn [seq first_zero_diag] in Hk.
        destruct (ris_zero (ed_ring D) (mget D T a a)) eqn:Z; [lia|].
        destruct (Nat.eq_dec k a) as [->|Hne].
        - now apply (is_zero_false D SL) in Z.
        - apply (IH (S a)); [lia|exact Hk|lia]. }
      intros k Hk. apply (G (Nat.min m n) 0 k); [lia|exact Hk|lia].
    - intros k Hk1 Hk2. rewrite forallb_forall in H2.
      specialize (H2 k ltac:(apply in_seq; lia)). now apply (is_zero_true D SL).
    - intros k Hk. rewrite forallb_forall in H3. specialize (H3 k ltac:(apply in_seq; lia)).
      now apply (is_one_true D SL).
    - intros k Hk. rewrite forallb_forall in H4. specialize (H4 k ltac:(apply in_seq; lia)).
      destruct (divides_true D SL _ _ H4) as [_ [q Hq]]. now exists q.
  Qed.
End Check.
