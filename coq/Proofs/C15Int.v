(* C15, integers: truncated division, exact nearest-integer division (int_ext.rs after fix dfe26dc),
   units, and the num-integer extended gcd loop (termination on the computed fuel, Bezout identity,
   agreement with gcd). *)
From Coq Require Import ZArith Lia Bool Znumtheory.
Require Import Yui.Base.Ring Yui.Model.Euclid Yui.Proofs.C15Gcd.
Local Open Scope Z_scope.

(* ---------- truncated division ---------- *)
Lemma quot_rem_facts a b : b <> 0 ->
  a = b * Z.quot a b + Z.rem a b /\ Z.abs (Z.rem a b) < Z.abs b /\
  (0 <= a -> 0 <= Z.rem a b) /\ (a <= 0 -> Z.rem a b <= 0).
Proof.
  intros Hb. split; [apply Z.quot_rem'|]. split; [now apply Z.rem_bound_abs|].
  split; intros; [now apply Z.rem_nonneg | now apply Z.rem_nonpos].
Qed.

Lemma int_division a b : b <> 0 ->
  exists q r, int_div a b = Some q /\ int_rem a b = Some r /\
    a = q * b + r /\ Z.abs r < Z.abs b /\ (0 <= a -> 0 <= r) /\ (a <= 0 -> r <= 0).
Proof.
  intros Hb. unfold int_div, int_rem. destruct (Z.eqb_spec b 0) as [|_]; [contradiction|].
  destruct (quot_rem_facts a b Hb) as (E & H1 & H2 & H3).
  do 2 eexists. split; [reflexivity|]. split; [reflexivity|]. repeat split; try assumption.
  rewrite E at 1. ring.
Qed.

Lemma int_division_by_zero a : int_div a 0 = None /\ int_rem a 0 = None /\ int_div_round a 0 = None.
Proof. repeat split. Qed.

(* ---------- nearest-integer division ---------- *)
(* q is the integer nearest to a / b, ties rounded away from zero *)
Definition round_spec (a b q : Z) : Prop :=
  2 * Z.abs (a - q * b) <= Z.abs b /\ (2 * Z.abs (a - q * b) = Z.abs b -> Z.abs a < Z.abs (q * b)).

Lemma int_div_round_spec a b : b <> 0 -> exists q, int_div_round a b = Some q /\ round_spec a b q.
Proof.
  intros Hb. unfold int_div_round, int_div, int_rem, round_spec.
  destruct (Z.eqb_spec b 0) as [|_]; [contradiction|]. cbn [obind].
  destruct (quot_rem_facts a b Hb) as (E & Hr & Hpos & Hneg).
  set (d := Z.quot a b) in *. set (r := Z.rem a b) in *.
  destruct (Z.eqb_spec r 0) as [Hr0|Hr0].
  - exists d. split; [reflexivity|]. split; lia.
  - destruct (Z.ltb_spec 0 r) as [H1|H1]; destruct (Z.ltb_spec 0 b) as [H2|H2];
    match goal with |- context [negb (?x <=? ?y)] => destruct (Z.leb_spec x y) as [H3|H3] end; cbn [negb];
    destruct (Z.ltb_spec a 0) as [H4|H4]; destruct (Z.ltb_spec b 0) as [H5|H5]; cbn [Bool.eqb];
    eexists; (split; [reflexivity|]); split; lia.
Qed.

Lemma round_spec_unique a b q q' : b <> 0 -> round_spec a b q -> round_spec a b q' -> q = q'.
Proof.
  intros Hb [H1 T1] [H2 T2].
  assert (Hd : Z.abs ((q - q') * b) <= Z.abs b) by lia.
  rewrite Z.abs_mul in Hd.
  assert (Hq : Z.abs (q - q') <= 1).
  { destruct (Z.le_gt_cases (Z.abs (q - q')) 1) as [|G]; [assumption|].
    assert (2 * Z.abs b <= Z.abs (q - q') * Z.abs b) by (apply Z.mul_le_mono_nonneg_r; lia). lia. }
  assert (C : q' = q \/ q' = q + 1 \/ q' = q - 1) by lia.
  assert (Hb' : 0 < Z.abs b) by lia.
  destruct C as [ -> | [ -> | -> ] ]; [reflexivity| |]; exfalso.
  - replace ((q + 1) * b) with (q * b + b) in * by ring.
    assert (E : 2 * a = (2 * q + 1) * b) by lia.
    assert (T1' : Z.abs (2 * a) < Z.abs ((2 * q) * b)) by (replace (2 * q * b) with (2 * (q * b)) by ring; lia).
    assert (T2' : Z.abs (2 * a) < Z.abs ((2 * q + 2) * b)) by (replace ((2 * q + 2) * b) with (2 * (q * b + b)) by ring; lia).
    rewrite E, !Z.abs_mul in T1', T2'.
    apply Z.mul_lt_mono_pos_r in T1', T2'; [lia|assumption|assumption].
  - replace ((q - 1) * b) with (q * b - b) in * by ring.
    assert (E : 2 * a = (2 * q - 1) * b) by lia.
    assert (T1' : Z.abs (2 * a) < Z.abs ((2 * q) * b)) by (replace (2 * q * b) with (2 * (q * b)) by ring; lia).
    assert (T2' : Z.abs (2 * a) < Z.abs ((2 * q - 2) * b)) by (replace ((2 * q - 2) * b) with (2 * (q * b - b)) by ring; lia).
    rewrite E, !Z.abs_mul in T1', T2'.
    apply Z.mul_lt_mono_pos_r in T1', T2'; [lia|assumption|assumption].
Qed.

(* the form used by the quadratic rings *)
Lemma int_div_round_err a n : 0 < n ->
  exists q, int_div_round a n = Some q /\ - n <= 2 * (a - q * n) <= n.
Proof.
  intros Hn. destruct (int_div_round_spec a n ltac:(lia)) as (q & E & H & _). exists q. split; [assumption|]. lia.
Qed.

Lemma int_div_round_exact c n : n <> 0 -> int_div_round (c * n) n = Some c.
Proof.
  intros Hn. destruct (int_div_round_spec (c * n) n Hn) as (q & E & H). rewrite E. f_equal.
  apply (round_spec_unique (c * n) n q c Hn H). unfold round_spec. replace (c * n - c * n) with 0 by ring.
  cbn. lia.
Qed.

(* ---------- units ---------- *)
Lemma int_is_unit_spec a : int_is_unit a = true <-> a = 1 \/ a = -1.
Proof. unfold int_is_unit. rewrite orb_true_iff, !Z.eqb_eq. lia. Qed.

Lemma int_unit_laws : unit_laws Z_ring (dict_units int_dict).
Proof.
  constructor; cbn.
  - intros a b. unfold int_inv. destruct (int_is_unit a) eqn:E; [|discriminate]. intros [= <-].
    apply int_is_unit_spec in E. destruct E as [-> | ->]; reflexivity.
  - intros a. unfold int_inv. destruct (int_is_unit a); split; intros H; eauto; try discriminate.
    destruct H as [b H]; discriminate.
  - intros a b H. apply int_is_unit_spec. destruct (Z.mul_eq_1 a b H); auto.
  - intros a. unfold int_nunit. destruct (a <? 0); reflexivity.
  - intros a. unfold int_nunit. destruct (Z.ltb_spec a 0) as [H|H]; cbn [negb];
    destruct (Z.ltb_spec (a * 1) 0); destruct (Z.ltb_spec (a * -1) 0); cbn [negb]; lia.
  - intros a v Hv. apply int_is_unit_spec in Hv. unfold int_nunit.
    destruct Hv as [-> | ->]; destruct (Z.ltb_spec a 0); destruct (Z.ltb_spec (a * 1) 0);
      destruct (Z.ltb_spec (a * -1) 0); cbn [negb]; lia.
Qed.

Lemma int_normalized_abs a : normalized int_dict a = Z.abs a.
Proof.
  unfold normalized, is_one. cbn. unfold int_nunit.
  destruct (Z.ltb_spec a 0) as [H|H]; cbn [negb]; cbn; lia.
Qed.

Lemma int_divides_spec x y :
  exists b, divides int_dict x y = Some b /\ (b = true <-> x <> 0 /\ (x | y)).
Proof.
  unfold divides, is_zero. cbn. unfold int_rem.
  destruct (Z.eqb_spec x 0) as [Zx|NZx].
  - exists false. split; [reflexivity|]. split; [discriminate|]. intros [H _]. contradiction.
  - cbn [obind]. eexists. split; [reflexivity|]. rewrite Z.eqb_eq, Z.rem_divide by assumption. tauto.
Qed.

(* Base/Ring.v instance: truncated division with norm |.| *)
Definition int_euc_ops : euc_ops Z := mk_euc_ops Z Z.quot Z.rem Z.abs_N.
Lemma int_euc_laws : euc_laws Z_ring int_euc_ops.
Proof.
  constructor; cbn; intros a b Hb.
  - rewrite (Z.quot_rem' a b) at 1. ring.
  - pose proof (Z.rem_bound_abs a b Hb). destruct (Z.eq_dec (Z.rem a b) 0); [left; assumption|right]. lia.
Qed.

(* ---------- extended gcd (num-integer's loop) ---------- *)
Lemma egcd_loop_inv a b : forall fuel r0 r1 s0 s1 t0 t1 d s t,
  r0 = s0 * a + t0 * b -> r1 = s1 * a + t1 * b ->
  egcd_loop fuel r0 r1 s0 s1 t0 t1 = Some (d, s, t) ->
  d = s * a + t * b /\ Z.abs d = Z.gcd r1 r0.
Proof.
  induction fuel as [|f IH]; intros r0 r1 s0 s1 t0 t1 d s t H0 H1 E; cbn [egcd_loop] in E; [discriminate|].
  destruct (Z.eqb_spec r0 0) as [Z0|NZ].
  - injection E as <- <- <-. split; [assumption|]. rewrite Z0. now rewrite Z.gcd_0_r.
  - apply IH in E.
    + destruct E as [E1 E2]. split; [assumption|]. rewrite E2.
      replace (r1 - Z.quot r1 r0 * r0) with (r1 + (- Z.quot r1 r0) * r0) by ring.
      rewrite Z.gcd_add_mult_diag_r. apply Z.gcd_comm.
    + rewrite H0, H1. ring.
    + assumption.
Qed.

Lemma step_rem r1 r0 : r0 <> 0 -> r1 - Z.quot r1 r0 * r0 = Z.rem r1 r0.
Proof. intros H. rewrite Z.rem_eq by assumption. ring. Qed.

(* once |r0| <= |r1| the product |r1|*|r0| at least halves in every step *)
Lemma egcd_loop_ordered : forall f r0 r1 s0 s1 t0 t1,
  Z.abs r0 <= Z.abs r1 -> Z.abs r1 * Z.abs r0 < 2 ^ Z.of_nat f ->
  egcd_loop (S f) r0 r1 s0 s1 t0 t1 <> None.
Proof.
  induction f as [|f IH]; intros r0 r1 s0 s1 t0 t1 Ho Hp; cbn [egcd_loop].
  - destruct (Z.eqb_spec r0 0) as [Z0|NZ]; [discriminate|]. exfalso. cbn in Hp. nia.
  - destruct (Z.eqb_spec r0 0) as [Z0|NZ]; [discriminate|].
    apply IH.
    + rewrite step_rem by assumption. pose proof (Z.rem_bound_abs r1 r0 NZ). lia.
    + rewrite step_rem by assumption.
      pose proof (Z.rem_bound_abs r1 r0 NZ) as Hb.
      assert (Hq1 : 1 <= Z.abs (Z.quot r1 r0)).
      { destruct (Z.eq_dec (Z.quot r1 r0) 0) as [E|]; [|lia].
        pose proof (Z.quot_rem' r1 r0) as Hq. rewrite E in Hq. lia. }
      assert (H2 : 2 * Z.abs (Z.rem r1 r0) <= Z.abs r1).
      { pose proof (Z.quot_rem' (Z.abs r1) (Z.abs r0)) as Ha.
        rewrite Z.quot_abs, Z.rem_abs in Ha by assumption. nia. }
      rewrite Nat2Z.inj_succ, Z.pow_succ_r in Hp by lia. nia.
Qed.

Lemma egcd_loop_total : forall f r0 r1 s0 s1 t0 t1,
  Z.abs r1 * Z.abs r0 < 2 ^ Z.of_nat f -> egcd_loop (S (S f)) r0 r1 s0 s1 t0 t1 <> None.
Proof.
  intros f r0 r1 s0 s1 t0 t1 Hp.
  destruct (Z.le_gt_cases (Z.abs r0) (Z.abs r1)) as [Ho|Ho].
  - apply egcd_loop_ordered; [assumption|]. rewrite Nat2Z.inj_succ, Z.pow_succ_r by lia.
    pose proof (Z.pow_pos_nonneg 2 (Z.of_nat f)). lia.
  - cbn [egcd_loop]. destruct (Z.eqb_spec r0 0) as [Z0|NZ]; [discriminate|].
    (* |r1| < |r0|: the quotient is 0 and the step only swaps *)
    change (egcd_loop (S f) (r1 - Z.quot r1 r0 * r0) r0 (s1 - Z.quot r1 r0 * s0) s0 (t1 - Z.quot r1 r0 * t0) t0 <> None).
    apply egcd_loop_ordered.
    + rewrite step_rem by assumption. pose proof (Z.rem_bound_abs r1 r0 NZ). lia.
    + rewrite step_rem by assumption.
      assert (Z.abs (Z.rem r1 r0) <= Z.abs r1).
      { pose proof (Z.quot_rem' (Z.abs r1) (Z.abs r0)) as Ha.
        rewrite Z.quot_abs, Z.rem_abs in Ha by assumption.
        pose proof (Z.abs_nonneg (Z.quot r1 r0)). nia. }
      nia.
Qed.

Lemma int_gcdx_spec a b :
  exists s t, int_gcdx a b = Some (Z.gcd a b, s, t) /\ s * a + t * b = Z.gcd a b.
Proof.
  unfold int_gcdx, int_fuel.
  set (P := Z.abs a * Z.abs b).
  assert (HP : 0 <= P) by (unfold P; lia).
  assert (Hf : P < 2 ^ Z.of_nat (Z.to_nat (Z.log2 P + 1))).
  { pose proof (Z.log2_nonneg P). rewrite Z2Nat.id by lia.
    destruct (Z.eq_dec P 0) as [->|NZ]; [cbn; lia|].
    pose proof (Z.log2_spec P ltac:(lia)). unfold Z.succ in *. lia. }
  destruct (egcd_loop (S (S (Z.to_nat (Z.log2 P + 1)))) b a 0 1 1 0) as [[[d s] t]|] eqn:E.
  - cbn [obind]. apply (egcd_loop_inv a b) in E; [|ring|ring]. destruct E as [E1 E2].
    pose proof (Z.gcd_nonneg a b).
    destruct (Z.leb_spec 0 d) as [Hd|Hd].
    + exists s, t. split; [|lia]. do 3 f_equal. lia.
    + exists (0 - s), (0 - t). split; [|lia]. do 3 f_equal. lia.
  - exfalso. revert E. apply egcd_loop_total. exact Hf.
Qed.

(* ---------- gcd / lcm of integers ---------- *)
Lemma int_lcm_gcd a b : int_lcm a b * int_gcd a b = Z.abs (a * b).
Proof.
  unfold int_lcm, int_gcd, Z.lcm.
  pose proof (Z.gcd_nonneg a b) as Hg. set (g := Z.gcd a b) in *.
  destruct (Z.eq_dec g 0) as [Zg|NZg].
  - unfold g in Zg. apply Z.gcd_eq_0 in Zg. destruct Zg as [-> ->]. reflexivity.
  - destruct (Z.gcd_divide_r a b) as [c Hc]. fold g in Hc.
    rewrite Hc at 1. rewrite Z.div_mul by assumption.
    rewrite Hc. rewrite (Z.mul_assoc a c g), (Z.abs_mul (a * c) g), (Z.abs_eq g) by assumption. reflexivity.
Qed.
