(* F_p = FF<p> (Model/Fp.v): representatives stay in [0, p), the operations are the operations of
   Z modulo p and - for (p-1)^2 < 2^31 - never overflow the i32 they are computed in; the extended
   Euclidean loop of num_integer terminates within the model's fuel, stays inside i32 for p < 2^30,
   and yields the modular inverse.  F_2 = FF2 on booleans. *)
From Coq Require Import ZArith Bool Lia Znumtheory.
Require Import Yui.Model.Ints Yui.Model.Fp Yui.Proofs.C14Ints.
Open Scope Z_scope.

(* ---------- nonlinear facts, proved in a minimal context (nia diverges in the context of the loop proof) ---------- *)
Lemma nl_prod_small r0 r1 : 0 <= r0 < r1 -> r0 * r1 < 1 -> r0 = 0.
Proof. intros H1 H2. nia. Qed.
Lemma nl_quot_bounds r0 r1 q m : 0 < r0 < r1 -> r1 = r0 * q + m -> 0 <= m < r0 ->
  1 <= q /\ q <= r1 /\ q * r0 <= r1.
Proof. intros H1 H2 H3. repeat split; nia. Qed.
Lemma nl_coef r0 r1 q p A B : 1 <= r0 -> r0 < r1 -> 1 <= q -> q * r0 <= r1 -> 0 <= A -> 0 <= B ->
  A * r1 + B * r0 = p -> A <= p /\ B <= p /\ 0 <= q * A <= p.
Proof.
  intros H1 H2 H3 H4 H5 H6 H7.
  assert (E1 : 0 <= B * r0) by nia.
  assert (E2 : A <= A * r1) by nia.
  assert (E3 : B <= B * r0) by nia.
  assert (E4 : 0 <= A * r1) by nia.
  assert (E5 : q * A <= q * A * r0) by nia.
  assert (E6 : q * A * r0 <= A * r1) by nia.
  repeat split; nia.
Qed.
Lemma nl_measure r0 r1 q X : 0 < r0 < r1 -> 1 <= q -> 0 <= r1 - q * r0 < r0 -> r0 * r1 < 2 * X ->
  (r1 - q * r0) * r0 < X.
Proof.
  intros H1 H2 H3 H4. set (m := r1 - q * r0) in *.
  assert (E1 : r0 <= q * r0) by nia.
  assert (E2 : 2 * m + 1 <= r1) by lia.
  assert (E3 : (2 * m + 1) * r0 <= r1 * r0) by nia.
  nia.
Qed.
Lemma nl_mul_lt a p x y : 0 <= a <= x -> 0 <= p <= y -> 0 < x -> 0 < y -> a * p < 2 * (x * y).
Proof. intros H1 H2 H3 H4. assert (a * p <= x * y) by nia. nia. Qed.

Lemma egcd_loop_S w f r s t :
  egcd_loop w (S f) r s t =
    if fst r =? 0 then
      if 0 <=? snd r then Some (snd r, snd s, snd t)
      else do g <- isub w 0 (snd r); do x <- isub w 0 (snd s); do y <- isub w 0 (snd t); Some (g, x, y)
    else
      do q <- iquot w (snd r) (fst r);
      do r' <- egcd_f w q r; do s' <- egcd_f w q s; do t' <- egcd_f w q t;
      egcd_loop w f r' s' t'.
Proof. reflexivity. Qed.

Section Egcd.
  Variable w : width.
  Variables a p : Z.
  Hypothesis Hfit : forall z, - (2 * p) <= z <= 2 * p -> fitsb w z = true.
  Hypothesis Ha : 0 <= a <= p.

  Lemma ckf z : - (2 * p) <= z <= 2 * p -> ck w z = Some z.
  Proof. intros H. apply ck_fits. now apply Hfit. Qed.

  Lemma egcd_loop_spec : forall n r0 r1 s0 s1 t0 t1 sg,
    0 <= r0 < r1 -> r1 <= p -> r0 * r1 < 2 ^ Z.of_nat n ->
    s0 * a + t0 * p = r0 -> s1 * a + t1 * p = r1 ->
    (sg = 1 \/ sg = -1) ->
    0 <= sg * s0 -> sg * s1 <= 0 -> sg * (s0 * r1 - s1 * r0) = p ->
    0 <= - sg * t0 -> - sg * t1 <= 0 -> - sg * (t0 * r1 - t1 * r0) = a ->
    exists x y, egcd_loop w (S n) (r0, r1) (s0, s1) (t0, t1) = Some (Z.gcd r0 r1, x, y)
                /\ x * a + y * p = Z.gcd r0 r1.
  Proof.
    induction n as [|n IH]; intros r0 r1 s0 s1 t0 t1 sg Hr Hr1 Hm Is0 Is1 Hsg S0 S1 Sd T0 T1 Td.
    - (* r0 * r1 < 1 *)
      change (2 ^ Z.of_nat 0) with 1 in Hm.
      assert (Hz : r0 = 0) by (apply nl_prod_small with r1; assumption). rewrite Hz in *. clear Hz.
      rewrite egcd_loop_S. cbn [fst snd]. change (0 =? 0) with true. cbv iota.
      assert (E : (0 <=? r1) = true) by (apply Z.leb_le; lia). rewrite E.
      exists s1, t1. rewrite Z.gcd_0_l, Z.abs_eq by lia. auto.
    - rewrite egcd_loop_S. cbn [fst snd]. destruct (r0 =? 0) eqn:E0.
      + apply Z.eqb_eq in E0. rewrite E0 in *.
        assert (E : (0 <=? r1) = true) by (apply Z.leb_le; lia). rewrite E.
        exists s1, t1. rewrite Z.gcd_0_l, Z.abs_eq by lia. auto.
      + apply Z.eqb_neq in E0.
        assert (Hq : r1 ÷ r0 = r1 / r0) by (apply Z.quot_div_nonneg; lia).
        set (q := r1 / r0) in *.
        assert (Hqr : r1 = r0 * q + r1 mod r0) by (apply Z.div_mod; lia).
        assert (Hmod : 0 <= r1 mod r0 < r0) by (apply Z.mod_pos_bound; lia).
        destruct (nl_quot_bounds r0 r1 q (r1 mod r0)) as (Hq1 & Hqp & Hqr0); [lia|exact Hqr|exact Hmod|].
        assert (Hrem : r1 - q * r0 = r1 mod r0) by lia.
        assert (Ha' : 0 <= a) by lia.
        (* bounds on the cofactors: |s0|, |s1|, q |s0| <= p and the same for t with a <= p *)
        assert (Bs : 0 <= sg * s0 <= p /\ 0 <= - sg * s1 <= p /\ 0 <= q * (sg * s0) <= p).
        { destruct (nl_coef r0 r1 q p (sg * s0) (- sg * s1)) as (B1 & B2 & B3); try lia; destruct Hsg; subst sg; lia. }
        assert (Bt : 0 <= - sg * t0 <= p /\ 0 <= sg * t1 <= p /\ 0 <= q * (- sg * t0) <= p).
        { destruct (nl_coef r0 r1 q a (- sg * t0) (sg * t1)) as (B1 & B2 & B3); try lia; destruct Hsg; subst sg; lia. }
        unfold iquot. apply Z.eqb_neq in E0 as E0'. rewrite E0'. rewrite Hq.
        rewrite ckf by lia. cbn [obind].
        unfold egcd_f. cbn [fst snd]. unfold imul, isub.
        (* r *)
        rewrite (ckf (q * r0)) by lia. cbn [obind].
        rewrite (ckf (r1 - q * r0)) by lia. cbn [obind].
        (* s, t *)
        rewrite (ckf (q * s0)) by (destruct Hsg; subst sg; lia). cbn [obind].
        rewrite (ckf (s1 - q * s0)) by (destruct Hsg; subst sg; lia). cbn [obind].
        rewrite (ckf (q * t0)) by (destruct Hsg; subst sg; lia). cbn [obind].
        rewrite (ckf (t1 - q * t0)) by (destruct Hsg; subst sg; lia). cbn [obind].
        destruct (IH (r1 - q * r0) r0 (s1 - q * s0) s0 (t1 - q * t0) t0 (- sg)) as (x & y & Hl & Hb).
        * lia.
        * lia.
        * rewrite Nat2Z.inj_succ, Z.pow_succ_r in Hm by lia.
          apply nl_measure; try lia.
        * rewrite <- Is0, <- Is1. ring.
        * exact Is0.
        * lia.
        * destruct Hsg; subst sg; lia.
        * destruct Hsg; subst sg; lia.
        * rewrite <- Sd. ring.
        * destruct Hsg; subst sg; lia.
        * destruct Hsg; subst sg; lia.
        * rewrite <- Td. ring.
        * exists x, y. rewrite Hl. rewrite Hrem, Z.gcd_mod by lia. rewrite Hrem, Z.gcd_mod in Hb by lia.
          split; [reflexivity|exact Hb].
  Qed.

  (* self.extended_gcd(other) with self = a, other = p, for 0 < a < p *)
  Lemma egcd_spec : 0 < a < p ->
    exists x y, egcd w a p = Some (Z.gcd a p, x, y) /\ x * a + y * p = Z.gcd a p.
  Proof.
    intros Hap. unfold egcd, egcd_fuel.
    set (n := Z.to_nat (Z.log2_up (Z.abs a) + Z.log2_up (Z.abs p))).
    rewrite egcd_loop_S. cbn [fst snd].
    assert (E0 : (p =? 0) = false) by (apply Z.eqb_neq; lia). rewrite E0.
    unfold iquot. rewrite E0. rewrite Z.quot_small by lia. rewrite ckf by lia. cbn [obind].
    unfold egcd_f. cbn [fst snd]. unfold imul, isub. rewrite !Z.mul_0_l.
    rewrite !ckf by lia. cbn [obind]. rewrite !ckf by lia. cbn [obind].
    rewrite !Z.sub_0_r.
    destruct (egcd_loop_spec (S n) a p 1 0 0 1 1) as (x & y & Hl & Hb); try lia.
    - (* a * p < 2 ^ (n + 1) *)
      assert (Hla : a <= 2 ^ Z.log2_up a) by (apply Z.log2_up_le_pow2; lia).
      assert (Hlp : p <= 2 ^ Z.log2_up p) by (apply Z.log2_up_le_pow2; lia).
      pose proof (Z.log2_up_nonneg a). pose proof (Z.log2_up_nonneg p).
      unfold n. rewrite !Z.abs_eq by lia. rewrite Nat2Z.inj_succ, Z2Nat.id by lia.
      rewrite Z.pow_succ_r, Z.pow_add_r by lia.
      assert (0 < 2 ^ Z.log2_up a) by (apply Z.pow_pos_nonneg; lia).
      assert (0 < 2 ^ Z.log2_up p) by (apply Z.pow_pos_nonneg; lia).
      apply nl_mul_lt; lia.
    - exists x, y. rewrite Hl. auto.
  Qed.
End Egcd.

(* ---------- representatives and ring operations ---------- *)
Definition InF (p a : Z) : Prop := 0 <= a < p.
Definition inFb (p a : Z) : bool := (0 <=? a) && (a <? p).
Lemma inFb_spec p a : inFb p a = true <-> InF p a.
Proof. unfold inFb, InF. rewrite andb_true_iff, Z.leb_le, Z.ltb_lt. tauto. Qed.

(* the moduli for which FF<p> is claimed: products of two representatives fit i32 *)
Definition SmallMod (p : Z) : Prop := 1 < p /\ (p - 1) * (p - 1) < 2 ^ 31.

Lemma small_bound p : SmallMod p -> 1 < p <= 46341.
Proof. intros [H1 H2]. change (2 ^ 31) with 2147483648 in H2. nia. Qed.

Lemma ff_new_spec p a : 0 < p -> ff_new p a = Some (a mod p) /\ InF p (a mod p).
Proof.
  intros Hp. unfold ff_new. assert (E : (0 <? p) = true) by (apply Z.ltb_lt; lia). rewrite E.
  split; [reflexivity|]. apply Z.mod_pos_bound. lia.
Qed.

Lemma ff_new_nonpos p a : p <= 0 -> ff_new p a = None.
Proof. intros Hp. unfold ff_new. assert (E : (0 <? p) = false) by (apply Z.ltb_ge; lia). now rewrite E. Qed.

Lemma ff_new_id p a : InF p a -> ff_new p a = Some a.
Proof.
  intros H. destruct (ff_new_spec p a) as [E _]; [unfold InF in H; lia|]. rewrite E. f_equal.
  now apply Z.mod_small.
Qed.

Lemma ck32 z : -2147483648 <= z <= 2147483647 -> ck i32 z = Some z.
Proof. intros H. apply ck_fits. now apply fitsb_i32. Qed.

Lemma ff_add_spec p a b : SmallMod p -> InF p a -> InF p b ->
  ff_add p a b = Some ((a + b) mod p) /\ InF p ((a + b) mod p).
Proof.
  intros Hp Ha Hb. pose proof (small_bound p Hp). unfold InF in *. unfold ff_add, iadd.
  rewrite ck32 by lia. cbn [obind]. apply ff_new_spec. lia.
Qed.

Lemma ff_sub_spec p a b : SmallMod p -> InF p a -> InF p b ->
  ff_sub p a b = Some ((a - b) mod p) /\ InF p ((a - b) mod p).
Proof.
  intros Hp Ha Hb. pose proof (small_bound p Hp). unfold InF in *. unfold ff_sub, isub.
  rewrite ck32 by lia. cbn [obind]. apply ff_new_spec. lia.
Qed.

Lemma ff_mul_spec p a b : SmallMod p -> InF p a -> InF p b ->
  ff_mul p a b = Some ((a * b) mod p) /\ InF p ((a * b) mod p).
Proof.
  intros Hp Ha Hb. pose proof (small_bound p Hp). destruct Hp as [Hp1 Hp2].
  change (2 ^ 31) with 2147483648 in Hp2. unfold InF in *. unfold ff_mul, imul.
  rewrite ck32 by nia. cbn [obind]. apply ff_new_spec. lia.
Qed.

Lemma ff_neg_spec p a : SmallMod p -> InF p a ->
  ff_neg p a = Some ((- a) mod p) /\ InF p ((- a) mod p).
Proof.
  intros Hp Ha. pose proof (small_bound p Hp). unfold InF in *. unfold ff_neg, ineg.
  rewrite ck32 by lia. cbn [obind]. apply ff_new_spec. lia.
Qed.

(* the operations commute with reduction modulo p: FF::new is a ring homomorphism Z -> F_p *)
Lemma ff_add_hom p x y : SmallMod p -> ff_add p (x mod p) (y mod p) = ff_new p (x + y).
Proof.
  intros Hp. pose proof (small_bound p Hp).
  destruct (ff_add_spec p (x mod p) (y mod p) Hp) as [E _]; try (apply Z.mod_pos_bound; lia).
  rewrite E. destruct (ff_new_spec p (x + y)) as [E' _]; [lia|]. rewrite E'. f_equal.
  symmetry. apply Z.add_mod. lia.
Qed.

Lemma ff_sub_hom p x y : SmallMod p -> ff_sub p (x mod p) (y mod p) = ff_new p (x - y).
Proof.
  intros Hp. pose proof (small_bound p Hp).
  destruct (ff_sub_spec p (x mod p) (y mod p) Hp) as [E _]; try (apply Z.mod_pos_bound; lia).
  rewrite E. destruct (ff_new_spec p (x - y)) as [E' _]; [lia|]. rewrite E'. f_equal.
  symmetry. apply Zminus_mod.
Qed.

Lemma ff_mul_hom p x y : SmallMod p -> ff_mul p (x mod p) (y mod p) = ff_new p (x * y).
Proof.
  intros Hp. pose proof (small_bound p Hp).
  destruct (ff_mul_spec p (x mod p) (y mod p) Hp) as [E _]; try (apply Z.mod_pos_bound; lia).
  rewrite E. destruct (ff_new_spec p (x * y)) as [E' _]; [lia|]. rewrite E'. f_equal.
  symmetry. apply Z.mul_mod. lia.
Qed.

Lemma ff_neg_hom p x : SmallMod p -> ff_neg p (x mod p) = ff_new p (- x).
Proof.
  intros Hp. pose proof (small_bound p Hp).
  destruct (ff_neg_spec p (x mod p) Hp) as [E _]; try (apply Z.mod_pos_bound; lia).
  rewrite E. destruct (ff_new_spec p (- x)) as [E' _]; [lia|]. rewrite E'. f_equal.
  rewrite <- (Z.sub_0_l (x mod p)), <- (Z.sub_0_l x). rewrite Zminus_mod_idemp_r. reflexivity.
Qed.

(* an overflow of the i32 product is a panic, never a wrapped value *)
Lemma ff_mul_no_wrap p a b r : ff_mul p a b = Some r -> r = (a * b) mod p /\ fitsb i32 (a * b) = true.
Proof.
  unfold ff_mul, imul. intros H. destruct (ck i32 (a * b)) as [s|] eqn:E; cbn [obind] in H; [|discriminate].
  apply ck_inv in E as [-> F]. unfold ff_new in H. destruct (0 <? p); inversion H. auto.
Qed.

(* ---------- the inverse ---------- *)
Lemma fits32_2p p : 0 < p < 2 ^ 30 -> forall z, - (2 * p) <= z <= 2 * p -> fitsb i32 z = true.
Proof. intros Hp z Hz. apply fitsb_i32. change (2 ^ 30) with 1073741824 in Hp. lia. Qed.

Lemma ff_inv_zero p : ff_inv p 0 = Some None.
Proof. reflexivity. Qed.

(* for a prime p < 2^30 every non-zero residue has the inverse, computed without leaving i32 *)
Lemma ff_inv_spec p a : prime p -> p < 2 ^ 30 -> 0 < a < p ->
  exists b, ff_inv p a = Some (Some b) /\ InF p b /\ (a * b) mod p = 1.
Proof.
  intros Hprime Hp Ha. assert (Hp1 : 1 < p) by (destruct Hprime; lia).
  unfold ff_inv, ff_inv_w, ff_is_zero.
  assert (E0 : (a =? 0) = false) by (apply Z.eqb_neq; lia). rewrite E0.
  destruct (egcd_spec i32 a p (fits32_2p p ltac:(lia)) ltac:(lia) Ha) as (x & y & He & Hb).
  assert (Hg : Z.gcd a p = 1).
  { apply Zgcd_1_rel_prime. apply rel_prime_sym. apply prime_rel_prime; auto.
    intros D. apply Z.divide_pos_le in D; lia. }
  rewrite He. cbn [obind fst snd]. rewrite Hg. change (1 =? 1) with true. cbv iota.
  destruct (ff_new_spec p x) as [En Hr]; [lia|]. rewrite En. cbn [obind].
  exists (x mod p). repeat split; try apply Hr.
  rewrite Z.mul_mod_idemp_r by lia. replace (a * x) with (1 + (- y) * p) by lia.
  rewrite Z_mod_plus_full. apply Z.mod_small. lia.
Qed.

(* whatever the i32 computation returns is an inverse, for any modulus (prime or not):
   the loop run in i32 agrees with the loop run over Z, which returns Bezout coefficients *)
Lemma egcd_f_mono w q r : ole (egcd_f w q r) (egcd_f Big q r).
Proof.
  unfold egcd_f. apply ole_bind; [apply imul_mono|intros m].
  apply ole_bind; [apply isub_mono|intros; apply ole_refl].
Qed.

Lemma egcd_loop_mono w fuel : forall r s t, ole (egcd_loop w fuel r s t) (egcd_loop Big fuel r s t).
Proof.
  induction fuel as [|f IH]; intros r s t; cbn [egcd_loop]; [apply ole_none|].
  apply ole_if.
  - apply ole_if; [apply ole_refl|].
    apply ole_bind; [apply isub_mono|intros g]. apply ole_bind; [apply isub_mono|intros x].
    apply ole_bind; [apply isub_mono|intros y]. apply ole_refl.
  - apply ole_bind; [apply iquot_mono|intros q].
    apply ole_bind; [apply egcd_f_mono|intros r'].
    apply ole_bind; [apply egcd_f_mono|intros s'].
    apply ole_bind; [apply egcd_f_mono|intros t']. apply IH.
Qed.

Lemma ff_inv_mono p a : ole (ff_inv p a) (ff_inv_w Big p a).
Proof.
  unfold ff_inv, ff_inv_w. apply ole_if; [apply ole_refl|].
  apply ole_bind; [apply egcd_loop_mono|intros; apply ole_refl].
Qed.

Lemma egcd_f_big q r : egcd_f Big q r = Some (snd r - q * fst r, fst r).
Proof. reflexivity. Qed.

(* Bezout invariant of the loop over Z, for arbitrary arguments and fuel *)
Lemma egcd_loop_bezout a p fuel : forall r s t g x y,
  snd s * a + snd t * p = snd r -> fst s * a + fst t * p = fst r ->
  egcd_loop Big fuel r s t = Some (g, x, y) -> x * a + y * p = g /\ 0 <= g.
Proof.
  induction fuel as [|f IH]; intros [r0 r1] [s0 s1] [t0 t1] g x y I1 I0 H; cbn [egcd_loop fst snd] in *;
    [discriminate|].
  destruct (r0 =? 0) eqn:E0.
  - destruct (0 <=? r1) eqn:E1.
    + inversion H; subst. apply Z.leb_le in E1. auto.
    + cbn in H. inversion H; subst. apply Z.leb_gt in E1. split; lia.
  - apply Z.eqb_neq in E0. rewrite iquot_big in H by auto. cbn [obind] in H.
    rewrite !egcd_f_big in H. cbn [obind fst snd] in H.
    apply IH in H; auto; cbn [fst snd].
    rewrite <- I1, <- I0. ring.
Qed.

Lemma ff_inv_sound p a b : InF p a -> ff_inv p a = Some (Some b) -> InF p b /\ (a * b) mod p = 1 mod p.
Proof.
  intros Ha H. apply ff_inv_mono in H. unfold ff_inv_w in H.
  destruct (ff_is_zero a); [discriminate|].
  destruct (egcd Big a p) as [[[g x] y]|] eqn:E; cbn [obind fst snd] in H; [|discriminate].
  destruct (g =? 1) eqn:Eg; [|discriminate]. apply Z.eqb_eq in Eg. subst g.
  unfold egcd in E. apply (egcd_loop_bezout a p) in E; cbn [fst snd]; try ring.
  destruct E as [Hb _].
  unfold ff_new in H. destruct (0 <? p) eqn:Ep; cbn [obind] in H; [|discriminate].
  apply Z.ltb_lt in Ep. inversion H; subst b. split; [apply Z.mod_pos_bound; lia|].
  rewrite Z.mul_mod_idemp_r by lia. replace (a * x) with (1 + (- y) * p) by lia.
  now rewrite Z_mod_plus_full.
Qed.

(* ---------- F_2 ---------- *)
Lemma f2_from_spec a : f2_from a = if fitsb i64 a then Some (Z.odd a) else None.
Proof. unfold f2_from, ck. destruct (fitsb i64 a); reflexivity. Qed.

Lemma f2_add_xor a b : f2_add a b = xorb a b.
Proof. destruct a, b; reflexivity. Qed.

(* FF2::from is the ring homomorphism Z -> F_2 *)
Lemma f2_odd_add x y : Z.odd (x + y) = f2_add (Z.odd x) (Z.odd y).
Proof. rewrite Z.odd_add, f2_add_xor. reflexivity. Qed.
Lemma f2_odd_mul x y : Z.odd (x * y) = f2_mul (Z.odd x) (Z.odd y).
Proof. apply Z.odd_mul. Qed.
Lemma f2_odd_neg x : Z.odd (- x) = f2_neg (Z.odd x).
Proof. apply Z.odd_opp. Qed.
Lemma f2_odd_sub x y : Z.odd (x - y) = f2_sub (Z.odd x) (Z.odd y).
Proof. rewrite Z.odd_sub. unfold f2_sub. rewrite f2_add_xor. reflexivity. Qed.

Lemma f2_inv_spec a : match f2_inv a with Some b => f2_mul a b = true | None => a = false end.
Proof. destruct a; reflexivity. Qed.
