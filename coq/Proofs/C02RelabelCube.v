(* C02 invariance, part 5: order-preserving relabelling leaves the whole cube unchanged.
   For rho strictly increasing on the edge labels (and on the base edge of a reduced complex):
   the vertices of the relabelled diagram are the vertices of the original with rho applied to the
   circles, the sparse differentials [c_rows] are literally equal, [first_edge] commutes with rho, and
   the tables [kh_groups], [kh_groups_bigraded] are literally equal. *)
From Coq Require Import List Arith Bool ZArith Lia.
Require Import Yui.Model.KhCube Yui.Model.KhHomology.
Require Import Yui.Proofs.C02Sorted Yui.Proofs.C02Canon Yui.Proofs.C02Relabel Yui.Proofs.C02CubeMap.
Import ListNotations.

Definition opt_list (o : option nat) : list nat := match o with Some e => [e] | None => [] end.

Definition within (U : list nat) (c : circle) : Prop := forall e, In e c -> In e U.

Lemma list_eqb_map_inj rho U c d : inj_on rho U -> within U c -> within U d ->
  list_eqb (map rho c) (map rho d) = list_eqb c d.
Proof.
  intros Hinj. revert d. induction c as [|x c IH]; intros [|y d] Hc Hd; try reflexivity.
  cbn [map list_eqb]. rewrite IH; [|intros e He; apply Hc; now right|intros e He; apply Hd; now right].
  f_equal. destruct (Nat.eqb_spec x y) as [->|Hne]; [apply Nat.eqb_refl|].
  apply Nat.eqb_neq. intros E. apply Hne. apply Hinj; [apply Hc; now left|apply Hd; now left|exact E].
Qed.

Lemma mem_map_inj rho U e c : inj_on rho U -> In e U -> within U c ->
  existsb (Nat.eqb (rho e)) (map rho c) = existsb (Nat.eqb e) c.
Proof.
  intros Hinj He Hc. apply Bool.eq_iff_eq_true. rewrite !mem_spec, in_map_iff. split.
  - intros [x [E Hx]]. assert (x = e) by (apply Hinj; [now apply Hc|exact He|exact E]). now subst.
  - intros H. exists e. auto.
Qed.

Lemma base_index_relabel rho U red cs : inj_on rho U -> (forall e, In e (opt_list red) -> In e U) ->
  (forall c, In c cs -> within U c) ->
  base_index (option_map rho red) (map (map rho) cs) = base_index red cs.
Proof.
  intros Hinj Hr Hcs. destruct red as [e|]; [|reflexivity]. cbn [option_map base_index].
  rewrite index_where_map. apply index_where_ext_in. intros c Hc.
  apply (mem_map_inj rho U); [exact Hinj|apply Hr; now left|now apply Hcs].
Qed.

Section Relabel.
Variable rho : nat -> nat.
Variable l : link.
Variable red : option nat.
Let U := opt_list red ++ all_edges l.
Hypothesis Hmono : mono_on rho U.

Let Hinj : inj_on rho U := mono_inj rho U Hmono.
Let HmonoE : mono_on rho (all_edges l).
Proof. apply (mono_on_incl rho U); [|exact Hmono]. intros e He. apply in_or_app. now right. Qed.

Lemma circles_within s c : In c (circles (resolve_by l s)) -> within U c.
Proof.
  intros Hc e He. apply in_or_app. right. rewrite <- (resolve_by_edges l s).
  now apply (circles_in_edges _ c).
Qed.

Lemma make_vertex_relabel s :
  make_vertex (relabel rho l) (option_map rho red) s = vmap (map rho) (make_vertex l red s).
Proof.
  unfold make_vertex, vmap. cbn [v_state v_circles v_base v_labels].
  rewrite circles_resolve_relabel_mono by exact HmonoE.
  rewrite (base_index_relabel rho U); [now rewrite map_length|exact Hinj| |apply circles_within].
  intros e He. apply in_or_app. now left.
Qed.

Lemma all_vertices_relabel :
  all_vertices (relabel rho l) (option_map rho red) = map (vmap (map rho)) (all_vertices l red).
Proof.
  unfold all_vertices. rewrite relabel_crossing_num, map_map. apply map_ext. apply make_vertex_relabel.
Qed.

Lemma all_vertices_good : vs_good (within U) (all_vertices l red).
Proof.
  intros v Hv. unfold all_vertices in Hv. apply in_map_iff in Hv. destruct Hv as [s [<- _]].
  intros c Hc. cbn [make_vertex v_circles] in Hc. now apply (circles_within s).
Qed.

Theorem build_cube_relabel h t :
  build_cube (relabel rho l) (option_map rho red) h t = cube_map (map rho) (build_cube l red h t).
Proof.
  unfold build_cube, cube_map. cbn [c_n c_gens c_rows]. rewrite relabel_crossing_num, all_vertices_relabel.
  f_equal.
  - rewrite map_map. apply map_ext. intros k. apply gens_of_weight_map.
  - apply map_ext. intros k. f_equal.
    apply (d_images_map (map rho) (within U)); [|exact all_vertices_good].
    intros c d Hc Hd. now apply (list_eqb_map_inj rho U).
Qed.

Corollary c_rows_relabel h t :
  c_rows (build_cube (relabel rho l) (option_map rho red) h t) = c_rows (build_cube l red h t).
Proof. now rewrite build_cube_relabel. Qed.

Corollary kh_groups_relabel h t :
  kh_groups (build_cube (relabel rho l) (option_map rho red) h t) = kh_groups (build_cube l red h t).
Proof. rewrite build_cube_relabel. apply kh_groups_map. Qed.

Corollary kh_groups_bigraded_relabel h t :
  kh_groups_bigraded (build_cube (relabel rho l) (option_map rho red) h t)
  = kh_groups_bigraded (build_cube l red h t).
Proof. rewrite build_cube_relabel. apply kh_groups_bigraded_map. Qed.

End Relabel.

(* the base edge the library chooses for a reduced complex commutes with rho *)
Lemma min4_mono rho a b c d :
  mono_on rho [a; b; c; d] ->
  Nat.min (rho a) (Nat.min (rho b) (Nat.min (rho c) (Nat.min (rho d) (rho a))))
  = rho (Nat.min a (Nat.min b (Nat.min c (Nat.min d a)))).
Proof.
  intros H.
  assert (M : forall x y, In x [a; b; c; d] -> In y [a; b; c; d] ->
              Nat.min (rho x) (rho y) = rho (Nat.min x y) /\ In (Nat.min x y) [a; b; c; d]).
  { intros x y Hx Hy. destruct (Nat.lt_trichotomy x y) as [L|[->|L]].
    - pose proof (H x y Hx Hy L). rewrite !Nat.min_l by lia. auto.
    - rewrite !Nat.min_id. auto.
    - pose proof (H y x Hy Hx L). rewrite !Nat.min_r by lia. auto. }
  assert (Ia : In a [a; b; c; d]) by (cbn; tauto). assert (Ib : In b [a; b; c; d]) by (cbn; tauto).
  assert (Ic : In c [a; b; c; d]) by (cbn; tauto). assert (Id : In d [a; b; c; d]) by (cbn; tauto).
  destruct (M d a Id Ia) as [E1 I1]. rewrite E1.
  destruct (M c _ Ic I1) as [E2 I2]. rewrite E2.
  destruct (M b _ Ib I2) as [E3 I3]. rewrite E3.
  destruct (M a _ Ia I3) as [E4 _]. exact E4.
Qed.

Lemma first_edge_relabel rho l : mono_on rho (all_edges l) ->
  first_edge (relabel rho l) = option_map rho (first_edge l).
Proof.
  destruct l as [|[t [[[a b] c] d]] l]; intros H; [reflexivity|].
  cbn [relabel map relabel_crossing first_edge crossing_edges hd fold_right option_map]. f_equal.
  apply min4_mono. apply (mono_on_incl rho _ _ (fun e He => in_or_app _ _ e (or_introl He)) H).
Qed.

Lemma first_edge_in l e : first_edge l = Some e -> In e (all_edges l).
Proof.
  destruct l as [|[t [[[a b] c] d]] l]; [discriminate|]. cbn [first_edge crossing_edges hd fold_right].
  intros E. injection E as <-. unfold all_edges. cbn [flat_map crossing_edges]. apply in_or_app. left. cbn [In]. lia.
Qed.

(* the reduced complex with the library's own choice of base edge *)
Theorem build_cube_relabel_first rho l h t : mono_on rho (all_edges l) ->
  build_cube (relabel rho l) (first_edge (relabel rho l)) h t
  = cube_map (map rho) (build_cube l (first_edge l) h t).
Proof.
  intros H. rewrite first_edge_relabel by exact H. apply build_cube_relabel.
  intros a b Ha Hb. apply H.
  - apply in_app_or in Ha. destruct Ha as [Ha|Ha]; [|exact Ha].
    destruct (first_edge l) as [e|] eqn:E; [|destruct Ha]. destruct Ha as [<-|[]]. now apply first_edge_in.
  - apply in_app_or in Hb. destruct Hb as [Hb|Hb]; [|exact Hb].
    destruct (first_edge l) as [e|] eqn:E; [|destruct Hb]. destruct Hb as [<-|[]]. now apply first_edge_in.
Qed.
