(* C03Big, part 2: the grid of into_bigraded (range_of, step_by(2), Grid::get) and its cells. *)
From Coq Require Import List ZArith Bool Lia Permutation FinFun.
Require Import Yui.Model.IntoBigraded Yui.Proofs.C03BigTable.
Import ListNotations.
Open Scope Z_scope.

(* ---------- range_of ---------- *)
Lemma range_fold_some : forall l a b, a <= b ->
  exists a' b', fold_left range_step l (Some (a, b)) = Some (a', b') /\ a' <= a /\ b <= b' /\
    (a' = a \/ In a' l) /\ (b' = b \/ In b' l) /\ (forall x, In x l -> a' <= x <= b').
Proof.
  induction l as [|i l IH]; intros a b Hab.
  - exists a, b. cbn. repeat split; auto; try lia; intros x [].
  - cbn [fold_left range_step].
    destruct (i <? a) eqn:E1; [apply Z.ltb_lt in E1 | apply Z.ltb_ge in E1].
    + destruct (IH i b ltac:(lia)) as (a' & b' & Hf & H1 & H2 & H3 & H4 & H5).
      exists a', b'. rewrite Hf. repeat split; try lia.
      * destruct H3 as [->|H3]; [right; left; reflexivity | right; right; exact H3].
      * destruct H4 as [->|H4]; [left; reflexivity | right; right; exact H4].
      * destruct H as [<-|H]; [lia | apply H5; exact H].
      * destruct H as [<-|H]; [lia | apply H5; exact H].
    + destruct (b <? i) eqn:E2; [apply Z.ltb_lt in E2 | apply Z.ltb_ge in E2].
      * destruct (IH a i ltac:(lia)) as (a' & b' & Hf & H1 & H2 & H3 & H4 & H5).
        exists a', b'. rewrite Hf. repeat split; try lia.
        -- destruct H3 as [->|H3]; [left; reflexivity | right; right; exact H3].
        -- destruct H4 as [->|H4]; [right; left; reflexivity | right; right; exact H4].
        -- destruct H as [<-|H]; [lia | apply H5; exact H].
        -- destruct H as [<-|H]; [lia | apply H5; exact H].
      * destruct (IH a b Hab) as (a' & b' & Hf & H1 & H2 & H3 & H4 & H5).
        exists a', b'. rewrite Hf. repeat split; try lia.
        -- destruct H3 as [->|H3]; [left; reflexivity | right; right; exact H3].
        -- destruct H4 as [->|H4]; [left; reflexivity | right; right; exact H4].
        -- destruct H as [<-|H]; [lia | apply H5; exact H].
        -- destruct H as [<-|H]; [lia | apply H5; exact H].
Qed.

(* range_of of a non-empty list is (minimum, maximum), whatever the order of the list *)
Lemma range_of_spec : forall l, l <> [] ->
  In (fst (range_of l)) l /\ In (snd (range_of l)) l /\ forall x, In x l -> fst (range_of l) <= x <= snd (range_of l).
Proof.
  intros [|i l] Hne; [congruence|]. unfold range_of. cbn [fold_left range_step].
  destruct (range_fold_some l i i ltac:(lia)) as (a' & b' & Hf & H1 & H2 & H3 & H4 & H5).
  rewrite Hf. cbn [fst snd]. repeat split.
  - destruct H3 as [->|H3]; [left; reflexivity | right; exact H3].
  - destruct H4 as [->|H4]; [left; reflexivity | right; exact H4].
  - destruct H as [<-|H]; [lia | apply H5; exact H].
  - destruct H as [<-|H]; [lia | apply H5; exact H].
Qed.

Lemma range_of_nil : range_of [] = (0, 0).
Proof. reflexivity. Qed.

(* ---------- zrange ---------- *)
Lemma zrange_in : forall a b step x, 0 < step ->
  In x (zrange a b step) <-> a <= x <= b /\ (x - a) mod step = 0.
Proof.
  intros a b step x Hs. unfold zrange.
  destruct (b <? a) eqn:E; [apply Z.ltb_lt in E | apply Z.ltb_ge in E].
  - cbn. split; [tauto | lia].
  - rewrite in_map_iff. split.
    + intros [k [Hx Hk]]. apply in_seq in Hk. subst x.
      assert (Hq : 0 <= (b - a) / step) by (apply Z.div_pos; lia).
      assert (Hk' : Z.of_nat k <= (b - a) / step) by lia.
      assert (Hm : step * ((b - a) / step) <= b - a) by (apply Z.mul_div_le; lia).
      split.
      * split; [nia | nia].
      * replace (a + step * Z.of_nat k - a) with (Z.of_nat k * step) by ring. apply Z.mod_mul. lia.
    + intros [[H1 H2] Hm].
      assert (Hx : x - a = step * ((x - a) / step)) by (apply Z.div_exact; lia).
      assert (Hq : 0 <= (x - a) / step) by (apply Z.div_pos; lia).
      assert (Hle : (x - a) / step <= (b - a) / step) by (apply Z.div_le_mono; lia).
      exists (Z.to_nat ((x - a) / step)). split.
      * rewrite Z2Nat.id by exact Hq. lia.
      * apply in_seq. split; [lia|]. cbn [plus Nat.add]. apply Z2Nat.inj_lt; lia.
Qed.

Lemma zrange_nodup : forall a b step, 0 < step -> NoDup (zrange a b step).
Proof.
  intros a b step Hs. unfold zrange. destruct (b <? a); [constructor|].
  apply Injective_map_NoDup; [|apply seq_NoDup].
  intros k1 k2 H. assert (H' : step * Z.of_nat k1 = step * Z.of_nat k2) by lia.
  apply Z.mul_reg_l in H'; lia.
Qed.

(* ---------- products of index lists ---------- *)
Lemma nodup_app_intro : forall (A : Type) (l1 l2 : list A),
  NoDup l1 -> NoDup l2 -> (forall x, In x l1 -> In x l2 -> False) -> NoDup (l1 ++ l2).
Proof.
  intros A l1 l2 H1 H2 Hd. induction H1 as [|x l1 Hn H1 IH].
  - exact H2.
  - cbn [app]. constructor.
    + rewrite in_app_iff. intros [H|H]; [contradiction | apply (Hd x); [left; reflexivity | exact H]].
    + apply IH. intros y Hy1 Hy2. apply (Hd y); [right; exact Hy1 | exact Hy2].
Qed.

Lemma in_product : forall (I J : list Z) i j,
  In (i, j) (flat_map (fun i => map (fun j => (i, j)) J) I) <-> In i I /\ In j J.
Proof.
  intros I J i j. rewrite in_flat_map. split.
  - intros [i' [Hi Hj]]. apply in_map_iff in Hj. destruct Hj as [j' [E Hj]]. inversion E; subst. auto.
  - intros [Hi Hj]. exists i. split; [exact Hi|]. apply in_map_iff. exists j. auto.
Qed.

Lemma nodup_product : forall (I J : list Z), NoDup I -> NoDup J ->
  NoDup (flat_map (fun i => map (fun j => (i, j)) J) I).
Proof.
  intros I J HI HJ. induction HI as [|i I Hn HI IH].
  - constructor.
  - cbn [flat_map]. apply nodup_app_intro; [| exact IH |].
    + apply Injective_map_NoDup; [|exact HJ]. intros j1 j2 E. inversion E. reflexivity.
    + intros [i' j'] H1 H2. apply in_map_iff in H1. destruct H1 as [j1 [E _]]. inversion E; subst.
      apply (in_product I J i' j') in H2. destruct H2 as [H2 _]. contradiction.
Qed.

(* ---------- the support of the new grid ---------- *)
Definition h_keys (t : table) : list Z := map (fun x => fst (fst x)) t.
Definition q_keys (t : table) : list Z := map (fun x => snd (fst x)) t.

Lemma ib_support_in : forall t i j,
  In (i, j) (ib_support t) <->
  In i (zrange (fst (range_of (h_keys t))) (snd (range_of (h_keys t))) 1) /\
  In j (zrange (fst (range_of (q_keys t))) (snd (range_of (q_keys t))) 2).
Proof.
  intros t i j. unfold ib_support. fold (h_keys t). fold (q_keys t).
  destruct (range_of (h_keys t)) as [h0 h1]. destruct (range_of (q_keys t)) as [q0 q1].
  cbn [fst snd]. apply in_product.
Qed.

Lemma ib_support_nodup : forall t, NoDup (ib_support t).
Proof.
  intros t. unfold ib_support.
  destruct (range_of (map (fun x => fst (fst x)) t)) as [h0 h1].
  destruct (range_of (map (fun x => snd (fst x)) t)) as [q0 q1].
  apply nodup_product; apply zrange_nodup; lia.
Qed.

Lemma same_odd_mod2 : forall a b, Z.odd a = Z.odd b -> (b - a) mod 2 = 0.
Proof.
  intros a b H. rewrite Zmod_odd, Z.odd_sub, H. destruct (Z.odd b); reflexivity.
Qed.

(* a key of the table whose q-degree has the parity of all the others is on the grid *)
Lemma ib_support_key : forall t i j,
  In (i, j) (map fst t) -> (forall k, In k (map fst t) -> Z.odd (snd k) = Z.odd j) -> In (i, j) (ib_support t).
Proof.
  intros t i j Hin Hpar. apply ib_support_in.
  assert (Hi : In i (h_keys t)).
  { unfold h_keys. apply in_map_iff in Hin. destruct Hin as [x [E Hx]]. apply in_map_iff. exists x. rewrite E. auto. }
  assert (Hj : In j (q_keys t)).
  { unfold q_keys. apply in_map_iff in Hin. destruct Hin as [x [E Hx]]. apply in_map_iff. exists x. rewrite E. auto. }
  split.
  - apply zrange_in; [lia|].
    destruct (range_of_spec (h_keys t)) as (_ & _ & H); [intros E; rewrite E in Hi; exact Hi|].
    split; [apply H; exact Hi | apply Z.mod_1_r].
  - apply zrange_in; [lia|].
    destruct (range_of_spec (q_keys t)) as (H0 & _ & H); [intros E; rewrite E in Hj; exact Hj|].
    split; [apply H; exact Hj|].
    apply same_odd_mod2. unfold q_keys in *. apply in_map_iff in H0. destruct H0 as [x [E Hx]].
    rewrite <- E. apply (Hpar (fst x)). apply in_map. exact Hx.
Qed.

(* ---------- Grid::get on the generated grid ---------- *)
Lemma ib_get_map_in : forall (f : key -> cell) S k,
  In k S -> ib_get k (map (fun idx => (idx, f idx)) S) = f k.
Proof.
  intros f S k. induction S as [|k1 S IH]; intros H; [destruct H|].
  cbn [map ib_get]. destruct (key_eqb k k1) eqn:E.
  - apply key_eqb_spec in E. subst. reflexivity.
  - apply key_eqb_false in E. destruct H as [H|H]; [congruence | apply IH; exact H].
Qed.

Lemma ib_get_map_notin : forall (f : key -> cell) S k,
  ~ In k S -> ib_get k (map (fun idx => (idx, f idx)) S) = zero_cell.
Proof.
  intros f S k. induction S as [|k1 S IH]; intros H; [reflexivity|].
  cbn [map ib_get]. destruct (key_eqb k k1) eqn:E.
  - apply key_eqb_spec in E. subst. exfalso. apply H. left. reflexivity.
  - apply IH. intros H'. apply H. right. exact H'.
Qed.

(* the cell of the new grid: on the grid it is the regrouping, off the grid it is zero *)
Lemma into_bigraded_cell_on : forall hs i j,
  In (i, j) (ib_support (collect_gen_info hs)) ->
  ib_get (i, j) (into_bigraded hs) = regroup chain_q_deg j (gens_at hs i).
Proof.
  intros hs i j H. unfold into_bigraded.
  rewrite (ib_get_map_in (fun idx => cell_of (tbl_find idx (collect_gen_info hs))) _ _ H).
  apply collect_gen_info_regroup.
Qed.

Lemma into_bigraded_cell_off : forall hs i j,
  ~ In (i, j) (ib_support (collect_gen_info hs)) -> ib_get (i, j) (into_bigraded hs) = zero_cell.
Proof.
  intros hs i j H. unfold into_bigraded.
  apply (ib_get_map_notin (fun idx => cell_of (tbl_find idx (collect_gen_info hs))) _ _ H).
Qed.

(* ---------- located generators and gens_at ---------- *)
Lemma in_locate : forall k g i gs,
  In (k, g) (locate i gs) <-> fst k = i /\ exists qs, In (g, qs) gs /\ snd k = chain_q_deg qs.
Proof.
  intros k g i gs. unfold locate. rewrite in_map_iff. split.
  - intros [[g' qs] [E H]]. cbn [fst snd] in E. inversion E; subst. cbn [fst snd]. split; [reflexivity|].
    exists qs. auto.
  - intros [Hi [qs [H Hq]]]. exists (g, qs). cbn [fst snd]. split; [|exact H].
    destruct k as [k1 k2]. cbn [fst snd] in *. subst. reflexivity.
Qed.

Lemma in_all_located : forall k g hs,
  In (k, g) (all_located hs) <-> exists qs, In (g, qs) (gens_at hs (fst k)) /\ snd k = chain_q_deg qs.
Proof.
  intros k g hs. induction hs as [|[i s] hs IH].
  - cbn. split; [tauto | intros [qs [[] _]]].
  - cbn [all_located gens_at flat_map fst snd]. fold (all_located hs). fold (gens_at hs (fst k)).
    rewrite in_app_iff, IH, in_locate. split.
    + intros [[Hi [qs [H Hq]]] | [qs [H Hq]]].
      * exists qs. split; [|exact Hq]. apply in_or_app. left. subst i. rewrite Z.eqb_refl. exact H.
      * exists qs. split; [|exact Hq]. apply in_or_app. right. exact H.
    + intros [qs [H Hq]]. apply in_app_or in H. destruct H as [H|H].
      * destruct (i =? fst k) eqn:E; [|destruct H]. apply Z.eqb_eq in E. left. split; [auto|]. exists qs. auto.
      * right. exists qs. auto.
Qed.

Lemma regroup_zero : forall j gs,
  (forall g qs, In (g, qs) gs -> chain_q_deg qs <> j) -> regroup chain_q_deg j gs = zero_cell.
Proof.
  intros j gs H. unfold regroup.
  assert (E : filter (fun g => chain_q_deg (snd g) =? j) gs = []).
  { induction gs as [|[g qs] gs IH]; [reflexivity|]. cbn [filter snd].
    destruct (chain_q_deg qs =? j) eqn:E.
    - apply Z.eqb_eq in E. exfalso. apply (H g qs); [left; reflexivity | exact E].
    - apply IH. intros g' qs' H'. apply (H g' qs'). right. exact H'. }
  rewrite E. reflexivity.
Qed.

Lemma key_eq_dec : forall a b : key, {a = b} + {a <> b}.
Proof. intros [a1 a2] [b1 b2]. destruct (Z.eq_dec a1 b1), (Z.eq_dec a2 b2); [left; congruence | right; congruence ..]. Qed.

(* with q-degrees of one parity every generator's cell is on the grid *)
Lemma same_parity_on_grid : forall hs i g qs, same_parity hs ->
  In (g, qs) (gens_at hs i) -> In (i, chain_q_deg qs) (ib_support (collect_gen_info hs)).
Proof.
  intros hs i g qs [p Hp] Hin. apply ib_support_key.
  - apply keys_collect_gen_info. apply in_map_iff. exists ((i, chain_q_deg qs), g). split; [reflexivity|].
    apply in_all_located. exists qs. auto.
  - intros k Hk. apply keys_collect_gen_info in Hk. apply in_map_iff in Hk. destruct Hk as [[k' g'] [E Hk]].
    cbn [fst] in E. subst k'. apply in_all_located in Hk. destruct Hk as [qs' [H' Hq']].
    cbn [snd]. rewrite Hq'. rewrite (Hp _ _ _ H'), (Hp _ _ _ Hin). reflexivity.
Qed.

Lemma into_bigraded_cell_parity : forall hs, same_parity hs -> forall i j,
  ib_get (i, j) (into_bigraded hs) = regroup chain_q_deg j (gens_at hs i).
Proof.
  intros hs Hp i j. destruct (in_dec key_eq_dec (i, j) (ib_support (collect_gen_info hs))) as [H|H].
  - apply into_bigraded_cell_on. exact H.
  - rewrite (into_bigraded_cell_off _ _ _ H). symmetry. apply regroup_zero.
    intros g qs Hin E. apply H. rewrite <- E. apply (same_parity_on_grid hs i g qs Hp Hin).
Qed.

(* ---------- homogeneous generators ---------- *)
Lemma fold_min_const : forall q r, Forall (eq q) r -> fold_left Z.min r q = q.
Proof.
  intros q r H. induction H as [|x r Hx H IH]; [reflexivity|]. subst x. cbn [fold_left].
  rewrite Z.min_id. exact IH.
Qed.

Lemma forallb_eqb_const : forall j q r, Forall (eq q) r -> r <> [] -> forallb (Z.eqb j) r = (j =? q).
Proof.
  intros j q r H. induction H as [|x r Hx H IH]; intros Hne; [congruence|]. subst x. cbn [forallb].
  destruct r as [|y r].
  - cbn. apply andb_true_r.
  - rewrite IH by discriminate. apply andb_diag.
Qed.

Lemma homogeneous_q_deg : forall j qs, homogeneous qs -> (chain_q_deg qs =? j) = lives_in j qs.
Proof.
  intros j qs [q0 H]. destruct qs as [|q r].
  - unfold lives_in, chain_q_deg. apply Z.eqb_sym.
  - unfold lives_in, chain_q_deg. inversion H as [|? ? Hq Hr]; subst.
    rewrite (fold_min_const _ _ Hr).
    rewrite (forallb_eqb_const j q (q :: r) H) by discriminate. apply Z.eqb_sym.
Qed.

Lemma regroup_homogeneous : forall j s, all_homogeneous s ->
  regroup chain_q_deg j (tagged s)
  = (length (filter (lives_in j) (si_free s)), map fst (filter (fun p => lives_in j (snd p)) (si_tors s))).
Proof.
  intros j s [Hf Ht]. unfold tagged. rewrite regroup_app.
  assert (F : regroup chain_q_deg j (map (fun qs => (GFree, qs)) (si_free s))
              = (length (filter (lives_in j) (si_free s)), [])).
  { induction Hf as [|qs l Hq Hf IH]; [reflexivity|].
    change (map (fun qs0 => (GFree, qs0)) (qs :: l)) with ([(GFree, qs)] ++ map (fun qs0 => (GFree, qs0)) l).
    rewrite regroup_app, IH. unfold regroup. cbn [filter snd fst flat_map].
    rewrite (homogeneous_q_deg j qs Hq). destruct (lives_in j qs); reflexivity. }
  assert (T : regroup chain_q_deg j (map (fun p => (GTor (fst p), snd p)) (si_tors s))
              = (O, map fst (filter (fun p => lives_in j (snd p)) (si_tors s)))).
  { induction Ht as [|[t qs] l Hq Ht IH]; [reflexivity|].
    change (map (fun p => (GTor (fst p), snd p)) ((t, qs) :: l))
      with ([(GTor t, qs)] ++ map (fun p => (GTor (fst p), snd p)) l).
    rewrite regroup_app, IH. unfold regroup. cbn [filter snd fst flat_map].
    cbn [snd] in Hq. rewrite (homogeneous_q_deg j qs Hq). destruct (lives_in j qs); reflexivity. }
  rewrite F, T. cbn [fst snd app]. rewrite Nat.add_0_r. reflexivity.
Qed.

Lemma gens_at_nodup : forall hs i s, NoDup (map fst hs) -> In (i, s) hs -> gens_at hs i = tagged s.
Proof.
  intros hs i s Hnd Hin. induction hs as [|[i' s'] hs IH]; [destruct Hin|].
  cbn [map fst] in Hnd. inversion Hnd as [|? ? Hn Hd]; subst.
  cbn [gens_at flat_map fst snd]. fold (gens_at hs i). destruct Hin as [E|Hin].
  - inversion E; subst. rewrite Z.eqb_refl.
    assert (G : gens_at hs i = []).
    { clear IH Hd Hnd. induction hs as [|[i2 s2] hs IH2]; [reflexivity|].
      cbn [gens_at flat_map fst snd]. fold (gens_at hs i).
      destruct (i2 =? i) eqn:E2.
      - apply Z.eqb_eq in E2. subst. exfalso. apply Hn. left. reflexivity.
      - apply IH2. intros H. apply Hn. right. exact H. }
    rewrite G. apply app_nil_r.
  - destruct (i' =? i) eqn:E2.
    + apply Z.eqb_eq in E2. subst. exfalso. apply Hn. apply (in_map fst) in Hin. exact Hin.
    + apply IH; assumption.
Qed.

Lemma into_bigraded_homogeneous : forall hs i s j,
  NoDup (map fst hs) -> In (i, s) hs -> same_parity hs -> all_homogeneous s ->
  ib_get (i, j) (into_bigraded hs)
  = (length (filter (lives_in j) (si_free s)), map fst (filter (fun p => lives_in j (snd p)) (si_tors s))).
Proof.
  intros hs i s j Hnd Hin Hp Hh. rewrite (into_bigraded_cell_parity hs Hp), (gens_at_nodup hs i s Hnd Hin).
  apply regroup_homogeneous. exact Hh.
Qed.

(* ---------- the grid, in one statement ---------- *)
Lemma into_bigraded_keys : forall hs, map fst (into_bigraded hs) = ib_support (collect_gen_info hs).
Proof. intros hs. unfold into_bigraded. rewrite map_map. cbn [fst]. apply map_id. Qed.

Lemma into_bigraded_grid : forall hs,
  let t := collect_gen_info hs in
  (forall i j, In (i, j) (ib_support t) -> ib_get (i, j) (into_bigraded hs) = regroup chain_q_deg j (gens_at hs i)) /\
  (forall i j, ~ In (i, j) (ib_support t) -> ib_get (i, j) (into_bigraded hs) = zero_cell) /\
  (forall i j, In (i, j) (ib_support t) <->
     (fst (range_of (h_keys t)) <= i <= snd (range_of (h_keys t)) /\ (i - fst (range_of (h_keys t))) mod 1 = 0) /\
     (fst (range_of (q_keys t)) <= j <= snd (range_of (q_keys t)) /\ (j - fst (range_of (q_keys t))) mod 2 = 0)) /\
  NoDup (ib_support t) /\
  map fst (into_bigraded hs) = ib_support t.
Proof.
  intros hs t. split; [|split; [|split; [|split]]].
  - intros i j. apply into_bigraded_cell_on.
  - intros i j. apply into_bigraded_cell_off.
  - intros i j. rewrite ib_support_in, !zrange_in by lia. reflexivity.
  - apply ib_support_nodup.
  - apply into_bigraded_keys.
Qed.
