(* C20: what kh / ckh write to stdout, read back: exactly the non-zero groups at their (i, j). *)
From Coq Require Import ZArith NArith List Bool Arith Lia ZifyN ZifyBool ZifyNat Sorted.
Require Import Yui.Model.Table Yui.Proofs.C20Str Yui.Proofs.C20Layout Yui.Proofs.C20Table Yui.Proofs.C20Rmod.
Import ListNotations.

Definition is_zero_summand (m : summand) : Prop := s_rank m = 0%N /\ s_tors m = [].
Definition tors_one_line (m : summand) : Prop := Forall no_nl (s_tors m).
(* a coefficient ring symbol that can be printed in a table *)
Definition good_symbol (sym : str) : Prop := goodc sym /\ sym <> dot /\ sym <> [48%N].

Lemma lookup2_show : forall sym g i j,
  lookup2 (show_grid2 sym g) i j = option_map (rmod_str sym) (lookup2 g i j).
Proof.
  intros sym. induction g as [|[[i' j'] m] g IH]; intros i j; [reflexivity|].
  cbn [show_grid2 map fst snd lookup2]. destruct (Z.eqb i i' && Z.eqb j j'); [reflexivity|]. apply IH.
Qed.
Lemma rmod_zero : forall sym, rmod_str sym zero_summand = [48%N].
Proof. reflexivity. Qed.

Lemma show_cells_good : forall sym g, good_symbol sym -> (forall e, In e g -> tors_one_line (snd e)) ->
  forall i j s, lookup2 (show_grid2 sym g) i j = Some s -> goodc s /\ s <> dot.
Proof.
  intros sym g (Hg & Hd & _) Ht i j s H. rewrite lookup2_show in H.
  destruct (lookup2 g i j) as [m|] eqn:E; [|discriminate]. cbn in H. inversion H; subst.
  apply lookup2_In in E. specialize (Ht _ E). cbn [snd] in Ht. split.
  - now apply rmod_str_good.
  - apply rmod_str_not_dot; [apply Hg | exact Hd].
Qed.
Lemma zero_goodc : goodc [48%N].
Proof. split; [discriminate|]. split; [intros c [<-|[]]; discriminate | reflexivity]. Qed.

(* the cells a reader must find: every supported (i, j) whose group is not zero, with the printed group *)
Definition nonzero_cells (sym : str) (g : grid2) : list ((Z * Z) * str) :=
  expected_cells (show_grid2 sym g) [48%N].

Theorem nonzero_cells_spec : forall sym g i j s, good_symbol sym ->
  (In ((i, j), s) (nonzero_cells sym g) <->
   exists m, lookup2 g i j = Some m /\ ~ is_zero_summand m /\ s = rmod_str sym m).
Proof.
  intros sym g i j s (Hg & _ & Hz). unfold nonzero_cells. rewrite expected_cells_spec, lookup2_show.
  assert (Hne : sym <> []) by apply Hg.
  split.
  - intros [H Hs]. destruct (lookup2 g i j) as [m|]; [|discriminate]. cbn in H. inversion H; subst.
    exists m. repeat split; auto. intro Hm. apply Hs. now apply rmod_str_zero.
  - intros (m & Hl & Hm & ->). rewrite Hl. split; [reflexivity|]. intro E. apply Hm. now apply rmod_str_zero in E.
Qed.

Theorem kh_bigraded_roundtrip : forall sym g, good_symbol sym -> (forall e, In e g -> tors_one_line (snd e)) ->
  read_kh_bigraded (kh_stdout_bigraded sym g) = Some (nonzero_cells sym g).
Proof.
  intros sym g Hs Ht. change (kh_stdout_bigraded sym g) with (kh_text (show_grid2 sym g) [48%N]).
  apply read_kh_text; [now apply show_cells_good | apply zero_goodc].
Qed.
Theorem ckh_roundtrip : forall sym g, good_symbol sym -> (forall e, In e g -> tors_one_line (snd e)) ->
  read_ckh (ckh_stdout sym g) = Some (nonzero_cells sym g).
Proof.
  intros sym g Hs Ht. change (ckh_stdout sym g) with (ckh_text (show_grid2 sym g) [48%N]).
  apply read_ckh_text; [now apply show_cells_good | apply zero_goodc].
Qed.

(* columns ascending, rows descending, and the cell at row j, column i is the group at (i, j) or "." *)
Theorem display_table_shape : forall sym g,
  Sorted Z.lt (cols_of g) /\ Sorted Z.lt (rev (rows_of g)) /\
  (forall i, In i (cols_of g) <-> exists j m, In ((i, j), m) g) /\
  (forall j, In j (rows_of g) <-> exists i m, In ((i, j), m) g) /\
  display_table sym s_i s_j g =
    (title_ij :: map str_of_Z (cols_of g)) ::
    map (fun j => str_of_Z j ::
                  map (fun i => match lookup2 g i j with
                                | Some m => if str_eqb (rmod_str sym m) [48%N] then dot else rmod_str sym m
                                | None => dot
                                end) (cols_of g))
        (rows_of g).
Proof.
  intros sym g. unfold display_table.
  destruct (table_of_strs_shape s_i s_j (show_grid2 sym g) (rmod_str sym zero_summand)) as (H1 & H2 & H3 & H4 & H5).
  assert (Hc : cols_of (show_grid2 sym g) = cols_of g).
  { unfold cols_of, show_grid2. now rewrite map_map. }
  assert (Hr : rows_of (show_grid2 sym g) = rows_of g).
  { unfold rows_of, show_grid2. now rewrite map_map. }
  rewrite Hc, Hr in *. repeat split; auto.
  - intro H. apply H3 in H. destruct H as (j & s & H). unfold show_grid2 in H. apply in_map_iff in H.
    destruct H as ([[i' j'] m] & E & H). cbn in E. inversion E; subst. eauto.
  - intros (j & m & H). apply H3. exists j, (rmod_str sym m). unfold show_grid2. apply in_map_iff.
    exists ((i, j), m). auto.
  - intro H. apply H4 in H. destruct H as (i & s & H). unfold show_grid2 in H. apply in_map_iff in H.
    destruct H as ([[i' j'] m] & E & H). cbn in E. inversion E; subst. eauto.
  - intros (i & m & H). apply H4. exists i, (rmod_str sym m). unfold show_grid2. apply in_map_iff.
    exists ((i, j), m). auto.
  - rewrite H5. unfold title_ij. f_equal. apply map_ext. intro j. f_equal. apply map_ext. intro i.
    unfold getd. rewrite lookup2_show. destruct (lookup2 g i j); cbn [option_map]; [reflexivity|].
    now rewrite str_eqb_refl.
Qed.

(* ---------- the sequence display ---------- *)
Definition getm (g : grid1) (i : Z) : summand := match lookup1 g i with Some m => m | None => zero_summand end.
Definition seq_cells (sym : str) (g : grid1) : list (Z * str) :=
  map (fun i => (i, rmod_str sym (getm g i))) (map fst g).

Lemma lookup1_In : forall A (g : list (Z * A)) i a, lookup1 g i = Some a -> In (i, a) g.
Proof.
  induction g as [|[i' a'] g IH]; intros i a H; [discriminate|]. cbn [lookup1] in H.
  destruct (Z.eqb i i') eqn:E; [apply Z.eqb_eq in E; inversion H; subst; now left | right; now apply IH].
Qed.
Lemma seq_cell_good : forall sym g i, good_symbol sym -> (forall e, In e g -> tors_one_line (snd e)) ->
  goodc (rmod_str sym (getm g i)).
Proof.
  intros sym g i (Hg & _) Ht. apply rmod_str_good; [exact Hg|]. unfold getm.
  destruct (lookup1 g i) as [m|] eqn:E; [|constructor]. apply lookup1_In in E. apply (Ht _ E).
Qed.

Theorem kh_seq_roundtrip : forall sym g, good_symbol sym -> g <> [] -> (forall e, In e g -> tors_one_line (snd e)) ->
  read_kh_seq (kh_stdout_seq sym g) = Some (seq_cells sym g).
Proof.
  intros sym g Hs Hne Ht. unfold read_kh_seq, kh_stdout_seq. rewrite strip_final_nl_app. cbn [obind].
  set (sup := map fst g). assert (Hsup : sup <> []) by (unfold sup; destruct g; [congruence | discriminate]).
  set (show := fun i => rmod_str sym (getm g i)).
  assert (Ht' : display_seq sym s_i g = [s_i :: map str_of_Z sup; [] :: map show sup]) by reflexivity.
  assert (Hshow : forall i, goodc (show i)) by (intro i; now apply seq_cell_good).
  assert (Hwf : wf_table (display_seq sym s_i g)).
  { rewrite Ht'. unfold wf_table. split; [discriminate|]. split.
    - constructor.
      + split; [discriminate|]. intros c [<-|[]]. split; [discriminate | reflexivity].
      + apply Forall_forall. intros c Hc. apply in_map_iff in Hc. destruct Hc as (z & <- & _). apply str_of_Z_okh.
    - constructor; [|constructor]. split; [cbn [length]; now rewrite !map_length|].
      constructor; [split; [intros c []|reflexivity]|]. apply Forall_forall. intros c Hc.
      apply in_map_iff in Hc. destruct Hc as (i & <- & _). apply goodc_okc, Hshow. }
  assert (Hvis : visible_ends (display_seq sym s_i g)).
  { rewrite Ht'. unfold visible_ends. cbn [hd]. split; [discriminate|]. split; [reflexivity|].
    change (last [s_i :: map str_of_Z sup; [] :: map show sup] []) with ([] :: map show sup).
    assert (Hm : map show sup <> []) by (destruct sup; [congruence | discriminate]).
    rewrite last_cons_nonempty by exact Hm.
    apply goodc_last. pose proof (last_In _ (map show sup) [] Hm) as Hin. apply in_map_iff in Hin.
    destruct Hin as (i & Ei & _). pose proof (Hshow i) as Hgi. rewrite Ei in Hgi. exact Hgi. }
  rewrite untrim_kh_layout, parse_layout_layout by assumption. cbn [obind]. rewrite Ht'.
  unfold read_seq. rewrite all_some_ints. rewrite !map_length, Nat.eqb_refl.
  rewrite combine_map_r. reflexivity.
Qed.
