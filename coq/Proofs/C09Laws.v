(* C09 - the hypotheses [snf_laws] hold for the ring dictionaries of Model/Snf.v:
   Z (i64 / i128 / BigInt), and - through a generic proof about EucRing::gcdx (generic_gcdx) -
   every field dictionary (Q, F_2) and the quadratic integers Z[i], Z[omega].
   Also: the fuel of the integer extended gcd is sufficient (Z_gcdx never returns None). *)
From Coq Require Import ZArith List Bool Arith Lia Ring QArith Qcanon.
Require Import Yui.Base.Ring Yui.Base.MatF Yui.Base.MatL Yui.Model.Snf Yui.Proofs.C09Inv.
Import ListNotations.
Close Scope Qc_scope.
Close Scope Q_scope.

(* =====================================================================================
   Z
   ===================================================================================== *)
Section ZLaws.
  Open Scope Z_scope.

  (* Bezout coefficients and "every common divisor of the state divides x and y" *)
  Lemma Z_egcd_loop_spec x y fuel : forall r0 r1 s0 s1 t0 t1 g s t,
    r0 = s0 * x + t0 * y -> r1 = s1 * x + t1 * y ->
    (forall c, (c | r0) -> (c | r1) -> (c | x) /\ (c | y)) ->
    Z_egcd_loop fuel r0 r1 s0 s1 t0 t1 = Some (g, s, t) ->
    g = s * x + t * y /\ (g | x) /\ (g | y).
  Proof.
    induction fuel as [|f IH]; intros r0 r1 s0 s1 t0 t1 g s t H0 H1 HD H; cbn [Z_egcd_loop] in H; [discriminate|].
    destruct (Z.eqb_spec r0 0) as [E|E].
    - injection H as <- <- <-. split; [exact H1|]. apply HD; [rewrite E; apply Z.divide_0_r|apply Z.divide_refl].
    - apply IH in H; [exact H| | |].
      + rewrite H0, H1. ring.
      + exact H0.
      + intros c C1 C2. apply HD; [exact C2|].
        replace r1 with ((r1 - Z.quot r1 r0 * r0) + Z.quot r1 r0 * r0) by ring.
        apply Z.divide_add_r; [exact C1|]. now apply Z.divide_mul_r.
  Qed.

  Lemma Z_gcdx_spec x y d s t :
    Z_gcdx x y = Some (d, s, t) -> d = s * x + t * y /\ (d | x) /\ (d | y) /\ 0 <= d.
  Proof.
    unfold Z_gcdx. destruct (Z_egcd_loop _ y x 0 1 1 0) as [[[g s'] t']|] eqn:E; [|discriminate].
    apply (Z_egcd_loop_spec x y) in E; [|ring|ring|tauto]. destruct E as (E1 & E2 & E3).
    destruct (Z.leb_spec 0 g) as [Hg|Hg]; intros H; injection H as <- <- <-.
    - repeat split; assumption.
    - repeat split; [rewrite E1; ring|now apply Z.divide_opp_l|now apply Z.divide_opp_l|lia].
  Qed.

  (* ----- the fuel of the integer extended gcd suffices ----- *)
  Lemma log2_half a b : 0 < a -> 2 * a <= b -> Z.log2 a + 1 <= Z.log2 b.
  Proof.
    intros Ha H. pose proof (Z.log2_double a Ha) as E.
    assert (Z.log2 (2 * a) <= Z.log2 b) by (apply Z.log2_le_mono; lia). lia.
  Qed.

  Lemma Z_egcd_loop_total fuel : forall r0 r1 s0 s1 t0 t1,
    Z.abs r0 <= Z.abs r1 ->
    (Z.to_nat (Z.log2 (Z.abs r0) + Z.log2 (Z.abs r1)) + 2 <= fuel)%nat ->
    exists res, Z_egcd_loop fuel r0 r1 s0 s1 t0 t1 = Some res.
  Proof.
    induction fuel as [|f IH]; intros r0 r1 s0 s1 t0 t1 Hle Hf; [lia|].
    cbn [Z_egcd_loop]. destruct (Z.eqb_spec r0 0) as [E|E]; [eexists; reflexivity|].
    replace (r1 - Z.quot r1 r0 * r0) with (Z.rem r1 r0) by (rewrite (Z.quot_rem' r1 r0) at 2; ring).
    pose proof (Z.rem_bound_abs r1 r0 E) as Hb.
    pose proof (Z.log2_nonneg (Z.abs r0)) as L0. pose proof (Z.log2_nonneg (Z.abs r1)) as L1.
    destruct (Z.eq_dec (Z.rem r1 r0) 0) as [Er|Er].
    - rewrite Er. destruct f as [|f]; [lia|]. cbn [Z_egcd_loop Z.eqb]. eexists; reflexivity.
    - apply IH; [lia|].
      (* |rem| <= |r1| - |r0| and |rem| < |r0|, hence 2|rem| <= |r1| *)
      assert (H2 : 2 * Z.abs (Z.rem r1 r0) <= Z.abs r1).
      { pose proof (Z.quot_rem' r1 r0) as Q.
        pose proof (Z.rem_sign_nz r1 r0 E Er) as Sg.
        assert (Hq : Z.quot r1 r0 <> 0).
        { intros Q0. rewrite Q0 in Q. assert (Z.rem r1 r0 = r1) by lia. lia. }
        (* |r1| = |r0| * |q| + |rem| with |q| >= 1 *)
        assert (Habs : Z.abs r1 = Z.abs r0 * Z.abs (Z.quot r1 r0) + Z.abs (Z.rem r1 r0)).
        { pose proof (Z.quot_rem' (Z.abs r1) (Z.abs r0)) as Q'.
          rewrite Z.quot_abs, Z.rem_abs in Q' by lia. exact Q'. }
        assert (1 <= Z.abs (Z.quot r1 r0)) by lia. nia. }
      pose proof (log2_half (Z.abs (Z.rem r1 r0)) (Z.abs r1) ltac:(lia) H2) as H3.
      pose proof (Z.log2_nonneg (Z.abs (Z.rem r1 r0))) as L2.
      lia.
  Qed.

  Lemma Z_gcdx_total x y : exists res, Z_gcdx x y = Some res.
  Proof.
    unfold Z_gcdx, Z_egcd_fuel.
    set (fuel := (Z.to_nat (2 * Z.log2 (Z.abs x) + 2 * Z.log2 (Z.abs y)) + 5)%nat).
    pose proof (Z.log2_nonneg (Z.abs x)) as Lx. pose proof (Z.log2_nonneg (Z.abs y)) as Ly.
    assert (Hex : exists res, Z_egcd_loop fuel y x 0 1 1 0 = Some res).
    { destruct fuel as [|f] eqn:Ef; [unfold fuel in Ef; lia|]. cbn [Z_egcd_loop].
      destruct (Z.eqb_spec y 0) as [E|E]; [eexists; reflexivity|].
      replace (x - Z.quot x y * y) with (Z.rem x y) by (rewrite (Z.quot_rem' x y) at 2; ring).
      pose proof (Z.rem_bound_abs x y E) as Hb.
      apply Z_egcd_loop_total; [lia|].
      assert (Z.log2 (Z.abs (Z.rem x y)) <= Z.log2 (Z.abs y)) by (apply Z.log2_le_mono; lia).
      unfold fuel in Ef. lia. }
    destruct Hex as [[[g s] t] ->]. destruct (0 <=? g); eexists; reflexivity.
  Qed.

  Lemma Z_is_unit_iff a : Z_is_unit a = true <-> a = 1 \/ a = -1.
  Proof. unfold Z_is_unit. rewrite orb_true_iff, !Z.eqb_eq. lia. Qed.

  Theorem Zpre_snf_laws pre : snf_laws (Zpre_dict pre).
  Proof.
    constructor; cbn [Zpre_dict ed_ring ed_unit ed_euc ed_gcdx Z_ring Z_units Z_euc rinv rnunit rdiv rrem rmul radd rzero rone].
    - exact Z_ring_laws.
    - exact Z_integral.
    - intros a b. destruct (Z_is_unit a) eqn:U; [|discriminate]. intros H. injection H as <-.
      apply Z_is_unit_iff in U. destruct U as [-> | ->]; reflexivity.
    - intros a. destruct (Z.ltb_spec a 0); eexists; reflexivity.
    - intros a. destruct (Z.ltb_spec a 0) as [Ha|Ha].
      + destruct (Z.ltb_spec (a * -1) 0); [lia|reflexivity].
      + destruct (Z.ltb_spec (a * 1) 0); [lia|reflexivity].
    - intros a d Hd. now apply Z.quot_mul.
    - intros a b Hb H. exists (Z.quot a b). rewrite (Z.quot_rem' a b) at 1. rewrite H. ring.
    - intros x y d s t H. apply Z_gcdx_spec in H. destruct H as (H1 & [a Ha] & [b Hb] & _).
      split; [exact H1|]. split; [now exists a|now exists b].
  Qed.

  Corollary Z_snf_laws : snf_laws Z_dict.
  Proof. apply Zpre_snf_laws. Qed.
End ZLaws.

(* =====================================================================================
   The generic EucRing::gcdx (yui/src/abst/euc_ring.rs), for every fuel
   ===================================================================================== *)
Section GenericGcdx.
  Context {R : Type} (o : ring_ops R) (L : ring_laws o) (u : unit_ops R) (e : euc_ops R).
  Add Ring RringG : (ring_theory_of_laws o L).
  Local Notation "0" := (rzero o).
  Local Notation "1" := (rone o).
  Local Infix "+" := (radd o).
  Local Infix "*" := (rmul o).
  Local Notation "- x" := (rneg o x).

  Hypothesis Hdivrem : forall a b, b <> 0 -> a = rdiv e a b * b + rrem e a b.
  Hypothesis Hnu : forall a, exists vi, rnunit u a * vi = 1.

  Definition dvd (d x : R) : Prop := exists a, x = a * d.

  Lemma gz_true a : ris_zero o a = true <-> a = 0.
  Proof. unfold ris_zero. apply (reqb_eq o L). Qed.
  Lemma gz_false a : ris_zero o a = false <-> a <> 0.
  Proof. unfold ris_zero. apply (reqb_false o L). Qed.

  Lemma gcdx_loop_spec X Y fuel : forall x y s0 s1 t0 t1 d s t,
    x = s0 * X + t0 * Y -> y = s1 * X + t1 * Y ->
    (forall c, dvd c x -> dvd c y -> dvd c X /\ dvd c Y) ->
    gcdx_loop o e fuel x y s0 s1 t0 t1 = Some (d, s, t) ->
    d = s * X + t * Y /\ dvd d X /\ dvd d Y.
  Proof.
    induction fuel as [|f IH]; intros x y s0 s1 t0 t1 d s t Hx Hy HD H; cbn [gcdx_loop] in H; [discriminate|].
    destruct (ris_zero o y) eqn:Z.
    - apply gz_true in Z. injection H as <- <- <-. split; [exact Hx|].
      apply HD; [exists 1; ring|exists 0; rewrite Z; ring].
    - apply gz_false in Z. cbv zeta in H.
      pose proof (Hdivrem x y Z) as E.
      set (q := rdiv e x y) in *. set (r := rrem e x y) in *. clearbody q r.
      assert (Hr : r = x + - (q * y)) by (rewrite E; ring).
      apply IH in H; [exact H|exact Hy| |].
      + unfold rsub. rewrite Hr, Hx, Hy. ring.
      + intros c [a Ha] [b Hb]. apply HD; [|now exists a].
        exists (q * a + b). rewrite E, Ha, Hb. ring.
  Qed.

  Theorem generic_gcdx_spec fuel x y d s t :
    generic_gcdx o u e fuel x y = Some (d, s, t) ->
    d = s * x + t * y /\ (exists a, x = a * d) /\ (exists b, y = b * d).
  Proof.
    unfold generic_gcdx.
    destruct (ris_zero o x && ris_zero o y) eqn:Z0.
    { apply andb_true_iff in Z0. destruct Z0 as [Zx Zy]. apply gz_true in Zx, Zy.
      intros H. injection H as <- <- <-. split; [ring|]. split; exists 0; [rewrite Zx|rewrite Zy]; ring. }
    destruct (divides o e x y) eqn:D1.
    { unfold divides in D1. apply andb_true_iff in D1. destruct D1 as [Nx Ry].
      apply negb_true_iff, gz_false in Nx. apply gz_true in Ry.
      cbv zeta. intros H. injection H as <- <- <-.
      destruct (Hnu x) as [vi Hvi]. pose proof (Hdivrem y x Nx) as E. rewrite Ry in E.
      split; [ring|]. split.
      - exists vi. transitivity (x * (rnunit u x * vi)); [rewrite Hvi|]; ring.
      - exists (rdiv e y x * vi). rewrite E at 1.
        transitivity (rdiv e y x * x * (rnunit u x * vi)); [rewrite Hvi|]; ring. }
    destruct (divides o e y x) eqn:D2.
    { unfold divides in D2. apply andb_true_iff in D2. destruct D2 as [Ny Rx].
      apply negb_true_iff, gz_false in Ny. apply gz_true in Rx.
      cbv zeta. intros H. injection H as <- <- <-.
      destruct (Hnu y) as [vi Hvi]. pose proof (Hdivrem x y Ny) as E. rewrite Rx in E.
      split; [ring|]. split.
      - exists (rdiv e x y * vi). rewrite E at 1.
        transitivity (rdiv e x y * y * (rnunit u y * vi)); [rewrite Hvi|]; ring.
      - exists vi. transitivity (y * (rnunit u y * vi)); [rewrite Hvi|]; ring. }
    destruct (gcdx_loop o e (fuel x y) x y 1 0 0 1) as [[[d0 s0] t0]|] eqn:G; [|discriminate].
    apply (gcdx_loop_spec x y) in G; [|ring|ring|tauto].
    destruct G as (G1 & [a Ha] & [b Hb]). cbv zeta.
    destruct (ris_one o (rnunit u d0)); intros H; injection H as <- <- <-.
    - split; [exact G1|]. split; [now exists a|now exists b].
    - destruct (Hnu d0) as [vi Hvi]. split; [rewrite G1; ring|]. split.
      + exists (a * vi). rewrite Ha at 1.
        transitivity (a * d0 * (rnunit u d0 * vi)); [rewrite Hvi|]; ring.
      + exists (b * vi). rewrite Hb at 1.
        transitivity (b * d0 * (rnunit u d0 * vi)); [rewrite Hvi|]; ring.
  Qed.
End GenericGcdx.

(* =====================================================================================
   Fields
   ===================================================================================== *)
Section FieldLaws.
  Context {F : Type} (o : ring_ops F) (finv : F -> F) (L : ring_laws o).
  Add Ring RringF : (ring_theory_of_laws o L).
  Local Notation "0" := (rzero o).
  Local Notation "1" := (rone o).
  Local Infix "+" := (radd o).
  Local Infix "*" := (rmul o).
  Hypothesis one_neq_zero : 1 <> 0.
  Hypothesis finv_r : forall a, a <> 0 -> a * finv a = 1.

  Lemma field_integral : integral o.
  Proof.
    split; [exact one_neq_zero|]. intros a b H.
    destruct (reqb_spec o L a 0) as [E|E]; [now left|right].
    transitivity (finv a * a * b); [rewrite (rmul_comm o L (finv a) a), (finv_r a E); ring|].
    transitivity (finv a * (a * b)); [ring|]. rewrite H. ring.
  Qed.

  Lemma finv_neq_0 a : a <> 0 -> finv a <> 0.
  Proof. intros Ha E. apply one_neq_zero. rewrite <- (finv_r a Ha), E. ring. Qed.

  Lemma finv_one : finv 1 = 1.
  Proof. transitivity (1 * finv 1); [ring|]. now apply finv_r. Qed.

  Lemma fz_true a : ris_zero o a = true <-> a = 0.
  Proof. unfold ris_zero. apply (reqb_eq o L). Qed.
  Lemma fz_false a : ris_zero o a = false <-> a <> 0.
  Proof. unfold ris_zero. apply (reqb_false o L). Qed.

  Theorem field_snf_laws : snf_laws (field_dict o finv).
  Proof.
    constructor; cbn [field_dict ed_ring ed_unit ed_euc ed_gcdx field_units field_euc rinv rnunit rdiv rrem].
    - exact L.
    - exact field_integral.
    - intros a b. destruct (ris_zero o a) eqn:Z; [discriminate|]. apply fz_false in Z.
      intros H. injection H as <-. now apply finv_r.
    - intros a. destruct (ris_zero o a) eqn:Z.
      + destruct (ris_zero o 1) eqn:Z1; [apply fz_true in Z1; contradiction|]. eexists; reflexivity.
      + apply fz_false in Z. destruct (ris_zero o (finv a)) eqn:Z1; [|eexists; reflexivity].
        apply fz_true in Z1. exfalso. now apply (finv_neq_0 a).
    - intros a. destruct (ris_zero o a) eqn:Z.
      + apply fz_true in Z. subst a. replace (0 * 1) with 0 by ring.
        destruct (ris_zero o 0) eqn:Z1; [reflexivity|]. apply fz_false in Z1. contradiction.
      + apply fz_false in Z. rewrite (finv_r a Z).
        destruct (ris_zero o 1) eqn:Z1; [reflexivity|]. apply finv_one.
    - intros a d Hd. transitivity (a * (d * finv d)); [ring|]. rewrite (finv_r d Hd). ring.
    - intros a b Hb _. exists (a * finv b). transitivity (a * (b * finv b)); [rewrite (finv_r b Hb)|]; ring.
    - intros x y d s t H. apply (generic_gcdx_spec o L) in H; [exact H| |].
      + intros a b Hb. cbn [field_euc rdiv rrem].
        transitivity (a * (b * finv b)); [rewrite (finv_r b Hb)|]; ring.
      + intros a. cbn [field_units rnunit]. destruct (ris_zero o a) eqn:Z.
        * exists 1. ring.
        * apply fz_false in Z. exists a. rewrite (rmul_comm o L). now apply finv_r.
  Qed.
End FieldLaws.

(* ---------- Q ---------- *)
Lemma Q_ring_laws : ring_laws Q_ring.
Proof.
  constructor; cbn [Q_ring radd rneg rmul rzero rone reqb]; intros.
  - apply Qcplus_comm.
  - apply Qcplus_assoc.
  - apply Qcplus_0_l.
  - apply Qcplus_opp_r.
  - apply Qcmult_comm.
  - apply Qcmult_assoc.
  - apply Qcmult_1_l.
  - apply Qcmult_plus_distr_l.
  - split; [apply Qc_eq_bool_correct|]. intros ->. unfold Qc_eq_bool. now destruct (Qc_eq_dec b b).
Qed.

Theorem Q_snf_laws : snf_laws Q_dict.
Proof.
  apply (field_snf_laws Q_ring Qcinv Q_ring_laws).
  - cbn. intros H. apply (f_equal this) in H. discriminate H.
  - intros a Ha. cbn. now apply Qcmult_inv_r.
Qed.

(* ---------- F_2 ---------- *)
Lemma F2_ring_laws : ring_laws F2_ring.
Proof.
  constructor; cbn [F2_ring radd rneg rmul rzero rone reqb];
    try (intros; repeat match goal with b : bool |- _ => destruct b end; reflexivity).
  intros a b. destruct a, b; cbn; split; congruence.
Qed.

Theorem F2_snf_laws : snf_laws F2_dict.
Proof.
  apply (field_snf_laws F2_ring (fun a => a) F2_ring_laws).
  - discriminate.
  - intros a Ha. destruct a; [reflexivity|]. exfalso. now apply Ha.
Qed.

(* =====================================================================================
   Quadratic integers Z[omega], omega^2 = t*omega + e :  Z[i] (0, -1) and Z[omega] (1, -1)
   ===================================================================================== *)
Section QuadLaws.
  Open Scope Z_scope.
  Variables t e : Z.
  Variable eisen : bool.
  Local Notation qmul := (q_mul t e).
  Local Notation qring := (q_ring t e).

  Lemma quad_eq (x y : quad) : fst x = fst y -> snd x = snd y -> x = y.
  Proof. destruct x, y; cbn; intros -> ->; reflexivity. Qed.

  Lemma q_ring_laws : ring_laws qring.
  Proof.
    constructor; cbn [q_ring radd rneg rmul rzero rone reqb];
      try (intros; apply quad_eq; unfold q_add, q_neg, q_mul; cbn [fst snd]; ring).
    intros a b. unfold q_eqb. rewrite andb_true_iff, !Z.eqb_eq. split.
    - intros [H1 H2]. now apply quad_eq.
    - intros ->. split; reflexivity.
  Qed.

  Lemma q_norm_mul x y : q_norm t e (qmul x y) = q_norm t e x * q_norm t e y.
  Proof. unfold q_norm, q_mul. cbn [fst snd]. ring. Qed.

  Lemma q_mul_conj x : qmul x (q_conj t x) = (q_norm t e x, 0).
  Proof. apply quad_eq; unfold q_mul, q_conj, q_norm; cbn [fst snd]; ring. Qed.

  Hypothesis norm_zero : forall x, q_norm t e x = 0 -> x = (0, 0).

  Lemma q_integral : integral qring.
  Proof.
    split; [cbn; discriminate|]. cbn [q_ring rmul rzero]. intros a b H.
    assert (N : q_norm t e a * q_norm t e b = 0).
    { rewrite <- q_norm_mul, H. unfold q_norm. cbn. ring. }
    apply Z.mul_eq_0 in N. destruct N as [N|N]; [left|right]; now apply norm_zero.
  Qed.

  Lemma q_inv_spec a b : q_inv t e a = Some b -> qmul a b = (1, 0).
  Proof.
    unfold q_inv. destruct (Z_is_unit (q_norm t e a)) eqn:U; [|discriminate].
    intros H. injection H as <-. apply Z_is_unit_iff in U.
    transitivity (qmul (q_norm t e a, 0) (qmul a (q_conj t a))).
    { apply quad_eq; unfold q_mul; cbn [fst snd]; ring. }
    rewrite q_mul_conj. apply quad_eq; unfold q_mul; cbn [fst snd]; destruct U as [-> | ->]; ring.
  Qed.

  Lemma Z_div_round_mul k nm : nm <> 0 -> Z_div_round (k * nm) nm = k.
  Proof.
    intros H. unfold Z_div_round. rewrite Z.rem_mul by exact H. cbn [Z.eqb]. now apply Z.quot_mul.
  Qed.

  Lemma q_div_exact a d : d <> (0, 0) -> q_div t e eisen (qmul a d) d = a.
  Proof.
    intros Hd. unfold q_div.
    assert (Hn : q_norm t e d <> 0) by (intros E; now apply Hd, norm_zero).
    assert (W : qmul (qmul a d) (q_conj t d) = (fst a * q_norm t e d, snd a * q_norm t e d)).
    { transitivity (qmul a (qmul d (q_conj t d))).
      - apply quad_eq; unfold q_mul; cbn [fst snd]; ring.
      - rewrite q_mul_conj. apply quad_eq; unfold q_mul; cbn [fst snd]; ring. }
    rewrite W. cbn [fst snd]. destruct eisen.
    - replace (fst a * q_norm t e d + snd a * q_norm t e d) with ((fst a + snd a) * q_norm t e d) by ring.
      rewrite !Z_div_round_mul by exact Hn. apply quad_eq; cbn [fst snd]; ring.
    - rewrite !Z_div_round_mul by exact Hn. now destruct a.
  Qed.
End QuadLaws.

Section QuadInst.
  Open Scope Z_scope.

  Lemma gauss_norm_zero x : q_norm 0 (-1) x = 0 -> x = (0, 0).
  Proof. destruct x as [a b]. unfold q_norm. cbn [fst snd]. intros H. f_equal; nia. Qed.

  Lemma eisen_norm_zero x : q_norm 1 (-1) x = 0 -> x = (0, 0).
  Proof. destruct x as [a b]. unfold q_norm. cbn [fst snd]. intros H. f_equal; nia. Qed.

  Ltac ltb_cases :=
    repeat (match goal with |- context [Z.ltb ?x ?y] => destruct (Z.ltb_spec x y) end; cbn [andb negb]).

  (* a normalised element (or zero) has normalizing unit 1 *)
  Lemma gauss_nunit_sector y : (0 < fst y /\ 0 <= snd y) \/ y = (0, 0) -> q_nunit false y = (1, 0).
  Proof.
    destruct y as [a b]. cbn [fst snd]. intros [[H1 H2]|E]; [|injection E as -> ->; reflexivity].
    unfold q_nunit. cbn [fst snd]. ltb_cases; try reflexivity; lia.
  Qed.
  Lemma eisen_nunit_sector y : (0 < fst y /\ 0 <= snd y) \/ y = (0, 0) -> q_nunit true y = (1, 0).
  Proof.
    destruct y as [a b]. cbn [fst snd]. intros [[H1 H2]|E]; [|injection E as -> ->; reflexivity].
    unfold q_nunit. cbn [fst snd]. ltb_cases; try reflexivity; lia.
  Qed.

  Lemma gauss_nunit_idem a : q_nunit false (q_mul 0 (-1) a (q_nunit false a)) = (1, 0).
  Proof.
    apply gauss_nunit_sector. destruct a as [x y]. unfold q_nunit. cbn [fst snd].
    ltb_cases; unfold q_mul; cbn [fst snd];
      first [left; split; lia | right; f_equal; lia].
  Qed.
  Lemma eisen_nunit_idem a : q_nunit true (q_mul 1 (-1) a (q_nunit true a)) = (1, 0).
  Proof.
    apply eisen_nunit_sector. destruct a as [x y]. unfold q_nunit. cbn [fst snd].
    ltb_cases; unfold q_mul; cbn [fst snd];
      first [left; split; lia | right; f_equal; lia].
  Qed.

  Lemma gauss_nunit_inv a : exists v, q_inv 0 (-1) (q_nunit false a) = Some v.
  Proof.
    destruct a as [x y]. unfold q_nunit. cbn [fst snd]. ltb_cases; eexists; vm_compute; reflexivity.
  Qed.
  Lemma eisen_nunit_inv a : exists v, q_inv 1 (-1) (q_nunit true a) = Some v.
  Proof.
    destruct a as [x y]. unfold q_nunit. cbn [fst snd]. ltb_cases; eexists; vm_compute; reflexivity.
  Qed.

  Lemma quad_snf_laws t e eisen pre :
    (forall x, q_norm t e x = 0 -> x = (0, 0)) ->
    (forall a, exists v, q_inv t e (q_nunit eisen a) = Some v) ->
    (forall a, q_nunit eisen (q_mul t e a (q_nunit eisen a)) = (1, 0)) ->
    snf_laws (quad_dict t e eisen pre).
  Proof.
    intros Hnz Hninv Hidem.
    pose proof (q_ring_laws t e) as L.
    assert (Hdr : forall a b : quad, b <> rzero (q_ring t e) ->
              a = radd (q_ring t e) (rmul (q_ring t e) (q_div t e eisen a b) b) (q_rem t e eisen a b)).
    { intros a b _. unfold q_rem. cbn [q_ring radd rmul].
      apply quad_eq; unfold q_add, q_neg, q_mul; cbn [fst snd]; ring. }
    constructor; cbn [quad_dict ed_ring ed_unit ed_euc ed_gcdx q_units q_euc rinv rnunit rdiv rrem].
    - exact L.
    - now apply q_integral.
    - intros a b H. now apply q_inv_spec.
    - exact Hninv.
    - exact Hidem.
    - intros a d Hd. now apply q_div_exact.
    - intros a b Hb H. exists (q_div t e eisen a b). unfold q_rem in H. cbn [q_ring rmul rzero] in *.
      injection H as H1 H2. unfold q_mul, q_neg in *. cbn [fst snd] in *.
      apply quad_eq; unfold q_mul; cbn [fst snd]; lia.
    - intros x y d s t0 H. apply (generic_gcdx_spec (q_ring t e) L) in H; [exact H|exact Hdr|].
      intros a. cbn [q_units rnunit]. destruct (Hninv a) as [v Hv]. exists v.
      apply q_inv_spec in Hv. exact Hv.
  Qed.

  Theorem gauss_snf_laws pre : snf_laws (gausspre_dict pre).
  Proof.
    apply quad_snf_laws; [exact gauss_norm_zero|exact gauss_nunit_inv|exact gauss_nunit_idem].
  Qed.

  Theorem eisen_snf_laws pre : snf_laws (eisenpre_dict pre).
  Proof.
    apply quad_snf_laws; [exact eisen_norm_zero|exact eisen_nunit_inv|exact eisen_nunit_idem].
  Qed.
End QuadInst.

(* =====================================================================================
   F_p = FF<p>, p prime
   ===================================================================================== *)
Section FpLaws.
  Open Scope Z_scope.
  Variable p : Z.
  Hypothesis Hp : Znumtheory.prime p.

  Lemma p_gt_1 : 1 < p.
  Proof. now destruct Hp. Qed.

  Lemma fp_eq (a b : fp p) : fp_val a = fp_val b -> a = b.
  Proof.
    destruct a as [va ca], b as [vb cb]. cbn [fp_val]. intros E. subst vb.
    f_equal. apply Eqdep_dec.UIP_dec. apply Z.eq_dec.
  Qed.

  Lemma fp_val_mk x : fp_val (fp_mk p x) = x mod p.
  Proof. reflexivity. Qed.

  Lemma fp_val_mod (a : fp p) : fp_val a mod p = fp_val a.
  Proof. now destruct a. Qed.

  Lemma fp_val_bound (a : fp p) : 0 <= fp_val a < p.
  Proof. rewrite <- fp_val_mod. apply Z.mod_pos_bound. pose proof p_gt_1. lia. Qed.

  Lemma fp_ring_laws : ring_laws (fp_ring p).
  Proof.
    pose proof p_gt_1 as P1.
    constructor; cbn [fp_ring radd rneg rmul rzero rone reqb]; intros.
    - apply fp_eq. rewrite !fp_val_mk. f_equal. ring.
    - apply fp_eq. rewrite !fp_val_mk. rewrite Zplus_mod_idemp_r, Zplus_mod_idemp_l. f_equal. ring.
    - apply fp_eq. rewrite !fp_val_mk. rewrite Zmod_0_l. cbn [Z.add]. apply fp_val_mod.
    - apply fp_eq. rewrite !fp_val_mk. rewrite Zplus_mod_idemp_r. f_equal. ring.
    - apply fp_eq. rewrite !fp_val_mk. f_equal. ring.
    - apply fp_eq. rewrite !fp_val_mk. rewrite Zmult_mod_idemp_r, Zmult_mod_idemp_l. f_equal. ring.
    - apply fp_eq. rewrite !fp_val_mk. rewrite Zmult_mod_idemp_l. rewrite Z.mul_1_l. apply fp_val_mod.
    - apply fp_eq. rewrite !fp_val_mk. rewrite Zmult_mod_idemp_l.
      rewrite <- Zplus_mod. f_equal. ring.
    - rewrite Z.eqb_eq. split; [apply fp_eq|now intros ->].
  Qed.

  Lemma fp_one_neq_zero : rone (fp_ring p) <> rzero (fp_ring p).
  Proof.
    pose proof p_gt_1 as P1. cbn. intros H. apply (f_equal fp_val) in H. rewrite !fp_val_mk in H.
    rewrite Zmod_0_l, Z.mod_1_l in H by lia. discriminate.
  Qed.

  Lemma fp_inv_r (a : fp p) : a <> rzero (fp_ring p) -> rmul (fp_ring p) a (fp_inv p a) = rone (fp_ring p).
  Proof.
    pose proof p_gt_1 as P1. intros Ha. cbn [fp_ring rmul rone]. unfold fp_inv.
    destruct (Z_gcdx_total (fp_val a) p) as [[[g x] y] G]. rewrite G.
    apply Z_gcdx_spec in G. destruct G as (Hb & Hda & Hdp & Hg).
    pose proof (fp_val_bound a) as Ba.
    assert (Hva : fp_val a <> 0).
    { intros E. apply Ha. apply fp_eq. cbn [fp_ring rzero]. rewrite fp_val_mk, Zmod_0_l. exact E. }
    assert (Hg1 : g = 1).
    { destruct (Znumtheory.prime_divisors p Hp g Hdp) as [E|[E|[E|E]]]; try lia.
      subst g. exfalso. apply Z.divide_pos_le in Hda; lia. }
    apply fp_eq. rewrite !fp_val_mk. rewrite Zmult_mod_idemp_r.
    replace (fp_val a * x) with (1 + (- y) * p) by lia.
    now rewrite Z_mod_plus_full.
  Qed.

  Theorem fp_snf_laws : snf_laws (fp_dict p).
  Proof.
    apply (field_snf_laws (fp_ring p) (fp_inv p) fp_ring_laws fp_one_neq_zero fp_inv_r).
  Qed.
End FpLaws.
