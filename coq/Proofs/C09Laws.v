(* C09 - the hypotheses [snf_laws] hold for the ring dictionaries of Model/Snf.v:
   Z (i64 / i128 / BigInt), and - through a generic proof about EucRing::gcdx (generic_gcdx) -
   every field dictionary (Q, F_2) and the quadratic integers Z[i], Z[omega].
   Also: the fuel of the integer extended gcd is sufficient (Z_gcdx never returns None). *)
From Coq Require Import ZArith List Bool Arith Lia Ring QArith Qcanon.
Require Import Yui.Base.Ring Yui.Base.MatF Yui.Base.MatL Yui.Model.Snf Yui.Proofs.C09Inv.
Import ListNotations.
Close Scope Qc_scope.
Close Scope Q_scope.

(* =====================================================================================
   Z
   ===================================================================================== *)
Section ZLaws.
  Open Scope Z_scope.

  (* Bezout coefficients and "every common divisor of the state divides x and y" *)
  Lemma Z_egcd_loop_spec x y fuel : forall r0 r1 s0 s1 t0 t1 g s t,
    r0 = s0 * x + t0 * y -> r1 = s1 * x + t1 * y ->
    (forall c, (c | r0) -> (c | r1) -> (c | x) /\ (c | y)) ->
    Z_egcd_loop fuel r0 r1 s0 s1 t0 t1 = Some (g, s, t) ->
    g = s * x + t * y /\ (g | x) /\ (g | y).
  Proof.
    induction fuel as [|f IH]; intros r0 r1 s0 s1 t0 t1 g s t H0 H1 HD H; cbn [Z_egcd_loop] in H; [discriminate|].
    destruct (Z.eqb_spec r0 0) as [E|E].
    - injection H as <- <- <-. split; [exact H1|]. apply HD; [rewrite E; apply Z.divide_0_r|apply Z.divide_refl].
    - apply IH in H; [exact H| | |].
      + rewrite H0, H1. ring.
      + exact H0.
      + intros c C1 C2. apply HD; [exact C2|].
        replace r1 with ((r1 - Z.quot r1 r0 * r0) + Z.quot r1 r0 * r0) by ring.
        apply Z.divide_add_r; [exact C1|]. now apply Z.divide_mul_r.
  Qed.

  Lemma Z_gcdx_spec x y d s t :
    Z_gcdx x y = Some (d, s, t) -> d = s * x + t * y /\ (d | x) /\ (d | y) /\ 0 <= d.
  Proof.
    unfold Z_gcdx. destruct (Z_egcd_loop _ y x 0 1 1 0) as [[[g s'] t']|] eqn:E; [|discriminate].
    apply (Z_egcd_loop_spec x y) in E; [|ring|ring|tauto]. destruct E as (E1 & E2 & E3).
    destruct (Z.leb_spec 0 g) as [Hg|Hg]; intros H; injection H as <- <- <-.
    - repeat split; assumption.
    - repeat split; [rewrite E1; ring|now apply Z.divide_opp_l|now apply Z.divide_opp_l|lia].
  Qed.

  (* ----- the fuel of the integer extended gcd suffices ----- *)
  Lemma log2_half a b : 0 < a -> 2 * a <= b -> Z.log2 a + 1 <= Z.log2 b.
  Proof.
    intros Ha H. pose proof (Z.log2_double a Ha) as E.
    assert (Z.log2 (2 * a) <= Z.log2 b) by (apply Z.log2_le_mono; lia). lia.
  Qed.

  Lemma Z_egcd_loop_total fuel : forall r0 r1 s0 s1 t0 t1,
    Z.abs r0 <= Z.abs r1 ->
    (Z.to_nat (Z.log2 (Z.abs r0) + Z.log2 (Z.abs r1)) + 2 <= fuel)%nat ->
    exists res, Z_egcd_loop fuel r0 r1 s0 s1 t0 t1 = Some res.
  Proof.
    induction fuel as [|f IH]; intros r0 r1 s0 s1 t0 t1 Hle Hf; [lia|].
    cbn [Z_egcd_loop]. destruct (Z.eqb_spec r0 0) as [E|E]; [eexists; reflexivity|].
    replace (r1 - Z.quot r1 r0 * r0) with (Z.rem r1 r0) by (rewrite (Z.quot_rem' r1 r0) at 2; ring).
    pose proof (Z.rem_bound_abs r1 r0 E) as Hb.
    pose proof (Z.log2_nonneg (Z.abs r0)) as L0. pose proof (Z.log2_nonneg (Z.abs r1)) as L1.
    destruct (Z.eq_dec (Z.rem r1 r0) 0) as [Er|Er].
    - rewrite Er. destruct f as [|f]; [lia|]. cbn [Z_egcd_loop Z.eqb]. eexists; reflexivity.
    - apply IH; [lia|].
      (* |rem| <= |r1| - |r0| and |rem| < |r0|, hence 2|rem| <= |r1| *)
      assert (H2 : 2 * Z.abs (Z.rem r1 r0) <= Z.abs r1).
      { pose proof (Z.quot_rem' r1 r0) as Q.
        pose proof (Z.rem_sign_nz r1 r0 E Er) as Sg.
        assert (Hq : Z.quot r1 r0 <> 0).
        { intros Q0. rewrite Q0 in Q. assert (Z.rem r1 r0 = r1) by lia. lia. }
        (* |r1| = |r0| * |q| + |rem| with |q| >= 1 *)
        assert (Habs : Z.abs r1 = Z.abs r0 * Z.abs (Z.quot r1 r0) + Z.abs (Z.rem r1 r0)).
        { pose proof (Z.quot_rem' (Z.abs r1) (Z.abs r0)) as Q'.
          rewrite Z.quot_abs, Z.rem_abs in Q' by lia. exact Q'. }
        assert (1 <= Z.abs (Z.quot r1 r0)) by lia. nia. }
      pose proof (log2_half (Z.abs (Z.rem r1 r0)) (Z.abs r1) ltac:(lia) H2) as H3.
      pose proof (Z.log2_nonneg (Z.abs (Z.rem r1 r0))) as L2.
      lia.
  Qed.

  Lemma Z_gcdx_total x y : exists res, Z_gcdx x y = Some res.
  Proof.
    unfold Z_gcdx, Z_egcd_fuel.
    set (fuel := (Z.to_nat (2 * Z.log2 (Z.abs x) + 2 * Z.log2 (Z.abs y)) + 5)%nat).
    pose proof (Z.log2_nonneg (Z.abs x)) as Lx. pose proof (Z.log2_nonneg (Z.abs y)) as Ly.
    assert (Hex : exists res, Z_egcd_loop fuel y x 0 1 1 0 = Some res).
    { destruct fuel as [|f] eqn:Ef; [unfold fuel in Ef; lia|]. cbn [Z_egcd_loop].
      destruct (Z.eqb_spec y 0) as [E|E]; [eexists; reflexivity|].
      replace (x - Z.quot x y * y) with (Z.rem x y) by (rewrite (Z.quot_rem' x y) at 2; ring).
      pose proof (Z.rem_bound_abs x y E) as Hb.
      apply Z_egcd_loop_total; [lia|].
      assert (Z.log2 (Z.abs (Z.rem x y)) <= Z.log2 (Z.abs y)) by (apply Z.log2_le_mono; lia).
      unfold fuel in Ef. lia. }
    destruct Hex as [[[g s] t] ->]. destruct (0 <=? g); eexists; reflexivity.
  Qed.

  Lemma Z_is_unit_iff a : Z_is_unit a = true <-> a = 1 \/ a = -1.
  Proof. unfold Z_is_unit. rewrite orb_true_iff, !Z.eqb_eq. lia. Qed.

  Theorem Zpre_snf_laws pre : snf_laws (Zpre_dict pre).
  Proof.
    constructor; cbn [Zpre_dict ed_ring ed_unit ed_euc ed_gcdx Z_ring Z_units Z_euc rinv rnunit rdiv rrem rmul radd rzero rone].
    - exact Z_ring_laws.
    - exact Z_integral.
    - intros a b. destruct (Z_is_unit a) eqn:U; [|discriminate]. intros H. injection H as <-.
      apply Z_is_unit_iff in U. destruct U as [-> | ->]; reflexivity.
    - intros a. destruct (Z.ltb_spec a 0); eexists; reflexivity.
    - intros a. destruct (Z.ltb_spec a 0) as [Ha|Ha].
      + destruct (Z.ltb_spec (a * -1) 0); [lia|reflexivity].
      + destruct (Z.ltb_spec (a * 1) 0); [lia|reflexivity].
    - intros a d Hd. now apply Z.quot_mul.
    - intros a b Hb H. exists (Z.quot a b). rewrite (Z.quot_rem' a b) at 1. rewrite H. ring.
    - intros x y d s t H. apply Z_gcdx_spec in H. destruct H as (H1 & [a Ha] & [b Hb] & _).
      split; [exact H1|]. split; [now exists a|now exists b].
  Qed.

  Corollary Z_snf_laws : snf_laws Z_dict.
  Proof. apply Zpre_snf_laws. Qed.
End ZLaws.
