(* C07: the hypotheses of the theorems are satisfiable, non-trivially.
   [snf_diag] is a (deliberately tiny) SNF routine over Z that answers only when its input already is in
   Smith form (diagonal, divisibility chain) and refuses ([None]) otherwise; it meets [snf_contract], and
   on the complexes  Z --2--> Z  and  Z^2 --diag(1,2)--> Z^3 --0--> Z  the homology computation runs through
   it and returns Z/2 and Z + Z/2.  (The real instance is the mirror of snf.rs, property C09.) *)
From Coq Require Import ZArith Arith List Lia Bool.
Require Import Yui.Base.Ring Yui.Base.MatF Yui.Base.MatL Yui.Model.HomologyCalc.
Require Import Yui.Proofs.C07Algebra Yui.Proofs.C07Calc.
Import ListNotations.

Definition zisu (a : Z) : bool := ((a =? 1) || (a =? -1))%Z.

Lemma zisu_complete : forall a b : Z, rmul Z_ring a b = rone Z_ring -> zisu a = true.
Proof.
  cbn. intros a b H. unfold zisu. apply orb_true_iff.
  destruct (Z.mul_eq_1 a b H) as [->| ->]; [left|right]; reflexivity.
Qed.

Lemma zisu_sound : forall a : Z, zisu a = true -> exists b : Z, rmul Z_ring a b = rone Z_ring.
Proof.
  cbn. intros a H. unfold zisu in H. apply orb_true_iff in H.
  destruct H as [H|H]; apply Z.eqb_eq in H; subst a; [exists 1%Z|exists (-1)%Z]; reflexivity.
Qed.

Definition zdiv_b (a b : Z) : bool := if (a =? 0)%Z then (b =? 0)%Z else (Z.rem b a =? 0)%Z.

Definition is_smith_b (A : dmat Z) : bool :=
  forallb (fun i => forallb (fun j => (i =? j) || (mget Z_ring A i j =? 0)%Z) (seq 0 (nc A))) (seq 0 (nr A)) &&
  forallb (fun i => zdiv_b (mget Z_ring A i i) (mget Z_ring A (S i) (S i))) (seq 0 (Nat.min (nr A) (nc A) - 1)).

Definition snf_diag (A : dmat Z) (fp fpi fq fqi : bool) : option (snf_result Z) :=
  if is_smith_b A then
    let idm (b : bool) (k : nat) := if b then Some (d_id Z_ring k) else None in
    Some (mk_snf A (idm fp (nr A)) (idm fpi (nr A)) (idm fq (nc A)) (idm fqi (nc A)))
  else None.

Lemma zdiv_b_spec a b : zdiv_b a b = true -> (a = 0 -> b = 0)%Z /\ exists c, (b = a * c)%Z.
Proof.
  unfold zdiv_b. destruct (Z.eqb_spec a 0) as [->|Hne]; intros H.
  - apply Z.eqb_eq in H. subst b. split; [reflexivity|exists 0%Z; reflexivity].
  - apply Z.eqb_eq in H. split; [intros; contradiction|].
    exists (Z.quot b a). pose proof (Z.quot_rem' b a) as Q. rewrite H in Q. lia.
Qed.

Lemma snf_diag_contract : snf_contract Z_ring snf_diag.
Proof.
  intros A fp fpi fq fqi s _ H. unfold snf_diag in H.
  destruct (is_smith_b A) eqn:E; [|discriminate]. injection H as <-.
  unfold is_smith_b in E. apply andb_true_iff in E. destruct E as [Ed Ec].
  assert (Hdiag : forall i j, i < nr A -> j < nc A -> i <> j -> mget Z_ring A i j = 0%Z).
  { intros i j Hi Hj Hne. rewrite forallb_forall in Ed. specialize (Ed i). rewrite in_seq in Ed.
    specialize (Ed ltac:(lia)). rewrite forallb_forall in Ed. specialize (Ed j). rewrite in_seq in Ed.
    specialize (Ed ltac:(lia)). apply orb_true_iff in Ed. destruct Ed as [Ed|Ed].
    - apply Nat.eqb_eq in Ed. contradiction.
    - now apply Z.eqb_eq in Ed. }
  assert (Hstep : forall i, S i < Nat.min (nr A) (nc A) ->
            (mget Z_ring A i i = 0 -> mget Z_ring A (S i) (S i) = 0)%Z /\
            exists c, (mget Z_ring A (S i) (S i) = mget Z_ring A i i * c)%Z).
  { intros i Hi. rewrite forallb_forall in Ec. specialize (Ec i). rewrite in_seq in Ec.
    specialize (Ec ltac:(lia)). now apply zdiv_b_spec. }
  unfold snf_ok. cbn [sr_d sr_p sr_pinv sr_q sr_qinv]. cbn zeta.
  split; [reflexivity|]. split; [reflexivity|].
  assert (Hs : forall b k, opt_shape b (if b then Some (d_id Z_ring k) else None) k).
  { intros [|] k; cbn; [|reflexivity]. eexists. split; [reflexivity|]. split; reflexivity. }
  split; [apply Hs|]. split; [apply Hs|]. split; [apply Hs|]. split; [apply Hs|].
  exists (mid Z_ring), (mid Z_ring), (mid Z_ring), (mid Z_ring).
  assert (Ha : forall (b : bool) k, opt_agrees Z_ring k (if b then Some (d_id Z_ring k) else None) (mid Z_ring)).
  { intros [|] k M HM; [|discriminate]. injection HM as <-. intros i j Hi Hj.
    now apply (mget_d_id Z_ring). }
  split; [apply Ha|]. split; [apply Ha|]. split; [apply Ha|]. split; [apply Ha|].
  split.
  { intros i j Hi Hj. rewrite (mmul_id_l Z_ring Z_ring_laws) by assumption.
    now rewrite (mmul_id_r Z_ring Z_ring_laws) by assumption. }
  split; [apply (inv_pair_id Z_ring Z_ring_laws)|]. split; [apply (inv_pair_id Z_ring Z_ring_laws)|].
  split; [exact Hdiag|].
  split.
  { intros i j Hij. induction Hij as [|j Hle IH]; intros Hj Hz; [exact Hz|].
    apply (Hstep j Hj). apply IH; [lia|exact Hz]. }
  split.
  { intros i Hi. apply (Hstep i Hi). }
  intros _. repeat split; apply meq_refl.
Qed.

(* Z --2--> Z --> 0 *)
Definition ex_d1 : dmat Z := mkm 1 1 [[2%Z]].
Definition ex_d2 : dmat Z := mkm 0 1 [].

Lemma ex_hyps : mwf ex_d1 /\ mwf ex_d2 /\ zero_prod Z_ring ex_d1 ex_d2.
Proof.
  split; [|split].
  - split; [reflexivity|]. repeat constructor.
  - split; [reflexivity|]. constructor.
  - intros i j Hi Hj. cbn in Hi. lia.
Qed.

Lemma ex_run :
  calculate Z_ring zisu snf_diag ex_d1 ex_d2 true
  = Some (0, [2%Z], Some (mk_trans 1 1 [mkm 1 1 [[1%Z]]] [mkm 1 1 [[1%Z]]])).
Proof. vm_compute. reflexivity. Qed.

(* Z^2 --diag(1,2)--> Z^3 --0--> Z :  H = Z + Z/2, generators e_3 and e_2 *)
Definition ex2_d1 : dmat Z := mkm 3 2 [[1; 0]; [0; 2]; [0; 0]]%Z.
Definition ex2_d2 : dmat Z := mkm 1 3 [[0; 0; 0]]%Z.

Lemma ex2_hyps : mwf ex2_d1 /\ mwf ex2_d2 /\ zero_prod Z_ring ex2_d1 ex2_d2.
Proof.
  split; [|split].
  - split; [reflexivity|]. repeat constructor.
  - split; [reflexivity|]. repeat constructor.
  - intros i j Hi Hj. cbn in Hi, Hj.
    destruct i as [|i]; [|lia]. destruct j as [|[|j]]; [reflexivity|reflexivity|lia].
Qed.

Lemma ex2_run :
  calculate Z_ring zisu snf_diag ex2_d1 ex2_d2 true
  = Some (1, [2%Z], Some (mk_trans 3 2 [mkm 2 3 [[0; 0; 1]; [0; 1; 0]]%Z] [mkm 3 2 [[0; 0]; [0; 1]; [1; 0]]%Z])).
Proof. vm_compute. reflexivity. Qed.
