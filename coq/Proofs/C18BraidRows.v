(* C18 - Braid::closure described level by level.
   [row n w k] is the list bottom_edges before letter k is processed (k = 0 .. |w|); after the renaming
   bottom_edges[j] -> j the label at level k, position j is [lab n w k j].  The four labels of crossing k
   are read off levels k (the two strands arriving from above) and k+1 (the two strands leaving below);
   positions not touched by letter k keep their label, and level |w| is glued to level 0.
   All later facts about closures (orientation, writhe, components) are derived from the interface
   [BraidDiag] proved here, no longer from the loop. *)
From Coq Require Import List Arith Bool Lia ZArith.
Require Import Yui.Model.Link Yui.Model.Braid Yui.Proofs.C18Base Yui.Proofs.C18Traverse
  Yui.Proofs.C18Closure.
Import ListNotations.

Definition idx (s : Z) : nat := Z.abs_nat s - 1.
Definition upd2 (i c : nat) (b : list nat) : list nat := set_nth_nat (S i) (S c) (set_nth_nat i c b).
Definition step_row (cb : nat * list nat) (s : Z) : nat * list nat :=
  (S (S (fst cb)), upd2 (idx s) (fst cb) (snd cb)).
Definition rawx (s : Z) (c : nat) (b : list nat) : xcode :=
  let a := nth (idx s) b 0 in let b' := nth (S (idx s)) b 0 in
  if (0 <? s)%Z then (a, c, S c, b') else (b', a, c, S c).

Definition row_state (n : nat) (w : list Z) (k : nat) : nat * list nat :=
  fold_left step_row (firstn k w) (n, seq 0 n).
Definition row (n : nat) (w : list Z) (k : nat) : list nat := snd (row_state n w k).
Definition lab (n : nat) (w : list Z) (k j : nat) : nat :=
  conn_lookup (row n w (length w)) 0 (nth j (row n w k) 0).

(* the slot of a crossing of a closure: level (false: arriving from above, true: leaving below) and
   offset (0: left position i, 1: right position i+1) *)
Definition slot_out (s : Z) (j : nat) : bool :=
  if (0 <? s)%Z then (j =? 1) || (j =? 2) else (j =? 2) || (j =? 3).
Definition slot_off (s : Z) (j : nat) : nat :=
  if (0 <? s)%Z then (match j with 0 | 1 => 0 | _ => 1 end) else (match j with 1 | 2 => 0 | _ => 1 end).
Definition b2n (b : bool) : nat := if b then 1 else 0.

(* the interface *)
Record BraidDiag (n : nat) (w : list Z) (l : link) (lb : nat -> nat -> nat) : Prop := {
  bd_valid : Valid l;
  bd_len : length l = length w;
  bd_X : forall k, k < length w -> ct (cross_at l k) = X;
  bd_idx : forall k, k < length w -> S (idx (nth k w 0%Z)) < n;
  bd_nz : forall k, k < length w -> nth k w 0%Z <> 0%Z;
  bd_edge : forall k j, k < length w -> j < 4 ->
    edge_at l (k, j) = lb (k + b2n (slot_out (nth k w 0%Z) j)) (idx (nth k w 0%Z) + slot_off (nth k w 0%Z) j);
  bd_keep : forall k j, k < length w -> j < n -> j <> idx (nth k w 0%Z) -> j <> S (idx (nth k w 0%Z)) ->
    lb (S k) j = lb k j;
  bd_touch : forall j, j < n ->
    exists k, k < length w /\ (j = idx (nth k w 0%Z) \/ j = S (idx (nth k w 0%Z)));
  bd_wrap : forall j, j < n -> lb (length w) j = j;
  bd_top : forall j, j < n -> lb 0 j = j }.

(* ---------------------------------------------------------------------------------------------- *)
Lemma set_nth_nat_length : forall i x b, length (set_nth_nat i x b) = length b.
Proof. induction i; destruct b; cbn; auto. Qed.
Lemma nth_set_nth_nat : forall i j x b,
  nth j (set_nth_nat i x b) 0 = if (j =? i) && (i <? length b) then x else nth j b 0.
Proof.
  induction i as [|i IH]; intros j x b; destruct b as [|a b]; cbn [set_nth_nat length].
  - rewrite andb_false_r. reflexivity.
  - destruct j; reflexivity.
  - rewrite andb_false_r. reflexivity.
  - destruct j as [|j]; [reflexivity|]. cbn [nth]. rewrite IH. reflexivity.
Qed.
Lemma upd2_length : forall i c b, length (upd2 i c b) = length b.
Proof. intros. unfold upd2. rewrite !set_nth_nat_length. reflexivity. Qed.
Lemma nth_upd2 : forall i c b j, S i < length b ->
  nth j (upd2 i c b) 0 = if j =? i then c else if j =? S i then S c else nth j b 0.
Proof.
  intros i c b j Hi. unfold upd2. rewrite !nth_set_nth_nat, set_nth_nat_length.
  assert (S i <? length b = true) as -> by (apply Nat.ltb_lt; auto).
  assert (i <? length b = true) as -> by (apply Nat.ltb_lt; lia).
  rewrite !andb_true_r. destruct (Nat.eqb_spec j (S i)) as [->|N].
  - assert (S i =? i = false) as -> by (apply Nat.eqb_neq; lia). reflexivity.
  - reflexivity.
Qed.

Lemma fold_step_fst : forall ws c b, fst (fold_left step_row ws (c, b)) = c + 2 * length ws.
Proof. induction ws as [|s ws IH]; intros; cbn [fold_left length]; [cbn; lia|]. unfold step_row at 2. cbn [fst snd]. rewrite IH. lia. Qed.
Lemma fold_step_len : forall ws c b, length (snd (fold_left step_row ws (c, b))) = length b.
Proof.
  induction ws as [|s ws IH]; intros; cbn [fold_left]; auto. unfold step_row at 2. cbn [fst snd].
  rewrite IH. apply upd2_length.
Qed.

Lemma closure_loop_spec : forall w c b bt code, closure_loop w c b = Some (bt, code) ->
  length code = length w /\ bt = snd (fold_left step_row w (c, b)) /\
  forall k, k < length w ->
    nth k w 0%Z <> 0%Z /\ S (idx (nth k w 0%Z)) < length b /\
    nth k code (0, 0, 0, 0) = rawx (nth k w 0%Z) (fst (fold_left step_row (firstn k w) (c, b)))
                                   (snd (fold_left step_row (firstn k w) (c, b))).
Proof.
  induction w as [|s w IH]; intros c b bt code E.
  - cbn in E. inversion E; subst. cbn. split; auto. split; auto. intros; lia.
  - cbn [closure_loop] in E.
    destruct (Z.abs_nat s =? 0) eqn:Z0; [discriminate|].
    fold (idx s) in E.
    destruct (S (idx s) <? length b) eqn:Hi; [|discriminate]. apply Nat.ltb_lt in Hi.
    fold (upd2 (idx s) c b) in E.
    destruct (closure_loop w (S (S c)) (upd2 (idx s) c b)) as [[bt' code']|] eqn:R; [|discriminate].
    inversion E; subst bt' code; clear E.
    destruct (IH _ _ _ _ R) as (L1 & L2 & L3).
    cbn [length]. split; [lia|]. split.
    { cbn [fold_left]. unfold step_row at 2. cbn [fst snd]. exact L2. }
    intros k Hk. destruct k as [|k].
    + cbn [nth firstn fold_left fst snd]. split; [|split; auto].
      intros ->. cbn in Z0. discriminate.
    + cbn [nth firstn fold_left]. unfold step_row at 2 4. cbn [fst snd].
      destruct (L3 k ltac:(lia)) as (A0 & A & B). rewrite upd2_length in A. split; auto.
Qed.

Lemma firstn_S_nth : forall (w : list Z) k, k < length w -> firstn (S k) w = firstn k w ++ [nth k w 0%Z].
Proof.
  induction w as [|s w IH]; intros k Hk; cbn in Hk; [lia|].
  destruct k as [|k]; [reflexivity|]. cbn [firstn nth app]. rewrite <- IH by lia. reflexivity.
Qed.

Lemma nth_map_default : forall A B (g : A -> B) xs k d d', k < length xs ->
  nth k (map g xs) d = g (nth k xs d').
Proof.
  intros A B g xs k d d' Hk. rewrite (nth_indep _ d (g d')) by (rewrite map_length; auto). apply map_nth.
Qed.

Section Rows.
  Variable n : nat.
  Variable w : list Z.
  Variable l : link.
  Hypothesis Hcl : closure n w = Some l.

  Let m := length w.
  Let R := row n w.
  Let f := conn_lookup (R m) 0.

  Lemma row_state_fst : forall k, k <= m -> fst (row_state n w k) = n + 2 * k.
  Proof. intros k Hk. unfold row_state. rewrite fold_step_fst, firstn_length. unfold m in Hk. lia. Qed.
  Lemma row_length : forall k, length (R k) = n.
  Proof. intros k. unfold R, row, row_state. rewrite fold_step_len, seq_length. reflexivity. Qed.
  Lemma row_0 : R 0 = seq 0 n.
  Proof. reflexivity. Qed.
  Lemma row_S : forall k, k < m -> R (S k) = upd2 (idx (nth k w 0%Z)) (n + 2 * k) (R k).
  Proof.
    intros k Hk. unfold R, row, row_state. rewrite firstn_S_nth by exact Hk.
    rewrite fold_left_app. cbn [fold_left]. unfold step_row at 1. cbn [snd].
    fold (row_state n w k). rewrite row_state_fst by (unfold m in *; lia). reflexivity.
  Qed.

  Lemma closure_unfold : exists code,
    closure_loop w n (seq 0 n) = Some (R m, code) /\ no_free_loop (R m) 0 = true /\
    l = link_of_code (map (fun x => match x with (a, b, c, d) => (f a, f b, f c, f d) end) code).
  Proof.
    unfold closure, closure_code in Hcl.
    destruct (closure_loop w n (seq 0 n)) as [[bt code]|] eqn:CL; [|discriminate].
    destruct (closure_loop_spec _ _ _ _ _ CL) as (_ & Ebt & _).
    assert (bt = R m) as ->.
    { rewrite Ebt. unfold R, row, row_state, m. rewrite firstn_all. reflexivity. }
    destruct (no_free_loop (R m) 0) eqn:NF; [|discriminate]. cbn [option_map] in Hcl.
    exists code. split; auto. split; auto. inversion Hcl. reflexivity.
  Qed.

  Lemma rows_final : low_in_place n (R m) /\ (forall y, count_label y (R m) <= 1).
  Proof.
    destruct closure_unfold as (code & CL & _ & _).
    assert (P1 : forall y, count_label y (seq 0 n) <= 1) by (apply cnt_NoDup, seq_NoDup).
    assert (P2 : forall y, n <= y -> count_label y (seq 0 n) = 0).
    { intros y Hy. destruct (count_label y (seq 0 n)) eqn:C; auto. exfalso.
      assert (In y (seq 0 n)) by (apply cnt_In; lia). apply in_seq in H. lia. }
    assert (P3 : low_in_place n (seq 0 n)).
    { intros j Hj _. rewrite seq_length in Hj. rewrite seq_nth; auto. }
    destruct (closure_loop_inv w n (seq 0 n) _ code n CL P1 P2 (le_n n) P3)
      as (_ & _ & _ & L3 & L4 & _). auto.
  Qed.

  Lemma f_bottom : forall j, j < n -> f (nth j (R m) 0) = j.
  Proof.
    intros j Hj. unfold f. destruct rows_final as [_ L4].
    rewrite conn_lookup_nth; auto. rewrite row_length. exact Hj.
  Qed.
  Lemma f_low : forall j, j < n -> f j = j.
  Proof.
    intros j Hj. unfold f. apply conn_lookup_notin. intros Hin.
    destruct rows_final as [L3 _]. destruct closure_unfold as (_ & _ & NF & _).
    apply (In_nth _ _ 0) in Hin. destruct Hin as [j' [Hj' Ej]].
    assert (nth j' (R m) 0 = j') by (apply L3; auto; lia).
    pose proof (no_free_loop_spec (R m) 0 NF j' Hj'). lia.
  Qed.

  Lemma cross_at_closure : forall k, k < m ->
    nth k w 0%Z <> 0%Z /\ S (idx (nth k w 0%Z)) < n /\
    cross_at l k = match rawx (nth k w 0%Z) (n + 2 * k) (R k) with
                   | (a, b, c, d) => from_pd (f a) (f b) (f c) (f d) end.
  Proof.
    intros k Hk. destruct closure_unfold as (code & CL & _ & El).
    destruct (closure_loop_spec _ _ _ _ _ CL) as (L1 & _ & L3).
    destruct (L3 k Hk) as (A0 & A & B). rewrite seq_length in A. split; auto. split; auto.
    fold (row_state n w k) in B. rewrite row_state_fst in B by (unfold m in *; lia).
    fold (row n w k) in B. fold R in B. rewrite <- B.
    rewrite El. unfold cross_at, link_of_code. rewrite map_map.
    rewrite (nth_map_default _ _ _ code k dummy_c (0, 0, 0, 0)) by (rewrite L1; exact Hk).
    destruct (nth k code (0, 0, 0, 0)) as [[[a b] c] d]. reflexivity.
  Qed.

  (* no free loop: every position is touched by some letter *)
  Lemma row_touch_or_keep : forall k j, k <= m -> j < n ->
    (exists k', k' < k /\ (j = idx (nth k' w 0%Z) \/ j = S (idx (nth k' w 0%Z)))) \/ nth j (R k) 0 = j.
  Proof.
    induction k as [|k IH]; intros j Hk Hj.
    - right. rewrite row_0, seq_nth; auto.
    - destruct (IH j ltac:(lia) Hj) as [(k' & Hk' & T)|E].
      + left. exists k'. split; [lia|exact T].
      + destruct (Nat.eq_dec j (idx (nth k w 0%Z))) as [E1|N1]; [left; exists k; split; [lia|auto]|].
        destruct (Nat.eq_dec j (S (idx (nth k w 0%Z)))) as [E2|N2]; [left; exists k; split; [lia|auto]|].
        right. destruct (cross_at_closure k ltac:(lia)) as (_ & Hi & _).
        rewrite (row_S k) by lia. rewrite nth_upd2 by (rewrite row_length; auto).
        apply Nat.eqb_neq in N1, N2. rewrite N1, N2. exact E.
  Qed.

  Theorem closure_diag : BraidDiag n w l (lab n w).
  Proof.
    destruct (closure_valid n w l Hcl) as (Hv & HL & _ & HX).
    assert (Hlab : forall k j, lab n w k j = f (nth j (R k) 0)) by reflexivity.
    constructor; auto.
    - intros k Hk. rewrite Forall_forall in HX. apply HX. apply nth_In. rewrite HL. exact Hk.
    - intros k Hk. apply (cross_at_closure k Hk).
    - intros k Hk. apply (cross_at_closure k Hk).
    - intros k j Hk Hj. destruct (cross_at_closure k Hk) as (_ & Hi & E).
      unfold edge_at. cbn [fst snd]. rewrite E. rewrite !Hlab.
      assert (HS : S k <= m) by (unfold m; lia).
      unfold rawx, slot_out, slot_off.
      destruct (0 <? nth k w 0)%Z; destruct j as [|[|[|[|j]]]]; try lia; cbn [from_pd edge e0 e1 e2 e3 b2n orb Nat.eqb];
        rewrite ?Nat.add_0_r, ?Nat.add_1_r; try reflexivity;
        rewrite (row_S k Hk), nth_upd2 by (rewrite row_length; auto);
        rewrite ?Nat.eqb_refl; try reflexivity;
        assert (S (idx (nth k w 0%Z)) =? idx (nth k w 0%Z) = false) as -> by (apply Nat.eqb_neq; lia); reflexivity.
    - intros k j Hk Hj N1 N2. destruct (cross_at_closure k Hk) as (_ & Hi & _). rewrite !Hlab.
      rewrite (row_S k Hk), nth_upd2 by (rewrite row_length; auto).
      assert (j =? idx (nth k w 0%Z) = false) as -> by (apply Nat.eqb_neq; auto).
      assert (j =? S (idx (nth k w 0%Z)) = false) as -> by (apply Nat.eqb_neq; auto). reflexivity.
    - intros j Hj. destruct (row_touch_or_keep m j (le_n m) Hj) as [(k' & Hk' & T)|E]; [exists k'; auto|].
      exfalso. destruct closure_unfold as (_ & _ & NF & _).
      apply (no_free_loop_spec (R m) 0 NF j); [rewrite row_length; auto|]. exact E.
    - intros j Hj. rewrite Hlab. apply f_bottom; auto.
    - intros j Hj. rewrite Hlab. rewrite row_0, seq_nth by auto. apply f_low; auto.
  Qed.
End Rows.
