(* C02 (invariance of the cube-of-resolutions oracle under relabelling / orientation reversal / crossing
   reordering), part 1: the list primitives of Model/KhCube.v ([insert_sorted], [sort_nodup],
   [merge_sorted], [list_eqb], [insert_class], [sort_classes]) and the uniqueness of key-sorted lists. *)
From Coq Require Import List Arith Bool Lia.
Require Import Yui.Model.KhCube.
Import ListNotations.

(* strictly increasing keys *)
Fixpoint ksorted {A} (f : A -> nat) (l : list A) : Prop :=
  match l with
  | [] => True
  | x :: r => (forall y, In y r -> f x < f y) /\ ksorted f r
  end.

Lemma ksorted_unique {A} (f : A -> nat) (l1 l2 : list A) :
  ksorted f l1 -> ksorted f l2 -> (forall x, In x l1 <-> In x l2) -> l1 = l2.
Proof.
  revert l2. induction l1 as [|x l1 IH]; intros [|y l2] S1 S2 H.
  - reflexivity.
  - exfalso. apply (proj2 (H y)). now left.
  - exfalso. apply (proj1 (H x)). now left.
  - cbn [ksorted] in S1, S2. destruct S1 as [A1 S1], S2 as [A2 S2].
    assert (E : x = y).
    { destruct (proj1 (H x) (or_introl eq_refl)) as [E|Hx]; [now symmetry|].
      destruct (proj2 (H y) (or_introl eq_refl)) as [E|Hy]; [exact E|].
      pose proof (A2 x Hx). pose proof (A1 y Hy). lia. }
    subst y. f_equal. apply IH; [exact S1|exact S2|].
    intros z. split; intros Hz.
    + destruct (proj1 (H z) (or_intror Hz)) as [E|Hz2]; [|exact Hz2].
      subst z. pose proof (A1 x Hz). lia.
    + destruct (proj2 (H z) (or_intror Hz)) as [E|Hz2]; [|exact Hz2].
      subst z. pose proof (A2 x Hz). lia.
Qed.

Lemma ksorted_NoDup {A} (f : A -> nat) (l : list A) : ksorted f l -> NoDup l.
Proof.
  induction l as [|x l IH]; intros S; [constructor|].
  destruct S as [A1 S]. constructor; [|now apply IH].
  intros Hx. pose proof (A1 x Hx). lia.
Qed.

Lemma ksorted_map {A B} (f : B -> nat) (g : A -> B) (l : list A) :
  ksorted f (map g l) <-> ksorted (fun x => f (g x)) l.
Proof.
  induction l as [|x l IH]; [reflexivity|]. cbn [map ksorted]. rewrite IH.
  split; intros [H1 H2]; (split; [|exact H2]).
  - intros y Hy. apply H1. now apply in_map.
  - intros y Hy. apply in_map_iff in Hy. destruct Hy as [z [<- Hz]]. now apply H1.
Qed.

Lemma ksorted_ext {A} (f g : A -> nat) (l : list A) :
  (forall x y, In x l -> In y l -> f x < f y -> g x < g y) -> ksorted f l -> ksorted g l.
Proof.
  induction l as [|x l IH]; intros H S; [exact I|]. destruct S as [A1 S]. split.
  - intros y Hy. apply H; [now left|now right|now apply A1].
  - apply IH; [|exact S]. intros a b Ha Hb. apply H; now right.
Qed.

(* ---------- insert_sorted / sort_nodup ---------- *)
Lemma insert_sorted_In x l z : In z (insert_sorted x l) <-> z = x \/ In z l.
Proof.
  induction l as [|y l IH]; cbn [insert_sorted].
  - cbn. intuition.
  - destruct (Nat.ltb_spec x y); [cbn; intuition|].
    destruct (Nat.eqb_spec x y) as [->|]; [cbn; intuition|].
    cbn [In]. rewrite IH. intuition.
Qed.

Lemma insert_sorted_sorted x l : ksorted id l -> ksorted id (insert_sorted x l).
Proof.
  induction l as [|y l IH]; intros S; cbn [insert_sorted].
  - cbn. split; [intros ? []|exact I].
  - destruct S as [A1 S].
    destruct (Nat.ltb_spec x y) as [Hlt|Hge].
    + split; [|split; assumption]. intros z [<-|Hz]; [exact Hlt|]. pose proof (A1 z Hz). unfold id in *. lia.
    + destruct (Nat.eqb_spec x y) as [->|Hne]; [split; assumption|].
      split; [|now apply IH]. intros z Hz. apply insert_sorted_In in Hz. destruct Hz as [->|Hz].
      * unfold id. lia.
      * now apply A1.
Qed.

Lemma sort_nodup_In l z : In z (sort_nodup l) <-> In z l.
Proof.
  unfold sort_nodup. induction l as [|x l IH]; [reflexivity|]. cbn [fold_right In].
  rewrite insert_sorted_In, IH. intuition.
Qed.

Lemma sort_nodup_sorted l : ksorted id (sort_nodup l).
Proof.
  unfold sort_nodup. induction l as [|x l IH]; [exact I|]. cbn [fold_right]. now apply insert_sorted_sorted.
Qed.

Lemma sort_nodup_id l : ksorted id l -> sort_nodup l = l.
Proof.
  intros S. apply (ksorted_unique id); [apply sort_nodup_sorted|exact S|apply sort_nodup_In].
Qed.

(* ---------- merge_sorted ---------- *)
Lemma merge_sorted_fuel_In fuel a b z : In z (merge_sorted_fuel fuel a b) <-> In z a \/ In z b.
Proof.
  revert a b. induction fuel as [|f IH]; intros a b; cbn [merge_sorted_fuel].
  - apply in_app_iff.
  - destruct a as [|x a]; [cbn; intuition|]. destruct b as [|y b]; [cbn; intuition|].
    destruct (Nat.ltb_spec x y); [cbn [In]; rewrite IH; cbn [In]; intuition|].
    destruct (Nat.eqb_spec x y) as [->|]; cbn [In]; rewrite IH; cbn [In]; intuition.
Qed.

Lemma merge_sorted_fuel_sorted fuel a b :
  length a + length b <= fuel -> ksorted id a -> ksorted id b -> ksorted id (merge_sorted_fuel fuel a b).
Proof.
  revert a b. induction fuel as [|f IH]; intros a b Hf Sa Sb; cbn [merge_sorted_fuel].
  - destruct a; [|cbn in Hf; lia]. destruct b; [exact I|cbn in Hf; lia].
  - destruct a as [|x a]; [exact Sb|]. destruct b as [|y b]; [exact Sa|].
    cbn [length] in Hf. pose proof Sa as [A1 Sa']. pose proof Sb as [B1 Sb'].
    destruct (Nat.ltb_spec x y) as [Hlt|Hge].
    + split; [|apply IH; [cbn [length]; lia|exact Sa'|exact Sb]].
      intros z Hz. apply merge_sorted_fuel_In in Hz. destruct Hz as [Hz|[<-|Hz]].
      * now apply A1.
      * exact Hlt.
      * pose proof (B1 z Hz). unfold id in *. lia.
    + destruct (Nat.eqb_spec x y) as [->|Hne].
      * split; [|apply IH; [lia|exact Sa'|exact Sb']].
        intros z Hz. apply merge_sorted_fuel_In in Hz. destruct Hz as [Hz|Hz]; [now apply A1|now apply B1].
      * split; [|apply IH; [cbn [length]; lia|exact Sa|exact Sb']].
        intros z Hz. apply merge_sorted_fuel_In in Hz. destruct Hz as [[<-|Hz]|Hz].
        -- unfold id. lia.
        -- pose proof (A1 z Hz). unfold id in *. lia.
        -- now apply B1.
Qed.

Lemma merge_sorted_In a b z : In z (merge_sorted a b) <-> In z a \/ In z b.
Proof. apply merge_sorted_fuel_In. Qed.

Lemma merge_sorted_sorted a b : ksorted id a -> ksorted id b -> ksorted id (merge_sorted a b).
Proof. apply merge_sorted_fuel_sorted. lia. Qed.

(* ---------- list_eqb, membership ---------- *)
Lemma list_eqb_spec a b : list_eqb a b = true <-> a = b.
Proof.
  revert b. induction a as [|x a IH]; intros [|y b]; cbn [list_eqb]; try (split; [discriminate|discriminate]).
  - split; reflexivity.
  - rewrite andb_true_iff, Nat.eqb_eq, IH. split; [intros [-> ->]; reflexivity|intros E; now inversion E].
Qed.

Lemma list_eqb_refl a : list_eqb a a = true.
Proof. now apply list_eqb_spec. Qed.

Lemma list_eqb_false a b : list_eqb a b = false <-> a <> b.
Proof.
  rewrite <- list_eqb_spec. destruct (list_eqb a b); split; intros H; congruence.
Qed.

Lemma mem_spec e c : existsb (Nat.eqb e) c = true <-> In e c.
Proof.
  rewrite existsb_exists. split.
  - intros [x [Hx E]]. apply Nat.eqb_eq in E. now subst.
  - intros H. exists e. split; [exact H|apply Nat.eqb_refl].
Qed.

(* ---------- sort_classes ---------- *)
Lemma insert_class_In c p d : In d (insert_class c p) <-> d = c \/ In d p.
Proof.
  induction p as [|x p IH]; cbn [insert_class].
  - cbn. intuition.
  - destruct (hd 0 c <? hd 0 x); cbn [In]; [intuition|]. rewrite IH. intuition.
Qed.

Lemma sort_classes_In p d : In d (sort_classes p) <-> In d p.
Proof.
  unfold sort_classes. induction p as [|c p IH]; [reflexivity|]. cbn [fold_right In].
  rewrite insert_class_In, IH. intuition.
Qed.

Lemma insert_class_sorted c p :
  ksorted (hd 0) p -> (forall d, In d p -> hd 0 d <> hd 0 c) -> ksorted (hd 0) (insert_class c p).
Proof.
  induction p as [|x p IH]; intros S Hne; cbn [insert_class].
  - split; [intros ? []|exact I].
  - destruct S as [A1 S]. destruct (Nat.ltb_spec (hd 0 c) (hd 0 x)) as [Hlt|Hge].
    + split; [|split; assumption]. intros z [<-|Hz]; [exact Hlt|]. pose proof (A1 z Hz). lia.
    + split; [|apply IH; [exact S|intros d Hd; apply Hne; now right]].
      intros z Hz. apply insert_class_In in Hz. destruct Hz as [->|Hz]; [|now apply A1].
      pose proof (Hne x (or_introl eq_refl)). lia.
Qed.

Lemma sort_classes_sorted p :
  NoDup p -> (forall c d, In c p -> In d p -> c <> d -> hd 0 c <> hd 0 d) -> ksorted (hd 0) (sort_classes p).
Proof.
  unfold sort_classes. induction p as [|c p IH]; intros Hnd Hh; [exact I|]. cbn [fold_right].
  inversion Hnd as [|? ? Hc Hnd']; subst.
  apply insert_class_sorted.
  - apply IH; [exact Hnd'|]. intros a b Ha Hb. apply Hh; now right.
  - intros d Hd. apply (sort_classes_In p d) in Hd. apply Hh; [now right|now left|]. intros ->. contradiction.
Qed.

Lemma sort_classes_id p : ksorted (hd 0) p -> sort_classes p = p.
Proof.
  unfold sort_classes. induction p as [|c p IH]; intros S; [reflexivity|]. cbn [fold_right].
  destruct S as [A1 S]. rewrite IH by exact S.
  destruct p as [|d p]; [reflexivity|]. cbn [insert_class].
  destruct (Nat.ltb_spec (hd 0 c) (hd 0 d)) as [_|Hge]; [reflexivity|].
  pose proof (A1 d (or_introl eq_refl)). lia.
Qed.
