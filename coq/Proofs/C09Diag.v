(* C09 - exit conditions, part 2: diag_normalize keeps the target diagonal with the same rank, and on
   exit every non-zero diagonal entry is normalised and divides the next one.  Final theorem for snf. *)
From Coq Require Import ZArith List Bool Arith Lia Ring.
Require Import Yui.Base.Ring Yui.Base.MatF Yui.Base.MatL Yui.Model.Snf Yui.Proofs.C09Mat Yui.Proofs.C09Inv
  Yui.Proofs.C09Run Yui.Proofs.C09Exit.
Import ListNotations.

Lemma ofold_seq_inv {S : Type} (I : nat -> S -> Prop) (f : nat -> S -> option S) len a s s' :
  (forall k x x', a <= k < a + len -> I k x -> f k x = Some x' -> I (Datatypes.S k) x') ->
  I a s -> ofold f (seq a len) s = Some s' -> I (a + len) s'.
Proof.
  revert a s. induction len as [|len IH]; intros a s Hf Hs H; cbn [seq ofold] in H.
  - inversion H; subst. now rewrite Nat.add_0_r.
  - destruct (f a s) as [s1|] eqn:E; [|discriminate].
    replace (a + Datatypes.S len) with (Datatypes.S a + len) by lia.
    apply (IH (Datatypes.S a) s1); [|apply (Hf a s s1); [lia|exact Hs|exact E]|exact H].
    intros k x x' Hk. apply Hf. lia.
Qed.

Ltac simp_eqb :=
  repeat first [ rewrite Nat.eqb_refl
               | match goal with |- context [Nat.eqb ?x ?y] => rewrite (proj2 (Nat.eqb_neq x y)) by lia end ].

Section Diag.
  Context {R : Type} (D : euc_dict R) (SL : snf_laws D) (fp : fuel_policy R).
  Let o := ed_ring D.
  Let L : ring_laws o := sl_ring D SL.
  Add Ring Rring : (ring_theory_of_laws o L).

  Local Notation "0" := (rzero o).
  Local Notation "1" := (rone o).
  Local Infix "+" := (radd o).
  Local Infix "*" := (rmul o).
  Local Notation "- x" := (rneg o x).
  Local Notation get := (lget o).
  Implicit Types T : lmat R.

  Variables m n : nat.
  Local Notation DiagR := (DiagR D m n).

  Definition Chain (r : nat) T : Prop := forall k, S k < r -> exists q, get T (S k) (S k) = q * get T k k.
  Definition Normal (r : nat) T : Prop := forall k, k < r -> rnunit (ed_unit D) (get T k k) = 1.

  (* ---------- diag_rank of a diagonal matrix ---------- *)
  Lemma first_zero_diag_DiagR r T len a :
    DiagR r T -> Nat.add a len = Nat.min m n -> a <= r ->
    first_zero_diag D T (seq a len) (Nat.min m n) = r.
  Proof.
    intros (W & Hr & _ & Hnz & Hz). revert a. induction len as [|len IH]; intros a Ha Har; cbn [seq first_zero_diag].
    - lia.
    - destruct (ris_zero (ed_ring D) (mget D T a a)) eqn:Z.
      + apply (is_zero_true D SL) in Z. rewrite mget_lget in Z.
        destruct (Nat.lt_ge_cases a r); [|lia]. exfalso. now apply (Hnz a).
      + apply (is_zero_false D SL) in Z. rewrite mget_lget in Z.
        apply IH; [lia|]. destruct (Nat.lt_ge_cases a r); [lia|]. exfalso. apply Z, Hz; lia.
  Qed.

  Lemma diag_rank_DiagR r T : DiagR r T -> diag_rank D m n T = r.
  Proof. intros H. unfold diag_rank. apply (first_zero_diag_DiagR r T); [exact H|lia|lia]. Qed.

  Lemma DiagR_get r T k l :
    DiagR r T -> k < m -> l < n -> get T k l = if k =? l then get T k k else 0.
  Proof.
    intros (W & _ & H & _) Hk Hl. destruct (Nat.eqb_spec k l) as [->|]; [reflexivity|now apply H].
  Qed.

  (* ---------- divides ---------- *)
  Lemma divides_true x y : divides o (ed_euc D) x y = true -> x <> 0 /\ exists q, y = q * x.
  Proof.
    unfold divides. intros H. apply andb_true_iff in H. destruct H as [H1 H2].
    apply negb_true_iff in H1. apply (is_zero_false D SL) in H1. apply (is_zero_true D SL) in H2.
    split; [exact H1|]. now apply (sl_rem_zero D SL).
  Qed.

  (* ---------- diag_normalize_step ---------- *)
  Lemma DiagR_swap i r T :
    S i < r -> DiagR r T -> DiagR r (m_swap_cols i (S i) (m_swap_rows i (S i) T)).
  Proof.
    intros Hi HD. pose proof HD as (W & Hr & Hoff & Hnz & Hz). fold o in Hoff, Hnz, Hz.
    assert (W1 : wf m n (m_swap_rows i (S i) T)) by (apply wf_swap_rows; try assumption; lia).
    assert (HE : forall a b, a < m -> b < n ->
               get (m_swap_cols i (S i) (m_swap_rows i (S i) T)) a b = get T (swp i (S i) a) (swp i (S i) b)).
    { intros a b Ha Hb. rewrite (get_swap_cols D m n) by (try assumption; lia).
      rewrite (get_swap_rows D m n); try assumption; try lia. reflexivity. }
    split; [now apply wf_swap_cols|]. split; [exact Hr|]. split; [|split].
    - intros k l Hk Hl Hne. rewrite HE by assumption. apply Hoff; unfold swp; ncase.
    - intros k Hk. rewrite HE by lia. unfold swp.
      destruct (Nat.eqb_spec k i); [apply Hnz; lia|]. destruct (Nat.eqb_spec k (S i)); apply Hnz; lia.
    - intros k Hk1 Hk2. rewrite HE by lia. unfold swp.
      destruct (Nat.eqb_spec k i); [lia|]. destruct (Nat.eqb_spec k (S i)); [lia|]. now apply Hz.
  Qed.

  Lemma DiagR_gcd_step i r T a b d sx ty :
    S i < r -> DiagR r T -> d <> 0 ->
    get T i i = a * d -> get T (S i) (S i) = b * d -> sx * a + ty * b = 1 ->
    let T1 := m_left_elem D 1 1 (- (ty * b)) (sx * a) i (S i) T in
    let T2 := m_right_elem D sx ty (- b) a i (S i) T1 in
    DiagR r T2 /\ get T2 i i = d /\ get T2 (S i) (S i) = a * b * d /\
    (forall k, k < Nat.min m n -> k <> i -> k <> S i -> get T2 k k = get T k k).
  Proof.
    intros Hi HD Hd Hx Hy Hbz T1 T2. pose proof HD as (W & Hr & Hoff & Hnz & Hz). fold o in Hoff, Hnz, Hz.
    assert (Him : S i < m) by lia. assert (Hin : S i < n) by lia.
    assert (W1 : wf m n T1) by (apply wf_left_elem; try assumption; lia).
    assert (W2 : wf m n T2) by now apply wf_right_elem.
    assert (HE : forall r0 k, r0 < m -> k < n ->
      get T2 r0 k =
        if k =? S i then get T1 r0 i * - b + get T1 r0 (S i) * a
        else if k =? i then get T1 r0 i * sx + get T1 r0 (S i) * ty
        else get T1 r0 k).
    { intros r0 k H1 H2. now apply (get_right_elem D m n). }
    assert (HE1 : forall r0 k, r0 < m -> k < n ->
      get T1 r0 k =
        if r0 =? S i then get T i k * - (ty * b) + get T (S i) k * (sx * a)
        else if r0 =? i then get T i k * 1 + get T (S i) k * 1
        else get T r0 k).
    { intros r0 k H1 H2. apply (get_left_elem D m n); try assumption; lia. }
    assert (Ha0 : a <> 0). { intros E. apply (Hnz i); [lia|]. rewrite Hx, E. ring. }
    assert (Hb0 : b <> 0). { intros E. apply (Hnz (S i)); [lia|]. rewrite Hy, E. ring. }
    (* the diagonal as an abstract function: [Hg] must not contain an instance of its own left-hand
       side, otherwise [rewrite !Hg] does not terminate *)
    pose (dg := fun k => get T k k).
    assert (Hg : forall k l, k < m -> l < n -> get T k l = if k =? l then dg k else 0).
    { intros. unfold dg. now apply (DiagR_get r). }
    change (dg i = a * d) in Hx. change (dg (S i) = b * d) in Hy.
    change (forall k, k < r -> dg k <> 0) in Hnz.
    change (forall k, r <= k -> k < Nat.min m n -> dg k = 0) in Hz.
    clearbody dg.
    assert (Eii : get T2 i i = d).
    { rewrite HE, !HE1, !Hg by lia. simp_eqb. rewrite Hx, Hy.
      transitivity ((sx * a + ty * b) * d); [ring|]. rewrite Hbz. ring. }
    assert (Ess : get T2 (S i) (S i) = a * b * d).
    { rewrite HE, !HE1, !Hg by lia. simp_eqb. rewrite Hx, Hy.
      transitivity (a * b * d * (sx * a + ty * b)); [ring|]. rewrite Hbz. ring. }
    assert (Eoth : forall k, k < Nat.min m n -> k <> i -> k <> S i -> get T2 k k = dg k).
    { intros k Hk Hk1 Hk2. rewrite HE, !HE1, !Hg by lia. simp_eqb. reflexivity. }
    split; [|split; [exact Eii|split; [exact Ess|]]].
    2:{ intros k Hk Hk1 Hk2. rewrite (Eoth k Hk Hk1 Hk2). symmetry.
        rewrite (Hg k k) by lia. now rewrite Nat.eqb_refl. }
    split; [exact W2|]. split; [exact Hr|]. split; [|split].
    - intros k l Hk Hl Hne. rewrite HE, !HE1, !Hg by lia.
      destruct (Nat.eq_dec l (S i)) as [->|Hl1]; [|destruct (Nat.eq_dec l i) as [->|Hl2]];
        (destruct (Nat.eq_dec k (S i)) as [->|Hk1]; [|destruct (Nat.eq_dec k i) as [->|Hk2]]);
        try lia; simp_eqb; try rewrite Hx; try rewrite Hy; fold o; ring.
    - intros k Hk. fold o. destruct (Nat.eq_dec k i) as [->|Hk1]; [now rewrite Eii|].
      destruct (Nat.eq_dec k (S i)) as [->|Hk2].
      + rewrite Ess. intros E. destruct (mul_eq_0 D SL _ _ E) as [E1|E1]; [|contradiction].
        destruct (mul_eq_0 D SL _ _ E1); contradiction.
      + rewrite HE, !HE1, !Hg by lia. simp_eqb. apply Hnz; lia.
    - intros k Hk1 Hk2. fold o. rewrite HE, !HE1, !Hg by lia. simp_eqb. apply Hz; lia.
  Qed.

  (* one step: the rank-r diagonal shape is kept; `true` means nothing changed and x | y *)
  Lemma diag_step_DiagR i r s sb :
    S i < r -> DiagR r (st_t s) -> diag_normalize_step D i s = Some sb ->
    DiagR r (st_t (fst sb)) /\
    (snd sb = true -> fst sb = s /\ divides o (ed_euc D) (get (st_t s) i i) (get (st_t s) (S i) (S i)) = true).
  Proof.
    intros Hi HD. unfold diag_normalize_step. cbv zeta. rewrite !mget_lget. fold o.
    destruct (_ || _); [discriminate|].
    destruct (divides o (ed_euc D) (get (st_t s) i i) (get (st_t s) (S i) (S i))) eqn:D1.
    { intros E. inversion E; subst sb. cbn [fst snd]. split; [exact HD|]. intros _. now split. }
    destruct (divides o (ed_euc D) (get (st_t s) (S i) (S i)) (get (st_t s) i i)) eqn:D2.
    { intros E. inversion E; subst sb. cbn [fst snd s_swap_cols s_swap_rows st_t].
      split; [now apply DiagR_swap|discriminate]. }
    destruct (snf_gcdx D _ _) as [[[d sx] ty]|] eqn:G; cbn [sbind]; [|discriminate].
    intros E. inversion E; subst sb; clear E. cbn [fst snd s_right_elem s_left_elem st_t].
    split; [|discriminate].
    destruct (snf_gcdx_spec D SL _ _ _ _ _ G) as (Hd & Hbez & Hx & Hy & Hone). fold o in Hbez, Hx, Hy, Hone.
    apply (DiagR_gcd_step i r (st_t s) _ _ d sx ty Hi HD Hd Hx Hy Hone).
  Qed.

  Lemma diag_pass_DiagR r is s sb :
    (forall i, In i is -> S i < r) -> DiagR r (st_t s) -> diag_pass D is s = Some sb ->
    DiagR r (st_t (fst sb)) /\
    (snd sb = true -> fst sb = s /\
       forall i, In i is -> divides o (ed_euc D) (get (st_t s) i i) (get (st_t s) (S i) (S i)) = true).
  Proof.
    revert s. induction is as [|i is IH]; intros s Hin HD H; cbn [diag_pass] in H.
    - inversion H; subst sb. cbn [fst snd]. split; [exact HD|]. intros _. split; [reflexivity|]. intros i [].
    - destruct (diag_normalize_step D i s) as [sb1|] eqn:E; cbn [sbind] in H; [|discriminate].
      apply (diag_step_DiagR i r s sb1) in E; [|apply Hin; now left|exact HD]. destruct E as [HD1 Ht].
      destruct (snd sb1) eqn:B.
      + destruct (Ht eq_refl) as [Es Hdiv]. rewrite Es in H.
        apply (IH s) in H; [|intros; apply Hin; now right|exact HD]. destruct H as [HD2 Ht2].
        split; [exact HD2|]. intros B2. destruct (Ht2 B2) as [E2 Hall]. split; [exact E2|].
        intros k [<-|Hk]; [exact Hdiv|now apply Hall].
      + inversion H; subst sb. cbn [fst snd]. split; [exact HD1|discriminate].
  Qed.

  Lemma diag_outer_DiagR fuel r s s' :
    DiagR r (st_t s) -> diag_outer D fuel r s = Some s' ->
    DiagR r (st_t s') /\
    forall i, S i < r -> divides o (ed_euc D) (get (st_t s') i i) (get (st_t s') (S i) (S i)) = true.
  Proof.
    revert s. induction fuel as [|f IH]; intros s HD H; cbn [diag_outer] in H; [discriminate|].
    destruct (diag_pass D (seq 0 (r - 1)) s) as [sb|] eqn:E; cbn [sbind] in H; [|discriminate].
    apply (diag_pass_DiagR r) in E; [|intros i Hi; apply in_seq in Hi; lia|exact HD]. destruct E as [HD1 Ht].
    destruct (snd sb) eqn:B.
    - inversion H; subst s'. destruct (Ht eq_refl) as [-> Hall]. split; [exact HD|].
      intros i Hi. apply Hall. apply in_seq. lia.
    - now apply (IH (fst sb)).
  Qed.

  (* ---------- the final unit normalisation ---------- *)
  Lemma DiagR_mul_row k r v vi T :
    k < r -> v * vi = 1 -> DiagR r T -> DiagR r (m_mul_row D k v T).
  Proof.
    intros Hk Hv (W & Hr & Hoff & Hnz & Hz). fold o in Hoff, Hnz, Hz.
    assert (HE : forall a b, a < m -> b < n ->
               get (m_mul_row D k v T) a b = if a =? k then get T a b * v else get T a b).
    { intros. now apply (get_mul_row D m n). }
    split; [now apply wf_mul_row|]. split; [exact Hr|]. split; [|split].
    - intros a b Ha Hb Hne. fold o. rewrite HE, Hoff by assumption. destruct (a =? k); ring.
    - intros a Ha. fold o. rewrite HE by lia. destruct (a =? k); [|now apply Hnz].
      intros E. destruct (mul_eq_0 D SL _ _ E) as [E1|E1]; [now apply (Hnz a)|].
      now apply (unit_neq_0 D SL v vi).
    - intros a Ha1 Ha2. fold o. rewrite HE by lia. rewrite Hz by assumption. destruct (a =? k); ring.
  Qed.

  Lemma diag_unit_body_spec k r s s' :
    k < r -> DiagR r (st_t s) -> Chain r (st_t s) -> Normal k (st_t s) ->
    diag_unit_body D k s = Some s' ->
    DiagR r (st_t s') /\ Chain r (st_t s') /\ Normal (S k) (st_t s').
  Proof.
    intros Hk HD HC HN. unfold diag_unit_body. cbv zeta. rewrite mget_lget. fold o.
    set (v := rnunit (ed_unit D) (get (st_t s) k k)).
    destruct (ris_one o v) eqn:O.
    - intros E. injection E as <-. split; [exact HD|]. split; [exact HC|].
      intros l Hl. destruct (Nat.eq_dec l k) as [->|]; [|apply HN; lia].
      now apply (is_one_true D SL) in O.
    - destruct (sl_nunit_inv D SL (get (st_t s) k k)) as [vi Hvi]. fold v in Hvi.
      rewrite (s_mul_row_eq D k v vi s Hvi). intros E. inversion E; subst s'; clear E. cbn [st_t].
      pose proof (sl_inv D SL _ _ Hvi) as Hv. fold o in Hv.
      pose proof HD as (W & Hr & Hoff & Hnz & Hz). fold o in Hoff, Hnz, Hz.
      assert (HE : forall a, a < r -> get (m_mul_row D k v (st_t s)) a a =
                                     if a =? k then get (st_t s) a a * v else get (st_t s) a a).
      { intros a Ha. apply (get_mul_row D m n); try assumption; lia. }
      split; [now apply (DiagR_mul_row k r v vi)|]. split.
      + intros l Hl. destruct (HC l Hl) as [q Hq]. rewrite !HE by lia.
        destruct (Nat.eqb_spec (S l) k); destruct (Nat.eqb_spec l k); try lia.
        * exists (q * v). rewrite Hq. ring.
        * exists (q * vi). rewrite Hq.
          transitivity (q * get (st_t s) l l * (v * vi)); [rewrite Hv|]; ring.
        * exists q. exact Hq.
      + intros l Hl. rewrite HE by lia. destruct (Nat.eqb_spec l k) as [->|].
        * apply (sl_nunit_idem D SL).
        * apply HN. lia.
  Qed.

  Lemma diag_unit_loop r s s' :
    DiagR r (st_t s) -> Chain r (st_t s) -> ofold (diag_unit_body D) (seq 0 r) s = Some s' ->
    DiagR r (st_t s') /\ Chain r (st_t s') /\ Normal r (st_t s').
  Proof.
    intros HD HC H.
    apply (ofold_seq_inv (fun k x => DiagR r (st_t x) /\ Chain r (st_t x) /\ Normal k (st_t x))) in H.
    - exact H.
    - intros k x x' Hk (H1 & H2 & H3) E. apply (diag_unit_body_spec k r x x'); try assumption; lia.
    - split; [exact HD|]. split; [exact HC|]. intros k Hk. lia.
  Qed.

  Lemma diag_normalize_exit r s s' :
    DiagR r (st_t s) -> diag_normalize D fp m n s = Some s' ->
    DiagR r (st_t s') /\ Chain r (st_t s') /\ Normal r (st_t s').
  Proof.
    intros HD. unfold diag_normalize. cbv zeta. rewrite (diag_rank_DiagR r) by exact HD.
    destruct (Nat.eqb_spec r 0) as [->|Hr0].
    - intros E. inversion E; subst s'. split; [exact HD|]. split; intros k Hk; lia.
    - destruct (diag_outer D _ r s) as [s1|] eqn:E1; cbn [sbind]; [|discriminate].
      apply (diag_outer_DiagR _ r s s1 HD) in E1. destruct E1 as [HD1 Hdiv].
      apply diag_unit_loop; [exact HD1|].
      intros k Hk. destruct (divides_true _ _ (Hdiv k Hk)) as [_ Hq]. exact Hq.
  Qed.

  (* ---------- process ---------- *)
  Lemma mat_is_zero_get T k l : mat_is_zero D T = true -> get T k l = 0.
  Proof.
    intros H. unfold mat_is_zero in H. rewrite forallb_forall in H. unfold lget.
    destruct (Nat.lt_ge_cases k (length T)) as [Hk|Hk].
    - specialize (H (nth k T []) (nth_In _ _ Hk)). rewrite forallb_forall in H.
      destruct (Nat.lt_ge_cases l (length (nth k T []))) as [Hl|Hl].
      + specialize (H _ (nth_In _ 0 Hl)). now apply (is_zero_true D SL) in H.
      + now apply nth_overflow.
    - rewrite (nth_overflow T) by assumption. now destruct l.
  Qed.

  Lemma process_exit (Hpre : pre_ok D) A fl s' :
    wf m n A -> process D fp m n (init_state D m n A fl) = Some s' ->
    exists r, DiagR r (st_t s') /\ Chain r (st_t s') /\ Normal r (st_t s').
  Proof.
    intros W. unfold process. destruct fl as [[[f1 f2] f3] f4].
    destruct (mat_is_zero D _) eqn:Z.
    - intros E. inversion E; subst s'. cbn [init_state st_t] in *. exists 0%nat.
      split; [|split; intros k Hk; lia].
      split; [exact W|]. split; [lia|]. split; [|split].
      + intros. now apply mat_is_zero_get.
      + intros k Hk. lia.
      + intros. now apply mat_is_zero_get.
    - destruct (preprocess D m n _) as [s1|] eqn:E1; cbn [sbind]; [|discriminate].
      destruct (eliminate_all D fp m n s1) as [s2|] eqn:E2; cbn [sbind]; [|discriminate].
      intros E3.
      assert (W1 : wf m n (st_t s1)).
      { apply (preprocess_init_inv D SL m n A f1 f2 f3 f4 Hpre s1 W) in E1.
        destruct E1 as (P & Pi & Q & Qi & WT & _). exact WT. }
      destruct (eliminate_all_diag D SL fp m n s1 s2 W1 E2) as [r HD].
      exists r. now apply (diag_normalize_exit r s2).
  Qed.
End Diag.

(* ---------- the result of snf ---------- *)
Section Result.
  Context {R : Type} (D : euc_dict R) (SL : snf_laws D) (Hpre : pre_ok D).
  Let o := ed_ring D.
  Local Notation get := (lget o).

  Theorem snf_exit (fp : fuel_policy R) m n (A : lmat R) fl res :
    wf m n A ->
    snf_with fp D (mk_dmat m n A) fl = Some res ->
    let T := dm_rows (sr_d res) in
    let r := snf_rank D res in
    r <= Nat.min m n /\
    (forall k l, k < m -> l < n -> k <> l -> get T k l = rzero o) /\
    (forall k, k < r -> get T k k <> rzero o) /\
    (forall k, r <= k -> k < Nat.min m n -> get T k k = rzero o) /\
    (forall k, k < r -> rnunit (ed_unit D) (get T k k) = rone o) /\
    (forall k, S k < r -> exists q, get T (S k) (S k) = rmul o q (get T k k)).
  Proof.
    intros W. unfold snf_with, snf_run. cbv zeta. cbn [dm_m dm_n dm_rows].
    destruct (process D fp m n _) as [s|] eqn:E; cbn [sbind]; [|discriminate].
    intros E1. inversion E1; subst res; clear E1.
    destruct (process_exit D SL fp m n Hpre A fl s W E) as (r & HD & HC & HN).
    unfold snf_rank. cbn [result_of sr_d dm_m dm_n dm_rows].
    rewrite (diag_rank_DiagR D SL m n r) by exact HD.
    destruct HD as (_ & Hr & Hoff & Hnz & Hz). repeat split; assumption.
  Qed.
End Result.
