(* C09 - the transformation invariant through every procedure of SnfCalc (eliminate_col / row,
   eliminate_at, eliminate_step, eliminate_all, diag_normalize, preprocess, process) and for the
   result of snf, for every fuel policy and every flag subset. *)
From Coq Require Import ZArith List Bool Arith Lia Ring.
Require Import Yui.Base.Ring Yui.Base.MatF Yui.Base.MatL Yui.Model.Snf Yui.Proofs.C09Mat Yui.Proofs.C09Inv.
Import ListNotations.

Lemma ofold_inv {S : Type} (I : S -> Prop) (f : nat -> S -> option S) l s s' :
  (forall k x x', In k l -> I x -> f k x = Some x' -> I x') -> I s -> ofold f l s = Some s' -> I s'.
Proof.
  revert s. induction l as [|k r IH]; intros s Hf Hs H; cbn in H.
  - now inversion H; subst.
  - destruct (f k s) as [s1|] eqn:E; [|discriminate].
    apply (IH s1); [intros; eapply Hf; eauto; now right| |exact H].
    eapply Hf; eauto. now left.
Qed.

(* the contract of the preprocessing step (C10's theorem for lll_hnf): H = P*A with P invertible,
   the transformation matrices being returned exactly when requested *)
Definition pre_ok {R : Type} (D : euc_dict R) : Prop :=
  match ed_pre D with
  | None => True
  | Some f =>
    forall m n b1 b2 (A H : lmat R) op opi,
      wf m n A -> f m n b1 b2 A = Some (H, op, opi) ->
      wf m n H /\
      exists P Pi, wf m m P /\ wf m m Pi /\ tracked b1 op P /\ tracked b2 opi Pi /\
        meq m n (lget (ed_ring D) H) (mmul (ed_ring D) m (lget (ed_ring D) P) (lget (ed_ring D) A)) /\
        meq m m (mmul (ed_ring D) m (lget (ed_ring D) P) (lget (ed_ring D) Pi)) (mid (ed_ring D)) /\
        meq m m (mmul (ed_ring D) m (lget (ed_ring D) Pi) (lget (ed_ring D) P)) (mid (ed_ring D))
  end.

Section Run.
  Context {R : Type} (D : euc_dict R) (SL : snf_laws D) (fp : fuel_policy R).
  Let o := ed_ring D.
  Let L : ring_laws o := sl_ring D SL.
  Add Ring Rring : (ring_theory_of_laws o L).

  Local Notation "0" := (rzero o).
  Local Notation "1" := (rone o).
  Local Infix "+" := (radd o).
  Local Infix "*" := (rmul o).
  Local Notation "- x" := (rneg o x).
  Local Notation get := (lget o).

  Variables m n : nat.
  Variable A : lmat R.
  Variables f1 f2 f3 f4 : bool.
  Local Notation SI := (SInv D m n A f1 f2 f3 f4).

  Lemma gcdx_det x y d s t :
    snf_gcdx D x y = Some (d, s, t) ->
    s * rdiv (ed_euc D) x d + - (t * - rdiv (ed_euc D) y d) = 1.
  Proof.
    intros G. destruct (snf_gcdx_spec D SL _ _ _ _ _ G) as (_ & _ & _ & _ & H). fold o in H.
    etransitivity; [|exact H]. ring.
  Qed.

  Lemma elim_col_body_inv i j i1 sm sm' :
    i < m -> i1 < m -> SI (fst sm) -> elim_col_body D i j i1 sm = Some sm' -> SI (fst sm').
  Proof.
    intros Hi Hi1 HS. unfold elim_col_body. cbv zeta.
    destruct ((i1 =? i) || ris_zero (ed_ring D) (mget D (st_t (fst sm)) i1 j)) eqn:C.
    - intros E. now inversion E; subst.
    - apply orb_false_iff in C. destruct C as [C _]. apply Nat.eqb_neq in C.
      destruct (snf_gcdx D _ _) as [[[d sx] ty]|] eqn:G; cbn [sbind]; [|discriminate].
      intros E. inversion E; subst sm'; clear E. cbn [fst].
      apply (SInv_left_elem D SL); try assumption; try lia.
      apply (gcdx_det _ _ _ _ _ G).
  Qed.

  Lemma eliminate_col_inv i j s r :
    i < m -> SI s -> eliminate_col D m i j s = Some r -> SI (fst r).
  Proof.
    intros Hi HS H. unfold eliminate_col in H.
    apply (ofold_inv (fun sm => SI (fst sm)) _ _ _ _ ) in H; [exact H| |exact HS].
    intros k x x' Hk Hx E. apply in_seq in Hk. apply (elim_col_body_inv i j k x x'); try assumption; lia.
  Qed.

  Lemma elim_row_body_inv i j j1 sm sm' :
    j < n -> j1 < n -> SI (fst sm) -> elim_row_body D i j j1 sm = Some sm' -> SI (fst sm').
  Proof.
    intros Hj Hj1 HS. unfold elim_row_body. cbv zeta.
    destruct ((j1 =? j) || ris_zero (ed_ring D) (mget D (st_t (fst sm)) i j1)) eqn:C.
    - intros E. now inversion E; subst.
    - apply orb_false_iff in C. destruct C as [C _]. apply Nat.eqb_neq in C.
      destruct (snf_gcdx D _ _) as [[[d sx] ty]|] eqn:G; cbn [sbind]; [|discriminate].
      intros E. inversion E; subst sm'; clear E. cbn [fst].
      apply (SInv_right_elem D SL); try assumption; try lia.
      apply (gcdx_det _ _ _ _ _ G).
  Qed.

  Lemma eliminate_row_inv i j s r :
    j < n -> SI s -> eliminate_row D n i j s = Some r -> SI (fst r).
  Proof.
    intros Hj HS H. unfold eliminate_row in H.
    apply (ofold_inv (fun sm => SI (fst sm)) _ _ _ _ ) in H; [exact H| |exact HS].
    intros k x x' Hk Hx E. apply in_seq in Hk. apply (elim_row_body_inv i j k x x'); try assumption; lia.
  Qed.

  Lemma eliminate_loop_inv fuel i j s s' :
    i < m -> j < n -> SI s -> eliminate_loop D m n fuel i j s = Some s' -> SI s'.
  Proof.
    intros Hi Hj. revert s. induction fuel as [|f IH]; intros s HS H; cbn [eliminate_loop] in H; [discriminate|].
    destruct (_ || _) in H.
    - destruct (eliminate_col D m i j s) as [r1|] eqn:E1; cbn [sbind] in H; [|discriminate].
      destruct (eliminate_row D n i j (fst r1)) as [r2|] eqn:E2; cbn [sbind] in H; [|discriminate].
      destruct (snd r1 || snd r2); [|discriminate].
      apply (IH (fst r2)); [|exact H].
      apply (eliminate_row_inv i j (fst r1)); try assumption.
      now apply (eliminate_col_inv i j s).
    - now inversion H; subst.
  Qed.

  Lemma eliminate_at_inv i j s s' :
    i < m -> j < n -> SI s -> eliminate_at D fp m n i j s = Some s' -> SI s'.
  Proof.
    intros Hi Hj HS. unfold eliminate_at. cbv zeta.
    destruct (ris_zero _ _); [discriminate|]. now apply eliminate_loop_inv.
  Qed.

  (* select_pivot returns a row index in [below, m) *)
  Lemma fold_min_in (T : lmat R) (r : list nat) (b : nat * nat) :
    let res := fold_left (fun best i => let c := row_nz D T i in if c <? snd best then (i, c) else best) r b in
    fst res = fst b \/ In (fst res) r.
  Proof.
    revert b. induction r as [|x r IH]; intros b; cbn [fold_left]; cbv zeta; [now left|].
    set (b' := if row_nz D T x <? snd b then (x, row_nz D T x) else b).
    specialize (IH b'). cbv zeta in IH.
    destruct IH as [E|E]; [|right; now right].
    rewrite E. unfold b'. destruct (row_nz D T x <? snd b); cbn [fst]; [right; now left|now left].
  Qed.

  Lemma select_pivot_range T below j ip :
    select_pivot D m T below j = Some ip ->
    below <= ip < m /\ ris_zero o (mget D T ip j) = false.
  Proof.
    unfold select_pivot.
    destruct (filter _ _) as [|i0 r] eqn:F; [discriminate|]. intros E. inversion E; subst ip; clear E.
    assert (Hin : forall x, In x (i0 :: r) -> below <= x < m /\ ris_zero o (mget D T x j) = false).
    { intros x Hx. rewrite <- F in Hx. apply filter_In in Hx. destruct Hx as [H1 H2].
      apply in_seq in H1. split; [lia|]. now apply negb_true_iff in H2. }
    pose proof (fold_min_in T r (i0, row_nz D T i0)) as H. cbv zeta in H. cbn [fst] in H.
    destruct H as [-> | H]; apply Hin; [now left|now right].
  Qed.

  Lemma eliminate_step_inv i j s r :
    i < m -> i <= j -> j < n -> SI s -> eliminate_step D fp m n i j s = Some r -> SI (fst r).
  Proof.
    intros Hi Hij Hj HS. unfold eliminate_step. cbv zeta.
    destruct (select_pivot D m (st_t s) i j) as [ip|] eqn:SP.
    2:{ intros E. now inversion E; subst. }
    apply select_pivot_range in SP. destruct SP as [Hip _].
    set (s1 := if i <? ip then s_swap_rows i ip s else s).
    assert (H1 : SI s1).
    { unfold s1. destruct (Nat.ltb_spec i ip); [|exact HS]. apply (SInv_swap_rows D SL); try assumption; lia. }
    set (s2 := if i <? j then s_swap_cols i j s1 else s1).
    assert (H2 : SI s2).
    { unfold s2. destruct (Nat.ltb_spec i j); [|exact H1]. apply (SInv_swap_cols D SL); try assumption; lia. }
    set (v := rnunit (ed_unit D) (mget D (st_t s2) i i)).
    destruct (sl_nunit_inv D SL (mget D (st_t s2) i i)) as [vi Hvi]. fold v in Hvi.
    destruct (SInv_mul_col D SL m n A f1 f2 f3 f4 i v vi s2 Hvi H2) as [s3' [E3 H3]].
    destruct (ris_one (ed_ring D) v).
    - cbn [sbind]. destruct (eliminate_at D fp m n i i s2) as [s4|] eqn:E4; cbn [sbind]; [|discriminate].
      intros E. inversion E; subst r; clear E. cbn [fst].
      apply (eliminate_at_inv i i s2); try assumption; lia.
    - rewrite E3. cbn [sbind]. destruct (eliminate_at D fp m n i i s3') as [s4|] eqn:E4; cbn [sbind]; [|discriminate].
      intros E. inversion E; subst r; clear E. cbn [fst].
      apply (eliminate_at_inv i i s3'); try assumption; lia.
  Qed.

  Lemma eliminate_all_loop_inv k j0 i s s' :
    Nat.add j0 k = n -> i <= j0 -> SI s -> eliminate_all_loop D fp m n (seq j0 k) i s = Some s' -> SI s'.
  Proof.
    revert j0 i s. induction k as [|k IH]; intros j0 i s Hn Hij HS H; cbn [seq eliminate_all_loop] in H.
    - now inversion H; subst.
    - destruct (Nat.leb_spec m i); [now inversion H; subst|].
      destruct (eliminate_step D fp m n i j0 s) as [sb|] eqn:E; cbn [sbind] in H; [|discriminate].
      apply (IH (S j0) (if snd sb then S i else i) (fst sb)); try lia.
      + destruct (snd sb); lia.
      + apply (eliminate_step_inv i j0 s); try assumption; lia.
      + exact H.
  Qed.

  Lemma eliminate_all_inv s s' : SI s -> eliminate_all D fp m n s = Some s' -> SI s'.
  Proof. intros HS H. apply (eliminate_all_loop_inv n 0 0 s s'); try assumption; lia. Qed.

  (* diag_normalize *)
  Lemma diag_step_inv i s r :
    S i < m -> S i < n -> SI s -> diag_normalize_step D i s = Some r -> SI (fst r).
  Proof.
    intros Him Hin HS. unfold diag_normalize_step. cbv zeta.
    destruct (_ || _); [discriminate|].
    destruct (divides _ _ _ _); [intros E; now inversion E; subst|].
    destruct (divides _ _ _ _).
    - intros E. inversion E; subst r; clear E. cbn [fst].
      apply (SInv_swap_cols D SL); try lia. apply (SInv_swap_rows D SL); try lia. exact HS.
    - destruct (snf_gcdx D _ _) as [[[d sx] ty]|] eqn:G; cbn [sbind]; [|discriminate].
      intros E. inversion E; subst r; clear E. cbn [fst].
      apply (SInv_right_elem D SL); try lia.
      + apply (gcdx_det _ _ _ _ _ G).
      + apply (SInv_left_elem D SL); try lia; [|exact HS].
        destruct (snf_gcdx_spec D SL _ _ _ _ _ G) as (_ & _ & _ & _ & H). fold o in H.
        fold o. etransitivity; [|exact H]. ring.
  Qed.

  Lemma diag_pass_inv r is s sb :
    r <= m -> r <= n -> (forall i, In i is -> S i < r) -> SI s -> diag_pass D is s = Some sb -> SI (fst sb).
  Proof.
    intros Hm Hn. revert s. induction is as [|i is IH]; intros s Hin HS H; cbn [diag_pass] in H.
    - now inversion H; subst.
    - destruct (diag_normalize_step D i s) as [sb1|] eqn:E; cbn [sbind] in H; [|discriminate].
      assert (H1 : SI (fst sb1)).
      { apply (diag_step_inv i s); try assumption; specialize (Hin i (or_introl eq_refl)); lia. }
      destruct (snd sb1).
      + apply (IH (fst sb1)); try assumption. intros; apply Hin; now right.
      + now inversion H; subst.
  Qed.

  Lemma diag_outer_inv fuel r s s' :
    r <= m -> r <= n -> SI s -> diag_outer D fuel r s = Some s' -> SI s'.
  Proof.
    intros Hm Hn. revert s. induction fuel as [|f IH]; intros s HS H; cbn [diag_outer] in H; [discriminate|].
    destruct (diag_pass D (seq 0 (r - 1)) s) as [sb|] eqn:E; cbn [sbind] in H; [|discriminate].
    assert (H1 : SI (fst sb)).
    { apply (diag_pass_inv r (seq 0 (r - 1)) s); try assumption. intros i Hi. apply in_seq in Hi. lia. }
    destruct (snd sb); [now inversion H; subst|]. now apply (IH (fst sb)).
  Qed.

  Lemma diag_unit_body_inv i s s' : SI s -> diag_unit_body D i s = Some s' -> SI s'.
  Proof.
    intros HS. unfold diag_unit_body. cbv zeta.
    destruct (ris_one _ _); [intros E; now inversion E; subst|].
    destruct (sl_nunit_inv D SL (mget D (st_t s) i i)) as [vi Hvi].
    destruct (SInv_mul_row D SL m n A f1 f2 f3 f4 i _ vi s Hvi HS) as [s3 [E3 H3]].
    rewrite E3. intros E. now inversion E; subst.
  Qed.

  Lemma first_zero_diag_le T is dflt bound :
    (forall i, In i is -> i <= bound) -> dflt <= bound -> first_zero_diag D T is dflt <= bound.
  Proof.
    induction is as [|i is IH]; intros H Hd; cbn; [exact Hd|].
    destruct (ris_zero _ _); [apply H; now left|]. apply IH; [|exact Hd]. intros; apply H; now right.
  Qed.

  Lemma diag_rank_le T : diag_rank D m n T <= Nat.min m n.
  Proof.
    unfold diag_rank. apply first_zero_diag_le; [|lia]. intros i Hi. apply in_seq in Hi. lia.
  Qed.

  Lemma diag_normalize_inv s s' : SI s -> diag_normalize D fp m n s = Some s' -> SI s'.
  Proof.
    intros HS. unfold diag_normalize. cbv zeta.
    pose proof (diag_rank_le (st_t s)) as Hr.
    destruct (_ =? 0); [intros E; now inversion E; subst|].
    destruct (diag_outer D _ _ s) as [s1|] eqn:E1; cbn [sbind]; [|discriminate].
    intros H. apply (ofold_inv SI) in H; [exact H| |].
    - intros k x x' _ Hx E. now apply (diag_unit_body_inv k x x').
    - apply (diag_outer_inv _ _ s s1) in E1; try assumption; lia.
  Qed.

  (* preprocess, from the initial state *)
  Lemma preprocess_init_inv (Hpre : pre_ok D) s1 :
    wf m n A -> preprocess D m n (init_state D m n A (f1, f2, f3, f4)) = Some s1 -> SI s1.
  Proof.
    intros W. unfold preprocess. unfold pre_ok in Hpre.
    destruct (ed_pre D) as [f|].
    2:{ intros E. inversion E; subst. now apply (SInv_init D SL). }
    destruct (f m n _ _ _) as [[[H op] opi]|] eqn:E; cbn [sbind]; [|discriminate].
    intros E1. inversion E1; subst s1; clear E1.
    cbn [init_state st_t st_p st_pinv st_q st_qinv] in E.
    destruct (Hpre _ _ _ _ _ _ _ _ W E) as (WH & P & Pi & WP & WPi & T1 & T2 & HH & HI1 & HI2).
    apply (SInv_intro D m n A f1 f2 f3 f4 _ P Pi (id_mat D n) (id_mat D n));
      cbn [init_state st_t st_p st_pinv st_q st_qinv]; try assumption; try apply wf_id.
    - unfold tracked in *. rewrite T1. now destruct f1.
    - unfold tracked in *. rewrite T2. now destruct f2.
    - reflexivity.
    - reflexivity.
    - split; [|split; [exact HI1|split; [exact HI2|split; apply (id_id_meq D SL)]]].
      eapply meq_trans; [exact HH|].
      apply (meq_mmul D m m n); [apply meq_refl|].
      apply meq_sym.
      eapply meq_trans; [apply (meq_mmul D m n n (get A) (get A) (get (id_mat D n)) (mid o))|].
      + apply meq_refl.
      + intros x y Hx Hy. now apply get_id.
      + apply (meq_id_r D SL).
  Qed.

  Lemma process_inv (Hpre : pre_ok D) s' :
    wf m n A -> process D fp m n (init_state D m n A (f1, f2, f3, f4)) = Some s' -> SI s'.
  Proof.
    intros W. unfold process.
    destruct (mat_is_zero D _).
    - intros E. inversion E; subst. now apply (SInv_init D SL).
    - destruct (preprocess D m n _) as [s1|] eqn:E1; cbn [sbind]; [|discriminate].
      destruct (eliminate_all D fp m n s1) as [s2|] eqn:E2; cbn [sbind]; [|discriminate].
      intros E3. apply (diag_normalize_inv s2); [|exact E3].
      apply (eliminate_all_inv s1); [|exact E2].
      now apply preprocess_init_inv.
  Qed.
End Run.

(* ---------- the result of snf ---------- *)
Section Result.
  Context {R : Type} (D : euc_dict R) (SL : snf_laws D) (Hpre : pre_ok D).
  Let o := ed_ring D.
  Local Notation get := (lget o).

  (* what a tracked / untracked output matrix looks like *)
  Definition out_is (k : nat) (b : bool) (x : option (dmat R)) (X : lmat R) : Prop :=
    x = if b then Some (mk_dmat k k X) else None.

  Theorem snf_invariant (fp : fuel_policy R) m n (A : lmat R) f1 f2 f3 f4 res :
    wf m n A ->
    snf_with fp D (mk_dmat m n A) (f1, f2, f3, f4) = Some res ->
    exists T P Pi Q Qi,
      sr_d res = mk_dmat m n T /\
      wf m n T /\ wf m m P /\ wf m m Pi /\ wf n n Q /\ wf n n Qi /\
      out_is m f1 (sr_p res) P /\ out_is m f2 (sr_pinv res) Pi /\
      out_is n f3 (sr_q res) Q /\ out_is n f4 (sr_qinv res) Qi /\
      meq m n (get T) (mmul o m (get P) (mmul o n (get A) (get Q))) /\
      meq m m (mmul o m (get P) (get Pi)) (mid o) /\ meq m m (mmul o m (get Pi) (get P)) (mid o) /\
      meq n n (mmul o n (get Q) (get Qi)) (mid o) /\ meq n n (mmul o n (get Qi) (get Q)) (mid o).
  Proof.
    intros W. unfold snf_with, snf_run. cbv zeta. cbn [dm_m dm_n dm_rows].
    destruct (process D fp m n _) as [s|] eqn:E; cbn [sbind]; [|discriminate].
    intros E1. inversion E1; subst res; clear E1.
    apply (process_inv D SL fp m n A f1 f2 f3 f4 Hpre s W) in E.
    destruct E as (P & Pi & Q & Qi & WT & WP & WPi & WQ & WQi & T1 & T2 & T3 & T4 & HT & H1 & H2 & H3 & H4).
    exists (st_t s), P, Pi, Q, Qi. cbn [result_of sr_d sr_p sr_pinv sr_q sr_qinv].
    unfold out_is, tracked in *. rewrite T1, T2, T3, T4.
    repeat (split; [first [assumption | reflexivity | now destruct f1 | now destruct f2 | now destruct f3 | now destruct f4]|]).
    assumption.
  Qed.
End Result.
