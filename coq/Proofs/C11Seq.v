(* C11 - the two sequential phases (find_fl_pivots, find_fl_col_pivots) never panic and preserve the
   pivot-set invariant PInv. *)
From Coq Require Import ZArith List Bool Arith Lia Permutation Sorted.
Require Import Yui.Model.Pivot Yui.Proofs.C11Base.
Import ListNotations.

Section Seq.
Variable M : mstr.
Hypothesis Hwf : wf_str M.

(* remain_rows: rows without a pivot, each once *)
Lemma remain_rows_In : forall P i, In i (remain_rows M P) -> ~ prow P i /\ i < m_rows M.
Proof.
  intros P i H. unfold remain_rows in H.
  apply (Permutation_in _ (sort_by_perm _ _)) in H. apply filter_In in H. destruct H as [Hs Hf].
  apply in_seq in Hs. apply andb_true_iff in Hf. destruct Hf as [Hf _]. apply negb_true_iff in Hf.
  split; [|lia]. intros Hp. apply has_row_prow in Hp. rewrite Hp in Hf. discriminate.
Qed.

Lemma remain_rows_NoDup : forall P, NoDup (remain_rows M P).
Proof.
  intros P. unfold remain_rows.
  eapply Permutation_NoDup; [apply Permutation_sym, sort_by_perm|].
  apply NoDup_filter. apply seq_NoDup.
Qed.

(* ---------------- phase 1 ---------------- *)
Definition heads_only (P : plog) : Prop := forall i j, In (i, j) P -> head_col_in M i = Some j.

Lemma heads_acyclic : forall P, heads_only P -> acyclic M P.
Proof.
  intros P Hh. exists (fun c => c). intros a b [r [Hin [Hb [Hne _]]]].
  eapply wf_head_lt; [exact Hwf | apply Hh; exact Hin | exact Hb | exact Hne].
Qed.

Lemma fl_loop : forall l P, NoDup l -> (forall i, In i l -> ~ prow P i) ->
  pivots_wf M P -> heads_only P ->
  exists P', fold_opt (fl_step M) l P = Some P' /\ pivots_wf M P' /\ heads_only P' /\
             (forall i, prow P' i -> prow P i \/ In i l) /\ incl P P'.
Proof.
  induction l as [|i r IH]; intros P Hnd Hfree Hpw Hh; cbn [fold_opt].
  - exists P. splits; [reflexivity | assumption | assumption | intros i Hi; left; exact Hi | apply incl_refl].
  - inversion Hnd as [|? ? Hi Hr]; subst.
    assert (Hstep : exists P1, fl_step M P i = Some P1 /\ pivots_wf M P1 /\ heads_only P1 /\
                      (forall i', prow P1 i' -> prow P i' \/ i' = i) /\ incl P P1).
    { unfold fl_step. destruct (head_col_in M i) as [j|] eqn:Eh.
      - destruct (negb (has_col P j) && is_cand M i j) eqn:Ec.
        + apply andb_true_iff in Ec. destruct Ec as [Ec1 Ec2]. apply negb_true_iff in Ec1.
          apply has_col_false in Ec1. rewrite (pset_Some P i j Ec1).
          exists (P ++ [(i, j)]). split; [reflexivity|]. split; [|split; [|split]].
          * apply pivots_wf_add; try assumption; [apply Hfree; left; reflexivity | apply head_col_In; exact Eh].
          * intros i' j' H. apply in_app_or in H. destruct H as [H|[H|[]]]; [apply Hh; exact H|].
            inversion H; subst. exact Eh.
          * intros i' [j' H]. apply in_app_or in H. destruct H as [H|[H|[]]]; [left; exists j'; exact H|].
            inversion H; subst. right. reflexivity.
          * apply incl_appl, incl_refl.
        + exists P. splits; [reflexivity | assumption | assumption | intros i' Hi'; left; exact Hi' | apply incl_refl].
      - exists P. splits; [reflexivity | assumption | assumption | intros i' Hi'; left; exact Hi' | apply incl_refl]. }
    destruct Hstep as [P1 [E1 [Hpw1 [Hh1 [Hrows1 Hinc1]]]]]. rewrite E1.
    destruct (IH P1 Hr) as [P' [E' [Hpw' [Hh' [Hrows' Hinc']]]]]; try assumption.
    { intros i' Hi' Hp. destruct (Hrows1 i' Hp) as [Hp'|Heq].
      - apply (Hfree i'); [right; exact Hi' | exact Hp'].
      - subst. apply Hi. exact Hi'. }
    exists P'. split; [exact E'|]. split; [exact Hpw'|]. split; [exact Hh'|]. split.
    + intros i' Hp. destruct (Hrows' i' Hp) as [Hp1|Hin]; [|right; right; exact Hin].
      destruct (Hrows1 i' Hp1) as [Hp0|Heq]; [left; exact Hp0 | right; left; symmetry; exact Heq].
    + eapply incl_tran; eassumption.
Qed.

(* find_fl_pivots starts from the empty table *)
Lemma find_fl_pivots_ok : exists P1, find_fl_pivots M [] = Some P1 /\ PInv M P1.
Proof.
  unfold find_fl_pivots.
  destruct (fl_loop (remain_rows M []) []) as [P' [E [Hpw [Hh _]]]].
  - apply remain_rows_NoDup.
  - intros i Hi. apply remain_rows_In in Hi. apply Hi.
  - apply PInv_nil.
  - intros i j [].
  - exists P'. split; [exact E|]. split; [exact Hpw | apply heads_acyclic; exact Hh].
Qed.

(* ---------------- phase 2 ---------------- *)
Definition occ_ok (P : plog) (occ : list nat) : Prop :=
  forall r c, In (r, c) P -> forall c', In c' (cols_in M r) -> In c' occ.

Lemma occupied_cols_ok : forall P, occ_ok P (occupied_cols M P).
Proof.
  intros P r c Hin c' Hc'. unfold occupied_cols. apply in_flat_map. exists (r, c). split; [exact Hin | exact Hc'].
Qed.

Lemma flc_loop : forall l P occ, NoDup l -> (forall i, In i l -> ~ prow P i) ->
  PInv M P -> occ_ok P occ ->
  exists P' occ', fold_opt (flc_step M) l (P, occ) = Some (P', occ') /\ PInv M P' /\
             (forall i, prow P' i -> prow P i \/ In i l) /\ incl P P'.
Proof.
  induction l as [|i r IH]; intros P occ Hnd Hfree HP Hocc; cbn [fold_opt].
  - exists P, occ. splits; [reflexivity | exact HP | intros i Hi; left; exact Hi | apply incl_refl].
  - inversion Hnd as [|? ? Hi Hr]; subst.
    assert (Hstep : exists P1 occ1, flc_step M (P, occ) i = Some (P1, occ1) /\ PInv M P1 /\ occ_ok P1 occ1 /\
                      (forall i', prow P1 i' -> prow P i' \/ i' = i) /\ incl P P1).
    { unfold flc_step.
      destruct (min_by (col_key M) (filter (fun j => negb (memb j occ) && is_cand M i j) (cols_in M i))) as [j|] eqn:Em.
      - apply min_by_In in Em. apply filter_In in Em. destruct Em as [Hji Hf].
        apply andb_true_iff in Hf. destruct Hf as [Hf1 Hcand]. apply negb_true_iff in Hf1. apply memb_false in Hf1.
        destruct HP as [Hpw Hac].
        assert (Hnot : forall r0 c, In (r0, c) P -> ~ In j (cols_in M r0)).
        { intros r0 c Hin Hj. apply Hf1. eapply Hocc; eassumption. }
        assert (Hent : forall r0 c, In (r0, c) P -> In c (cols_in M r0)).
        { intros r0 c Hin. apply Hpw. exact Hin. }
        assert (Hfresh : ~ pcol P j).
        { intros [r0 Hr0]. apply (Hnot r0 j Hr0). apply Hent. exact Hr0. }
        rewrite (pset_Some P i j Hfresh).
        exists (P ++ [(i, j)]), (cols_in M i ++ occ). split; [reflexivity|]. split; [|split; [|split]].
        + split.
          * apply pivots_wf_add; try assumption. apply Hfree. left. reflexivity.
          * apply acyclic_add_source; assumption.
        + intros r0 c Hin c' Hc'. apply in_app_or in Hin. destruct Hin as [Hin|[Hin|[]]].
          * apply in_or_app. right. eapply Hocc; eassumption.
          * inversion Hin; subst. apply in_or_app. left. exact Hc'.
        + intros i' [j' H]. apply in_app_or in H. destruct H as [H|[H|[]]]; [left; exists j'; exact H|].
          inversion H; subst. right. reflexivity.
        + apply incl_appl, incl_refl.
      - exists P, occ. splits; [reflexivity | exact HP | exact Hocc | intros i' Hi'; left; exact Hi' | apply incl_refl]. }
    destruct Hstep as [P1 [occ1 [E1 [HP1 [Hocc1 [Hrows1 Hinc1]]]]]]. rewrite E1.
    destruct (IH P1 occ1 Hr) as [P' [occ' [E' [HP' [Hrows' Hinc']]]]]; try assumption.
    { intros i' Hi' Hp. destruct (Hrows1 i' Hp) as [Hp'|Heq].
      - apply (Hfree i'); [right; exact Hi' | exact Hp'].
      - subst. apply Hi. exact Hi'. }
    exists P', occ'. split; [exact E'|]. split; [exact HP'|]. split.
    + intros i' Hp. destruct (Hrows' i' Hp) as [Hp1|Hin]; [|right; right; exact Hin].
      destruct (Hrows1 i' Hp1) as [Hp0|Heq]; [left; exact Hp0 | right; left; symmetry; exact Heq].
    + eapply incl_tran; eassumption.
Qed.

Lemma find_fl_col_pivots_ok : forall P, PInv M P ->
  exists P2, find_fl_col_pivots M P = Some P2 /\ PInv M P2 /\ incl P P2.
Proof.
  intros P HP. unfold find_fl_col_pivots.
  destruct (flc_loop (remain_rows M P) P (occupied_cols M P)) as [P' [occ' [E [HP' [_ Hinc]]]]].
  - apply remain_rows_NoDup.
  - intros i Hi. apply remain_rows_In in Hi. apply Hi.
  - exact HP.
  - apply occupied_cols_ok.
  - rewrite E. exists P'. splits; [reflexivity | exact HP' | exact Hinc].
Qed.

End Seq.
