(* Calculus of shaped dense matrices ([dmat] of Model/Reducer.v) with Leibniz equality:
   associativity, units, distributivity, block (hcat/vcat) multiplication.  All facts are proved through
   the functional matrices of Base/MatF.v. *)
From Coq Require Import Arith List Lia Bool Ring.
Require Import Yui.Base.Ring Yui.Base.MatF Yui.Base.MatL Yui.Model.Reducer.
Import ListNotations.

Section DMat.
  Context {R : Type} (o : ring_ops R) (L : ring_laws o).
  Add Ring Rring : (ring_theory_of_laws o L).
  Local Notation dmat := (dmat R).
  Local Notation r0 := (rzero o).
  Local Notation r1 := (rone o).

  Definition dwf (A : dmat) : Prop := wf (dr A) (dc A) (de A).

  Lemma dwfb_dwf A : dwfb A = true <-> dwf A.
  Proof. apply wfb_wf. Qed.

  Lemma dwf_dmk m n (f : nat -> nat -> R) : dwf (dmk m n f).
  Proof. apply wf_lmk. Qed.

  Lemma dget_dmk m n (f : nat -> nat -> R) i j : i < m -> j < n -> dget o (dmk m n f) i j = f i j.
  Proof. intros. unfold dget, dmk. cbn [de]. now apply lget_lmk. Qed.

  Lemma dget_out_r A i j : dwf A -> dr A <= i -> dget o A i j = r0.
  Proof.
    intros [H1 _] Hi. unfold dget, lget. rewrite (nth_overflow (de A)) by lia. now destruct j.
  Qed.

  Lemma dget_out_c A i j : dwf A -> dc A <= j -> dget o A i j = r0.
  Proof.
    intros [H1 H2] Hj. unfold dget, lget.
    destruct (Nat.lt_ge_cases i (length (de A))) as [Hi|Hi].
    - rewrite Forall_forall in H2. apply nth_overflow. rewrite (H2 (nth i (de A) [])); [lia|]. now apply nth_In.
    - rewrite (nth_overflow (de A)) by lia. now destruct j.
  Qed.

  Lemma dget_dmk_all m n (f : nat -> nat -> R) i j :
    dget o (dmk m n f) i j = if (i <? m) && (j <? n) then f i j else r0.
  Proof.
    destruct (Nat.ltb_spec i m) as [Hi|Hi]; cbn [andb].
    - destruct (Nat.ltb_spec j n) as [Hj|Hj].
      + now apply dget_dmk.
      + apply dget_out_c; [apply dwf_dmk|]. exact Hj.
    - apply dget_out_r; [apply dwf_dmk|]. exact Hi.
  Qed.

  Lemma dmat_ext A B :
    dwf A -> dwf B -> dr A = dr B -> dc A = dc B ->
    (forall i j, i < dr A -> j < dc A -> dget o A i j = dget o B i j) -> A = B.
  Proof.
    destruct A as [m n a], B as [m' n' b]. unfold dwf, dget. cbn [dr dc de]. intros HA HB -> -> H.
    f_equal. now apply (lmat_ext o m' n').
  Qed.

  Lemma dmk_ext m n (f g : nat -> nat -> R) : (forall i j, i < m -> j < n -> f i j = g i j) -> dmk m n f = dmk m n g.
  Proof.
    intros H. apply dmat_ext; try apply dwf_dmk; try reflexivity.
    intros i j Hi Hj. cbn [dr dc dmk] in Hi, Hj. rewrite !dget_dmk by assumption. now apply H.
  Qed.

  Lemma dmk_eta A : dwf A -> dmk (dr A) (dc A) (dget o A) = A.
  Proof.
    intros H. apply dmat_ext; try apply dwf_dmk; try assumption; try reflexivity.
    intros i j Hi Hj. cbn [dr dc dmk] in Hi, Hj. now rewrite dget_dmk.
  Qed.

  (* ---------- shapes ---------- *)
  Lemma dr_dmk m n (f : nat -> nat -> R) : dr (dmk m n f) = m. Proof. reflexivity. Qed.
  Lemma dc_dmk m n (f : nat -> nat -> R) : dc (dmk m n f) = n. Proof. reflexivity. Qed.
  Lemma dr_dmul A B : dr (dmul o A B) = dr A. Proof. reflexivity. Qed.
  Lemma dc_dmul A B : dc (dmul o A B) = dc B. Proof. reflexivity. Qed.
  Lemma dr_dadd A B : dr (dadd o A B) = dr A. Proof. reflexivity. Qed.
  Lemma dc_dadd A B : dc (dadd o A B) = dc A. Proof. reflexivity. Qed.
  Lemma dr_dneg A : dr (dneg o A) = dr A. Proof. reflexivity. Qed.
  Lemma dc_dneg A : dc (dneg o A) = dc A. Proof. reflexivity. Qed.
  Lemma dr_dsub A B : dr (dsub o A B) = dr A. Proof. reflexivity. Qed.
  Lemma dc_dsub A B : dc (dsub o A B) = dc A. Proof. reflexivity. Qed.
  Lemma dr_dzero m n : dr (dzero o m n) = m. Proof. reflexivity. Qed.
  Lemma dc_dzero m n : dc (dzero o m n) = n. Proof. reflexivity. Qed.
  Lemma dr_did n : dr (did o n) = n. Proof. reflexivity. Qed.
  Lemma dc_did n : dc (did o n) = n. Proof. reflexivity. Qed.
  Lemma dr_dhcat A B : dr (dhcat o A B) = dr A. Proof. reflexivity. Qed.
  Lemma dc_dhcat A B : dc (dhcat o A B) = dc A + dc B. Proof. reflexivity. Qed.
  Lemma dr_dvcat A B : dr (dvcat o A B) = dr A + dr B. Proof. reflexivity. Qed.
  Lemma dc_dvcat A B : dc (dvcat o A B) = dc A. Proof. reflexivity. Qed.
  Lemma dr_dblock A i0 j0 m n : dr (dblock o A i0 j0 m n) = m. Proof. reflexivity. Qed.
  Lemma dc_dblock A i0 j0 m n : dc (dblock o A i0 j0 m n) = n. Proof. reflexivity. Qed.
  Lemma dr_dtrans A : dr (dtrans o A) = dc A. Proof. reflexivity. Qed.
  Lemma dc_dtrans A : dc (dtrans o A) = dr A. Proof. reflexivity. Qed.

  Lemma dwf_dmul A B : dwf (dmul o A B). Proof. apply dwf_dmk. Qed.
  Lemma dwf_dadd A B : dwf (dadd o A B). Proof. apply dwf_dmk. Qed.
  Lemma dwf_dneg A : dwf (dneg o A). Proof. apply dwf_dmk. Qed.
  Lemma dwf_dsub A B : dwf (dsub o A B). Proof. apply dwf_dmk. Qed.
  Lemma dwf_dzero m n : dwf (dzero o m n). Proof. apply dwf_dmk. Qed.
  Lemma dwf_did n : dwf (did o n). Proof. apply dwf_dmk. Qed.
  Lemma dwf_dhcat A B : dwf (dhcat o A B). Proof. apply dwf_dmk. Qed.
  Lemma dwf_dvcat A B : dwf (dvcat o A B). Proof. apply dwf_dmk. Qed.
  Lemma dwf_dblock A i0 j0 m n : dwf (dblock o A i0 j0 m n). Proof. apply dwf_dmk. Qed.
  Lemma dwf_dtrans A : dwf (dtrans o A). Proof. apply dwf_dmk. Qed.
End DMat.

#[export] Hint Rewrite @dr_dmk @dc_dmk @dr_dmul @dc_dmul @dr_dadd @dc_dadd @dr_dneg @dc_dneg @dr_dsub @dc_dsub
  @dr_dzero @dc_dzero @dr_did @dc_did @dr_dhcat @dc_dhcat @dr_dvcat @dc_dvcat @dr_dblock @dc_dblock
  @dr_dtrans @dc_dtrans : ddim.
#[export] Hint Resolve dwf_dmk dwf_dmul dwf_dadd dwf_dneg dwf_dsub dwf_dzero dwf_did dwf_dhcat dwf_dvcat
  dwf_dblock dwf_dtrans : dwf.

Ltac dims := autorewrite with ddim in *; try lia; try reflexivity; try assumption.
Ltac dwfs := auto with dwf.

Section DMatAlg.
  Context {R : Type} (o : ring_ops R) (L : ring_laws o).
  Add Ring Rring2 : (ring_theory_of_laws o L).
  Local Notation dmat := (dmat R).
  Local Notation r0 := (rzero o).
  Local Notation r1 := (rone o).
  Local Notation dwf := (@dwf R).

  (* ---------- entries ---------- *)
  Lemma dget_dmul A B i j : i < dr A -> j < dc B ->
    dget o (dmul o A B) i j = mmul o (dc A) (dget o A) (dget o B) i j.
  Proof. intros. unfold dmul. now rewrite dget_dmk. Qed.

  Lemma dget_dadd A B i j : i < dr A -> j < dc A ->
    dget o (dadd o A B) i j = radd o (dget o A i j) (dget o B i j).
  Proof. intros. unfold dadd. now rewrite dget_dmk. Qed.

  Lemma dget_dneg A i j : i < dr A -> j < dc A -> dget o (dneg o A) i j = rneg o (dget o A i j).
  Proof. intros. unfold dneg. now rewrite dget_dmk. Qed.

  Lemma dget_dsub A B i j : i < dr A -> j < dc A ->
    dget o (dsub o A B) i j = radd o (dget o A i j) (rneg o (dget o B i j)).
  Proof. intros. unfold dsub. now rewrite dget_dmk. Qed.

  Lemma dget_dzero m n i j : dget o (dzero o m n) i j = r0.
  Proof. unfold dzero. rewrite dget_dmk_all. now destruct ((i <? m) && (j <? n)). Qed.

  Lemma dget_did n i j : i < n -> j < n -> dget o (did o n) i j = mid o i j.
  Proof. intros. unfold did. now rewrite dget_dmk. Qed.

  Lemma dget_dtrans A i j : i < dc A -> j < dr A -> dget o (dtrans o A) i j = dget o A j i.
  Proof. intros. unfold dtrans. now rewrite dget_dmk. Qed.

  Lemma dget_dblock A i0 j0 m n i j : i < m -> j < n -> dget o (dblock o A i0 j0 m n) i j = dget o A (i0 + i) (j0 + j).
  Proof. intros. unfold dblock. now rewrite dget_dmk. Qed.

  Lemma dget_dhcat A B i j : i < dr A -> j < dc A + dc B ->
    dget o (dhcat o A B) i j = if j <? dc A then dget o A i j else dget o B i (j - dc A).
  Proof. intros. unfold dhcat. now rewrite dget_dmk. Qed.

  Lemma dget_dvcat A B i j : i < dr A + dr B -> j < dc A ->
    dget o (dvcat o A B) i j = if i <? dr A then dget o A i j else dget o B (i - dr A) j.
  Proof. intros. unfold dvcat. now rewrite dget_dmk. Qed.

  (* ---------- multiplication ---------- *)
  Lemma dmul_assoc A B C : dc A = dr B -> dmul o (dmul o A B) C = dmul o A (dmul o B C).
  Proof.
    intros H. unfold dmul at 1 3. apply (dmk_ext o). intros i j Hi Hj. autorewrite with ddim in *.
    transitivity (mmul o (dc B) (mmul o (dc A) (dget o A) (dget o B)) (dget o C) i j).
    - unfold mmul at 1. apply sum_ext. intros k Hk. now rewrite dget_dmul.
    - rewrite (mmul_assoc o L). unfold mmul at 1. apply sum_ext. intros k Hk.
      rewrite dget_dmul by lia. reflexivity.
  Qed.

  Lemma dmul_id_l A n : dwf A -> dr A = n -> dmul o (did o n) A = A.
  Proof.
    intros HA <-. apply (dmat_ext o); dwfs. intros i j Hi Hj. dims.
    rewrite dget_dmul by dims. dims.
    transitivity (mmul o (dr A) (mid o) (dget o A) i j).
    - unfold mmul. apply sum_ext. intros k Hk. now rewrite dget_did.
    - now apply (mmul_id_l o L).
  Qed.

  Lemma dmul_id_r A n : dwf A -> dc A = n -> dmul o A (did o n) = A.
  Proof.
    intros HA <-. apply (dmat_ext o); dwfs. intros i j Hi Hj. dims.
    rewrite dget_dmul by dims.
    transitivity (mmul o (dc A) (dget o A) (mid o) i j).
    - unfold mmul. apply sum_ext. intros k Hk. now rewrite dget_did.
    - now apply (mmul_id_r o L).
  Qed.

  Lemma dmul_zero_l m n A : dmul o (dzero o m n) A = dzero o m (dc A).
  Proof.
    apply (dmat_ext o); dwfs. intros i j Hi Hj. dims.
    rewrite dget_dmul by dims. rewrite dget_dzero. unfold mmul.
    apply (sum_zero_ext o L). intros k Hk. rewrite dget_dzero. ring.
  Qed.

  Lemma dmul_zero_r A m n : dmul o A (dzero o m n) = dzero o (dr A) n.
  Proof.
    apply (dmat_ext o); dwfs. intros i j Hi Hj. dims.
    rewrite dget_dmul by dims. rewrite dget_dzero. unfold mmul.
    apply (sum_zero_ext o L). intros k Hk. rewrite dget_dzero. ring.
  Qed.

  Lemma dmul_add_l A B C : dr A = dr B -> dc A = dc B ->
    dmul o (dadd o A B) C = dadd o (dmul o A C) (dmul o B C).
  Proof.
    intros H1 H2. apply (dmat_ext o); dwfs. intros i j Hi Hj. dims.
    rewrite dget_dmul, dget_dadd, !dget_dmul by dims. dims.
    rewrite <- H2. unfold mmul. rewrite <- (sum_add o L). apply sum_ext. intros k Hk.
    rewrite dget_dadd by lia. ring.
  Qed.

  Lemma dmul_add_r A B C : dc A = dr B -> dr B = dr C -> dc B = dc C ->
    dmul o A (dadd o B C) = dadd o (dmul o A B) (dmul o A C).
  Proof.
    intros H1 H2 H3. apply (dmat_ext o); dwfs. intros i j Hi Hj. dims.
    rewrite dget_dmul, dget_dadd, !dget_dmul by dims.
    unfold mmul. rewrite <- (sum_add o L). apply sum_ext. intros k Hk.
    rewrite dget_dadd by lia. ring.
  Qed.

  Lemma dmul_neg_l A B : dmul o (dneg o A) B = dneg o (dmul o A B).
  Proof.
    apply (dmat_ext o); dwfs. intros i j Hi Hj. dims.
    rewrite dget_dmul, dget_dneg, dget_dmul by dims. dims.
    unfold mmul. rewrite <- (sum_neg o L). apply sum_ext. intros k Hk.
    rewrite dget_dneg by lia. ring.
  Qed.

  Lemma dmul_neg_r A B : dc A = dr B -> dmul o A (dneg o B) = dneg o (dmul o A B).
  Proof.
    intros H. apply (dmat_ext o); dwfs. intros i j Hi Hj. dims.
    rewrite dget_dmul, dget_dneg, dget_dmul by dims.
    unfold mmul. rewrite <- (sum_neg o L). apply sum_ext. intros k Hk.
    rewrite dget_dneg by lia. ring.
  Qed.

  (* ---------- additive group, entrywise ---------- *)
  Lemma dadd_comm A B : dr A = dr B -> dc A = dc B -> dadd o A B = dadd o B A.
  Proof.
    intros H1 H2. apply (dmat_ext o); dwfs. intros i j Hi Hj. dims.
    rewrite !dget_dadd by lia. ring.
  Qed.

  Lemma dadd_zero_r A : dwf A -> dadd o A (dzero o (dr A) (dc A)) = A.
  Proof.
    intros H. apply (dmat_ext o); dwfs. intros i j Hi Hj. dims.
    rewrite dget_dadd, dget_dzero by lia. ring.
  Qed.

  Lemma dadd_zero_l A : dwf A -> dadd o (dzero o (dr A) (dc A)) A = A.
  Proof.
    intros H. apply (dmat_ext o); dwfs. intros i j Hi Hj. dims.
    rewrite dget_dadd, dget_dzero by dims. ring.
  Qed.

  Lemma dadd_neg_r A : dadd o A (dneg o A) = dzero o (dr A) (dc A).
  Proof.
    apply (dmat_ext o); dwfs. intros i j Hi Hj. dims.
    rewrite dget_dadd, dget_dneg, dget_dzero by lia. ring.
  Qed.

  Lemma dadd_neg_l A : dadd o (dneg o A) A = dzero o (dr A) (dc A).
  Proof.
    apply (dmat_ext o); dwfs. intros i j Hi Hj. dims.
    rewrite dget_dadd, dget_dneg, dget_dzero by dims. ring.
  Qed.

  Lemma dneg_zero m n : dneg o (dzero o m n) = dzero o m n.
  Proof.
    apply (dmat_ext o); dwfs. intros i j Hi Hj. dims.
    rewrite dget_dneg, !dget_dzero by dims. ring.
  Qed.

  Lemma dsub_eq A B : dr A = dr B -> dc A = dc B -> dsub o A B = dadd o A (dneg o B).
  Proof.
    intros H1 H2. apply (dmat_ext o); dwfs. intros i j Hi Hj. dims.
    rewrite dget_dsub, dget_dadd, dget_dneg by lia. reflexivity.
  Qed.

  (* ---------- blocks ---------- *)
  Lemma dmul_hcat_vcat A B C D :
    dr A = dr B -> dc A = dr C -> dc B = dr D -> dc C = dc D ->
    dmul o (dhcat o A B) (dvcat o C D) = dadd o (dmul o A C) (dmul o B D).
  Proof.
    intros H1 H2 H3 H4. apply (dmat_ext o); dwfs. intros i j Hi Hj. dims.
    rewrite dget_dmul, dget_dadd, !dget_dmul by dims. dims.
    unfold mmul. rewrite (sum_split o L). f_equal.
    - apply sum_ext. intros k Hk. rewrite dget_dhcat, dget_dvcat by lia.
      destruct (Nat.ltb_spec k (dc A)); [|lia]. destruct (Nat.ltb_spec k (dr C)); [|lia]. reflexivity.
    - apply sum_ext. intros k Hk. rewrite dget_dhcat, dget_dvcat by lia.
      destruct (Nat.ltb_spec (dc A + k) (dc A)); [lia|]. destruct (Nat.ltb_spec (dc A + k) (dr C)); [lia|].
      replace (dc A + k - dc A) with k by lia. replace (dc A + k - dr C) with k by lia. reflexivity.
  Qed.

  Lemma dmul_vcat_l A B C : dc A = dc B ->
    dmul o (dvcat o A B) C = dvcat o (dmul o A C) (dmul o B C).
  Proof.
    intros H. apply (dmat_ext o); dwfs. intros i j Hi Hj. dims.
    rewrite dget_dmul, dget_dvcat by dims. dims.
    destruct (Nat.ltb_spec i (dr A)) as [Hlt|Hge].
    - rewrite dget_dmul by lia. unfold mmul. apply sum_ext. intros k Hk.
      rewrite dget_dvcat by lia. destruct (Nat.ltb_spec i (dr A)); [|lia]. reflexivity.
    - rewrite dget_dmul by (dims; lia). rewrite <- H. unfold mmul. apply sum_ext. intros k Hk.
      rewrite dget_dvcat by lia. destruct (Nat.ltb_spec i (dr A)); [lia|]. reflexivity.
  Qed.

  Lemma dmul_hcat_r A B C : dc A = dr B -> dr B = dr C ->
    dmul o A (dhcat o B C) = dhcat o (dmul o A B) (dmul o A C).
  Proof.
    intros H1 H2. apply (dmat_ext o); dwfs. intros i j Hi Hj. dims.
    rewrite dget_dmul, dget_dhcat by dims. dims.
    destruct (Nat.ltb_spec j (dc B)) as [Hlt|Hge].
    - rewrite dget_dmul by lia. unfold mmul. apply sum_ext. intros k Hk.
      rewrite dget_dhcat by lia. destruct (Nat.ltb_spec j (dc B)); [|lia]. reflexivity.
    - rewrite dget_dmul by (dims; lia). unfold mmul. apply sum_ext. intros k Hk.
      rewrite dget_dhcat by lia. destruct (Nat.ltb_spec j (dc B)); [lia|]. reflexivity.
  Qed.

  Lemma dadd_hcat A B C D : dr A = dr B -> dr A = dr C -> dr A = dr D -> dc A = dc C -> dc B = dc D ->
    dadd o (dhcat o A B) (dhcat o C D) = dhcat o (dadd o A C) (dadd o B D).
  Proof.
    intros H1 H2 H3 H4 H5. apply (dmat_ext o); dwfs. intros i j Hi Hj. dims.
    rewrite dget_dadd, !dget_dhcat by dims. dims. rewrite <- H4.
    destruct (Nat.ltb_spec j (dc A)).
    - now rewrite dget_dadd by lia.
    - now rewrite dget_dadd by lia.
  Qed.

  Lemma dadd_vcat A B C D : dc A = dc B -> dc A = dc C -> dc A = dc D -> dr A = dr C -> dr B = dr D ->
    dadd o (dvcat o A B) (dvcat o C D) = dvcat o (dadd o A C) (dadd o B D).
  Proof.
    intros H1 H2 H3 H4 H5. apply (dmat_ext o); dwfs. intros i j Hi Hj. dims.
    rewrite dget_dadd, !dget_dvcat by dims. dims. rewrite <- H4.
    destruct (Nat.ltb_spec i (dr A)).
    - now rewrite dget_dadd by lia.
    - now rewrite dget_dadd by lia.
  Qed.

  Lemma dneg_hcat A B : dr A = dr B -> dneg o (dhcat o A B) = dhcat o (dneg o A) (dneg o B).
  Proof.
    intros H. apply (dmat_ext o); dwfs. intros i j Hi Hj. dims.
    rewrite dget_dneg, !dget_dhcat by dims. dims.
    destruct (Nat.ltb_spec j (dc A)); now rewrite dget_dneg by lia.
  Qed.

  Lemma dzero_hcat m a b : dhcat o (dzero o m a) (dzero o m b) = dzero o m (a + b).
  Proof.
    apply (dmat_ext o); dwfs. intros i j Hi Hj. dims.
    rewrite dget_dhcat by dims. rewrite !dget_dzero. now destruct (j <? _).
  Qed.

  Lemma dzero_vcat a b n : dvcat o (dzero o a n) (dzero o b n) = dzero o (a + b) n.
  Proof.
    apply (dmat_ext o); dwfs. intros i j Hi Hj. dims.
    rewrite dget_dvcat by dims. rewrite !dget_dzero. now destruct (i <? _).
  Qed.

  Lemma did_blocks r k :
    dvcat o (dhcat o (did o r) (dzero o r k)) (dhcat o (dzero o k r) (did o k)) = did o (r + k).
  Proof.
    apply (dmat_ext o); dwfs. intros i j Hi Hj. dims.
    rewrite dget_dvcat by dims. dims. rewrite (dget_did (r + k)) by lia.
    destruct (Nat.ltb_spec i r).
    - rewrite dget_dhcat by dims. dims. destruct (Nat.ltb_spec j r).
      + now rewrite dget_did.
      + rewrite dget_dzero. unfold mid. destruct (Nat.eqb_spec i j); [lia|reflexivity].
    - rewrite dget_dhcat by dims. dims. destruct (Nat.ltb_spec j r).
      + rewrite dget_dzero. unfold mid. destruct (Nat.eqb_spec i j); [lia|reflexivity].
      + rewrite dget_did by lia. unfold mid.
        destruct (Nat.eqb_spec (i - r) (j - r)); destruct (Nat.eqb_spec i j); try reflexivity; lia.
  Qed.

  Lemma dvcat_inj A B C D :
    dwf A -> dwf B -> dwf C -> dwf D ->
    dr A = dr C -> dr B = dr D -> dc A = dc B -> dc A = dc C -> dc A = dc D ->
    dvcat o A B = dvcat o C D -> A = C /\ B = D.
  Proof.
    intros WA WB WC WD H1 H2 H3 H4 H5 E. split.
    - apply (dmat_ext o); try assumption. intros i j Hi Hj.
      assert (X : dget o (dvcat o A B) i j = dget o (dvcat o C D) i j) by now rewrite E.
      rewrite !dget_dvcat in X by lia.
      destruct (Nat.ltb_spec i (dr A)); [|lia]. destruct (Nat.ltb_spec i (dr C)); [|lia]. exact X.
    - apply (dmat_ext o); try assumption; try lia. intros i j Hi Hj.
      assert (X : dget o (dvcat o A B) (dr A + i) j = dget o (dvcat o C D) (dr A + i) j) by now rewrite E.
      rewrite !dget_dvcat in X by lia.
      destruct (Nat.ltb_spec (dr A + i) (dr A)); [lia|]. destruct (Nat.ltb_spec (dr A + i) (dr C)); [lia|].
      replace (dr A + i - dr A) with i in X by lia. replace (dr A + i - dr C) with i in X by lia. exact X.
  Qed.

  Lemma dhcat_inj A B C D :
    dwf A -> dwf B -> dwf C -> dwf D ->
    dc A = dc C -> dc B = dc D -> dr A = dr B -> dr A = dr C -> dr A = dr D ->
    dhcat o A B = dhcat o C D -> A = C /\ B = D.
  Proof.
    intros WA WB WC WD H1 H2 H3 H4 H5 E. split.
    - apply (dmat_ext o); try assumption. intros i j Hi Hj.
      assert (X : dget o (dhcat o A B) i j = dget o (dhcat o C D) i j) by now rewrite E.
      rewrite !dget_dhcat in X by lia.
      destruct (Nat.ltb_spec j (dc A)); [|lia]. destruct (Nat.ltb_spec j (dc C)); [|lia]. exact X.
    - apply (dmat_ext o); try assumption; try lia. intros i j Hi Hj.
      assert (X : dget o (dhcat o A B) i (dc A + j) = dget o (dhcat o C D) i (dc A + j)) by now rewrite E.
      rewrite !dget_dhcat in X by lia.
      destruct (Nat.ltb_spec (dc A + j) (dc A)); [lia|]. destruct (Nat.ltb_spec (dc A + j) (dc C)); [lia|].
      replace (dc A + j - dc A) with j in X by lia. replace (dc A + j - dc C) with j in X by lia. exact X.
  Qed.

  (* decomposition of a matrix into four blocks *)
  Lemma dblock_decomp A r : dwf A -> r <= dr A -> r <= dc A ->
    A = dvcat o (dhcat o (dblock o A 0 0 r r) (dblock o A 0 r r (dc A - r)))
                (dhcat o (dblock o A r 0 (dr A - r) r) (dblock o A r r (dr A - r) (dc A - r))).
  Proof.
    intros HA Hr Hc. apply (dmat_ext o); dwfs; dims. intros i j Hi Hj.
    rewrite dget_dvcat by dims. dims.
    destruct (Nat.ltb_spec i r).
    - rewrite dget_dhcat by dims. dims. destruct (Nat.ltb_spec j r).
      + now rewrite dget_dblock.
      + rewrite dget_dblock by lia. f_equal; lia.
    - rewrite dget_dhcat by dims. dims. destruct (Nat.ltb_spec j r).
      + rewrite dget_dblock by lia. f_equal; lia.
      + rewrite dget_dblock by lia. f_equal; lia.
  Qed.

  Lemma dvcat_decomp A r : dwf A -> r <= dr A ->
    A = dvcat o (dblock o A 0 0 r (dc A)) (dblock o A r 0 (dr A - r) (dc A)).
  Proof.
    intros HA Hr. apply (dmat_ext o); dwfs; dims. intros i j Hi Hj.
    rewrite dget_dvcat by dims. dims.
    destruct (Nat.ltb_spec i r).
    - now rewrite dget_dblock.
    - rewrite dget_dblock by lia. f_equal; lia.
  Qed.

  Lemma dhcat_decomp A r : dwf A -> r <= dc A ->
    A = dhcat o (dblock o A 0 0 (dr A) r) (dblock o A 0 r (dr A) (dc A - r)).
  Proof.
    intros HA Hr. apply (dmat_ext o); dwfs; dims. intros i j Hi Hj.
    rewrite dget_dhcat by dims. dims.
    destruct (Nat.ltb_spec j r).
    - now rewrite dget_dblock.
    - rewrite dget_dblock by lia. f_equal; lia.
  Qed.

  (* ---------- transpose ---------- *)
  Lemma dtrans_dmul A B : dc A = dr B -> dtrans o (dmul o A B) = dmul o (dtrans o B) (dtrans o A).
  Proof.
    intros H. apply (dmat_ext o); dwfs. intros i j Hi Hj. dims.
    rewrite dget_dtrans, !dget_dmul by dims. dims. rewrite <- H.
    unfold mmul. apply sum_ext. intros k Hk. rewrite !dget_dtrans by lia. ring.
  Qed.

  Lemma dtrans_did n : dtrans o (did o n) = did o n.
  Proof.
    apply (dmat_ext o); dwfs. intros i j Hi Hj. dims.
    rewrite dget_dtrans, !dget_did by dims. unfold mid. rewrite Nat.eqb_sym. reflexivity.
  Qed.

  Lemma dtrans_invol A : dwf A -> dtrans o (dtrans o A) = A.
  Proof.
    intros H. apply (dmat_ext o); dwfs. intros i j Hi Hj. dims.
    rewrite !dget_dtrans by dims. reflexivity.
  Qed.

  (* ---------- boolean equality ---------- *)
  Lemma deqb_eq A B : dwf A -> dwf B -> deqb o A B = true <-> A = B.
  Proof.
    intros HA HB. unfold deqb. rewrite !andb_true_iff, !Nat.eqb_eq, (leqb_meq o L). split.
    - intros [[H1 H2] H3]. apply (dmat_ext o); assumption.
    - intros ->. repeat split.
  Qed.
End DMatAlg.
