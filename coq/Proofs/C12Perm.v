(* Index bookkeeping for dir_sum_decomp: offsets = partial sums, positions in a concatenation,
   perm_for_indices. *)
From Coq Require Import Arith List Bool Lia.
Require Import Yui.Model.Triang Yui.Model.Decomp Yui.Proofs.C12Sparse Yui.Proofs.C12UnionFind.
Import ListNotations.

(* ---------- partial sums ---------- *)
Definition psum (ls : list (list nat)) (k : nat) : nat := length (concat (firstn k ls)).

Lemma psum_0 ls : psum ls 0 = 0.
Proof. reflexivity. Qed.

Lemma psum_cons x r k : psum (x :: r) (S k) = length x + psum r k.
Proof. unfold psum. cbn [firstn concat]. now rewrite app_length. Qed.

Lemma psum_S ls k : k < length ls -> psum ls (S k) = psum ls k + length (nth k ls []).
Proof.
  revert k. induction ls as [|x r IH]; intros k Hk; [cbn in Hk; lia|].
  destruct k as [|k].
  - rewrite psum_cons, !psum_0. cbn. lia.
  - rewrite !psum_cons. cbn [nth length] in *. rewrite IH by lia. lia.
Qed.

Lemma psum_all ls k : length ls <= k -> psum ls k = length (concat ls).
Proof. intros H. unfold psum. now rewrite firstn_all2. Qed.

Lemma psum_mono ls k k' : k <= k' -> psum ls k <= psum ls k'.
Proof.
  revert k k'. induction ls as [|x r IH]; intros k k' H.
  - unfold psum. now rewrite !firstn_nil.
  - destruct k as [|k]; [rewrite psum_0; lia|]. destruct k' as [|k']; [lia|].
    rewrite !psum_cons. specialize (IH k k' ltac:(lia)). lia.
Qed.

Lemma psum_le_total ls k : psum ls k <= length (concat ls).
Proof. rewrite <- (psum_all ls (Nat.max k (length ls))) by lia. apply psum_mono. lia. Qed.

(* fold(vec![0], |res, next| res.push(res.last() + next.len())) *)
Lemma offsets_gen : forall ls init,
  fold_left (fun res next => res ++ [last res 0 + length next]) ls init
  = init ++ map (fun k => last init 0 + psum ls (S k)) (seq 0 (length ls)).
Proof.
  induction ls as [|x r IH]; intros init; cbn [fold_left length seq map]; [now rewrite app_nil_r|].
  rewrite IH, last_last, <- app_assoc. cbn [app]. f_equal. f_equal.
  - rewrite psum_cons, psum_0. lia.
  - rewrite <- seq_shift, map_map. apply map_ext. intros k. rewrite (psum_cons x r (S k)). lia.
Qed.

Lemma offsets_spec ls : offsets ls = map (psum ls) (seq 0 (S (length ls))).
Proof.
  unfold offsets. rewrite offsets_gen. cbn [last]. cbn [seq map]. rewrite psum_0. cbn [app]. f_equal.
  rewrite <- seq_shift, map_map. apply map_ext. intros k. reflexivity.
Qed.

Lemma nth_error_offsets ls k : k <= length ls -> nth_error (offsets ls) k = Some (psum ls k).
Proof.
  intros H. rewrite offsets_spec. rewrite (nth_error_nth' _ 0) by (rewrite map_length, seq_length; lia).
  f_equal. now rewrite nth_map_seq by lia.
Qed.

(* ---------- positions in a concatenation ---------- *)
Lemma concat_nth ls k t : k < length ls -> t < length (nth k ls []) ->
  nth (psum ls k + t) (concat ls) 0 = nth t (nth k ls []) 0.
Proof.
  revert k. induction ls as [|x r IH]; intros k Hk Ht; [cbn in Hk; lia|].
  destruct k as [|k].
  - rewrite psum_0. cbn [concat nth Nat.add] in *. now rewrite app_nth1.
  - rewrite psum_cons. cbn [concat nth length] in *. rewrite app_nth2 by lia.
    replace (length x + psum r k + t - length x) with (psum r k + t) by lia. apply IH; [lia|assumption].
Qed.

Lemma in_concat_pos ls x : In x (concat ls) ->
  exists k t, k < length ls /\ t < length (nth k ls []) /\ nth t (nth k ls []) 0 = x.
Proof.
  induction ls as [|y r IH]; intros H; [contradiction|]. cbn [concat] in H. apply in_app_iff in H.
  destruct H as [H|H].
  - apply In_nth with (d := 0) in H. destruct H as [t [Ht E]]. exists 0, t. cbn. repeat split; [lia|assumption|assumption].
  - destruct (IH H) as [k [t [Hk [Ht E]]]]. exists (S k), t. cbn. repeat split; [lia|assumption|assumption].
Qed.

Lemma nth_in_concat ls k t : k < length ls -> t < length (nth k ls []) -> In (nth t (nth k ls []) 0) (concat ls).
Proof.
  intros Hk Ht. apply in_concat. exists (nth k ls []). split; [now apply nth_In|now apply nth_In].
Qed.

(* NoDup of a concatenation: the same element cannot sit at two different places *)
Lemma NoDup_concat_unique ls k t k' t' : NoDup (concat ls) ->
  k < length ls -> t < length (nth k ls []) -> k' < length ls -> t' < length (nth k' ls []) ->
  nth t (nth k ls []) 0 = nth t' (nth k' ls []) 0 -> k = k' /\ t = t'.
Proof.
  intros Hnd Hk Ht Hk' Ht' E.
  rewrite <- (concat_nth ls k t Hk Ht), <- (concat_nth ls k' t' Hk' Ht') in E.
  assert (B : forall k0 t0, k0 < length ls -> t0 < length (nth k0 ls []) -> psum ls k0 + t0 < length (concat ls)).
  { intros k0 t0 H1 H2. pose proof (psum_S ls k0 H1). pose proof (psum_le_total ls (S k0)). lia. }
  apply (proj1 (NoDup_nth (concat ls) 0) Hnd) in E; [|now apply B|now apply B].
  assert (Hkk : k = k').
  { destruct (lt_eq_lt_dec k k') as [[H|H]|H]; [|assumption|]; exfalso.
    - pose proof (psum_S ls k Hk). pose proof (psum_mono ls (S k) k' ltac:(lia)). lia.
    - pose proof (psum_S ls k' Hk'). pose proof (psum_mono ls (S k') k ltac:(lia)). lia. }
  subst k'. split; [reflexivity|lia].
Qed.

(* ---------- perm_for_indices ---------- *)
Definition set_step (inv : list nat) (kj : nat * nat) : list nat := nat_set_nth inv (snd kj) (fst kj).

Lemma fold_set_spec : forall (kv : list (nat * nat)) init,
  NoDup (map snd kv) -> (forall e, In e kv -> snd e < length init) ->
  let inv := fold_left set_step kv init in
  length inv = length init /\
  (forall k j, In (k, j) kv -> pget inv j = k) /\
  (forall j, ~ In j (map snd kv) -> pget inv j = pget init j).
Proof.
  induction kv as [|[k0 j0] kv IH]; intros init Hnd Hb; cbn [fold_left].
  - split; [reflexivity|]. split; [intros k j []|reflexivity].
  - cbn [map snd] in Hnd. inversion Hnd as [|? ? Hj0 Hnd']; subst.
    assert (Hj0b : j0 < length init) by (apply (Hb (k0, j0)); now left).
    destruct (IH (set_step init (k0, j0)) Hnd') as [Hl [Hin Hout]].
    { intros e He. unfold set_step. rewrite length_nat_set_nth. apply Hb. now right. }
    split; [rewrite Hl; unfold set_step; apply length_nat_set_nth|]. split.
    + intros k j [E|H]; [|now apply Hin]. injection E as <- <-.
      rewrite (Hout j0 Hj0). unfold set_step. cbn [fst snd]. rewrite pget_nat_set_nth by assumption.
      now rewrite Nat.eqb_refl.
    + intros j Hj. cbn [map snd In] in Hj. rewrite Hout by tauto.
      unfold set_step. cbn [fst snd]. rewrite pget_nat_set_nth by assumption.
      destruct (Nat.eqb_spec j j0); [exfalso; apply Hj; now left|reflexivity].
Qed.

Lemma map_snd_combine {A B} (l1 : list A) (l2 : list B) : length l1 = length l2 -> map snd (combine l1 l2) = l2.
Proof.
  revert l2. induction l1 as [|x r IH]; intros [|y s] H; cbn in *; try reflexivity; try discriminate.
  f_equal. apply IH. lia.
Qed.

Record is_perm (m : nat) (p : list nat) : Prop := {
  ip_len : length p = m;
  ip_range : forall i, i < m -> pget p i < m;
  ip_inj : forall i i', i < m -> i' < m -> pget p i = pget p i' -> i = i';
}.

Lemma perm_spec m idx : NoDup idx -> (forall i, In i idx -> i < m) ->
  exists p, perm_for_indices m idx = Some p /\ is_perm m p /\
    (forall t, t < length idx -> pget p (nth t idx 0) = t) /\
    (forall i, i < m -> ~ In i idx -> length idx <= pget p i).
Proof.
  intros Hnd Hb. unfold perm_for_indices.
  assert (Hchk : forallb (fun i => i <? m) idx = true)
    by (apply forallb_forall; intros i Hi; now apply Nat.ltb_lt, Hb).
  rewrite Hchk.
  set (rest := filter (fun i => negb (nat_mem i idx)) (seq 0 m)).
  set (vec := idx ++ rest).
  assert (Hrest : forall i, In i rest <-> i < m /\ ~ In i idx).
  { intros i. unfold rest. rewrite filter_In, in_seq, negb_true_iff.
    split; intros [H1 H2]; (split; [lia|]).
    - intros Hi. apply nat_mem_In in Hi. congruence.
    - destruct (nat_mem i idx) eqn:E; [apply nat_mem_In in E; contradiction|reflexivity]. }
  assert (Hvnd : NoDup vec).
  { apply NoDup_app_intro; [assumption|apply NoDup_filter, seq_NoDup|]. intros x Hx Hx'. apply Hrest in Hx'. tauto. }
  assert (Hvb : forall i, In i vec <-> i < m).
  { intros i. unfold vec. rewrite in_app_iff, Hrest. split.
    - intros [H|[H _]]; [now apply Hb|assumption].
    - intros H. destruct (in_dec Nat.eq_dec i idx); tauto. }
  assert (Hvl : length vec = m).
  { apply Nat.le_antisymm.
    - rewrite <- (seq_length m 0). apply NoDup_incl_length; [assumption|]. intros i Hi. apply in_seq. apply Hvb in Hi. lia.
    - rewrite <- (seq_length m 0) at 1. apply NoDup_incl_length; [apply seq_NoDup|]. intros i Hi. apply Hvb. apply in_seq in Hi. lia. }
  set (kv := combine (seq 0 (length vec)) vec).
  change (fold_left (fun (inv : list nat) (kj : nat * nat) => nat_set_nth inv (snd kj) (fst kj)) kv (repeat 0 m))
    with (fold_left set_step kv (repeat 0 m)).
  assert (Hsnd : map snd kv = vec) by (unfold kv; apply map_snd_combine; now rewrite seq_length).
  destruct (fold_set_spec kv (repeat 0 m)) as [Hl [Hin _]].
  { now rewrite Hsnd. }
  { intros e He. rewrite repeat_length. apply Hvb. rewrite <- Hsnd. now apply in_map. }
  set (inv := fold_left set_step kv (repeat 0 m)) in *. rewrite repeat_length in Hl.
  assert (Hpos : forall t, t < m -> pget inv (nth t vec 0) = t).
  { intros t Ht. apply Hin. unfold kv.
    replace (t, nth t vec 0) with (nth t (combine (seq 0 (length vec)) vec) (0, 0)).
    - apply nth_In. rewrite combine_length, seq_length. lia.
    - rewrite combine_nth by (now rewrite seq_length). rewrite seq_nth by lia. reflexivity. }
  assert (Hinv : forall i, i < m -> exists t, t < m /\ nth t vec 0 = i).
  { intros i Hi. apply Hvb in Hi. apply In_nth with (d := 0) in Hi. destruct Hi as [t [Ht E]]. exists t. split; [lia|exact E]. }
  assert (Hvalid : forallb (fun i => nat_mem i inv) (seq 0 m) = true).
  { apply forallb_forall. intros t Ht. apply in_seq in Ht. apply nat_mem_In. rewrite <- (Hpos t ltac:(lia)).
    apply nth_In. rewrite Hl. apply Hvb. apply nth_In. lia. }
  rewrite Hvalid. exists inv. split; [reflexivity|]. split; [|split].
  - constructor.
    + exact Hl.
    + intros i Hi. destruct (Hinv i Hi) as [t [Ht Et]]. rewrite <- Et. now rewrite Hpos.
    + intros i i' Hi Hi' E. destruct (Hinv i Hi) as [t [Ht Et]]. destruct (Hinv i' Hi') as [t' [Ht' Et']].
      rewrite <- Et, <- Et' in E. rewrite !Hpos in E by assumption. rewrite <- Et, <- Et'. now rewrite E.
  - intros t Ht. assert (Htm : t < m).
    { rewrite <- Hvl. unfold vec. rewrite app_length. lia. }
    replace (nth t idx 0) with (nth t vec 0) by (unfold vec; now rewrite app_nth1). now apply Hpos.
  - intros i Hi Hni. destruct (Hinv i Hi) as [t [Ht E]]. rewrite <- E, Hpos by assumption.
    destruct (le_lt_dec (length idx) t) as [H|H]; [assumption|]. exfalso. apply Hni. rewrite <- E. unfold vec.
    rewrite app_nth1 by assumption. now apply nth_In.
Qed.
