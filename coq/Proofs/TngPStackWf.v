(* Vertical composition, part 3: tangles with pairwise disjoint simple components.
   * TngComp's == (unori_eq) implies equal kind and equal label sets ([unori_eq_sound]);
   * hence a simple middle component has at most one owner in a pool whose tangles are pairwise disjoint ([cnt_le1]);
   * Tng::connect of tangles without common labels is the sorted concatenation ([tng_connect_disjoint],
     [fold_connect_disjoint]); a sorted tangle with disjoint components is the only sorted permutation of its
     components ([sorted_perm_eq]). *)
From Coq Require Import List Arith Bool Lia ZArith Permutation Sorted.
Import ListNotations.
Require Import Yui.Model.Link Yui.Model.Tng Yui.Model.TngCob Yui.Model.TngStack.
Require Import Yui.Proofs.TngPBase Yui.Proofs.TngPSegs Yui.Proofs.TngPDeg Yui.Proofs.TngPJoin Yui.Proofs.TngPStep
  Yui.Proofs.TngPSeq Yui.Proofs.TngPConn Yui.Proofs.TngPStackBase Yui.Proofs.TngPStackBfs.

(* ---------- unori_eq: equal kind, equal label set ---------- *)
Lemma forallb_nth_incl : forall (a b : list nat) (g : nat -> nat),
  (forall i, i < length a -> g i < length b) ->
  forallb (fun i => nth i a 0 =? nth (g i) b 0) (seq 0 (length a)) = true -> incl a b.
Proof.
  intros a b g Hg Hf x Hx. destruct (In_nth a x 0 Hx) as (i & Hi & <-).
  rewrite forallb_forall in Hf. specialize (Hf i). rewrite in_seq in Hf.
  assert (E : nth i a 0 =? nth (g i) b 0 = true) by (apply Hf; lia). apply Nat.eqb_eq in E. rewrite E.
  apply nth_In. apply Hg. exact Hi.
Qed.

Theorem unori_eq_sound : forall p q, NoDup (pedges p) -> unori_eq p q = true -> same_comp p q.
Proof.
  intros p q Nd. unfold unori_eq.
  destruct (Bool.eqb (pclosed p) (pclosed q)) eqn:Ec; cbn [negb orb]; [|discriminate].
  destruct (length (pedges p) =? length (pedges q)) eqn:El; cbn [negb orb]; [|discriminate].
  destruct (edge_sum p =? edge_sum q); cbn [negb]; [|discriminate].
  apply eqb_prop in Ec. apply Nat.eqb_eq in El.
  destruct (nlist_eqb (pedges p) (pedges q)) eqn:En.
  - intros _. apply nlist_eqb_eq in En. split; [exact Ec|]. rewrite En. tauto.
  - destruct (pclosed p) eqn:Hp.
    + destruct (index_of (hd 0 (pedges p)) (pedges q)) as [k|]; [|discriminate]. intros Ho.
      assert (Hi : incl (pedges p) (pedges q)).
      { destruct (pedges p) as [|x a] eqn:Ea; [intros y []|]. rewrite <- Ea in *.
        assert (Hn : length (pedges p) <> 0) by (rewrite Ea; cbn; lia).
        apply orb_true_iff in Ho. destruct Ho as [Ho|Ho].
        - eapply (forallb_nth_incl _ _ (fun i => (k + i) mod length (pedges p))); [|exact Ho].
          intros i _. rewrite <- El. apply Nat.mod_upper_bound. exact Hn.
        - eapply (forallb_nth_incl _ _ (fun i => (k + length (pedges p) - i) mod length (pedges p))); [|exact Ho].
          intros i _. rewrite <- El. apply Nat.mod_upper_bound. exact Hn. }
      split; [congruence|]. intros v. split; [apply Hi|]. apply NoDup_length_incl; auto. lia.
    + intros Hc. apply combine_all_eq in Hc; [|rewrite rev_length; auto]. split; [congruence|].
      intros v. rewrite Hc, <- in_rev. tauto.
Qed.

Lemma unori_eq_shares : forall p q, simple p -> unori_eq p q = true ->
  pclosed p = pclosed q /\ pedges q <> [] /\ (forall v, In v (pedges p) <-> In v (pedges q)).
Proof.
  intros p q Sp He. destruct (unori_eq_sound p q (proj1 Sp) He) as [Hc Hs]. split; auto. split; auto.
  pose proof (simple_ne p Sp) as Hne. destruct (pedges p) as [|x l] eqn:E; [contradiction|].
  intros Hq. assert (Hx : In x (pedges q)) by (apply Hs; left; reflexivity). rewrite Hq in Hx. contradiction.
Qed.

(* ---------- sub-tangles ---------- *)
Lemma inv_app : forall a b, tng_inv (a ++ b) <->
  tng_inv a /\ tng_inv b /\ (forall v, In v (verts a) -> ~ In v (verts b)).
Proof.
  intros a b. unfold tng_inv. rewrite Forall_app, verts_app. split.
  - intros [[Fa Fb] Hn]. apply NoDup_app_inv in Hn. destruct Hn as (Na & Nb & Hd).
    split; [split; assumption|]. split; [split; assumption|]. intros v H1 H2. eapply Hd; eauto.
  - intros ([Fa Na] & [Fb Nb] & Hd). split; [split; assumption|]. apply NoDup_app_intro; [assumption|assumption|].
    intros x H1 H2. exact (Hd x H1 H2).
Qed.

Lemma inv_sub : forall a b c, Permutation a (b ++ c) -> tng_inv a -> tng_inv b /\ tng_inv c.
Proof.
  intros a b c Hp Hi. apply (inv_perm _ _ Hp) in Hi. apply inv_app in Hi. tauto.
Qed.

Lemma flat_map_perm_g : forall (A B : Type) (f : A -> list B) l l', Permutation l l' ->
  Permutation (flat_map f l) (flat_map f l').
Proof. intros. apply Permutation_flat_map. assumption. Qed.

(* the tangles [sel t] of the components of a pool, side by side *)
Definition flat (sel : cobcomp -> tng) (pool : list cobcomp) : list path := flat_map sel pool.

Lemma flat_in : forall sel pool t m, In t pool -> In m (sel t) -> In m (flat sel pool).
Proof. intros. unfold flat. apply in_flat_map. eauto. Qed.

Lemma flat_sub : forall sel pool b c, Permutation pool (b ++ c) -> tng_inv (flat sel pool) ->
  tng_inv (flat sel b) /\ tng_inv (flat sel c).
Proof.
  intros sel pool b c Hp Hi. apply (inv_sub (flat sel pool)); auto.
  unfold flat. rewrite <- flat_map_app. apply Permutation_flat_map. exact Hp.
Qed.

Lemma inv_simple_in : forall t m, tng_inv t -> In m t -> simple m.
Proof. intros t m [Hs _] Hm. rewrite Forall_forall in Hs. auto. Qed.

(* two components of a pool that share a label are the same component, and so are their owners *)
Lemma owner_unique : forall sel pool t t' v, tng_inv (flat sel pool) -> In t pool -> In t' pool ->
  In v (verts (sel t)) -> In v (verts (sel t')) -> t = t' \/ False.
Proof.
  intros sel pool t t' v Hi Ht Ht' Hv Hv'. destruct (in_split _ _ Ht) as (l1 & l2 & ->).
  unfold flat in Hi. rewrite flat_map_app in Hi. cbn [flat_map] in Hi.
  apply in_app_or in Ht'. destruct Ht' as [H|[H|H]]; auto; right.
  - apply inv_app in Hi. destruct Hi as (_ & _ & Hd). apply (Hd v).
    + apply in_verts. apply in_verts in Hv'. destruct Hv' as (c & Hc & Hvc). exists c. split; auto.
      apply in_flat_map. eauto.
    + rewrite verts_app. apply in_or_app. left. exact Hv.
  - apply inv_app in Hi. destruct Hi as (_ & Hi & _). apply inv_app in Hi. destruct Hi as (_ & _ & Hd). apply (Hd v Hv).
    apply in_verts. apply in_verts in Hv'. destruct Hv' as (c & Hc & Hvc). exists c. split; auto.
    apply in_flat_map. eauto.
Qed.

Lemma owner_unique' : forall sel pool t t' v, tng_inv (flat sel pool) -> In t pool -> In t' pool ->
  In v (verts (sel t)) -> In v (verts (sel t')) -> t = t'.
Proof. intros. destruct (owner_unique sel pool t t' v) as [E|[]]; auto. Qed.

Lemma hit_iff : forall sel m t, hit sel m t = true <-> exists m1, In m1 (sel t) /\ unori_eq m1 m = true.
Proof. intros. unfold hit, tng_contains. rewrite existsb_exists. tauto. Qed.

(* a hit shares every label *)
Lemma hit_shares : forall sel pool m t, tng_inv (flat sel pool) -> In t pool -> hit sel m t = true ->
  pedges m <> [] /\ forall v, In v (pedges m) -> In v (verts (sel t)).
Proof.
  intros sel pool m t Hi Ht Hh. apply hit_iff in Hh. destruct Hh as (m1 & H1 & He).
  assert (S1 : simple m1) by (eapply inv_simple_in; [exact Hi|eapply flat_in; eauto]).
  destruct (unori_eq_shares m1 m S1 He) as (_ & Hne & Hs). split; auto.
  intros v Hv. apply in_verts. exists m1. split; auto. apply Hs. exact Hv.
Qed.

Theorem cnt_le1 : forall sel pool m, tng_inv (flat sel pool) -> cnt sel pool m <= 1.
Proof.
  intros sel. induction pool as [|t r IH]; intros m Hi; [cbn; lia|]. rewrite cnt_cons.
  assert (Hr : tng_inv (flat sel r)).
  { unfold flat in *. cbn [flat_map] in Hi. apply inv_app in Hi. tauto. }
  destruct (hit sel m t) eqn:Ht; [|specialize (IH m Hr); lia].
  assert (E : cnt sel r m = 0); [|lia].
  unfold cnt. destruct (filter (hit sel m) r) as [|t' l] eqn:Ef; [reflexivity|exfalso].
  assert (Hin : In t' (filter (hit sel m) r)) by (rewrite Ef; left; reflexivity).
  apply filter_In in Hin. destruct Hin as [Ht' Hh'].
  destruct (hit_shares sel (t :: r) m t Hi (or_introl eq_refl) Ht) as [Hne Hs].
  destruct (hit_shares sel (t :: r) m t' Hi (or_intror Ht') Hh') as [_ Hs'].
  destruct (pedges m) as [|v l'] eqn:Em; [contradiction|].
  unfold flat in Hi. cbn [flat_map] in Hi. apply inv_app in Hi. destruct Hi as (_ & _ & Hd).
  apply (Hd v); [apply Hs; left; reflexivity|].
  specialize (Hs' v (or_introl eq_refl)). apply in_verts in Hs'. destruct Hs' as (c & Hc & Hvc).
  apply in_verts. exists c. split; auto. apply in_flat_map. eauto.
Qed.

(* ---------- Tng::connect of tangles without common labels ---------- *)
Lemma append_arc_disjoint : forall t c, tng_inv (t ++ [c]) -> pclosed c = false ->
  append_arc t c = Some (isort (t ++ [c])).
Proof.
  intros t c Hi Hc. unfold append_arc. rewrite Hc.
  assert (Hn : find_index (fun c0 => p_connectable c0 c) t = None).
  { destruct (find_index _ t) as [i|] eqn:Ef; [exfalso|reflexivity].
    destruct (find_index_split _ _ _ Ef) as (l1 & d & l2 & -> & _ & Hd & _).
    destruct (connectable_shares_end _ _ Hd) as (v & Ev & Ev').
    apply inv_app in Hi. destruct Hi as (It & Ic & Hdis).
    assert (Sd : simple d) by (eapply inv_simple_in; [exact It|apply in_or_app; right; left; reflexivity]).
    assert (Sc : simple c) by (eapply inv_simple_in; [exact Ic|left; reflexivity]).
    apply (Hdis v).
    - apply in_verts. exists d. split; [apply in_or_app; right; left; reflexivity|apply is_end_in; auto].
    - apply in_verts. exists c. split; [left; reflexivity|apply is_end_in; auto]. }
  rewrite Hn. apply sort_total. apply Hi.
Qed.

Lemma connect_loop_disjoint : forall o t, tng_inv (t ++ o) ->
  exists t', tng_connect_loop t o = Some t' /\ Permutation t' (t ++ o).
Proof.
  induction o as [|c r IH]; intros t Hi; cbn [tng_connect_loop].
  - exists t. rewrite app_nil_r. split; auto.
  - assert (Hi' : tng_inv ((t ++ [c]) ++ r)) by (rewrite <- app_assoc; exact Hi).
    destruct (pclosed c) eqn:Hc.
    + destruct (IH _ Hi') as (t' & E & P). exists t'. split; auto. rewrite <- app_assoc in P. exact P.
    + assert (Hi1 : tng_inv (t ++ [c])) by (apply inv_app in Hi'; tauto).
      rewrite (append_arc_disjoint t c Hi1 Hc).
      destruct (IH (isort (t ++ [c]))) as (t' & E & P).
      { eapply inv_perm; [|exact Hi']. apply Permutation_app_tail. apply Permutation_sym, isort_perm. }
      exists t'. split; auto. eapply perm_trans; [exact P|].
      replace (t ++ c :: r) with ((t ++ [c]) ++ r) by (rewrite <- app_assoc; reflexivity).
      apply Permutation_app_tail. apply isort_perm.
Qed.

Theorem tng_connect_disjoint : forall t o, tng_inv (t ++ o) ->
  exists t', tng_connect t o = Some t' /\ Permutation t' (t ++ o) /\ tng_sorted t'.
Proof.
  intros t o Hi. unfold tng_connect. destruct (connect_loop_disjoint o t Hi) as (t1 & E & P). rewrite E.
  rewrite sort_total by (apply (inv_perm _ _ (Permutation_sym P)) in Hi; apply Hi).
  eexists. split; [reflexivity|]. split; [|apply isort_sorted].
  eapply perm_trans; [apply isort_perm|exact P].
Qed.

Lemma fold_connect_from : forall ts r0, tng_inv (r0 ++ concat ts) -> tng_sorted r0 ->
  exists r, fold_left (fun acc t => match acc with None => None | Some r => tng_connect r t end) ts (Some r0) = Some r /\
    Permutation r (r0 ++ concat ts) /\ tng_sorted r.
Proof.
  induction ts as [|t ts IH]; intros r0 Hi Hs; cbn [fold_left concat].
  - exists r0. rewrite app_nil_r. auto.
  - cbn [concat] in Hi. rewrite app_assoc in Hi.
    assert (Hi1 : tng_inv (r0 ++ t)) by (apply inv_app in Hi; tauto).
    destruct (tng_connect_disjoint r0 t Hi1) as (r1 & E1 & P1 & S1). rewrite E1.
    destruct (IH r1) as (r & E & P & S); auto.
    { eapply inv_perm; [|exact Hi]. apply Permutation_app_tail. apply Permutation_sym. exact P1. }
    exists r. split; auto. split; auto. eapply perm_trans; [exact P|]. rewrite app_assoc.
    apply Permutation_app_tail. exact P1.
Qed.

Theorem fold_connect_disjoint : forall ts, tng_inv (concat ts) ->
  exists r, tng_fold_connect ts = Some r /\ Permutation r (concat ts) /\ tng_sorted r.
Proof.
  intros ts Hi. unfold tng_fold_connect. apply (fold_connect_from ts []); auto. constructor.
Qed.

Lemma concat_map_flat : forall sel (l : list cobcomp), concat (map sel l) = flat sel l.
Proof. intros. unfold flat. rewrite flat_map_concat_map. reflexivity. Qed.

(* ---------- the sorted order of disjoint components is unique ---------- *)
Lemma Forall2_eq_in : forall (A : Type) (R : A -> A -> Prop) l1 l2,
  (forall x y, In x l1 -> In y l2 -> R x y -> x = y) -> Forall2 R l1 l2 -> l1 = l2.
Proof.
  intros A R l1 l2 H F. induction F as [|x y l1 l2 Hxy F IH]; [reflexivity|]. f_equal.
  - apply H; auto; left; reflexivity.
  - apply IH. intros a b Ha Hb. apply H; right; assumption.
Qed.

Theorem sorted_perm_eq : forall t1 t2, tng_inv t1 -> tng_sorted t1 -> tng_sorted t2 -> Permutation t1 t2 -> t1 = t2.
Proof.
  intros t1 t2 I1 S1 S2 Hp.
  assert (I2 : tng_inv t2) by (eapply inv_perm; eauto).
  assert (Hrefl : forall c, same_comp c c) by (intros c; split; [reflexivity|tauto]).
  apply (Forall2_eq_in _ same_comp).
  - intros x y Hx Hy [_ Hs]. assert (Hy' : In y t1) by (eapply Permutation_in; [apply Permutation_sym; exact Hp|exact Hy]).
    pose proof (simple_ne x (inv_simple_in _ _ I1 Hx)) as Hne. destruct (pedges x) as [|v l] eqn:E; [contradiction|].
    apply (inv_same_comp t1 x y v I1 Hx Hy'); [rewrite E; left; reflexivity|apply Hs; left; reflexivity].
  - apply normal_form_match; [split; assumption|split; assumption| |].
    + intros c1 H1. exists c1. split; [eapply Permutation_in; eauto|apply Hrefl].
    + intros c2 H2. exists c2. split; [eapply Permutation_in; [apply Permutation_sym; exact Hp|exact H2]|apply Hrefl].
Qed.
