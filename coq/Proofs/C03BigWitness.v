(* C03Big, part 5: concrete runs of the model: the known finding in model form, the dropped cell of step_by(2),
   and a non-vacuity example (the trefoil's total homology). *)
From Coq Require Import List ZArith Bool Lia Permutation.
Require Import Yui.Model.IntoBigraded Yui.Proofs.C03BigTable Yui.Proofs.C03BigGrid Yui.Proofs.C03BigAgree.
Import ListNotations.
Open Scope Z_scope.

(* ---------- boolean criteria ---------- *)
Lemma is_homogeneous_b_spec : forall qs, is_homogeneous_b qs = true <-> homogeneous qs.
Proof.
  intros [|q r].
  - split; [intros _; exists 0; constructor | reflexivity].
  - unfold is_homogeneous_b. rewrite forallb_forall. split.
    + intros H. exists q. constructor; [reflexivity|]. apply Forall_forall. intros x Hx. apply Z.eqb_eq. apply H. exact Hx.
    + intros [j H]. inversion H as [|? ? Hq Hr]; subst. intros x Hx. apply Z.eqb_eq.
      rewrite Forall_forall in Hr. apply Hr. exact Hx.
Qed.

Definition all_gens (hs : list (Z * summand_info)) : list (gkind * list Z) := flat_map (fun ih => tagged (snd ih)) hs.

Lemma gens_at_incl : forall hs i x, In x (gens_at hs i) -> In x (all_gens hs).
Proof.
  intros hs i x H. unfold gens_at in H. unfold all_gens. apply in_flat_map in H. destruct H as [ih [H1 H2]].
  apply in_flat_map. exists ih. split; [exact H1|]. destruct (fst ih =? i); [exact H2 | destruct H2].
Qed.

Lemma same_parity_b : forall hs (p : bool),
  forallb (fun gq => Bool.eqb (Z.odd (chain_q_deg (snd gq))) p) (all_gens hs) = true -> same_parity hs.
Proof.
  intros hs p H. exists p. intros i g qs Hin. rewrite forallb_forall in H.
  specialize (H (g, qs) (gens_at_incl hs i _ Hin)). cbn [snd] in H. apply eqb_prop in H. exact H.
Qed.

(* the count reported by the check is 0 exactly when the hypothesis of the homogeneous theorem holds everywhere *)
Lemma count_inhomogeneous_zero : forall hs,
  count_inhomogeneous hs = O -> Forall (fun ih => all_homogeneous (snd ih)) hs.
Proof.
  intros hs H. unfold count_inhomogeneous in H. fold (all_gens hs) in H.
  assert (A : forall x, In x (all_gens hs) -> homogeneous (snd x)).
  { intros x Hx. apply is_homogeneous_b_spec. destruct (is_homogeneous_b (snd x)) eqn:E; [reflexivity|].
    assert (Hf : In x (filter (fun g => negb (is_homogeneous_b (snd g))) (all_gens hs))).
    { apply filter_In. split; [exact Hx | rewrite E; reflexivity]. }
    destruct (filter (fun g => negb (is_homogeneous_b (snd g))) (all_gens hs)); [destruct Hf | discriminate]. }
  apply Forall_forall. intros ih Hih. split; apply Forall_forall.
  - intros qs Hqs. apply (A (GFree, qs)). unfold all_gens. apply in_flat_map. exists ih. split; [exact Hih|].
    unfold tagged. apply in_or_app. left. apply in_map_iff. exists qs. auto.
  - intros p Hp. apply (A (GTor (fst p), snd p)). unfold all_gens. apply in_flat_map. exists ih. split; [exact Hih|].
    unfold tagged. apply in_or_app. right. apply in_map_iff. exists p. auto.
Qed.

(* one torsion generator of order 6 = lcm(2,3) whose order-2 part lives in q = 44 and order-3 part in q = 46 *)
Definition witness_ds : list dgen := [[(44, CTor 2); (46, CTor 3)]].

Lemma single_degree_parity : forall i s (p : bool),
  (forall g qs, In (g, qs) (tagged s) -> Z.odd (chain_q_deg qs) = p) -> same_parity [(i, s)].
Proof.
  intros i s p H. exists p. intros i' g qs Hin. unfold gens_at in Hin. cbn [flat_map fst snd] in Hin.
  rewrite app_nil_r in Hin. destruct (i =? i'); [apply (H g qs Hin) | destruct Hin].
Qed.

Lemma refuted_inhomogeneous :
  exists (ds : list dgen) (i : Z),
    Forall (fun d => nontriv d <> []) ds /\
    same_parity [(i, summand_of_dgens ds)] /\
    count_inhomogeneous [(i, summand_of_dgens ds)] = 1%nat /\
    into_bigraded [(i, summand_of_dgens ds)] = [((i, 44), (O, [6]))] /\
    cell_of_located 44 (located_cellwise ds) = (O, [2]) /\
    cell_of_located 46 (located_cellwise ds) = (O, [3]) /\
    ~ Permutation (located_A ds) (located_cellwise ds).
Proof.
  exists witness_ds, 14.
  split; [|split; [|split; [|split; [|split; [|split]]]]].
  - constructor; [discriminate | constructor].
  - apply (single_degree_parity _ _ false). intros g qs [H|[]]. inversion H; subst. reflexivity.
  - vm_compute. reflexivity.
  - vm_compute. reflexivity.
  - vm_compute. reflexivity.
  - vm_compute. reflexivity.
  - intros HP. apply agree_only_if in HP.
    + inversion HP as [|? ? [c Hc] _]; subst. discriminate Hc.
    + constructor; [discriminate | constructor].
Qed.

(* q-degrees of both parities in the table (impossible for a link): the odd one is not on the grid and is lost *)
Definition mixed_hs : list (Z * summand_info) := [(0, {| si_free := [[0]; [1]]; si_tors := [] |})].

Lemma step2_drops :
  map fst (collect_gen_info mixed_hs) = [(0, 0); (0, 1)] /\
  into_bigraded mixed_hs = [((0, 0), (1%nat, []))] /\
  total_rank (into_bigraded mixed_hs) = 1%nat /\ sum_ranks mixed_hs = 2%nat /\ ~ same_parity mixed_hs.
Proof.
  split; [|split; [|split; [|split]]]; try (vm_compute; reflexivity).
  intros [p Hp].
  assert (A : Z.odd (chain_q_deg [0]) = p) by (apply (Hp 0 GFree); vm_compute; auto).
  assert (B : Z.odd (chain_q_deg [1]) = p) by (apply (Hp 0 GFree); vm_compute; auto).
  vm_compute in A, B. congruence.
Qed.

(* non-vacuity: the total homology of the left-handed trefoil (homology.rs tests kh_trefoil / into_bigr) *)
Definition trefoil_hs : list (Z * summand_info) :=
  [(-3, {| si_free := [[-9]]; si_tors := [] |});
   (-2, {| si_free := [[-5]]; si_tors := [(2, [-7; -7])] |});
   (-1, {| si_free := []; si_tors := [] |});
   (0, {| si_free := [[-3]; [-1; -1]]; si_tors := [] |})].

Lemma trefoil_example :
  NoDup (map fst trefoil_hs) /\ same_parity trefoil_hs /\ Forall (fun ih => all_homogeneous (snd ih)) trefoil_hs /\
  count_inhomogeneous trefoil_hs = O /\
  filter (fun c => negb (Nat.eqb (fst (snd c)) 0 && match snd (snd c) with [] => true | _ => false end))
    (into_bigraded trefoil_hs)
  = [((-3, -9), (1%nat, [])); ((-2, -7), (O, [2])); ((-2, -5), (1%nat, [])); ((0, -3), (1%nat, [])); ((0, -1), (1%nat, []))].
Proof.
  split; [|split; [|split; [|split]]].
  - cbn. repeat constructor; cbn; intuition discriminate.
  - apply (same_parity_b _ true). vm_compute. reflexivity.
  - apply count_inhomogeneous_zero. vm_compute. reflexivity.
  - vm_compute. reflexivity.
  - vm_compute. reflexivity.
Qed.

(* the shape of the recorded witness T(5,6) + trefoil in homological degree 14 (dump of the real generators: an
   order-2 generator and an order-30 generator with terms in q = 44 and q = 46; the bigraded pieces have
   Z/10 in (14,44) and Z/6 = Z/2 + Z/3 in (14,46) where route A files Z/2 + Z/30 in (14,44)) *)
Definition witness_shape_ds : list dgen := [[(44, CTriv); (46, CTor 2)]; [(44, CTor 10); (46, CTor 3)]].

Lemma witness_shape :
  into_bigraded [(14, summand_of_dgens witness_shape_ds)] = [((14, 44), (O, [2; 30]))] /\
  cell_of_located 44 (located_cellwise witness_shape_ds) = (O, [10]) /\
  cell_of_located 46 (located_cellwise witness_shape_ds) = (O, [2; 3]) /\
  count_inhomogeneous [(14, summand_of_dgens witness_shape_ds)] = 2%nat.
Proof. repeat split; vm_compute; reflexivity. Qed.
