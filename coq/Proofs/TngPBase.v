(* Tangle layer (Model/Tng.v), part 1: list facts, the segments of a path, and
   Path::connect preserves the multiset of segments.

   A path [v0; v1; ...; vn] is read as a walk in the graph whose vertices are the edge labels of the diagram and
   whose edges ("segments") are the strands inside the resolved crossings: the segments of an arc are the
   consecutive pairs {v(i), v(i+1)}, a circle has the closing segment {vn, v0} in addition (a one-label circle [e],
   the kink, is the loop {e, e}).  Segments are unordered: they are stored as (min, max). *)
From Coq Require Import List Arith Bool Lia Permutation.
Import ListNotations.
Require Import Yui.Model.Link Yui.Model.Tng.

(* ---------- hd / last / removelast / tl / rev ---------- *)
Lemma last_cons_ne : forall (x : nat) l d, l <> [] -> last (x :: l) d = last l d.
Proof. intros x l d Hl. destruct l; [contradiction|reflexivity]. Qed.

Lemma last_indep : forall (l : list nat) d d', l <> [] -> last l d = last l d'.
Proof.
  induction l as [|x l IH]; intros d d' Hl; [contradiction|].
  destruct l as [|y l]; [reflexivity|]. cbn [last]. apply IH. discriminate.
Qed.

Lemma hd_app_ne : forall (a b : list nat) d, a <> [] -> hd d (a ++ b) = hd d a.
Proof. intros a b d Ha. destruct a; [contradiction|reflexivity]. Qed.

Lemma last_app_ne : forall (a b : list nat) d, b <> [] -> last (a ++ b) d = last b d.
Proof.
  induction a as [|x a IH]; intros b d Hb; [reflexivity|].
  cbn [app]. rewrite last_cons_ne; [apply IH; auto|]. destruct a; cbn; [auto|discriminate].
Qed.

Lemma removelast_app_ne : forall (a b : list nat), b <> [] -> removelast (a ++ b) = a ++ removelast b.
Proof. intros. apply removelast_app; auto. Qed.

Lemma hd_rev : forall (l : list nat) d, hd d (rev l) = last l d.
Proof.
  induction l as [|x l IH]; intros d; [reflexivity|].
  cbn [rev]. destruct l as [|y l]; [reflexivity|].
  rewrite hd_app_ne; [rewrite IH; reflexivity|].
  cbn [rev]. intros E. apply app_eq_nil in E. destruct E; discriminate.
Qed.

Lemma last_rev : forall (l : list nat) d, last (rev l) d = hd d l.
Proof. intros l d. rewrite <- (rev_involutive l) at 2. rewrite hd_rev. reflexivity. Qed.

Lemma tl_rev : forall (l : list nat), tl (rev l) = rev (removelast l).
Proof.
  intros l. induction l as [|x l _] using rev_ind; [reflexivity|].
  rewrite rev_unit, removelast_last. reflexivity.
Qed.

Lemma removelast_rev : forall (l : list nat), removelast (rev l) = rev (tl l).
Proof. intros [|x r]; [reflexivity|]. cbn [rev tl]. apply removelast_last. Qed.

Lemma removelast_length : forall (l : list nat), length (removelast l) = length l - 1.
Proof.
  intros l. induction l as [|x l _] using rev_ind; [reflexivity|].
  rewrite removelast_last, app_length. cbn. lia.
Qed.

Lemma removelast_ne : forall (l : list nat), 2 <= length l -> removelast l <> [].
Proof. intros l Hl E. apply (f_equal (@length nat)) in E. rewrite removelast_length in E. cbn in E. lia. Qed.

Lemma split_last : forall (l : list nat) d, l <> [] -> l = removelast l ++ [last l d].
Proof. intros. apply app_removelast_last; auto. Qed.

Lemma hd_removelast : forall (l : list nat) d, 2 <= length l -> hd d (removelast l) = hd d l.
Proof. intros [|x [|y l]] d Hl; cbn in Hl; try lia. reflexivity. Qed.

Lemma in_removelast : forall (l : list nat) v, In v (removelast l) -> In v l.
Proof.
  intros l v. induction l as [|x l _] using rev_ind; [auto|].
  rewrite removelast_last. intros. apply in_or_app. auto.
Qed.

Lemma in_tl : forall (l : list nat) v, In v (tl l) -> In v l.
Proof. intros [|x l] v; cbn; auto. Qed.

Lemma in_split_last : forall (l : list nat) v d, In v l -> In v (removelast l) \/ v = last l d.
Proof.
  intros l v d. induction l as [|x l _] using rev_ind; [contradiction|].
  rewrite removelast_last, last_last. intros Hi. apply in_app_or in Hi. destruct Hi as [|[E|[]]]; auto.
Qed.

Lemma in_split_hd : forall (l : list nat) v d, In v l -> v = hd d l \/ In v (tl l).
Proof. intros [|x l] v d; cbn; [contradiction|]. intros [E|Hi]; auto. Qed.

Lemma NoDup_app_intro : forall (a b : list nat),
  NoDup a -> NoDup b -> (forall x, In x a -> In x b -> False) -> NoDup (a ++ b).
Proof.
  induction a as [|x a IH]; intros b Ha Hb Hd; cbn; auto.
  inversion Ha; subst. constructor.
  - intros Hx. apply in_app_iff in Hx. destruct Hx; [contradiction|]. eapply Hd; cbn; eauto.
  - apply IH; auto. intros y Hy Hy'. eapply Hd; cbn; eauto.
Qed.

Lemma NoDup_app_inv : forall (a b : list nat), NoDup (a ++ b) ->
  NoDup a /\ NoDup b /\ (forall x, In x a -> In x b -> False).
Proof.
  induction a as [|x a IH]; intros b Hn; cbn in *.
  - repeat split; auto. constructor.
  - inversion Hn; subst. destruct (IH _ H2) as (Ha & Hb & Hd). repeat split; auto.
    + constructor; auto. intros Hi. apply H1. apply in_or_app; auto.
    + intros y [E|Hy] Hy'; [subst; apply H1; apply in_or_app; auto|eauto].
Qed.

Lemma NoDup_removelast : forall (l : list nat), NoDup l -> NoDup (removelast l).
Proof.
  intros l. induction l as [|x l _] using rev_ind; [auto|].
  rewrite removelast_last. intros Hn. apply NoDup_app_inv in Hn. tauto.
Qed.

Lemma NoDup_tl : forall (l : list nat), NoDup l -> NoDup (tl l).
Proof. intros [|x l] Hn; [auto|]. inversion Hn; auto. Qed.

Lemma NoDup_last_notin : forall (l : list nat) d, NoDup l -> l <> [] -> ~ In (last l d) (removelast l).
Proof.
  intros l d. induction l as [|x l _] using rev_ind; [contradiction|].
  rewrite removelast_last, last_last. intros Hn _ Hi.
  apply NoDup_remove_2 in Hn. rewrite app_nil_r in Hn. contradiction.
Qed.

Lemma NoDup_hd_notin : forall (l : list nat) d, NoDup l -> l <> [] -> ~ In (hd d l) (tl l).
Proof. intros [|x l] d Hn Hl; [contradiction|]. inversion Hn; auto. Qed.

Lemma NoDup_rev' : forall (l : list nat), NoDup l -> NoDup (rev l).
Proof. intros. apply NoDup_rev; auto. Qed.

(* ---------- segments ---------- *)
Definition nseg (a b : nat) : nat * nat := (Nat.min a b, Nat.max a b).
Fixpoint arc_segs (l : list nat) : list (nat * nat) :=
  match l with
  | a :: ((b :: _) as r) => nseg a b :: arc_segs r
  | _ => []
  end.
Definition circ_segs (l : list nat) : list (nat * nat) :=
  match l with [] => [] | x :: _ => arc_segs (l ++ [x]) end.
Definition segs (p : path) : list (nat * nat) :=
  if pclosed p then circ_segs (pedges p) else arc_segs (pedges p).

(* Path::new's invariant: an arc has at least one label *)
Definition pwf (p : path) : Prop := pclosed p = true \/ pedges p <> [].

Lemma nseg_sym : forall a b, nseg a b = nseg b a.
Proof. intros. unfold nseg. rewrite Nat.min_comm, Nat.max_comm. reflexivity. Qed.

Lemma arc_segs_cons2 : forall a b r, arc_segs (a :: b :: r) = nseg a b :: arc_segs (b :: r).
Proof. reflexivity. Qed.

(* gluing x and y at the shared label  last x = hd y *)
Definition join (x y : list nat) : list nat := removelast x ++ y.

Lemma arc_segs_join : forall x y, x <> [] -> y <> [] -> last x 0 = hd 0 y ->
  arc_segs (join x y) = arc_segs x ++ arc_segs y.
Proof.
  unfold join. induction x as [|a x IH]; intros y Hx Hy E; [contradiction|].
  destruct x as [|b x].
  - reflexivity.
  - assert (Hb : b :: x <> []) by discriminate.
    specialize (IH y Hb Hy). cbn [last] in E. cbn [last] in IH. specialize (IH E).
    change (removelast (a :: b :: x)) with (a :: removelast (b :: x)).
    cbn [app]. rewrite arc_segs_cons2, <- app_comm_cons. rewrite <- IH.
    destruct x as [|c x].
    + cbn [removelast app]. destruct y as [|y0 y]; [contradiction|]. cbn in E. subst. reflexivity.
    + reflexivity.
Qed.

Lemma arc_segs_snoc : forall l a b, arc_segs (l ++ [a; b]) = arc_segs (l ++ [a]) ++ [nseg a b].
Proof.
  induction l as [|x l IH]; intros a b; [reflexivity|].
  destruct l as [|y l].
  - reflexivity.
  - cbn [app]. rewrite !arc_segs_cons2. change (y :: l ++ [a; b]) with ((y :: l) ++ [a; b]).
    rewrite IH. reflexivity.
Qed.

Lemma arc_segs_rev : forall l, Permutation (arc_segs (rev l)) (arc_segs l).
Proof.
  induction l as [|a l IH]; [constructor|].
  destruct l as [|b l]; [constructor|].
  rewrite arc_segs_cons2. cbn [rev]. rewrite <- app_assoc. cbn [app].
  rewrite arc_segs_snoc. change (rev l ++ [b]) with (rev (b :: l)).
  rewrite (nseg_sym b a). eapply perm_trans; [apply Permutation_app_comm|]. cbn [app].
  constructor. exact IH.
Qed.

(* closing: es = [x; ...; x]  ->  circle removelast es *)
Lemma circ_segs_close : forall es, hd 0 es = last es 0 -> circ_segs (removelast es) = arc_segs es.
Proof.
  intros es E. destruct es as [|x [|y es]]; [reflexivity|reflexivity|].
  assert (Hne : x :: y :: es <> []) by discriminate.
  change (removelast (x :: y :: es)) with (x :: removelast (y :: es)).
  unfold circ_segs. cbn [hd] in E.
  f_equal. rewrite (split_last (x :: y :: es) 0 Hne) at 1. rewrite <- E.
  reflexivity.
Qed.

(* ---------- glue is a join ---------- *)
Lemma glue_join : forall a b, a <> [] -> b <> [] ->
  (hd 0 a =? hd 0 b) || (hd 0 a =? last b 0) || (last a 0 =? hd 0 b) || (last a 0 =? last b 0) = true ->
  exists x y, glue a b = join x y /\ last x 0 = hd 0 y /\
    ((x = a /\ (y = b \/ y = rev b)) \/ (y = a /\ (x = b \/ x = rev b))).
Proof.
  intros a b Ha Hb Hc. unfold glue.
  destruct (last a 0 =? hd 0 b) eqn:E1.
  { apply Nat.eqb_eq in E1. exists a, b. split; [|split; auto].
    unfold join. rewrite (split_last a 0 Ha) at 1. rewrite <- app_assoc. cbn [app].
    destruct b as [|b0 b]; [contradiction|]. cbn in E1. subst. reflexivity. }
  destruct (last a 0 =? last b 0) eqn:E2.
  { apply Nat.eqb_eq in E2. exists a, (rev b). split; [|split; auto].
    - unfold join. rewrite (split_last a 0 Ha) at 1. rewrite <- app_assoc. cbn [app].
      rewrite <- tl_rev. rewrite E2, <- hd_rev.
      destruct (rev b) eqn:Er; [|reflexivity].
      apply (f_equal (@rev nat)) in Er. rewrite rev_involutive in Er. subst. contradiction.
    - rewrite hd_rev. auto. }
  destruct (hd 0 a =? hd 0 b) eqn:E3.
  { apply Nat.eqb_eq in E3. exists (rev b), a. split; [|split; auto].
    - unfold join. rewrite removelast_rev. reflexivity.
    - rewrite last_rev. auto. }
  destruct (hd 0 a =? last b 0) eqn:E4.
  { apply Nat.eqb_eq in E4. exists b, a. split; [|split; auto]. reflexivity. }
  cbn in Hc. discriminate.
Qed.

Lemma join_ne : forall x y, y <> [] -> join x y <> [].
Proof. intros x y Hy E. apply app_eq_nil in E. destruct E; contradiction. Qed.

(* ---------- Path::connect ---------- *)
Lemma connectable_arcs : forall p q, p_connectable p q = true -> pclosed p = false /\ pclosed q = false.
Proof.
  intros p q. unfold p_connectable, p_ends. destruct (pclosed p), (pclosed q); auto; discriminate.
Qed.

Lemma connectable_spec : forall p q, pclosed p = false -> pclosed q = false ->
  p_connectable p q =
  (hd 0 (pedges p) =? hd 0 (pedges q)) || (hd 0 (pedges p) =? last (pedges q) 0) ||
  (last (pedges p) 0 =? hd 0 (pedges q)) || (last (pedges p) 0 =? last (pedges q) 0).
Proof. intros p q Hp Hq. unfold p_connectable, p_ends. rewrite Hp, Hq. reflexivity. Qed.

Lemma close_up_pwf : forall es, pwf (close_up es).
Proof.
  intros es. unfold close_up, pwf. destruct (hd 0 es =? last es 0) eqn:E; cbn; auto.
  right. intros ->. cbn in E. discriminate.
Qed.

Lemma close_up_segs : forall es, segs (close_up es) = arc_segs es.
Proof.
  intros es. unfold close_up, segs. destruct (hd 0 es =? last es 0) eqn:E; cbn [pclosed pedges]; auto.
  apply circ_segs_close. apply Nat.eqb_eq; auto.
Qed.

Lemma p_connect_pwf : forall p q r, p_connect p q = Some r -> pwf r.
Proof.
  intros p q r. unfold p_connect. destruct (p_connectable p q); [|discriminate].
  intros E. inversion E. apply close_up_pwf.
Qed.

Lemma pwf_arc_ne : forall p, pwf p -> pclosed p = false -> pedges p <> [].
Proof. intros p [Hc|Hn] Hp; auto. congruence. Qed.

Theorem p_connect_segs : forall p q r, pwf p -> pwf q -> p_connect p q = Some r ->
  Permutation (segs r) (segs p ++ segs q).
Proof.
  intros p q r Wp Wq. unfold p_connect. destruct (p_connectable p q) eqn:Hc; [|discriminate].
  intros E. inversion E; subst r; clear E.
  destruct (connectable_arcs _ _ Hc) as [Hp Hq].
  pose proof (pwf_arc_ne _ Wp Hp) as Np. pose proof (pwf_arc_ne _ Wq Hq) as Nq.
  rewrite connectable_spec in Hc by auto.
  destruct (glue_join _ _ Np Nq Hc) as (x & y & Eg & El & Hxy).
  rewrite close_up_segs, Eg. unfold segs. rewrite Hp, Hq.
  assert (Hx : x <> [] /\ y <> []).
  { destruct Hxy as [[-> [->| ->]]|[-> [->| ->]]]; split; auto;
      intros Er; apply (f_equal (@rev nat)) in Er; rewrite rev_involutive in Er; subst; contradiction. }
  destruct Hx as [Hx Hy]. rewrite arc_segs_join by auto.
  destruct Hxy as [[-> [->| ->]]|[-> [->| ->]]].
  - apply Permutation_refl.
  - apply Permutation_app_head. apply arc_segs_rev.
  - apply Permutation_app_comm.
  - eapply perm_trans; [apply Permutation_app_comm|]. apply Permutation_app_head. apply arc_segs_rev.
Qed.

Lemma p_connect_none : forall p q, p_connect p q = None <-> p_connectable p q = false.
Proof. intros p q. unfold p_connect. destruct (p_connectable p q); split; congruence. Qed.
