(* Packaged forms of the elimination lemma (Proofs/TngPElim.v, Proofs/TngPElimMat.v) for Properties/C01Cpx.v, and a
   concrete instance over a ring that is NOT commutative (2 x 2 integer matrices) for non-vacuity. *)
From Coq Require Import ZArith Lia Setoid Morphisms.
Require Import Yui.Proofs.TngPElim Yui.Proofs.TngPElimMat.

Section Pack.
  Context (C : preadd_ops) (L : preadd_laws C).
  Local Notation "f == g" := (peq C f g) (at level 70, no associativity).
  Local Notation "f + g" := (padd C f g).
  Local Notation "- f" := (pneg C f).
  Local Notation "f 'o' g" := (pcomp C f g) (at level 40, left associativity).
  Local Notation "0" := (pzero C).
  Local Notation "1" := (pid C).
  Context {P A B A' D N : pobj C}.
  Context (a : phom C A A') (b : phom C B A') (c : phom C A D) (d : phom C B D) (a' : phom C A' A).
  Context (x : phom C P A) (y : phom C P B) (z : phom C A' N) (w : phom C D N).

  Lemma elim_complex :
    a' o a == 1 -> a o a' == 1 ->
    a o x + b o y == 0 -> c o x + d o y == 0 -> z o a + w o c == 0 -> z o b + w o d == 0 ->
    (d + - (c o a' o b)) o y == 0 /\ w o (d + - (c o a' o b)) == 0.
  Proof.
    intros Hl Hr Hax Hcx Hza Hzb. split.
    - exact (elim_complex_src C L a b c d a' Hl x y Hax Hcx).
    - exact (elim_complex_tgt C L a b c d a' Hr z w Hza Hzb).
  Qed.

  (* f = (1, [0 1], [-c a' 1], 1) is a chain map from the old complex to the new one *)
  Lemma elim_f_chain :
    a' o a == 1 -> a o a' == 1 -> a o x + b o y == 0 -> z o a + w o c == 0 ->
    (0 o x + 1 o y == y o 1) /\
    (- (c o a') o a + 1 o c == (d + - (c o a' o b)) o 0) /\
    (- (c o a') o b + 1 o d == (d + - (c o a' o b)) o 1) /\
    (w o - (c o a') == 1 o z) /\ (w o 1 == 1 o w).
  Proof.
    intros Hl Hr Hax Hza. repeat split.
    - exact (elim_f_chain_in C L x y).
    - exact (elim_f_chain_A C L a b c d a' Hl).
    - exact (elim_f_chain_B C L b c d a').
    - exact (elim_f_chain_out_A C L a c a' Hr z w Hza).
    - exact (elim_f_chain_out_D C L w).
  Qed.

  (* g = (1, [-a' b ; 1], [0 ; 1], 1) is a chain map from the new complex to the old one *)
  Lemma elim_g_chain :
    a' o a == 1 -> a o a' == 1 -> a o x + b o y == 0 -> z o a + w o c == 0 ->
    (- (a' o b) o y == x o 1) /\ (1 o y == y o 1) /\
    (a o - (a' o b) + b o 1 == 0 o (d + - (c o a' o b))) /\
    (c o - (a' o b) + d o 1 == 1 o (d + - (c o a' o b))) /\
    (z o 0 + w o 1 == 1 o w).
  Proof.
    intros Hl Hr Hax Hza. repeat split.
    - exact (elim_g_chain_in_A C L a b a' Hl x y Hax).
    - exact (elim_g_chain_in_B C L y).
    - exact (elim_g_chain_A C L a b c d a' Hr).
    - exact (elim_g_chain_D C L b c d a').
    - exact (elim_g_chain_out C L z w).
  Qed.

  (* f g = 1 in both degrees *)
  Lemma elim_fg :
    ((0 : phom C A B) o - (a' o b) + 1 o 1 == 1) /\ (- (c o a') o (0 : phom C D A') + 1 o 1 == 1).
  Proof.
    split.
    - exact (elim_fg_src C L b a').
    - exact (elim_fg_tgt C L c a').
  Qed.

  (* g f + h D = 1 on A (+) B and g f + D h = 1 on A' (+) D for h = [a' 0 ; 0 0] *)
  Lemma elim_homotopy :
    a' o a == 1 -> a o a' == 1 ->
    (- (a' o b) o (0 : phom C A B) + (a' o a + (0 : phom C D A) o c) == 1) /\
    (- (a' o b) o 1 + (a' o b + (0 : phom C D A) o d) == 0) /\
    ((1 : phom C B B) o (0 : phom C A B) + ((0 : phom C A' B) o a + (0 : phom C D B) o c) == 0) /\
    ((1 : phom C B B) o 1 + ((0 : phom C A' B) o b + (0 : phom C D B) o d) == 1) /\
    ((0 : phom C D A') o - (c o a') + (a o a' + b o (0 : phom C A' B)) == 1) /\
    ((0 : phom C D A') o 1 + (a o (0 : phom C D A) + b o (0 : phom C D B)) == 0) /\
    ((1 : phom C D D) o - (c o a') + (c o a' + d o (0 : phom C A' B)) == 0) /\
    ((1 : phom C D D) o 1 + (c o (0 : phom C D A) + d o (0 : phom C D B)) == 1).
  Proof.
    intros Hl Hr. repeat split.
    - exact (elim_homotopy_src_AA C L a b c a' Hl).
    - exact (elim_homotopy_src_AB C L b d a').
    - exact (elim_homotopy_src_BA C L a c).
    - exact (elim_homotopy_src_BB C L b d).
    - exact (elim_homotopy_tgt_AA C L a b c a' Hr).
    - exact (elim_homotopy_tgt_AD C L a b).
    - exact (elim_homotopy_tgt_DA C L c d a').
    - exact (elim_homotopy_tgt_DD C L c d).
  Qed.

  (* f h = 0, h g = 0 (with h h = 0 : h has degree -1 and is non-zero in one degree only) *)
  Lemma elim_sdr :
    ((0 : phom C A B) o a' + 1 o (0 : phom C A' B) == 0) /\
    ((0 : phom C A B) o (0 : phom C D A) + 1 o (0 : phom C D B) == 0) /\
    (a' o (0 : phom C D A') + (0 : phom C D A) o 1 == 0) /\
    ((0 : phom C A' B) o (0 : phom C D A') + (0 : phom C D B) o 1 == 0).
  Proof.
    repeat split.
    - exact (elim_fh_A C L a').
    - exact (elim_fh_D C L).
    - exact (elim_hg_A C L a').
    - exact (elim_hg_B C L).
  Qed.
End Pack.

(* ------------------------------------------------------------------------------------------------ *)
(* a ring that is not commutative: 2 x 2 integer matrices                                          *)
(* ------------------------------------------------------------------------------------------------ *)
Local Open Scope Z_scope.
Definition m2 : Type := (Z * Z * Z * Z)%type.       (* (p, q, r, s) = [p q ; r s] *)
Definition m2_add (u v : m2) : m2 :=
  let '(p, q, r, s) := u in let '(p', q', r', s') := v in (p + p', q + q', r + r', s + s').
Definition m2_neg (u : m2) : m2 := let '(p, q, r, s) := u in (- p, - q, - r, - s).
Definition m2_mul (u v : m2) : m2 :=
  let '(p, q, r, s) := u in let '(p', q', r', s') := v in
  (p * p' + q * r', p * q' + q * s', r * p' + s * r', r * q' + s * s').
Definition m2_ops : ncring_ops m2 := mk_ncring_ops m2 (0, 0, 0, 0) (1, 0, 0, 1) m2_add m2_neg m2_mul.

Lemma m2_laws : ncring_laws m2_ops.
Proof.
  constructor; cbn [nadd nneg nmul nzero none m2_ops];
    repeat (let u := fresh in intros u; destruct u as [[[? ?] ?] ?]); cbn [m2_add m2_neg m2_mul];
    repeat match goal with |- (_, _) = (_, _) => apply f_equal2 end; ring.
Qed.
Lemma m2_not_commutative : exists u v : m2, m2_mul u v <> m2_mul v u.
Proof. exists (0, 1, 0, 0), (0, 0, 1, 0). cbn. discriminate. Qed.

(* a 1 x 1 block instance over m2: every hypothesis of the lemma holds, c a' b and b a' c differ, and the new
   differential is not zero *)
Definition ex_a : m2 := (1, 1, 0, 1).
Definition ex_a' : m2 := (1, -1, 0, 1).
Definition ex_b : m2 := (0, 0, 1, 0).
Definition ex_c : m2 := (0, 1, 0, 0).
Definition ex_d : m2 := (1, 5, 0, 7).
Definition ex_x : m2 := (1, 0, -1, 0).
Definition ex_y : m2 := (1, 0, 0, 0).
Definition ex_z : m2 := (0, -7, 0, 0).
Definition ex_w : m2 := (7, -5, 0, 0).
Definition cst (u : m2) : ncmat m2_ops 1 1 := fun _ _ => u.

Lemma ex_hyps :
  let C := ncmat_ops m2_ops in
  peq C (pcomp C (cst ex_a') (cst ex_a)) (pid C) /\ peq C (pcomp C (cst ex_a) (cst ex_a')) (pid C) /\
  peq C (padd C (pcomp C (cst ex_a) (cst ex_x)) (pcomp C (cst ex_b) (cst ex_y))) (pzero C) /\
  peq C (padd C (pcomp C (cst ex_c) (cst ex_x)) (pcomp C (cst ex_d) (cst ex_y))) (pzero C) /\
  peq C (padd C (pcomp C (cst ex_z) (cst ex_a)) (pcomp C (cst ex_w) (cst ex_c))) (pzero C) /\
  peq C (padd C (pcomp C (cst ex_z) (cst ex_b)) (pcomp C (cst ex_w) (cst ex_d))) (pzero C).
Proof.
  cbn zeta. repeat split; intros i j Hi Hj; cbn in Hi, Hj;
    (assert (i = 0%nat) by lia; assert (j = 0%nat) by lia; subst; reflexivity).
Qed.

Lemma ex_new_differential :
  let C := ncmat_ops m2_ops in
  padd C (cst ex_d) (pneg C (pcomp C (pcomp C (cst ex_c) (cst ex_a')) (cst ex_b))) 0%nat 0%nat = (0, 5, 0, 7) /\
  m2_mul (m2_mul ex_c ex_a') ex_b <> m2_mul (m2_mul ex_b ex_a') ex_c.
Proof. split; [reflexivity|]. cbn. discriminate. Qed.
