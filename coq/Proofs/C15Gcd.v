(* C15: correctness of the generic EucRing::{divides, gcd, gcdx, lcm} (Model/Euclid.v, section
   Generic) for every dictionary that satisfies [euc_dict_laws]: a commutative integral domain with
   the unit laws of Base/Ring.v and a division with remainder whose potential [Phi] at least halves
   (Phi = norm for Z[i], norm^3 for Z[omega]).  The fuel [fuel_of (Phi y)] is proved sufficient. *)
From Coq Require Import ZArith Lia Bool Ring.
Require Import Yui.Base.Ring Yui.Model.Euclid.
Local Open Scope Z_scope.

Definition dict_units {R} (D : euc_dict R) : unit_ops R :=
  mk_unit_ops R (d_is_unit D) (d_inv D) (d_nunit D).

Record euc_dict_laws {R} (D : euc_dict R) (Phi : R -> Z) : Prop := mk_euc_dict_laws {
  l_ring : ring_laws (d_ring D);
  l_integral : integral (d_ring D);
  l_units : unit_laws (d_ring D) (dict_units D);
  l_phi_nonneg : forall a, 0 <= Phi a;
  l_phi_zero : forall a, Phi a = 0 -> a = rzero (d_ring D);
  l_phi_mul : forall b c, b <> rzero (d_ring D) -> c <> rzero (d_ring D) -> Phi b <= Phi (rmul (d_ring D) c b);
  l_div_zero : forall a, d_div D a (rzero (d_ring D)) = None /\ d_rem D a (rzero (d_ring D)) = None;
  l_div_rem : forall a b, b <> rzero (d_ring D) ->
      exists q r, d_div D a b = Some q /\ d_rem D a b = Some r /\
                  a = radd (d_ring D) (rmul (d_ring D) q b) r /\ 2 * Phi r <= Phi b;
}.

Section GenericProofs.
  Context {R : Type} (D : euc_dict R) (Phi : R -> Z) (EL : euc_dict_laws D Phi).
  Declare Scope R_scope.
  Notation o := (d_ring D).
  Notation "0" := (rzero o) : R_scope.
  Notation "1" := (rone o) : R_scope.
  Notation "a + b" := (radd o a b) : R_scope.
  Notation "a * b" := (rmul o a b) : R_scope.
  Notation "a - b" := (rsub o a b) : R_scope.
  Notation "- a" := (rneg o a) : R_scope.
  Delimit Scope R_scope with R.

  Let L : ring_laws o := l_ring D Phi EL.
  Let U := l_units D Phi EL.
  Add Ring Rring : (ring_theory_of_laws o L).

  Definition dvd (a b : R) : Prop := exists c, b = (c * a)%R.
  Definition unit (v : R) : Prop := d_is_unit D v = true.
  Definition assoc (a b : R) : Prop := exists v, unit v /\ b = (a * v)%R.
  Definition is_gcd (d x y : R) : Prop := dvd d x /\ dvd d y /\ forall c, dvd c x -> dvd c y -> dvd c d.

  Lemma is_zero_spec a : is_zero D a = true <-> a = 0%R.
  Proof. apply (reqb_eq o L). Qed.
  Lemma is_zero_reflect a : reflect (a = 0%R) (is_zero D a).
  Proof. apply (reqb_spec o L). Qed.
  Lemma is_one_reflect a : reflect (a = 1%R) (is_one D a).
  Proof. apply (reqb_spec o L). Qed.

  Lemma mul_zero_cases a b : (a * b)%R = 0%R -> a = 0%R \/ b = 0%R.
  Proof. apply (proj2 (l_integral D Phi EL)). Qed.

  Lemma normalized_eq a : normalized D a = (a * d_nunit D a)%R.
  Proof.
    unfold normalized. destruct (is_one_reflect (d_nunit D a)) as [E|_]; [|reflexivity].
    rewrite E. ring.
  Qed.

  Lemma nunit_unit a : unit (d_nunit D a).
  Proof. exact (rnunit_unit o _ U a). Qed.
  Lemma nunit_normalized a : d_nunit D (normalized D a) = 1%R.
  Proof. rewrite normalized_eq. exact (rnunit_idem o _ U a). Qed.
  Lemma nunit_zero : d_nunit D 0%R = 1%R.
  Proof.
    pose proof (rnunit_idem o _ U 0%R) as H. cbn in H.
    replace (0 * d_nunit D 0)%R with 0%R in H by ring. exact H.
  Qed.
  Lemma normalized_zero : normalized D 0%R = 0%R.
  Proof. rewrite normalized_eq. ring. Qed.

  Lemma unit_has_inverse v : unit v -> exists w, (v * w)%R = 1%R.
  Proof.
    intros Hv. apply (rinv_unit o _ U) in Hv. destruct Hv as [w Hw]. exists w.
    exact (rinv_some o _ U v w Hw).
  Qed.

  (* ---------- divisibility ---------- *)
  Lemma dvd_refl a : dvd a a.
  Proof. exists 1%R. ring. Qed.
  Lemma dvd_zero a : dvd a 0%R.
  Proof. exists 0%R. ring. Qed.
  Lemma dvd_trans a b c : dvd a b -> dvd b c -> dvd a c.
  Proof. intros [x ->] [y ->]. exists (y * x)%R. ring. Qed.
  Lemma dvd_zero_l a : dvd 0%R a -> a = 0%R.
  Proof. intros [c ->]. ring. Qed.
  Lemma dvd_mul_unit a v : unit v -> dvd (a * v)%R a.
  Proof. intros Hv. destruct (unit_has_inverse v Hv) as [w Hw]. exists w. rewrite <- (rmul_1_l o L a) at 1. rewrite <- Hw. ring. Qed.
  Lemma dvd_mul_r a v : dvd a (a * v)%R.
  Proof. exists v. ring. Qed.
  Lemma dvd_normalized_l a b : dvd (normalized D a) b <-> dvd a b.
  Proof.
    rewrite normalized_eq. split; intros H.
    - eapply dvd_trans; [apply dvd_mul_r|exact H].
    - eapply dvd_trans; [apply dvd_mul_unit, nunit_unit|exact H].
  Qed.
  Lemma dvd_normalized_r a b : dvd a (normalized D b) <-> dvd a b.
  Proof.
    rewrite normalized_eq. split; intros H.
    - eapply dvd_trans; [exact H|apply dvd_mul_unit, nunit_unit].
    - eapply dvd_trans; [exact H|apply dvd_mul_r].
  Qed.
  Lemma is_gcd_normalized d x y : is_gcd d x y -> is_gcd (normalized D d) x y.
  Proof.
    intros (H1 & H2 & H3). repeat split; try (apply dvd_normalized_l; assumption).
    intros c Hx Hy. apply dvd_normalized_r. auto.
  Qed.
  Lemma is_gcd_sym d x y : is_gcd d x y -> is_gcd d y x.
  Proof. intros (H1 & H2 & H3). repeat split; auto. Qed.

  (* exact division: when b | a the remainder is zero *)
  Lemma rem_of_multiple a b q r : b <> 0%R -> dvd b a ->
    a = (q * b + r)%R -> 2 * Phi r <= Phi b -> r = 0%R.
  Proof.
    intros Hb [c Hc] E Hphi.
    assert (Er : r = ((c - q) * b)%R).
    { transitivity (a - q * b)%R; [rewrite E; ring|rewrite Hc; ring]. }
    destruct (is_zero_reflect (c - q)%R) as [Z|NZ].
    - rewrite Er, Z. ring.
    - pose proof (l_phi_mul D Phi EL b (c - q)%R Hb NZ) as H1. rewrite <- Er in H1.
      pose proof (l_phi_nonneg D Phi EL r) as H2.
      assert (Phi b = 0) by lia. exfalso. apply Hb. now apply (l_phi_zero D Phi EL).
  Qed.

  Lemma divides_spec x y :
    exists b, divides D x y = Some b /\ (b = true <-> x <> 0%R /\ dvd x y).
  Proof.
    unfold divides. destruct (is_zero_reflect x) as [Zx|NZx].
    - exists false. split; [reflexivity|]. split; [discriminate|]. intros [H _]. contradiction.
    - destruct (l_div_rem D Phi EL y x NZx) as (q & r & _ & Hr & E & Hphi). rewrite Hr. cbn [obind].
      eexists. split; [reflexivity|]. rewrite is_zero_spec. split.
      + intros ->. split; [assumption|]. exists q. rewrite E. ring.
      + intros [_ Hd]. eapply rem_of_multiple; eauto.
  Qed.

  (* ---------- the Euclid loop ---------- *)
  Lemma gcd_loop_total : forall f x y, Phi y < 2 ^ Z.of_nat f -> exists d, gcd_loop D (S f) x y = Some d.
  Proof.
    induction f as [|f IH]; intros x y Hphi; cbn [gcd_loop].
    - destruct (is_zero_reflect y) as [Zy|NZy]; [eauto|]. exfalso. apply NZy.
      apply (l_phi_zero D Phi EL). pose proof (l_phi_nonneg D Phi EL y). cbn in Hphi. lia.
    - destruct (is_zero_reflect y) as [Zy|NZy]; [eauto|].
      destruct (l_div_rem D Phi EL x y NZy) as (q & r & _ & Hr & E & H2). rewrite Hr. cbn [obind].
      apply IH. rewrite Nat2Z.inj_succ, Z.pow_succ_r in Hphi by lia. lia.
  Qed.

  Lemma fuel_of_spec phi : 0 <= phi -> exists f, fuel_of phi = S f /\ phi < 2 ^ Z.of_nat f.
  Proof.
    intros H. unfold fuel_of. eexists. split; [reflexivity|].
    pose proof (Z.log2_nonneg phi). rewrite Z2Nat.id by lia.
    destruct (Z.eq_dec phi 0) as [->|NZ]; [cbn; lia|].
    pose proof (Z.log2_spec phi ltac:(lia)). unfold Z.succ in *. lia.
  Qed.

  Lemma gcd_loop_fuel x y : exists d, gcd_loop D (fuel_of (Phi y)) x y = Some d.
  Proof.
    destruct (fuel_of_spec (Phi y) (l_phi_nonneg D Phi EL y)) as (f & -> & Hf).
    now apply gcd_loop_total.
  Qed.

  Lemma gcd_loop_is_gcd : forall fuel x y d, gcd_loop D fuel x y = Some d -> is_gcd d x y.
  Proof.
    induction fuel as [|f IH]; intros x y d E; cbn [gcd_loop] in E; [discriminate|].
    destruct (is_zero_reflect y) as [Zy|NZy].
    - injection E as <-. subst y. repeat split; auto using dvd_refl, dvd_zero.
    - destruct (l_div_rem D Phi EL x y NZy) as (q & r & _ & Hr & Ex & _). rewrite Hr in E. cbn [obind] in E.
      apply IH in E. destruct E as (H1 & H2 & H3). repeat split; [|assumption|].
      + destruct H1 as [c1 Hc1], H2 as [c2 Hc2]. exists (q * c1 + c2)%R. rewrite Ex, Hc2 at 1. rewrite Hc1 at 1. ring.
      + intros c [cx Hx] [cy Hy]. apply H3; [exists cy; assumption|].
        exists (cx - q * cy)%R. transitivity (x - q * y)%R; [rewrite Ex; ring|]. rewrite Hx, Hy. ring.
  Qed.

  (* gcdx runs the same remainder sequence and maintains the Bezout combination *)
  Lemma gcdx_loop_spec X Y : forall fuel x y s0 s1 t0 t1,
    x = (s0 * X + t0 * Y)%R -> y = (s1 * X + t1 * Y)%R ->
    match gcd_loop D fuel x y with
    | Some d => exists s t, gcdx_loop D fuel x y s0 s1 t0 t1 = Some (d, s, t) /\ d = (s * X + t * Y)%R
    | None => gcdx_loop D fuel x y s0 s1 t0 t1 = None
    end.
  Proof.
    induction fuel as [|f IH]; intros x y s0 s1 t0 t1 Hx Hy; cbn [gcd_loop gcdx_loop]; [reflexivity|].
    destruct (is_zero_reflect y) as [Zy|NZy]; [eauto|].
    destruct (l_div_rem D Phi EL x y NZy) as (q & r & Hq & Hr & Ex & _). rewrite Hq, Hr. cbn [obind].
    apply IH; [assumption|].
    transitivity (x - q * y)%R; [rewrite Ex; ring|]. rewrite Hx, Hy. ring.
  Qed.

  (* ---------- gcd ---------- *)
  Definition good_fuel (fuel : nat) (y : R) : Prop := exists f, fuel = S f /\ Phi y < 2 ^ Z.of_nat f.
  Lemma good_fuel_of y : good_fuel (fuel_of (Phi y)) y.
  Proof. apply fuel_of_spec, (l_phi_nonneg D Phi EL). Qed.

  Lemma gcd_spec fuel x y : good_fuel fuel y ->
    exists d, gcd D fuel x y = Some d /\ is_gcd d x y /\ d_nunit D d = 1%R.
  Proof.
    intros (f & -> & Hf). unfold gcd.
    destruct (is_zero_reflect x) as [Zx|NZx]; destruct (is_zero_reflect y) as [Zy|NZy]; cbn [andb].
    - exists 0%R. subst. repeat split; auto using dvd_zero, nunit_zero.
    - (* x = 0, y <> 0 : the second early return *)
      destruct (divides_spec x y) as (b1 & -> & Hb1). cbn [obind].
      destruct b1; [exfalso; apply (proj1 (proj1 Hb1 eq_refl)); assumption|].
      destruct (divides_spec y x) as (b2 & -> & Hb2). cbn [obind].
      assert (b2 = true) as -> by (apply Hb2; split; [assumption|subst x; apply dvd_zero]).
      eexists. split; [reflexivity|]. split; [|apply nunit_normalized].
      apply is_gcd_normalized. subst x. repeat split; auto using dvd_refl, dvd_zero.
    - destruct (divides_spec x y) as (b1 & -> & Hb1). cbn [obind].
      assert (b1 = true) as -> by (apply Hb1; split; [assumption|subst y; apply dvd_zero]).
      eexists. split; [reflexivity|]. split; [|apply nunit_normalized].
      apply is_gcd_normalized. subst y. repeat split; auto using dvd_refl, dvd_zero.
    - destruct (divides_spec x y) as (b1 & -> & Hb1). cbn [obind]. destruct b1.
      { destruct (proj1 Hb1 eq_refl) as [_ Hd].
        eexists. split; [reflexivity|]. split; [|apply nunit_normalized].
        apply is_gcd_normalized. repeat split; auto using dvd_refl. }
      destruct (divides_spec y x) as (b2 & -> & Hb2). cbn [obind]. destruct b2.
      { destruct (proj1 Hb2 eq_refl) as [_ Hd].
        eexists. split; [reflexivity|]. split; [|apply nunit_normalized].
        apply is_gcd_normalized. repeat split; auto using dvd_refl. }
      destruct (gcd_loop_total f x y Hf) as [d Hd]. rewrite Hd. cbn [obind].
      eexists. split; [reflexivity|]. split; [|apply nunit_normalized].
      apply is_gcd_normalized. eapply gcd_loop_is_gcd; eassumption.
  Qed.

  (* two normalised gcds of the same pair are equal *)
  Lemma is_gcd_unique d d' x y :
    is_gcd d x y -> is_gcd d' x y -> d_nunit D d = 1%R -> d_nunit D d' = 1%R -> d = d'.
  Proof.
    intros (A1 & A2 & A3) (B1 & B2 & B3) N1 N2.
    destruct (B3 d A1 A2) as [c Hc]. destruct (A3 d' B1 B2) as [c' Hc'].
    (* d' = c * d, d = c' * d' *)
    destruct (is_zero_reflect d) as [Zd|NZd].
    - rewrite Hc, Zd. ring.
    - assert (E : ((c * c' - 1) * d)%R = 0%R).
      { transitivity (c' * (c * d) - d)%R; [ring|]. rewrite <- Hc, <- Hc'. ring. }
      apply mul_zero_cases in E. destruct E as [E|E]; [|contradiction].
      assert (E1 : (c * c')%R = 1%R).
      { transitivity ((c * c' - 1) + 1)%R; [ring|]. rewrite E. ring. }
      assert (Uc : unit c) by exact (runit_complete o _ U c c' E1).
      pose proof (rnunit_assoc o _ U d c Uc) as H. cbn in H.
      replace (d * c)%R with d' in H by (rewrite Hc; ring).
      rewrite N1, N2 in H. transitivity (d * 1)%R; [ring|]. rewrite <- H. ring.
  Qed.

  Lemma gcd_comm fuel fuel' x y d d' : good_fuel fuel y -> good_fuel fuel' x ->
    gcd D fuel x y = Some d -> gcd D fuel' y x = Some d' -> d = d'.
  Proof.
    intros F F' E E'.
    destruct (gcd_spec fuel x y F) as (d1 & E1 & G1 & N1).
    destruct (gcd_spec fuel' y x F') as (d2 & E2 & G2 & N2).
    rewrite E in E1. rewrite E' in E2. injection E1 as <-. injection E2 as <-.
    eapply is_gcd_unique; eauto using is_gcd_sym.
  Qed.

  Lemma gcd_zero_iff fuel x y d : good_fuel fuel y -> gcd D fuel x y = Some d ->
    (d = 0%R <-> x = 0%R /\ y = 0%R).
  Proof.
    intros F E. destruct (gcd_spec fuel x y F) as (d1 & E1 & (G1 & G2 & G3) & _).
    rewrite E in E1. injection E1 as <-. split.
    - intros ->. split; now apply dvd_zero_l.
    - intros [-> ->]. apply dvd_zero_l. apply G3; apply dvd_refl.
  Qed.

  (* ---------- gcdx ---------- *)
  Lemma gcdx_spec fuel x y : good_fuel fuel y ->
    exists d s t, gcdx D fuel x y = Some (d, s, t) /\ gcd D fuel x y = Some d /\ (s * x + t * y)%R = d.
  Proof.
    intros (f & -> & Hf). unfold gcdx, gcd.
    destruct (is_zero D x && is_zero D y) eqn:Ez.
    { apply andb_true_iff in Ez. destruct Ez as [Zx%is_zero_spec Zy%is_zero_spec]. subst.
      do 3 eexists. split; [reflexivity|]. split; [reflexivity|]. ring. }
    destruct (divides_spec x y) as (b1 & -> & Hb1). cbn [obind]. destruct b1.
    { do 3 eexists. split; [reflexivity|]. split; [rewrite normalized_eq; reflexivity|]. ring. }
    destruct (divides_spec y x) as (b2 & -> & Hb2). cbn [obind]. destruct b2.
    { do 3 eexists. split; [reflexivity|]. split; [rewrite normalized_eq; reflexivity|]. ring. }
    destruct (gcd_loop_total f x y Hf) as [d Hd].
    pose proof (gcdx_loop_spec x y (S f) x y 1%R 0%R 0%R 1%R) as H. rewrite Hd in H.
    destruct H as (s & t & -> & Hst); [ring|ring|]. rewrite Hd. cbn [obind]. rewrite normalized_eq.
    destruct (is_one_reflect (d_nunit D d)) as [E1|NE1].
    - do 3 eexists. split; [reflexivity|]. split; [rewrite E1; f_equal; ring|]. symmetry. exact Hst.
    - do 3 eexists. split; [reflexivity|]. split; [reflexivity|]. rewrite Hst at 3. ring.
  Qed.

  (* ---------- lcm ---------- *)
  Lemma lcm_spec fuel x y : good_fuel fuel y -> ~ (x = 0%R /\ y = 0%R) ->
    exists m g, lcm D fuel x y = Some m /\ gcd D fuel x y = Some g /\
                assoc (x * y)%R (m * g)%R /\ d_nunit D m = 1%R.
  Proof.
    intros F NZ. destruct (gcd_spec fuel x y F) as (g & Eg & (G1 & G2 & G3) & Ng).
    assert (NZg : g <> 0%R). { intros Zg. apply NZ. eapply gcd_zero_iff; eauto. }
    unfold lcm. rewrite Eg. cbn [obind].
    destruct (l_div_rem D Phi EL y g NZg) as (q & r & -> & _ & Ey & Hphi). cbn [obind].
    assert (Zr : r = 0%R) by (eapply rem_of_multiple; eauto).
    do 2 eexists. split; [reflexivity|]. split; [reflexivity|]. split; [|apply nunit_normalized].
    exists (d_nunit D (x * q)%R). split; [apply nunit_unit|].
    rewrite normalized_eq. rewrite Ey at 1. rewrite Zr. ring.
  Qed.

  Lemma lcm_zero_zero fuel : lcm D fuel 0%R 0%R = None.
  Proof.
    unfold lcm, gcd. destruct (is_zero_reflect 0%R) as [_|N]; [|contradiction]. cbn [andb obind].
    rewrite (proj1 (l_div_zero D Phi EL 0%R)). reflexivity.
  Qed.

  (* ---------- units and normalisation ---------- *)
  Lemma normalized_idem a : normalized D (normalized D a) = normalized D a.
  Proof. rewrite (normalized_eq (normalized D a)), nunit_normalized. ring. Qed.
  Lemma normalized_assoc a v : unit v -> normalized D (a * v)%R = normalized D a.
  Proof. intros Hv. rewrite !normalized_eq. exact (rnunit_assoc o _ U a v Hv). Qed.
  Lemma normalized_is_assoc a : assoc a (normalized D a).
  Proof. exists (d_nunit D a). split; [apply nunit_unit|apply normalized_eq]. Qed.
End GenericProofs.
