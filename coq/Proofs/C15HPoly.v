(* C15, homogeneous polynomials c x^d over a field (h_poly.rs; Model/EuclidPoly.v): division, the
   generic gcd / gcdx (they return on one of the early paths: of two non-zero monomials one divides the
   other, so the Euclid loop - and with it the degree assertion of HPoly's `+` - is never reached), units
   and normalisation.  The coefficient field is any [field_dict o inv] with [field_laws]. *)
From Coq Require Import ZArith Lia Bool Ring Arith.
Require Import Yui.Base.Ring Yui.Model.Euclid Yui.Model.EuclidPoly.
Require Import Yui.Proofs.C15Gcd Yui.Proofs.C15Field.

Section HPolyProofs.
  Context {K : Type} (o : ring_ops K) (inv : K -> option K) (FL : field_laws o inv).
  Let L : ring_laws o := fl_ring o inv FL.
  Add Ring Kring2 : (ring_theory_of_laws o L).
  Notation F := (field_dict o inv).
  Notation H := (hpoly_dict (field_dict o inv)).
  Notation zero := (rzero o).
  Notation one := (rone o).
  Notation mul := (rmul o).

  Definition hz (f : hpoly) : bool := h_is_zero F f.

  Lemma kzero_reflect c : reflect (c = zero) (kzero F c).
  Proof. apply (f_zero_reflect o inv FL). Qed.
  Lemma hz_reflect (f : @hpoly K) : reflect (snd f = zero) (hz f).
  Proof. apply kzero_reflect. Qed.
  Lemma hz_zero : hz (h_zero F) = true.
  Proof. destruct (hz_reflect (h_zero F)) as [_|N]; [reflexivity|]. exfalso. apply N. reflexivity. Qed.
  Lemma one_nonzero : kzero F one = false.
  Proof. destruct (kzero_reflect one) as [E|_]; [|reflexivity]. exfalso. exact (fl_nontrivial o inv FL E). Qed.

  Lemma hz_false (f : @hpoly K) : hz f = false -> snd f <> zero.
  Proof. intros E. destruct (hz_reflect f) as [|N]; [discriminate|exact N]. Qed.
  Lemma hz_true (f : @hpoly K) : hz f = true -> snd f = zero.
  Proof. intros E. destruct (hz_reflect f) as [Z|]; [exact Z|discriminate]. Qed.
  Lemma hz_intro_false (f : @hpoly K) : snd f <> zero -> hz f = false.
  Proof. intros N. destruct (hz_reflect f) as [Z|_]; [contradiction|reflexivity]. Qed.
  Lemma hz_intro_true (f : @hpoly K) : snd f = zero -> hz f = true.
  Proof. intros Z. destruct (hz_reflect f) as [_|N]; [reflexivity|contradiction]. Qed.

  Lemma is_zero_hz f : is_zero H f = hz f.
  Proof.
    unfold is_zero. cbn [d_ring hpoly_dict h_ring reqb rzero]. unfold h_eqb. fold (hz f). fold (hz (h_zero F)).
    rewrite hz_zero. destruct (hz_reflect f) as [Z|NZ]; cbn [andb]; [reflexivity|].
    cbn [snd h_zero d_ring field_dict]. destruct (reqb_spec o L (snd f) zero) as [E|_]; [contradiction|].
    apply andb_false_r.
  Qed.

  (* equality of values: two zeros are equal whatever their degree *)
  Lemma h_eqb_intro (a b : @hpoly K) : snd a = snd b -> (snd a <> zero -> fst a = fst b) -> h_eqb F a b = true.
  Proof.
    intros Ec Ed. unfold h_eqb. fold (hz a). fold (hz b).
    destruct (hz_reflect a) as [Za|NZa]; destruct (hz_reflect b) as [Zb|NZb]; cbn [andb]; try reflexivity.
    - exfalso. apply NZb. congruence.
    - exfalso. apply NZa. congruence.
    - rewrite (Ed NZa), Nat.eqb_refl, Ec. cbn [andb d_ring field_dict]. apply (reqb_refl o L).
  Qed.
  Lemma h_eqb_true (a b : @hpoly K) : h_eqb F a b = true ->
    (snd a = zero /\ snd b = zero) \/ (snd a <> zero /\ a = b).
  Proof.
    unfold h_eqb. fold (hz a). fold (hz b).
    destruct (hz_reflect a) as [Za|NZa]; destruct (hz_reflect b) as [Zb|NZb]; cbn [andb]; auto.
    - intros E. apply andb_true_iff in E. destruct E as [_ E]. apply (reqb_eq o L) in E. cbn in E. exfalso. apply NZb. congruence.
    - intros E. apply andb_true_iff in E. destruct E as [_ E]. apply (reqb_eq o L) in E. cbn in E. exfalso. apply NZa. congruence.
    - intros E. apply andb_true_iff in E. destruct E as [E1 E2]. apply Nat.eqb_eq in E1. apply (reqb_eq o L) in E2.
      right. split; [assumption|]. destruct a, b. cbn in *. congruence.
  Qed.

  (* the product, whichever branch is taken *)
  Lemma h_mul_eq (f g : @hpoly K) :
    snd (h_mul F f g) = mul (snd f) (snd g) /\ fst (h_mul F f g) = (fst f + fst g)%nat.
  Proof.
    unfold h_mul, h_is_one. cbn [d_ring field_dict].
    destruct (Nat.eqb_spec (fst g) 0) as [E0|_]; cbn [andb]; [|split; reflexivity].
    destruct (reqb_spec o L (snd g) one) as [E1|_]; [|split; reflexivity].
    rewrite E0, E1. split; [ring|lia].
  Qed.
  Lemma h_mul_pair f g : h_mul F f g = ((fst f + fst g)%nat, mul (snd f) (snd g)).
  Proof. destruct (h_mul_eq f g) as [E1 E2]. destruct (h_mul F f g) as [d c]. cbn [fst snd] in *. congruence. Qed.

  (* ---------- division ---------- *)
  Lemma h_div_rem_spec (f g : @hpoly K) : hz g = false ->
    exists i, inv (snd g) = Some i /\ mul (snd g) i = one /\
      h_div_rem F f g = Some (if (fst f <? fst g)%nat then (h_zero F, f)
                              else (((fst f - fst g)%nat, mul (snd f) i), h_zero F)).
  Proof.
    intros NZ. pose proof (hz_false g NZ) as NZg.
    destruct (fl_inv o inv FL (snd g) NZg) as (i & Ei & Hi). exists i. split; [exact Ei|]. split; [exact Hi|].
    unfold h_div_rem. fold (hz g). rewrite NZ. destruct (fst f <? fst g)%nat; [reflexivity|].
    cbn [d_div field_dict]. unfold f_div. destruct (reqb_spec o L (snd g) zero) as [|_]; [contradiction|].
    rewrite Ei. reflexivity.
  Qed.

  Lemma h_division (f g : @hpoly K) : hz g = false ->
    exists q r, d_div H f g = Some q /\ d_rem H f g = Some r /\
      h_eqb F (h_add F (h_mul F q g) r) f = true /\
      (hz r = true \/ (fst r < fst g)%nat).
  Proof.
    intros NZ. destruct (h_div_rem_spec f g NZ) as (i & Ei & Hi & E).
    cbn [d_div d_rem hpoly_dict]. unfold h_div, h_rem. rewrite E. cbn [obind].
    destruct (Nat.ltb_spec (fst f) (fst g)) as [Lt|Ge]; cbn [fst snd].
    - do 2 eexists. split; [reflexivity|]. split; [reflexivity|]. split; [|right; exact Lt].
      unfold h_add. fold (hz (h_mul F (h_zero F) g)).
      destruct (hz_reflect (h_mul F (h_zero F) g)) as [_|N].
      + apply h_eqb_intro; auto.
      + exfalso. apply N. rewrite (proj1 (h_mul_eq _ _)). cbn. ring.
    - do 2 eexists. split; [reflexivity|]. split; [reflexivity|]. split; [|left; apply hz_zero].
      set (q := ((fst f - fst g)%nat, mul (snd f) i)).
      assert (Ec : snd (h_mul F q g) = snd f).
      { rewrite (proj1 (h_mul_eq q g)). unfold q. cbn [snd].
        transitivity (mul (snd f) (mul (snd g) i)); [ring|]. rewrite Hi. ring. }
      assert (Ed : fst (h_mul F q g) = fst f).
      { rewrite (proj2 (h_mul_eq q g)). unfold q. cbn [fst]. lia. }
      unfold h_add. fold (hz (h_mul F q g)). fold (hz (h_zero F)). rewrite hz_zero.
      destruct (hz_reflect (h_mul F q g)) as [Z|N].
      + apply h_eqb_intro; cbn [snd h_zero d_ring field_dict]; [congruence|]. intros C. contradiction.
      + apply h_eqb_intro; [exact Ec|]. intros _. exact Ed.
  Qed.
  Lemma h_division_by_zero (f g : @hpoly K) : hz g = true -> d_div H f g = None /\ d_rem H f g = None.
  Proof.
    intros Zg. cbn [d_div d_rem hpoly_dict]. unfold h_div, h_rem, h_div_rem. fold (hz g). rewrite Zg. split; reflexivity.
  Qed.

  (* x | y as computed by the generic `divides` *)
  Lemma h_divides (x y : @hpoly K) :
    divides H x y = Some (negb (hz x) && (hz y || (fst x <=? fst y)%nat)).
  Proof.
    unfold divides. rewrite is_zero_hz. destruct (hz x) eqn:Zx; cbn [negb andb]; [reflexivity|].
    destruct (h_div_rem_spec y x Zx) as (i & _ & _ & E).
    cbn [d_rem hpoly_dict]. unfold h_rem. rewrite E. cbn [obind]. rewrite is_zero_hz.
    destruct (Nat.ltb_spec (fst y) (fst x)) as [Lt|Ge]; cbn [snd].
    - rewrite (proj2 (Nat.leb_gt _ _) Lt). rewrite orb_false_r. reflexivity.
    - rewrite hz_zero. rewrite (proj2 (Nat.leb_le _ _) Ge). rewrite orb_true_r. reflexivity.
  Qed.

  (* ---------- units and normalisation ---------- *)
  Lemma h_nunit_eq (f : @hpoly K) : d_nunit H f = (O, field_nunit o inv (snd f)).
  Proof. reflexivity. Qed.
  Lemma h_is_one_spec (u : @hpoly K) : is_one H u = true -> u = h_one F.
  Proof.
    unfold is_one. cbn [d_ring hpoly_dict h_ring reqb rone]. intros E. apply h_eqb_true in E.
    destruct E as [[_ E]|[_ E]]; [|exact E]. exfalso. cbn in E. exact (fl_nontrivial o inv FL E).
  Qed.

  Lemma h_normalized_nonzero (f : @hpoly K) : hz f = false -> normalized H f = (fst f, one).
  Proof.
    intros NZ. pose proof (hz_false f NZ) as NZf.
    destruct (field_nunit_nonzero o inv FL (snd f) NZf) as (u & _ & Eu & Hu).
    unfold normalized. rewrite h_nunit_eq, Eu.
    destruct (is_one H (O, u)) eqn:E1.
    - apply h_is_one_spec in E1. injection E1 as E1. cbn in E1. rewrite E1 in Hu.
      destruct f as [d c]. cbn [fst snd] in *. f_equal. rewrite <- Hu. ring.
    - cbn [d_ring hpoly_dict h_ring rmul]. rewrite h_mul_pair. cbn [fst snd]. f_equal; [lia|exact Hu].
  Qed.
  Lemma h_normalized_zero (f : @hpoly K) : hz f = true -> normalized H f = f.
  Proof.
    intros Z. pose proof (hz_true f Z) as Zf.
    unfold normalized. rewrite h_nunit_eq, Zf, (field_nunit_zero o inv FL).
    replace (is_one H (O, one)) with true; [reflexivity|].
    symmetry. unfold is_one. cbn [d_ring hpoly_dict h_ring reqb rone]. apply h_eqb_intro; auto.
  Qed.
  Lemma h_nunit_normalized (f : @hpoly K) : d_nunit H (normalized H f) = h_one F.
  Proof.
    destruct (hz f) eqn:Z.
    - rewrite (h_normalized_zero f Z). pose proof (hz_true f Z) as Zf.
      rewrite h_nunit_eq, Zf, (field_nunit_zero o inv FL). reflexivity.
    - rewrite (h_normalized_nonzero f Z), h_nunit_eq. cbn [snd]. unfold h_one. f_equal.
      unfold field_nunit. destruct (reqb_spec o L one zero) as [E|_]; [reflexivity|].
      now rewrite (f_inv_one o inv FL).
  Qed.

  Lemma h_units (f : @hpoly K) :
    (d_is_unit H f = true <-> fst f = O /\ snd f <> zero) /\
    (d_is_unit H f = true <-> exists i, d_inv H f = Some i) /\
    (forall i, d_inv H f = Some i -> rmul (d_ring H) f i = h_one F).
  Proof.
    cbn [d_is_unit d_inv hpoly_dict d_ring h_ring rmul]. unfold h_is_unit, h_inv. cbn [d_is_unit d_inv field_dict].
    unfold f_is_unit.
    destruct (Nat.eqb_spec (fst f) 0) as [E0|N0]; cbn [andb].
    - rewrite E0. cbn [Nat.ltb Nat.leb]. destruct (reqb_spec o L (snd f) zero) as [Z|NZ]; cbn [negb].
      + split; [split; [discriminate|intros [_ C]; contradiction]|]. rewrite Z, (fl_inv_zero o inv FL). cbn [obind].
        split; [split; [discriminate|intros [i C]; discriminate]|]. intros i C. discriminate.
      + destruct (fl_inv o inv FL (snd f) NZ) as (a & Ea & Ha). rewrite Ea. cbn [obind].
        split; [tauto|]. split; [split; eauto|]. intros i [= <-]. rewrite h_mul_pair. cbn [fst snd].
        rewrite E0. unfold h_one. f_equal. exact Ha.
    - assert (Lt : (0 <? fst f)%nat = true) by (apply Nat.ltb_lt; lia). rewrite Lt.
      split; [split; [discriminate|intros [C _]; contradiction]|].
      split; [split; [discriminate|intros [i C]; discriminate]|]. intros i C. discriminate.
  Qed.

  Lemma h_normalized_idem (f : @hpoly K) : normalized H (normalized H f) = normalized H f.
  Proof.
    destruct (hz f) eqn:Z.
    - rewrite !(h_normalized_zero f Z). reflexivity.
    - rewrite (h_normalized_nonzero f Z). rewrite (h_normalized_nonzero (fst f, one)); [reflexivity|].
      destruct (hz_reflect (fst f, one)) as [E|_]; [|reflexivity]. exfalso. exact (fl_nontrivial o inv FL E).
  Qed.
  (* constant on associates, as values ([h_eqb]; for a zero monomial the stored degree is kept) *)
  Lemma h_normalized_assoc (f v : @hpoly K) : d_is_unit H v = true ->
    normalized H (rmul (d_ring H) f v) = normalized H f.
  Proof.
    intros Uv. apply (proj1 (h_units v)) in Uv. destruct Uv as [Ev NZv].
    cbn [d_ring hpoly_dict h_ring rmul]. rewrite h_mul_pair, Ev, Nat.add_0_r.
    destruct (hz f) eqn:Z.
    - pose proof (hz_true f Z) as Zf.
      rewrite (h_normalized_zero f Z). rewrite h_normalized_zero.
      + destruct f as [d c]. cbn [fst snd] in *. f_equal. rewrite Zf. ring.
      + destruct (hz_reflect (fst f, mul (snd f) (snd v))) as [_|N]; [reflexivity|]. exfalso. apply N. cbn [snd]. rewrite Zf. ring.
    - pose proof (hz_false f Z) as NZf.
      rewrite (h_normalized_nonzero f Z). rewrite h_normalized_nonzero; [reflexivity|].
      destruct (hz_reflect (fst f, mul (snd f) (snd v))) as [E|_]; [|reflexivity]. exfalso.
      cbn [snd] in E. exact (f_mul_nonzero o inv FL _ _ NZf NZv E).
  Qed.

  (* ---------- gcd / gcdx: x^min(d, d') with coefficient 1, for every fuel ---------- *)
  Definition h_gcd_val (f g : @hpoly K) : @hpoly K :=
    if hz f then (if hz g then h_zero F else (fst g, one))
    else if hz g then (fst f, one) else (Nat.min (fst f) (fst g), one).

  Lemma h_gcd_value fuel (f g : @hpoly K) : gcd H fuel f g = Some (h_gcd_val f g).
  Proof.
    unfold gcd, h_gcd_val. rewrite !is_zero_hz, !h_divides.
    destruct (hz f) eqn:Zf; destruct (hz g) eqn:Zg; cbn [andb negb orb obind].
    - reflexivity.
    - rewrite (h_normalized_nonzero g Zg). reflexivity.
    - rewrite (h_normalized_nonzero f Zf). reflexivity.
    - destruct (Nat.leb_spec (fst f) (fst g)) as [Le|Gt].
      + rewrite (h_normalized_nonzero f Zf). rewrite Nat.min_l by exact Le. reflexivity.
      + rewrite (proj2 (Nat.leb_le (fst g) (fst f))) by lia. rewrite (h_normalized_nonzero g Zg).
        rewrite Nat.min_r by lia. reflexivity.
  Qed.

  Lemma h_gcd_val_comm f g : h_gcd_val f g = h_gcd_val g f.
  Proof. unfold h_gcd_val. destruct (hz f), (hz g); try reflexivity. now rewrite Nat.min_comm. Qed.

  Lemma h_mul_nunit (f : @hpoly K) : hz f = false -> rmul (d_ring H) f (d_nunit H f) = (fst f, one).
  Proof.
    intros Z. pose proof (hz_false f Z) as NZf.
    destruct (field_nunit_nonzero o inv FL (snd f) NZf) as (u & _ & Eu & Hu).
    cbn [d_ring hpoly_dict h_ring rmul]. rewrite h_mul_pair, h_nunit_eq, Eu. cbn [fst snd]. f_equal; [lia|exact Hu].
  Qed.

  (* the value s f + t g, computed with HPoly's own + and *, equals d as a value *)
  Lemma h_gcdx_value fuel (f g : @hpoly K) :
    exists s t, gcdx H fuel f g = Some (h_gcd_val f g, s, t) /\
      h_eqb F (h_add F (h_mul F s f) (h_mul F t g)) (h_gcd_val f g) = true.
  Proof.
    unfold gcdx, h_gcd_val. rewrite !is_zero_hz, !h_divides.
    assert (M0 : forall x : @hpoly K, hz (h_mul F (h_zero F) x) = true).
    { intros x. destruct (hz_reflect (h_mul F (h_zero F) x)) as [_|N]; [reflexivity|]. exfalso. apply N.
      rewrite (proj1 (h_mul_eq _ _)). cbn. ring. }
    assert (MU : forall x : @hpoly K, hz x = false -> h_mul F (d_nunit H x) x = (fst x, one)).
    { intros x Zx. rewrite <- (h_mul_nunit x Zx). cbn [d_ring hpoly_dict h_ring rmul]. rewrite !h_mul_pair.
      f_equal; [lia|ring]. }
    destruct (hz f) eqn:Zf; destruct (hz g) eqn:Zg; cbn [andb negb orb obind].
    - do 2 eexists. split; [reflexivity|]. cbn [d_ring hpoly_dict h_ring rzero].
      unfold h_add. fold (hz (h_mul F (h_zero F) f)). rewrite M0.
      apply h_eqb_intro; [|intros C; exfalso; apply C].
      + rewrite (proj1 (h_mul_eq _ _)). cbn. ring.
      + rewrite (proj1 (h_mul_eq _ _)). cbn. ring.
    - rewrite (h_mul_nunit g Zg). do 2 eexists. split; [reflexivity|]. cbn [d_ring hpoly_dict h_ring rzero].
      unfold h_add. fold (hz (h_mul F (h_zero F) f)). rewrite M0, (MU g Zg). apply h_eqb_intro; auto.
    - rewrite (h_mul_nunit f Zf). do 2 eexists. split; [reflexivity|]. cbn [d_ring hpoly_dict h_ring rzero].
      unfold h_add. fold (hz (h_mul F (d_nunit H f) f)). fold (hz (h_mul F (h_zero F) g)). rewrite M0, (MU f Zf).
      destruct (hz_reflect (fst f, one)) as [E|_]; [exfalso; exact (fl_nontrivial o inv FL E)|]. apply h_eqb_intro; auto.
    - destruct (Nat.leb_spec (fst f) (fst g)) as [Le|Gt].
      + rewrite (h_mul_nunit f Zf), Nat.min_l by exact Le. do 2 eexists. split; [reflexivity|].
        cbn [d_ring hpoly_dict h_ring rzero].
        unfold h_add. fold (hz (h_mul F (d_nunit H f) f)). fold (hz (h_mul F (h_zero F) g)). rewrite M0, (MU f Zf).
        destruct (hz_reflect (fst f, one)) as [E|_]; [exfalso; exact (fl_nontrivial o inv FL E)|]. apply h_eqb_intro; auto.
      + rewrite (proj2 (Nat.leb_le (fst g) (fst f))) by lia.
        rewrite (h_mul_nunit g Zg), Nat.min_r by lia. do 2 eexists. split; [reflexivity|].
        cbn [d_ring hpoly_dict h_ring rzero].
        unfold h_add. fold (hz (h_mul F (h_zero F) f)). rewrite M0, (MU g Zg). apply h_eqb_intro; auto.
  Qed.

  (* d divides both arguments: d * x^(deg - deg d) * coefficient *)
  Lemma h_gcd_divides (f g : @hpoly K) :
    (exists c, h_eqb F (h_mul F c (h_gcd_val f g)) f = true) /\
    (exists c, h_eqb F (h_mul F c (h_gcd_val f g)) g = true).
  Proof.
    assert (A : forall (x : @hpoly K) (d : nat), (d <= fst x)%nat -> exists c, h_eqb F (h_mul F c (d, one)) x = true).
    { intros x d Hd. exists ((fst x - d)%nat, snd x). rewrite h_mul_pair. cbn [fst snd].
      apply h_eqb_intro; cbn [fst snd]; [ring|]. intros _. lia. }
    assert (B : forall x : @hpoly K, hz x = true -> forall d, exists c, h_eqb F (h_mul F c d) x = true).
    { intros x Zx d. exists (h_zero F). pose proof (hz_true x Zx) as Z.
      apply h_eqb_intro; [|intros C; exfalso; apply C]; rewrite (proj1 (h_mul_eq _ _)); cbn [snd h_zero d_ring field_dict]; rewrite ?Z; ring. }
    unfold h_gcd_val. destruct (hz f) eqn:Zf; destruct (hz g) eqn:Zg.
    - split; apply B; assumption.
    - split; [apply B; assumption|apply A; lia].
    - split; [apply A; lia|apply B; assumption].
    - split; apply A; lia.
  Qed.

  Lemma h_gcd_val_normalized f g : d_nunit H (h_gcd_val f g) = h_one F.
  Proof.
    assert (A : forall d : nat, d_nunit H (d, one) = h_one F).
    { intros d. rewrite h_nunit_eq. cbn [snd]. unfold h_one. f_equal. unfold field_nunit.
      destruct (reqb_spec o L one zero) as [E|_]; [reflexivity|]. now rewrite (f_inv_one o inv FL). }
    unfold h_gcd_val. destruct (hz f); destruct (hz g); try apply A.
    rewrite h_nunit_eq. cbn [snd h_zero d_ring field_dict]. rewrite (field_nunit_zero o inv FL). reflexivity.
  Qed.

  (* lcm: x^max(d, d') (coefficient 1), 0 when one argument is 0; lcm(0, 0) panics *)
  Lemma h_lcm_value fuel (f g : @hpoly K) : hz f = false -> hz g = false ->
    lcm H fuel f g = Some (Nat.max (fst f) (fst g), one).
  Proof.
    intros Zf Zg. unfold lcm. rewrite h_gcd_value. cbn [obind]. unfold h_gcd_val. rewrite Zf, Zg.
    set (m := Nat.min (fst f) (fst g)).
    assert (Zd : hz (m, one) = false).
    { destruct (hz_reflect (m, one)) as [E|_]; [exfalso; exact (fl_nontrivial o inv FL E)|reflexivity]. }
    destruct (h_div_rem_spec g (m, one) Zd) as (i & Ei & Hi & E).
    cbn [d_div hpoly_dict]. unfold h_div. rewrite E. cbn [obind fst snd].
    assert (Lt : (fst g <? m)%nat = false) by (apply Nat.ltb_ge; unfold m; lia). rewrite Lt. cbn [fst].
    rewrite h_normalized_nonzero.
    - cbn [d_ring hpoly_dict h_ring rmul]. rewrite h_mul_pair. cbn [fst]. do 2 f_equal. unfold m. lia.
    - cbn [d_ring hpoly_dict h_ring rmul]. rewrite h_mul_pair.
      destruct (hz_reflect ((fst f + fst (fst g - m, mul (snd g) i))%nat, mul (snd f) (snd (fst g - m, mul (snd g) i)%nat))) as [C|_]; [|reflexivity].
      exfalso. cbn [snd] in C. pose proof (hz_false f Zf) as NZf. pose proof (hz_false g Zg) as NZg.
      assert (NZi : i <> zero). { intros Zi. apply (fl_nontrivial o inv FL). rewrite <- Hi, Zi. cbn [snd]. ring. }
      exact (f_mul_nonzero o inv FL _ _ NZf (f_mul_nonzero o inv FL _ _ NZg NZi) C).
  Qed.

  (* ---------- the statements of Properties/C15.v ---------- *)
  Lemma hpoly_division_main (f g : @hpoly K) :
    (h_is_zero F g = false ->
       exists q r, d_div H f g = Some q /\ d_rem H f g = Some r /\
         h_eqb F (h_add F (h_mul F q g) r) f = true /\
         (h_is_zero F r = true \/ (fst r < fst g)%nat)) /\
    (h_is_zero F g = true -> d_div H f g = None /\ d_rem H f g = None).
  Proof. split; [apply h_division|apply h_division_by_zero]. Qed.

  Lemma hpoly_gcd_main (fuel fuel' : nat) (f g : @hpoly K) :
    exists d s t,
      gcd H fuel f g = Some d /\ gcdx H fuel f g = Some (d, s, t) /\
      d = (if h_is_zero F f then (if h_is_zero F g then h_zero F else (fst g, one))
           else if h_is_zero F g then (fst f, one) else (Nat.min (fst f) (fst g), one)) /\
      (exists c, h_eqb F (h_mul F c d) f = true) /\ (exists c, h_eqb F (h_mul F c d) g = true) /\
      h_eqb F (h_add F (h_mul F s f) (h_mul F t g)) d = true /\
      d_nunit H d = h_one F /\
      gcd H fuel' g f = Some d.
  Proof.
    destruct (h_gcdx_value fuel f g) as (s & t & E & B). exists (h_gcd_val f g), s, t.
    split; [apply h_gcd_value|]. split; [exact E|]. split; [reflexivity|].
    split; [apply h_gcd_divides|]. split; [apply h_gcd_divides|]. split; [exact B|].
    split; [apply h_gcd_val_normalized|]. rewrite h_gcd_val_comm. apply h_gcd_value.
  Qed.

  Lemma hpoly_lcm_main (fuel : nat) (f g : @hpoly K) : h_is_zero F f = false -> h_is_zero F g = false ->
    lcm H fuel f g = Some (Nat.max (fst f) (fst g), one).
  Proof. apply h_lcm_value. Qed.

  Lemma hpoly_units_main :
    (forall f : @hpoly K, d_is_unit H f = true <-> fst f = O /\ snd f <> zero) /\
    (forall f : @hpoly K, d_is_unit H f = true <-> exists i, d_inv H f = Some i) /\
    (forall f i : @hpoly K, d_inv H f = Some i -> h_mul F f i = h_one F) /\
    (forall f : @hpoly K, h_is_zero F f = false -> normalized H f = (fst f, one)) /\
    (forall f : @hpoly K, h_is_zero F f = true -> normalized H f = f) /\
    (forall f : @hpoly K, d_nunit H (normalized H f) = h_one F) /\
    (forall f : @hpoly K, normalized H (normalized H f) = normalized H f) /\
    (forall f v : @hpoly K, d_is_unit H v = true -> normalized H (h_mul F f v) = normalized H f).
  Proof.
    split; [intros f; apply (h_units f)|]. split; [intros f; apply (h_units f)|].
    split; [intros f i; apply (h_units f)|]. split; [apply h_normalized_nonzero|].
    split; [apply h_normalized_zero|]. split; [apply h_nunit_normalized|].
    split; [apply h_normalized_idem|apply h_normalized_assoc].
  Qed.
End HPolyProofs.
