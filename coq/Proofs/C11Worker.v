(* C11 - the RowWorker: invariants of init / traverse / update_diff, sufficiency of the fuel of the
   traverse loop, and the conditions under which a worker may commit (DESIGN.md appendix A.1,
   "worker invariant"). *)
From Coq Require Import ZArith List Bool Arith Lia Permutation.
Require Import Yui.Model.Pivot Yui.Proofs.C11Base.
Import ListNotations.

Section Worker.
Variable M : mstr.

(* ------------------------------------------------------------------------------------------------ *)
(* field equations                                                                                  *)
(* ------------------------------------------------------------------------------------------------ *)
Lemma st_upd_eq : forall f j v c, st_upd f j v c = if c =? j then v else f c.
Proof. reflexivity. Qed.

Lemma st_occ : forall w j c, w_st (wk_set_occupied w j) c = if c =? j then SOcc else w_st w c.
Proof. reflexivity. Qed.
Lemma queue_occ : forall w j, w_queue (wk_set_occupied w j) = w_queue w.
Proof. reflexivity. Qed.
Lemma queued_occ : forall w j, w_queued (wk_set_occupied w j) = w_queued w.
Proof. reflexivity. Qed.
Lemma row_occ_eq : forall w j, w_row (wk_set_occupied w j) = w_row w.
Proof. reflexivity. Qed.
Lemma ncand_occ : forall w j, w_ncand (wk_set_occupied w j) = if wk_is_candidate w j then w_ncand w - 1 else w_ncand w.
Proof. reflexivity. Qed.
Lemma st_enq : forall w j, w_st (wk_enqueue w j) = w_st w.
Proof. reflexivity. Qed.
Lemma queue_enq : forall w j, w_queue (wk_enqueue w j) = w_queue w ++ [j].
Proof. reflexivity. Qed.
Lemma queued_enq : forall w j, w_queued (wk_enqueue w j) = j :: w_queued w.
Proof. reflexivity. Qed.
Lemma ncand_enq : forall w j, w_ncand (wk_enqueue w j) = w_ncand w.
Proof. reflexivity. Qed.
Lemma row_enq : forall w j, w_row (wk_enqueue w j) = w_row w.
Proof. reflexivity. Qed.
Lemma cand_enq : forall w j c, wk_is_candidate (wk_enqueue w j) c = wk_is_candidate w c.
Proof. reflexivity. Qed.

Lemma is_candidate_true : forall w c, wk_is_candidate w c = true <-> w_st w c = SCand.
Proof. intros w c. unfold wk_is_candidate. destruct (w_st w c); split; intros H; try reflexivity; discriminate. Qed.
Lemma is_occupied_true : forall w c, wk_is_occupied w c = true <-> w_st w c = SOcc.
Proof. intros w c. unfold wk_is_occupied. destruct (w_st w c); split; intros H; try reflexivity; discriminate. Qed.
Lemma has_candidate_true : forall w, wk_has_candidate w = true <-> 0 < w_ncand w.
Proof. intros w. unfold wk_has_candidate. apply Nat.ltb_lt. Qed.

(* ------------------------------------------------------------------------------------------------ *)
(* the invariant                                                                                    *)
(* ------------------------------------------------------------------------------------------------ *)
Definition seen (w : worker) (c : nat) : Prop := w_st w c <> SNone.
Definition row_occ (w : worker) (r : nat) : Prop := forall c', In c' (cols_in M r) -> w_st w c' = SOcc.
Definition row_seen (w : worker) : Prop := forall c, In c (cols_in M (w_row w)) -> seen w c.

(* [cnt st n]: n is the number of candidate entries of st *)
Definition cnt (st : nat -> est) (n : nat) : Prop :=
  exists cl, NoDup cl /\ (forall c, In c cl <-> st c = SCand) /\ n = length cl.

Record wk_inv0 (L : plog) (w : worker) : Prop := mk_wk_inv0 {
  wi_cand : forall c, w_st w c = SCand ->
              In c (cols_in M (w_row w)) /\ is_cand M (w_row w) c = true /\ ~ pcol L c;
  wi_count : cnt (w_st w) (w_ncand w);
  wi_queue : forall c, In c (w_queue w) -> pcol L c;
  wi_queued : forall c, In c (w_queued w) -> w_st w c = SOcc
}.

(* every pivot column the worker has seen is waiting in the queue (or in [pend]: dequeued, its row
   being marked) or has had its whole pivot row marked occupied *)
Definition closed_inv (L : plog) (pend : list nat) (w : worker) : Prop :=
  forall c, pcol L c -> seen w c ->
    In c (w_queue w ++ pend) \/ exists r, In (r, c) L /\ row_occ w r.

Definition wk_inv (L : plog) (w : worker) : Prop :=
  wk_inv0 L w /\ (w_ncand w = 0 \/ closed_inv L [] w).

(* monotonicity of the worker state between init and the end of the row *)
Record wk_le (w w' : worker) : Prop := mk_wk_le {
  le_occ : forall c, w_st w c = SOcc -> w_st w' c = SOcc;
  le_seen : forall c, seen w c -> seen w' c;
  le_cand : forall c, w_st w' c = SCand -> w_st w c = SCand;
  le_ncand : w_ncand w' <= w_ncand w;
  le_row : w_row w' = w_row w;
  le_queue : forall c, In c (w_queue w) -> In c (w_queue w')
}.

Lemma wk_le_refl : forall w, wk_le w w.
Proof. intros w. constructor; auto. Qed.

Lemma wk_le_trans : forall a b c, wk_le a b -> wk_le b c -> wk_le a c.
Proof.
  intros a b c [H1 H2 H3 H4 H5 H6] [G1 G2 G3 G4 G5 G6]. constructor; auto; try lia; try congruence.
Qed.

Lemma row_occ_le : forall w w' r, (forall c, w_st w c = SOcc -> w_st w' c = SOcc) -> row_occ w r -> row_occ w' r.
Proof. intros w w' r H Hr c' Hc'. apply H. apply Hr. exact Hc'. Qed.

(* ------------------------------------------------------------------------------------------------ *)
(* counting candidates                                                                              *)
(* ------------------------------------------------------------------------------------------------ *)
Lemma filter_neq_length : forall (l : list nat) x, NoDup l -> In x l ->
  S (length (filter (fun c => negb (c =? x)) l)) = length l.
Proof.
  induction l as [|y r IH]; intros x Hnd Hin; [destruct Hin|].
  inversion Hnd as [|? ? Hy Hr]; subst. cbn [filter]. destruct (y =? x) eqn:E; cbn [negb length].
  - apply Nat.eqb_eq in E. subst y. f_equal.
    assert (Hf : filter (fun c => negb (c =? x)) r = r).
    { clear IH Hnd Hr Hin. induction r as [|z r' IH']; [reflexivity|]. cbn [filter].
      destruct (z =? x) eqn:E; cbn [negb].
      - apply Nat.eqb_eq in E. subst. exfalso. apply Hy. left. reflexivity.
      - f_equal. apply IH'. intros H. apply Hy. right. exact H. }
    rewrite Hf. reflexivity.
  - f_equal. apply IH; [exact Hr|]. destruct Hin as [Hin|Hin]; [|exact Hin].
    subst. rewrite Nat.eqb_refl in E. discriminate.
Qed.

Lemma cnt_pos : forall st n c, cnt st n -> st c = SCand -> 0 < n.
Proof.
  intros st n c [cl [_ [Hcl Hn]]] Hc. apply Hcl in Hc. destruct cl; [destruct Hc|]. cbn [length] in Hn. lia.
Qed.

Lemma cnt_zero : forall st c, cnt st 0 -> st c <> SCand.
Proof. intros st c H Hc. pose proof (cnt_pos _ _ _ H Hc). lia. Qed.

Lemma cnt_set_occ : forall st n j, cnt st n ->
  cnt (st_upd st j SOcc) (match st j with SCand => n - 1 | _ => n end).
Proof.
  intros st n j [cl [Hnd [Hcl Hn]]]. destruct (st j) eqn:Ej.
  - exists cl. split; [exact Hnd|]. split; [|exact Hn]. intros c. rewrite st_upd_eq. rewrite Hcl.
    destruct (c =? j) eqn:E; [|reflexivity]. apply Nat.eqb_eq in E. subst. rewrite Ej. split; discriminate.
  - exists (filter (fun c => negb (c =? j)) cl). split; [apply NoDup_filter; exact Hnd|]. split.
    + intros c. rewrite filter_In, st_upd_eq, Hcl. destruct (c =? j); cbn [negb]; split.
      * intros [_ H]. discriminate.
      * discriminate.
      * intros [H _]. exact H.
      * intros H. split; [exact H | reflexivity].
    + assert (Hj : In j cl) by (apply Hcl; exact Ej).
      pose proof (filter_neq_length cl j Hnd Hj). lia.
  - exists cl. split; [exact Hnd|]. split; [|exact Hn]. intros c. rewrite st_upd_eq. rewrite Hcl.
    destruct (c =? j) eqn:E; [|reflexivity]. apply Nat.eqb_eq in E. subst. rewrite Ej. split; discriminate.
Qed.

Lemma cnt_set_cand : forall st n j, cnt st n -> st j = SNone -> cnt (st_upd st j SCand) (S n).
Proof.
  intros st n j [cl [Hnd [Hcl Hn]]] Ej. exists (j :: cl). split; [|split].
  - constructor; [|exact Hnd]. intros H. apply Hcl in H. rewrite Ej in H. discriminate.
  - intros c. rewrite st_upd_eq. cbn [In]. rewrite Hcl. destruct (c =? j) eqn:E.
    + apply Nat.eqb_eq in E. subst. split; [reflexivity | left; reflexivity].
    + apply Nat.eqb_neq in E. split; [intros [H|H]; [exfalso; apply E; symmetry; exact H | exact H] | right; assumption].
  - cbn [length]. lia.
Qed.

Lemma ncand_occ_le : forall w j, w_ncand (wk_set_occupied w j) <= w_ncand w.
Proof. intros w j. rewrite ncand_occ. destruct (wk_is_candidate w j); lia. Qed.

(* ------------------------------------------------------------------------------------------------ *)
(* primitive steps                                                                                  *)
(* ------------------------------------------------------------------------------------------------ *)
Lemma set_occ_le : forall w j, wk_le w (wk_set_occupied w j).
Proof.
  intros w j. constructor.
  - intros c H. rewrite st_occ. destruct (c =? j); [reflexivity | exact H].
  - intros c H. unfold seen. rewrite st_occ. destruct (c =? j); [discriminate | exact H].
  - intros c. rewrite st_occ. destruct (c =? j); [discriminate | intros H; exact H].
  - apply ncand_occ_le.
  - reflexivity.
  - intros c H. exact H.
Qed.

Lemma enq_le : forall w j, wk_le w (wk_enqueue w j).
Proof.
  intros w j. constructor; try (intros c H; exact H); try reflexivity; try (rewrite ncand_enq; lia).
  intros c H. rewrite queue_enq. apply in_or_app. left. exact H.
Qed.

(* occupy an entry; [j] is allowed to be queued already *)
Lemma set_occ_inv0 : forall L w j, wk_inv0 L w -> wk_inv0 L (wk_set_occupied w j).
Proof.
  intros L w j [Hc Hn Hq Hqd]. constructor.
  - intros c. rewrite st_occ, row_occ_eq. destruct (c =? j); [discriminate | apply Hc].
  - rewrite ncand_occ. unfold wk_is_candidate. pose proof (cnt_set_occ _ _ j Hn) as H.
    change (w_st (wk_set_occupied w j)) with (st_upd (w_st w) j SOcc).
    destruct (w_st w j); exact H.
  - rewrite queue_occ. exact Hq.
  - intros c. rewrite queued_occ, st_occ. intros H. destruct (c =? j); [reflexivity | apply Hqd; exact H].
Qed.

Lemma enq_occ_inv0 : forall L w j, wk_inv0 L w -> pcol L j -> wk_inv0 L (wk_set_occupied (wk_enqueue w j) j).
Proof.
  intros L w j [Hc Hn Hq Hqd] Hj. constructor.
  - intros c. rewrite st_occ, row_occ_eq, st_enq, row_enq. destruct (c =? j); [discriminate | apply Hc].
  - rewrite ncand_occ, cand_enq, ncand_enq. unfold wk_is_candidate. pose proof (cnt_set_occ _ _ j Hn) as H.
    change (w_st (wk_set_occupied (wk_enqueue w j) j)) with (st_upd (w_st w) j SOcc).
    destruct (w_st w j); exact H.
  - rewrite queue_occ, queue_enq. intros c H. apply in_app_or in H. destruct H as [H|[H|[]]]; [apply Hq; exact H | subst; exact Hj].
  - intros c. rewrite queued_occ, queued_enq, st_occ, st_enq. intros H. destruct (c =? j) eqn:E; [reflexivity|].
    destruct H as [H|H]; [subst; rewrite Nat.eqb_refl in E; discriminate | apply Hqd; exact H].
Qed.

(* closed_inv under occupying an entry that is covered whenever it is a pivot column *)
Lemma set_occ_closed : forall L pend w j, closed_inv L pend w ->
  (pcol L j -> In j (w_queue w ++ pend) \/ exists r, In (r, j) L /\ row_occ w r) ->
  closed_inv L pend (wk_set_occupied w j).
Proof.
  intros L pend w j Hcl Hj c Hpc Hs. rewrite queue_occ.
  assert (Hmono : forall r, row_occ w r -> row_occ (wk_set_occupied w j) r).
  { intros r. apply row_occ_le. apply (le_occ _ _ (set_occ_le w j)). }
  destruct (Nat.eq_dec c j) as [E|E].
  - subst c. destruct (Hj Hpc) as [H|[r [H1 H2]]]; [left; exact H | right; exists r; split; [exact H1 | apply Hmono; exact H2]].
  - assert (Hs' : seen w c).
    { unfold seen in *. rewrite st_occ in Hs. apply Nat.eqb_neq in E. rewrite E in Hs. exact Hs. }
    destruct (Hcl c Hpc Hs') as [H|[r [H1 H2]]]; [left; exact H | right; exists r; split; [exact H1 | apply Hmono; exact H2]].
Qed.

Lemma enq_occ_closed : forall L pend w j, closed_inv L pend w ->
  closed_inv L pend (wk_set_occupied (wk_enqueue w j) j).
Proof.
  intros L pend w j Hcl c Hpc Hs. rewrite queue_occ, queue_enq.
  assert (Hmono : forall r, row_occ w r -> row_occ (wk_set_occupied (wk_enqueue w j) j) r).
  { intros r. apply row_occ_le. intros c0 H0. rewrite st_occ, st_enq. destruct (c0 =? j); [reflexivity | exact H0]. }
  destruct (Nat.eq_dec c j) as [E|E].
  - subst c. left. apply in_or_app. left. apply in_or_app. right. left. reflexivity.
  - assert (Hs' : seen w c).
    { unfold seen in *. rewrite st_occ, st_enq in Hs. apply Nat.eqb_neq in E. rewrite E in Hs. exact Hs. }
    destruct (Hcl c Hpc Hs') as [H|[r [H1 H2]]].
    + left. apply in_app_or in H. apply in_or_app. destruct H as [H|H]; [left; apply in_or_app; left; exact H | right; exact H].
    + right. exists r. split; [exact H1 | apply Hmono; exact H2].
Qed.

(* one iteration of the body of mark_row: `if has_col && !is_queued { enqueue }; set_occupied` *)
Definition visit (L : plog) (w : worker) (j : nat) : worker :=
  wk_set_occupied (if has_col L j && negb (wk_is_queued w j) then wk_enqueue w j else w) j.

Lemma visit_le : forall L w j, wk_le w (visit L w j).
Proof.
  intros L w j. unfold visit. destruct (has_col L j && negb (wk_is_queued w j)).
  - eapply wk_le_trans; [apply enq_le | apply set_occ_le].
  - apply set_occ_le.
Qed.

Lemma visit_inv0 : forall L w j, wk_inv0 L w -> wk_inv0 L (visit L w j).
Proof.
  intros L w j H. unfold visit. destruct (has_col L j && negb (wk_is_queued w j)) eqn:E.
  - apply andb_true_iff in E. destruct E as [E _]. apply has_col_pcol in E. apply enq_occ_inv0; assumption.
  - apply set_occ_inv0. exact H.
Qed.

Lemma visit_closed : forall L pend w j, wk_inv0 L w -> closed_inv L pend w -> closed_inv L pend (visit L w j).
Proof.
  intros L pend w j H0 Hcl. unfold visit. destruct (has_col L j && negb (wk_is_queued w j)) eqn:E.
  - apply enq_occ_closed. exact Hcl.
  - apply set_occ_closed; [exact Hcl|]. intros Hpc. apply has_col_pcol in Hpc. rewrite Hpc in E. cbn [andb] in E.
    apply negb_false_iff in E. unfold wk_is_queued in E. apply memb_In in E.
    apply Hcl; [apply has_col_pcol; exact Hpc|]. unfold seen. rewrite (wi_queued _ _ H0 j E). discriminate.
Qed.

Lemma visit_occ : forall L w j, w_st (visit L w j) j = SOcc.
Proof.
  intros L w j. unfold visit. rewrite st_occ, Nat.eqb_refl. reflexivity.
Qed.

(* ------------------------------------------------------------------------------------------------ *)
(* mark_row                                                                                         *)
(* ------------------------------------------------------------------------------------------------ *)
Lemma mark_row_unfold : forall L j cs w,
  wk_mark_row L (j :: cs) w =
  if wk_has_candidate (visit L w j) then wk_mark_row L cs (visit L w j) else visit L w j.
Proof. reflexivity. Qed.

Lemma mark_row_spec : forall L pend cs w, wk_inv0 L w ->
  let w' := wk_mark_row L cs w in
  wk_inv0 L w' /\ (closed_inv L pend w -> closed_inv L pend w') /\ wk_le w w' /\
  (0 < w_ncand w' -> forall c, In c cs -> w_st w' c = SOcc).
Proof.
  intros L pend cs. induction cs as [|j cs IH]; intros w H0.
  - cbn [wk_mark_row]. splits; [exact H0 | intros H; exact H | apply wk_le_refl | intros _ c []].
  - cbv zeta. rewrite mark_row_unfold.
    pose proof (visit_inv0 L w j H0) as H0v.
    destruct (wk_has_candidate (visit L w j)) eqn:Eh.
    + destruct (IH (visit L w j) H0v) as [I1 [I2 [I3 I4]]]. cbv zeta in *. splits.
      * exact I1.
      * intros Hcl. apply I2. apply visit_closed; assumption.
      * eapply wk_le_trans; [apply visit_le | exact I3].
      * intros Hp c [Hc|Hc]; [|apply I4; assumption]. subst c. apply (le_occ _ _ I3). apply visit_occ.
    + splits.
      * exact H0v.
      * intros Hcl. apply visit_closed; assumption.
      * apply visit_le.
      * intros Hp. exfalso. assert (Hh : wk_has_candidate (visit L w j) = true) by (apply has_candidate_true; exact Hp).
        rewrite Hh in Eh. discriminate.
Qed.

(* ------------------------------------------------------------------------------------------------ *)
(* the traverse loop: fuel                                                                          *)
(* ------------------------------------------------------------------------------------------------ *)
Definition unq (L : plog) (w : worker) : nat :=
  length (filter (fun p => negb (wk_is_queued w (snd p))) L).
Definition mu (L : plog) (w : worker) : nat := unq L w + length (w_queue w).

Lemma filter_length_le : forall {A} (f g : A -> bool) l,
  (forall x, g x = true -> f x = true) -> length (filter g l) <= length (filter f l).
Proof.
  intros A f g l H. induction l as [|x r IH]; [cbn; lia|]. cbn [filter].
  destruct (g x) eqn:Eg.
  - rewrite (H x Eg). cbn [length]. lia.
  - destruct (f x); cbn [length]; lia.
Qed.

Lemma filter_length_lt : forall {A} (f g : A -> bool) l x,
  (forall y, g y = true -> f y = true) -> In x l -> f x = true -> g x = false ->
  length (filter g l) < length (filter f l).
Proof.
  intros A f g l x H. induction l as [|y r IH]; intros Hin Hf Hg; [destruct Hin|]. cbn [filter].
  destruct Hin as [Hin|Hin].
  - subst y. rewrite Hf, Hg. cbn [length]. pose proof (filter_length_le f g r H). lia.
  - specialize (IH Hin Hf Hg). destruct (g y) eqn:Eg.
    + rewrite (H y Eg). cbn [length]. lia.
    + destruct (f y); cbn [length]; lia.
Qed.

Lemma mu_visit : forall L w j, mu L (visit L w j) <= mu L w.
Proof.
  intros L w j. unfold visit, mu, unq. destruct (has_col L j && negb (wk_is_queued w j)) eqn:E.
  - apply andb_true_iff in E. destruct E as [E1 E2]. apply negb_true_iff in E2.
    apply has_col_pcol in E1. destruct E1 as [i Hi].
    rewrite queue_occ, queue_enq, app_length. cbn [length].
    assert (Hlt : length (filter (fun p => negb (wk_is_queued (wk_set_occupied (wk_enqueue w j) j) (snd p))) L)
                  < length (filter (fun p => negb (wk_is_queued w (snd p))) L)).
    { apply filter_length_lt with (x := (i, j)).
      - intros [a b]. cbn [snd]. unfold wk_is_queued. rewrite queued_occ, queued_enq. cbn [memb existsb].
        intros H. apply negb_true_iff in H. apply orb_false_iff in H. destruct H as [_ H].
        apply negb_true_iff. exact H.
      - exact Hi.
      - cbn [snd]. rewrite E2. reflexivity.
      - cbn [snd]. unfold wk_is_queued. rewrite queued_occ, queued_enq. cbn [memb existsb]. rewrite Nat.eqb_refl. reflexivity. }
    lia.
  - rewrite queue_occ. unfold wk_is_queued. rewrite queued_occ. lia.
Qed.

Lemma mu_mark_row : forall L cs w, mu L (wk_mark_row L cs w) <= mu L w.
Proof.
  intros L cs. induction cs as [|j cs IH]; intros w; [cbn [wk_mark_row]; lia|].
  rewrite mark_row_unfold. pose proof (mu_visit L w j). destruct (wk_has_candidate (visit L w j)); [|exact H].
  specialize (IH (visit L w j)). lia.
Qed.

Lemma mu_set_queue : forall L w j q, w_queue w = j :: q -> S (mu L (wk_set_queue w q)) = mu L w.
Proof.
  intros L w j q E. unfold mu, unq, wk_set_queue, wk_is_queued. cbn [w_queue w_queued]. rewrite E. cbn [length]. lia.
Qed.

(* ------------------------------------------------------------------------------------------------ *)
(* the traverse loop: invariant                                                                     *)
(* ------------------------------------------------------------------------------------------------ *)
Lemma set_queue_le : forall w j q, w_queue w = j :: q ->
  (forall c, w_st (wk_set_queue w q) c = w_st w c) /\ w_ncand (wk_set_queue w q) = w_ncand w /\
  w_row (wk_set_queue w q) = w_row w /\ w_queued (wk_set_queue w q) = w_queued w /\ w_queue (wk_set_queue w q) = q.
Proof. intros w j q E. splits; reflexivity. Qed.

Lemma traverse_loop_spec : forall L fuel w, wk_inv L w -> mu L w < fuel ->
  exists w', wk_traverse_loop fuel M L w = Some w' /\ wk_inv L w' /\
             (forall c, w_st w c = SOcc -> w_st w' c = SOcc) /\ (forall c, seen w c -> seen w' c) /\
             (forall c, w_st w' c = SCand -> w_st w c = SCand) /\
             w_row w' = w_row w /\ w_queue w' = [].
Proof.
  intros L fuel. induction fuel as [|f IH]; intros w [H0 Hc] Hmu; [lia|].
  cbn [wk_traverse_loop]. destruct (w_queue w) as [|j q] eqn:Eq.
  - exists w. splits; auto. split; assumption.
  - assert (Hpj : pcol L j) by (apply (wi_queue _ _ H0); rewrite Eq; left; reflexivity).
    destruct (row_for_pcol L j Hpj) as [i2 Ei2]. rewrite Ei2. apply row_for_Some in Ei2.
    set (w0 := wk_set_queue w q).
    assert (H00 : wk_inv0 L w0).
    { destruct H0 as [A B C D]. constructor.
      - exact A.
      - exact B.
      - intros c Hin. apply C. rewrite Eq. right. exact Hin.
      - exact D. }
    pose proof (mark_row_spec L [j] (cols_in M i2) w0 H00) as Hm. cbv zeta in Hm.
    set (w1 := wk_mark_row L (cols_in M i2) w0) in *.
    destruct Hm as [H01 [Hcl1 [Hle1 Hocc1]]].
    assert (Hinv1 : wk_inv L w1).
    { split; [exact H01|]. destruct Hc as [Hz|Hcl].
      - left. pose proof (le_ncand _ _ Hle1) as Hn. change (w_ncand w0) with (w_ncand w) in Hn. lia.
      - destruct (Nat.eq_dec (w_ncand w1) 0) as [Hz|Hnz]; [left; exact Hz|]. right.
        assert (Hcl0 : closed_inv L [j] w0).
        { intros c Hpc Hs. destruct (Hcl c Hpc Hs) as [H|H]; [|right; exact H]. left.
          rewrite app_nil_r in H. rewrite Eq in H. change (w_queue w0) with q.
          apply in_or_app. destruct H as [H|H]; [right; left; exact H | left; exact H]. }
        specialize (Hcl1 Hcl0). intros c Hpc Hs. destruct (Hcl1 c Hpc Hs) as [H|H]; [|right; exact H].
        apply in_app_or in H. destruct H as [H|[H|[]]]; [left; rewrite app_nil_r; exact H|].
        subst c. right. exists i2. split; [exact Ei2|]. intros c' Hc'. apply Hocc1; [lia | exact Hc']. }
    assert (Hmu1 : mu L w1 < f).
    { pose proof (mu_mark_row L (cols_in M i2) w0). pose proof (mu_set_queue L w j q Eq). fold w0 in H1. fold w1 in H. lia. }
    destruct (IH w1 Hinv1 Hmu1) as [w' [E' [Hinv' [Ho' [Hs' [Hcd' [Hr' Hq']]]]]]].
    exists w'. splits.
    + exact E'.
    + exact Hinv'.
    + intros c H. apply Ho'. apply (le_occ _ _ Hle1). exact H.
    + intros c H. apply Hs'. apply (le_seen _ _ Hle1). exact H.
    + intros c H. apply (le_cand _ _ Hle1). apply Hcd'. exact H.
    + rewrite Hr'. apply (le_row _ _ Hle1).
    + exact Hq'.
Qed.

Lemma unq_le : forall L w, unq L w <= length L.
Proof.
  intros L w. unfold unq. induction L as [|p r IH]; [cbn; lia|]. cbn [filter].
  destruct (negb (wk_is_queued w (snd p))); cbn [length]; lia.
Qed.

Lemma traverse_spec : forall L w, wk_inv L w ->
  exists w', wk_traverse M L w = Some w' /\ wk_inv L w' /\
             (forall c, w_st w c = SOcc -> w_st w' c = SOcc) /\ (forall c, seen w c -> seen w' c) /\
             (forall c, w_st w' c = SCand -> w_st w c = SCand) /\
             w_row w' = w_row w /\ (0 < w_ncand w' -> w_queue w' = []).
Proof.
  intros L w Hinv. unfold wk_traverse. destruct (wk_has_candidate w) eqn:Eh.
  - destruct (traverse_loop_spec L (S (length L + length (w_queue w))) w Hinv) as [w' [E [H1 [H2 [H3 [H4 [H5 H6]]]]]]].
    { unfold mu. pose proof (unq_le L w). lia. }
    exists w'. splits; auto.
  - exists w. splits; auto. intros Hp. apply has_candidate_true in Hp. rewrite Hp in Eh. discriminate.
Qed.

(* ------------------------------------------------------------------------------------------------ *)
(* init                                                                                             *)
(* ------------------------------------------------------------------------------------------------ *)
Lemma clear_inv : forall L i, wk_inv0 L (wk_clear i) /\ closed_inv L [] (wk_clear i).
Proof.
  intros L i. split.
  - constructor; cbn [wk_clear w_st w_queue w_queued w_ncand w_row].
    + intros c H. discriminate.
    + exists []. splits; [constructor | intros c; split; [intros [] | discriminate] | reflexivity].
    + intros c [].
    + intros c [].
  - intros c _ Hs. exfalso. apply Hs. reflexivity.
Qed.

Lemma init_loop_spec : forall L i cs w, NoDup cs ->
  (forall c, In c cs -> w_st w c = SNone) -> (forall c, In c cs -> In c (cols_in M i)) -> w_row w = i ->
  wk_inv0 L w -> closed_inv L [] w ->
  exists w', wk_init_loop M L i cs w = Some w' /\ wk_inv0 L w' /\ closed_inv L [] w' /\ w_row w' = i /\
             (forall c, In c cs -> seen w' c) /\ (forall c, seen w c -> seen w' c).
Proof.
  intros L i cs. induction cs as [|j cs IH]; intros w Hnd Hnone Hsub Hrow H0 Hcl; cbn [wk_init_loop].
  - exists w. splits; auto. intros c [].
  - inversion Hnd as [|? ? Hj Hcs]; subst.
    assert (Hnext : forall w1, wk_le w w1 \/ True -> (forall c, c <> j -> w_st w1 c = w_st w c) -> seen w1 j ->
              w_row w1 = w_row w -> wk_inv0 L w1 -> closed_inv L [] w1 ->
              exists w', wk_init_loop M L (w_row w) cs w1 = Some w' /\ wk_inv0 L w' /\ closed_inv L [] w' /\
                         w_row w' = w_row w /\ (forall c, In c (j :: cs) -> seen w' c) /\ (forall c, seen w c -> seen w' c)).
    { intros w1 _ Hsame Hsj Hrow1 H01 Hcl1.
      destruct (IH w1 Hcs) as [w' [E [I1 [I2 [I3 [I4 I5]]]]]]; try assumption.
      - intros c Hc. rewrite Hsame; [apply Hnone; right; exact Hc|]. intros E. subst. apply Hj. exact Hc.
      - intros c Hc. apply Hsub. right. exact Hc.
      - exists w'. splits; try assumption.
        + intros c [Hc|Hc]; [subst; apply I5; exact Hsj | apply I4; exact Hc].
        + intros c Hc. apply I5. destruct (Nat.eq_dec c j) as [E'|E']; [subst; exact Hsj|].
          unfold seen. rewrite Hsame by exact E'. exact Hc. }
    destruct (has_col L j) eqn:Ehc.
    + apply has_col_pcol in Ehc. apply Hnext.
      * right. exact I.
      * intros c Hc. rewrite st_occ, st_enq. apply Nat.eqb_neq in Hc. rewrite Hc. reflexivity.
      * unfold seen. rewrite st_occ, Nat.eqb_refl. discriminate.
      * reflexivity.
      * apply enq_occ_inv0; assumption.
      * apply enq_occ_closed. exact Hcl.
    + apply has_col_false in Ehc. destruct (is_cand M (w_row w) j) eqn:Ecand.
      * unfold wk_set_candidate. rewrite (Hnone j (or_introl eq_refl)).
        apply Hnext.
        -- right. exact I.
        -- intros c Hc. cbn [w_st]. rewrite st_upd_eq. apply Nat.eqb_neq in Hc. rewrite Hc. reflexivity.
        -- unfold seen. cbn [w_st]. rewrite st_upd_eq, Nat.eqb_refl. discriminate.
        -- reflexivity.
        -- destruct H0 as [A B C D]. constructor; cbn [w_st w_row w_ncand w_queue w_queued].
           ++ intros c. rewrite st_upd_eq. destruct (c =? j) eqn:E.
              ** apply Nat.eqb_eq in E. subst. intros _. splits; [apply Hsub; left; reflexivity | exact Ecand | exact Ehc].
              ** apply A.
           ++ apply cnt_set_cand; [exact B | apply Hnone; left; reflexivity].
           ++ exact C.
           ++ intros c Hc. rewrite st_upd_eq. destruct (c =? j) eqn:E; [|apply D; exact Hc].
              apply Nat.eqb_eq in E. subst. pose proof (Hnone j (or_introl eq_refl)) as Hn. rewrite (D j Hc) in Hn. discriminate.
        -- intros c Hpc Hs. unfold seen in Hs. cbn [w_st w_queue] in *. rewrite st_upd_eq in Hs.
           destruct (c =? j) eqn:E.
           ++ apply Nat.eqb_eq in E. subst. exfalso. apply Ehc. exact Hpc.
           ++ destruct (Hcl c Hpc Hs) as [H|[r [H1 H2]]]; [left; exact H|]. right. exists r. split; [exact H1|].
              intros c' Hc'. cbn [w_st]. rewrite st_upd_eq. destruct (c' =? j) eqn:E'; [|apply H2; exact Hc'].
              apply Nat.eqb_eq in E'. subst. pose proof (Hnone j (or_introl eq_refl)) as Hn. rewrite (H2 j Hc') in Hn. discriminate.
      * apply Hnext.
        -- right. exact I.
        -- intros c Hc. rewrite st_occ. apply Nat.eqb_neq in Hc. rewrite Hc. reflexivity.
        -- unfold seen. rewrite st_occ, Nat.eqb_refl. discriminate.
        -- reflexivity.
        -- apply set_occ_inv0. exact H0.
        -- apply set_occ_closed; [exact Hcl|]. intros Hpc. exfalso. apply Ehc. exact Hpc.
Qed.

Lemma init_spec : forall L i, NoDup (cols_in M i) ->
  exists w, wk_init M L i = Some w /\ wk_inv L w /\ w_row w = i /\ row_seen w.
Proof.
  intros L i Hnd. unfold wk_init. destruct (clear_inv L i) as [H0 Hcl].
  destruct (init_loop_spec L i (cols_in M i) (wk_clear i)) as [w [E [I1 [I2 [I3 [I4 _]]]]]]; auto.
  exists w. splits; auto.
  - split; [exact I1 | right; exact I2].
  - intros c Hc. apply I4. rewrite I3 in Hc. exact Hc.
Qed.

(* ------------------------------------------------------------------------------------------------ *)
(* choose_candidate, search                                                                         *)
(* ------------------------------------------------------------------------------------------------ *)
Lemma choose_cand : forall w j, wk_choose M w = Some j -> w_st w j = SCand.
Proof.
  intros w j H. unfold wk_choose in H. apply min_by_In in H. apply filter_In in H.
  apply is_candidate_true. apply H.
Qed.

(* what a worker knows when it has searched: ready to enter the critical section *)
Definition searched_ok (L : plog) (w : worker) (j : nat) : Prop :=
  wk_inv L w /\ row_seen w /\ w_queue w = [] /\ w_st w j = SCand.

Lemma search_spec : forall L w, wk_inv L w -> row_seen w ->
  exists w' c, wk_search M L w = Some (w', c) /\ w_row w' = w_row w /\
    match c with Some j => searched_ok L w' j | None => True end.
Proof.
  intros L w Hinv Hrs. unfold wk_search.
  destruct (traverse_spec L w Hinv) as [w' [E [I1 [I2 [I3 [I4 [I5 I6]]]]]]]. rewrite E.
  exists w', (wk_choose M w'). splits; [reflexivity | exact I5|].
  destruct (wk_choose M w') as [j|] eqn:Ec; [|exact I].
  apply choose_cand in Ec. unfold searched_ok. splits.
  - exact I1.
  - intros c Hc. apply I3. apply Hrs. rewrite <- I5. exact Hc.
  - apply I6. destruct I1 as [I10 _]. eapply cnt_pos; [apply (wi_count _ _ I10) | exact Ec].
  - exact Ec.
Qed.

(* ------------------------------------------------------------------------------------------------ *)
(* update_diff                                                                                      *)
(* ------------------------------------------------------------------------------------------------ *)
Lemma enq_occ_inv0_ext : forall L r w j, wk_inv0 L w ->
  wk_inv0 (L ++ [(r, j)]) (wk_set_occupied (wk_enqueue w j) j).
Proof.
  intros L r w j [Hc Hn Hq Hqd]. constructor.
  - intros c. rewrite st_occ, row_occ_eq, st_enq, row_enq. destruct (c =? j) eqn:E; [discriminate|].
    intros H. destruct (Hc c H) as [A1 [A2 A3]]. splits; auto.
    intros [i Hi]. apply in_app_or in Hi. destruct Hi as [Hi|[Hi|[]]]; [apply A3; exists i; exact Hi|].
    inversion Hi; subst. rewrite Nat.eqb_refl in E. discriminate.
  - rewrite ncand_occ, cand_enq, ncand_enq. unfold wk_is_candidate. pose proof (cnt_set_occ _ _ j Hn) as H.
    change (w_st (wk_set_occupied (wk_enqueue w j) j)) with (st_upd (w_st w) j SOcc).
    destruct (w_st w j); exact H.
  - rewrite queue_occ, queue_enq. intros c H. apply in_app_or in H. destruct H as [H|[H|[]]].
    + destruct (Hq c H) as [i Hi]. exists i. apply in_or_app. left. exact Hi.
    + subst. exists r. apply in_or_app. right. left. reflexivity.
  - intros c. rewrite queued_occ, queued_enq, st_occ, st_enq. intros H. destruct (c =? j) eqn:E; [reflexivity|].
    destruct H as [H|H]; [subst; rewrite Nat.eqb_refl in E; discriminate | apply Hqd; exact H].
Qed.

Lemma inv0_ext : forall L r c w, wk_inv0 L w -> w_st w c <> SCand -> wk_inv0 (L ++ [(r, c)]) w.
Proof.
  intros L r c w [Hc Hn Hq Hqd] Hnc. constructor; auto.
  - intros x Hx. destruct (Hc x Hx) as [A1 [A2 A3]]. splits; auto.
    intros [i Hi]. apply in_app_or in Hi. destruct Hi as [Hi|[Hi|[]]]; [apply A3; exists i; exact Hi|].
    inversion Hi; subst. apply Hnc. exact Hx.
  - intros x Hx. destruct (Hq x Hx) as [i Hi]. exists i. apply in_or_app. left. exact Hi.
Qed.

Lemma closed_ext : forall L pend r c w, closed_inv L pend w ->
  (seen w c -> In c (w_queue w ++ pend)) -> closed_inv (L ++ [(r, c)]) pend w.
Proof.
  intros L pend r c w Hcl Hc x [i Hi] Hs. apply in_app_or in Hi. destruct Hi as [Hi|[Hi|[]]].
  - destruct (Hcl x (ex_intro _ i Hi) Hs) as [H|[r' [H1 H2]]]; [left; exact H|].
    right. exists r'. split; [apply in_or_app; left; exact H1 | exact H2].
  - inversion Hi; subst. left. apply Hc. exact Hs.
Qed.

Lemma diff_step_spec : forall L w p, wk_inv L w ->
  let w' := wk_diff_step w p in
  wk_inv (L ++ [p]) w' /\ wk_le w w' /\
  length (w_queue w) <= length (w_queue w') /\ (length (w_queue w') = length (w_queue w) -> w' = w).
Proof.
  intros L w [r c] [H0 Hc]. unfold wk_diff_step. cbn [snd].
  destruct (wk_is_candidate w c || wk_is_occupied w c) eqn:E; cbv zeta.
  - splits.
    + split; [apply enq_occ_inv0_ext; exact H0|]. destruct Hc as [Hz|Hcl].
      * left. pose proof (ncand_occ_le (wk_enqueue w c) c) as H. rewrite ncand_enq in H. lia.
      * right. apply closed_ext; [apply enq_occ_closed; exact Hcl|].
        intros _. rewrite queue_occ, queue_enq, app_nil_r. apply in_or_app. right. left. reflexivity.
    + eapply wk_le_trans; [apply enq_le | apply set_occ_le].
    + rewrite queue_occ, queue_enq, app_length. cbn [length]. lia.
    + rewrite queue_occ, queue_enq, app_length. cbn [length]. lia.
  - apply orb_false_iff in E. destruct E as [E1 E2].
    assert (Hns : ~ seen w c).
    { unfold seen. intros H. unfold wk_is_candidate, wk_is_occupied in *. destruct (w_st w c); try discriminate. apply H. reflexivity. }
    splits.
    + split.
      * apply inv0_ext; [exact H0|]. intros H. apply is_candidate_true in H. rewrite H in E1. discriminate.
      * destruct Hc as [Hz|Hcl]; [left; exact Hz | right]. apply closed_ext; [exact Hcl|]. intros H. exfalso. apply Hns. exact H.
    + apply wk_le_refl.
    + lia.
    + reflexivity.
Qed.

Lemma update_diff_spec : forall D L w, wk_inv L w ->
  let w' := wk_update_diff D w in
  wk_inv (L ++ D) w' /\ wk_le w w' /\
  length (w_queue w) <= length (w_queue w') /\ (length (w_queue w') = length (w_queue w) -> w' = w).
Proof.
  induction D as [|p D IH]; intros L w Hinv; cbv zeta.
  - cbn [wk_update_diff fold_left]. rewrite app_nil_r. splits; [exact Hinv | apply wk_le_refl | lia | reflexivity].
  - unfold wk_update_diff. cbn [fold_left]. fold (wk_update_diff D (wk_diff_step w p)).
    destruct (diff_step_spec L w p Hinv) as [S1 [S2 [S3 S4]]]. cbv zeta in *.
    destruct (IH (L ++ [p]) (wk_diff_step w p) S1) as [I1 [I2 [I3 I4]]]. cbv zeta in *.
    rewrite <- app_assoc in I1. cbn [app] in I1. splits.
    + exact I1.
    + eapply wk_le_trans; eassumption.
    + lia.
    + intros Hl. assert (E1 : wk_diff_step w p = w) by (apply S4; lia).
      rewrite I4 by lia. exact E1.
Qed.

(* ------------------------------------------------------------------------------------------------ *)
(* the commit                                                                                       *)
(* ------------------------------------------------------------------------------------------------ *)
Lemma commit_ok : forall P w j, NoDup (map snd P) -> acyclic M P -> searched_ok P w j ->
  ~ pcol P j /\ In j (cols_in M (w_row w)) /\ is_cand M (w_row w) j = true /\
  acyclic M (P ++ [(w_row w, j)]).
Proof.
  intros P w j Hnd Hac [[H0 Hc] [Hrs [Hq Hj]]].
  destruct (wi_cand _ _ H0 j Hj) as [A1 [A2 A3]].
  assert (Hpos : 0 < w_ncand w) by (eapply cnt_pos; [apply (wi_count _ _ H0) | exact Hj]).
  destruct Hc as [Hz|Hcl]; [lia|].
  splits; auto.
  apply acyclic_add with (S := fun c => match w_st w c with SNone => false | _ => negb (c =? j) end); auto.
  - intros c Hin Hne. specialize (Hrs c Hin). unfold seen in Hrs. apply Nat.eqb_neq in Hne. rewrite Hne.
    destruct (w_st w c); [exfalso; apply Hrs; reflexivity | reflexivity | reflexivity].
  - intros r c Hin HS c' Hc'.
    assert (Hs : seen w c) by (unfold seen; destruct (w_st w c); [discriminate | discriminate | discriminate]).
    destruct (Hcl c (ex_intro _ r Hin) Hs) as [H|[r' [H1 H2]]].
    + rewrite Hq in H. destruct H.
    + assert (r = r') by (eapply nodup_snd_fun; eassumption). subst r'.
      rewrite (H2 c' Hc'). destruct (c' =? j) eqn:E; [|reflexivity].
      apply Nat.eqb_eq in E. subst. rewrite (H2 j Hc') in Hj. discriminate.
  - rewrite Hj, Nat.eqb_refl. reflexivity.
Qed.

End Worker.
