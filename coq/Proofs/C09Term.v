(* C09 - termination of diag_normalize within the default fuel.
   Measure: the sum over k of log2 N(d_0 * ... * d_k) (N = the Euclidean function).  Every pass of the restart
   loop that does not finish replaces (d_i, d_(i+1)) by (d_i', d_(i+1)') with d_i' * d_(i+1)' = d_i * d_(i+1)
   and d_i = c * d_i' for a non-zero non-unit c (swap: d_i' = d_(i+1); gcd step: d_i' = gcd), so exactly one
   prefix product changes, to a proper divisor of itself. *)
From Coq Require Import ZArith NArith List Bool Arith Lia Ring.
Require Import Yui.Base.Ring Yui.Base.MatF Yui.Base.MatL Yui.Model.Snf Yui.Proofs.C09Mat Yui.Proofs.C09Inv
  Yui.Proofs.C09Run Yui.Proofs.C09Exit Yui.Proofs.C09Diag Yui.Proofs.C09Laws.
Import ListNotations.

(* what the termination argument needs of the Euclidean function and of `%` *)
Record norm_laws {R : Type} (D : euc_dict R) : Prop := mk_norm_laws {
  nl_pos : forall a, a <> rzero (ed_ring D) -> (1 <= rnorm (ed_euc D) a)%N;
  nl_double : forall q d, d <> rzero (ed_ring D) -> q <> rzero (ed_ring D) ->
      (forall qi, rmul (ed_ring D) q qi <> rone (ed_ring D)) ->
      (2 * rnorm (ed_euc D) d <= rnorm (ed_euc D) (rmul (ed_ring D) q d))%N;
  nl_rem_mul : forall q b, b <> rzero (ed_ring D) ->
      rrem (ed_euc D) (rmul (ed_ring D) q b) b = rzero (ed_ring D);
  (* `inv` finds every inverse (used by the termination of eliminate_at only) *)
  nl_inv_complete : forall a z, rmul (ed_ring D) a z = rone (ed_ring D) ->
      exists ai, rinv (ed_unit D) a = Some ai;
}.
Definition gcdx_total {R : Type} (D : euc_dict R) : Prop := forall x y, exists r, ed_gcdx D x y = Some r.

Lemma ofold_total {S : Type} (f : nat -> S -> option S) l :
  (forall k x, exists x', f k x = Some x') -> forall s, exists s', ofold f l s = Some s'.
Proof.
  intros Hf. induction l as [|k l IH]; intros s; cbn [ofold]; [eexists; reflexivity|].
  destruct (Hf k s) as [x' ->]. apply IH.
Qed.

Section Term.
  Context {R : Type} (D : euc_dict R) (SL : snf_laws D) (NL : norm_laws D) (GT : gcdx_total D).
  Let o := ed_ring D.
  Let L : ring_laws o := sl_ring D SL.
  Add Ring Rring : (ring_theory_of_laws o L).

  Local Notation "0" := (rzero o).
  Local Notation "1" := (rone o).
  Local Infix "+" := (radd o).
  Local Infix "*" := (rmul o).
  Local Notation "- x" := (rneg o x).
  Local Notation get := (lget o).
  Implicit Types T : lmat R.

  Definition nonunit (c : R) : Prop := forall ci, c * ci <> 1.

  (* ---------- the measure ---------- *)
  Fixpoint mu_list (acc : R) (l : list R) : nat :=
    match l with
    | [] => O
    | x :: r => Nat.add (esize D (acc * x)) (mu_list (acc * x) r)
    end.

  Lemma prefix_sizes_mu acc l : (mu_list acc l <= prefix_sizes D acc l)%nat.
  Proof.
    revert acc. induction l as [|x l IH]; intros acc; cbn [mu_list prefix_sizes]; [lia|].
    cbv zeta. specialize (IH (rmul (ed_ring D) acc x)). fold o in IH |- *. lia.
  Qed.

  Lemma esize_lt a c : a <> 0 -> c <> 0 -> nonunit c -> esize D a < esize D (c * a).
  Proof.
    intros Ha Hc Hu. unfold esize.
    pose proof (nl_pos D NL a Ha) as H1. pose proof (nl_double D NL c a Ha Hc Hu) as H2. fold o in H2.
    set (x := rnorm (ed_euc D) a) in *. set (y := rnorm (ed_euc D) (c * a)) in *.
    assert (H3 : (N.log2 (2 * x) <= N.log2 y)%N) by (apply N.log2_le_mono; exact H2).
    rewrite N.log2_double in H3 by lia. lia.
  Qed.

  Lemma mu_list_step acc l1 x y x' y' l2 c :
    acc <> 0 -> Forall (fun z => z <> 0) l1 -> x' <> 0 -> c <> 0 -> nonunit c ->
    x = c * x' -> x' * y' = x * y ->
    (mu_list acc (l1 ++ x' :: y' :: l2) < mu_list acc (l1 ++ x :: y :: l2))%nat.
  Proof.
    intros Hacc Hl1 Hx' Hc Hu Ex Exy. revert acc Hacc.
    induction l1 as [|z l1 IH]; intros acc Hacc; cbn [app mu_list].
    - assert (E2 : acc * x' * y' = acc * x * y).
      { transitivity (acc * (x' * y')); [ring|]. rewrite Exy. ring. }
      rewrite E2.
      assert (E1 : acc * x = c * (acc * x')) by (rewrite Ex; ring).
      rewrite E1.
      assert (Hax : acc * x' <> 0).
      { intros E. destruct (mul_eq_0 D SL _ _ E); contradiction. }
      pose proof (esize_lt (acc * x') c Hax Hc Hu). lia.
    - inversion Hl1 as [|? ? Hz Hl1']; subst.
      assert (Haz : acc * z <> 0).
      { intros E. destruct (mul_eq_0 D SL _ _ E); contradiction. }
      specialize (IH Hl1' (acc * z) Haz). lia.
  Qed.

  Variables m n : nat.
  Local Notation DiagR := (DiagR D m n).

  Definition dlist (r : nat) T : list R := diag_entries D T r.
  Definition mu (r : nat) T : nat := mu_list 1 (dlist r T).

  Lemma dlist_split r T i :
    S i < r ->
    dlist r T = map (fun k => get T k k) (seq 0 i) ++
                get T i i :: get T (S i) (S i) :: map (fun k => get T k k) (seq (S (S i)) (r - S (S i))).
  Proof.
    intros Hi. unfold dlist, diag_entries.
    replace r with (i + (2 + (r - S (S i))))%nat at 1 by lia.
    rewrite seq_app, map_app. reflexivity.
  Qed.

  (* one failed step of the pass decreases the measure *)
  Lemma mu_step r T T' i c :
    S i < r -> DiagR r T ->
    (forall k, k < Nat.min m n -> k <> i -> k <> S i -> get T' k k = get T k k) ->
    get T' i i <> 0 -> c <> 0 -> nonunit c ->
    get T i i = c * get T' i i ->
    get T' i i * get T' (S i) (S i) = get T i i * get T (S i) (S i) ->
    (mu r T' < mu r T)%nat.
  Proof.
    intros Hi (W & Hr & Hoff & Hnz & Hz) Hoth Hx' Hc Hu Ex Exy. unfold mu.
    rewrite (dlist_split r T i Hi), (dlist_split r T' i Hi).
    assert (E1 : map (fun k => get T' k k) (seq 0 i) = map (fun k => get T k k) (seq 0 i)).
    { apply map_ext_in. intros k Hk. apply in_seq in Hk. apply Hoth; lia. }
    assert (E2 : map (fun k => get T' k k) (seq (S (S i)) (r - S (S i)))
                 = map (fun k => get T k k) (seq (S (S i)) (r - S (S i)))).
    { apply map_ext_in. intros k Hk. apply in_seq in Hk. apply Hoth; lia. }
    rewrite E1, E2.
    apply (mu_list_step 1 _ _ _ _ _ _ c); try assumption.
    - apply (one_neq_0 D SL).
    - apply Forall_forall. intros z Hz'. apply in_map_iff in Hz'. destruct Hz' as [k [<- Hk]].
      apply in_seq in Hk. apply Hnz. lia.
  Qed.

  (* `x.divides(y)` on a multiple *)
  Lemma divides_mul x q : x <> 0 -> divides o (ed_euc D) x (q * x) = true.
  Proof.
    intros Hx. unfold divides. apply andb_true_iff. split.
    - apply negb_true_iff. now apply (is_zero_false D SL).
    - apply (is_zero_true D SL). now apply (nl_rem_mul D NL).
  Qed.

  Lemma snf_gcdx_total x y : x <> 0 -> exists d s t, snf_gcdx D x y = Some (d, s, t).
  Proof.
    intros Hx. unfold snf_gcdx. destruct (GT x y) as [[[d s] t] G]. rewrite G. cbn [sbind].
    destruct (sl_gcdx D SL _ _ _ _ _ G) as (_ & [a Ha] & _). fold o in Ha.
    assert (Hd : d <> 0). { intros E. apply Hx. rewrite Ha, E. ring. }
    apply (is_zero_false D SL) in Hd. rewrite Hd.
    destruct (rinv (ed_unit D) (rdiv (ed_euc D) x d)); do 3 eexists; reflexivity.
  Qed.

  Lemma diag_after_swap r T i k :
    S i < r -> DiagR r T -> k < Nat.min m n ->
    get (m_swap_cols i (S i) (m_swap_rows i (S i) T)) k k = get T (swp i (S i) k) (swp i (S i) k).
  Proof.
    intros Hi (W & Hr & _) Hk.
    assert (W1 : wf m n (m_swap_rows i (S i) T)) by (apply wf_swap_rows; try assumption; lia).
    rewrite (get_swap_cols D m n) by (try assumption; lia).
    rewrite (get_swap_rows D m n); try assumption; try lia. reflexivity.
  Qed.

  (* one step of the pass: never panics; `true` leaves the state alone; `false` decreases the measure *)
  Lemma diag_step_total i r s :
    S i < r -> DiagR r (st_t s) ->
    exists sb, diag_normalize_step D i s = Some sb /\
               DiagR r (st_t (fst sb)) /\
               (snd sb = true -> fst sb = s) /\
               (snd sb = false -> (mu r (st_t (fst sb)) < mu r (st_t s))%nat).
  Proof.
    intros Hi HD. pose proof HD as (W & Hr & Hoff & Hnz & Hz). fold o in Hoff, Hnz, Hz.
    set (x := get (st_t s) i i). set (y := get (st_t s) (S i) (S i)).
    assert (Hx : x <> 0) by (apply Hnz; lia). assert (Hy : y <> 0) by (apply Hnz; lia).
    unfold diag_normalize_step. cbv zeta. rewrite !mget_lget. fold o. fold x. fold y.
    replace (ris_zero o x) with false by (symmetry; now apply (is_zero_false D SL)).
    replace (ris_zero o y) with false by (symmetry; now apply (is_zero_false D SL)).
    cbn [orb].
    destruct (divides o (ed_euc D) x y) eqn:D1.
    { eexists. split; [reflexivity|]. cbn [fst snd]. split; [exact HD|]. split; [reflexivity|discriminate]. }
    destruct (divides o (ed_euc D) y x) eqn:D2.
    { eexists. split; [reflexivity|]. cbn [fst snd s_swap_cols s_swap_rows st_t].
      split; [now apply DiagR_swap|]. split; [discriminate|]. intros _.
      destruct (divides_true D SL _ _ D2) as [_ [q Hq]]. fold o in Hq.
      apply (mu_step r (st_t s) _ i q Hi HD).
      - intros k Hk Hk1 Hk2. rewrite (diag_after_swap r (st_t s) i k Hi HD Hk). unfold swp.
        destruct (Nat.eqb_spec k i); [contradiction|]. destruct (Nat.eqb_spec k (S i)); [contradiction|]. reflexivity.
      - rewrite (diag_after_swap r (st_t s) i i Hi HD) by lia. unfold swp. rewrite Nat.eqb_refl. exact Hy.
      - intros E. apply Hx. rewrite Hq, E. ring.
      - intros qi Hqi. (* q a unit: then x | y *)
        assert (Ey : y = qi * x). { rewrite Hq. transitivity (q * qi * y); [rewrite Hqi|]; ring. }
        rewrite Ey, (divides_mul x qi Hx) in D1. discriminate.
      - rewrite (diag_after_swap r (st_t s) i i Hi HD) by lia. unfold swp. rewrite Nat.eqb_refl. exact Hq.
      - rewrite !(diag_after_swap r (st_t s) i _ Hi HD) by lia. unfold swp.
        rewrite Nat.eqb_refl. destruct (Nat.eqb_spec (S i) i); [lia|]. rewrite Nat.eqb_refl.
        fold x. fold y. ring. }
    destruct (snf_gcdx_total x y Hx) as (d & sx & ty & G). rewrite G. cbn [sbind].
    eexists. split; [reflexivity|]. cbn [fst snd s_right_elem s_left_elem st_t].
    destruct (snf_gcdx_spec D SL _ _ _ _ _ G) as (Hd & Hbez & Hxa & Hyb & Hone). fold o in Hbez, Hxa, Hyb, Hone.
    set (a := rdiv (ed_euc D) x d) in *. set (b := rdiv (ed_euc D) y d) in *.
    destruct (DiagR_gcd_step D SL m n i r (st_t s) a b d sx ty Hi HD Hd Hxa Hyb Hone) as (HD2 & Eii & Ess & Eoth).
    fold o in Eii, Ess, Eoth. clearbody a b.
    split; [exact HD2|]. split; [discriminate|]. intros _.
    apply (mu_step r (st_t s) _ i a Hi HD).
    - exact Eoth.
    - rewrite Eii. exact Hd.
    - intros E. apply Hx. rewrite Hxa, E. ring.
    - intros ai Hai. (* a a unit: then x | y *)
      assert (Ey : y = b * ai * x).
      { rewrite Hyb, Hxa. transitivity (b * d * (a * ai)); [rewrite Hai|]; ring. }
      rewrite Ey, (divides_mul x (b * ai) Hx) in D1. discriminate.
    - rewrite Eii. exact Hxa.
    - rewrite Eii, Ess. fold x. fold y. rewrite Hxa, Hyb. ring.
  Qed.

  Lemma diag_pass_total r is s :
    (forall i, In i is -> S i < r) -> DiagR r (st_t s) ->
    exists sb, diag_pass D is s = Some sb /\
               DiagR r (st_t (fst sb)) /\
               (snd sb = false -> (mu r (st_t (fst sb)) < mu r (st_t s))%nat).
  Proof.
    induction is as [|i is IH]; intros Hin HD; cbn [diag_pass].
    - eexists. split; [reflexivity|]. cbn [fst snd]. split; [exact HD|discriminate].
    - destruct (diag_step_total i r s (Hin i (or_introl eq_refl)) HD) as (sb1 & E & HD1 & Ht & Hf).
      rewrite E. cbn [sbind]. destruct (snd sb1) eqn:B.
      + rewrite (Ht eq_refl). apply IH; [|exact HD]. intros; apply Hin; now right.
      + eexists. split; [reflexivity|]. cbn [fst snd]. split; [exact HD1|]. intros _. now apply Hf.
  Qed.

  Lemma diag_outer_total fuel : forall r s,
    DiagR r (st_t s) -> (mu r (st_t s) < fuel)%nat -> exists s', diag_outer D fuel r s = Some s'.
  Proof.
    induction fuel as [|f IH]; intros r s HD Hf; [lia|]. cbn [diag_outer].
    destruct (diag_pass_total r (seq 0 (r - 1)) s) as (sb & E & HD1 & Hlt); [|exact HD|].
    { intros i Hi. apply in_seq in Hi. lia. }
    rewrite E. cbn [sbind]. destruct (snd sb) eqn:B; [eexists; reflexivity|].
    apply IH; [exact HD1|]. specialize (Hlt eq_refl). lia.
  Qed.

  Lemma diag_unit_body_total i s : exists s', diag_unit_body D i s = Some s'.
  Proof.
    unfold diag_unit_body. cbv zeta. destruct (ris_one _ _); [eexists; reflexivity|].
    destruct (sl_nunit_inv D SL (mget D (st_t s) i i)) as [vi Hvi].
    rewrite (s_mul_row_eq D i _ vi s Hvi). eexists; reflexivity.
  Qed.

  Theorem diag_normalize_total r s :
    DiagR r (st_t s) -> exists s', diag_normalize D (default_fuel D) m n s = Some s'.
  Proof.
    intros HD. unfold diag_normalize. cbv zeta. rewrite (diag_rank_DiagR D SL m n r) by exact HD.
    destruct (r =? 0); [eexists; reflexivity|].
    destruct (diag_outer_total (fp_diag (default_fuel D) (diag_entries D (st_t s) r)) r s HD) as [s1 E1].
    { cbn [default_fuel fp_diag]. unfold mu, dlist.
      pose proof (prefix_sizes_mu 1 (diag_entries D (st_t s) r)) as H. fold o. lia. }
    rewrite E1. cbn [sbind]. apply ofold_total. intros k x. apply diag_unit_body_total.
  Qed.
End Term.

(* ---------- the integers ---------- *)
Lemma Zpre_term_laws pre : norm_laws (Zpre_dict pre) /\ gcdx_total (Zpre_dict pre).
Proof.
  split.
  - constructor; cbn [Zpre_dict ed_ring ed_euc ed_unit Z_ring Z_euc Z_units rinv rnorm rrem rmul rzero rone].
    + intros a Ha. destruct a; [contradiction|cbn; lia|cbn; lia].
    + intros q d Hd Hq Hu. rewrite Zabs2N.inj_mul.
      assert (2 <= Z.abs_N q)%N.
      { assert (q <> 1%Z) by (intros ->; now apply (Hu 1%Z)).
        assert (q <> (-1)%Z) by (intros ->; now apply (Hu (-1)%Z)).
        assert (2 <= Z.abs q)%Z by lia.
        apply N2Z.inj_le. rewrite N2Z.inj_abs_N. exact H1. }
      nia.
    + intros q b Hb. now apply Z.rem_mul.
    + intros a z Haz. assert (U : Z_is_unit a = true).
      { apply Z_is_unit_iff. destruct (Z.mul_eq_1 a z Haz) as [-> | ->]; [now left|now right]. }
      rewrite U. eexists; reflexivity.
  - intros x y. cbn [Zpre_dict ed_gcdx]. apply Z_gcdx_total.
Qed.

(* ---------- fields ---------- *)
Lemma field_term_laws {F : Type} (o : ring_ops F) (finv : F -> F) :
  ring_laws o -> rone o <> rzero o -> (forall a, a <> rzero o -> rmul o a (finv a) = rone o) ->
  norm_laws (field_dict o finv) /\ gcdx_total (field_dict o finv).
Proof.
  intros L H10 Hinv. split.
  - constructor; cbn [field_dict ed_ring ed_euc ed_unit field_euc field_units rinv rnorm rrem].
    + intros a Ha. apply (fz_false o L) in Ha. rewrite Ha. lia.
    + intros q d _ Hq Hu. exfalso. apply (Hu (finv q)). now apply Hinv.
    + reflexivity.
    + intros a z Haz. destruct (ris_zero o a) eqn:Z; [|eexists; reflexivity].
      apply (fz_true o L) in Z. exfalso. apply H10. rewrite <- Haz, Z.
      pose proof (ring_theory_of_laws o L) as RT. apply (Ring_theory.ARmul_0_l (Rth_ARth (Eqsth F) (Eq_ext _ _ _) RT)).
  - intros x y. cbn [field_dict ed_gcdx]. unfold generic_gcdx.
    destruct (ris_zero o x) eqn:Zx; destruct (ris_zero o y) eqn:Zy; cbn [andb].
    + eexists; reflexivity.
    + unfold divides. cbn [field_euc rrem]. rewrite Zx, Zy. cbn [negb andb].
      replace (ris_zero o (rzero o)) with true by (symmetry; now apply (fz_true o L)).
      eexists; reflexivity.
    + unfold divides. cbn [field_euc rrem]. rewrite Zx. cbn [negb andb].
      replace (ris_zero o (rzero o)) with true by (symmetry; now apply (fz_true o L)).
      eexists; reflexivity.
    + unfold divides. cbn [field_euc rrem]. rewrite Zx. cbn [negb andb].
      replace (ris_zero o (rzero o)) with true by (symmetry; now apply (fz_true o L)).
      eexists; reflexivity.
Qed.
