(* C06 (ss oracle) - the c-divisibility [div_c] of Model/KhSs.v:
   * [val_c c a] is the exact c-adic valuation of a non-zero integer (the fuel is sufficient);
   * [div_c c v = Some d]: c^d divides every entry and c^(d+1) does not; [None] iff v = 0;
   * the value is determined by that property, hence invariant under every integer change of
     coordinates that has an integer left inverse (unimodular change of basis). *)
From Coq Require Import List Arith Bool ZArith Lia.
Require Import Yui.Model.KhSs.
Import ListNotations.
Open Scope Z_scope.

Definition cpow (c : Z) (k : nat) : Z := c ^ Z.of_nat k.

Lemma cpow_0 c : cpow c 0 = 1.
Proof. reflexivity. Qed.
Lemma cpow_S c k : cpow c (S k) = c * cpow c k.
Proof. unfold cpow. rewrite Nat2Z.inj_succ, Z.pow_succ_r by lia. reflexivity. Qed.
Lemma cpow_nz c k : c <> 0 -> cpow c k <> 0.
Proof. intros Hc. unfold cpow. apply Z.pow_nonzero; lia. Qed.
Lemma cpow_le_divide c j k : (j <= k)%nat -> (cpow c j | cpow c k).
Proof.
  intros H. replace k with ((k - j) + j)%nat by lia. generalize (k - j)%nat as m.
  induction m as [|m IH]; [apply Z.divide_refl|].
  cbn [Nat.add]. rewrite cpow_S. now apply Z.divide_mul_r.
Qed.

(* ---------- the valuation ---------- *)
Lemma val_fuel_spec c : 2 <= Z.abs c ->
  forall fuel a, a <> 0 -> Z.abs a < 2 ^ Z.of_nat fuel ->
  (cpow c (val_fuel fuel c a) | a) /\ ~ (cpow c (S (val_fuel fuel c a)) | a).
Proof.
  intros Hc. assert (Hc0 : c <> 0) by lia.
  induction fuel as [|f IH]; intros a Ha Hb.
  - cbn in Hb. lia.
  - cbn [val_fuel]. destruct (Z.rem a c =? 0) eqn:E.
    + apply Z.eqb_eq in E.
      pose proof (Z.quot_rem' a c) as Hq. rewrite E, Z.add_0_r in Hq.
      set (q := Z.quot a c) in *.
      assert (Hq0 : q <> 0) by (intros ->; lia).
      assert (Hqb : Z.abs q < 2 ^ Z.of_nat f).
      { rewrite Nat2Z.inj_succ, Z.pow_succ_r in Hb by lia.
        rewrite Hq, Z.abs_mul in Hb. nia. }
      destruct (IH q Hq0 Hqb) as [H1 H2]. split.
      * rewrite cpow_S, Hq. now apply Z.mul_divide_mono_l.
      * intros H. apply H2. rewrite cpow_S in H. rewrite Hq in H.
        now apply Z.mul_divide_cancel_l in H.
    + apply Z.eqb_neq in E. split.
      * rewrite cpow_0. apply Z.divide_1_l.
      * rewrite cpow_S, cpow_0, Z.mul_1_r. intros H. apply E. now apply Z.rem_divide.
Qed.

Lemma val_c_spec c a : 2 <= Z.abs c -> a <> 0 ->
  (cpow c (val_c c a) | a) /\ ~ (cpow c (S (val_c c a)) | a).
Proof.
  intros Hc Ha. unfold val_c. apply val_fuel_spec; [assumption|assumption|].
  rewrite Nat2Z.inj_succ, Z2Nat.id by apply Z.log2_nonneg.
  apply Z.log2_spec. lia.
Qed.

(* ---------- div_c ---------- *)
Definition divides_all (m : Z) (v : list Z) : Prop := Forall (fun a => (m | a)) v.
Definition is_zero_vec (v : list Z) : Prop := Forall (fun a => a = 0) v.

Lemma div_c_none c v : div_c c v = None <-> is_zero_vec v.
Proof.
  induction v as [|a r IH]; cbn [div_c].
  - split; [constructor|reflexivity].
  - destruct (a =? 0) eqn:E.
    + apply Z.eqb_eq in E. rewrite IH. split.
      * intros H. now constructor.
      * intros H. now inversion H.
    + apply Z.eqb_neq in E. split.
      * destruct (div_c c r); discriminate.
      * intros H. inversion H. contradiction.
Qed.

Lemma divides_all_zero m v : is_zero_vec v -> divides_all m v.
Proof. intros H. induction H as [|a r Ha _ IH]; constructor; [subst; apply Z.divide_0_r|exact IH]. Qed.

Lemma divides_all_le c j k v : (j <= k)%nat -> divides_all (cpow c k) v -> divides_all (cpow c j) v.
Proof.
  intros Hjk H. unfold divides_all in *. rewrite Forall_forall in *. intros a Ha.
  eapply Z.divide_trans; [apply (cpow_le_divide c j k Hjk)|now apply H].
Qed.

Theorem div_c_some c v d : 2 <= Z.abs c -> div_c c v = Some d ->
  divides_all (cpow c d) v /\ ~ divides_all (cpow c (S d)) v.
Proof.
  intros Hc. revert d. induction v as [|a r IH]; intros d H; cbn [div_c] in H; [discriminate|].
  destruct (a =? 0) eqn:E.
  - apply Z.eqb_eq in E. subst a. destruct (IH d H) as [H1 H2]. split.
    + constructor; [apply Z.divide_0_r|exact H1].
    + intros H3. inversion H3. contradiction.
  - apply Z.eqb_neq in E. destruct (val_c_spec c a Hc E) as [V1 V2].
    destruct (div_c c r) as [m|] eqn:Er.
    + injection H as <-. destruct (IH m eq_refl) as [H1 H2].
      destruct (Nat.min_spec (val_c c a) m) as [[Hlt ->]|[Hle ->]].
      * split.
        -- constructor; [exact V1|]. apply (divides_all_le c _ m); [lia|exact H1].
        -- intros H3. inversion H3. contradiction.
      * split.
        -- constructor; [|exact H1]. eapply Z.divide_trans; [apply (cpow_le_divide c m (val_c c a)); lia|exact V1].
        -- intros H3. inversion H3. contradiction.
    + injection H as <-. apply div_c_none in Er. split.
      * constructor; [exact V1|now apply divides_all_zero].
      * intros H3. inversion H3. contradiction.
Qed.

(* the value is determined by the divisibility property *)
Theorem div_c_unique c v d d' :
  divides_all (cpow c d) v -> ~ divides_all (cpow c (S d)) v ->
  divides_all (cpow c d') v -> ~ divides_all (cpow c (S d')) v -> d = d'.
Proof.
  intros H1 H2 H3 H4. destruct (lt_eq_lt_dec d d') as [[Hlt|Heq]|Hgt]; [|exact Heq|].
  - exfalso. apply H2. apply (divides_all_le c _ d'); [lia|exact H3].
  - exfalso. apply H4. apply (divides_all_le c _ d); [lia|exact H1].
Qed.

Corollary div_c_characterised c v d : 2 <= Z.abs c ->
  (div_c c v = Some d <-> (~ is_zero_vec v /\ divides_all (cpow c d) v /\ ~ divides_all (cpow c (S d)) v)).
Proof.
  intros Hc. split.
  - intros H. destruct (div_c_some c v d Hc H) as [H1 H2]. split; [|split; assumption].
    intros Hz. apply div_c_none with (c := c) in Hz. congruence.
  - intros [Hz [H1 H2]]. destruct (div_c c v) as [d'|] eqn:E.
    + destruct (div_c_some c v d' Hc E) as [H3 H4]. f_equal. exact (div_c_unique c v d' d H3 H4 H1 H2).
    + exfalso. apply Hz. now apply div_c_none in E.
Qed.

(* ---------- integer changes of coordinates ---------- *)
Fixpoint dot (r v : list Z) : Z :=
  match r, v with
  | x :: r', y :: v' => x * y + dot r' v'
  | _, _ => 0
  end.
Definition mv (U : list (list Z)) (v : list Z) : list Z := map (fun r => dot r v) U.

Lemma dot_divides m r v : divides_all m v -> (m | dot r v).
Proof.
  intros H. revert r. induction H as [|a v Ha _ IH]; intros r.
  - destruct r; apply Z.divide_0_r.
  - destruct r as [|x r]; [apply Z.divide_0_r|]. cbn [dot].
    apply Z.divide_add_r; [now apply Z.divide_mul_r|apply IH].
Qed.

Lemma mv_divides m U v : divides_all m v -> divides_all m (mv U v).
Proof.
  intros H. unfold divides_all, mv. rewrite Forall_forall. intros a Ha.
  apply in_map_iff in Ha. destruct Ha as [r [<- _]]. now apply dot_divides.
Qed.

Lemma dot_zero r v : is_zero_vec v -> dot r v = 0.
Proof.
  intros H. revert r. induction H as [|a v Ha _ IH]; intros r; destruct r as [|x r]; cbn [dot]; try reflexivity.
  subst a. rewrite IH. lia.
Qed.

Lemma mv_zero U v : is_zero_vec v -> is_zero_vec (mv U v).
Proof.
  intros H. unfold is_zero_vec, mv. rewrite Forall_forall. intros a Ha.
  apply in_map_iff in Ha. destruct Ha as [r [<- _]]. now apply dot_zero.
Qed.

(* one direction: an integer matrix can only increase the divisibility *)
Lemma div_c_mv_le c U v d d' : 2 <= Z.abs c ->
  div_c c v = Some d -> div_c c (mv U v) = Some d' -> (d <= d')%nat.
Proof.
  intros Hc H1 H2. destruct (div_c_some c v d Hc H1) as [A1 _].
  destruct (div_c_some c _ d' Hc H2) as [_ B2].
  destruct (le_lt_dec d d') as [Hle|Hlt]; [exact Hle|].
  exfalso. apply B2. apply (divides_all_le c _ d); [lia|]. now apply mv_divides.
Qed.

(* [U] with an integer left inverse [V] on v (in particular: U unimodular, V = U^-1) *)
Theorem div_c_unimodular c U V v : 2 <= Z.abs c ->
  mv V (mv U v) = v -> div_c c (mv U v) = div_c c v.
Proof.
  intros Hc HV.
  destruct (div_c c v) as [d|] eqn:E1.
  - destruct (div_c c (mv U v)) as [d'|] eqn:E2.
    + f_equal. apply Nat.le_antisymm.
      * apply (div_c_mv_le c V (mv U v) d' d Hc E2). now rewrite HV.
      * exact (div_c_mv_le c U v d d' Hc E1 E2).
    + exfalso. apply div_c_none in E2. apply (mv_zero V) in E2. rewrite HV in E2.
      apply (div_c_none c) in E2. congruence.
  - apply div_c_none. apply mv_zero. now apply div_c_none in E1.
Qed.
