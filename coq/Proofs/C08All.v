(* Invariant of the chain reducer: after any sequence of reduction steps the (ghost) accumulated
   transfer maps F, B and homotopies H form a strong deformation retraction of the original complex
   onto the current one; the stored Trans and the tracked vectors agree with them. *)
From Coq Require Import Arith List Lia Bool Ring Permutation.
Require Import Yui.Base.Ring Yui.Base.MatF Yui.Base.MatL Yui.Model.Reducer.
Require Import Yui.Proofs.C08Mat Yui.Proofs.C08Perm Yui.Proofs.C08Tri Yui.Proofs.C08Block Yui.Proofs.C08Step.
Import ListNotations.

Ltac csplit := repeat match goal with |- _ /\ _ => split end.
Ltac stp := first [eassumption | reflexivity].
Ltac sd := solve [dwfs | assumption | autorewrite with ddim; lia | autorewrite with ddim; congruence].

(* ---------- composition algebra ---------- *)
Section Compose.
  Context {R : Type} (o : ring_ops R) (L : ring_laws o).
  Add Ring RringA : (ring_theory_of_laws o L).
  Local Notation dmat := (dmat R).
  Local Notation dwf := (@dwf R).

  Lemma comp_FB (F B f b : dmat) n k :
    dwf b -> dc f = n -> dr F = n -> dc B = n -> dr b = n -> dc F = dr B ->
    dmul o F B = did o n -> dmul o f b = did o k ->
    dmul o (dmul o f F) (dmul o B b) = did o k.
  Proof.
    intros Wb H1 H2 H3 H4 H5 E1 E2.
    rewrite (dmul_assoc o L) by sd. rewrite <- (dmul_assoc o L F) by sd. rewrite E1.
    rewrite (dmul_id_l o L) by sd. exact E2.
  Qed.

  Lemma comp_Fc (F1 F2 D a s f1 f2 : dmat) :
    dc f2 = dr F2 -> dc F2 = dr D -> dc f2 = dr a -> dc a = dr F1 -> dc s = dr f1 -> dc f1 = dr F1 ->
    dmul o F2 D = dmul o a F1 -> dmul o f2 a = dmul o s f1 ->
    dmul o (dmul o f2 F2) D = dmul o s (dmul o f1 F1).
  Proof.
    intros H1 H2 H3 H4 H5 H6 E1 E2.
    rewrite (dmul_assoc o L) by sd. rewrite E1. rewrite <- (dmul_assoc o L) by sd. rewrite E2.
    now rewrite (dmul_assoc o L) by sd.
  Qed.

  Lemma comp_Bc (B1 B2 D a s b1 b2 : dmat) :
    dc D = dr B1 -> dc B1 = dr b1 -> dc B2 = dr a -> dc a = dr b1 -> dc B2 = dr b2 -> dc b2 = dr s ->
    dmul o D B1 = dmul o B2 a -> dmul o a b1 = dmul o b2 s ->
    dmul o D (dmul o B1 b1) = dmul o (dmul o B2 b2) s.
  Proof.
    intros H1 H2 H3 H4 H5 H6 E1 E2.
    rewrite <- (dmul_assoc o L) by sd. rewrite E1. rewrite (dmul_assoc o L) by sd. rewrite E2.
    now rewrite <- (dmul_assoc o L) by sd.
  Qed.

  Lemma comp_Fc_prev (F0 F1 D0 a0 a0' f1 : dmat) :
    dc f1 = dr F1 -> dc F1 = dr D0 -> dc f1 = dr a0 -> dc a0 = dr F0 ->
    dmul o F1 D0 = dmul o a0 F0 -> dmul o f1 a0 = a0' ->
    dmul o (dmul o f1 F1) D0 = dmul o a0' F0.
  Proof.
    intros H1 H2 H3 H4 E1 E2.
    rewrite (dmul_assoc o L) by sd. rewrite E1. rewrite <- (dmul_assoc o L) by sd. now rewrite E2.
  Qed.

  Lemma comp_Bc_prev (B0 B1 D0 a0 a0' b1 : dmat) :
    dc B1 = dr b1 -> dc b1 = dr a0' ->
    dmul o D0 B0 = dmul o B1 a0 -> dmul o b1 a0' = a0 ->
    dmul o D0 B0 = dmul o (dmul o B1 b1) a0'.
  Proof.
    intros H1 H2 E1 E2. rewrite (dmul_assoc o L) by sd. now rewrite E2.
  Qed.

  Lemma comp_Fc_next (F2 F3 D2 a2 a2' f2 : dmat) :
    dc a2' = dr f2 -> dc f2 = dr F2 ->
    dmul o F3 D2 = dmul o a2 F2 -> dmul o a2' f2 = a2 ->
    dmul o F3 D2 = dmul o a2' (dmul o f2 F2).
  Proof.
    intros H1 H2 E1 E2. rewrite <- (dmul_assoc o L) by sd. now rewrite E2.
  Qed.

  Lemma comp_Bc_next (B2 B3 D2 a2 a2' b2 : dmat) :
    dc D2 = dr B2 -> dc B2 = dr b2 -> dc B3 = dr a2 -> dc a2 = dr b2 ->
    dmul o D2 B2 = dmul o B3 a2 -> dmul o a2 b2 = a2' ->
    dmul o D2 (dmul o B2 b2) = dmul o B3 a2'.
  Proof.
    intros H1 H2 H3 H4 E1 E2.
    rewrite <- (dmul_assoc o L) by sd. rewrite E1. rewrite (dmul_assoc o L) by sd. now rewrite E2.
  Qed.

  Lemma shuffle4 (X1 X2 Lo Y : dmat) m n :
    dr X1 = m -> dc X1 = n -> dr X2 = m -> dc X2 = n -> dr Lo = m -> dc Lo = n -> dr Y = m -> dc Y = n ->
    dadd o X1 (dadd o Lo (dadd o Y X2)) = dadd o (dadd o X1 X2) (dadd o Lo Y).
  Proof.
    intros. apply (dmat_ext o); dwfs; try sd. intros i j Hi Hj. autorewrite with ddim in Hi, Hj.
    rewrite !(dget_dadd o) by (autorewrite with ddim; lia). ring.
  Qed.

  Lemma shuffle4' (X1 X2 Hi Y : dmat) m n :
    dr X1 = m -> dc X1 = n -> dr X2 = m -> dc X2 = n -> dr Hi = m -> dc Hi = n -> dr Y = m -> dc Y = n ->
    dadd o X1 (dadd o (dadd o Y X2) Hi) = dadd o (dadd o X1 X2) (dadd o Y Hi).
  Proof.
    intros. apply (dmat_ext o); dwfs; try sd. intros i j Hi' Hj. autorewrite with ddim in Hi', Hj.
    rewrite !(dget_dadd o) by (autorewrite with ddim; lia). ring.
  Qed.

  (* homotopy at the source space of the step:
     B b1 f1 F + Lo + (H + B h F2) D = B F + Lo + H D   when  b1 f1 + h a = 1  and  F2 D = a F *)
  Lemma comp_hom_src (B F F2 D H Lo a b1 f1 h : dmat) N n :
    dwf F -> dr B = N -> dc B = n -> dr F = n -> dc F = N -> dr b1 = n -> dc b1 = dr f1 -> dc f1 = n ->
    dr h = n -> dc h = dr a -> dc a = n -> dc h = dr F2 -> dc F2 = dr D -> dc D = N ->
    dr H = N -> dc H = dr D -> dr Lo = N -> dc Lo = N ->
    dmul o F2 D = dmul o a F ->
    dadd o (dmul o b1 f1) (dmul o h a) = did o n ->
    dadd o (dmul o (dmul o B b1) (dmul o f1 F))
      (dadd o Lo (dmul o (dadd o H (dmul o B (dmul o h F2))) D)) =
    dadd o (dmul o B F) (dadd o Lo (dmul o H D)).
  Proof.
    intros WF; intros.
    rewrite (dmul_add_l o L) by sd.
    rewrite (dmul_assoc o L B (dmul o h F2)) by sd. rewrite (dmul_assoc o L h) by sd.
    match goal with E : dmul o F2 D = _ |- _ => rewrite E end.
    rewrite <- (dmul_assoc o L h) by sd.
    rewrite (dmul_assoc o L B b1) by sd. rewrite <- (dmul_assoc o L b1) by sd.
    rewrite (shuffle4 _ _ _ _ N N) by sd.
    rewrite <- (dmul_add_r o L) by sd. rewrite <- (dmul_add_l o L) by sd.
    match goal with E : dadd o _ _ = did o n |- _ => rewrite E end.
    now rewrite (dmul_id_l o L) by sd.
  Qed.

  (* homotopy at the target space of the step:
     B2 b2 f2 F2 + D (H + B h F2) + Hi = B2 F2 + D H + Hi   when  b2 f2 + a h = 1  and  D B = B2 a *)
  Lemma comp_hom_tgt (B B2 F2 D H Hi a b2 f2 h : dmat) N m :
    dwf F2 -> dr B2 = N -> dc B2 = m -> dr F2 = m -> dc F2 = N -> dr b2 = m -> dc b2 = dr f2 -> dc f2 = m ->
    dr a = m -> dc a = dr h -> dc h = m -> dc D = dr B -> dc B = dr h -> dr D = N ->
    dc D = dr H -> dc H = N -> dr Hi = N -> dc Hi = N ->
    dmul o D B = dmul o B2 a ->
    dadd o (dmul o b2 f2) (dmul o a h) = did o m ->
    dadd o (dmul o (dmul o B2 b2) (dmul o f2 F2))
      (dadd o (dmul o D (dadd o H (dmul o B (dmul o h F2)))) Hi) =
    dadd o (dmul o B2 F2) (dadd o (dmul o D H) Hi).
  Proof.
    intros WF; intros.
    rewrite (dmul_add_r o L) by sd.
    rewrite <- (dmul_assoc o L D B) by sd.
    match goal with E : dmul o D B = _ |- _ => rewrite E end.
    rewrite (dmul_assoc o L B2 a) by sd. rewrite <- (dmul_assoc o L a) by sd.
    rewrite (dmul_assoc o L B2 b2) by sd. rewrite <- (dmul_assoc o L b2) by sd.
    rewrite (shuffle4' _ _ _ _ N N) by sd.
    rewrite <- (dmul_add_r o L) by sd. rewrite <- (dmul_add_l o L) by sd.
    match goal with E : dadd o _ _ = did o m |- _ => rewrite E end.
    now rewrite (dmul_id_l o L) by sd.
  Qed.
End Compose.

(* ---------- what the update functions of the model do ---------- *)
Section Specs.
  Context {R : Type} (o : ring_ops R) (u : unit_ops R).
  Local Notation dmat := (dmat R).

  Lemma fupd_eq {A} (f : nat -> A) p x : fupd f p x p = x.
  Proof. unfold fupd. now rewrite Nat.eqb_refl. Qed.
  Lemma fupd_neq {A} (f : nat -> A) p x q : q <> p -> fupd f p x q = f q.
  Proof. intros H. unfold fupd. destruct (Nat.eqb_spec q p); [contradiction|reflexivity]. Qed.

  Lemma update_mats_spec ms p vp vq r s ms' :
    update_mats o ms p vp vq r s = Some ms' ->
    ms' p = Some s /\
    (forall q, q <> p -> S q <> p -> q <> S p -> ms' q = ms q) /\
    (forall p0, p = S p0 -> match ms p0 with
                            | None => ms' p0 = None
                            | Some a0 => dr a0 = length vq /\ ms' p0 = Some (reduce_mat_rows o a0 vq r)
                            end) /\
    (match ms (S p) with
     | None => ms' (S p) = None
     | Some a2 => dc a2 = length vp /\ ms' (S p) = Some (reduce_mat_cols o a2 vp r)
     end).
  Proof.
    unfold update_mats. intros E.
    set (ms1o := match p with
                 | O => Some ms
                 | S p0 => match ms p0 with
                           | None => Some ms
                           | Some a0 => if dr a0 =? length vq
                                        then Some (fupd ms p0 (Some (reduce_mat_rows o a0 vq r))) else None
                           end
                 end) in E.
    destruct ms1o as [ms1|] eqn:E1; [|discriminate]. cbn [obind] in E.
    assert (H1 : (forall q, S q <> p -> ms1 q = ms q) /\
                 (forall p0, p = S p0 -> match ms p0 with
                            | None => ms1 p0 = None
                            | Some a0 => dr a0 = length vq /\ ms1 p0 = Some (reduce_mat_rows o a0 vq r)
                            end)).
    { subst ms1o. destruct p as [|p0].
      - injection E1 as <-. split; [reflexivity|]. intros p0 Hp. discriminate.
      - destruct (ms p0) as [a0|] eqn:Ea0.
        + destruct (Nat.eqb_spec (dr a0) (length vq)) as [Hd|]; [|discriminate]. injection E1 as <-. split.
          * intros q Hq. apply fupd_neq. intros ->. now apply Hq.
          * intros p1 [= <-]. rewrite Ea0. split; [exact Hd|]. apply fupd_eq.
        + injection E1 as <-. split; [reflexivity|]. intros p1 [= <-]. now rewrite Ea0. }
    destruct H1 as [H1a H1b].
    assert (E2 : fupd ms1 p (Some s) (S p) = ms (S p)).
    { rewrite fupd_neq by lia. apply H1a. lia. }
    rewrite E2 in E.
    destruct (ms (S p)) as [a2|] eqn:Ea2.
    - destruct (Nat.eqb_spec (dc a2) (length vp)) as [Hd|]; [|discriminate]. injection E as <-.
      split; [rewrite fupd_neq by lia; apply fupd_eq|]. split; [|split].
      + intros q Hq1 Hq2 Hq3. rewrite !fupd_neq by lia. apply H1a. lia.
      + intros p0 Hp0. specialize (H1b p0 Hp0). rewrite !fupd_neq by lia. exact H1b.
      + split; [exact Hd|]. apply fupd_eq.
    - injection E as <-.
      split; [apply fupd_eq|]. split; [|split].
      + intros q Hq1 Hq2 Hq3. rewrite !fupd_neq by lia. apply H1a. lia.
      + intros p0 Hp0. specialize (H1b p0 Hp0). rewrite !fupd_neq by lia. exact H1b.
      + rewrite fupd_neq by lia. rewrite H1a by lia. exact Ea2.
  Qed.

  Lemma update_trans_spec ts p vp vq t_s t_t ts' :
    update_trans o ts p vp vq t_s t_t = Some ts' ->
    (forall q, q <> p -> q <> S p -> ts' q = ts q) /\
    (match ts p with
     | None => ts' p = None
     | Some t1 => exists t1' t1'', t_append_perm o t1 vq = Some t1' /\ t_merge o t1' t_s = Some t1'' /\ ts' p = Some t1''
     end) /\
    (match ts (S p) with
     | None => ts' (S p) = None
     | Some t2 => exists t2' t2'', t_append_perm o t2 vp = Some t2' /\ t_merge o t2' t_t = Some t2'' /\ ts' (S p) = Some t2''
     end).
  Proof.
    unfold update_trans. intros E.
    set (ts1o := match ts p with
                 | None => Some ts
                 | Some t1 => do t1' <- t_append_perm o t1 vq; do t1'' <- t_merge o t1' t_s; Some (fupd ts p (Some t1''))
                 end) in E.
    destruct ts1o as [ts1|] eqn:E1; [|discriminate]. cbn [obind] in E.
    assert (H1 : (forall q, q <> p -> ts1 q = ts q) /\
                 match ts p with
                 | None => ts1 p = None
                 | Some t1 => exists t1' t1'', t_append_perm o t1 vq = Some t1' /\ t_merge o t1' t_s = Some t1'' /\ ts1 p = Some t1''
                 end).
    { subst ts1o. destruct (ts p) as [t1|] eqn:Et1.
      - destruct (t_append_perm o t1 vq) as [t1'|] eqn:Ea; [|discriminate]. cbn [obind] in E1.
        destruct (t_merge o t1' t_s) as [t1''|] eqn:Em; [|discriminate]. cbn [obind] in E1. injection E1 as <-.
        split; [intros q Hq; now apply fupd_neq|]. exists t1', t1''. split; [reflexivity|]. split; [exact Em|].
        apply fupd_eq.
      - injection E1 as <-. split; [reflexivity|exact Et1]. }
    destruct H1 as [H1a H1b].
    rewrite (H1a (S p)) in E by lia.
    destruct (ts (S p)) as [t2|] eqn:Et2.
    - destruct (t_append_perm o t2 vp) as [t2'|] eqn:Ea; [|discriminate]. cbn [obind] in E.
      destruct (t_merge o t2' t_t) as [t2''|] eqn:Em; [|discriminate]. cbn [obind] in E. injection E as <-.
      split; [|split].
      + intros q Hq1 Hq2. rewrite fupd_neq by lia. now apply H1a.
      + rewrite fupd_neq by lia. exact H1b.
      + exists t2', t2''. split; [reflexivity|]. split; [exact Em|]. apply fupd_eq.
    - injection E as <-. split; [|split].
      + intros q Hq1 Hq2. now apply H1a.
      + exact H1b.
      + rewrite H1a by lia. exact Et2.
  Qed.

  Lemma omap_Forall2 {A B} (f : A -> option B) l l' :
    omap f l = Some l' -> Forall2 (fun x y => f x = Some y) l l'.
  Proof.
    revert l'. induction l as [|x l IH]; intros l' E; cbn [omap] in E.
    - injection E as <-. constructor.
    - destruct (f x) as [y|] eqn:Ey; [|discriminate]. cbn [obind] in E.
      destruct (omap f l) as [ys|]; [|discriminate]. cbn [obind] in E. injection E as <-.
      constructor; [exact Ey|]. now apply IH.
  Qed.

  Lemma update_vecs_spec vs p vp vq r sc vs' :
    update_vecs o vs p vp vq r sc = Some vs' ->
    (forall q, q <> p -> q <> S p -> vs' q = vs q) /\
    Forall2 (fun v w => vec_src o vq r (length vq) v = Some w) (vs p) (vs' p) /\
    Forall2 (fun v w => vec_tgt o vp r (length vp) sc v = Some w) (vs (S p)) (vs' (S p)).
  Proof.
    unfold update_vecs. intros E.
    destruct (omap (vec_src o vq r (length vq)) (vs p)) as [v1|] eqn:E1; [|discriminate]. cbn [obind] in E.
    rewrite fupd_neq in E by lia.
    destruct (omap (vec_tgt o vp r (length vp) sc) (vs (S p))) as [v2|] eqn:E2; [|discriminate].
    cbn [obind] in E. injection E as <-. split; [|split].
    - intros q H1 H2. now rewrite !fupd_neq by lia.
    - rewrite fupd_neq by lia. rewrite fupd_eq. now apply omap_Forall2.
    - rewrite fupd_eq. now apply omap_Forall2.
  Qed.

  (* append_perm followed by merge composes the step's maps with the stored ones *)
  Lemma trans_step_spec (t : trans R) v (ts : trans R) t' t'' :
    t_append_perm o t v = Some t' -> t_merge o t' ts = Some t'' ->
    length v = t_tgt t /\ t_tgt t = t_src ts /\
    t'' = mkT (t_src t) (t_tgt ts) (dmul o (t_f ts) (dmul o (row_perm_mat o v) (t_f t)))
              (dmul o (dmul o (t_b t) (col_perm_mat o v)) (t_b ts)).
  Proof.
    unfold t_append_perm, t_append, t_merge.
    destruct (Nat.eqb_spec (length v) (t_tgt t)) as [H1|]; [|discriminate].
    destruct (_ && _ && _); [|discriminate]. intros [= <-]. cbn [t_tgt t_src t_f t_b].
    autorewrite with ddim.
    destruct (Nat.eqb_spec (length v) (t_src ts)) as [H2|]; [|discriminate]. intros [= <-].
    repeat split; congruence.
  Qed.
End Specs.

(* ---------- the invariant ---------- *)
Section Invariant.
  Context {R : Type} (o : ring_ops R) (L : ring_laws o) (u : unit_ops R) (UL : unit_laws o u).
  Local Notation dmat := (dmat R).
  Local Notation dwf := (@dwf R).
  Local Notation state := (state R).

  (* ghost data: current ranks, accumulated forward / backward maps (p <= M), homotopies (p < M) *)
  Record ghost := mkG { gn : nat -> nat; gF : nat -> dmat; gB : nat -> dmat; gH : nat -> dmat }.

  (* the original complex: M differentials D_p : C_p -> C_{p+1} (p < M), ranks N_p (p <= M),
     tracked vectors V0_p *)
  Context (M : nat) (N : nat -> nat) (D : nat -> dmat) (V0 : nat -> list (list R)).
  Context (HD : forall p, p < M -> dwf (D p) /\ dr (D p) = N (S p) /\ dc (D p) = N p).

  Definition Hlo (g : ghost) (p : nat) : dmat :=
    match p with O => dzero o (N 0) (N 0) | S q => dmul o (D q) (gH g q) end.
  Definition Hhi (g : ghost) (p : nat) : dmat :=
    if p <? M then dmul o (gH g p) (D p) else dzero o (N p) (N p).

  Record Inv (st : state) (g : ghost) : Prop := mkInv {
    inv_mats : forall p, p < M -> exists d, mats st p = Some d /\ dwf d /\ dr d = gn g (S p) /\ dc d = gn g p;
    inv_none : forall p, M <= p -> mats st p = None;
    inv_cpx : forall p d0 d1, mats st p = Some d0 -> mats st (S p) = Some d1 ->
              dmul o d1 d0 = dzero o (dr d1) (dc d0);
    inv_F : forall p, p <= M -> dwf (gF g p) /\ dr (gF g p) = gn g p /\ dc (gF g p) = N p;
    inv_B : forall p, p <= M -> dwf (gB g p) /\ dr (gB g p) = N p /\ dc (gB g p) = gn g p;
    inv_FB : forall p, p <= M -> dmul o (gF g p) (gB g p) = did o (gn g p);
    inv_Fc : forall p d, mats st p = Some d -> dmul o (gF g (S p)) (D p) = dmul o d (gF g p);
    inv_Bc : forall p d, mats st p = Some d -> dmul o (D p) (gB g p) = dmul o (gB g (S p)) d;
    inv_H : forall p, p < M -> dwf (gH g p) /\ dr (gH g p) = N p /\ dc (gH g p) = N (S p);
    inv_hom : forall p, p <= M ->
              dadd o (dmul o (gB g p) (gF g p)) (dadd o (Hlo g p) (Hhi g p)) = did o (N p);
    inv_trs : forall p t, trs st p = Some t -> p < M /\ t = mkT (N p) (gn g p) (gF g p) (gB g p);
    inv_vcs : forall p, p <= M ->
              Forall2 (fun v v0 => length v = gn g p /\ vmat o v = dmul o (gF g p) (vmat o v0)) (vcs st p) (V0 p)
  }.

  Lemma Forall2_compose {A B C} (P : A -> C -> Prop) (Q : A -> B -> Prop) (P' : B -> C -> Prop) l l1 l0 :
    (forall x y z, Q x y -> P x z -> P' y z) -> Forall2 Q l l1 -> Forall2 P l l0 -> Forall2 P' l1 l0.
  Proof.
    intros H HQ. revert l0. induction HQ as [|x y l l1 Hxy HQ IH]; intros l0 HP; inversion HP; subst.
    - constructor.
    - constructor; [eapply H; eassumption|]. now apply IH.
  Qed.

  Section StepInv.
    Context (st : state) (g : ghost) (I : Inv st g).
    Context (p : nat) (a1 : dmat) (Ha : mats st p = Some a1).
    Context (vp vq : list nat) (r : nat) (t : ttype) (sc : schur R).
    Local Notation m := (dr a1).
    Local Notation n := (dc a1).
    Context (Hvp : is_perm m vp) (Hvq : is_perm n vq)
            (Htri : tri_ok o t (dblock o (permute o a1 vp vq) 0 0 r r) r)
            (Hsc : schur_of o u t (permute o a1 vp vq) r = Some sc).
    Context (ms : nat -> option dmat) (Ems : update_mats o (mats st) p vp vq r (sc_s sc) = Some ms).
    Context (ts : nat -> option (trans R))
            (Hts : (trs st p = None /\ trs st (S p) = None /\ ts = trs st) \/
                   (exists t_s t_t, schur_t_src o n r sc = Some t_s /\ schur_t_tgt o m r sc = Some t_t /\
                                    update_trans o (trs st) p vp vq t_s t_t = Some ts)).
    Context (vs : nat -> list (list R)) (Evs : update_vecs o (vcs st) p vp vq r sc = Some vs).

    Local Notation f1 := (step_f1 o n r vq).
    Local Notation b1 := (step_b1 o n r vq sc).
    Local Notation f2 := (step_f2 o m r vp sc).
    Local Notation b2 := (step_b2 o m r vp).
    Local Notation h := (step_h o m n r vp vq sc).
    Local Notation s := (sc_s sc).

    Definition g' : ghost :=
      mkG (fupd (fupd (gn g) p (n - r)) (S p) (m - r))
          (fupd (fupd (gF g) p (dmul o f1 (gF g p))) (S p) (dmul o f2 (gF g (S p))))
          (fupd (fupd (gB g) p (dmul o (gB g p) b1)) (S p) (dmul o (gB g (S p)) b2))
          (fupd (gH g) p (dadd o (gH g p) (dmul o (gB g p) (dmul o h (gF g (S p)))))).

    Lemma pM : p < M.
    Proof.
      destruct (Nat.lt_ge_cases p M) as [H|H]; [exact H|].
      rewrite (inv_none st g I p H) in Ha. discriminate.
    Qed.

    Lemma a1_facts : dwf a1 /\ m = gn g (S p) /\ n = gn g p.
    Proof.
      destruct (inv_mats st g I p pM) as (d & Ed & Wd & Hr & Hc). rewrite Ha in Ed. injection Ed as <-. auto.
    Qed.

    Lemma SD : 
      dr f1 = n - r /\ dc f1 = n /\ dr b1 = n /\ dc b1 = n - r /\
      dr f2 = m - r /\ dc f2 = m /\ dr b2 = m /\ dc b2 = m - r /\
      dr h = n /\ dc h = m /\ dr s = m - r /\ dc s = n - r /\ dwf s /\ r <= m /\ r <= n.
    Proof.
      eapply (step_dims o L u UL a1 m n r vp vq t sc); stp.
    Qed.

    Lemma S_fc : dmul o f2 a1 = dmul o s f1.
    Proof. eapply (step_f_chain o L u UL a1 m n r vp vq t sc); stp. Qed.
    Lemma S_bc : dmul o a1 b1 = dmul o b2 s.
    Proof. eapply (step_b_chain o L u UL a1 m n r vp vq t sc); stp. Qed.
    Lemma S_fb1 : dmul o f1 b1 = did o (n - r).
    Proof. eapply (step_fb_src o L u UL a1 m n r vp vq t sc); stp. Qed.
    Lemma S_fb2 : dmul o f2 b2 = did o (m - r).
    Proof. eapply (step_fb_tgt o L u UL a1 m n r vp vq t sc); stp. Qed.
    Lemma S_h1 : dadd o (dmul o b1 f1) (dmul o h a1) = did o n.
    Proof. eapply (step_homotopy_src o L u UL a1 m n r vp vq t sc); stp. Qed.
    Lemma S_h2 : dadd o (dmul o b2 f2) (dmul o a1 h) = did o m.
    Proof. eapply (step_homotopy_tgt o L u UL a1 m n r vp vq t sc); stp. Qed.

    (* access to the new ghost *)
    Lemma gn'_p : gn g' p = n - r. Proof. cbn [g' gn]. rewrite fupd_neq by lia. apply fupd_eq. Qed.
    Lemma gn'_Sp : gn g' (S p) = m - r. Proof. cbn [g' gn]. apply fupd_eq. Qed.
    Lemma gn'_other q : q <> p -> q <> S p -> gn g' q = gn g q.
    Proof. intros. cbn [g' gn]. now rewrite !fupd_neq. Qed.
    Lemma gF'_p : gF g' p = dmul o f1 (gF g p). Proof. cbn [g' gF]. rewrite fupd_neq by lia. apply fupd_eq. Qed.
    Lemma gF'_Sp : gF g' (S p) = dmul o f2 (gF g (S p)). Proof. cbn [g' gF]. apply fupd_eq. Qed.
    Lemma gF'_other q : q <> p -> q <> S p -> gF g' q = gF g q.
    Proof. intros. cbn [g' gF]. now rewrite !fupd_neq. Qed.
    Lemma gB'_p : gB g' p = dmul o (gB g p) b1. Proof. cbn [g' gB]. rewrite fupd_neq by lia. apply fupd_eq. Qed.
    Lemma gB'_Sp : gB g' (S p) = dmul o (gB g (S p)) b2. Proof. cbn [g' gB]. apply fupd_eq. Qed.
    Lemma gB'_other q : q <> p -> q <> S p -> gB g' q = gB g q.
    Proof. intros. cbn [g' gB]. now rewrite !fupd_neq. Qed.
    Lemma gH'_p : gH g' p = dadd o (gH g p) (dmul o (gB g p) (dmul o h (gF g (S p)))).
    Proof. cbn [g' gH]. apply fupd_eq. Qed.
    Lemma gH'_other q : q <> p -> gH g' q = gH g q.
    Proof. intros. cbn [g' gH]. now rewrite fupd_neq. Qed.

    (* the new matrices *)
    Lemma ms_p : ms p = Some s.
    Proof. now destruct (update_mats_spec o _ _ _ _ _ _ _ Ems) as (H & _). Qed.

    Lemma ms_other q : q <> p -> S q <> p -> q <> S p -> ms q = mats st q.
    Proof. destruct (update_mats_spec o _ _ _ _ _ _ _ Ems) as (_ & H & _). apply H. Qed.

    Lemma ms_prev p0 : p = S p0 ->
      exists a0, mats st p0 = Some a0 /\ dwf a0 /\ dr a0 = n /\ dc a0 = gn g p0 /\
                 dmul o a1 a0 = dzero o m (dc a0) /\ ms p0 = Some (reduce_mat_rows o a0 vq r).
    Proof.
      intros Hp0. destruct (update_mats_spec o _ _ _ _ _ _ _ Ems) as (_ & _ & H & _).
      specialize (H p0 Hp0). pose proof pM as HpM.
      destruct (inv_mats st g I p0 ltac:(lia)) as (a0 & Ea0 & W0 & Hr0 & Hc0).
      rewrite Ea0 in H. destruct H as [Hd H]. exists a0. csplit; try assumption.
      - destruct a1_facts as (_ & _ & Hn). rewrite Hn, Hr0. now subst p.
      - apply (inv_cpx st g I p0 a0 a1 Ea0). now rewrite <- Hp0.
    Qed.

    Lemma ms_next_some : S p < M ->
      exists a2, mats st (S p) = Some a2 /\ dwf a2 /\ dc a2 = m /\ dr a2 = gn g (S (S p)) /\
                 dmul o a2 a1 = dzero o (dr a2) n /\ ms (S p) = Some (reduce_mat_cols o a2 vp r).
    Proof.
      intros HS. destruct (update_mats_spec o _ _ _ _ _ _ _ Ems) as (_ & _ & _ & H).
      destruct (inv_mats st g I (S p) HS) as (a2 & Ea2 & W2 & Hr2 & Hc2).
      rewrite Ea2 in H. destruct H as [Hd H]. exists a2. csplit; try assumption.
      - destruct a1_facts as (_ & Hm & _). now rewrite Hm.
      - apply (inv_cpx st g I p a1 a2 Ha Ea2).
    Qed.

    Lemma ms_next_none : M <= S p -> ms (S p) = None.
    Proof.
      intros HS. destruct (update_mats_spec o _ _ _ _ _ _ _ Ems) as (_ & _ & _ & H).
      now rewrite (inv_none st g I (S p) HS) in H.
    Qed.

    Lemma S_a0 a0 : dwf a0 -> dr a0 = n -> dmul o a1 a0 = dzero o m (dc a0) ->
      dmul o f1 a0 = reduce_mat_rows o a0 vq r /\
      dmul o b1 (reduce_mat_rows o a0 vq r) = a0 /\
      dmul o s (reduce_mat_rows o a0 vq r) = dzero o (m - r) (dc a0).
    Proof.
      intros W0 H0 H10. split; [|split].
      - eapply (step_a0_f o L u UL a1 m n r vp vq t sc); stp.
      - eapply (step_a0_b o L u UL a1 m n r vp vq t sc); stp.
      - eapply (step_complex_src o L u UL a1 m n r vp vq t sc); stp.
    Qed.

    Lemma S_a2 a2 : dwf a2 -> dc a2 = m -> dmul o a2 a1 = dzero o (dr a2) n ->
      dmul o (reduce_mat_cols o a2 vp r) f2 = a2 /\
      dmul o a2 b2 = reduce_mat_cols o a2 vp r /\
      dmul o (reduce_mat_cols o a2 vp r) s = dzero o (dr a2) (n - r).
    Proof.
      intros W2 H2 H21. split; [|split].
      - eapply (step_a2_f o L u UL a1 m n r vp vq t sc); stp.
      - eapply (step_a2_b o L u UL a1 m n r vp vq t sc); stp.
      - eapply (step_complex_tgt o L u UL a1 m n r vp vq t sc); stp.
    Qed.

    Ltac cases q :=
      destruct (Nat.eq_dec q p) as [?Hqp|?Hqp];
      [|destruct (Nat.eq_dec (S q) p) as [?Hqp0|?Hqp0];
        [|destruct (Nat.eq_dec q (S p)) as [?HqS|?HqS]]].

    Lemma new_mats q : q < M ->
      exists d, ms q = Some d /\ dwf d /\ dr d = gn g' (S q) /\ dc d = gn g' q.
    Proof.
      intros Hq. destruct SD as (_ & _ & _ & _ & _ & _ & _ & _ & _ & _ & Hsr & Hsc' & Ws & _).
      destruct a1_facts as (W1 & Hm & Hn).
      cases q.
      - subst q. exists s. rewrite gn'_Sp, gn'_p. now csplit; try apply ms_p.
      - destruct (ms_prev q (eq_sym Hqp0)) as (a0 & Ea0 & W0 & Hr0 & Hc0 & _ & Hms).
        exists (reduce_mat_rows o a0 vq r). rewrite Hqp0, gn'_p, (gn'_other q) by lia.
        csplit; [exact Hms|dwfs| |]; autorewrite with ddim; congruence.
      - subst q. destruct (ms_next_some Hq) as (a2 & Ea2 & W2 & Hc2 & Hr2 & _ & Hms).
        exists (reduce_mat_cols o a2 vp r). rewrite gn'_Sp, (gn'_other (S (S p))) by lia.
        csplit; [exact Hms|dwfs| |]; autorewrite with ddim; congruence.
      - destruct (inv_mats st g I q Hq) as (d & Ed & Wd & Hr & Hc).
        exists d. rewrite (gn'_other (S q)), (gn'_other q) by lia. rewrite ms_other by assumption. auto.
    Qed.

    Lemma new_none q : M <= q -> ms q = None.
    Proof.
      intros Hq. pose proof pM. destruct (Nat.eq_dec q (S p)) as [->|Hne].
      - now apply ms_next_none.
      - rewrite ms_other by lia. now apply (inv_none st g I).
    Qed.

    Lemma new_cpx q d0 d1 : ms q = Some d0 -> ms (S q) = Some d1 -> dmul o d1 d0 = dzero o (dr d1) (dc d0).
    Proof.
      intros E0 E1. destruct SD as (Hf1r & Hf1c & Hb1r & Hb1c & Hf2r & Hf2c & Hb2r & Hb2c & _ & _ & Hsr & Hsc' & Ws & _).
      destruct a1_facts as (W1 & Hm & Hn).
      assert (HqM : S q < M).
      { destruct (Nat.lt_ge_cases (S q) M) as [Hlt|Hge]; [exact Hlt|]. rewrite (new_none (S q) Hge) in E1. discriminate. }
      cases q.
      - (* q = p : s, then the reduced outgoing matrix *)
        subst q. rewrite ms_p in E0. injection E0 as <-.
        destruct (ms_next_some HqM) as (a2 & Ea2 & W2 & Hc2 & Hr2 & H21 & Hms).
        rewrite Hms in E1. injection E1 as <-.
        destruct (S_a2 a2 W2 Hc2 H21) as (_ & _ & H). rewrite H. autorewrite with ddim. now rewrite Hsc'.
      - (* S q = p : the reduced incoming matrix, then s *)
        destruct (ms_prev q (eq_sym Hqp0)) as (a0 & Ea0 & W0 & Hr0 & Hc0 & H10 & Hms).
        rewrite Hms in E0. injection E0 as <-. rewrite Hqp0, ms_p in E1. injection E1 as <-.
        destruct (S_a0 a0 W0 Hr0 H10) as (_ & _ & H). rewrite H. autorewrite with ddim. now rewrite Hsr.
      - (* q = S p : the reduced outgoing matrix, then the unchanged one above *)
        subst q. destruct (ms_next_some ltac:(lia)) as (a2 & Ea2 & W2 & Hc2 & Hr2 & H21 & Hms).
        rewrite Hms in E0. injection E0 as <-. rewrite ms_other in E1 by lia.
        destruct (S_a2 a2 W2 Hc2 H21) as (_ & H & _). rewrite <- H.
        rewrite <- (dmul_assoc o L) by (destruct (inv_mats st g I (S (S p)) HqM) as (d & Ed & _ & _ & Hcd);
                                        rewrite E1 in Ed; injection Ed as <-; congruence).
        rewrite (inv_cpx st g I (S p) a2 d1 Ea2 E1). rewrite (dmul_zero_l o L). now autorewrite with ddim.
      - destruct (Nat.eq_dec (S (S q)) p) as [Hpp|Hpp].
        + (* S (S q) = p : unchanged, then the reduced incoming matrix *)
          destruct (ms_prev (S q) (eq_sym Hpp)) as (a0 & Ea0 & W0 & Hr0 & Hc0 & H10 & Hms).
          rewrite Hms in E1. injection E1 as <-. rewrite ms_other in E0 by lia.
          destruct (S_a0 a0 W0 Hr0 H10) as (H & _ & _). rewrite <- H.
          rewrite (dmul_assoc o L) by congruence.
          rewrite (inv_cpx st g I q d0 a0 E0 Ea0). rewrite (dmul_zero_r o L). now autorewrite with ddim.
        + rewrite ms_other in E0, E1 by lia. now apply (inv_cpx st g I q).
    Qed.

    Lemma new_F q : q <= M -> dwf (gF g' q) /\ dr (gF g' q) = gn g' q /\ dc (gF g' q) = N q.
    Proof.
      intros Hq. destruct SD as (Hf1r & Hf1c & Hb1r & Hb1c & Hf2r & Hf2c & Hb2r & Hb2c & _).
      pose proof pM.
      destruct (Nat.eq_dec q p) as [->|Hqp]; [|destruct (Nat.eq_dec q (S p)) as [->|HqS]].
      - rewrite gF'_p, gn'_p. destruct (inv_F st g I p Hq) as (W & Hr & Hc). csplit; [dwfs| |]; autorewrite with ddim; congruence.
      - rewrite gF'_Sp, gn'_Sp. destruct (inv_F st g I (S p) Hq) as (W & Hr & Hc). csplit; [dwfs| |]; autorewrite with ddim; congruence.
      - rewrite gF'_other, gn'_other by assumption. now apply (inv_F st g I).
    Qed.

    Lemma new_B q : q <= M -> dwf (gB g' q) /\ dr (gB g' q) = N q /\ dc (gB g' q) = gn g' q.
    Proof.
      intros Hq. destruct SD as (Hf1r & Hf1c & Hb1r & Hb1c & Hf2r & Hf2c & Hb2r & Hb2c & _).
      pose proof pM.
      destruct (Nat.eq_dec q p) as [->|Hqp]; [|destruct (Nat.eq_dec q (S p)) as [->|HqS]].
      - rewrite gB'_p, gn'_p. destruct (inv_B st g I p Hq) as (W & Hr & Hc). csplit; [dwfs| |]; autorewrite with ddim; congruence.
      - rewrite gB'_Sp, gn'_Sp. destruct (inv_B st g I (S p) Hq) as (W & Hr & Hc). csplit; [dwfs| |]; autorewrite with ddim; congruence.
      - rewrite gB'_other, gn'_other by assumption. now apply (inv_B st g I).
    Qed.

    Lemma new_FB q : q <= M -> dmul o (gF g' q) (gB g' q) = did o (gn g' q).
    Proof.
      intros Hq. destruct SD as (Hf1r & Hf1c & Hb1r & Hb1c & Hf2r & Hf2c & Hb2r & Hb2c & _).
      destruct a1_facts as (W1 & Hm & Hn). pose proof pM.
      destruct (Nat.eq_dec q p) as [->|Hqp]; [|destruct (Nat.eq_dec q (S p)) as [->|HqS]].
      - rewrite gF'_p, gB'_p, gn'_p.
        destruct (inv_F st g I p Hq) as (WF & HFr & HFc). destruct (inv_B st g I p Hq) as (WB & HBr & HBc).
        apply (comp_FB o L _ _ _ _ n); try congruence; [unfold step_b1; dwfs| |].
        + rewrite (inv_FB st g I p Hq). now rewrite Hn.
        + exact S_fb1.
      - rewrite gF'_Sp, gB'_Sp, gn'_Sp.
        destruct (inv_F st g I (S p) Hq) as (WF & HFr & HFc). destruct (inv_B st g I (S p) Hq) as (WB & HBr & HBc).
        apply (comp_FB o L _ _ _ _ m); try congruence; [unfold step_b2; dwfs| |].
        + rewrite (inv_FB st g I (S p) Hq). now rewrite Hm.
        + exact S_fb2.
      - rewrite gF'_other, gB'_other, gn'_other by assumption. now apply (inv_FB st g I).
    Qed.

    Lemma new_Fc q d : ms q = Some d -> dmul o (gF g' (S q)) (D q) = dmul o d (gF g' q).
    Proof.
      intros E. destruct SD as (Hf1r & Hf1c & Hb1r & Hb1c & Hf2r & Hf2c & Hb2r & Hb2c & _ & _ & Hsr & Hsc' & Ws & _).
      destruct a1_facts as (W1 & Hm & Hn). pose proof pM as HpM.
      assert (HqM : q < M).
      { destruct (Nat.lt_ge_cases q M) as [Hlt|Hge]; [exact Hlt|]. rewrite (new_none q Hge) in E. discriminate. }
      destruct (HD q HqM) as (WD & HDr & HDc).
      cases q.
      - subst q. rewrite ms_p in E. injection E as <-. rewrite gF'_Sp, gF'_p.
        destruct (inv_F st g I p ltac:(lia)) as (WF1 & HF1r & HF1c).
        destruct (inv_F st g I (S p) ltac:(lia)) as (WF2 & HF2r & HF2c).
        apply (comp_Fc o L _ _ _ a1); try congruence.
        + exact (inv_Fc st g I p a1 Ha).
        + exact S_fc.
      - destruct (ms_prev q (eq_sym Hqp0)) as (a0 & Ea0 & W0 & Hr0 & Hc0 & H10 & Hms).
        rewrite Hms in E. injection E as <-. rewrite Hqp0, gF'_p, (gF'_other q) by lia.
        destruct (inv_F st g I p ltac:(lia)) as (WF1 & HF1r & HF1c).
        destruct (inv_F st g I q ltac:(lia)) as (WF0 & HF0r & HF0c).
        destruct (S_a0 a0 W0 Hr0 H10) as (H & _ & _).
        apply (comp_Fc_prev o L _ _ _ a0); try congruence.
        rewrite <- Hqp0. exact (inv_Fc st g I q a0 Ea0).
      - subst q. destruct (ms_next_some HqM) as (a2 & Ea2 & W2 & Hc2 & Hr2 & H21 & Hms).
        rewrite Hms in E. injection E as <-. rewrite gF'_Sp, (gF'_other (S (S p))) by lia.
        destruct (inv_F st g I (S p) ltac:(lia)) as (WF2 & HF2r & HF2c).
        destruct (S_a2 a2 W2 Hc2 H21) as (H & _ & _).
        apply (comp_Fc_next o L _ _ _ a2); try (autorewrite with ddim; congruence); try assumption.
        exact (inv_Fc st g I (S p) a2 Ea2).
      - rewrite ms_other in E by assumption. rewrite (gF'_other (S q)), (gF'_other q) by lia.
        exact (inv_Fc st g I q d E).
    Qed.

    Lemma new_Bc q d : ms q = Some d -> dmul o (D q) (gB g' q) = dmul o (gB g' (S q)) d.
    Proof.
      intros E. destruct SD as (Hf1r & Hf1c & Hb1r & Hb1c & Hf2r & Hf2c & Hb2r & Hb2c & _ & _ & Hsr & Hsc' & Ws & _).
      destruct a1_facts as (W1 & Hm & Hn). pose proof pM as HpM.
      assert (HqM : q < M).
      { destruct (Nat.lt_ge_cases q M) as [Hlt|Hge]; [exact Hlt|]. rewrite (new_none q Hge) in E. discriminate. }
      destruct (HD q HqM) as (WD & HDr & HDc).
      cases q.
      - subst q. rewrite ms_p in E. injection E as <-. rewrite gB'_Sp, gB'_p.
        destruct (inv_B st g I p ltac:(lia)) as (WB1 & HB1r & HB1c).
        destruct (inv_B st g I (S p) ltac:(lia)) as (WB2 & HB2r & HB2c).
        apply (comp_Bc o L _ _ _ a1); try congruence.
        + exact (inv_Bc st g I p a1 Ha).
        + exact S_bc.
      - destruct (ms_prev q (eq_sym Hqp0)) as (a0 & Ea0 & W0 & Hr0 & Hc0 & H10 & Hms).
        rewrite Hms in E. injection E as <-. rewrite Hqp0, gB'_p, (gB'_other q) by lia.
        destruct (inv_B st g I p ltac:(lia)) as (WB1 & HB1r & HB1c).
        destruct (S_a0 a0 W0 Hr0 H10) as (_ & H & _).
        apply (comp_Bc_prev o L _ _ _ a0); try (autorewrite with ddim; congruence); try assumption.
        rewrite <- Hqp0. exact (inv_Bc st g I q a0 Ea0).
      - subst q. destruct (ms_next_some HqM) as (a2 & Ea2 & W2 & Hc2 & Hr2 & H21 & Hms).
        rewrite Hms in E. injection E as <-. rewrite gB'_Sp, (gB'_other (S (S p))) by lia.
        destruct (inv_B st g I (S p) ltac:(lia)) as (WB2 & HB2r & HB2c).
        destruct (inv_B st g I (S (S p)) ltac:(lia)) as (WB3 & HB3r & HB3c).
        destruct (S_a2 a2 W2 Hc2 H21) as (_ & H & _).
        apply (comp_Bc_next o L _ _ _ a2); try congruence.
        exact (inv_Bc st g I (S p) a2 Ea2).
      - rewrite ms_other in E by assumption. rewrite (gB'_other (S q)), (gB'_other q) by lia.
        exact (inv_Bc st g I q d E).
    Qed.

    Lemma new_H q : q < M -> dwf (gH g' q) /\ dr (gH g' q) = N q /\ dc (gH g' q) = N (S q).
    Proof.
      intros Hq. destruct (Nat.eq_dec q p) as [->|Hqp].
      - rewrite gH'_p. destruct (inv_H st g I p Hq) as (W & Hr & Hc). csplit; [dwfs| |]; autorewrite with ddim; assumption.
      - rewrite gH'_other by assumption. now apply (inv_H st g I).
    Qed.

    Lemma Hlo'_not_Sp q : q <> S p -> Hlo g' q = Hlo g q.
    Proof.
      intros Hq. destruct q as [|q0]; [reflexivity|]. cbn [Hlo]. rewrite gH'_other by lia. reflexivity.
    Qed.
    Lemma Hhi'_not_p q : q <> p -> Hhi g' q = Hhi g q.
    Proof. intros Hq. unfold Hhi. now rewrite gH'_other. Qed.

    Lemma new_hom q : q <= M ->
      dadd o (dmul o (gB g' q) (gF g' q)) (dadd o (Hlo g' q) (Hhi g' q)) = did o (N q).
    Proof.
      intros Hq. destruct SD as (Hf1r & Hf1c & Hb1r & Hb1c & Hf2r & Hf2c & Hb2r & Hb2c & Hhr & Hhc & _).
      destruct a1_facts as (W1 & Hm & Hn). pose proof pM as HpM.
      destruct (HD p HpM) as (WD & HDr & HDc).
      destruct (inv_F st g I p ltac:(lia)) as (WF1 & HF1r & HF1c).
      destruct (inv_F st g I (S p) ltac:(lia)) as (WF2 & HF2r & HF2c).
      destruct (inv_B st g I p ltac:(lia)) as (WB1 & HB1r & HB1c).
      destruct (inv_B st g I (S p) ltac:(lia)) as (WB2 & HB2r & HB2c).
      destruct (inv_H st g I p HpM) as (WH & HHr & HHc).
      destruct (Nat.eq_dec q p) as [->|Hqp]; [|destruct (Nat.eq_dec q (S p)) as [->|HqS]].
      - rewrite gB'_p, gF'_p, Hlo'_not_Sp by lia.
        unfold Hhi. destruct (Nat.ltb_spec p M) as [_|]; [|lia]. rewrite gH'_p.
        rewrite (comp_hom_src o L (gB g p) (gF g p) (gF g (S p)) (D p) (gH g p) (Hlo g p) a1 b1 f1 h (N p) n);
          try congruence.
        + pose proof (inv_hom st g I p ltac:(lia)) as E. unfold Hhi in E.
          destruct (Nat.ltb_spec p M) as [_|]; [|lia]. exact E.
        + destruct p as [|p0]; cbn [Hlo]; autorewrite with ddim; [reflexivity|].
          now destruct (HD p0 ltac:(lia)) as (_ & ? & _).
        + destruct p as [|p0]; cbn [Hlo]; autorewrite with ddim; [reflexivity|].
          now destruct (inv_H st g I p0 ltac:(lia)) as (_ & _ & ?).
        + exact (inv_Fc st g I p a1 Ha).
        + exact S_h1.
      - rewrite gB'_Sp, gF'_Sp, Hhi'_not_p by lia. cbn [Hlo]. rewrite gH'_p.
        rewrite (comp_hom_tgt o L (gB g p) (gB g (S p)) (gF g (S p)) (D p) (gH g p) (Hhi g (S p)) a1 b2 f2 h (N (S p)) m);
          try congruence.
        + exact (inv_hom st g I (S p) Hq).
        + unfold Hhi. destruct (Nat.ltb_spec (S p) M) as [HS|HS]; autorewrite with ddim; [|reflexivity].
          now destruct (inv_H st g I (S p) HS) as (_ & ? & _).
        + unfold Hhi. destruct (Nat.ltb_spec (S p) M) as [HS|HS]; autorewrite with ddim; [|reflexivity].
          now destruct (HD (S p) HS) as (_ & _ & ?).
        + exact (inv_Bc st g I p a1 Ha).
        + exact S_h2.
      - rewrite gB'_other, gF'_other, Hlo'_not_Sp, Hhi'_not_p by assumption. now apply (inv_hom st g I).
    Qed.

    Lemma t_src_facts t_s : schur_t_src o n r sc = Some t_s ->
      t_s = mkT n (n - r) (proj o n (n - r)) (dvcat o (dneg o (sc_ainvb sc)) (did o (n - r))).
    Proof.
      unfold schur_t_src, t_new. destruct (_ && _); [|discriminate]. intros [= <-].
      now autorewrite with ddim.
    Qed.
    Lemma t_tgt_facts t_t : schur_t_tgt o m r sc = Some t_t ->
      t_t = mkT m (m - r) (dhcat o (dneg o (sc_cainv sc)) (did o (m - r))) (incl o m (m - r)).
    Proof.
      destruct a1_facts as (W1 & _ & _).
      destruct (sc_unfold o L u UL a1 m n r vp vq t sc eq_refl eq_refl Htri Hsc)
        as (Hrm & _ & _ & _ & _ & _ & Ec & _).
      unfold schur_t_tgt, t_new. destruct (_ && _); [|discriminate]. intros [= <-].
      rewrite Ec. autorewrite with ddim. f_equal; lia.
    Qed.

    Lemma new_trs q t' : ts q = Some t' -> q < M /\ t' = mkT (N q) (gn g' q) (gF g' q) (gB g' q).
    Proof.
      intros E. pose proof pM as HpM.
      pose proof (perm_length m vp Hvp) as Lvp. pose proof (perm_length n vq Hvq) as Lvq.
      destruct Hts as [(E1 & E2 & ->)|(t_s & t_t & Es & Et & Eu)].
      - assert (q <> p) by (intros ->; congruence). assert (q <> S p) by (intros ->; congruence).
        rewrite gn'_other, gF'_other, gB'_other by assumption. now apply (inv_trs st g I).
      - apply t_src_facts in Es. apply t_tgt_facts in Et.
        destruct (update_trans_spec o _ _ _ _ _ _ _ Eu) as (Ho & Hp1 & Hp2).
        destruct (Nat.eq_dec q p) as [->|Hqp]; [|destruct (Nat.eq_dec q (S p)) as [->|HqS]].
        + split; [exact HpM|]. destruct (trs st p) as [t1|] eqn:Et1; [|congruence].
          destruct Hp1 as (t1' & t1'' & Ea & Em & Ep). rewrite Ep in E. injection E as <-.
          destruct (inv_trs st g I p t1 Et1) as (_ & ->).
          destruct (trans_step_spec o _ _ _ _ _ Ea Em) as (_ & _ & ->).
          subst t_s. cbn [t_src t_tgt t_f t_b]. rewrite gn'_p, gF'_p, gB'_p. unfold step_f1, step_b1.
          destruct (inv_F st g I p ltac:(lia)) as (WF & HFr & HFc).
          destruct (inv_B st g I p ltac:(lia)) as (WB & HBr & HBc).
          f_equal.
          * rewrite (dmul_assoc o L) by (autorewrite with ddim; lia). reflexivity.
          * rewrite (dmul_assoc o L) by (autorewrite with ddim; destruct a1_facts as (_ & _ & ?); lia). reflexivity.
        + destruct (trs st (S p)) as [t2|] eqn:Et2; [|congruence].
          destruct Hp2 as (t2' & t2'' & Ea & Em & Ep). rewrite Ep in E. injection E as <-.
          destruct (inv_trs st g I (S p) t2 Et2) as (HS & ->). split; [exact HS|].
          destruct (trans_step_spec o _ _ _ _ _ Ea Em) as (_ & _ & ->).
          subst t_t. cbn [t_src t_tgt t_f t_b]. rewrite gn'_Sp, gF'_Sp, gB'_Sp. unfold step_f2, step_b2.
          destruct (inv_B st g I (S p) ltac:(lia)) as (WB & HBr & HBc).
          assert (Hcc : dc (sc_cainv sc) = r /\ r <= m).
          { destruct (sc_unfold o L u UL a1 m n r vp vq t sc eq_refl eq_refl Htri Hsc)
              as (Hrm & _ & _ & _ & _ & _ & Ec & _). rewrite Ec. split; [reflexivity|exact Hrm]. }
          destruct Hcc as (Hcc & Hrm).
          f_equal.
          * rewrite (dmul_assoc o L) by (autorewrite with ddim; lia). reflexivity.
          * rewrite (dmul_assoc o L) by (autorewrite with ddim; destruct a1_facts as (_ & ? & _); lia). reflexivity.
        + rewrite Ho in E by assumption.
          rewrite gn'_other, gF'_other, gB'_other by assumption. now apply (inv_trs st g I).
    Qed.

    Lemma new_vcs q : q <= M ->
      Forall2 (fun v v0 => length v = gn g' q /\ vmat o v = dmul o (gF g' q) (vmat o v0)) (vs q) (V0 q).
    Proof.
      intros Hq. pose proof pM as HpM. destruct a1_facts as (W1 & Hm & Hn).
      pose proof (perm_length m vp Hvp) as Lvp. pose proof (perm_length n vq Hvq) as Lvq.
      destruct (update_vecs_spec o _ _ _ _ _ _ _ Evs) as (Ho & H1 & H2). rewrite Lvq in H1. rewrite Lvp in H2.
      destruct (Nat.eq_dec q p) as [->|Hqp]; [|destruct (Nat.eq_dec q (S p)) as [->|HqS]].
      - eapply Forall2_compose; [|exact H1|exact (inv_vcs st g I p Hq)].
        intros v w v0 Hvw (Hl & Hv). cbn beta in *.
        assert (HS : length v = n /\ length w = n - r /\ vmat o w = dmul o f1 (vmat o v))
          by (eapply (step_vec_src o L u UL a1 m n r vp vq t sc); stp).
        destruct HS as (_ & Hlw & Hw).
        rewrite gn'_p, gF'_p. split; [exact Hlw|]. rewrite Hw, Hv.
        destruct (inv_F st g I p Hq) as (WF & HFr & HFc).
        rewrite (dmul_assoc o L); [reflexivity|]. unfold step_f1. autorewrite with ddim. lia.
      - eapply Forall2_compose; [|exact H2|exact (inv_vcs st g I (S p) Hq)].
        intros v w v0 Hvw (Hl & Hv). cbn beta in *.
        assert (HS : length v = m /\ length w = m - r /\ vmat o w = dmul o f2 (vmat o v))
          by (eapply (step_vec_tgt o L u UL a1 m n r vp vq t sc); stp).
        destruct HS as (_ & Hlw & Hw).
        rewrite gn'_Sp, gF'_Sp. split; [exact Hlw|]. rewrite Hw, Hv.
        destruct (inv_F st g I (S p) Hq) as (WF & HFr & HFc).
        rewrite (dmul_assoc o L); [reflexivity|]. unfold step_f2. autorewrite with ddim. lia.
      - rewrite Ho by assumption. rewrite gn'_other, gF'_other by assumption. now apply (inv_vcs st g I).
    Qed.

    Theorem step_inv okf' : Inv (mkSt ms ts vs okf') g'.
    Proof.
      constructor; cbn [mats trs vcs].
      - exact new_mats.
      - exact new_none.
      - exact new_cpx.
      - exact new_F.
      - exact new_B.
      - exact new_FB.
      - exact new_Fc.
      - exact new_Bc.
      - exact new_H.
      - exact new_hom.
      - exact new_trs.
      - exact new_vcs.
    Qed.
  End StepInv.
End Invariant.
