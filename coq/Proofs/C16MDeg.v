(* Proofs about MultiDeg (Model/Mono.v): a value is [Reduced] (indices strictly increasing, no zero
   exponent); every constructor and operation returns a reduced value; a reduced value is determined by
   its exponent function [md_at] (so derived Eq/Hash are those of the mathematical multi-degree);
   add is pointwise; cmp_lex / cmp_grlex are total orders compatible with add. *)
From Coq Require Import List Bool Arith NArith ZArith Lia.
Require Import Yui.Model.Mono Yui.Proofs.C16Mono.
Import ListNotations.

Section MDeg.
  Context {I : Type} (e : exp_ops I) (eZ : I -> Z) (EL : exp_laws e eZ).
  Notation mdeg := (@Mono.mdeg I).
  Notation md_at := (md_at e).
  Notation md_add := (md_add e).
  Notation md_reduce := (md_reduce e).

  Fixpoint sorted_from (lo : nat) (l : mdeg) : Prop :=
    match l with [] => True | p :: t => lo <= fst p /\ sorted_from (S (fst p)) t end.
  Definition Reduced (l : mdeg) : Prop := sorted_from 0 l /\ Forall (fun p => snd p <> ezero e) l.

  Lemma sorted_weaken lo lo' l : lo' <= lo -> sorted_from lo l -> sorted_from lo' l.
  Proof. destruct l as [|p t]; cbn; [auto|]. intros H [H1 H2]. split; [lia|assumption]. Qed.

  Lemma get_below lo (l : mdeg) i : sorted_from lo l -> i < lo -> md_get l i = None.
  Proof.
    revert lo. induction l as [|[j d] t IH]; intros lo; cbn; [auto|]. intros [H1 H2] Hi.
    destruct (Nat.eqb_spec j i); [lia|]. apply (IH (S j)); [assumption|lia].
  Qed.
  Lemma at_below lo (l : mdeg) i : sorted_from lo l -> i < lo -> md_at l i = ezero e.
  Proof. intros H Hi. unfold Mono.md_at. now rewrite (get_below lo). Qed.

  Lemma at_nil i : md_at [] i = ezero e.
  Proof. reflexivity. Qed.
  Lemma at_cons j d (b : mdeg) i : md_at ((j, d) :: b) i = if j =? i then d else md_at b i.
  Proof. unfold Mono.md_at. cbn [md_get]. now destruct (j =? i). Qed.

  Lemma get_set (l : mdeg) i d j : md_get (md_set l i d) j = if i =? j then Some d else md_get l j.
  Proof.
    induction l as [|[k c] t IH]; cbn [md_set md_get].
    - reflexivity.
    - destruct (Nat.compare_spec i k) as [->|Hlt|Hgt]; cbn [md_get].
      + destruct (Nat.eqb_spec k j); reflexivity.
      + reflexivity.
      + rewrite IH. destruct (Nat.eqb_spec k j), (Nat.eqb_spec i j); try reflexivity. lia.
  Qed.
  Lemma at_set (l : mdeg) i d j : md_at (md_set l i d) j = if i =? j then d else md_at l j.
  Proof. unfold Mono.md_at. rewrite get_set. now destruct (i =? j). Qed.

  Lemma sorted_set lo (l : mdeg) i d : sorted_from lo l -> lo <= i -> sorted_from lo (md_set l i d).
  Proof.
    revert lo. induction l as [|[k c] t IH]; intros lo; cbn [md_set sorted_from fst].
    - auto.
    - intros [H1 H2] Hi. destruct (Nat.compare_spec i k) as [->|Hlt|Hgt]; cbn [sorted_from fst].
      + auto.
      + repeat split; try lia. apply (sorted_weaken (S k)); [lia|assumption].
      + split; [assumption|]. apply IH; [assumption|lia].
  Qed.

  Lemma sorted_filter (p : nat * I -> bool) lo l : sorted_from lo l -> sorted_from lo (filter p l).
  Proof.
    revert lo. induction l as [|q t IH]; intros lo; cbn [filter sorted_from]; [auto|]. intros [H1 H2].
    destruct (p q); cbn [sorted_from].
    - split; [assumption|now apply IH].
    - apply (sorted_weaken (S (fst q))); [lia|now apply IH].
  Qed.

  Lemma at_reduce lo (l : mdeg) i : sorted_from lo l -> md_at (md_reduce l) i = md_at l i.
  Proof.
    revert lo. induction l as [|[k c] t IH]; intros lo; [reflexivity|]. cbn [sorted_from fst]. intros [H1 H2].
    unfold Mono.md_reduce. cbn [filter snd]. fold (md_reduce t).
    destruct (eis_zero e c) eqn:Z; cbn [negb].
    - apply (eis_zero_iff e eZ EL) in Z. subst c. unfold Mono.md_at at 2. cbn [md_get].
      destruct (Nat.eqb_spec k i) as [->|N].
      + rewrite (IH _ H2). apply (at_below (S i)); [assumption|lia].
      + apply (IH _ H2).
    - unfold Mono.md_at. cbn [md_get]. destruct (k =? i); [reflexivity|]. apply (IH _ H2).
  Qed.

  Lemma reduce_nonzero (l : mdeg) : Forall (fun p => snd p <> ezero e) (md_reduce l).
  Proof.
    apply Forall_forall. intros p Hp. apply filter_In in Hp as [_ Hp].
    destruct (eis_zero e (snd p)) eqn:Z; [discriminate|]. now apply (eis_zero_false e eZ EL).
  Qed.

  Lemma Reduced_reduce (l : mdeg) : sorted_from 0 l -> Reduced (md_reduce l).
  Proof. intros H. split; [now apply sorted_filter|apply reduce_nonzero]. Qed.

  (* a reduced value is determined by its exponent function *)
  Lemma mdeg_ext_from lo (a b : mdeg) : sorted_from lo a -> sorted_from lo b ->
    Forall (fun p => snd p <> ezero e) a -> Forall (fun p => snd p <> ezero e) b ->
    (forall i, md_at a i = md_at b i) -> a = b.
  Proof.
    revert lo b. induction a as [|[j d] a IH]; intros lo [|[k c] b] Sa Sb Na Nb E.
    - reflexivity.
    - exfalso. specialize (E k). unfold Mono.md_at in E. cbn [md_get] in E. rewrite Nat.eqb_refl in E.
      inversion Nb; subst. cbn in *. congruence.
    - exfalso. specialize (E j). unfold Mono.md_at in E. cbn [md_get] in E. rewrite Nat.eqb_refl in E.
      inversion Na; subst. cbn in *. congruence.
    - cbn [sorted_from fst] in Sa, Sb. destruct Sa as [Sa1 Sa2], Sb as [Sb1 Sb2].
      inversion Na as [|? ? Nd Na']; inversion Nb as [|? ? Nc Nb']; subst. cbn [snd] in *.
      assert (j = k).
      { destruct (lt_eq_lt_dec j k) as [[Hlt|Heq]|Hgt]; [|assumption|]; exfalso.
        - pose proof (E j) as Ej. unfold Mono.md_at in Ej. cbn [md_get] in Ej. rewrite Nat.eqb_refl in Ej.
          destruct (Nat.eqb_spec k j); [lia|]. rewrite (get_below (S k) b j) in Ej by (assumption || lia). congruence.
        - pose proof (E k) as Ek. unfold Mono.md_at in Ek. cbn [md_get] in Ek. rewrite Nat.eqb_refl in Ek.
          destruct (Nat.eqb_spec j k); [lia|]. rewrite (get_below (S j) a k) in Ek by (assumption || lia). congruence. }
      subst k. assert (d = c).
      { pose proof (E j) as Ej. unfold Mono.md_at in Ej. cbn [md_get] in Ej. now rewrite Nat.eqb_refl in Ej. }
      subst c. f_equal. apply (IH (S j)); try assumption.
      intros i. specialize (E i). unfold Mono.md_at in *. cbn [md_get] in E.
      destruct (Nat.eqb_spec j i) as [->|N]; [|assumption].
      now rewrite (get_below (S i) a i), (get_below (S i) b i) by (assumption || lia).
  Qed.

  Theorem mdeg_ext (a b : mdeg) : Reduced a -> Reduced b -> (forall i, md_at a i = md_at b i) -> a = b.
  Proof. intros [Sa Na] [Sb Nb]. now apply (mdeg_ext_from 0). Qed.

  (* ---------- constructors ---------- *)
  Lemma sorted_fold_set (F : mdeg -> nat * I -> I) it l :
    sorted_from 0 l -> sorted_from 0 (fold_left (fun acc p => md_set acc (fst p) (F acc p)) it l).
  Proof. revert l. induction it as [|p it IH]; intros l H; cbn [fold_left]; [assumption|]. apply IH. apply sorted_set; [assumption|lia]. Qed.

  Lemma nonzero_set (l : mdeg) i d : Forall (fun p => snd p <> ezero e) l -> d <> ezero e ->
    Forall (fun p => snd p <> ezero e) (md_set l i d).
  Proof.
    intros H Hd. induction l as [|[k c] t IH]; cbn [md_set].
    - constructor; [assumption|constructor].
    - inversion H; subst. destruct (Nat.compare i k); constructor; auto.
  Qed.

  Theorem Reduced_from_iter it : Reduced (md_from_iter e it).
  Proof.
    unfold md_from_iter. split.
    - apply (sorted_fold_set (fun _ p => snd p)). exact Logic.I.
    - pose proof (reduce_nonzero it) as H. fold (md_reduce it). revert H.
      generalize (md_reduce it). intros l Hl.
      assert (G : forall acc, Forall (fun p => snd p <> ezero e) acc ->
                   Forall (fun p => snd p <> ezero e) (fold_left (fun acc p => md_set acc (fst p) (snd p)) l acc)).
      { induction l as [|p l IH]; intros acc Ha; cbn [fold_left]; [assumption|]. inversion Hl; subst.
        apply IH; [assumption|]. now apply nonzero_set. }
      apply G. constructor.
  Qed.

  Lemma Reduced_nil : Reduced [].
  Proof. split; [exact Logic.I|constructor]. Qed.

  (* ---------- add ---------- *)
  Lemma at_fold_add lo b : sorted_from lo b -> forall acc i,
    md_at (fold_left (fun acc p => md_set acc (fst p) (eadd e (md_at acc (fst p)) (snd p))) b acc) i
    = eadd e (md_at acc i) (md_at b i).
  Proof.
    revert lo. induction b as [|[j d] b IH]; intros lo Sb acc i; cbn [fold_left].
    - rewrite at_nil. now rewrite (eadd_0_r e eZ EL).
    - cbn [sorted_from fst] in Sb. destruct Sb as [Sb1 Sb2]. rewrite (IH _ Sb2). cbn [fst snd].
      rewrite at_set, at_cons.
      destruct (Nat.eqb_spec j i) as [->|N]; [|reflexivity].
      rewrite (at_below (S i) b i) by (assumption || lia). now rewrite (eadd_0_r e eZ EL).
  Qed.

  Theorem at_add a b i : Reduced a -> Reduced b -> md_at (md_add a b) i = eadd e (md_at a i) (md_at b i).
  Proof.
    intros [Sa _] [Sb _]. unfold Mono.md_add.
    rewrite (at_reduce 0) by (apply (sorted_fold_set (fun acc p => eadd e (md_at acc (fst p)) (snd p))); assumption).
    now apply (at_fold_add 0).
  Qed.

  Theorem Reduced_add a b : Reduced a -> Reduced (md_add a b).
  Proof.
    intros [Sa _]. apply Reduced_reduce.
    now apply (sorted_fold_set (fun acc p => eadd e (md_at acc (fst p)) (snd p))).
  Qed.

  Theorem md_add_comm a b : Reduced a -> Reduced b -> md_add a b = md_add b a.
  Proof.
    intros Ha Hb. apply mdeg_ext; try now apply Reduced_add. intros i.
    rewrite !at_add by assumption. apply (eadd_comm e eZ EL).
  Qed.
  Theorem md_add_assoc a b c : Reduced a -> Reduced b -> Reduced c -> md_add a (md_add b c) = md_add (md_add a b) c.
  Proof.
    intros Ha Hb Hc. apply mdeg_ext; try (apply Reduced_add; try assumption; now apply Reduced_add). intros i.
    rewrite !at_add by (try assumption; now apply Reduced_add). apply (eadd_assoc e eZ EL).
  Qed.
  Theorem md_add_0_l a : Reduced a -> md_add [] a = a.
  Proof.
    intros Ha. apply mdeg_ext; [apply Reduced_add, Reduced_nil|assumption|]. intros i.
    rewrite at_add by (assumption || apply Reduced_nil). rewrite at_nil. apply (eadd_0_l e eZ EL).
  Qed.

  (* ---------- sub ---------- *)
  Lemma fold_sub_spec lo b : sorted_from lo b -> forall acc r, sorted_from 0 acc ->
    fold_left (fun acc p => obind acc (fun l =>
                 obind (esub e (md_at l (fst p)) (snd p)) (fun v => Some (md_set l (fst p) v)))) b (Some acc) = Some r ->
    sorted_from 0 r /\ forall i, eZ (md_at r i) = (eZ (md_at acc i) - eZ (md_at b i))%Z.
  Proof.
    revert lo. induction b as [|[j d] b IH]; intros lo Sb acc r Sacc; cbn [fold_left].
    - intros [= <-]. split; [assumption|]. intros i. rewrite at_nil, (eZ_0 e eZ EL). lia.
    - cbn [sorted_from fst] in Sb. destruct Sb as [Sb1 Sb2]. cbn [obind fst snd].
      destruct (esub e (md_at acc j) d) as [v|] eqn:Ev; cbn [obind].
      + intros H. apply (IH _ Sb2) in H; [|apply sorted_set; [assumption|lia]]. destruct H as [Sr Hr].
        split; [assumption|]. intros i. rewrite Hr, at_set, at_cons.
        destruct (Nat.eqb_spec j i) as [->|N]; [|reflexivity].
        rewrite (at_below (S i) b i) by (assumption || lia). rewrite (eZ_0 e eZ EL).
        apply (esub_some e eZ EL) in Ev. lia.
      + intros H. exfalso. clear -H. induction b as [|q b IHb]; cbn in H; [discriminate|]. auto.
  Qed.

  Theorem md_sub_sound a b c : Reduced a -> Reduced b -> md_sub e a b = Some c -> Reduced c /\ md_add c b = a.
  Proof.
    intros Ha Hb. unfold md_sub.
    match goal with |- context [fold_left ?f b (Some a)] => destruct (fold_left f b (Some a)) as [r|] eqn:F end;
      cbn [obind]; [|intros; discriminate]. intros [= <-].
    destruct Hb as [Sb Nb]. apply (fold_sub_spec 0 b Sb a r (proj1 Ha)) in F as [Sr Hr].
    assert (Rc : Reduced (md_reduce r)) by now apply Reduced_reduce.
    split; [assumption|]. apply mdeg_ext; [now apply Reduced_add|assumption|]. intros i.
    rewrite at_add by (assumption || now split). rewrite (at_reduce 0) by assumption.
    apply (eZ_inj e eZ EL). rewrite (eZ_add e eZ EL), Hr. lia.
  Qed.

  (* ---------- total ---------- *)
  Fixpoint tsumZ (l : mdeg) : Z := match l with [] => 0%Z | p :: t => (eZ (snd p) + tsumZ t)%Z end.
  Lemma total_fold l acc : eZ (fold_left (fun res p => eadd e res (snd p)) l acc) = (eZ acc + tsumZ l)%Z.
  Proof.
    revert acc. induction l as [|p l IH]; intros acc; cbn [fold_left tsumZ]; [lia|].
    rewrite IH, (eZ_add e eZ EL). lia.
  Qed.
  Lemma total_tsum l : eZ (md_total e l) = tsumZ l.
  Proof. unfold md_total. rewrite total_fold, (eZ_0 e eZ EL). lia. Qed.

  Lemma tsum_set lo (l : mdeg) i d : sorted_from lo l -> (tsumZ (md_set l i d) + eZ (md_at l i) = tsumZ l + eZ d)%Z.
  Proof.
    revert lo. induction l as [|[k c] t IH]; intros lo; cbn [md_set sorted_from fst].
    - intros _. unfold Mono.md_at. cbn [md_get tsumZ snd]. rewrite (eZ_0 e eZ EL). lia.
    - intros [H1 H2]. unfold Mono.md_at. cbn [md_get].
      destruct (Nat.compare_spec i k) as [->|Hlt|Hgt]; cbn [tsumZ snd].
      + rewrite Nat.eqb_refl. lia.
      + destruct (Nat.eqb_spec k i); [lia|]. rewrite (get_below (S k) t i) by (assumption || lia). rewrite (eZ_0 e eZ EL). lia.
      + destruct (Nat.eqb_spec k i); [lia|]. specialize (IH _ H2). unfold Mono.md_at in IH. lia.
  Qed.

  Lemma tsum_reduce l : tsumZ (md_reduce l) = tsumZ l.
  Proof.
    induction l as [|[k c] t IH]; [reflexivity|]. unfold Mono.md_reduce. cbn [filter snd]. fold (md_reduce t).
    destruct (eis_zero e c) eqn:Z; cbn [negb tsumZ snd]; rewrite IH; [|reflexivity].
    apply (eis_zero_iff e eZ EL) in Z. subst c. rewrite (eZ_0 e eZ EL). lia.
  Qed.

  Lemma tsum_fold_add b : forall acc, sorted_from 0 acc ->
    tsumZ (fold_left (fun acc p => md_set acc (fst p) (eadd e (md_at acc (fst p)) (snd p))) b acc) = (tsumZ acc + tsumZ b)%Z.
  Proof.
    induction b as [|[j d] b IH]; intros acc Sacc; cbn [fold_left tsumZ fst snd]; [lia|].
    rewrite IH by (apply sorted_set; [assumption|lia]).
    pose proof (tsum_set 0 acc j (eadd e (md_at acc j) d) Sacc) as H. rewrite (eZ_add e eZ EL) in H. lia.
  Qed.

  Theorem total_add a b : Reduced a -> md_total e (md_add a b) = eadd e (md_total e a) (md_total e b).
  Proof.
    intros [Sa _]. apply (eZ_inj e eZ EL). rewrite (eZ_add e eZ EL), !total_tsum. unfold Mono.md_add.
    rewrite tsum_reduce. now apply tsum_fold_add.
  Qed.

  (* ---------- cmp_lex ---------- *)
  (* reference: compare the exponent functions at 0, 1, ..., n-1; the first difference decides *)
  Fixpoint lexn (n : nat) (f g : nat -> Z) : comparison :=
    match n with 0 => Eq | S k => then_with (lexn k f g) (Z.compare (f k) (g k)) end.

  Lemma lexn_eq n f g : lexn n f g = Eq <-> forall i, i < n -> f i = g i.
  Proof.
    induction n as [|n IH]; cbn [lexn].
    - split; [intros _ i Hi; lia|reflexivity].
    - rewrite then_with_Eq, IH, Z.compare_eq_iff. split.
      + intros [H1 H2] i Hi. destruct (Nat.eq_dec i n) as [->|N]; [assumption|]. apply H1. lia.
      + intros H. split; [intros i Hi; apply H; lia|apply H; lia].
  Qed.
  Lemma lexn_antisym n f g : lexn n g f = CompOpp (lexn n f g).
  Proof. induction n as [|n IH]; cbn [lexn]; [reflexivity|]. now rewrite then_with_opp, IH, Z.compare_antisym. Qed.
  Lemma lexn_ext n f g f' g' : (forall i, i < n -> f i = f' i) -> (forall i, i < n -> g i = g' i) -> lexn n f g = lexn n f' g'.
  Proof.
    induction n as [|n IH]; intros Hf Hg; cbn [lexn]; [reflexivity|].
    rewrite IH by (intros; (apply Hf || apply Hg); lia). now rewrite Hf, Hg by lia.
  Qed.
  Lemma lexn_trans n f g h : lexn n f g = Lt -> lexn n g h = Lt -> lexn n f h = Lt.
  Proof.
    induction n as [|n IH]; cbn [lexn]; [discriminate|]. rewrite !then_with_Lt.
    intros [H1|[H1 H1']] [H2|[H2 H2']].
    - left. now apply IH.
    - left. rewrite lexn_eq in H2. rewrite <- H1. symmetry. apply lexn_ext; [reflexivity|]. intros; now apply H2.
    - left. rewrite lexn_eq in H1. rewrite <- H2. apply lexn_ext; [|reflexivity]. intros; now apply H1.
    - right. rewrite lexn_eq in *. split; [intros i Hi; rewrite H1, H2 by assumption; reflexivity|].
      rewrite Z.compare_lt_iff in *. lia.
  Qed.
  Lemma lexn_add n f g h : lexn n (fun i => (f i + h i)%Z) (fun i => (g i + h i)%Z) = lexn n f g.
  Proof. induction n as [|n IH]; cbn [lexn]; [reflexivity|]. now rewrite IH, Zadd_compare_mono_r. Qed.
  Lemma lexn_more n k f g : (forall i, n <= i -> f i = g i) -> lexn (n + k) f g = lexn n f g.
  Proof.
    intros H. induction k as [|k IH]; [now rewrite Nat.add_0_r|].
    rewrite Nat.add_succ_r. cbn [lexn]. rewrite IH, (H (n + k)) by lia. rewrite Z.compare_refl. apply then_with_Eq_r.
  Qed.

  Definition stepc (a b : mdeg) (res : comparison) (i : nat) : comparison :=
    then_with res (ecmp e (md_at a i) (md_at b i)).
  Definition fz (a : mdeg) (i : nat) : Z := eZ (md_at a i).

  Lemma fold_stepc_same a b l c : (forall i, In i l -> md_at a i = md_at b i) -> fold_left (stepc a b) l c = c.
  Proof.
    revert c. induction l as [|i l IH]; intros c H; cbn [fold_left]; [reflexivity|].
    rewrite IH by (intros; apply H; now right). unfold stepc. rewrite (H i) by now left.
    rewrite (ecmp_Z e eZ EL), Z.compare_refl. apply then_with_Eq_r.
  Qed.
  Lemma fold_stepc_lexn a b n : fold_left (stepc a b) (seq 0 n) Eq = lexn n (fz a) (fz b).
  Proof.
    induction n as [|n IH]; [reflexivity|]. rewrite seq_S, fold_left_app, IH. cbn [fold_left Nat.add lexn].
    unfold stepc, fz. now rewrite (ecmp_Z e eZ EL).
  Qed.

  Lemma fold_min_le t m0 : fold_left (fun m (q : nat * I) => Nat.min m (fst q)) t m0 <= m0 /\
                           forall q, In q t -> fold_left (fun m (q : nat * I) => Nat.min m (fst q)) t m0 <= fst q.
  Proof.
    revert m0. induction t as [|p t IH]; intros m0; cbn [fold_left]; [split; [lia|intros q []]|].
    destruct (IH (Nat.min m0 (fst p))) as [H1 H2]. split; [lia|]. intros q [<-|Hq]; [lia|now apply H2].
  Qed.
  Lemma fold_max_ge t m0 : m0 <= fold_left (fun m (q : nat * I) => Nat.max m (fst q)) t m0 /\
                           forall q, In q t -> fst q <= fold_left (fun m (q : nat * I) => Nat.max m (fst q)) t m0.
  Proof.
    revert m0. induction t as [|p t IH]; intros m0; cbn [fold_left]; [split; [lia|intros q []]|].
    destruct (IH (Nat.max m0 (fst p))) as [H1 H2]. split; [lia|]. intros q [<-|Hq]; [lia|now apply H2].
  Qed.
  Lemma key_bounds (a : mdeg) q : In q a -> odefault 0 (md_min_index a) <= fst q <= odefault 0 (md_max_index a).
  Proof.
    destruct a as [|p t]; [intros []|]. cbn [md_min_index md_max_index odefault].
    destruct (fold_min_le t (fst p)) as [H1 H2], (fold_max_ge t (fst p)) as [H3 H4].
    intros [<-|Hq]; [lia|]. split; [now apply H2|now apply H4].
  Qed.
  Lemma get_notkey (a : mdeg) i : (forall q, In q a -> fst q <> i) -> md_get a i = None.
  Proof.
    induction a as [|[k c] t IH]; intros H; cbn [md_get]; [reflexivity|].
    destruct (Nat.eqb_spec k i) as [->|N]; [exfalso; apply (H (i, c)); [now left|reflexivity]|].
    apply IH. intros q Hq. apply H. now right.
  Qed.
  Lemma at_outside (a : mdeg) i : i < odefault 0 (md_min_index a) \/ odefault 0 (md_max_index a) < i -> md_at a i = ezero e.
  Proof.
    intros H. unfold Mono.md_at. rewrite get_notkey; [reflexivity|]. intros q Hq. apply key_bounds in Hq. lia.
  Qed.

  Definition mbound (a : mdeg) : nat := S (odefault 0 (md_max_index a)).

  Theorem cmp_lex_lexn a b n : mbound a <= n -> mbound b <= n -> md_cmp_lex e a b = lexn n (fz a) (fz b).
  Proof.
    unfold mbound. intros Ha Hb. unfold md_cmp_lex.
    set (i0 := Nat.min (odefault 0 (md_min_index a)) (odefault 0 (md_min_index b))).
    set (i1 := Nat.max (odefault 0 (md_max_index a)) (odefault 0 (md_max_index b))).
    fold (stepc a b).
    assert (Hi : i0 <= S i1).
    { destruct a as [|p t]; [cbn in i0; lia|]. subst i0 i1. cbn [md_min_index md_max_index odefault].
      destruct (fold_min_le t (fst p)), (fold_max_ge t (fst p)). lia. }
    rewrite <- fold_stepc_lexn.
    replace n with (i0 + ((S i1 - i0) + (n - S i1))) by lia.
    rewrite !seq_app, !fold_left_app. cbn [Nat.add].
    rewrite (fold_stepc_same a b (seq 0 i0)).
    2:{ intros i Hin. apply in_seq in Hin. rewrite !at_outside; [reflexivity| |]; left; lia. }
    rewrite (fold_stepc_same a b (seq (i0 + (S i1 - i0)) _)); [reflexivity|].
    intros i Hin. apply in_seq in Hin. rewrite !at_outside; [reflexivity| |]; right; lia.
  Qed.

  Lemma fz_beyond a i : mbound a <= i -> fz a i = 0%Z.
  Proof. intros H. unfold fz. rewrite at_outside by (right; unfold mbound in H; lia). apply (eZ_0 e eZ EL). Qed.

  Theorem md_lex_ord : ord_laws Reduced (md_cmp_lex e).
  Proof.
    split; [|split].
    - intros a b Ra Rb. set (n := Nat.max (mbound a) (mbound b)).
      rewrite (cmp_lex_lexn a b n) by lia. rewrite lexn_eq. split.
      + intros H. apply mdeg_ext; try assumption. intros i. apply (eZ_inj e eZ EL).
        destruct (Nat.lt_ge_cases i n) as [Hi|Hi]; [now apply H|].
        change (fz a i = fz b i). rewrite !fz_beyond by lia. reflexivity.
      + intros <- i _. reflexivity.
    - intros a b _ _. set (n := Nat.max (mbound a) (mbound b)).
      rewrite (cmp_lex_lexn a b n), (cmp_lex_lexn b a n) by lia. apply lexn_antisym.
    - intros a b c _ _ _. set (n := Nat.max (mbound a) (Nat.max (mbound b) (mbound c))).
      rewrite (cmp_lex_lexn a b n), (cmp_lex_lexn b c n), (cmp_lex_lexn a c n) by lia. apply lexn_trans.
  Qed.

  Theorem md_lex_add a b c : Reduced a -> Reduced b -> Reduced c ->
    md_cmp_lex e (md_add a c) (md_add b c) = md_cmp_lex e a b.
  Proof.
    intros Ra Rb Rc.
    set (n := Nat.max (Nat.max (mbound a) (mbound b)) (Nat.max (mbound (md_add a c)) (mbound (md_add b c)))).
    rewrite (cmp_lex_lexn a b n), (cmp_lex_lexn (md_add a c) (md_add b c) n) by lia.
    rewrite <- (lexn_add n (fz a) (fz b) (fz c)). apply lexn_ext; intros i _; unfold fz;
      rewrite at_add by assumption; apply (eZ_add e eZ EL).
  Qed.

  Theorem md_grlex_ord : ord_laws Reduced (md_cmp_grlex e).
  Proof.
    apply (ord_graded Reduced (fun _ => True) (md_total e) _ _ (ecmp_ord e eZ EL) md_lex_ord). auto.
  Qed.

  Theorem md_grlex_add a b c : Reduced a -> Reduced b -> Reduced c ->
    md_cmp_grlex e (md_add a c) (md_add b c) = md_cmp_grlex e a b.
  Proof.
    intros Ra Rb Rc. unfold md_cmp_grlex. rewrite md_lex_add by assumption.
    rewrite !total_add by assumption. now rewrite (ecmp_add e eZ EL).
  Qed.

  (* ---------- derived Eq of the map ---------- *)
  Lemma md_eqb_eq (a b : mdeg) : md_eqb e a b = true <-> a = b.
  Proof.
    revert b. induction a as [|[i d] a IH]; intros [|[j c] b]; cbn [md_eqb]; try (split; [discriminate|intros [=]]).
    - split; reflexivity.
    - rewrite !andb_true_iff, Nat.eqb_eq, (eeqb_eq e eZ EL), IH. split; [intros [[-> ->] ->]; reflexivity|intros [= -> -> ->]; auto].
  Qed.

  Theorem mvar_laws : mono_laws (mvar_mono e) Reduced.
  Proof.
    constructor; cbn.
    - apply md_eqb_eq.
    - apply Reduced_nil.
    - intros x y Hx _. now apply Reduced_add.
    - apply md_add_comm.
    - apply md_add_assoc.
    - apply md_add_0_l.
    - intros x y z. apply md_sub_sound.
    - apply md_lex_ord.
    - apply md_grlex_ord.
    - apply md_lex_add.
    - apply md_grlex_add.
  Qed.

  (* neg (signed exponents) *)
  Theorem Reduced_neg a : esigned e = true -> Reduced a -> Reduced (md_neg e a) /\ md_add a (md_neg e a) = [].
  Proof.
    intros Sg [Sa Na].
    assert (Sn : forall lo l, sorted_from lo l -> sorted_from lo (md_neg e l)).
    { intros lo l. revert lo. induction l as [|p t IH]; intros lo; cbn; [auto|]. intros [H1 H2]. split; [assumption|now apply IH]. }
    assert (An : forall lo l i, sorted_from lo l -> eZ (md_at (md_neg e l) i) = (- eZ (md_at l i))%Z).
    { intros lo l i. revert lo. induction l as [|[k c] t IH]; intros lo; unfold Mono.md_at; cbn [md_neg map md_get fst snd].
      - intros _. rewrite (eZ_0 e eZ EL). lia.
      - intros [H1 H2]. destruct (k =? i); [now apply (eneg_Z e eZ EL)|]. apply (IH _ H2). }
    assert (Rn : Reduced (md_neg e a)).
    { split; [now apply Sn|]. unfold md_neg. apply Forall_forall. intros q Hq. apply in_map_iff in Hq as [p [<- Hp]].
      cbn [snd]. rewrite Forall_forall in Na. specialize (Na _ Hp). intros E. apply Na. apply (eZ_inj e eZ EL).
      apply (f_equal eZ) in E. rewrite (eneg_Z e eZ EL Sg), (eZ_0 e eZ EL) in *. lia. }
    split; [assumption|]. apply mdeg_ext; [now apply Reduced_add|apply Reduced_nil|]. intros i.
    rewrite at_add by (assumption || now split). apply (eZ_inj e eZ EL). rewrite (eZ_add e eZ EL), (An 0) by assumption.
    rewrite at_nil, (eZ_0 e eZ EL). lia.
  Qed.
End MDeg.
