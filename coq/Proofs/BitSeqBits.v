(* Bit-level toolkit for the BitSeq proofs: testbit characterisations of the u64 primitives and
   nth-characterisations of the list operations. *)
From Coq Require Import NArith List Bool Arith Lia ZifyBool ZifyNat ZifyN.
Require Import Yui.Model.BitSeq.
Import ListNotations.

Definition tb (v : N) (i : nat) : bool := N.testbit v (N.of_nat i).

Lemma tb_ext a b : (forall i, tb a i = tb b i) -> a = b.
Proof.
  intros H. apply N.bits_inj. intros n. specialize (H (N.to_nat n)). unfold tb in H.
  rewrite N2Nat.id in H. exact H.
Qed.

Lemma tb_0 i : tb 0 i = false.
Proof. unfold tb. apply N.bits_0. Qed.

Lemma tb_land a b i : tb (N.land a b) i = tb a i && tb b i.
Proof. apply N.land_spec. Qed.
Lemma tb_lor a b i : tb (N.lor a b) i = tb a i || tb b i.
Proof. apply N.lor_spec. Qed.
Lemma tb_ldiff a b i : tb (N.ldiff a b) i = tb a i && negb (tb b i).
Proof. apply N.ldiff_spec. Qed.

Lemma tb_shiftl v k i : tb (N.shiftl v (N.of_nat k)) i = if i <? k then false else tb v (i - k).
Proof.
  unfold tb. destruct (Nat.ltb_spec i k) as [H|H].
  - apply N.shiftl_spec_low. lia.
  - rewrite N.shiftl_spec_high by lia. f_equal. lia.
Qed.

Lemma tb_shiftr v k i : tb (N.shiftr v (N.of_nat k)) i = tb v (i + k).
Proof. unfold tb. rewrite N.shiftr_spec by lia. f_equal. lia. Qed.

Lemma tb_ones n i : tb (N.ones (N.of_nat n)) i = (i <? n).
Proof.
  unfold tb. destruct (Nat.ltb_spec i n) as [H|H].
  - apply N.ones_spec_low. lia.
  - apply N.ones_spec_high. lia.
Qed.

Lemma tb_u64max i : tb u64max i = (i <? 64).
Proof. unfold u64max. change 64%N with (N.of_nat 64). apply tb_ones. Qed.

Lemma tb_1 i : tb 1 i = (i =? 0).
Proof.
  unfold tb. destruct i as [|i]; [reflexivity|].
  change 1%N with (N.ones 1). rewrite N.ones_spec_high by lia. reflexivity.
Qed.

Lemma tb_lnot64 v i : tb (lnot64 v) i = (i <? 64) && negb (tb v i).
Proof. unfold lnot64. rewrite tb_ldiff, tb_u64max. reflexivity. Qed.

Lemma small_tb v n : (v < 2 ^ N.of_nat n)%N <-> (forall i, n <= i -> tb v i = false).
Proof.
  split.
  - intros H i Hi. unfold tb. rewrite <- (N.mod_small v (2 ^ N.of_nat n)) by exact H.
    apply N.mod_pow2_bits_high. lia.
  - intros H. assert (E : (v mod 2 ^ N.of_nat n = v)%N).
    { apply N.bits_inj. intros m.
      destruct (N.lt_ge_cases m (N.of_nat n)) as [Hm|Hm].
      - apply N.mod_pow2_bits_low. exact Hm.
      - rewrite N.mod_pow2_bits_high by exact Hm. symmetry.
        specialize (H (N.to_nat m)). unfold tb in H. rewrite N2Nat.id in H. apply H. lia. }
    rewrite <- E. apply N.mod_upper_bound. apply N.pow_nonzero. lia.
Qed.

Lemma small_mono v n m : n <= m -> (v < 2 ^ N.of_nat n)%N -> (v < 2 ^ N.of_nat m)%N.
Proof. intros H Hv. rewrite small_tb in *. intros i Hi. apply Hv. lia. Qed.

(* ---- the u64 primitives ---- *)
Lemma shl_some x k : k < 64 -> shl x k = Some (N.land (N.shiftl x (N.of_nat k)) u64max).
Proof. intros H. unfold shl. destruct (Nat.ltb_spec k 64); [reflexivity|lia]. Qed.
Lemma shl_none x k : 64 <= k -> shl x k = None.
Proof. intros H. unfold shl. destruct (Nat.ltb_spec k 64); [lia|reflexivity]. Qed.
Lemma shr_some x k : k < 64 -> shr x k = Some (N.shiftr x (N.of_nat k)).
Proof. intros H. unfold shr. destruct (Nat.ltb_spec k 64); [reflexivity|lia]. Qed.

Lemma one_shl k : k < 64 -> N.land (N.shiftl 1 (N.of_nat k)) u64max = N.shiftl 1 (N.of_nat k).
Proof.
  intros H. apply tb_ext. intros i. rewrite tb_land, tb_u64max, tb_shiftl, tb_1.
  destruct (Nat.ltb_spec i k); [reflexivity|].
  destruct (Nat.eqb_spec (i - k) 0); [|reflexivity].
  destruct (Nat.ltb_spec i 64); [reflexivity|lia].
Qed.

Lemma tb_one_shl k i : tb (N.shiftl 1 (N.of_nat k)) i = (i =? k).
Proof.
  rewrite tb_shiftl, tb_1.
  destruct (Nat.ltb_spec i k), (Nat.eqb_spec i k), (Nat.eqb_spec (i - k) 0); try reflexivity; lia.
Qed.

Lemma one_shl_pred k : (N.shiftl 1 (N.of_nat k) - 1)%N = N.ones (N.of_nat k).
Proof. unfold N.ones. rewrite N.pred_sub. reflexivity. Qed.

Lemma mask_some l : l <= 64 -> mask l = Some (N.ones (N.of_nat l)).
Proof.
  intros H. unfold mask, MAX_LEN. destruct (Nat.leb_spec l 64); [|lia].
  destruct (Nat.eqb_spec l 64) as [->|Hne]; [reflexivity|].
  rewrite shl_some by lia. cbn [obind]. rewrite one_shl by lia. rewrite one_shl_pred. reflexivity.
Qed.
Lemma mask_none l : 64 < l -> mask l = None.
Proof. intros H. unfold mask, MAX_LEN. destruct (Nat.leb_spec l 64); [lia|reflexivity]. Qed.

Lemma le_ones v n : (v <= N.ones (N.of_nat n))%N <-> (v < 2 ^ N.of_nat n)%N.
Proof.
  rewrite N.ones_equiv. assert (H : (2 ^ N.of_nat n <> 0)%N) by (apply N.pow_nonzero; lia).
  generalize dependent (2 ^ N.of_nat n)%N. intros p Hp. lia.
Qed.

(* ---- lists ---- *)
Lemma bits_length v n : length (bits v n) = n.
Proof. revert v. induction n as [|n IH]; intros v; cbn [bits length]; [reflexivity|]. now rewrite IH. Qed.

Lemma nth_bits v n i : i < n -> nth i (bits v n) false = tb v i.
Proof.
  revert v i. induction n as [|n IH]; intros v i H; [lia|].
  cbn [bits]. destruct i as [|i]; cbn [nth].
  - unfold tb. cbn. symmetry. apply N.bit0_odd.
  - rewrite IH by lia. unfold tb. rewrite N.div2_spec, N.shiftr_spec by lia. f_equal. lia.
Qed.

Lemma nth_bits_all v n i : nth i (bits v n) false = (i <? n) && tb v i.
Proof.
  destruct (Nat.ltb_spec i n) as [H|H]; [now rewrite nth_bits|].
  rewrite nth_overflow by (rewrite bits_length; lia). reflexivity.
Qed.

Lemma list_ext (l l' : list bool) :
  length l = length l' -> (forall i, i < length l -> nth i l false = nth i l' false) -> l = l'.
Proof. intros H1 H2. apply (nth_ext l l' false false H1 H2). Qed.

Lemma bits_ext l v n :
  length l = n -> (forall i, i < n -> nth i l false = tb v i) -> bits v n = l.
Proof.
  intros H1 H2. apply list_ext; [rewrite bits_length; lia|].
  intros i Hi. rewrite bits_length in Hi. rewrite nth_bits by lia. symmetry. apply H2. lia.
Qed.

Lemma nth_firstn_lt {A} (l : list A) n i d : i < n -> nth i (firstn n l) d = nth i l d.
Proof.
  revert n i. induction l as [|x l IH]; intros n i H.
  - rewrite firstn_nil. reflexivity.
  - destruct n as [|n]; [lia|]. cbn [firstn]. destruct i as [|i]; cbn [nth]; [reflexivity|].
    apply IH. lia.
Qed.

Lemma nth_skipn_add {A} (l : list A) n i d : nth i (skipn n l) d = nth (n + i) l d.
Proof.
  revert l. induction n as [|n IH]; intros l; [reflexivity|].
  destruct l as [|x l]; cbn [skipn Nat.add nth]; [now destruct i|]. apply IH.
Qed.

Lemma nth_app {A} (l l' : list A) i d :
  nth i (l ++ l') d = if i <? length l then nth i l d else nth (i - length l) l' d.
Proof.
  destruct (Nat.ltb_spec i (length l)); [apply app_nth1; lia|apply app_nth2; lia].
Qed.

Lemma nth_cons {A} (x : A) l i d : nth i (x :: l) d = if i =? 0 then x else nth (i - 1) l d.
Proof. destruct i as [|i]; cbn [nth Nat.eqb]; [reflexivity|]. f_equal. lia. Qed.

Lemma nth_repeat_all {A} (x d : A) n i : nth i (repeat x n) d = if i <? n then x else d.
Proof.
  revert i. induction n as [|n IH]; intros i; cbn [repeat]; [now destruct i|].
  destruct i as [|i]; cbn [nth]; [reflexivity|]. rewrite IH. reflexivity.
Qed.

Lemma firstn_length_min {A} (l : list A) n : length (firstn n l) = Nat.min n (length l).
Proof. apply firstn_length. Qed.

Lemma of_bits_tb l i : tb (of_bits l) i = nth i l false.
Proof.
  revert i. induction l as [|b l IH]; intros i; cbn [of_bits].
  - rewrite tb_0. now destruct i.
  - unfold tb. destruct i as [|i]; cbn [nth].
    + change (N.of_nat 0) with 0%N. rewrite N.add_comm.
      destruct b; [apply N.testbit_odd_0 | rewrite N.add_0_r; apply N.testbit_even_0].
    + replace (N.of_nat (S i)) with (N.succ (N.of_nat i)) by lia. rewrite N.add_comm.
      destruct b.
      * rewrite N.testbit_odd_succ by lia. apply IH.
      * rewrite N.add_0_r. rewrite N.testbit_even_succ by lia. apply IH.
Qed.

Lemma of_bits_bits v n : (v < 2 ^ N.of_nat n)%N -> of_bits (bits v n) = v.
Proof.
  intros H. apply tb_ext. intros i. rewrite of_bits_tb, nth_bits_all.
  destruct (Nat.ltb_spec i n); [reflexivity|]. symmetry. apply small_tb with (n := n); [exact H|lia].
Qed.

Lemma bits_of_bits l : bits (of_bits l) (length l) = l.
Proof. apply bits_ext; [reflexivity|]. intros i _. now rewrite of_bits_tb. Qed.

Lemma of_bits_small l : (of_bits l < 2 ^ N.of_nat (length l))%N.
Proof. apply small_tb. intros i Hi. rewrite of_bits_tb. apply nth_overflow. lia. Qed.

Lemma tb_reverse_bits v i : tb (reverse_bits v) i = (i <? 64) && tb v (63 - i).
Proof.
  unfold reverse_bits. rewrite of_bits_tb.
  destruct (Nat.ltb_spec i 64) as [H|H].
  - rewrite rev_nth by (rewrite bits_length; lia). rewrite bits_length.
    rewrite nth_bits by lia. cbn [andb]. f_equal; lia.
  - apply nth_overflow. rewrite rev_length, bits_length. lia.
Qed.
