(* The triangular inversion of Model/Reducer.v returns a two-sided inverse. *)
From Coq Require Import Arith List Lia Bool Ring.
Require Import Yui.Base.Ring Yui.Base.MatF Yui.Base.MatL Yui.Model.Reducer Yui.Proofs.C08Mat.
Import ListNotations.

Section Tri.
  Context {R : Type} (o : ring_ops R) (L : ring_laws o) (u : unit_ops R) (UL : unit_laws o u).
  Add Ring Rring4 : (ring_theory_of_laws o L).
  Local Notation dmat := (dmat R).
  Local Notation r0 := (rzero o).
  Local Notation r1 := (rone o).
  Local Notation dwf := (@dwf R).

  Definition lower_tri (a : dmat) (r : nat) : Prop := forall i j, i < j -> j < r -> dget o a i j = r0.
  Definition upper_tri (a : dmat) (r : nat) : Prop := forall i j, j < i -> i < r -> dget o a i j = r0.
  Definition tri_ok (t : ttype) (a : dmat) (r : nat) : Prop :=
    match t with Lower => lower_tri a r | Upper => upper_tri a r end.
  Definition unit_diag (a : dmat) (r : nat) : Prop := forall i, i < r -> ris_unit u (dget o a i i) = true.

  Lemma tri_okb_ok t a r : tri_okb o t a r = true -> tri_ok t a r.
  Proof.
    unfold tri_okb. rewrite forallb_forall. intros H. destruct t; intros i j Hij Hr.
    - specialize (H i). rewrite in_seq in H. specialize (H ltac:(lia)). rewrite forallb_forall in H.
      specialize (H j). rewrite in_seq in H. specialize (H ltac:(lia)).
      destruct (Nat.ltb_spec j i); [|lia]. now apply (reqb_eq o L) in H.
    - specialize (H i). rewrite in_seq in H. specialize (H ltac:(lia)). rewrite forallb_forall in H.
      specialize (H j). rewrite in_seq in H. specialize (H ltac:(lia)).
      destruct (Nat.ltb_spec i j); [|lia]. now apply (reqb_eq o L) in H.
  Qed.

  Lemma tri_ok_okb t a r : tri_ok t a r -> tri_okb o t a r = true.
  Proof.
    intros H. unfold tri_okb. apply forallb_forall. intros i Hi. apply forallb_forall. intros j Hj.
    rewrite in_seq in Hi, Hj. destruct t.
    - destruct (Nat.ltb_spec j i); [|reflexivity]. apply (reqb_eq o L). apply H; lia.
    - destruct (Nat.ltb_spec i j); [|reflexivity]. apply (reqb_eq o L). apply H; lia.
  Qed.

  Lemma lget_app_l (X Y : lmat R) k j : k < length X -> lget o (X ++ Y) k j = lget o X k j.
  Proof. intros H. unfold lget. now rewrite app_nth1. Qed.

  Lemma lget_app_last (X : lmat R) row j : lget o (X ++ [row]) (length X) j = nth j row r0.
  Proof. unfold lget. rewrite app_nth2 by lia. now rewrite Nat.sub_diag. Qed.

  Definition delta (i j : nat) : R := if i =? j then r1 else r0.

  Lemma inv_rows_spec a r i X :
    lower_tri a r -> i <= r -> inv_rows o u a r i = Some X ->
    length X = i /\ Forall (fun row => length row = r) X /\
    (forall k j, k < i -> j < r -> sum o i (fun l => rmul o (dget o a k l) (lget o X l j)) = delta k j) /\
    (forall k j, k < i -> k < j -> j < r -> lget o X k j = r0) /\
    (forall k, k < i -> rmul o (dget o a k k) (lget o X k k) = r1).
  Proof.
    intros Hlow. revert X. induction i as [|i IH]; intros X Hi E; cbn [inv_rows] in E.
    - injection E as <-. repeat split; try (intros; lia). constructor.
    - destruct (inv_rows o u a r i) as [X0|] eqn:E0; [|discriminate]. cbn [obind] in E.
      destruct (rinv u (dget o a i i)) as [di|] eqn:Ed; [|discriminate]. cbn [obind] in E.
      injection E as <-.
      destruct (IH X0 ltac:(lia) eq_refl) as (Hlen & Hrows & Hinv & Htri & Hdiag).
      pose proof (rinv_some o u UL _ _ Ed) as Hdi.
      set (f := fun j => rmul o di (rsub o (if i =? j then r1 else r0)
                          (sum o i (fun k => rmul o (dget o a i k) (lget o X0 k j))))).
      assert (Hnew : forall j, j < r -> lget o (X0 ++ [map f (seq 0 r)]) i j = f j).
      { intros j Hj.
        replace (lget o (X0 ++ [map f (seq 0 r)]) i j) with (lget o (X0 ++ [map f (seq 0 r)]) (length X0) j)
          by (now rewrite Hlen).
        rewrite lget_app_last.
        rewrite nth_indep with (d' := f 0) by (now rewrite map_length, seq_length).
        rewrite map_nth, seq_nth by assumption. reflexivity. }
      assert (Hold : forall k j, k < i -> lget o (X0 ++ [map f (seq 0 r)]) k j = lget o X0 k j).
      { intros k j Hk. apply lget_app_l. lia. }
      repeat split.
      + rewrite app_length, Hlen. cbn. lia.
      + apply Forall_app. split; [exact Hrows|]. constructor; [|constructor].
        now rewrite map_length, seq_length.
      + intros k j Hk Hj. cbn [sum].
        destruct (Nat.eq_dec k i) as [->|Hne].
        * rewrite (sum_ext o i _ (fun l => rmul o (dget o a i l) (lget o X0 l j)))
            by (intros l Hl; now rewrite Hold).
          rewrite Hnew by assumption. unfold f, delta, rsub.
          set (S := sum o i _). set (d := if i =? j then r1 else r0).
          transitivity (radd o S (rmul o (rmul o (dget o a i i) di) (radd o d (rneg o S)))); [ring|].
          rewrite Hdi. ring.
        * rewrite (sum_ext o i _ (fun l => rmul o (dget o a k l) (lget o X0 l j)))
            by (intros l Hl; now rewrite Hold).
          rewrite Hinv by (try assumption; lia). rewrite (Hlow k i) by lia. ring.
      + intros k j Hk Hkj Hj. destruct (Nat.eq_dec k i) as [->|Hne].
        * rewrite Hnew by assumption. unfold f, rsub.
          destruct (Nat.eqb_spec i j); [lia|].
          rewrite (sum_zero_ext o L) by (intros l Hl; rewrite (Htri l j) by lia; ring). ring.
        * rewrite Hold by lia. apply Htri; lia.
      + intros k Hk. destruct (Nat.eq_dec k i) as [->|Hne].
        * rewrite Hnew by lia. unfold f, rsub. rewrite Nat.eqb_refl.
          rewrite (sum_zero_ext o L) by (intros l Hl; rewrite (Htri l i) by lia; ring).
          transitivity (rmul o (dget o a i i) di); [ring|exact Hdi].
        * rewrite Hold by lia. apply Hdiag. lia.
  Qed.

  Lemma inv_rows_some a r i :
    (forall k, k < i -> ris_unit u (dget o a k k) = true) -> exists X, inv_rows o u a r i = Some X.
  Proof.
    induction i as [|i IH]; intros H; cbn [inv_rows]; [eauto|].
    destruct IH as [X0 ->]; [intros; apply H; lia|]. cbn [obind].
    destruct (proj1 (rinv_unit o u UL _) (H i ltac:(lia))) as [di ->]. cbn [obind]. eauto.
  Qed.

  Lemma inv_lower_right a r X :
    dr a = r -> dc a = r -> lower_tri a r -> inv_lower o u a r = Some X ->
    dwf X /\ dr X = r /\ dc X = r /\ dmul o a X = did o r /\ lower_tri X r /\
    (forall k, k < r -> rmul o (dget o a k k) (dget o X k k) = r1).
  Proof.
    intros Hr Hc Hlow E. unfold inv_lower in E.
    destruct (inv_rows o u a r r) as [X0|] eqn:E0; [|discriminate]. cbn [obind] in E. injection E as <-.
    destruct (inv_rows_spec a r r X0 Hlow (le_n r) E0) as (Hlen & Hrows & Hinv & Htri & Hdiag).
    split; [split; assumption|]. split; [reflexivity|]. split; [reflexivity|]. split; [|split].
    - unfold dmul, did. cbn [dr dc]. rewrite Hr, Hc. apply (dmk_ext o). intros i j Hi Hj.
      apply Hinv; assumption.
    - intros i j Hij Hj. unfold dget. cbn [de]. apply Htri; lia.
    - intros k Hk. unfold dget at 2. cbn [de]. now apply Hdiag.
  Qed.

  Lemma inv_lower_some a r : unit_diag a r -> exists X, inv_lower o u a r = Some X.
  Proof.
    intros H. unfold inv_lower. destruct (inv_rows_some a r r H) as [X ->]. cbn [obind]. eauto.
  Qed.

  (* the right inverse of a lower triangular matrix is also its left inverse *)
  Lemma inv_lower_spec a r X :
    dwf a -> dr a = r -> dc a = r -> lower_tri a r -> inv_lower o u a r = Some X ->
    dwf X /\ dr X = r /\ dc X = r /\ dmul o a X = did o r /\ dmul o X a = did o r.
  Proof.
    intros Wa Hr Hc Hlow E.
    destruct (inv_lower_right a r X Hr Hc Hlow E) as (WX & HXr & HXc & Hright & HXlow & HXdiag).
    split; [exact WX|]. split; [exact HXr|]. split; [exact HXc|]. split; [exact Hright|].
    assert (HXu : unit_diag X r).
    { intros k Hk. apply (runit_complete o u UL _ (dget o a k k)). rewrite (rmul_comm o L). now apply HXdiag. }
    destruct (inv_lower_some X r HXu) as [Y EY].
    destruct (inv_lower_right X r Y HXr HXc HXlow EY) as (WY & HYr & HYc & HXY & _ & _).
    assert (EaY : a = Y).
    { rewrite <- (dmul_id_r o L a r Wa Hc), <- HXY, <- (dmul_assoc o L) by lia.
      rewrite Hright. now apply (dmul_id_l o L). }
    rewrite EaY at 1. exact HXY.
  Qed.

  Lemma tri_inv_spec t a r X :
    dwf a -> dr a = r -> dc a = r -> tri_ok t a r -> tri_inv o u t a r = Some X ->
    dwf X /\ dr X = r /\ dc X = r /\ dmul o a X = did o r /\ dmul o X a = did o r.
  Proof.
    intros Wa Hr Hc Ht E. destruct t; cbn [tri_inv tri_ok] in *.
    - destruct (inv_lower o u (dtrans o a) r) as [Y|] eqn:EY; [|discriminate]. cbn [obind] in E.
      injection E as <-.
      assert (Hlow : lower_tri (dtrans o a) r).
      { intros i j Hij Hj. rewrite (dget_dtrans o) by lia. apply Ht; lia. }
      destruct (inv_lower_spec (dtrans o a) r Y (dwf_dtrans o a) ltac:(dims) ltac:(dims) Hlow EY)
        as (WY & HYr & HYc & H1 & H2).
      split; [apply dwf_dtrans|]. split; [dims|]. split; [dims|]. split.
      + rewrite <- (dtrans_invol o a Wa) at 1. rewrite <- (dtrans_dmul o L) by dims.
        rewrite H2. apply (dtrans_did o).
      + rewrite <- (dtrans_invol o a Wa) at 1. rewrite <- (dtrans_dmul o L) by dims.
        rewrite H1. apply (dtrans_did o).
    - now apply inv_lower_spec.
  Qed.

  Lemma tri_inv_some t a r : dr a = r -> dc a = r -> unit_diag a r -> exists X, tri_inv o u t a r = Some X.
  Proof.
    intros Hr Hc H. destruct t; cbn [tri_inv].
    - destruct (inv_lower_some (dtrans o a) r) as [Y ->]; [|cbn [obind]; eauto].
      intros k Hk. rewrite (dget_dtrans o) by lia. now apply H.
    - now apply inv_lower_some.
  Qed.
End Tri.
