(* Schur::from_partial_triangular of Model/Schur.v: the run succeeds on every valid input (including r = 0
   and r = min(m, n)) and its five matrices satisfy the identities of C12. *)
From Coq Require Import Arith List Bool Lia Ring.
Require Import Yui.Base.Ring Yui.Base.MatF Yui.Model.Triang Yui.Model.Schur.
Require Import Yui.Proofs.C12Sparse Yui.Proofs.C12Triang Yui.Proofs.C12Schur.
Import ListNotations.

Section SchurMain.
  Context {R : Type} (o : ring_ops R) (L : ring_laws o) (u : unit_ops R) (UL : unit_laws o u).

  Local Notation "0" := (rzero o).
  Local Notation "1" := (rone o).
  Add Ring Rring4 : (ring_theory_of_laws o L).

  (* the leading r x r block has a stored unit in every diagonal position ... *)
  Definition lead_unit_diag (abcd : spmat R) (r : nat) : bool :=
    forallb (fun j => existsb (fun e => (fst e =? j) && ris_unit u (snd e)) (col abcd j)) (seq 0 r).
  (* ... and its non-zero stored entries lie on the allowed side (SpMat::is_triang on the block) *)
  Definition lead_triang (upper : bool) (abcd : spmat R) (r : nat) : bool :=
    forallb (fun t => let '(i, j, v) := t in
                      ris_zero o v || negb (i <? r) || negb (j <? r) || (if upper then i <=? j else j <=? i))
            (triplets abcd).

  (* the four blocks of M as functions *)
  Definition blkA (M : mat R) : mat R := M.
  Definition blkB (r : nat) (M : mat R) : mat R := fun i j => M i (r + j).
  Definition blkC (r : nat) (M : mat R) : mat R := fun i j => M (r + i) j.
  Definition blkD (r : nat) (M : mat R) : mat R := fun i j => M (r + i) (r + j).

  Record schur_ok (upper : bool) (abcd : spmat R) (r : nat) (sc : schur (R := R)) : Prop := {
    so_s_shape : nrows (sch_s sc) = nrows abcd - r /\ ncols (sch_s sc) = ncols abcd - r;
    so_srcf_shape : nrows (src_f sc) = ncols abcd - r /\ ncols (src_f sc) = ncols abcd;
    so_srcb_shape : nrows (src_b sc) = ncols abcd /\ ncols (src_b sc) = ncols abcd - r;
    so_tgtf_shape : nrows (tgt_f sc) = nrows abcd - r /\ ncols (tgt_f sc) = nrows abcd;
    so_tgtb_shape : nrows (tgt_b sc) = nrows abcd /\ ncols (tgt_b sc) = nrows abcd - r;
    (* F_tgt M B_src = S *)
    so_transfer : meq (nrows abcd - r) (ncols abcd - r)
        (mmul o (ncols abcd) (mmul o (nrows abcd) (entry o (tgt_f sc)) (entry o abcd)) (entry o (src_b sc)))
        (entry o (sch_s sc));
    (* F_src B_src = I,  F_tgt B_tgt = I *)
    so_src : meq (ncols abcd - r) (ncols abcd - r)
        (mmul o (ncols abcd) (entry o (src_f sc)) (entry o (src_b sc))) (mid o);
    so_tgt : meq (nrows abcd - r) (nrows abcd - r)
        (mmul o (nrows abcd) (entry o (tgt_f sc)) (entry o (tgt_b sc))) (mid o);
    (* S = D - C A^-1 B for every right inverse A^-1 of the leading block *)
    so_formula : forall Ainv : mat R,
        meq r r (mmul o r (entry o abcd) Ainv) (mid o) ->
        meq (nrows abcd - r) (ncols abcd - r) (entry o (sch_s sc))
            (msub o (blkD r (entry o abcd))
                    (mmul o r (blkC r (entry o abcd)) (mmul o r Ainv (blkB r (entry o abcd)))));
  }.

  Lemma unit_nonzero a ui : 1 <> 0 -> rmul o a ui = 1 -> a <> 0.
  Proof. intros H10 H E. apply H10. rewrite <- H, E. ring. Qed.

  Lemma lead_block_valid upper abcd r a b c d :
    1 <> 0 -> wf abcd = true -> r <= nrows abcd -> r <= ncols abcd ->
    lead_unit_diag abcd r = true -> lead_triang upper abcd r = true ->
    blocks_of o abcd a b c d r ->
    tvalid o u upper a r /\
    (forall j, j < r -> exists ui, rmul o (entry o abcd j j) ui = 1) /\
    (forall i j, i < r -> j < r -> (if upper then j < i else i < j) -> entry o abcd i j = 0).
  Proof.
    intros H10 Hwf Hrm Hrn Hud Hlt B.
    assert (Hdiag : forall j, j < r -> exists uj ui, In (j, uj) (col abcd j) /\ rinv u uj = Some ui).
    { intros j Hj. unfold lead_unit_diag in Hud. rewrite forallb_forall in Hud.
      specialize (Hud j). rewrite in_seq in Hud. specialize (Hud ltac:(lia)).
      apply existsb_exists in Hud. destruct Hud as [[i uj] [He Hu]]. cbn [fst snd] in Hu.
      apply andb_true_iff in Hu. destruct Hu as [Hi Hu]. apply Nat.eqb_eq in Hi. subst i.
      apply (rinv_unit o u UL) in Hu. destruct Hu as [ui Hui]. now exists uj, ui. }
    assert (Hentry : forall j uj, In (j, uj) (col abcd j) -> entry o abcd j j = uj).
    { intros j uj Hin. unfold entry. apply (centry_single o L).
      apply filter_row_single; [now apply (wf_col_spec abcd j Hwf)|assumption]. }
    assert (Htri : forall i j, i < r -> j < r -> (if upper then j < i else i < j) -> entry o abcd i j = 0).
    { intros i j Hi Hj Hij. unfold entry. apply (centry_zero o L). intros e He Hei.
      unfold lead_triang in Hlt. rewrite forallb_forall in Hlt.
      specialize (Hlt (fst e, j, snd e) (in_triplets abcd j e ltac:(lia) He)). cbv beta iota in Hlt.
      rewrite Hei in Hlt.
      replace (i <? r) with true in Hlt by (symmetry; now apply Nat.ltb_lt).
      replace (j <? r) with true in Hlt by (symmetry; now apply Nat.ltb_lt).
      cbn [negb] in Hlt. rewrite !orb_false_r in Hlt.
      apply orb_true_iff in Hlt. destruct Hlt as [Hz|Ht]; [now apply (ris_zero_true o L)|].
      exfalso. destruct upper; apply Nat.leb_le in Ht; lia. }
    split; [|split; [|exact Htri]].
    - constructor.
      + apply (bo_a_shape _ _ _ _ _ _ _ B).
      + apply (bo_a_shape _ _ _ _ _ _ _ B).
      + intros j e He. rewrite <- (proj1 (bo_a_shape _ _ _ _ _ _ _ B)).
        apply (bo_rows _ _ _ _ _ _ _ B a (or_introl eq_refl) j e He).
      + intros j Hj. destruct (Hdiag j Hj) as [uj [ui [Hin Hui]]].
        assert (Huj : uj <> 0) by (apply (unit_nonzero uj ui H10), (rinv_some o u UL uj ui Hui)).
        pose proof (bo_a_keys _ _ _ _ _ _ _ B j uj Hj Hin Huj) as Hk.
        apply in_map_iff in Hk. destruct Hk as [[j' v] [E Hv]]. cbn in E. subst j'.
        assert (Hf : filter (fun e : nat * R => fst e =? j) (col a j) = [(j, v)]).
        { apply filter_row_single; [|assumption].
          apply sorted_strict_NoDup, (bo_sorted _ _ _ _ _ _ _ B a (or_introl eq_refl)). }
        exists v, ui. split; [exact Hf|].
        assert (Ev : v = uj).
        { rewrite <- (centry_single o L _ _ _ Hf). fold (entry o a j j).
          rewrite (bo_a _ _ _ _ _ _ _ B) by assumption. now apply Hentry. }
        now rewrite Ev.
      + intros i j Hi Hj Hij. rewrite (bo_a _ _ _ _ _ _ _ B) by assumption. now apply Htri.
    - intros j Hj. destruct (Hdiag j Hj) as [uj [ui [Hin Hui]]]. exists ui.
      rewrite (Hentry j uj Hin). apply (rinv_some o u UL uj ui Hui).
  Qed.

  Lemma rows_neg (x : spmat R) j e : (forall j e, In e (col x j) -> fst e < nrows x) ->
    In e (col (sp_neg o x) j) -> fst e < nrows (sp_neg o x).
  Proof.
    intros H He. rewrite (col_neg o) in He. apply in_map_iff in He. destruct He as [e' [<- He']].
    cbn [fst sp_neg nrows]. now apply (H j).
  Qed.

  Theorem from_partial_triangular_spec upper abcd r :
    1 <> 0 -> wf abcd = true -> r <= nrows abcd -> r <= ncols abcd ->
    lead_unit_diag abcd r = true -> lead_triang upper abcd r = true ->
    exists sc, from_partial_triangular o u upper abcd r = Some sc /\
               schur_complement_only o u upper abcd r = Some (sch_s sc) /\
               schur_ok upper abcd r sc.
  Proof.
    intros H10 Hwf Hrm Hrn Hud Hlt.
    destruct (divide4_spec o L abcd r Hwf Hrm Hrn) as [a [b [c [d [Ediv B]]]]].
    destruct (lead_block_valid upper abcd r a b c d H10 Hwf Hrm Hrn Hud Hlt B) as [Va [HMu HMt]].
    set (m := nrows abcd) in *. set (n := ncols abcd) in *.
    destruct (bo_a_shape _ _ _ _ _ _ _ B) as [Ha1 Ha2]. destruct (bo_b_shape _ _ _ _ _ _ _ B) as [Hb1 Hb2].
    destruct (bo_c_shape _ _ _ _ _ _ _ B) as [Hc1 Hc2]. destruct (bo_d_shape _ _ _ _ _ _ _ B) as [Hd1 Hd2].
    fold m in Hc1, Hd1. fold n in Hb2, Hd2.
    assert (Yb : yvalid b r).
    { split; [exact Hb1|]. intros j. split.
      - apply sorted_strict_NoDup, (bo_sorted _ _ _ _ _ _ _ B b). cbn; tauto.
      - intros e He. rewrite <- Hb1. apply (bo_rows _ _ _ _ _ _ _ B b) with (j := j); [cbn; tauto|assumption]. }
    unfold from_partial_triangular, schur_complement_only. fold m n.
    replace (r <=? m) with true by (symmetry; now apply Nat.leb_le).
    replace (r <=? n) with true by (symmetry; now apply Nat.leb_le). cbn [andb].
    rewrite Ediv. cbn [obind]. unfold solve_triangular.
    rewrite (solve_triangular_st_spec o L u UL upper a r b Va Yb). cbn [obind].
    set (x := solution o u upper a b).
    assert (Hx1 : nrows x = r) by exact Ha1.
    assert (Hx2 : ncols x = n - r) by exact Hb2.
    assert (Hxrows : forall j e, In e (col x j) -> fst e < r)
      by (intros j e; apply (solution_rows o L u UL upper a r b j e Va Yb)).
    pose proof (solution_solves o L u UL upper a r b Va Yb) as Hsolve. fold x in Hsolve. rewrite Hb2 in Hsolve.
    (* the complement *)
    destruct (compute_schur_spec o L x c d r Hx1 Hc2) as [s [Es [Hs1 [Hs2 Hs]]]]; [lia|lia|exact Hxrows| |].
    { intros j. apply (bo_sorted _ _ _ _ _ _ _ B d). cbn; tauto. }
    rewrite Es. cbn [obind].
    (* t_src *)
    destruct (sp_proj_spec o L n (n - r)) as [f1 [Ef1 [Hf11 [Hf12 Hf1]]]]; [lia|]. rewrite Ef1. cbn [obind].
    destruct (sp_stack_id_spec o L (sp_neg o x) (n - r)) as [b1 [Eb1 [Hb11 [Hb12 Hb1e]]]].
    { exact Hx2. }
    { intros j e. apply rows_neg. intros j' e' He'. rewrite Hx1. now apply (Hxrows j'). }
    rewrite Eb1. cbn [obind]. cbn [sp_neg nrows] in Hb11, Hb1e. rewrite Hx1 in Hb11, Hb1e.
    unfold trans_new at 1. rewrite Hf11, Hf12, Hb11, Hb12.
    replace (n =? r + (n - r)) with true by (symmetry; apply Nat.eqb_eq; lia). rewrite Nat.eqb_refl.
    cbn [andb obind]. cbv beta iota.
    (* t_tgt *)
    destruct (solve_left_spec o L u UL upper a r c Va Hc2) as [z [Ez [Hz1 [Hz2 [Hz3 [Hzrows Hz]]]]]].
    { intros j. apply sorted_strict_NoDup, (bo_sorted _ _ _ _ _ _ _ B c). cbn; tauto. }
    rewrite Ez. cbn [obind]. rewrite Hc1 in Hz1, Hzrows, Hz.
    destruct (extend_cols_id_spec o L (sp_neg o z) (m - r)) as [f2 [Ef2 [Hf21 [Hf22 Hf2]]]].
    { exact Hz1. }
    { cbn [sp_neg cols ncols]. rewrite map_length. exact (eq_trans Hz3 (eq_sym Hz2)). }
    rewrite Ef2. cbn [obind]. cbn [sp_neg ncols] in Hf22, Hf2. rewrite Hz2 in Hf22, Hf2.
    destruct (sp_incl_spec o L m (m - r)) as [b2 [Eb2 [Hb21 [Hb22 Hb2e]]]]; [lia|]. rewrite Eb2. cbn [obind].
    unfold trans_new. rewrite Hf21, Hf22, Hb21, Hb22.
    replace (r + (m - r) =? m) with true by (symmetry; apply Nat.eqb_eq; lia). rewrite Nat.eqb_refl.
    cbn [andb obind]. cbv beta iota.
    eexists. split; [reflexivity|]. cbn [sch_s]. split; [reflexivity|].
    (* ---- the identities ---- *)
    set (M := entry o abcd). set (p := m - r). set (q := n - r).
    assert (Em : m = r + p) by (unfold p; lia). assert (En : n = r + q) by (unfold q; lia).
    assert (HAX : forall i j, i < r -> j < q -> sum o r (fun k => rmul o (M i k) (entry o x k j)) = M i (r + j)).
    { intros i j Hi Hj. unfold M. specialize (Hsolve i j Hi Hj). unfold mmul in Hsolve.
      rewrite (bo_b _ _ _ _ _ _ _ B) in Hsolve by assumption. rewrite <- Hsolve.
      apply sum_ext. intros k Hk. now rewrite (bo_a _ _ _ _ _ _ _ B) by assumption. }
    assert (HZA : forall i j, i < p -> j < r -> sum o r (fun k => rmul o (entry o z i k) (M k j)) = M (r + i) j).
    { intros i j Hi Hj. unfold M. specialize (Hz i j Hi Hj). unfold mmul in Hz.
      rewrite (bo_c _ _ _ _ _ _ _ B) in Hz by assumption. rewrite <- Hz.
      apply sum_ext. intros k Hk. now rewrite (bo_a _ _ _ _ _ _ _ B) by assumption. }
    assert (HS : forall i j, i < p -> j < q ->
              entry o s i j = radd o (M (r + i) (r + j)) (rneg o (sum o r (fun k => rmul o (M (r + i) k) (entry o x k j))))).
    { intros i j Hi Hj. unfold M. rewrite Hs by lia. rewrite (bo_d _ _ _ _ _ _ _ B) by assumption. f_equal. f_equal.
      apply sum_ext. intros k Hk. now rewrite (bo_c _ _ _ _ _ _ _ B) by assumption. }
    assert (HFs : forall i j, i < q -> j < r + q -> entry o f1 i j = if j =? r + i then 1 else 0).
    { intros i j Hi Hj. rewrite Hf1 by lia. replace (n - (n - r)) with r by lia. reflexivity. }
    assert (HBs : forall i j, i < r + q -> j < q ->
              entry o b1 i j = if i <? r then rneg o (entry o x i j) else mid o (i - r) j).
    { intros i j Hi Hj. rewrite Hb1e by lia. destruct (i <? r); [apply (entry_neg o L)|reflexivity]. }
    assert (HFt : forall i j, i < p -> j < r + p ->
              entry o f2 i j = if j <? r then rneg o (entry o z i j) else mid o i (j - r)).
    { intros i j Hi Hj. rewrite Hf2 by assumption. destruct (j <? r); [apply (entry_neg o L)|].
      replace (j <? r + (m - r)) with true by (symmetry; apply Nat.ltb_lt; lia). reflexivity. }
    assert (HBt : forall i j, i < r + p -> j < p -> entry o b2 i j = if i =? r + j then 1 else 0).
    { intros i j Hi Hj. rewrite Hb2e by lia. replace (m - (m - r)) with r by lia. reflexivity. }
    constructor; cbn [sch_s src_f src_b tgt_f tgt_b]; fold m n p q M.
    - split; lia.
    - split; assumption.
    - split; [lia|assumption].
    - split; [assumption|lia].
    - split; assumption.
    - rewrite Em, En. exact (schur_transfer o L r p q M _ _ _ _ _ HAX HZA HS HBs HFt).
    - rewrite En. exact (src_retract o L r q _ _ _ HFs HBs).
    - rewrite Em. exact (tgt_retract o L r p _ _ _ HFt HBt).
    - intros Ainv Hinv i j Hi Hj.
      rewrite (schur_formula o L r p q M _ _ HAX HS upper Ainv HMu HMt Hinv i j Hi Hj).
      unfold msub, mmul, blkD, blkC, blkB. reflexivity.
  Qed.

  (* a right inverse of the leading block exists: inv_triangular computes one *)
  Lemma inv_triangular_spec upper a n : tvalid o u upper a n ->
    exists x, inv_triangular o u upper a = Some x /\ nrows x = n /\ ncols x = n /\
      meq n n (mmul o n (entry o a) (entry o x)) (mid o).
  Proof.
    intros V. unfold inv_triangular, solve_triangular. rewrite (tv_nrows _ _ _ _ _ V).
    rewrite (solve_triangular_st_spec o L u UL upper a n (sp_id o n) V (yvalid_id o n)). cbn [obind].
    eexists. split; [reflexivity|]. split; [exact (tv_nrows _ _ _ _ _ V)|]. split; [reflexivity|].
    intros i j Hi Hj.
    rewrite (solution_solves o L u UL upper a n (sp_id o n) V (yvalid_id o n) i j Hi Hj).
    now apply (entry_id o L).
  Qed.
End SchurMain.
