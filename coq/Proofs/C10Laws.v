(* C10: the laws an "LLL ring" dictionary must satisfy for the theorems of Proofs/C10*.v, and their proofs
   for the three instances Z, Z[i], Z[w] of Model/Lll.v. *)
From Coq Require Import ZArith List Bool Arith Lia Ring.
Require Import Yui.Base.Ring Yui.Model.Lll.
Import ListNotations.

Record lll_laws {R : Type} (L : lll_ring R) : Prop := mk_lll_laws {
  ll_ring : ring_laws (lops L);
  (* units *)
  ll_inv_mul : forall u v, linv L u = Some v -> rmul (lops L) u v = rone (lops L);
  ll_unit_inv : forall u, lis_unit L u = true -> exists v, linv L u = Some v;
  (* normalizing unit *)
  ll_nunit_unit : forall a, lis_unit L (lnunit L a) = true;
  ll_nunit_idem : forall a, lnunit L (rmul (lops L) a (lnunit L a)) = rone (lops L);
  (* rounding division: the remainder lies in the rounding cell, hence has smaller norm *)
  ll_div_round_some : forall a b q, ldiv_round L a b = Some q ->
      lsize_ok L (rsub (lops L) a (rmul (lops L) q b)) b = true;
  ll_div_round_total : forall a b, b <> rzero (lops L) -> exists q, ldiv_round L a b = Some q;
  ll_size_norm : forall x b, b <> rzero (lops L) -> lsize_ok L x b = true -> (lnormz L x < lnormz L b)%Z;
  ll_norm_unit : forall x u, lis_unit L u = true -> lnormz L (rmul (lops L) x u) = lnormz L x;
}.

(* ---------------------------------------------------------------------------------------------- *)
(* Z                                                                                                *)
(* ---------------------------------------------------------------------------------------------- *)
Local Open Scope Z_scope.

Lemma z_div_round_some a b q : z_div_round a b = Some q -> b <> 0 /\ 2 * Z.abs (a - q * b) <= Z.abs b.
Proof.
  unfold z_div_round. destruct (Z.eqb_spec b 0) as [|Hb]; [discriminate|].
  pose proof (Z.quot_rem' a b) as Hqr.
  pose proof (Z.rem_bound_abs a b Hb) as Hab.
  set (d := Z.quot a b) in *. set (r := Z.rem a b) in *.
  assert (Hsg : r <> 0 -> (0 < a -> 0 < r) /\ (a < 0 -> r < 0)).
  { intros Hr. pose proof (Z.rem_sign_nz a b Hb Hr) as Hs. fold r in Hs.
    split; intros Ha.
    - rewrite (Z.sgn_pos a) in Hs by lia. now apply Z.sgn_pos_iff.
    - rewrite (Z.sgn_neg a) in Hs by lia. now apply Z.sgn_neg_iff. }
  destruct (Z.eqb_spec r 0) as [Hr0|Hr0].
  - intros H. injection H as <-. split; [assumption|]. replace (a - d * b) with 0 by lia. cbn. lia.
  - specialize (Hsg Hr0). destruct Hsg as [Hp Hn].
    assert (Ha0 : a <> 0). { intros ->. unfold r in Hr0. now rewrite Z.rem_0_l in Hr0 by assumption. }
    destruct (Z.ltb_spec 0 r) as [Hr|Hr]; destruct (Z.ltb_spec 0 b) as [Hbp|Hbp];
      match goal with |- context [negb (?x <=? ?y)] => destruct (Z.leb_spec x y) as [Hle|Hle] end; cbn [negb];
      destruct (Z.ltb_spec a 0) as [Ha|Ha]; destruct (Z.ltb_spec b 0) as [Hb'|Hb']; cbn [Bool.eqb];
      intros H; injection H as <-; (split; [assumption|]); lia.
Qed.

Lemma z_div_round_total a b : b <> 0 -> exists q, z_div_round a b = Some q.
Proof.
  intros Hb. unfold z_div_round. destruct (Z.eqb_spec b 0); [contradiction|].
  destruct (_ =? 0); [eauto|]. destruct (negb _); [eauto|]. destruct (Bool.eqb _ _); eauto.
Qed.

Lemma Z_lll_laws : lll_laws Z_lll.
Proof.
  constructor; cbn [Z_lll lops linv lis_unit lnunit ldiv_round lsize_ok lnormz Z_ring rmul rone rzero].
  - exact Z_ring_laws.
  - intros u v. unfold z_inv, z_is_unit.
    destruct (Z.eqb_spec u 1); destruct (Z.eqb_spec (- u) 1); cbn; intros H; try discriminate;
      injection H as <-; lia.
  - intros u. unfold z_inv. intros ->. eauto.
  - intros a. unfold z_nunit, z_is_unit. destruct (a <? 0); reflexivity.
  - intros a. unfold z_nunit. destruct (Z.ltb_spec a 0); cbn [negb].
    + destruct (Z.ltb_spec (a * -1) 0); [lia|reflexivity].
    + destruct (Z.ltb_spec (a * 1) 0); [lia|reflexivity].
  - intros a b q H. apply z_div_round_some in H. apply Z.leb_le. unfold rsub. cbn [radd rneg rmul Z_ring].
    replace (a + - (q * b)) with (a - q * b) by lia. tauto.
  - exact z_div_round_total.
  - intros x b Hb H. apply Z.leb_le in H. rewrite <- (Z.abs_square x), <- (Z.abs_square b).
    assert (0 < Z.abs b) by lia. pose proof (Z.abs_nonneg x). nia.
  - intros x u. unfold z_is_unit. destruct (Z.eqb_spec u 1); destruct (Z.eqb_spec (- u) 1); cbn; intros H; try discriminate; nia.
Qed.

(* ---------------------------------------------------------------------------------------------- *)
(* Z[i], Z[w]                                                                                       *)
(* ---------------------------------------------------------------------------------------------- *)
Definition q_mul' (eis : bool) (z w : qint) : qint :=
  let (a, b) := z in let (c, d) := w in
  if eis then (a * c - b * d, a * d + b * c + b * d) else (a * c - b * d, a * d + b * c).

Lemma q_mul_eq eis z w : q_mul eis z w = q_mul' eis z w.
Proof.
  destruct z as [a b], w as [c d]. unfold q_mul, q_mul'.
  destruct (Z.eqb_spec b 0) as [->|Hb].
  - destruct eis; f_equal; ring.
  - destruct (Z.eqb_spec d 0) as [->|Hd]; destruct eis; f_equal; ring.
Qed.

Lemma q_eqb_eq z w : q_eqb z w = true <-> z = w.
Proof.
  destruct z as [a b], w as [c d]. unfold q_eqb. cbn [fst snd].
  rewrite andb_true_iff, !Z.eqb_eq. split; [intros [-> ->]; reflexivity|intros H; injection H; auto].
Qed.

Lemma q_ring_laws eis : ring_laws (q_ring eis).
Proof.
  constructor; unfold q_ring; cbn [rzero rone radd rneg rmul reqb]; intros;
    rewrite ?q_mul_eq;
    repeat match goal with z : qint |- _ => destruct z end;
    unfold q_add, q_neg, q_zero, q_one, q_mul'; cbn [fst snd].
  all: try (destruct eis; cbn [fst snd]; f_equal; ring).
  apply q_eqb_eq.
Qed.

Lemma q_norm_nonneg eis z : 0 <= q_norm eis z.
Proof. destruct z as [a b]. unfold q_norm. destruct eis; nia. Qed.

Lemma q_norm_zero eis z : q_norm eis z = 0 -> z = (0, 0).
Proof.
  destruct z as [a b]. unfold q_norm. destruct eis; intros H.
  - assert (a = 0) by nia. assert (b = 0) by nia. subst. reflexivity.
  - assert (a = 0) by nia. assert (b = 0) by nia. subst. reflexivity.
Qed.

Lemma q_norm_pos eis z : z <> (0, 0) -> 0 < q_norm eis z.
Proof.
  intros H. pose proof (q_norm_nonneg eis z). destruct (Z.eq_dec (q_norm eis z) 0) as [E|E]; [|lia].
  apply q_norm_zero in E. contradiction.
Qed.

Lemma q_norm_mul eis z w : q_norm eis (q_mul eis z w) = q_norm eis z * q_norm eis w.
Proof. rewrite q_mul_eq. destruct z as [a b], w as [c d]. unfold q_mul', q_norm. destruct eis; ring. Qed.

Lemma q_mul_conj eis z : q_mul eis z (q_conj eis z) = (q_norm eis z, 0).
Proof. rewrite q_mul_eq. destruct z as [a b]. unfold q_mul', q_conj, q_norm. destruct eis; f_equal; ring. Qed.

Lemma q_unit_norm eis u : q_is_unit eis u = true -> q_norm eis u = 1.
Proof.
  unfold q_is_unit, z_is_unit. pose proof (q_norm_nonneg eis u).
  destruct (Z.eqb_spec (q_norm eis u) 1); [auto|]. destruct (Z.eqb_spec (- q_norm eis u) 1); cbn; [lia|discriminate].
Qed.

Ltac ltb_cases :=
  repeat match goal with
         | |- context [(?x <? ?y)] => destruct (Z.ltb_spec x y); cbn [andb negb orb]
         end.

Lemma q_nunit_unit eis z : q_is_unit eis (q_nunit eis z) = true.
Proof.
  destruct z as [a b]. unfold q_nunit. destruct eis; ltb_cases; reflexivity.
Qed.

Lemma q_nunit_idem eis z : q_nunit eis (q_mul eis z (q_nunit eis z)) = q_one.
Proof.
  rewrite q_mul_eq. destruct z as [a b]. destruct eis.
  - unfold q_nunit at 2.
    destruct (Z.ltb_spec 0 a); destruct (Z.ltb_spec b 0); destruct (Z.ltb_spec 0 (a + b));
      destruct (Z.ltb_spec 0 b); destruct (Z.ltb_spec a 0); destruct (Z.ltb_spec (a + b) 0);
      cbn [andb negb]; try lia;
      unfold q_mul', q_one, q_omega, q_neg; cbn [fst snd]; unfold q_nunit;
      ltb_cases; try reflexivity; try lia.
  - unfold q_nunit at 2.
    destruct (Z.ltb_spec 0 a); destruct (Z.ltb_spec b 0); destruct (Z.ltb_spec 0 b); destruct (Z.ltb_spec a 0);
      cbn [andb negb]; try lia;
      unfold q_mul', q_one, q_omega, q_neg; cbn [fst snd]; unfold q_nunit;
      ltb_cases; try reflexivity; try lia.
Qed.

Lemma q_div_round_some eis a b q : q_div_round eis a b = Some q ->
  q_size_ok eis (q_sub a (q_mul eis q b)) b = true.
Proof.
  unfold q_div_round, q_size_ok.
  assert (E : q_mul eis (q_sub a (q_mul eis q b)) (q_conj eis b)
              = q_sub (q_mul eis a (q_conj eis b)) (q_mul eis q (q_norm eis b, 0))).
  { rewrite <- q_mul_conj. rewrite !q_mul_eq. destruct a as [a1 a2], b as [b1 b2], q as [q1 q2].
    unfold q_mul', q_sub, q_conj. cbn [fst snd]. destruct eis; cbn [fst snd]; f_equal; ring. }
  rewrite E. clear E.
  destruct (q_mul eis a (q_conj eis b)) as [x y]. set (n := q_norm eis b).
  rewrite q_mul_eq. destruct q as [q1 q2]. unfold q_mul', q_sub. cbn [fst snd].
  destruct eis.
  - destruct (z_div_round (x + y) n) as [m'|] eqn:E1; [|discriminate]. cbn [obind].
    destruct (z_div_round y n) as [n'|] eqn:E2; [|discriminate]. cbn [obind].
    intros H. injection H as <- <-.
    apply z_div_round_some in E1, E2. apply andb_true_iff. rewrite !Z.leb_le.
    assert (Hn : 0 <= n) by apply q_norm_nonneg.
    rewrite (Z.abs_eq n) in * by assumption.
    split; cbn [fst snd].
    + match goal with |- 2 * Z.abs ?e <= _ => replace e with (x + y - m' * n) by ring end. tauto.
    + match goal with |- 2 * Z.abs ?e <= _ => replace e with (y - n' * n) by ring end. tauto.
  - destruct (z_div_round x n) as [x'|] eqn:E1; [|discriminate]. cbn [obind].
    destruct (z_div_round y n) as [y'|] eqn:E2; [|discriminate]. cbn [obind].
    intros H. injection H as <- <-.
    apply z_div_round_some in E1, E2. apply andb_true_iff. rewrite !Z.leb_le.
    assert (Hn : 0 <= n) by apply q_norm_nonneg.
    rewrite (Z.abs_eq n) in * by assumption.
    split; cbn [fst snd].
    + match goal with |- 2 * Z.abs ?e <= _ => replace e with (x - x' * n) by ring end. tauto.
    + match goal with |- 2 * Z.abs ?e <= _ => replace e with (y - y' * n) by ring end. tauto.
Qed.

Lemma q_div_round_total eis a b : b <> (0, 0) -> exists q, q_div_round eis a b = Some q.
Proof.
  intros Hb. unfold q_div_round. pose proof (q_norm_pos eis b Hb) as Hn.
  destruct (q_mul eis a (q_conj eis b)) as [x y].
  destruct eis.
  - destruct (z_div_round_total (x + y) (q_norm true b) ltac:(lia)) as [m' ->].
    destruct (z_div_round_total y (q_norm true b) ltac:(lia)) as [n' ->]. cbn. eauto.
  - destruct (z_div_round_total x (q_norm false b) ltac:(lia)) as [m' ->].
    destruct (z_div_round_total y (q_norm false b) ltac:(lia)) as [n' ->]. cbn. eauto.
Qed.

Lemma q_size_norm eis x b : b <> (0, 0) -> q_size_ok eis x b = true -> q_norm eis x < q_norm eis b.
Proof.
  intros Hb. unfold q_size_ok. pose proof (q_norm_pos eis b Hb) as Hn.
  pose proof (q_norm_mul eis x (q_conj eis b)) as Hm.
  assert (Hc : q_norm eis (q_conj eis b) = q_norm eis b).
  { destruct b as [b1 b2]. unfold q_conj, q_norm. destruct eis; ring. }
  rewrite Hc in Hm. clear Hc.
  destruct (q_mul eis x (q_conj eis b)) as [s t]. set (n := q_norm eis b) in *. set (nx := q_norm eis x) in *.
  unfold q_norm in Hm at 1.
  destruct eis; rewrite andb_true_iff, !Z.leb_le; intros [H1 H2].
  - (* s^2 + s t + t^2 = u^2 - u t + t^2 with u = s + t, |u|, |t| <= n/2 *)
    assert (A1 : 4 * ((s + t) * (s + t)) <= n * n) by nia.
    assert (A2 : 4 * (t * t) <= n * n) by nia.
    assert (A3 : 4 * Z.abs ((s + t) * t) <= n * n) by (rewrite Z.abs_mul; nia).
    assert (A4 : 4 * (nx * n) <= 3 * (n * n)).
    { replace (s * s + s * t + t * t * 1) with ((s + t) * (s + t) - (s + t) * t + t * t) in Hm by ring. lia. }
    nia.
  - assert (A1 : 4 * (s * s) <= n * n) by nia.
    assert (A2 : 4 * (t * t) <= n * n) by nia.
    assert (A4 : 4 * (nx * n) <= 2 * (n * n)) by lia.
    nia.
Qed.

Lemma q_lll_laws eis alpha : lll_laws (q_lll eis alpha).
Proof.
  constructor; cbn.
  - apply q_ring_laws.
  - intros u v. unfold q_inv, z_inv. destruct (z_is_unit (q_norm eis u)) eqn:Hu; [|discriminate].
    intros H. injection H as <-.
    pose proof (q_unit_norm eis u Hu) as Hn. rewrite Hn.
    pose proof (q_mul_conj eis u) as Hc. rewrite Hn in Hc.
    rewrite !q_mul_eq in *. destruct u as [a b]. unfold q_conj in *. unfold q_mul' in *.
    destruct eis; injection Hc as H1 H2; unfold q_one; f_equal; lia.
  - intros u. unfold q_is_unit, q_inv, z_inv. intros ->. eauto.
  - apply q_nunit_unit.
  - apply q_nunit_idem.
  - intros a b q H. apply q_div_round_some in H.
    replace (rsub (q_ring eis) a (q_mul eis q b)) with (q_sub a (q_mul eis q b)); [exact H|].
    unfold rsub. cbn. destruct a, (q_mul eis q b). unfold q_sub, q_add, q_neg. cbn [fst snd]. f_equal; ring.
  - apply q_div_round_total.
  - apply q_size_norm.
  - intros x u Hu. rewrite q_norm_mul, (q_unit_norm eis u Hu). ring.
Qed.

Lemma G_lll_laws : lll_laws G_lll.
Proof. apply q_lll_laws. Qed.
Lemma E_lll_laws : lll_laws E_lll.
Proof. apply q_lll_laws. Qed.
