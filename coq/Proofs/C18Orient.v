(* C18 - the orientation clause.  For a valid code all of whose crossings are unresolved (X / Xm) and
   which is consistently oriented ([Oriented l o]: an assignment head/tail to the half-edges that is
   compatible with the passage through crossings, with the pairing of the two ends of an edge, and with
   the under-strand direction 0 -> 2 of every crossing), [crossing_signs] returns the signs of an
   orientation o' of the same kind: o' = o except that the components in a set [rev] are reversed, and
   a reversed component never passes under (its direction is not constrained by the code).

   Invariant of [sign_loop]: the set [passed] is a union of components, and crossing i carries the sign
   of o' exactly when the label of its over-strand has been passed.  *)
From Coq Require Import List Arith Bool Lia ZArith.
Require Import Yui.Model.Link Yui.Proofs.C18Base Yui.Proofs.C18Traverse Yui.Proofs.C18Components
  Yui.Proofs.C18Signs.
Import ListNotations.

(* o p = true: the oriented strand arrives at the crossing through half-edge p; false: it leaves *)
Definition Oriented (l : link) (o : pos -> bool) : Prop :=
  (forall p, InR l p -> o (exit_of l p) = negb (o p)) /\
  (forall p, InR l p -> o (tau l p) = negb (o p)) /\
  (forall i, i < length l -> o (i, 0) = true).

Definition Unresolved (l : link) : Prop := forall i, i < length l -> is_resolved (cross_at l i) = false.

(* the sign of crossing i for the orientation o: the over-strand arrives through slot 1 or through slot 3 *)
Definition sgn_at (l : link) (o : pos -> bool) (i : nat) : sign :=
  match ct (cross_at l i) with
  | X => if o (i, 1) then Neg else Pos
  | Xm => if o (i, 1) then Pos else Neg
  | _ => Pos
  end.
Definition signs_of (l : link) (o : pos -> bool) : list sign := map (sgn_at l o) (seq 0 (length l)).

(* o with the components selected by rev (a predicate on labels) reversed *)
Definition oxr (l : link) (o : pos -> bool) (rev : nat -> bool) (p : pos) : bool :=
  xorb (o p) (rev (edge_at l p)).

(* ---------------------------------------------------------------------------------------------- *)
(* list facts about the sign array *)
Lemma nth_set_nth : forall A (k i : nat) (x d : A) sg,
  nth i (set_nth k x sg) d = if (i =? k) && (k <? length sg) then x else nth i sg d.
Proof.
  induction k as [|k IH]; intros i x d sg; destruct sg as [|a sg]; cbn [set_nth length].
  - rewrite andb_false_r. reflexivity.
  - destruct i; reflexivity.
  - rewrite andb_false_r. reflexivity.
  - destruct i as [|i]; [reflexivity|]. cbn [nth]. rewrite IH. reflexivity.
Qed.

Lemma visit_sign_length : forall l sg p, length (visit_sign l sg p) = length sg.
Proof. intros. unfold visit_sign. destruct (sign_of _ _); auto. apply set_nth_length. Qed.
Lemma fold_visit_length : forall l ps sg, length (fold_left (visit_sign l) ps sg) = length sg.
Proof. induction ps as [|p ps IH]; intros; cbn; auto. rewrite IH. apply visit_sign_length. Qed.

Lemma fold_visit_unch : forall l i ps sg,
  (forall q, In q ps -> fst q = i -> sign_of (ct (cross_at l i)) (snd q) = None) ->
  nth i (fold_left (visit_sign l) ps sg) None = nth i sg None.
Proof.
  intros l i. induction ps as [|p ps IH]; intros sg H; cbn [fold_left]; auto.
  rewrite IH by (intros; apply H; cbn; auto).
  unfold visit_sign. destruct (sign_of (ct (cross_at l (fst p))) (snd p)) eqn:E; auto.
  rewrite nth_set_nth. destruct (Nat.eqb_spec i (fst p)) as [->|N]; cbn [andb]; auto.
  rewrite (H p) in E by (cbn; auto). discriminate.
Qed.

Lemma fold_visit_keep : forall l i s ps sg,
  (forall q, In q ps -> fst q = i ->
     sign_of (ct (cross_at l i)) (snd q) = None \/ sign_of (ct (cross_at l i)) (snd q) = Some s) ->
  nth i sg None = Some s -> nth i (fold_left (visit_sign l) ps sg) None = Some s.
Proof.
  intros l i s. induction ps as [|p ps IH]; intros sg H E; cbn [fold_left]; auto.
  apply IH; [intros; apply H; cbn; auto|].
  unfold visit_sign. destruct (sign_of (ct (cross_at l (fst p))) (snd p)) eqn:F; auto.
  rewrite nth_set_nth. destruct (Nat.eqb_spec i (fst p)) as [->|N]; cbn [andb]; auto.
  destruct (fst p <? length sg); auto.
  destruct (H p ltac:(cbn; auto) eq_refl) as [G|G]; congruence.
Qed.

Lemma fold_visit_set : forall l i s ps sg, i < length sg ->
  (forall q, In q ps -> fst q = i ->
     sign_of (ct (cross_at l i)) (snd q) = None \/ sign_of (ct (cross_at l i)) (snd q) = Some s) ->
  (exists q, In q ps /\ fst q = i /\ sign_of (ct (cross_at l i)) (snd q) = Some s) ->
  nth i (fold_left (visit_sign l) ps sg) None = Some s.
Proof.
  intros l i s. induction ps as [|p ps IH]; intros sg Hi H (q & Hq & Eq & Sq); [destruct Hq|].
  cbn [fold_left]. destruct Hq as [->|Hq].
  - apply fold_visit_keep; [intros; apply H; cbn; auto|].
    unfold visit_sign. rewrite Eq, Sq. rewrite nth_set_nth, Nat.eqb_refl.
    assert (i <? length sg = true) as -> by (apply Nat.ltb_lt; auto). reflexivity.
  - apply IH; [rewrite visit_sign_length; auto|intros; apply H; cbn; auto|eauto].
Qed.

Lemma mem_eq_iff : forall a b s, (In a s <-> In b s) -> mem a s = mem b s.
Proof.
  intros a b s H. destruct (mem a s) eqn:A; destruct (mem b s) eqn:B; auto.
  - apply mem_spec in A. apply mem_false in B. tauto.
  - apply mem_spec in B. apply mem_false in A. tauto.
Qed.

Lemma sign_of_even : forall t j, j = 0 \/ j = 2 -> sign_of t j = None.
Proof. intros t j [-> | ->]; destruct t; reflexivity. Qed.

(* ---------------------------------------------------------------------------------------------- *)
Section Orient.
  Variable l : link.
  Hypothesis Hv : Valid l.
  Hypothesis Hu : Unresolved l.
  Variable o : pos -> bool.
  Hypothesis Ho : Oriented l o.

  Lemma ct_unres : forall i, i < length l -> ct (cross_at l i) = X \/ ct (cross_at l i) = Xm.
  Proof.
    intros i Hi. specialize (Hu i Hi). unfold is_resolved in Hu.
    destruct (ct (cross_at l i)); auto; discriminate.
  Qed.
  Lemma exit_13 : forall i, i < length l -> exit_of l (i, 1) = (i, 3) /\ exit_of l (i, 3) = (i, 1).
  Proof. intros i Hi. unfold exit_of. cbn [fst snd]. destruct (ct_unres i Hi) as [-> | ->]; auto. Qed.

  Lemma o_sigma : forall p, InR l p -> o (sigma l p) = o p.
  Proof.
    intros p Hp. destruct Ho as (H1 & H2 & _). unfold sigma.
    rewrite H2 by (apply exit_InR; auto). rewrite H1 by auto. apply negb_involutive.
  Qed.
  Lemma o_sig : forall k p, InR l p -> o (sig l k p) = o p.
  Proof.
    induction k; intros p Hp; cbn [sig]; auto. rewrite o_sigma by (apply sig_InR; auto). auto.
  Qed.

  Lemma thru_13 : forall i, i < length l -> thru l (edge_at l (i, 1)) (edge_at l (i, 3)).
  Proof.
    intros i Hi. exists (i, 1). split; [split; cbn; auto|]. split; auto.
    destruct (exit_13 i Hi) as [-> _]. reflexivity.
  Qed.

  (* the sign recorded when an over-slot is visited in the direction of the orientation o'' *)
  Lemma sign_of_sgn : forall o'' i j, i < length l -> j = 1 \/ j = 3 ->
    o'' (i, j) = true -> o'' (i, 3) = negb (o'' (i, 1)) ->
    sign_of (ct (cross_at l i)) j = Some (sgn_at l o'' i).
  Proof.
    intros o'' i j Hi Hj T E. unfold sgn_at.
    destruct (ct_unres i Hi) as [-> | ->]; destruct Hj as [-> | ->]; cbn [sign_of].
    - rewrite T. reflexivity.
    - rewrite T in E. symmetry in E. apply negb_true_iff in E. rewrite E. reflexivity.
    - rewrite T. reflexivity.
    - rewrite T in E. symmetry in E. apply negb_true_iff in E. rewrite E. reflexivity.
  Qed.

  Definition ovl (i : nat) : nat := edge_at l (i, 1).

  Record Inv (passed : list nat) (sg : list (option sign)) (rev : nat -> bool) : Prop := {
    inv_closed : thru_closed l passed;
    inv_rev_in : forall e, rev e = true -> In e passed;
    inv_rev_thru : forall e e', thru l e e' -> rev e = rev e';
    inv_rev_under : forall i, i < length l -> rev (edge_at l (i, 0)) = false;
    inv_len : length sg = length l;
    inv_sg : forall i, i < length l ->
      nth i sg None = if mem (ovl i) passed then Some (sgn_at l (oxr l o rev) i) else None }.

  Definition AllUnder (passed : list nat) : Prop := forall i, i < length l -> In (edge_at l (i, 0)) passed.

  Lemma oxr_13 : forall rev, (forall e e', thru l e e' -> rev e = rev e') ->
    forall i, i < length l -> oxr l o rev (i, 3) = negb (oxr l o rev (i, 1)).
  Proof.
    intros rev Hr i Hi. unfold oxr. rewrite <- (Hr _ _ (thru_13 i Hi)).
    destruct Ho as (H1 & _ & _). specialize (H1 (i, 1) ltac:(split; cbn; auto)).
    destruct (exit_13 i Hi) as [E _]. rewrite E in H1. rewrite H1.
    destruct (o (i, 1)); destruct (rev (edge_at l (i, 1))); reflexivity.
  Qed.

  Lemma step : forall passed sg rev p, Inv passed sg rev -> InR l p -> ~ In (edge_at l p) passed ->
    (o p = true \/ AllUnder passed) ->
    exists ps rev', traverse_edges l p = Some ps /\
      Inv (map (edge_at l) ps ++ passed) (fold_left (visit_sign l) ps sg) rev' /\
      In (edge_at l p) (map (edge_at l) ps).
  Proof.
    intros passed sg rev p I HpR Hnp Hdir.
    destruct (traverse_valid l Hv p HpR) as (m & Hm & _ & Hc & Hnd & Ht).
    set (O := orbit_list l p m) in *. set (L := map (edge_at l) O).
    exists (O ++ [p]).
    set (b := o p).
    exists (fun e => rev e || (negb b && mem e L)).
    split; [exact Ht|].
    assert (HLc : thru_closed l L) by (apply (labels_thru_closed l Hv p HpR m Hm Hc)).
    assert (HpL : In (edge_at l p) L) by (apply (labels_start l p m Hm)).
    assert (HLp : forall e, In e L -> ~ In e passed).
    { intros e He Hep. apply Hnp. eapply thru_closed_conn; [exact (inv_closed _ _ _ I)| |exact Hep].
      apply conn_sym. apply (labels_conn_start l Hv p HpR m Hm); auto. }
    assert (HOR : forall q, In q O -> InR l q) by (intros q Hq; eapply orbit_list_InR; eauto).
    assert (HOo : forall q, In q O -> o q = b).
    { intros q Hq. apply (orbit_In l p m Hm) in Hq. destruct Hq as [k [_ ->]]. apply o_sig; auto. }
    assert (HinP : forall x, In x (map (edge_at l) (O ++ [p]) ++ passed) <-> In x L \/ In x passed).
    { intros x. rewrite map_app, !in_app_iff. cbn [map In]. fold L. split.
      - intros [[A|[<-|[]]]|A]; auto.
      - intros [A|A]; auto. }
    assert (Hps : forall q, In q (O ++ [p]) -> In q O).
    { intros q Hq. apply in_app_iff in Hq. destruct Hq as [Hq|[<-|[]]]; auto.
      apply (orbit_start l p m Hm). }
    assert (HrevL : forall e, In e L -> rev e = false).
    { intros e He. destruct (rev e) eqn:R; auto. exfalso. apply (HLp e He). apply (inv_rev_in _ _ _ I); auto. }
    assert (Hthru_mem : forall e e', thru l e e' -> mem e L = mem e' L).
    { intros e e' T. apply mem_eq_iff. split; intros A; [eapply HLc; eauto|].
      eapply HLc; [exact A|]. apply thru_sym; auto. }
    (* crossings whose over-strand lies on this orbit *)
    assert (Hover : forall i j, i < length l -> j = 1 \/ j = 3 -> In (i, j) O -> In (ovl i) L).
    { intros i j Hi Hj Hq. assert (In (edge_at l (i, j)) L) as A by (apply in_map; auto).
      destruct Hj as [-> | ->]; [exact A|]. eapply HLc; [exact A|]. apply thru_sym, thru_13; auto. }
    assert (Hwit : forall i, i < length l -> In (ovl i) L -> In (i, 1) O \/ In (i, 3) O).
    { intros i Hi Hin. apply in_map_iff in Hin. destruct Hin as [q [Eq Hq]].
      assert (Hi1 : InR l (i, 1)) by (split; cbn; auto).
      destruct (same_label_cases l Hv (i, 1) q Hi1 (HOR q Hq) Eq) as [-> | ->]; auto.
      right. destruct (orbit_pred l p m Hm Hc _ Hq) as [q' [Hq' Eq']].
      pose proof (sigma_inv l Hv q' (HOR q' Hq')) as SI. rewrite Eq' in SI.
      rewrite (tau_invol l Hv) in SI by auto. destruct (exit_13 i Hi) as [E1 _]. rewrite E1 in SI.
      rewrite SI. exact Hq'. }
    split; [|rewrite map_app; apply in_app_iff; left; exact HpL].
    constructor.
    - intros e e' He T. apply HinP in He. apply HinP. destruct He as [He|He].
      + left. eapply HLc; eauto.
      + right. eapply (inv_closed _ _ _ I); eauto.
    - intros e He. apply HinP. apply orb_true_iff in He. destruct He as [He|He].
      + right. apply (inv_rev_in _ _ _ I); auto.
      + left. apply andb_true_iff in He. apply mem_spec. tauto.
    - intros e e' T. rewrite (inv_rev_thru _ _ _ I e e' T), (Hthru_mem e e' T). reflexivity.
    - intros i Hi. rewrite (inv_rev_under _ _ _ I i Hi). cbn [orb].
      destruct Hdir as [D|D].
      + unfold b. rewrite D. reflexivity.
      + assert (mem (edge_at l (i, 0)) L = false) as ->; [|apply andb_false_r].
        apply mem_false. intros A. apply (HLp _ A). apply D; auto.
    - rewrite fold_visit_length. apply (inv_len _ _ _ I).
    - intros i Hi.
      set (rev' := fun e => rev e || (negb b && mem e L)).
      assert (Hrt' : forall e e', thru l e e' -> rev' e = rev' e').
      { intros e e' T. unfold rev'. rewrite (inv_rev_thru _ _ _ I e e' T), (Hthru_mem e e' T). reflexivity. }
      destruct (mem (ovl i) L) eqn:ML.
      + apply mem_spec in ML.
        assert (mem (ovl i) (map (edge_at l) (O ++ [p]) ++ passed) = true) as ->.
        { apply mem_spec, HinP. auto. }
        apply fold_visit_set.
        * rewrite (inv_len _ _ _ I). exact Hi.
        * intros [i' j] Hq Ei. cbn [fst snd] in *. subst i'. apply Hps in Hq.
          destruct (HOR _ Hq) as [_ Hj]. cbn [snd] in Hj.
          destruct j as [|[|[|[|j]]]]; try lia.
          -- left. apply sign_of_even; auto.
          -- right. apply sign_of_sgn; auto.
             ++ unfold oxr. rewrite (HOo _ Hq). fold rev'. unfold rev'.
                rewrite (HrevL (edge_at l (i, 1))) by (apply in_map; auto).
                assert (mem (edge_at l (i, 1)) L = true) as -> by (apply mem_spec, in_map; auto).
                destruct b; reflexivity.
             ++ apply oxr_13; auto.
          -- left. apply sign_of_even; auto.
          -- right. apply sign_of_sgn; auto.
             ++ unfold oxr. rewrite (HOo _ Hq). fold rev'. unfold rev'.
                rewrite (HrevL (edge_at l (i, 3))) by (apply in_map; auto).
                assert (mem (edge_at l (i, 3)) L = true) as -> by (apply mem_spec, in_map; auto).
                destruct b; reflexivity.
             ++ apply oxr_13; auto.
        * destruct (Hwit i Hi ML) as [W|W]; [exists (i, 1)|exists (i, 3)];
            (split; [apply in_app_iff; auto|]); (split; [reflexivity|]); cbn [snd];
            apply sign_of_sgn; auto; try (apply oxr_13; auto).
          -- unfold oxr. rewrite (HOo _ W). fold rev'. unfold rev'.
             rewrite (HrevL (edge_at l (i, 1))) by (apply in_map; auto).
             assert (mem (edge_at l (i, 1)) L = true) as -> by (apply mem_spec, in_map; auto).
             destruct b; reflexivity.
          -- unfold oxr. rewrite (HOo _ W). fold rev'. unfold rev'.
             rewrite (HrevL (edge_at l (i, 3))) by (apply in_map; auto).
             assert (mem (edge_at l (i, 3)) L = true) as -> by (apply mem_spec, in_map; auto).
             destruct b; reflexivity.
      + pose proof ML as ML'. apply mem_false in ML'.
        rewrite fold_visit_unch.
        * rewrite (inv_sg _ _ _ I i Hi).
          assert (mem (ovl i) (map (edge_at l) (O ++ [p]) ++ passed) = mem (ovl i) passed) as ->.
          { apply eq_true_iff_eq. rewrite !mem_spec, HinP. tauto. }
          destruct (mem (ovl i) passed); auto. f_equal.
          unfold sgn_at, oxr. fold (ovl i). fold rev'. unfold rev'. rewrite ML, andb_false_r, orb_false_r. reflexivity.
        * intros [i' j] Hq Ei. cbn [fst snd] in *. subst i'. apply Hps in Hq.
          destruct (HOR _ Hq) as [_ Hj]. cbn [snd] in Hj.
          destruct j as [|[|[|[|j]]]]; try lia; try (apply sign_of_even; auto; fail);
            exfalso; apply ML'; [apply (Hover i 1 Hi)|apply (Hover i 3 Hi)]; auto.
  Qed.

  Lemma sign_loop_inv : forall starts passed sg rev, Inv passed sg rev ->
    (forall p, In p starts -> InR l p) ->
    ((forall p, In p starts -> o p = true) \/ AllUnder passed) ->
    exists passed' sg' rev', sign_loop l starts passed sg = Some (passed', sg') /\ Inv passed' sg' rev' /\
      incl passed passed' /\ (forall p, In p starts -> In (edge_at l p) passed').
  Proof.
    induction starts as [|p r IH]; intros passed sg rev I HR Hdir.
    - exists passed, sg, rev. cbn. split; auto. split; auto. split; [apply incl_refl|]. intros p [].
    - cbn [sign_loop]. destruct (mem (edge_at l p) passed) eqn:M.
      + apply mem_spec in M.
        destruct (IH passed sg rev I ltac:(intros; apply HR; cbn; auto)
                    ltac:(destruct Hdir as [D|D]; [left; intros; apply D; cbn; auto|right; auto]))
          as (passed' & sg' & rev' & E & I' & Inc & Cov).
        exists passed', sg', rev'. split; auto. split; auto. split; auto.
        intros q [<-|Hq]; auto.
      + apply mem_false in M.
        destruct (step passed sg rev p I ltac:(apply HR; cbn; auto) M
                    ltac:(destruct Hdir as [D|D]; [left; apply D; cbn; auto|right; auto]))
          as (ps & rev1 & Ht & I1 & Hp1).
        rewrite Ht.
        assert (Inc1 : incl passed (map (edge_at l) ps ++ passed)) by (apply incl_appr, incl_refl).
        destruct (IH _ _ rev1 I1 ltac:(intros; apply HR; cbn; auto)
                    ltac:(destruct Hdir as [D|D]; [left; intros; apply D; cbn; auto|
                                                  right; intros i Hi; apply Inc1, D; auto]))
          as (passed' & sg' & rev' & E & I' & Inc & Cov).
        exists passed', sg', rev'. split; auto. split; auto.
        split; [eapply incl_tran; eauto|].
        intros q [<-|Hq]; auto. apply Inc. apply in_app_iff. auto.
  Qed.

  Lemma crossing_num_unres : crossing_num l = length l.
  Proof.
    unfold crossing_num. assert (H : forall c, In c l -> is_resolved c = false).
    { intros c Hc. apply (In_nth _ _ dummy_c) in Hc. destruct Hc as [i [Hi <-]]. apply Hu; auto. }
    clear -H. induction l as [|c l' IH]; cbn; auto. rewrite (H c) by (cbn; auto). cbn.
    rewrite IH; auto. intros; apply H; cbn; auto.
  Qed.

  Lemma flatten_all_some : forall (f : nat -> sign) n (sg : list (option sign)) k, length sg = n ->
    (forall i, i < n -> nth i sg None = Some (f (k + i))) -> flatten_opt sg = map f (seq k n).
  Proof.
    induction n as [|n IH]; intros sg k HL H; destruct sg as [|a sg]; cbn in HL; try lia; [reflexivity|].
    cbn [seq map]. pose proof (H 0 ltac:(lia)) as H0. cbn in H0. rewrite Nat.add_0_r in H0. subst a.
    unfold flatten_opt. cbn [flat_map app]. f_equal. apply (IH sg (S k)); [lia|].
    intros i Hi. specialize (H (S i) ltac:(lia)). cbn [nth] in H. rewrite H. f_equal. f_equal. lia.
  Qed.

  (* the orientation clause *)
  Theorem signs_orientation :
    exists rev : nat -> bool,
      (forall e e', thru l e e' -> rev e = rev e') /\
      (forall i, i < length l -> rev (edge_at l (i, 0)) = false) /\
      crossing_signs l = Some (signs_of l (oxr l o rev)).
  Proof.
    assert (I0 : Inv [] (repeat None (length l)) (fun _ => false)).
    { constructor; auto.
      - intros e e' [].
      - intros e; discriminate.
      - apply repeat_length.
      - intros i Hi. cbn. apply nth_repeat. }
    destruct (sign_loop_inv (starts_j l 0) [] _ _ I0
                ltac:(intros p Hp; apply (starts_j_InR l 0); auto; lia)
                ltac:(left; intros [i j] Hp; apply starts_j_In in Hp; cbn in Hp; destruct Hp as [Hi ->];
                      destruct Ho as (_ & _ & H3); apply H3; auto))
      as (passed0 & sg0 & rev0 & E0 & I1 & _ & Cov0).
    assert (AU : AllUnder passed0).
    { intros i Hi. apply (Cov0 (i, 0)). apply starts_j_In. cbn. auto. }
    (* whatever happens next, we end in a state where every over label is passed *)
    assert (Fin : exists passed' sg' rev',
      (if unsigned_left l sg0 then sign_loop l (starts_j l 1 ++ starts_j l 2) passed0 sg0 else Some (passed0, sg0))
        = Some (passed', sg') /\ Inv passed' sg' rev' /\ forall i, i < length l -> In (ovl i) passed').
    { destruct (unsigned_left l sg0) eqn:UL.
      - destruct (sign_loop_inv (starts_j l 1 ++ starts_j l 2) passed0 sg0 rev0 I1
                    ltac:(intros p Hp; apply in_app_iff in Hp;
                          destruct Hp as [Hp|Hp]; [apply (starts_j_InR l 1)|apply (starts_j_InR l 2)]; auto; lia)
                    ltac:(right; exact AU))
          as (passed' & sg' & rev' & E1 & I2 & _ & Cov1).
        exists passed', sg', rev'. split; auto. split; auto.
        intros i Hi. apply (Cov1 (i, 1)). apply in_app_iff. left. apply starts_j_In. cbn. auto.
      - exists passed0, sg0, rev0. split; auto. split; auto.
        intros i Hi. unfold unsigned_left in UL.
        assert (A : negb (is_resolved (cross_at l i)) && is_none (nth i sg0 None) = false).
        { destruct (negb (is_resolved (cross_at l i)) && is_none (nth i sg0 None)) eqn:B; auto.
          assert (existsb (fun i => negb (is_resolved (cross_at l i)) && is_none (nth i sg0 None))
                    (seq 0 (length l)) = true); [|congruence].
          apply existsb_exists. exists i. split; auto. apply in_seq. lia. }
        rewrite (Hu i Hi) in A. cbn [negb andb] in A.
        rewrite (inv_sg _ _ _ I1 i Hi) in A.
        destruct (mem (ovl i) passed0) eqn:M; [apply mem_spec; auto|discriminate]. }
    destruct Fin as (passed' & sg' & rev' & E1 & I2 & Cov).
    exists rev'. split; [apply (inv_rev_thru _ _ _ I2)|]. split; [apply (inv_rev_under _ _ _ I2)|].
    unfold crossing_signs. rewrite E0, E1.
    assert (flatten_opt sg' = signs_of l (oxr l o rev')) as ->.
    { unfold signs_of. apply flatten_all_some; [apply (inv_len _ _ _ I2)|].
      intros i Hi. rewrite (inv_sg _ _ _ I2 i Hi).
      assert (mem (ovl i) passed' = true) as -> by (apply mem_spec; auto). reflexivity. }
    unfold signs_of at 1. rewrite map_length, seq_length, crossing_num_unres, Nat.eqb_refl. reflexivity.
  Qed.

  (* o with the components in rev reversed is again an orientation *)
  Lemma oxr_Oriented : forall rev, (forall e e', thru l e e' -> rev e = rev e') ->
    (forall i, i < length l -> rev (edge_at l (i, 0)) = false) -> Oriented l (oxr l o rev).
  Proof.
    intros rev Hr H0. destruct Ho as (H1 & H2 & H3). split; [|split].
    - intros p Hp. unfold oxr. rewrite H1 by auto.
      assert (rev (edge_at l (exit_of l p)) = rev (edge_at l p)) as ->.
      { symmetry. apply Hr. exists p. auto. }
      destruct (o p); destruct (rev (edge_at l p)); reflexivity.
    - intros p Hp. unfold oxr. rewrite H2 by auto. rewrite (tau_label l Hv) by auto.
      destruct (o p); destruct (rev (edge_at l p)); reflexivity.
    - intros i Hi. unfold oxr. rewrite H3, H0 by auto. reflexivity.
  Qed.
End Orient.
