(* C06 (ss oracle) - the d of [ss_spec] is the divisibility of Lee's class in H^0 / torsion and does not
   depend on the coordinate system: the free coordinates [free_coords D z] used by [ss_spec] are the first
   [rank] entries of p z for the forward matrix p of the returned transform, and for EVERY other coordinate
   system (p', q', tors') of the homology of (d^{-1}, d^0) with [gens_ok], [complete_ok] and non-zero
   torsion orders, [div_c] of the free part of p' z is the same number. *)
From Coq Require Import List Arith Bool ZArith Lia.
Require Import Yui.Base.Ring Yui.Base.MatF Yui.Base.MatL.
Require Import Yui.Model.KhCube Yui.Model.HomologyCalc Yui.Model.KhSs.
Require Yui.Model.Snf.
Require Import Yui.Proofs.C07Algebra Yui.Proofs.C07Calc Yui.Proofs.C07UctCalc Yui.Proofs.C07MergeTrans Yui.Proofs.C07MergeComplex.
Require Import Yui.Proofs.C06SsDiv Yui.Proofs.C06SsCoords Yui.Proofs.C06SsIndep.
Import ListNotations.
Open Scope Z_scope.

Local Notation mvZ := (mvec Z_ring).
Local Notation mg := (mget Z_ring).
Local Notation vg := (vget Z_ring).

Lemma nth_tab (f : nat -> Z) k i : (i < k)%nat -> nth i (map f (seq 0 k)) 0 = f i.
Proof.
  intros H. rewrite nth_indep with (d' := f O) by (rewrite map_length, seq_length; lia).
  rewrite (map_nth f), seq_nth by lia. reflexivity.
Qed.

(* the canonical chains are cycles in the sense of the functional matrices *)
Lemma is_cycle_spec d2 z : length z = nc d2 -> is_cycle d2 z = true ->
  forall i, (i < nr d2)%nat -> mvZ (nc d2) (mg d2) (vg z) i = 0.
Proof.
  intros Hl H i Hi. unfold is_cycle, mat_vec in H. rewrite <- Hl, Nat.eqb_refl in H.
  unfold all_zero in H. rewrite forallb_forall in H.
  rewrite <- Hl. symmetry. apply Z.eqb_eq. apply H.
  apply in_map_iff. exists i. split; [reflexivity|]. apply in_seq. lia.
Qed.

(* the torsion orders are non-zero *)
Lemma ss_setup_tors_nz l c red D : ss_setup l c red = Some D -> tors_nz (sd_tors D).
Proof.
  intros H. destruct (ss_setup_ok _ _ _ _ H) as [W1 W2 En Hdd _ Hc _].
  destruct (calculate_rank_tors Z_ring Z_ring_laws Z_integral Snf.Z_is_unit Z_isu_complete ss_snf Z_isu_sound
              _ _ _ _ _ _ ss_snf_contract W1 W2 Hdd Hc)
    as [_ [r1 [r2 [a [b [t [S1 [_ [_ [_ [_ [Ht [Hle [Htors _]]]]]]]]]]]]]].
  destruct S1 as [P [Pi [Q [Qi [_ [_ [_ [Hnz _]]]]]]]].
  intros s Hs. rewrite Htors in *. rewrite map_length, seq_length in Hs.
  rewrite nth_indep with (d' := a O) by (rewrite map_length, seq_length; lia).
  rewrite (map_nth a), seq_nth by lia. apply Hnz. lia.
Qed.

(* what [free_coords] computes *)
Lemma ss_free_coords_spec l c red D z :
  ss_setup l c red = Some D -> In z (sd_chains D) ->
  exists p v,
    forward_mat Z_ring (sd_trans D) = Some p /\ free_coords D z = Some v /\
    v = map (fun i => mvZ (nr (sd_d1 D)) (mg p) (vg z) i) (seq 0 (sd_rank D)).
Proof.
  intros H Hz. destruct (ss_setup_ok _ _ _ _ H) as [W1 W2 En Hdd Hcy Hc _].
  destruct (Hcy z Hz) as [Hl _].
  pose proof (calculate_trans_ok _ _ _ _ _ _ _ _ _ Hc) as Okt.
  destruct (calculate_generators Z_ring Z_ring_laws Z_integral Snf.Z_is_unit Z_isu_complete ss_snf Z_isu_sound
              _ _ _ _ _ ss_snf_contract W1 W2 Hdd Hc) as [t [p [q [Et [Hp [_ [Hsrc [Htgt _]]]]]]]].
  injection Et as <-.
  destruct (forward_mat_spec Z_ring Z_ring_laws _ Okt) as [p' [Hp' [_ [_ Hm]]]].
  rewrite Hp in Hp'. injection Hp' as <-.
  destruct (forward_spec Z_ring Z_ring_laws (sd_trans D) z Okt ltac:(now rewrite Hsrc)) as [w [Hw [Lw Hv]]].
  exists p, (firstn (sd_rank D) w). split; [exact Hp|]. split.
  - unfold free_coords. rewrite Hw. reflexivity.
  - apply nth_ext with (d := 0) (d' := 0).
    + rewrite firstn_length, map_length, seq_length. lia.
    + intros i Hi. rewrite firstn_length in Hi.
      rewrite nth_firstn_lt by lia.
      rewrite nth_tab by lia.
      change (nth i w 0) with (vg w i). rewrite Hv by lia. rewrite Hsrc.
      unfold mvec. apply (sum_ext Z_ring). intros k Hk. rewrite Hm by lia. reflexivity.
Qed.

(* independence of the coordinate system *)
Theorem ss_div_route_independent l c red D z v :
  ss_setup l c red = Some D -> In z (sd_chains D) -> free_coords D z = Some v ->
  forall (tors' : list Z) (p' q' : dmat Z),
    gens_ok Z_ring (sd_d1 D) (sd_d2 D) (sd_rank D) tors' p' q' ->
    complete_ok Z_ring (sd_d1 D) (sd_d2 D) (sd_rank D) tors' p' q' ->
    tors_nz tors' ->
    div_c c (map (fun i => mvZ (nr (sd_d1 D)) (mg p') (vg z) i) (seq 0 (sd_rank D))) = div_c c v.
Proof.
  intros H Hz Hv tors' p' q' G2 C2 T2.
  assert (Hc : 2 <= Z.abs c).
  { unfold ss_setup in H. destruct (Z.abs c <? 2) eqn:E; [discriminate|]. apply Z.ltb_ge in E. exact E. }
  destruct (ss_free_coords_spec _ _ _ _ _ H Hz) as [p [v0 [Hp [Hv0 Ev]]]].
  rewrite Hv in Hv0. injection Hv0 as <-.
  destruct (ss_setup_coordinates _ _ _ _ H) as [p0 [q [Hp0 [_ [G1 C1]]]]].
  rewrite Hp in Hp0. injection Hp0 as <-.
  pose proof (ss_setup_tors_nz _ _ _ _ H) as T1.
  destruct (ss_setup_ok _ _ _ _ H) as [_ _ En _ Hcy _ _].
  destruct (Hcy z Hz) as [Hl Hcz].
  assert (Zc : forall i, (i < nr (sd_d2 D))%nat -> mvZ (nr (sd_d1 D)) (mg (sd_d2 D)) (vg z) i = 0).
  { rewrite En. apply is_cycle_spec; [now rewrite <- En|exact Hcz]. }
  rewrite Ev. apply div_c_same; [exact Hc|]. intros m. rewrite !divides_all_tab.
  symmetry. exact (free_divisibility_independent _ _ _ _ _ _ _ _ _ (vg z) m G1 C1 T1 G2 C2 T2 Zc).
Qed.

Lemma omap_all {A B : Type} (f : A -> option B) zs : forall ds, omap f zs = Some ds ->
  forall z, In z zs -> exists y, f z = Some y /\ In y ds.
Proof.
  induction zs as [|z0 zs IH]; intros ds H z Hz; [destruct Hz|].
  cbn [omap] in H. destruct (f z0) as [y0|] eqn:E0; cbn [obind] in H; [|discriminate].
  destruct (omap f zs) as [ys|] eqn:E1; cbn [obind] in H; [|discriminate]. injection H as <-.
  destruct Hz as [<-|Hz].
  - exists y0. split; [exact E0|now left].
  - destruct (IH ys eq_refl z Hz) as [y [Hy Hin]]. exists y. split; [exact Hy|now right].
Qed.

(* the value: ss = 2 d + w - r + 1 with d characterised by divisibility *)
Theorem ss_spec_value l c red s :
  ss_spec l c red = Some s ->
  exists D d,
    ss_setup l c red = Some D /\ s = 2 * Z.of_nat d + sd_w D - sd_r D + 1 /\
    sd_chains D <> [] /\
    forall z, In z (sd_chains D) ->
      exists v, free_coords D z = Some v /\ ~ is_zero_vec v /\
                divides_all (cpow c d) v /\ ~ divides_all (cpow c (S d)) v.
Proof.
  unfold ss_spec. intros H.
  destruct (ss_setup l c red) as [D|] eqn:E; cbn [obind] in H; [|discriminate].
  destruct (ss_divs D c) as [ds|] eqn:E0; cbn [obind] in H; [|discriminate].
  assert (Hc : 2 <= Z.abs c).
  { unfold ss_setup in E. destruct (Z.abs c <? 2) eqn:E'; [discriminate|]. apply Z.ltb_ge in E'. exact E'. }
  destruct ds as [|d r]; [discriminate|].
  destruct (forallb (Nat.eqb d) r) eqn:Eall; [|discriminate]. injection H as <-.
  exists D, d. split; [reflexivity|]. split; [reflexivity|].
  assert (Hds : forall x, In x (d :: r) -> x = d).
  { intros x [<-|Hx]; [reflexivity|]. rewrite forallb_forall in Eall. symmetry. now apply Nat.eqb_eq, Eall. }
  unfold ss_divs in E0.
  split.
  - intros En. rewrite En in E0. cbn in E0. discriminate.
  - intros z Hz. destruct (omap_all _ _ _ E0 z Hz) as [y [Hy Hin]].
    destruct (free_coords D z) as [v|] eqn:Ev; cbn [obind] in Hy; [|discriminate].
    exists v. split; [reflexivity|]. rewrite (Hds y Hin) in Hy.
    apply (div_c_characterised c v d Hc). exact Hy.
Qed.

(* ---------- packaged statements for Properties/C06Ss.v ---------- *)
Lemma ss_vocabulary :
  (forall c k, cpow c k = c ^ Z.of_nat k) /\
  (forall m v, divides_all m v <-> forall a, In a v -> (m | a)) /\
  (forall v, is_zero_vec v <-> forall a, In a v -> a = 0) /\
  (forall U v, mv U v = map (fun r => dot r v) U) /\
  (forall x r y v, dot (x :: r) (y :: v) = x * y + dot r v) /\
  (forall v, dot [] v = 0) /\ (forall r, dot r [] = 0) /\
  (forall tors, tors_nz tors <-> forall s, (s < length tors)%nat -> nth s tors 0 <> 0).
Proof.
  split; [reflexivity|]. split; [intros; apply Forall_forall|]. split; [intros; apply Forall_forall|].
  split; [reflexivity|]. split; [reflexivity|]. split; [reflexivity|]. split; [intros []; reflexivity|].
  intros; reflexivity.
Qed.

Lemma ss_setup_complex l c red D : ss_setup l c red = Some D ->
  2 <= Z.abs c /\
  mwf (sd_d1 D) /\ mwf (sd_d2 D) /\ nr (sd_d1 D) = nc (sd_d2 D) /\
  zero_prod Z_ring (sd_d1 D) (sd_d2 D) /\
  (forall z, In z (sd_chains D) ->
     length z = nr (sd_d1 D) /\
     forall i, (i < nr (sd_d2 D))%nat -> mvZ (nr (sd_d1 D)) (mg (sd_d2 D)) (vg z) i = 0).
Proof.
  intros H. split.
  { unfold ss_setup in H. destruct (Z.abs c <? 2) eqn:E; [discriminate|]. now apply Z.ltb_ge in E. }
  destruct (ss_setup_ok _ _ _ _ H) as [W1 W2 En Hdd Hcy _ _].
  split; [exact W1|]. split; [exact W2|]. split; [exact En|]. split; [exact Hdd|].
  intros z Hz. destruct (Hcy z Hz) as [Hl Hc]. split; [exact Hl|].
  rewrite En. apply is_cycle_spec; [now rewrite <- En|exact Hc].
Qed.

Lemma ss_setup_coordinates_nz l c red D : ss_setup l c red = Some D ->
  exists p q : dmat Z,
    forward_mat Z_ring (sd_trans D) = Some p /\ backward_mat Z_ring (sd_trans D) = Some q /\
    gens_ok Z_ring (sd_d1 D) (sd_d2 D) (sd_rank D) (sd_tors D) p q /\
    complete_ok Z_ring (sd_d1 D) (sd_d2 D) (sd_rank D) (sd_tors D) p q /\
    tors_nz (sd_tors D).
Proof.
  intros H. destruct (ss_setup_coordinates _ _ _ _ H) as [p [q [Hp [Hq [G C]]]]].
  exists p, q. split; [exact Hp|]. split; [exact Hq|]. split; [exact G|]. split; [exact C|].
  exact (ss_setup_tors_nz _ _ _ _ H).
Qed.

Lemma ss_spec_parity l c red s : ss_spec l c red = Some s ->
  exists D : ss_data, ss_setup l c red = Some D /\ (s - (sd_w D - sd_r D + 1)) mod 2 = 0.
Proof.
  intros H. destruct (ss_spec_value _ _ _ _ H) as [D [d [HD [-> _]]]].
  exists D. split; [exact HD|].
  replace (2 * Z.of_nat d + sd_w D - sd_r D + 1 - (sd_w D - sd_r D + 1)) with (Z.of_nat d * 2) by lia.
  apply Z.mod_mul. lia.
Qed.

Lemma ss_spec_rejects_units l c red : Z.abs c < 2 -> ss_spec l c red = None.
Proof. intros H. unfold ss_spec, ss_setup. apply Z.ltb_lt in H. rewrite H. reflexivity. Qed.
