(* Evaluation of monomials is multiplicative (Var, Var2, Var3 with usize exponents), hence [eval1/2/3]
   are ring homomorphisms (instances of the generic theorems of C16Poly); HPoly lemmas; the ring Z[i]
   as a second instance of [ring_laws] (non-vacuity of the ring-generic theorems beyond Z). *)
From Coq Require Import List Bool Arith NArith ZArith Lia Ring.
Require Import Yui.Base.Ring Yui.Model.Lc Yui.Model.Mono Yui.Model.Poly.
Require Import Yui.Proofs.C16Lc Yui.Proofs.C16Mono Yui.Proofs.C16Poly.
Import ListNotations.

Section EvalMono.
  Context {R : Type} (o : ring_ops R) (L : ring_laws o).
  Add Ring Re : (ring_theory_of_laws o L).

  Lemma npow_add x n k : npow o x (n + k) = rmul o (npow o x n) (npow o x k).
  Proof. induction n as [|n IH]; cbn [npow Nat.add]; [ring|]. rewrite IH. ring. Qed.
  Lemma rpow_add x i j : rpow o x (i + j) = rmul o (rpow o x i) (rpow o x j).
  Proof. unfold rpow. rewrite N2Nat.inj_add. apply npow_add. Qed.
  Lemma rpow_0 x : rpow o x 0 = rone o.
  Proof. reflexivity. Qed.

  Lemma ev1_one x : ev1 o x (mone (var_mono N_exp)) = rone o.
  Proof. reflexivity. Qed.
  Lemma ev1_mul x i j : ev1 o x (mmul (var_mono N_exp) i j) = rmul o (ev1 o x i) (ev1 o x j).
  Proof. cbn [mmul var_mono eadd N_exp]. apply rpow_add. Qed.

  Lemma ev2_one x y : ev2 o x y (mone (var2_mono N_exp)) = rone o.
  Proof. unfold ev2. cbn [mone var2_mono fst snd ezero N_exp]. rewrite !rpow_0. ring. Qed.
  Lemma ev2_mul x y i j : ev2 o x y (mmul (var2_mono N_exp) i j) = rmul o (ev2 o x y i) (ev2 o x y j).
  Proof. unfold ev2. cbn [mmul var2_mono fst snd eadd N_exp]. rewrite !rpow_add. ring. Qed.

  Lemma ev3_one x y z : ev3 o x y z (mone (var3_mono N_exp)) = rone o.
  Proof. unfold ev3. cbn [mone var3_mono fst snd ezero N_exp]. rewrite !rpow_0. ring. Qed.
  Lemma ev3_mul x y z i j : ev3 o x y z (mmul (var3_mono N_exp) i j) = rmul o (ev3 o x y z i) (ev3 o x y z j).
  Proof. unfold ev3. cbn [mmul var3_mono fst snd eadd N_exp]. unfold v3_0, v3_1, v3_2. rewrite !rpow_add. ring. Qed.

  (* ---------- HPoly ---------- *)
  Lemma h_is_zero_iff (a : hpoly) : h_is_zero o a = true <-> hco a = rzero o.
  Proof. unfold h_is_zero, ris_zero. apply (reqb_eq o L). Qed.

  Theorem h_eqb_iff (a b : hpoly) : h_eqb o a b = true <-> forall k, h_coeff o a k = h_coeff o b k.
  Proof.
    unfold h_eqb, h_coeff. destruct (h_is_zero o a) eqn:Za, (h_is_zero o b) eqn:Zb; cbn [andb].
    - apply h_is_zero_iff in Za, Zb. split; [|reflexivity]. intros _ k. rewrite Za, Zb.
      now destruct (k =? hdeg a)%N, (k =? hdeg b)%N.
    - apply h_is_zero_iff in Za. rewrite andb_true_iff, N.eqb_eq, (reqb_eq o L). split.
      + intros [-> ->]. reflexivity.
      + intros H. specialize (H (hdeg b)). rewrite N.eqb_refl, Za in H.
        assert (hco b = rzero o) by (destruct (hdeg b =? hdeg a)%N; congruence).
        apply h_is_zero_iff in H0. congruence.
    - apply h_is_zero_iff in Zb. rewrite andb_true_iff, N.eqb_eq, (reqb_eq o L). split.
      + intros [-> ->]. reflexivity.
      + intros H. specialize (H (hdeg a)). rewrite N.eqb_refl, Zb in H.
        assert (hco a = rzero o) by (destruct (hdeg a =? hdeg b)%N; congruence).
        apply h_is_zero_iff in H0. congruence.
    - rewrite andb_true_iff, N.eqb_eq, (reqb_eq o L). split.
      + intros [-> ->]. reflexivity.
      + intros H. assert (Na : hco a <> rzero o) by (intros E; apply h_is_zero_iff in E; congruence).
        pose proof (H (hdeg a)) as Ha. rewrite N.eqb_refl in Ha.
        destruct (N.eqb_spec (hdeg a) (hdeg b)) as [E|N]; [split; assumption|]. congruence.
  Qed.

  Theorem h_add_spec (a b c : hpoly) : h_add o a b = Some c -> forall k, h_coeff o c k = radd o (h_coeff o a k) (h_coeff o b k).
  Proof.
    unfold h_add, h_coeff. destruct (h_is_zero o a) eqn:Za.
    - intros [= <-] k. apply h_is_zero_iff in Za. rewrite Za. destruct (k =? hdeg a)%N; ring.
    - destruct (h_is_zero o b) eqn:Zb.
      + intros [= <-] k. apply h_is_zero_iff in Zb. rewrite Zb. destruct (k =? hdeg b)%N; ring.
      + destruct (N.eqb_spec (hdeg a) (hdeg b)) as [E|N]; [|discriminate]. intros [= <-] k. cbn. rewrite E.
        destruct (k =? hdeg b)%N; ring.
  Qed.
  (* the sum of two non-zero terms of different degrees is not homogeneous: the call panics *)
  Theorem h_add_none (a b : hpoly) :
    h_add o a b = None <-> hco a <> rzero o /\ hco b <> rzero o /\ hdeg a <> hdeg b.
  Proof.
    unfold h_add. destruct (h_is_zero o a) eqn:Za; [|destruct (h_is_zero o b) eqn:Zb].
    - apply h_is_zero_iff in Za. split; [discriminate|]. intros [H _]. contradiction.
    - apply h_is_zero_iff in Zb. split; [discriminate|]. intros [_ [H _]]. contradiction.
    - assert (Na : hco a <> rzero o) by (intros E; apply h_is_zero_iff in E; congruence).
      assert (Nb : hco b <> rzero o) by (intros E; apply h_is_zero_iff in E; congruence).
      destruct (N.eqb_spec (hdeg a) (hdeg b)); split; try discriminate; try tauto.
  Qed.
  Theorem h_neg_spec (a : hpoly) k : h_coeff o (h_neg o a) k = rneg o (h_coeff o a k).
  Proof. unfold h_coeff, h_neg. cbn. destruct (k =? hdeg a)%N; ring. Qed.
  Theorem h_sub_spec (a b c : hpoly) : h_sub o a b = Some c ->
    forall k, h_coeff o c k = radd o (h_coeff o a k) (rneg o (h_coeff o b k)).
  Proof.
    unfold h_sub. destruct (h_is_zero o a) eqn:Za.
    - intros [= <-] k. rewrite h_neg_spec. unfold h_coeff. apply h_is_zero_iff in Za. rewrite Za.
      destruct (k =? hdeg a)%N; ring.
    - destruct (h_is_zero o b) eqn:Zb.
      + intros [= <-] k. unfold h_coeff. apply h_is_zero_iff in Zb. rewrite Zb. destruct (k =? hdeg b)%N; ring.
      + destruct (N.eqb_spec (hdeg a) (hdeg b)) as [E|N]; [|discriminate]. intros [= <-] k. unfold h_coeff, rsub. cbn.
        rewrite E. destruct (k =? hdeg b)%N; ring.
  Qed.
  Theorem h_smul_spec (a : hpoly) c k : h_coeff o (h_smul o a c) k = rmul o (h_coeff o a k) c.
  Proof.
    unfold h_smul, h_coeff. destruct (ris_one o c) eqn:E.
    - apply (reqb_eq o L) in E. subst c. destruct (k =? hdeg a)%N; ring.
    - cbn. destruct (k =? hdeg a)%N; ring.
  Qed.
  (* product of the two terms: coefficient of X^k is ca*cb when k = da + db *)
  Theorem h_mul_spec (a b : hpoly) k :
    h_coeff o (h_mul o a b) k = if (k =? hdeg a + hdeg b)%N then rmul o (hco a) (hco b) else rzero o.
  Proof.
    unfold h_mul, h_coeff, h_is_one. destruct (N.eqb_spec (hdeg b) 0) as [E|N]; cbn [andb].
    - destruct (ris_one o (hco b)) eqn:E1.
      + apply (reqb_eq o L) in E1. rewrite E, E1, N.add_0_r. destruct (k =? hdeg a)%N; ring.
      + reflexivity.
    - reflexivity.
  Qed.
End EvalMono.

(* ---------- Z[i] satisfies the ring laws ---------- *)
Lemma Gauss_ring_laws : ring_laws Gauss_ring.
Proof.
  constructor; unfold Gauss_ring; cbn [radd rmul rneg rone rzero reqb].
  - intros [a1 a2] [b1 b2]. cbn [fst snd]. f_equal; ring.
  - intros [a1 a2] [b1 b2] [c1 c2]. cbn [fst snd]. f_equal; ring.
  - intros [a1 a2]. cbn [fst snd]. f_equal; ring.
  - intros [a1 a2]. cbn [fst snd]. f_equal; ring.
  - intros [a1 a2] [b1 b2]. cbn [fst snd]. f_equal; ring.
  - intros [a1 a2] [b1 b2] [c1 c2]. cbn [fst snd]. f_equal; ring.
  - intros [a1 a2]. cbn [fst snd]. f_equal; ring.
  - intros [a1 a2] [b1 b2] [c1 c2]. cbn [fst snd]. f_equal; ring.
  - intros [a1 a2] [b1 b2]. cbn [fst snd]. rewrite andb_true_iff, !Z.eqb_eq. split; [intros []|intros [=]]; subst; auto.
Qed.
