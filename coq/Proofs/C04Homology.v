(* C04 - passing to homology does not change the graded Euler characteristic (telescoping), for any finite
   bigraded complex given by its dimension table and the ranks of its differentials; and a table whose
   dimensions are the generator counts of the cube has the Euler polynomial of the cube. *)
From Coq Require Import List Arith Bool ZArith Lia.
Require Import Yui.Model.Link Yui.Model.Jones Yui.Proofs.C04Poly Yui.Proofs.C04Euler.
Import ListNotations.
Local Open Scope Z_scope.

(* the boundary term left over by the telescoping sum: +- the rank of the last differential *)
Fixpoint tail_term (sgn prev : Z) (c : column) : Z :=
  match c with [] => sgn * prev | (_, r) :: c' => tail_term (- sgn) r c' end.

Lemma alt_hom_telescope : forall c sgn prev,
  alt_hom sgn prev c = alt_dim sgn c - sgn * prev + tail_term sgn prev c.
Proof.
  induction c as [|[d r] c IH]; intros sgn prev; cbn [alt_hom alt_dim tail_term]; [lia|].
  rewrite IH. lia.
Qed.

Lemma tail_term_last : forall c sgn prev d r, exists s, (s = 1 \/ s = -1) /\
  tail_term sgn prev ((d, r) :: c) = s * sgn * snd (last ((d, r) :: c) (0, 0)).
Proof.
  induction c as [|[d' r'] c IH]; intros sgn prev d r.
  - exists (-1). split; [auto | cbn [tail_term last snd]; lia].
  - destruct (IH (- sgn) r d' r') as (s & Hs & E). exists (- s). split; [lia|].
    change (tail_term sgn prev ((d, r) :: (d', r') :: c)) with (tail_term (- sgn) r ((d', r') :: c)).
    rewrite E. change (last ((d, r) :: (d', r') :: c) (0, 0)) with (last ((d', r') :: c) (0, 0)). lia.
Qed.

(* rank H^i := dim C^i - rank d_i - rank d_(i-1), nothing enters the first degree, the last differential
   is zero: the alternating sums of rank H and of dim coincide *)
Theorem column_euler : forall c sgn, last_rank c = 0 -> alt_hom sgn 0 c = alt_dim sgn c.
Proof.
  intros c sgn H. rewrite alt_hom_telescope. destruct c as [|[d r] c]; [cbn; lia|].
  destruct (tail_term_last c sgn 0 d r) as (s & _ & E). rewrite E.
  unfold last_rank in H. rewrite H. lia.
Qed.

Theorem table_euler : forall sgn tbl, (forall jc, In jc tbl -> last_rank (snd jc) = 0) ->
  euler_of_table (alt_hom sgn 0) tbl = euler_of_table (alt_dim sgn) tbl.
Proof.
  intros sgn. unfold euler_of_table. induction tbl as [|[j c] t IH]; intros H; cbn [fold_right fst snd]; auto.
  rewrite IH by (intros; apply H; cbn; auto). rewrite (column_euler c sgn); auto. apply (H (j, c)). cbn; auto.
Qed.

(* ---------------------------------------------------------------------------------------------- *)
(* the dimension table of the cube *)
(* [tbl] lists, for pairwise distinct q-degrees j, the column of (dim, rank) for h = i0, i0+1, ...;
   it is a table of the cube when dim = number of generators in that bidegree and no generator lies
   outside the table *)
Definition dims_match (gens : list (Z * Z)) (i0 : Z) (tbl : list (Z * column)) : Prop :=
  NoDup (map fst tbl) /\
  (forall j c k, In (j, c) tbl -> (k < length c)%nat ->
     fst (nth k c (0, 0)) = Z.of_nat (gen_count gens (i0 + Z.of_nat k) j)) /\
  (forall h j, In (h, j) gens -> exists c, In (j, c) tbl /\ i0 <= h < i0 + Z.of_nat (length c)).

Lemma alt_dim_sum : forall c sgn,
  alt_dim sgn c = zsum (fun k => sgn * sgn_nat k * fst (nth k c (0, 0))) (seq 0 (length c)).
Proof.
  induction c as [|[d r] c IH]; intros sgn; [reflexivity|].
  cbn [alt_dim length seq]. rewrite zsum_cons, IH. cbn [nth fst]. f_equal; [unfold sgn_nat; cbn; lia|].
  rewrite <- seq_shift, zsum_map. apply zsum_ext. intros k _. cbn [nth]. rewrite sgn_nat_S. lia.
Qed.

Lemma gen_count_sum : forall gens i j,
  Z.of_nat (gen_count gens i j) = zsum (fun g => if (fst g =? i) && (snd g =? j) then 1 else 0) gens.
Proof.
  unfold gen_count. induction gens as [|g gens IH]; intros i j; [reflexivity|].
  cbn [filter]. rewrite zsum_cons. destruct ((fst g =? i) && (snd g =? j)); cbn [length]; rewrite <- IH; lia.
Qed.

Lemma zsum_seq_single : forall (f : nat -> Z) n k, (k < n)%nat ->
  zsum (fun i => if (i =? k)%nat then f i else 0) (seq 0 n) = f k.
Proof.
  intros f n k Hk. replace n with (k + (1 + (n - k - 1)))%nat by lia.
  rewrite !seq_app, !zsum_app. cbn [seq]. rewrite !Nat.add_0_l, zsum_cons, zsum_nil, Nat.eqb_refl.
  rewrite (zsum_ext _ _ (fun _ => 0)), zsum_zero.
  - rewrite (zsum_ext _ _ (fun _ => 0)), zsum_zero; [lia|].
    intros i Hi. apply in_seq in Hi. destruct (Nat.eqb_spec i k); auto; lia.
  - intros i Hi. apply in_seq in Hi. destruct (Nat.eqb_spec i k); auto; lia.
Qed.

Lemma hsign_shift : forall i0 k, hsign (i0 + Z.of_nat k) = hsign i0 * sgn_nat k.
Proof. intros. rewrite hsign_add, hsign_of_nat. reflexivity. Qed.

Theorem cube_table_euler : forall gens i0 tbl, dims_match gens i0 tbl ->
  euler_of_table (alt_dim (hsign i0)) tbl = euler_poly gens.
Proof.
  intros gens i0 tbl (ND & HD & HC). apply canon_ext.
  - apply euler_of_table_canon.
  - apply euler_poly_canon.
  - intros e. rewrite coeff_euler_of_table, coeff_euler_poly.
    (* both sides as sums over the generators *)
    transitivity (zsum (fun jc => zsum (fun g => if (fst jc =? e) && (snd g =? e) &&
                    ((i0 <=? fst g) && (fst g <? i0 + Z.of_nat (length (snd jc)))) then hsign (fst g) else 0) gens) tbl).
    + apply zsum_ext. intros [j c] Hjc. cbn [fst snd].
      destruct (Z.eqb_spec j e) as [->|Ne]; [|rewrite zsum_zero; reflexivity].
      rewrite alt_dim_sum.
      transitivity (zsum (fun k => zsum (fun g => if (fst g =? i0 + Z.of_nat k) && (snd g =? e)
                                       then hsign (fst g) else 0) gens) (seq 0 (length c))).
      * apply zsum_ext. intros k Hk. apply in_seq in Hk. rewrite (HD e c k Hjc ltac:(lia)), gen_count_sum, zsum_scal.
        apply zsum_ext. intros g _. destruct (Z.eqb_spec (fst g) (i0 + Z.of_nat k)) as [->|N]; cbn [andb].
        { rewrite hsign_shift. destruct (snd g =? e); lia. }
        { lia. }
      * rewrite zsum_swap. apply zsum_ext. intros [h q] _. cbn [fst snd andb].
        destruct (Z.eqb_spec q e) as [->|Nq].
        { destruct (Z.leb_spec i0 h); destruct (Z.ltb_spec h (i0 + Z.of_nat (length c))); cbn [andb].
          - rewrite (zsum_ext _ _ (fun k => if (k =? Z.to_nat (h - i0))%nat then hsign h else 0)).
            + apply (zsum_seq_single (fun _ => hsign h)). lia.
            + intros k _. rewrite andb_true_r.
              destruct (Z.eqb_spec h (i0 + Z.of_nat k)); destruct (Nat.eqb_spec k (Z.to_nat (h - i0))); auto; lia.
          - rewrite (zsum_ext _ _ (fun _ => 0)), zsum_zero; auto. intros k Hk. apply in_seq in Hk.
            destruct (Z.eqb_spec h (i0 + Z.of_nat k)); auto; lia.
          - rewrite (zsum_ext _ _ (fun _ => 0)), zsum_zero; auto. intros k Hk. apply in_seq in Hk.
            destruct (Z.eqb_spec h (i0 + Z.of_nat k)); auto; lia.
          - rewrite (zsum_ext _ _ (fun _ => 0)), zsum_zero; auto. intros k Hk. apply in_seq in Hk.
            destruct (Z.eqb_spec h (i0 + Z.of_nat k)); auto; lia. }
        { rewrite (zsum_ext _ _ (fun _ => 0)), zsum_zero; auto. intros k _. rewrite andb_false_r. reflexivity. }
    + rewrite zsum_swap. apply zsum_ext. intros [h q] Hg. cbn [fst snd].
      destruct (Z.eqb_spec q e) as [->|Nq].
      * (* exactly one column has q-degree e, and h lies in its range *)
        destruct (HC h e Hg) as (c & Hc & Hr).
        apply in_split in Hc. destruct Hc as (t1 & t2 & ->).
        rewrite map_app in ND. cbn [map fst] in ND.
        assert (N1 : forall jc, In jc t1 -> fst jc <> e).
        { intros jc Hjc E. apply NoDup_remove_2 in ND. apply ND. apply in_app_iff. left.
          rewrite <- E. apply in_map; auto. }
        assert (N2 : forall jc, In jc t2 -> fst jc <> e).
        { intros jc Hjc E. apply NoDup_remove_2 in ND. apply ND. apply in_app_iff. right.
          rewrite <- E. apply in_map; auto. }
        rewrite zsum_app, zsum_cons. cbn [fst snd]. rewrite Z.eqb_refl. cbn [andb].
        rewrite (zsum_ext _ _ (fun _ => 0) t1), zsum_zero.
        2: { intros [j' c'] Hjc. cbn [fst snd]. assert (j' =? e = false) as -> by (apply Z.eqb_neq; apply (N1 (j', c')); auto). reflexivity. }
        rewrite (zsum_ext _ _ (fun _ => 0) t2), zsum_zero.
        2: { intros [j' c'] Hjc. cbn [fst snd]. assert (j' =? e = false) as -> by (apply Z.eqb_neq; apply (N2 (j', c')); auto). reflexivity. }
        destruct (Z.leb_spec i0 h); destruct (Z.ltb_spec h (i0 + Z.of_nat (length c))); cbn [andb]; lia.
      * rewrite (zsum_ext _ _ (fun _ => 0)), zsum_zero; auto. intros jc _. rewrite andb_false_r. reflexivity.
Qed.

Lemma jones_model_canon : forall l p, jones_model l = Some p -> canon p.
Proof.
  intros l p H. rewrite <- kh_euler_jones in H. unfold kh_euler in H.
  destruct (kh_gens l); inversion H. apply euler_poly_canon.
Qed.

(* the identity of the property, for the model: every bigraded complex on the generators of the cube *)
Theorem euler_identity : forall l gens J i0 tbl,
  kh_gens l = Some gens -> jones_model l = Some J ->
  dims_match gens i0 tbl -> (forall jc, In jc tbl -> last_rank (snd jc) = 0) ->
  euler_of_table (alt_hom (hsign i0) 0) tbl = J.
Proof.
  intros l gens J i0 tbl Hg HJ Hd Hl.
  rewrite (table_euler (hsign i0) tbl Hl), (cube_table_euler gens i0 tbl Hd).
  pose proof (kh_euler_jones l) as E. unfold kh_euler in E. rewrite Hg, HJ in E. inversion E. reflexivity.
Qed.
