(* C18 - the permutation of a braid word and its cycles (pure combinatorics, no diagrams).
   [prow n w k] : the list whose j-th entry is the top position of the strand that is at position j of
   level k;  [prow n w |w|] = [braid_perm n w].  Every row is a permutation of 0..n-1.
   For a permutation p of 0..n-1: [cycle_of p n k k] lists the orbit of k (the fuel n suffices), orbits
   are closed under p in both directions, and [count_cycles p] is the length of the list [cycle_reps p] of
   the first elements of the orbits. *)
From Coq Require Import List Arith Bool Lia ZArith.
Require Import Yui.Model.Link Yui.Model.Braid Yui.Proofs.C18Base Yui.Proofs.C18Traverse
  Yui.Proofs.C18BraidRows.
Import ListNotations.

Definition pstep (p : list nat) (s : Z) : list nat :=
  set_nth_nat (S (idx s)) (nth (idx s) p 0) (set_nth_nat (idx s) (nth (S (idx s)) p 0) p).
Definition prow (n : nat) (w : list Z) (k : nat) : list nat := fold_left pstep (firstn k w) (seq 0 n).

Lemma braid_perm_loop_fold : forall w p, braid_perm_loop w p = fold_left pstep w p.
Proof. induction w as [|s w IH]; intros p; cbn [braid_perm_loop fold_left]; auto. Qed.
Lemma prow_all : forall n w, prow n w (length w) = braid_perm n w.
Proof. intros. unfold prow, braid_perm. rewrite firstn_all. symmetry. apply braid_perm_loop_fold. Qed.
Lemma prow_0 : forall n w, prow n w 0 = seq 0 n.
Proof. reflexivity. Qed.
Lemma prow_S : forall n w k, k < length w -> prow n w (S k) = pstep (prow n w k) (nth k w 0%Z).
Proof.
  intros n w k Hk. unfold prow. rewrite firstn_S_nth by exact Hk. rewrite fold_left_app. reflexivity.
Qed.
Lemma pstep_length : forall p s, length (pstep p s) = length p.
Proof. intros. unfold pstep. rewrite !set_nth_nat_length. reflexivity. Qed.
Lemma nth_pstep : forall p s j, S (idx s) < length p ->
  nth j (pstep p s) 0 = if j =? idx s then nth (S (idx s)) p 0
                        else if j =? S (idx s) then nth (idx s) p 0 else nth j p 0.
Proof.
  intros p s j Hi. unfold pstep. rewrite !nth_set_nth_nat, set_nth_nat_length.
  assert (S (idx s) <? length p = true) as -> by (apply Nat.ltb_lt; auto).
  assert (idx s <? length p = true) as -> by (apply Nat.ltb_lt; lia).
  rewrite !andb_true_r. destruct (Nat.eqb_spec j (S (idx s))) as [->|N].
  - assert (S (idx s) =? idx s = false) as -> by (apply Nat.eqb_neq; lia). reflexivity.
  - reflexivity.
Qed.

(* permutations of 0..n-1 given as lists *)
Definition IsPerm (n : nat) (p : list nat) : Prop :=
  length p = n /\ (forall j, j < n -> nth j p 0 < n) /\
  (forall i j, i < n -> j < n -> nth i p 0 = nth j p 0 -> i = j).

Lemma IsPerm_seq : forall n, IsPerm n (seq 0 n).
Proof.
  intros n. split; [apply seq_length|]. split.
  - intros j Hj. rewrite seq_nth; auto.
  - intros i j Hi Hj. rewrite !seq_nth; auto.
Qed.
Lemma IsPerm_pstep : forall n p s, IsPerm n p -> S (idx s) < n -> IsPerm n (pstep p s).
Proof.
  intros n p s (HL & HB & HI) Hi. split; [rewrite pstep_length; auto|]. split.
  - intros j Hj. rewrite nth_pstep by lia.
    destruct (j =? idx s); [apply HB; lia|]. destruct (j =? S (idx s)); apply HB; lia.
  - intros a b Ha Hb. rewrite !nth_pstep by lia.
    destruct (Nat.eqb_spec a (idx s)) as [->|A1]; destruct (Nat.eqb_spec b (idx s)) as [->|B1]; auto;
      try (destruct (Nat.eqb_spec a (S (idx s))) as [->|A2]);
      try (destruct (Nat.eqb_spec b (S (idx s))) as [->|B2]); auto;
      intros E; apply HI in E; lia.
Qed.
Lemma IsPerm_prow : forall n w k, (forall k', k' < length w -> S (idx (nth k' w 0%Z)) < n) ->
  k <= length w -> IsPerm n (prow n w k).
Proof.
  intros n w k Hidx. induction k as [|k IH]; intros Hk; [apply IsPerm_seq|].
  rewrite prow_S by lia. apply IsPerm_pstep; [apply IH; lia|apply Hidx; lia].
Qed.

(* ---------------------------------------------------------------------------------------------- *)
Section Cycles.
  Variable n : nat.
  Variable p : list nat.
  Hypothesis Hp : IsPerm n p.

  Definition pi (x : nat) : nat := nth x p 0.
  Fixpoint pit (t : nat) (x : nat) : nat := match t with 0 => x | S t' => pi (pit t' x) end.

  Lemma pi_lt : forall x, x < n -> pi x < n.
  Proof. intros x Hx. destruct Hp as (_ & HB & _). apply HB; auto. Qed.
  Lemma pi_inj : forall x y, x < n -> y < n -> pi x = pi y -> x = y.
  Proof. intros x y Hx Hy. destruct Hp as (_ & _ & HI). apply HI; auto. Qed.
  Lemma pit_lt : forall t x, x < n -> pit t x < n.
  Proof. induction t; intros; cbn [pit]; auto. apply pi_lt; auto. Qed.

  Section Orbit.
    Variable k : nat.
    Hypothesis Hk : k < n.

    Definition PInj (t : nat) : Prop := forall a b, a <= t -> b <= t -> pit a k = pit b k -> a = b.

    Lemma PInj_bound : forall t, PInj t -> S t <= n.
    Proof.
      intros t HI.
      assert (ND : NoDup (map (fun a => pit a k) (seq 0 (S t)))).
      { apply NoDup_map_local; [|apply seq_NoDup].
        intros a b Ha Hb. apply in_seq in Ha, Hb. apply HI; lia. }
      assert (Inc : incl (map (fun a => pit a k) (seq 0 (S t))) (seq 0 n)).
      { intros x Hx. apply in_map_iff in Hx. destruct Hx as [a [<- _]]. apply in_seq.
        pose proof (pit_lt a k Hk). lia. }
      pose proof (NoDup_incl_length ND Inc) as B. rewrite map_length, !seq_length in B. exact B.
    Qed.

    Lemma cycle_of_spec : forall fuel t, PInj t -> n <= fuel + t ->
      exists T, t < T /\ pit T k = k /\ PInj (T - 1) /\
        cycle_of p fuel k (pit t k) = map (fun a => pit a k) (seq t (T - t)).
    Proof.
      induction fuel as [|fuel IH]; intros t HI Hf.
      - pose proof (PInj_bound t HI). lia.
      - cbn [cycle_of]. fold (pi (pit t k)). change (pi (pit t k)) with (pit (S t) k).
        destruct (Nat.eqb_spec (pit (S t) k) k) as [E|E].
        + exists (S t). split; [lia|]. split; [exact E|].
          split; [replace (S t - 1) with t by lia; exact HI|].
          replace (S t - t) with 1 by lia. reflexivity.
        + assert (HI' : PInj (S t)).
          { assert (Hone : forall b, b <= t -> pit (S t) k = pit b k -> False).
            { intros b Hb Eb. destruct b as [|b]; [cbn [pit] in Eb; contradiction|].
              cbn [pit] in Eb. apply pi_inj in Eb; try (apply pit_lt; auto).
              apply HI in Eb; lia. }
            intros a b Ha Hb Eab.
            destruct (Nat.eq_dec a (S t)) as [->|Na]; destruct (Nat.eq_dec b (S t)) as [->|Nb]; auto.
            - exfalso. apply (Hone b); auto; lia.
            - exfalso. apply (Hone a); auto; lia.
            - apply HI; auto; lia. }
          destruct (IH (S t) HI' ltac:(lia)) as (T & HT & Hc & HIT & Ec).
          exists T. split; [lia|]. split; [exact Hc|]. split; [exact HIT|].
          rewrite Ec. replace (T - t) with (S (T - S t)) by lia. reflexivity.
    Qed.

    Definition cyc : list nat := cycle_of p n k k.

    Lemma cyc_spec : exists T, 1 <= T /\ pit T k = k /\ cyc = map (fun a => pit a k) (seq 0 T).
    Proof.
      assert (HI0 : PInj 0) by (intros a b Ha Hb _; lia).
      destruct (cycle_of_spec n 0 HI0 ltac:(lia)) as (T & HT & Hc & _ & Ec).
      exists T. split; [lia|]. split; auto. unfold cyc. cbn [pit] in Ec. rewrite Ec, Nat.sub_0_r. reflexivity.
    Qed.

    Lemma cyc_self : In k cyc.
    Proof.
      destruct cyc_spec as (T & HT & _ & ->). apply in_map_iff. exists 0. split; auto. apply in_seq. lia.
    Qed.
    Lemma cyc_lt : forall x, In x cyc -> x < n.
    Proof.
      destruct cyc_spec as (T & HT & _ & ->). intros x Hx. apply in_map_iff in Hx.
      destruct Hx as [a [<- _]]. apply pit_lt; auto.
    Qed.
    Lemma cyc_closed : forall z, z < n -> (In z cyc <-> In (pi z) cyc).
    Proof.
      destruct cyc_spec as (T & HT & Hc & ->). intros z Hz. rewrite !in_map_iff. split.
      - intros [a [<- Ha]]. apply in_seq in Ha. destruct (Nat.eq_dec (S a) T) as [E|N].
        + exists 0. split; [|apply in_seq; lia]. cbn [pit]. change (pi (pit a k)) with (pit (S a) k). rewrite E. symmetry. exact Hc.
        + exists (S a). split; [reflexivity|apply in_seq; lia].
      - intros [a [E Ha]]. apply in_seq in Ha. destruct a as [|a].
        + exists (T - 1). split; [|apply in_seq; lia]. cbn [pit] in E.
          apply pi_inj; auto; [apply pit_lt; auto|].
          change (pi (pit (T - 1) k)) with (pit (S (T - 1)) k). replace (S (T - 1)) with T by lia. congruence.
        + exists a. split; [|apply in_seq; lia]. cbn [pit] in E. apply pi_inj; auto. apply pit_lt; auto.
    Qed.
  End Orbit.

  (* two positions are in the same cycle: no set closed under p in both directions separates them *)
  Definition peq (x y : nat) : Prop :=
    forall S : nat -> Prop, (forall z, z < n -> (S z <-> S (pi z))) -> (S x <-> S y).
  Lemma peq_refl : forall x, peq x x.
  Proof. intros x S _. tauto. Qed.
  Lemma peq_sym : forall x y, peq x y -> peq y x.
  Proof. intros x y H S HS. specialize (H S HS). tauto. Qed.
  Lemma peq_trans : forall x y z, peq x y -> peq y z -> peq x z.
  Proof. intros x y z H1 H2 S HS. specialize (H1 S HS). specialize (H2 S HS). tauto. Qed.
  Lemma peq_pi : forall x, x < n -> peq x (pi x).
  Proof. intros x Hx S HS. apply HS; auto. Qed.
  Lemma peq_cyc : forall a b, a < n -> peq a b -> In b (cyc a).
  Proof.
    intros a b Ha H. apply (H (fun z => In z (cyc a))); [|apply cyc_self; auto].
    intros z Hz. apply cyc_closed; auto.
  Qed.
  Lemma cyc_peq : forall a b, a < n -> In b (cyc a) -> peq a b.
  Proof.
    intros a b Ha Hb. destruct (cyc_spec a Ha) as (T & _ & _ & E). rewrite E in Hb.
    apply in_map_iff in Hb. destruct Hb as [t [<- _]]. clear E.
    induction t as [|t IH]; [apply peq_refl|]. cbn [pit].
    eapply peq_trans; [exact IH|]. apply peq_pi. apply pit_lt; auto.
  Qed.

  (* the representatives counted by count_cycles *)
  Fixpoint reps_loop (ks seen : list nat) : list nat :=
    match ks with
    | [] => []
    | k :: r => if mem k seen then reps_loop r seen else k :: reps_loop r (cyc k ++ seen)
    end.
  Definition cycle_reps : list nat := reps_loop (seq 0 n) [].

  Lemma reps_loop_count : forall ks seen, count_cycles_loop p ks seen = length (reps_loop ks seen).
  Proof.
    destruct Hp as (HL & _). induction ks as [|k r IH]; intros seen; cbn [count_cycles_loop reps_loop]; auto.
    destruct (mem k seen); auto. cbn [length]. rewrite HL. fold (cyc k). rewrite IH. reflexivity.
  Qed.
  Lemma cycle_reps_count : count_cycles p = length cycle_reps.
  Proof. unfold count_cycles, cycle_reps. destruct Hp as (HL & _). rewrite HL. apply reps_loop_count. Qed.

  Lemma reps_loop_props : forall ks seen, (forall k, In k ks -> k < n) -> NoDup ks ->
    let rs := reps_loop ks seen in
    NoDup rs /\ (forall r, In r rs -> In r ks /\ ~ In r seen) /\
    (forall a b, In a rs -> In b rs -> peq a b -> a = b) /\
    (forall k, In k ks -> In k seen \/ exists r, In r rs /\ In k (cyc r)).
  Proof.
    induction ks as [|k r IH]; intros seen Hlt Hnd; cbn [reps_loop].
    - cbn. split; [constructor|]. split; [intros ? []|]. split; [intros ? ? []|intros ? []].
    - inversion Hnd as [|? ? Hk Hnd']; subst.
      assert (Hlt' : forall k', In k' r -> k' < n) by (intros; apply Hlt; cbn; auto).
      destruct (mem k seen) eqn:M.
      + apply mem_spec in M. destruct (IH seen Hlt' Hnd') as (A & B & C & E). cbn zeta.
        split; auto. split; [intros x Hx; destruct (B x Hx); split; cbn; auto|]. split; auto.
        intros k' [<-|Hk']; auto.
      + apply mem_false in M. destruct (IH (cyc k ++ seen) Hlt' Hnd') as (A & B & C & E). cbn zeta.
        assert (Hkn : k < n) by (apply Hlt; cbn; auto).
        split; [|split; [|split]].
        * constructor; auto. intros Hx. destruct (B k Hx) as [Hin _]. contradiction.
        * intros x [<-|Hx]; [split; cbn; auto|]. destruct (B x Hx) as [B1 B2]. split; [cbn; auto|].
          intros Hs. apply B2. apply in_app_iff; auto.
        * intros a b [<-|Ha] [<-|Hb] Hab; auto.
          -- exfalso. destruct (B b Hb) as [_ B2]. apply B2. apply in_app_iff. left. apply peq_cyc; auto.
          -- exfalso. destruct (B a Ha) as [_ B2]. apply B2. apply in_app_iff. left.
             apply peq_cyc; auto. apply peq_sym; auto.
        * intros k' [<-|Hk'].
          -- right. exists k. split; [cbn; auto|]. apply cyc_self; auto.
          -- destruct (E k' Hk') as [Hs|(x & Hx & Hc)].
             ++ apply in_app_iff in Hs. destruct Hs as [Hs|Hs]; auto.
                right. exists k. split; [cbn; auto|exact Hs].
             ++ right. exists x. split; [cbn; auto|exact Hc].
  Qed.

  Lemma cycle_reps_props :
    NoDup cycle_reps /\ (forall r, In r cycle_reps -> r < n) /\
    (forall a b, In a cycle_reps -> In b cycle_reps -> peq a b -> a = b) /\
    (forall k, k < n -> exists r, In r cycle_reps /\ peq r k).
  Proof.
    destruct (reps_loop_props (seq 0 n) []) as (A & B & C & E).
    { intros k Hk. apply in_seq in Hk. lia. }
    { apply seq_NoDup. }
    fold cycle_reps in A, B, C, E. split; auto. split; [|split; auto].
    - intros r Hr. destruct (B r Hr) as [Hin _]. apply in_seq in Hin. lia.
    - intros k Hk. destruct (E k ltac:(apply in_seq; lia)) as [[]|(r & Hr & Hc)].
      exists r. split; auto. apply cyc_peq; auto. destruct (B r Hr) as [Hin _]. apply in_seq in Hin. lia.
  Qed.
End Cycles.
