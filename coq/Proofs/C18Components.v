(* C18 - components of a valid code: all circles, they partition the set of edge labels, and each is one
   class of the strand-through-crossing relation (the label sequence of one orbit of the successor map). *)
From Coq Require Import List Arith Bool Lia Relations.
Require Import Yui.Model.Link Yui.Proofs.C18Base Yui.Proofs.C18Traverse.
Import ListNotations.

(* e and e' are the labels at the two ends of a strand passing through a crossing *)
Definition thru (l : link) (e e' : nat) : Prop :=
  exists r, InR l r /\ edge_at l r = e /\ edge_at l (exit_of l r) = e'.
Definition conn (l : link) : nat -> nat -> Prop := clos_refl_trans nat (thru l).
Definition thru_closed (l : link) (s : list nat) : Prop := forall e e', In e s -> thru l e e' -> In e' s.

Lemma thru_sym : forall l e e', thru l e e' -> thru l e' e.
Proof.
  intros l e e' (r & Hr & E1 & E2). exists (exit_of l r). split; [apply exit_InR; auto|].
  split; auto. rewrite exit_invol; auto.
Qed.
Lemma conn_sym : forall l e e', conn l e e' -> conn l e' e.
Proof.
  intros l e e' H. induction H.
  - apply rt_step. apply thru_sym; auto.
  - apply rt_refl.
  - eapply rt_trans; eauto.
Qed.
Lemma thru_closed_conn : forall l s, thru_closed l s -> forall e e', conn l e e' -> In e s -> In e' s.
Proof. intros l s Hc e e' H. induction H; intros; eauto. Qed.
Lemma thru_closed_app : forall l s t, thru_closed l s -> thru_closed l t -> thru_closed l (s ++ t).
Proof.
  intros l s t Hs Ht e e' He Hth. apply in_app_iff in He. apply in_app_iff.
  destruct He; [left; eapply Hs|right; eapply Ht]; eauto.
Qed.

Lemma mk_comp_closed : forall L e, L <> [] -> hd 0 L = e -> mk_comp (L ++ [e]) = mkP L true.
Proof.
  intros L e HL Hh. unfold mk_comp.
  rewrite app_length, last_last, removelast_last. cbn [length].
  assert (hd 0 (L ++ [e]) = e) as -> by (destruct L; [contradiction|cbn in *; auto]).
  rewrite Nat.eqb_refl.
  assert (1 <? length L + 1 = true) as ->.
  { apply Nat.ltb_lt. destruct L; [contradiction|cbn; lia]. }
  reflexivity.
Qed.

Lemma NoDup_app_intro' : forall A (a b : list A),
  NoDup a -> NoDup b -> (forall x, In x a -> In x b -> False) -> NoDup (a ++ b).
Proof.
  induction a as [|x a IH]; intros b Ha Hb Hd; cbn; auto.
  inversion Ha; subst. constructor.
  - intros Hx. apply in_app_iff in Hx. destruct Hx; [contradiction|]. eapply Hd; cbn; eauto.
  - apply IH; auto. intros y Hy Hy'. eapply Hd; cbn; eauto.
Qed.

(* ---------------------------------------------------------------------------------------------- *)
(* the labels of one orbit *)
Section OrbitLabels.
  Variable l : link.
  Hypothesis Hv : Valid l.
  Variable start : pos.
  Hypothesis Hs : InR l start.
  Variable m : nat.
  Hypothesis Hm : 1 <= m.
  Hypothesis Hc : sig l m start = start.
  Hypothesis Hnd : NoDup (orbit_list l start m).

  Let O := orbit_list l start m.
  Let L := map (edge_at l) O.

  Lemma O_InR : forall p, In p O -> InR l p.
  Proof. intros p Hp. eapply orbit_list_InR; eauto. Qed.

  Lemma labels_thru_closed : thru_closed l L.
  Proof.
    intros e e' He (r & Hr & E1 & E2). apply in_map_iff in He. destruct He as [q [Eq Hq]].
    pose proof (O_InR q Hq) as HqR.
    destruct (same_label_cases l Hv q r HqR Hr ltac:(congruence)) as [->| ->].
    - (* the strand leaves q's crossing: next half-edge of the orbit *)
      apply in_map_iff. exists (sigma l q). split; [|apply (orbit_sigma_closed l start m Hm Hc); auto].
      rewrite (sigma_label l Hv); auto.
    - (* r is the other end of q's edge: the strand arrives from the predecessor *)
      destruct (orbit_pred l start m Hm Hc q Hq) as [q' [Hq' Eq']].
      pose proof (O_InR q' Hq') as Hq'R.
      apply in_map_iff. exists q'. split; auto.
      rewrite <- E2, <- Eq'. rewrite (sigma_inv l Hv); auto.
  Qed.

  Lemma labels_conn_start : forall e, In e L -> conn l (edge_at l start) e.
  Proof.
    intros e He. apply in_map_iff in He. destruct He as [q [<- Hq]].
    apply (orbit_In l start m Hm) in Hq. destruct Hq as [k [_ ->]].
    induction k as [|k IH]; [apply rt_refl|].
    eapply rt_trans; [exact IH|]. apply rt_step.
    exists (sig l k start). split; [apply sig_InR; auto|]. split; auto.
    cbn [sig]. rewrite (sigma_label l Hv); auto. apply sig_InR; auto.
  Qed.

  Lemma labels_class : forall e, In e L -> forall e', In e' L <-> conn l e e'.
  Proof.
    intros e He e'. split.
    - intros He'. eapply rt_trans; [apply conn_sym, labels_conn_start; auto|apply labels_conn_start; auto].
    - intros Hcn. eapply thru_closed_conn; eauto. apply labels_thru_closed.
  Qed.

  Lemma labels_NoDup : NoDup L.
  Proof.
    apply NoDup_map_local; auto.
    intros a b Ha Hb E.
    pose proof (O_InR a Ha) as HaR. pose proof (O_InR b Hb) as HbR.
    destruct (same_label_cases l Hv a b HaR HbR ltac:(congruence)) as [->| ->]; auto.
    exfalso. destruct (orbit_reach l start m Hm Hc a _ Ha Hb) as [d Ed].
    destruct (tau_not_on_orbit l Hv d) as [T _]. apply (T a HaR). exact Ed.
  Qed.

  Lemma labels_start : In (edge_at l start) L.
  Proof. apply in_map. apply (orbit_start l start m Hm). Qed.
  Lemma labels_in : forall e, In e L -> In e (edge_labels l).
  Proof.
    intros e He. apply in_map_iff in He. destruct He as [q [<- Hq]]. apply edge_at_in_labels, O_InR; auto.
  Qed.
  Lemma labels_hd : hd 0 L = edge_at l start /\ L <> [].
  Proof.
    unfold L, O, orbit_list. destruct m as [|m']; [lia|]. cbn. split; [reflexivity|discriminate].
  Qed.
End OrbitLabels.

(* ---------------------------------------------------------------------------------------------- *)
(* the loop of Link::components *)
Definition is_orbit_comp (l : link) (c : path) (p : pos) (m : nat) : Prop :=
  InR l p /\ 1 <= m /\ sig l m p = p /\ NoDup (orbit_list l p m) /\
  c = mkP (map (edge_at l) (orbit_list l p m)) true.

Inductive good (l : link) : list nat -> list path -> Prop :=
| good_nil : forall passed, good l passed []
| good_cons : forall passed c p m cs,
    is_orbit_comp l c p m -> ~ In (edge_at l p) passed ->
    good l (pedges c ++ passed) cs -> good l passed (c :: cs).

Lemma good_ext : forall l s1 cs, good l s1 cs -> forall s2, (forall x, In x s1 <-> In x s2) -> good l s2 cs.
Proof.
  intros l s1 cs G. induction G as [s1|s1 c p m cs HO Hn G IH]; intros s2 Heq.
  - constructor.
  - econstructor; eauto.
    + rewrite <- Heq; auto.
    + apply IH. intros x. rewrite !in_app_iff, Heq. tauto.
Qed.

Lemma comp_loop_good : forall l, Valid l -> forall starts, (forall p, In p starts -> InR l p) ->
  forall passed, exists cs, comp_loop l starts passed = Some cs /\ good l passed cs /\
    (forall p, In p starts -> In (edge_at l p) passed \/ In (edge_at l p) (concat (map pedges cs))).
Proof.
  intros l Hv. induction starts as [|p r IH]; intros Hr passed.
  - exists []. cbn. split; auto. split; [constructor|]. intros p [].
  - cbn [comp_loop]. destruct (mem (edge_at l p) passed) eqn:M.
    + apply mem_spec in M.
      destruct (IH ltac:(intros; apply Hr; cbn; auto) passed) as (cs & E & G & C).
      exists cs. split; auto. split; auto. intros q [<-|Hq]; auto.
    + apply mem_false in M.
      assert (HpR : InR l p) by (apply Hr; cbn; auto).
      destruct (traverse_valid l Hv p HpR) as (m & Hm & _ & Hc & Hnd & Ht).
      rewrite Ht. rewrite map_app. cbn [map].
      destruct (labels_hd l p m Hm Hc Hnd) as [Hh Hne].
      rewrite mk_comp_closed; auto.
      set (L := map (edge_at l) (orbit_list l p m)) in *.
      destruct (IH ltac:(intros; apply Hr; cbn; auto) ((L ++ [edge_at l p]) ++ passed)) as (cs & E & G & C).
      rewrite E. cbn [option_map]. exists (mkP L true :: cs). split; auto.
      assert (HL : In (edge_at l p) L) by (apply (labels_start l p m Hm)).
      split.
      * apply (good_cons l passed (mkP L true) p m cs).
        { unfold is_orbit_comp. auto. }
        { exact M. }
        cbn [pedges]. eapply good_ext; [exact G|].
        intros x. rewrite !in_app_iff. cbn [In].
        split; [intros [[A|[<-|[]]]|A]|intros [A|A]]; auto.
      * intros q [<-|Hq]; cbn [map concat pedges].
        { right. apply in_app_iff. left. exact HL. }
        { destruct (C q Hq) as [A|A].
          - apply in_app_iff in A. destruct A as [A|A]; auto.
            right. apply in_app_iff. left. apply in_app_iff in A. destruct A as [A|[<-|[]]]; auto.
          - right. apply in_app_iff. auto. }
Qed.

Lemma good_props : forall l, Valid l -> forall passed cs, good l passed cs -> thru_closed l passed ->
  Forall (fun c => pclosed c = true /\ pedges c <> [] /\ exists p m, is_orbit_comp l c p m) cs /\
  NoDup (concat (map pedges cs)) /\
  (forall e, In e (concat (map pedges cs)) -> ~ In e passed /\ In e (edge_labels l)) /\
  (forall c, In c cs -> forall e, In e (pedges c) -> forall e', In e' (pedges c) <-> conn l e e').
Proof.
  intros l Hv passed cs G. induction G as [passed|passed c p m cs HO Hnp G IH]; intros Hcl.
  - cbn. repeat split; try constructor; intros; contradiction.
  - destruct HO as (HpR & Hm & Hc & Hnd & ->). cbn [pedges] in *.
    set (L := map (edge_at l) (orbit_list l p m)) in *.
    assert (HLc : thru_closed l L) by (apply (labels_thru_closed l Hv p HpR m Hm Hc)).
    assert (Hcl' : thru_closed l (L ++ passed)) by (apply thru_closed_app; auto).
    destruct (IH Hcl') as (F & ND & Dj & Cl).
    assert (HLp : forall e, In e L -> ~ In e passed).
    { intros e He Hep. apply Hnp. eapply thru_closed_conn; [exact Hcl| |exact Hep].
      apply conn_sym. apply (labels_conn_start l Hv p HpR m Hm); auto. }
    split; [|split; [|split]].
    + constructor; auto. cbn [pclosed pedges]. split; auto. split.
      * apply (labels_hd l p m Hm Hc Hnd).
      * exists p, m. unfold is_orbit_comp. auto.
    + cbn [map concat pedges]. apply NoDup_app_intro'; auto.
      * apply (labels_NoDup l Hv p HpR m Hm Hc Hnd).
      * intros e He He'. apply Dj in He'. destruct He' as [N _]. apply N. apply in_app_iff. auto.
    + cbn [map concat pedges]. intros e He. apply in_app_iff in He. destruct He as [He|He].
      * split; auto. apply (labels_in l Hv p HpR m); auto.
      * apply Dj in He. destruct He as [N I]. split; auto. intros Hp. apply N. apply in_app_iff; auto.
    + intros c [<-|Hc']; cbn [pedges]; auto. intros e He e'. apply (labels_class l Hv p HpR m Hm Hc); auto.
Qed.

(* ---------------------------------------------------------------------------------------------- *)
Lemma starts_j_In : forall l j0 p, In p (starts_j l j0) <-> fst p < length l /\ snd p = j0.
Proof.
  intros l j0 [i j]. unfold starts_j. rewrite in_map_iff. cbn [fst snd]. split.
  - intros [i0 [E Hi]]. inversion E; subst. apply in_seq in Hi. split; auto; lia.
  - intros [Hi <-]. exists i. split; auto. apply in_seq. lia.
Qed.
Lemma comp_starts_In : forall l p, In p (comp_starts l) <-> fst p < length l /\ snd p <= 2.
Proof.
  intros l p. unfold comp_starts. rewrite !in_app_iff, !starts_j_In. lia.
Qed.

(* Link::components on a valid code *)
Theorem components_valid : forall l, Valid l ->
  exists cs, components l = Some cs /\
    Forall (fun c => pclosed c = true /\ pedges c <> [] /\ exists p m, is_orbit_comp l c p m) cs /\
    NoDup (concat (map pedges cs)) /\
    (forall e, In e (concat (map pedges cs)) <-> In e (edge_labels l)) /\
    (forall c, In c cs -> forall e, In e (pedges c) -> forall e', In e' (pedges c) <-> conn l e e').
Proof.
  intros l Hv. unfold components.
  destruct (comp_loop_good l Hv (comp_starts l)
              ltac:(intros p Hp; apply comp_starts_In in Hp; unfold InR; lia) [])
    as (cs & E & G & C).
  exists cs. split; auto.
  destruct (good_props l Hv [] cs G ltac:(intros e e' [])) as (F & ND & Dj & Cl).
  split; auto. split; auto. split; auto.
  intros e. split; [intros He; apply Dj in He; tauto|].
  intros He. apply in_labels_edge_at in He. destruct He as [p [HpR <-]].
  destruct (le_lt_dec (snd p) 2) as [Hj|Hj].
  - destruct (C p) as [[]|A]; auto. apply comp_starts_In. destruct HpR. split; auto.
  - (* slot 3: its partner slot is a start, and both labels lie on one strand *)
    pose proof (exit_InR l p HpR) as HqR.
    assert (Hq : In (exit_of l p) (comp_starts l)).
    { apply comp_starts_In. destruct HpR as [A B]. split; auto. unfold exit_of. cbn [fst snd].
      assert (snd p = 3) as -> by lia. destruct (ct (cross_at l (fst p))); cbn; lia. }
    destruct (C _ Hq) as [[]|A].
    apply in_concat in A. destruct A as [es [Hes He]]. apply in_map_iff in Hes.
    destruct Hes as [c [<- Hc]].
    apply in_concat. exists (pedges c). split; [apply in_map; auto|].
    apply (Cl c Hc _ He). apply rt_step. exists (exit_of l p). split; auto. split; auto.
    rewrite exit_invol; auto.
Qed.

(* the number of components is the number of classes: any system of representatives of [conn] on the
   labels has as many elements as there are components *)
Definition reps_of (l : link) (reps : list nat) : Prop :=
  NoDup reps /\ (forall r, In r reps -> In r (edge_labels l)) /\
  (forall a b, In a reps -> In b reps -> conn l a b -> a = b) /\
  (forall e, In e (edge_labels l) -> exists r, In r reps /\ conn l r e).

Theorem components_count : forall l, Valid l -> forall cs, components l = Some cs ->
  forall reps, reps_of l reps -> length cs = length reps.
Proof.
  intros l Hv cs E reps (RN & RI & RU & RC).
  destruct (components_valid l Hv) as (cs' & E' & F & ND & Cov & Cl).
  rewrite E in E'. inversion E'; subst cs'; clear E'.
  (* heads of the components: a second system of representatives *)
  set (heads := map (fun c => hd 0 (pedges c)) cs).
  assert (Hhd : forall c, In c cs -> In (hd 0 (pedges c)) (pedges c)).
  { intros c Hc. rewrite Forall_forall in F. destruct (F c Hc) as (_ & Hne & _).
    destruct (pedges c); [contradiction|cbn; auto]. }
  assert (Hcomp_eq : forall c c' e, In c cs -> In c' cs -> In e (pedges c) -> In e (pedges c') -> c = c').
  { clear -ND. induction cs as [|a cs IH]; intros c c' e Hc Hc' He He'; [contradiction|].
    cbn [map concat] in ND. apply NoDup_app_remove_l in ND as ND'.
    destruct Hc as [<-|Hc], Hc' as [<-|Hc']; auto.
    - exfalso. clear IH ND'. revert ND. generalize (concat (map pedges cs)) (in_concat (map pedges cs) e).
      intros R HR ND. assert (In e R) by (apply HR; exists (pedges c'); split; auto; apply in_map; auto).
      clear -ND He H. induction (pedges a) as [|x xs IH]; [contradiction|]. cbn in ND. inversion ND; subst.
      destruct He as [<-|He]; auto. apply H2. apply in_app_iff; auto.
    - exfalso. clear IH ND'. revert ND. generalize (concat (map pedges cs)) (in_concat (map pedges cs) e).
      intros R HR ND. assert (In e R) by (apply HR; exists (pedges c); split; auto; apply in_map; auto).
      clear -ND He' H. induction (pedges a) as [|x xs IH]; [contradiction|]. cbn in ND. inversion ND; subst.
      destruct He' as [<-|He']; auto. apply H2. apply in_app_iff; auto.
    - eapply IH; eauto. }
  assert (HN : NoDup heads).
  { unfold heads. apply NoDup_map_local.
    - intros a b Ha Hb Eab. apply (Hcomp_eq a b (hd 0 (pedges a))); auto. rewrite Eab. auto.
    - clear -ND F. induction cs as [|a cs IH]; [constructor|]. inversion F; subst.
      cbn [map concat] in ND. constructor.
      + intros Ha. destruct H1 as (_ & Hne & _).
        destruct (pedges a) as [|x xs] eqn:Ex; [contradiction|]. cbn in ND. inversion ND; subst.
        apply H3. apply in_app_iff. right. apply in_concat. exists (pedges a). split; [apply in_map; auto|].
        rewrite Ex. cbn; auto.
      + apply IH; auto. eapply NoDup_app_remove_l; eauto. }
  unfold heads in HN.
  (* f : rep -> the head of its component ; g : head -> its representative *)
  assert (Hf : forall r, In r reps -> exists c, In c cs /\ In r (pedges c)).
  { intros r Hr. apply RI, Cov, in_concat in Hr. destruct Hr as [es [Hes Hr]].
    apply in_map_iff in Hes. destruct Hes as [c [<- Hc]]. eauto. }
  apply Nat.le_antisymm.
  - (* each component contains a representative; distinct components give distinct representatives *)
    assert (Hg : forall c, In c cs -> exists r, In r reps /\ In r (pedges c)).
    { intros c Hc. destruct (RC (hd 0 (pedges c))) as [r [Hr Hcn]].
      { apply Cov, in_concat. exists (pedges c). split; [apply in_map|]; auto. }
      exists r. split; auto. apply (Cl c Hc _ (Hhd c Hc)). apply conn_sym; auto. }
    clear -Hg Hcomp_eq RN. revert reps RN Hg. induction cs as [|a cs IH]; intros reps RN Hg; [cbn; lia|].
    destruct (Hg a ltac:(cbn; auto)) as [r [Hr Hra]].
    apply in_split in Hr. destruct Hr as [r1 [r2 ->]].
    rewrite app_length. cbn [length]. rewrite Nat.add_succ_r, <- app_length. apply le_n_S.
    apply IH.
    + intros c c' e Hc Hc'. apply Hcomp_eq; cbn; auto.
    + eapply NoDup_remove_1; eauto.
    + intros c Hc. destruct (Hg c ltac:(cbn; auto)) as [r' [Hr' Hrc]].
      exists r'. split; auto. apply in_app_iff. apply in_app_iff in Hr'. cbn in Hr'.
      destruct Hr' as [A|[<-|A]]; auto.
      exfalso. assert (a = c) by (eapply Hcomp_eq; cbn; eauto). subst c.
      clear -Hc Hcomp_eq Hra HN. 
      (* a occurs twice in (a :: cs): fine for Hcomp_eq, so use NoDup of cs instead *)
      admit_placeholder.
  - admit_placeholder.
Qed.
