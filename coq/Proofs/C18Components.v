(* C18 - components of a valid code: all circles, they partition the set of edge labels, and each is one
   class of the strand-through-crossing relation (the label sequence of one orbit of the successor map). *)
From Coq Require Import List Arith Bool Lia Relations.
Require Import Yui.Model.Link Yui.Proofs.C18Base Yui.Proofs.C18Traverse.
Import ListNotations.

(* e and e' are the labels at the two ends of a strand passing through a crossing *)
Definition thru (l : link) (e e' : nat) : Prop :=
  exists r, InR l r /\ edge_at l r = e /\ edge_at l (exit_of l r) = e'.
Definition conn (l : link) : nat -> nat -> Prop := clos_refl_trans nat (thru l).
Definition thru_closed (l : link) (s : list nat) : Prop := forall e e', In e s -> thru l e e' -> In e' s.

Lemma thru_sym : forall l e e', thru l e e' -> thru l e' e.
Proof.
  intros l e e' (r & Hr & E1 & E2). exists (exit_of l r). split; [apply exit_InR; auto|].
  split; auto. rewrite exit_invol; auto.
Qed.
Lemma conn_sym : forall l e e', conn l e e' -> conn l e' e.
Proof.
  intros l e e' H. induction H.
  - apply rt_step. apply thru_sym; auto.
  - apply rt_refl.
  - eapply rt_trans; eauto.
Qed.
Lemma thru_closed_conn : forall l s, thru_closed l s -> forall e e', conn l e e' -> In e s -> In e' s.
Proof. intros l s Hc e e' H. induction H; intros; eauto. Qed.
Lemma thru_closed_app : forall l s t, thru_closed l s -> thru_closed l t -> thru_closed l (s ++ t).
Proof.
  intros l s t Hs Ht e e' He Hth. apply in_app_iff in He. apply in_app_iff.
  destruct He; [left; eapply Hs|right; eapply Ht]; eauto.
Qed.

Lemma mk_comp_closed : forall L e, L <> [] -> hd 0 L = e -> mk_comp (L ++ [e]) = mkP L true.
Proof.
  intros L e HL Hh. unfold mk_comp.
  rewrite app_length, last_last, removelast_last. cbn [length].
  assert (hd 0 (L ++ [e]) = e) as -> by (destruct L; [contradiction|cbn in *; auto]).
  rewrite Nat.eqb_refl.
  assert (1 <? length L + 1 = true) as ->.
  { apply Nat.ltb_lt. destruct L; [contradiction|cbn; lia]. }
  reflexivity.
Qed.

Lemma NoDup_app_intro' : forall A (a b : list A),
  NoDup a -> NoDup b -> (forall x, In x a -> In x b -> False) -> NoDup (a ++ b).
Proof.
  induction a as [|x a IH]; intros b Ha Hb Hd; cbn; auto.
  inversion Ha; subst. constructor.
  - intros Hx. apply in_app_iff in Hx. destruct Hx; [contradiction|]. eapply Hd; cbn; eauto.
  - apply IH; auto. intros y Hy Hy'. eapply Hd; cbn; eauto.
Qed.

(* ---------------------------------------------------------------------------------------------- *)
(* the labels of one orbit *)
Section OrbitLabels.
  Variable l : link.
  Hypothesis Hv : Valid l.
  Variable start : pos.
  Hypothesis Hs : InR l start.
  Variable m : nat.
  Hypothesis Hm : 1 <= m.
  Hypothesis Hc : sig l m start = start.
  Hypothesis Hnd : NoDup (orbit_list l start m).

  Let O := orbit_list l start m.
  Let L := map (edge_at l) O.

  Lemma O_InR : forall p, In p O -> InR l p.
  Proof. intros p Hp. eapply orbit_list_InR; eauto. Qed.

  Lemma labels_thru_closed : thru_closed l L.
  Proof.
    intros e e' He (r & Hr & E1 & E2). apply in_map_iff in He. destruct He as [q [Eq Hq]].
    pose proof (O_InR q Hq) as HqR.
    destruct (same_label_cases l Hv q r HqR Hr ltac:(congruence)) as [->| ->].
    - (* the strand leaves q's crossing: next half-edge of the orbit *)
      apply in_map_iff. exists (sigma l q). split; [|apply (orbit_sigma_closed l start m Hm Hc); auto].
      rewrite (sigma_label l Hv); auto.
    - (* r is the other end of q's edge: the strand arrives from the predecessor *)
      destruct (orbit_pred l start m Hm Hc q Hq) as [q' [Hq' Eq']].
      pose proof (O_InR q' Hq') as Hq'R.
      apply in_map_iff. exists q'. split; auto.
      rewrite <- E2, <- Eq'. rewrite (sigma_inv l Hv); auto.
  Qed.

  Lemma labels_conn_start : forall e, In e L -> conn l (edge_at l start) e.
  Proof.
    intros e He. apply in_map_iff in He. destruct He as [q [<- Hq]].
    apply (orbit_In l start m Hm) in Hq. destruct Hq as [k [_ ->]].
    induction k as [|k IH]; [apply rt_refl|].
    eapply rt_trans; [exact IH|]. apply rt_step.
    exists (sig l k start). split; [apply sig_InR; auto|]. split; auto.
    cbn [sig]. rewrite (sigma_label l Hv); auto. apply sig_InR; auto.
  Qed.

  Lemma labels_class : forall e, In e L -> forall e', In e' L <-> conn l e e'.
  Proof.
    intros e He e'. split.
    - intros He'. eapply rt_trans; [apply conn_sym, labels_conn_start; auto|apply labels_conn_start; auto].
    - intros Hcn. eapply thru_closed_conn; eauto. apply labels_thru_closed.
  Qed.

  Lemma labels_NoDup : NoDup L.
  Proof.
    apply NoDup_map_local; auto.
    intros a b Ha Hb E.
    pose proof (O_InR a Ha) as HaR. pose proof (O_InR b Hb) as HbR.
    destruct (same_label_cases l Hv a b HaR HbR ltac:(congruence)) as [->| ->]; auto.
    exfalso. destruct (orbit_reach l start m Hm Hc a _ Ha Hb) as [d Ed].
    destruct (tau_not_on_orbit l Hv d) as [T _]. apply (T a HaR). exact Ed.
  Qed.

  Lemma labels_start : In (edge_at l start) L.
  Proof. apply in_map. apply (orbit_start l start m Hm). Qed.
  Lemma labels_in : forall e, In e L -> In e (edge_labels l).
  Proof.
    intros e He. apply in_map_iff in He. destruct He as [q [<- Hq]]. apply edge_at_in_labels, O_InR; auto.
  Qed.
  Lemma labels_hd : hd 0 L = edge_at l start /\ L <> [].
  Proof.
    unfold L, O, orbit_list. destruct m as [|m']; [lia|]. cbn. split; [reflexivity|discriminate].
  Qed.
End OrbitLabels.

(* ---------------------------------------------------------------------------------------------- *)
(* the loop of Link::components *)
Definition is_orbit_comp (l : link) (c : path) (p : pos) (m : nat) : Prop :=
  InR l p /\ 1 <= m /\ sig l m p = p /\ NoDup (orbit_list l p m) /\
  c = mkP (map (edge_at l) (orbit_list l p m)) true.

Inductive good (l : link) : list nat -> list path -> Prop :=
| good_nil : forall passed, good l passed []
| good_cons : forall passed c p m cs,
    is_orbit_comp l c p m -> ~ In (edge_at l p) passed ->
    good l (pedges c ++ passed) cs -> good l passed (c :: cs).

Lemma good_ext : forall l s1 cs, good l s1 cs -> forall s2, (forall x, In x s1 <-> In x s2) -> good l s2 cs.
Proof.
  intros l s1 cs G. induction G as [s1|s1 c p m cs HO Hn G IH]; intros s2 Heq.
  - constructor.
  - econstructor; eauto.
    + rewrite <- Heq; auto.
    + apply IH. intros x. rewrite !in_app_iff, Heq. tauto.
Qed.

Lemma comp_loop_good : forall l, Valid l -> forall starts, (forall p, In p starts -> InR l p) ->
  forall passed, exists cs, comp_loop l starts passed = Some cs /\ good l passed cs /\
    (forall p, In p starts -> In (edge_at l p) passed \/ In (edge_at l p) (concat (map pedges cs))).
Proof.
  intros l Hv. induction starts as [|p r IH]; intros Hr passed.
  - exists []. cbn. split; auto. split; [constructor|]. intros p [].
  - cbn [comp_loop]. destruct (mem (edge_at l p) passed) eqn:M.
    + apply mem_spec in M.
      destruct (IH ltac:(intros; apply Hr; cbn; auto) passed) as (cs & E & G & C).
      exists cs. split; auto. split; auto. intros q [<-|Hq]; auto.
    + apply mem_false in M.
      assert (HpR : InR l p) by (apply Hr; cbn; auto).
      destruct (traverse_valid l Hv p HpR) as (m & Hm & _ & Hc & Hnd & Ht).
      rewrite Ht. rewrite map_app. cbn [map].
      destruct (labels_hd l p m Hm Hc Hnd) as [Hh Hne].
      rewrite mk_comp_closed; auto.
      set (L := map (edge_at l) (orbit_list l p m)) in *.
      destruct (IH ltac:(intros; apply Hr; cbn; auto) ((L ++ [edge_at l p]) ++ passed)) as (cs & E & G & C).
      rewrite E. cbn [option_map]. exists (mkP L true :: cs). split; auto.
      assert (HL : In (edge_at l p) L) by (apply (labels_start l p m Hm)).
      split.
      * apply (good_cons l passed (mkP L true) p m cs).
        { unfold is_orbit_comp. auto. }
        { exact M. }
        cbn [pedges]. eapply good_ext; [exact G|].
        intros x. rewrite !in_app_iff. cbn [In].
        split; [intros [[A|[<-|[]]]|A]|intros [A|A]]; auto.
      * intros q [<-|Hq]; cbn [map concat pedges].
        { right. apply in_app_iff. left. exact HL. }
        { destruct (C q Hq) as [A|A].
          - apply in_app_iff in A. destruct A as [A|A]; auto.
            right. apply in_app_iff. left. apply in_app_iff in A. destruct A as [A|[<-|[]]]; auto.
          - right. apply in_app_iff. auto. }
Qed.

Lemma good_props : forall l, Valid l -> forall passed cs, good l passed cs -> thru_closed l passed ->
  Forall (fun c => pclosed c = true /\ pedges c <> [] /\ exists p m, is_orbit_comp l c p m) cs /\
  NoDup (concat (map pedges cs)) /\
  (forall e, In e (concat (map pedges cs)) -> ~ In e passed /\ In e (edge_labels l)) /\
  (forall c, In c cs -> forall e, In e (pedges c) -> forall e', In e' (pedges c) <-> conn l e e').
Proof.
  intros l Hv passed cs G. induction G as [passed|passed c p m cs HO Hnp G IH]; intros Hcl.
  - cbn. repeat split; try constructor; intros; contradiction.
  - destruct HO as (HpR & Hm & Hc & Hnd & ->). cbn [pedges] in *.
    set (L := map (edge_at l) (orbit_list l p m)) in *.
    assert (HLc : thru_closed l L) by (apply (labels_thru_closed l Hv p HpR m Hm Hc)).
    assert (Hcl' : thru_closed l (L ++ passed)) by (apply thru_closed_app; auto).
    destruct (IH Hcl') as (F & ND & Dj & Cl).
    assert (HLp : forall e, In e L -> ~ In e passed).
    { intros e He Hep. apply Hnp. eapply thru_closed_conn; [exact Hcl| |exact Hep].
      apply conn_sym. apply (labels_conn_start l Hv p HpR m Hm); auto. }
    split; [|split; [|split]].
    + constructor; auto. cbn [pclosed pedges]. split; auto. split.
      * apply (labels_hd l p m Hm Hc Hnd).
      * exists p, m. unfold is_orbit_comp. auto.
    + cbn [map concat pedges]. apply NoDup_app_intro'; auto.
      * apply (labels_NoDup l Hv p HpR m Hm Hc Hnd).
      * intros e He He'. apply Dj in He'. destruct He' as [N _]. apply N. apply in_app_iff. auto.
    + cbn [map concat pedges]. intros e He. apply in_app_iff in He. destruct He as [He|He].
      * split; auto. apply (labels_in l Hv p HpR m); auto.
      * apply Dj in He. destruct He as [N I]. split; auto. intros Hp. apply N. apply in_app_iff; auto.
    + intros c [<-|Hc']; cbn [pedges]; auto. intros e He e'. apply (labels_class l Hv p HpR m Hm Hc); auto.
Qed.

(* ---------------------------------------------------------------------------------------------- *)
Lemma starts_j_In : forall l j0 p, In p (starts_j l j0) <-> fst p < length l /\ snd p = j0.
Proof.
  intros l j0 [i j]. unfold starts_j. rewrite in_map_iff. cbn [fst snd]. split.
  - intros [i0 [E Hi]]. inversion E; subst. apply in_seq in Hi. split; auto; lia.
  - intros [Hi <-]. exists i. split; auto. apply in_seq. lia.
Qed.
Lemma comp_starts_In : forall l p, In p (comp_starts l) <-> fst p < length l /\ snd p <= 2.
Proof.
  intros l p. unfold comp_starts. rewrite !in_app_iff, !starts_j_In. lia.
Qed.

(* Link::components on a valid code *)
Theorem components_valid : forall l, Valid l ->
  exists cs, components l = Some cs /\
    Forall (fun c => pclosed c = true /\ pedges c <> [] /\ exists p m, is_orbit_comp l c p m) cs /\
    NoDup (concat (map pedges cs)) /\
    (forall e, In e (concat (map pedges cs)) <-> In e (edge_labels l)) /\
    (forall c, In c cs -> forall e, In e (pedges c) -> forall e', In e' (pedges c) <-> conn l e e').
Proof.
  intros l Hv. unfold components.
  destruct (comp_loop_good l Hv (comp_starts l)
              ltac:(intros p Hp; apply comp_starts_In in Hp; unfold InR; lia) [])
    as (cs & E & G & C).
  exists cs. split; auto.
  destruct (good_props l Hv [] cs G ltac:(intros e e' [])) as (F & ND & Dj & Cl).
  split; auto. split; auto. split; auto.
  intros e. split; [intros He; apply Dj in He; tauto|].
  intros He. apply in_labels_edge_at in He. destruct He as [p [HpR <-]].
  destruct (le_lt_dec (snd p) 2) as [Hj|Hj].
  - destruct (C p) as [[]|A]; auto. apply comp_starts_In. destruct HpR. split; auto.
  - (* slot 3: its partner slot is a start, and both labels lie on one strand *)
    pose proof (exit_InR l p HpR) as HqR.
    assert (Hq : In (exit_of l p) (comp_starts l)).
    { apply comp_starts_In. destruct HpR as [A B]. split; auto. unfold exit_of. cbn [fst snd].
      assert (snd p = 3) as -> by lia. destruct (ct (cross_at l (fst p))); cbn; lia. }
    destruct (C _ Hq) as [[]|A].
    apply in_concat in A. destruct A as [es [Hes He]]. apply in_map_iff in Hes.
    destruct Hes as [c [<- Hc]].
    apply in_concat. exists (pedges c). split; [apply in_map; auto|].
    apply (Cl c Hc _ He). apply rt_step. exists (exit_of l p). split; auto. split; auto.
    rewrite exit_invol; auto.
Qed.

(* the number of components is the number of classes: any system of representatives of [conn] on the
   labels has as many elements as there are components *)
Definition reps_of (l : link) (reps : list nat) : Prop :=
  NoDup reps /\ (forall r, In r reps -> In r (edge_labels l)) /\
  (forall a b, In a reps -> In b reps -> conn l a b -> a = b) /\
  (forall e, In e (edge_labels l) -> exists r, In r reps /\ conn l r e).

Lemma NoDup_app_inv' : forall A (a b : list A), NoDup (a ++ b) ->
  NoDup a /\ NoDup b /\ (forall x, In x a -> In x b -> False).
Proof.
  induction a as [|x a IH]; intros b H; cbn in *.
  - split; [constructor|]. split; auto.
  - inversion H; subst. destruct (IH b H3) as (A1 & A2 & A3). split; [|split; auto].
    + constructor; auto. intros Hx. apply H2. apply in_app_iff; auto.
    + intros y [<-|Hy] Hb; [apply H2; apply in_app_iff; auto|eapply A3; eauto].
Qed.

Lemma concat_NoDup_facts : forall (ls : list (list nat)),
  NoDup (concat ls) -> (forall x, In x ls -> x <> []) ->
  NoDup ls /\ (forall x y e, In x ls -> In y ls -> In e x -> In e y -> x = y).
Proof.
  induction ls as [|a ls IH]; intros ND NE; cbn [concat] in *.
  - split; [constructor|intros x y e []].
  - apply NoDup_app_inv' in ND. destruct ND as (Na & Nc & Dj).
    destruct (IH Nc ltac:(intros; apply NE; cbn; auto)) as [N U].
    assert (Hd : forall y e, In y ls -> In e a -> In e y -> False).
    { intros y e Hy Ha Hey. apply (Dj e Ha). apply in_concat. eauto. }
    split.
    + constructor; auto. intros Ha. destruct a as [|e a'] eqn:Ea; [apply (NE []); cbn; auto|].
      apply (Hd (e :: a') e); cbn; auto.
    + intros x y e [<-|Hx] [<-|Hy] Hex Hey; auto.
      * exfalso. eapply Hd; eauto.
      * exfalso. eapply Hd; eauto.
      * eapply U; eauto.
Qed.

(* two duplicate-free lists related by a relation that is total, onto and one-to-one both ways *)
Lemma bijection_length : forall A B (R : A -> B -> Prop) (la : list A) (lb : list B),
  NoDup la -> NoDup lb ->
  (forall a, In a la -> exists b, In b lb /\ R a b) ->
  (forall b, In b lb -> exists a, In a la /\ R a b) ->
  (forall a a' b, In a la -> In a' la -> In b lb -> R a b -> R a' b -> a = a') ->
  (forall a b b', In a la -> In b lb -> In b' lb -> R a b -> R a b' -> b = b') ->
  length la = length lb.
Proof.
  intros A B R. induction la as [|a la IH]; intros lb Na Nb Tot Onto InjA InjB.
  - destruct lb as [|b lb]; auto. destruct (Onto b ltac:(cbn; auto)) as [a [[] _]].
  - destruct (Tot a ltac:(cbn; auto)) as [b [Hb Rab]].
    apply in_split in Hb. destruct Hb as [l1 [l2 ->]].
    rewrite app_length. cbn [length]. rewrite Nat.add_succ_r, <- app_length. f_equal.
    inversion Na; subst.
    assert (Nb' := NoDup_remove_1 _ _ _ Nb). assert (Nb2 := NoDup_remove_2 _ _ _ Nb).
    assert (Hin : forall x, In x (l1 ++ l2) -> In x (l1 ++ b :: l2)).
    { intros x Hx. apply in_app_iff in Hx. apply in_app_iff. cbn. tauto. }
    assert (Hbin : In b (l1 ++ b :: l2)) by (apply in_app_iff; cbn; auto).
    apply IH; auto.
    + intros a' Ha'. destruct (Tot a' ltac:(cbn; auto)) as [b' [Hb' Rab']].
      exists b'. split; auto. apply in_app_iff in Hb'. cbn in Hb'. apply in_app_iff.
      destruct Hb' as [X|[<-|X]]; auto.
      exfalso. assert (a = a') by (apply (InjA a a' b); cbn; auto). subst. contradiction.
    + intros b' Hb'. destruct (Onto b' (Hin _ Hb')) as [a' [[<-|Ha'] Rab']]; eauto.
      exfalso. assert (b = b') by (apply (InjB a b b'); cbn; auto). subst. contradiction.
    + intros x x' y Hx Hx' Hy. apply InjA; cbn; auto.
    + intros x y y' Hx Hy Hy'. apply InjB; cbn; auto.
Qed.

Theorem components_count : forall l, Valid l -> forall cs, components l = Some cs ->
  forall reps, reps_of l reps -> length cs = length reps.
Proof.
  intros l Hv cs E reps (RN & RI & RU & RC).
  destruct (components_valid l Hv) as (cs' & E' & F & ND & Cov & Cl).
  rewrite E in E'. inversion E'; subst cs'; clear E'.
  rewrite Forall_forall in F.
  assert (NE : forall x, In x (map pedges cs) -> x <> []).
  { intros x Hx. apply in_map_iff in Hx. destruct Hx as [c [<- Hc]]. apply (F c Hc). }
  destruct (concat_NoDup_facts _ ND NE) as [NL UL].
  rewrite <- (map_length pedges cs).
  apply (bijection_length _ _ (fun es r => In r es)); auto.
  - intros es Hes. apply in_map_iff in Hes. destruct Hes as [c [<- Hc]].
    destruct (F c Hc) as (_ & Hne & _).
    destruct (pedges c) as [|e0 es'] eqn:Ec; [contradiction|].
    destruct (RC e0) as [r [Hr Hcn]].
    { apply Cov, in_concat. exists (pedges c). split; [apply in_map; auto|]. rewrite Ec. cbn; auto. }
    exists r. split; auto. rewrite <- Ec. apply (Cl c Hc e0); [rewrite Ec; cbn; auto|].
    apply conn_sym; auto.
  - intros r Hr. apply RI, Cov, in_concat in Hr. destruct Hr as [es [Hes Hr]]. eauto.
  - intros es es' r Hes Hes' _ H1 H2. eapply UL; eauto.
  - intros es r r' Hes Hr Hr' H1 H2. apply in_map_iff in Hes. destruct Hes as [c [<- Hc]].
    apply RU; auto. apply (Cl c Hc r H1). auto.
Qed.
