(* The hypothesis of Proofs/TngPCpxSem.v DISCHARGED for completely delooped complexes: when every edge of the complex is
   a scalar multiple r * (the empty cobordism), r <> 0 (what part_eval leaves of a combination of closed cobordisms),
   the interpretation "coefficient of the empty cobordism" in the ring Z satisfies [sem_laws] - by computation with the
   model's own LcCob operations.  Hence, unconditionally: an eliminate step on such a complex replaces the integer matrix
   entry by d - c a^-1 b and preserves d d = 0 over Z. *)
From Coq Require Import List Arith Bool ZArith Lia.
Import ListNotations.
Require Import Yui.Model.Link Yui.Model.Tng Yui.Model.TngCob Yui.Model.TngStack Yui.Model.TngComplex.
Require Import Yui.Proofs.TngPElim Yui.Proofs.TngPElimMat Yui.Proofs.TngPCpx Yui.Proofs.TngPCpxSem.
Local Open Scope Z_scope.

Definition Z_nc : ncring_ops Z := mk_ncring_ops Z 0 1 Z.add Z.opp Z.mul.
Lemma Z_nc_laws : ncring_laws Z_nc.
Proof. constructor; cbn [nadd nneg nmul nzero none Z_nc]; intros; ring. Qed.
Definition ZC : preadd_ops := ring_preadd Z_nc.
Definition ZC_laws : preadd_laws ZC := ring_preadd_laws Z_nc Z_nc_laws.

(* scalar combinations: [] or [([], r)] with r <> 0 *)
Definition scalar (f : lccob) : Prop := f = [] \/ exists r, r <> 0 /\ f = [([], r)].
Definition coef (f : lccob) : Z := match f with [([], r)] => r | _ => 0 end.
Definition of_coef (r : Z) : lccob := if r =? 0 then [] else [([], r)].

Lemma scalar_of_coef r : scalar (of_coef r) /\ coef (of_coef r) = r.
Proof.
  unfold of_coef. destruct (Z.eqb_spec r 0) as [->|Hr].
  - split; [now left|reflexivity].
  - split; [right; now exists r|reflexivity].
Qed.
Lemma scalar_inv f : scalar f -> f = of_coef (coef f).
Proof.
  intros [->|(r & Hr & ->)]; [reflexivity|]. unfold of_coef. cbn [coef].
  destruct (Z.eqb_spec r 0); [contradiction|reflexivity].
Qed.

Lemma lc_mul_scalar r s : lc_mul (of_coef r) (of_coef s) = Some (of_coef (r * s)).
Proof.
  unfold of_coef. destruct (Z.eqb_spec r 0) as [->|Hr]; [reflexivity|].
  destruct (Z.eqb_spec s 0) as [->|Hs].
  - rewrite Z.mul_0_r. reflexivity.
  - assert (Hrs : r * s <> 0) by (apply Z.neq_mul_0; now split).
    unfold lc_mul, lc_combine. cbn [lc_combine_loop lc_combine_row]. cbn [cob_mul cob_stack cob_stack_fuel is_nil].
    unfold lc_add_pair. destruct (Z.eqb_spec (r * s) 0); [contradiction|]. cbn [lc_insert lc_clean filter snd].
    destruct (Z.eqb_spec (r * s) 0); [contradiction|]. reflexivity.
Qed.
Lemma lc_part_eval_scalar h t r : lc_part_eval h t (of_coef r) = Some (of_coef r).
Proof. unfold of_coef. destruct (r =? 0); reflexivity. Qed.
Lemma lc_sub_scalar r s : lc_sub (of_coef r) (of_coef s) = of_coef (r - s).
Proof.
  unfold of_coef. destruct (Z.eqb_spec r 0) as [->|Hr]; destruct (Z.eqb_spec s 0) as [->|Hs].
  - reflexivity.
  - unfold lc_sub, lc_neg, lc_add. cbn [map fold_left fst snd]. unfold lc_add_pair.
    replace (0 - s) with (- s) by ring. destruct (Z.eqb_spec (- s) 0); [lia|]. cbn [lc_insert lc_clean filter snd].
    destruct (Z.eqb_spec (- s) 0); [lia|reflexivity].
  - replace (r - 0) with r by ring. unfold lc_sub, lc_neg, lc_add. cbn [map fold_left lc_clean filter snd].
    destruct (Z.eqb_spec r 0); [contradiction|]. cbn [negb]. destruct (Z.eqb_spec r 0); [contradiction|reflexivity].
  - unfold lc_sub, lc_neg, lc_add. cbn [map fold_left fst snd]. unfold lc_add_pair.
    destruct (Z.eqb_spec (- s) 0); [lia|]. cbn [lc_insert cob_eqb]. cbn [lc_clean filter snd].
    replace (r + - s) with (r - s) by ring. destruct (Z.eqb_spec (r - s) 0) as [->|]; cbn [negb]; [reflexivity|].
    reflexivity.
Qed.
Lemma lc_negv_scalar r : lc_negv (of_coef r) = of_coef (- r).
Proof.
  unfold of_coef. destruct (Z.eqb_spec r 0) as [->|Hr]; [reflexivity|].
  destruct (Z.eqb_spec (- r) 0); [lia|]. unfold lc_negv, lc_neg, lc_from_list. cbn [map fold_left fst snd].
  unfold lc_add_pair. destruct (Z.eqb_spec (- r) 0); [lia|]. cbn [lc_insert lc_clean filter snd].
  destruct (Z.eqb_spec (- r) 0); [lia|reflexivity].
Qed.
Lemma lc_inv_scalar r a' : lc_inv (of_coef r) = Some (Some a') -> a' = of_coef r /\ r * r = 1.
Proof.
  unfold of_coef. destruct (Z.eqb_spec r 0) as [->|Hr]; [discriminate|].
  cbn [lc_inv]. unfold lc_inv_first. cbn [cob_inv cob_is_invertible forallb map cob_new cob_sort]. cbn.
  unfold z_is_unit. destruct (Z.eqb_spec r 1) as [->|H1]; cbn [orb].
  - intros [= <-]. split; reflexivity.
  - destruct (Z.eqb_spec r (-1)) as [->|H2]; [|discriminate]. intros [= <-]. split; reflexivity.
Qed.

Definition sem_scalar (_ _ : tkey) (f : lccob) : phom ZC tt tt := coef f.
Definition ty_scalar (_ _ : tkey) (f : lccob) : Prop := scalar f.

Theorem scalar_sem_laws h t : sem_laws ZC (fun _ => tt) sem_scalar ty_scalar h t.
Proof.
  constructor; unfold sem_scalar, ty_scalar; cbn [peq pzero padd pneg pcomp pid ZC ring_preadd nzero none nadd nneg nmul Z_nc].
  - reflexivity.
  - intros _ _ _ f g fg Tf Tg E. rewrite (scalar_inv f Tf), (scalar_inv g Tg), lc_mul_scalar in E. injection E as <-.
    apply scalar_of_coef.
  - intros _ _ f g Tf E. rewrite (scalar_inv f Tf), lc_part_eval_scalar in E. injection E as <-.
    rewrite <- (scalar_inv f Tf). now split.
  - intros _ _ f g Tf Tg. rewrite (scalar_inv f Tf) at 1 2. rewrite (scalar_inv g Tg) at 1 2. rewrite lc_sub_scalar.
    destruct (scalar_of_coef (coef f - coef g)) as [S1 S2]. split; [assumption|]. rewrite S2. ring.
  - intros _ _ f Tf. rewrite (scalar_inv f Tf) at 1 2. rewrite lc_negv_scalar.
    destruct (scalar_of_coef (- coef f)) as [S1 S2]. split; [assumption|]. now rewrite S2.
  - intros _ _ a a' Ta E. rewrite (scalar_inv a Ta) in E. apply lc_inv_scalar in E. destruct E as [-> E].
    destruct (scalar_of_coef (coef a)) as [S1 S2]. split; [assumption|]. rewrite S2. now split.
Qed.

(* the integer matrix of a scalar complex *)
Definition zentry (vs : list vertex) (k l : tkey) : Z := match edge vs k l with Some f => coef f | None => 0 end.
Fixpoint zsum (ms : list tkey) (F : tkey -> Z) : Z := match ms with [] => 0 | m :: r => F m + zsum r F end.

Lemma Eof_zentry vs k l : Eof ZC (fun _ => tt) sem_scalar vs k l = zentry vs k l.
Proof. reflexivity. Qed.
Lemma lsum_zsum ms (F : tkey -> Z) : lsum ZC (X := tt) (Y := tt) ms F = zsum ms F.
Proof. induction ms as [|m ms IH]; [reflexivity|]. cbn [lsum zsum]. now rewrite IH. Qed.

Theorem eliminate_scalar c k0 k1 c' :
  typed ty_scalar (c_verts c) -> in_complete (c_verts c) ->
  cpx_eliminate c k0 k1 = Some c' ->
  exists a ainv,
    edge (c_verts c) k0 k1 = Some a /\ lc_inv a = Some (Some ainv) /\ coef ainv * coef a = 1 /\
    (forall l0 l1, l0 <> k0 -> l0 <> k1 -> l1 <> k0 -> l1 <> k1 ->
       zentry (c_verts c') l0 l1 =
       zentry (c_verts c) l0 l1 - zentry (c_verts c) k0 l1 * coef ainv * zentry (c_verts c) l0 k1) /\
    (forall l0 l1 f, l0 <> k0 -> l0 <> k1 -> l1 <> k0 -> l1 <> k1 -> edge (c_verts c') l0 l1 = Some f -> scalar f).
Proof.
  intros Ty Ic El.
  destruct (eliminate_entry ZC ZC_laws (fun _ => tt) sem_scalar ty_scalar (c_h c) (c_t c) (scalar_sem_laws _ _)
              c k0 k1 c' eq_refl eq_refl Ty Ic El) as (a & ainv & Ea & Einv & _ & Il & _ & Hent & Hty).
  exists a, ainv. split; [exact Ea|]. split; [exact Einv|]. split; [exact Il|]. split; [|exact Hty].
  intros l0 l1 N00 N01 N10 N11. specialize (Hent l0 l1 N00 N01 N10 N11).
  assert (Hz : zentry (c_verts c') l0 l1 =
               zentry (c_verts c) l0 l1 + - (zentry (c_verts c) k0 l1 * coef ainv * zentry (c_verts c) l0 k1)) by exact Hent.
  rewrite Hz. ring.
Qed.

Theorem eliminate_dd_scalar c k0 k1 c' :
  typed ty_scalar (c_verts c) -> in_complete (c_verts c) ->
  NoDup (map vkey (c_verts c)) -> k0 <> k1 ->
  edge (c_verts c) k0 k0 = None -> edge (c_verts c) k1 k1 = None ->
  cpx_eliminate c k0 k1 = Some c' ->
  (forall x y, In x (map vkey (c_verts c)) -> In y (map vkey (c_verts c)) ->
     zsum (map vkey (c_verts c)) (fun m => zentry (c_verts c) m y * zentry (c_verts c) x m) = 0) ->
  forall x y, In x (map vkey (c_verts c')) -> In y (map vkey (c_verts c')) ->
    zsum (map vkey (c_verts c')) (fun m => zentry (c_verts c') m y * zentry (c_verts c') x m) = 0.
Proof.
  intros Ty Ic Nd Hne S0 S1 El DD x y Hx Hy.
  pose proof (eliminate_dd ZC ZC_laws (fun _ => tt) sem_scalar ty_scalar (c_h c) (c_t c) (scalar_sem_laws _ _)
                c k0 k1 c' eq_refl eq_refl Ty Ic Nd Hne S0 S1 El) as D.
  rewrite <- lsum_zsum. apply D; try assumption.
  intros x' y' Hx' Hy'. rewrite lsum_zsum. now apply DD.
Qed.

(* ---------- decidable forms of the hypotheses (for concrete complexes) ---------- *)
Definition scalar_b (f : lccob) : bool :=
  match f with
  | [] => true
  | [(k, r)] => is_nil k && negb (r =? 0)
  | _ => false
  end.
Definition cpx_scalar_b (vs : list vertex) : bool := forallb (fun v => forallb (fun e => scalar_b (snd e)) (vout v)) vs.
Fixpoint nodup_b (ks : list tkey) : bool :=
  match ks with [] => true | k :: r => negb (key_mem k r) && nodup_b r end.
Definition dd_b (vs : list vertex) : bool :=
  let ks := map vkey vs in
  forallb (fun x => forallb (fun y => zsum ks (fun m => zentry vs m y * zentry vs x m) =? 0) ks) ks.

Lemma scalar_b_sound f : scalar_b f = true -> scalar f.
Proof.
  destruct f as [|[k r] [|q f]]; cbn [scalar_b]; try discriminate; [now left|].
  intros E. apply andb_true_iff in E. destruct E as [E1 E2]. destruct k; [|discriminate].
  right. exists r. split; [|reflexivity]. apply negb_true_iff in E2. now apply Z.eqb_neq.
Qed.
Lemma cpx_scalar_b_sound vs : cpx_scalar_b vs = true -> typed ty_scalar vs.
Proof.
  intros E k l f Ee. unfold edge in Ee. destruct (find_v vs k) as [u|] eqn:Eu; [|discriminate].
  destruct (find_v_some _ _ _ Eu) as [Hu _]. apply find_e_some in Ee.
  unfold cpx_scalar_b in E. rewrite forallb_forall in E. specialize (E u Hu). rewrite forallb_forall in E.
  apply scalar_b_sound. exact (E (l, f) Ee).
Qed.
Lemma validate_in_complete c : cpx_validate c = Some true -> in_complete (c_verts c).
Proof.
  intros Ev k l v f Ee Ew. destruct (validate_sound c Ev k l f Ee) as (vk & vl & _ & Evl & Hin & _). congruence.
Qed.
Lemma nodup_b_sound ks : nodup_b ks = true -> NoDup ks.
Proof.
  induction ks as [|k ks IH]; cbn [nodup_b]; [constructor|]. intros E. apply andb_true_iff in E. destruct E as [E1 E2].
  constructor; [|now apply IH]. intros Hi. apply key_mem_In in Hi. rewrite Hi in E1. discriminate.
Qed.
Lemma dd_b_sound vs :
  dd_b vs = true ->
  forall x y, In x (map vkey vs) -> In y (map vkey vs) ->
    zsum (map vkey vs) (fun m => zentry vs m y * zentry vs x m) = 0.
Proof.
  unfold dd_b. intros E x y Hx Hy. rewrite forallb_forall in E. specialize (E x Hx). rewrite forallb_forall in E.
  specialize (E y Hy). now apply Z.eqb_eq.
Qed.
